import CfrVerif.Proofs.BestResponse
/-!
# From the compiled game to the player view

* `evV_view` : evaluating the view of player `me` with `me`'s own strategy gives `me`'s expected
  payoff (`expected`, negated for player two), provided no strategy entry is negative
  (`expected` skips the edges whose probability is not positive, `evV` multiplies by it).
* `view_VOK`, `view_PRV` : the view of a well-formed game is a well-formed view with perfect
  recall, for exactly the `N`, `nActs` that `optimalDeviations` passes to `bestResponse`.
* `stratOK_iff` : the strategies that fit the view are the valid strategies that fit the game.
-/
set_option linter.unusedSectionVars false
namespace Cfr
variable {α : Type} [Field α] [LinearOrder α] [IsStrictOrderedRing α]

/-- a payoff of player one as seen by player `me` -/
def sg (me : Bool) (x : α) : α := if me then x else -x

theorem sg_zero (me : Bool) : sg me (0 : α) = 0 := by cases me <;> simp [sg]
theorem sg_add (me : Bool) (x y : α) : sg me (x + y) = sg me x + sg me y := by
  cases me <;> simp [sg]; ring
theorem sg_mul (me : Bool) (p x : α) : sg me (p * x) = p * sg me x := by
  cases me <;> simp [sg]

theorem viewL_length (ch : List (List α)) (σo : Strat α) (me : Bool) :
    ∀ ks : List (Node α), (viewL ch σo me ks).length = ks.length
  | [] => by simp [viewL]
  | k :: ks => by simp [viewL, viewL_length ch σo me ks]

/-! ## value of the view = expected payoff -/

mutual
theorem evV_view (ch : List (List α)) (σ : Bool → Strat α) (me : Bool)
    (hnn : ∀ one i, ∀ p ∈ (σ one).at i, 0 ≤ p) :
    ∀ n : Node α, evV (σ me) (view ch (σ (!me)) me n) = sg me (expected ch σ n)
  | .term p => by cases me <;> simp [view, evV, expected, sg]
  | .chance i ks => by
    simp only [view, evV, expected]
    exact evVN_viewL ch σ me hnn false (ch.getD i []) ks (by simp)
  | .player one i ks => by
    by_cases h : one = me
    · subst h
      simp only [view, expected, beq_self_eq_true, if_true, evV]
      exact evVN_viewL ch σ one hnn true _ ks (fun _ => hnn one i)
    · obtain rfl : one = !me := by cases me <;> cases one <;> simp_all
      have hb : ((!me) == me) = false := by cases me <;> rfl
      simp only [view, expected, hb, Bool.false_eq_true, if_false, evV]
      exact evVN_viewL ch σ me hnn true _ ks (fun _ => hnn (!me) i)
theorem evVN_viewL (ch : List (List α)) (σ : Bool → Strat α) (me : Bool)
    (hnn : ∀ one i, ∀ p ∈ (σ one).at i, 0 ≤ p) (skip : Bool) :
    ∀ (ws : List α) (ks : List (Node α)), (skip = true → ∀ w ∈ ws, 0 ≤ w) →
      evVN (σ me) ws (viewL ch (σ (!me)) me ks) = sg me (expectedL ch σ skip ws ks)
  | [], ks, _ => by simp [evVN, expectedL, sg_zero]
  | _ :: _, [], _ => by simp [viewL, evVN, expectedL, sg_zero]
  | w :: ws, k :: ks, hw => by
    have a := evV_view ch σ me hnn k
    have b := evVN_viewL ch σ me hnn skip ws ks (fun hs w hw' => hw hs w (by simp [hw']))
    simp only [viewL, evVN, expectedL, a, b, sg_add]
    congr 1
    by_cases hs : (skip && !(decide (0 < w))) = true
    · have hs' : skip = true ∧ ¬ 0 < w := by simpa using hs
      have h0 : w = 0 := le_antisymm (not_lt.mp hs'.2) (hw hs'.1 w (by simp))
      subst h0
      simp [sg_zero]
    · simp only [hs, Bool.false_eq_true, if_false, sg_mul]
end

/-! ## the view is well formed -/

theorem fits_at (g : Game α) (p : Bool) (τ : Strat α) (hfit : FitsGame g p τ) (i : Nat) (e : PInfo)
    (he : (g.infos p)[i]? = some e) : ∃ v, τ[i]? = some v ∧ v.length = e.actions.length := by
  have h := congrArg (fun l => l[i]?) hfit
  simp only [List.getElem?_map, he, Option.map_some] at h
  cases hv : τ[i]? with
  | none => simp [hv] at h
  | some v => exact ⟨v, rfl, by simpa [hv] using h⟩

/-- the `nActs` that `optimalDeviations` passes to `bestResponse` -/
abbrev nActsOf (g : Game α) (me : Bool) : Nat → Nat :=
  fun i => ((g.infos me).getD i default).actions.length

mutual
theorem view_VOK (g : Game α) (hch : ∀ ps ∈ g.chance, ∀ p ∈ ps, 0 ≤ p) (me : Bool) (σo : Strat α)
    (hσ : IsStrat σo) (hfit : FitsGame g (!me) σo) :
    ∀ n : Node α, NodeOK g n →
      VOK (g.infos me).length (nActsOf g me) (view g.chance σo me n)
  | .term p, _ => by simp [view, VOK]
  | .chance i ks, h => by
    obtain ⟨⟨ps, hps, hl⟩, _, hk⟩ := (by simpa [NodeOK] using h :
      (∃ ps, g.chance[i]? = some ps ∧ ps.length = ks.length) ∧ 2 ≤ ks.length ∧ NodeOKL g ks)
    have e : g.chance.getD i [] = ps := by simp [List.getD_eq_getElem?_getD, hps]
    simp only [view, VOK, e]
    exact ⟨by rw [viewL_length]; exact hl, hch ps (List.mem_of_getElem? hps),
      view_VOKL g hch me σo hσ hfit ks hk⟩
  | .player one i ks, h => by
    obtain ⟨⟨e, he, hl⟩, h2, hk⟩ := (by simpa [NodeOK] using h :
      (∃ e, (g.infos one)[i]? = some e ∧ e.actions.length = ks.length) ∧ 2 ≤ ks.length ∧
        NodeOKL g ks)
    have ih := view_VOKL g hch me σo hσ hfit ks hk
    by_cases hm : one = me
    · subst hm
      simp only [view, beq_self_eq_true, if_true, VOK, viewL_length]
      refine ⟨?_, ?_, by omega, ih⟩
      · exact (List.getElem?_eq_some_iff.mp he).1
      · simp [nActsOf, List.getD_eq_getElem?_getD, he, hl]
    · obtain rfl : one = !me := by cases me <;> cases one <;> simp_all
      have hb : ((!me) == me) = false := by cases me <;> rfl
      obtain ⟨v, hv, hvl⟩ := fits_at g (!me) σo hfit i e he
      have e' : σo.at i = v := by simp [Strat.at, List.getD_eq_getElem?_getD, hv]
      simp only [view, hb, Bool.false_eq_true, if_false, VOK, viewL_length, e']
      exact ⟨by omega, (hσ v (List.mem_of_getElem? hv)).1, ih⟩
theorem view_VOKL (g : Game α) (hch : ∀ ps ∈ g.chance, ∀ p ∈ ps, 0 ≤ p) (me : Bool) (σo : Strat α)
    (hσ : IsStrat σo) (hfit : FitsGame g (!me) σo) :
    ∀ ks : List (Node α), NodeOKL g ks →
      VOKL (g.infos me).length (nActsOf g me) (viewL g.chance σo me ks)
  | [], _ => by simp [viewL, VOKL]
  | k :: ks, h => by
    obtain ⟨h1, h2⟩ := (by simpa [NodeOKL] using h : NodeOK g k ∧ NodeOKL g ks)
    simp only [viewL, VOKL]
    exact ⟨view_VOK g hch me σo hσ hfit k h1, view_VOKL g hch me σo hσ hfit ks h2⟩
end

/-! ## perfect recall carries over -/

mutual
theorem view_PRV (ch : List (List α)) (σo : Strat α) (me : Bool) (hist : Nat → Hist) :
    ∀ (n : Node α) (H : Hist), PR me hist H n → PRV hist H (view ch σo me n)
  | .term p, H, _ => by simp [view, PRV]
  | .chance i ks, H, h => by
    simp only [view, PRV]
    exact view_PRVL ch σo me hist ks H (by simpa [PR] using h)
  | .player one i ks, H, h => by
    by_cases hm : one = me
    · subst hm
      obtain ⟨h1, h2⟩ := (by simpa [PR] using h : hist i = H ∧ PRD one hist H i 0 ks)
      simp only [view, beq_self_eq_true, if_true, PRV]
      exact ⟨h1, view_PRVD ch σo one hist ks H i 0 h2⟩
    · have hb : (one == me) = false := by simpa using hm
      have h' : PRL me hist H ks := by simpa [PR, hm] using h
      simp only [view, hb, Bool.false_eq_true, if_false, PRV]
      exact view_PRVL ch σo me hist ks H h'
theorem view_PRVL (ch : List (List α)) (σo : Strat α) (me : Bool) (hist : Nat → Hist) :
    ∀ (ks : List (Node α)) (H : Hist), PRL me hist H ks → PRVL hist H (viewL ch σo me ks)
  | [], H, _ => by simp [viewL, PRVL]
  | k :: ks, H, h => by
    obtain ⟨h1, h2⟩ := (by simpa [PRL] using h : PR me hist H k ∧ PRL me hist H ks)
    simp only [viewL, PRVL]
    exact ⟨view_PRV ch σo me hist k H h1, view_PRVL ch σo me hist ks H h2⟩
theorem view_PRVD (ch : List (List α)) (σo : Strat α) (me : Bool) (hist : Nat → Hist) :
    ∀ (ks : List (Node α)) (H : Hist) (i a : Nat), PRD me hist H i a ks →
      PRVD hist H i a (viewL ch σo me ks)
  | [], H, i, a, _ => by simp [viewL, PRVD]
  | k :: ks, H, i, a, h => by
    obtain ⟨h1, h2⟩ := (by simpa [PRD] using h :
      PR me hist (H ++ [(i, a)]) k ∧ PRD me hist H i (a + 1) ks)
    simp only [viewL, PRVD]
    exact ⟨view_PRV ch σo me hist k _ h1, view_PRVD ch σo me hist ks H i (a + 1) h2⟩
end

/-! ## strategies -/

theorem stratOK_iff (g : Game α) (me : Bool) (τ : Strat α) :
    StratOK (g.infos me).length (nActsOf g me) τ ↔ IsStrat τ ∧ FitsGame g me τ := by
  unfold StratOK FitsGame
  constructor
  · rintro ⟨hl, hlen, hs⟩
    refine ⟨hs, ?_⟩
    apply List.ext_getElem (by simp [hl])
    intro i h1 h2
    have hi : i < (g.infos me).length := by simpa using h2
    have hi' : i < τ.length := by simpa using h1
    have := hlen i hi
    simpa [Strat.at, nActsOf, List.getD_eq_getElem?_getD, hi, hi'] using this
  · rintro ⟨hs, hfit⟩
    have hl : τ.length = (g.infos me).length := by simpa using congrArg List.length hfit
    refine ⟨hl, ?_, hs⟩
    intro i hi
    obtain ⟨v, hv, hvl⟩ := fits_at g me τ hfit i _ (List.getElem?_eq_getElem hi)
    simp [Strat.at, nActsOf, List.getD_eq_getElem?_getD, hv, hvl, hi]

/-- entries of a valid strategy are non-negative (`at` of a missing index is `[]`) -/
theorem isStrat_at_nonneg (τ : Strat α) (h : IsStrat τ) (i : Nat) : ∀ p ∈ τ.at i, 0 ≤ p := by
  intro p hp
  unfold Strat.at at hp
  rw [List.getD_eq_getElem?_getD] at hp
  cases hv : τ[i]? with
  | none => simp [hv] at hp
  | some v =>
    rw [hv] at hp
    exact (h v (List.mem_of_getElem? hv)).1 p (by simpa using hp)

end Cfr
