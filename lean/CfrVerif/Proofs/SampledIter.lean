import CfrVerif.Proofs.PresetGameInv
import CfrVerif.Model.External
/-!
# One iteration of the sampled solvers = the DCFR update with the sampled increments

For the unsampled solver `PG.cell_step` says that one iteration maps every infoset's state by
`Q ↦ disc_t(Q + r)`, `S ↦ (t/(t+1))^γ (S + s)`, `σ ↦ RM(Q + r)` with the exact counterfactual
regrets `r`.  The sampled solvers perform the *same* update with the sampled increments — what
the sampled traversal of the pass adds (`effSum` of its effect list), which C04 shows to be unbiased
estimates of `r`.  In external sampling a pass updates the regrets and the strategy of the updating
player only, and the average-strategy accumulator of the other player only.
-/
set_option linter.unusedSectionVars false
set_option linter.unusedVariables false
namespace Cfr

/-- the increments of one traversal, as vectors over the actions of an infoset -/
noncomputable def incVec (es : List (Eff ℝ)) (me : Bool) (I : Nat) (slot : Slot) (n : Nat) : List ℝ :=
  (List.range n).map (fun a => effSum es me I slot a)


namespace SI

/-- the cell after `applyEffs`, in vector form -/
theorem applyEffs_vec (s : SolveSt ℝ) (es : List (Eff ℝ)) (me : Bool) (I : Nat) (x : InfoSt ℝ)
    (hx : (s.get me)[I]? = some x) :
    ∃ x', ((s.applyEffs es).get me)[I]? = some x' ∧ x'.strat = x.strat ∧
      x'.cumRegret = vadd x.cumRegret (incVec es me I Slot.regret x.cumRegret.length) ∧
      x'.cumStrat = vadd x.cumStrat (incVec es me I Slot.strat x.cumStrat.length) := by
  obtain ⟨_, hc⟩ := applyEffs_cell s es me
  obtain ⟨x', g1, s1, r2, t2, cr2, cs2⟩ := hc I x hx
  refine ⟨x', g1, s1, ?_, ?_⟩
  · exact PG.eq_vadd _ _ _ _ rfl r2 cr2
  · exact PG.eq_vadd _ _ _ _ rfl t2 cs2

theorem vanillaIter_get (g : Game ℝ) (sampled : Bool) (p : RegretParams ℝ) (draw : DrawFn ℝ)
    (it : ℕ) (s : SolveSt ℝ) (log : List (DrawRec ℝ)) (me : Bool) :
    (vanillaIter g sampled p draw it s log).1.get me
      = ((s.applyEffs (vrec ⟨g.chance, sampled, s.strat, draw, it - 1⟩ g.root 1 1 1
          { log := log }).2.1).get me).map (fun x => (x.advance p it it).1) := by
  simp only [vanillaIter]
  cases me
  · exact (advanceAll_spec p it it _ 0).1
  · exact (advanceAll_spec p it it _ 0).1

theorem get_set_same (s : SolveSt ℝ) (o : Bool) (l : List (InfoSt ℝ)) : (s.set o l).get o = l := by
  cases o <;> simp [SolveSt.set, SolveSt.get]

theorem get_set_ne (s : SolveSt ℝ) (o me : Bool) (l : List (InfoSt ℝ)) (h : me ≠ o) :
    (s.set o l).get me = s.get me := by
  cases o <;> cases me <;> simp_all [SolveSt.set, SolveSt.get]

theorem externalPass_state (g : Game ℝ) (first : Bool) (p : RegretParams ℝ) (draw : DrawFn ℝ)
    (it : ℕ) (s : SolveSt ℝ) (log : List (DrawRec ℝ)) :
    (externalPass g first p draw it s log).1
      = (s.applyEffs (erec ⟨g.chance, first, s.strat, draw,
            2 * (it - 1) + (if first then 0 else 1), if first then it - 1 else it⟩ g.root
            { log := log }).2.1).set first
          (((s.applyEffs (erec ⟨g.chance, first, s.strat, draw,
            2 * (it - 1) + (if first then 0 else 1), if first then it - 1 else it⟩ g.root
            { log := log }).2.1).get first).map
            (fun x => (x.advance p it (if first then it - 1 else it)).1)) := by
  simp only [externalPass]
  rw [(advanceAll_spec p it (if first then it - 1 else it) _ 0).1]

/-! ### the traversal adds nothing to the average-strategy accumulator of the updating player -/

theorem effSum_extStratEffs_strat_ne (one : Bool) (i : ℕ) (me : Bool) (I a : ℕ) (h : one ≠ me) :
    ∀ (σ : List ℝ) (k : ℕ), effSum (extStratEffs one i σ k) me I Slot.strat a = 0
  | [], k => by simp [extStratEffs]
  | s :: σ, k => by
    simp [extStratEffs, effSum_cons, h, effSum_extStratEffs_strat_ne one i me I a h σ (k + 1)]

theorem effSum_subEffsE_strat (one : Bool) (i : ℕ) (sub : ℝ) (n : ℕ) (me : Bool) (I a : ℕ) :
    effSum (subEffsE one i sub n) me I Slot.strat a = 0 :=
  effSum_subEffs_strat one i sub n me I a

theorem effSum_cons_regret_strat (one : Bool) (i k : ℕ) (δ : ℝ) (es : List (Eff ℝ)) (me : Bool)
    (I a : ℕ) :
    effSum (⟨one, i, .regret, k, δ⟩ :: es) me I Slot.strat a = effSum es me I Slot.strat a := by
  rw [effSum_cons]
  simp

mutual
theorem erec_strat_zero (c : ECtx ℝ) (I a : ℕ) :
    ∀ (n : Node ℝ) (d : DrawSt ℝ), effSum (erec c n d).2.1 c.first I Slot.strat a = 0
  | .term p, d => by simp [erec]
  | .chance i ks, d => by
    rw [erec_chance']
    exact erecNth_strat_zero c I a ks _ _
  | .player one i ks, d => by
    by_cases ho : (one == c.first) = true
    · rw [erec_own' c one i ks d ho]
      simp only [effSum_append, effSum_subEffsE_strat]
      rw [erecActs_strat_zero c I a one i _ ks d 0 0]
      simp
    · have ho' : one ≠ c.first := by simpa using ho
      rw [erec_opp' c one i ks d ho]
      simp only [effSum_append, effSum_extStratEffs_strat_ne one i c.first I a ho', zero_add]
      exact erecNth_strat_zero c I a ks _ _
theorem erecNth_strat_zero (c : ECtx ℝ) (I a : ℕ) :
    ∀ (ks : List (Node ℝ)) (k : ℕ) (d : DrawSt ℝ),
      effSum (erecNth c ks k d).2.1 c.first I Slot.strat a = 0
  | [], _, d => by simp [erecNth]
  | k :: _, 0, d => by
    simp only [erecNth]
    exact erec_strat_zero c I a k d
  | _ :: ks, n + 1, d => by
    simp only [erecNth]
    exact erecNth_strat_zero c I a ks n d
theorem erecActs_strat_zero (c : ECtx ℝ) (I a : ℕ) (one : Bool) (i : ℕ) :
    ∀ (ss : List ℝ) (ks : List (Node ℝ)) (d : DrawSt ℝ) (k : ℕ) (ex : ℝ),
      effSum (erecActs c one i ss ks d k ex).2.1 c.first I Slot.strat a = 0
  | s :: ss, n :: ks, d, k, ex => by
    rw [erecActs_cons']
    simp only [effSum_append]
    rw [effSum_cons_regret_strat, erec_strat_zero c I a n d,
      erecActs_strat_zero c I a one i ss ks _ _ _]
    simp
  | [], _, d, _, _ => by simp [erecActs]
  | _ :: _, [], d, _, _ => by simp [erecActs]
end

theorem vadd_zeros (x : List ℝ) (f : ℕ → ℝ) (h : ∀ a, f a = 0) :
    vadd x ((List.range x.length).map f) = x := by
  symm
  apply PG.eq_vadd _ _ _ _ rfl rfl
  intro a _
  rw [h a, add_zero]

end SI

/-- **chance-sampled CFR, one iteration**: the DCFR update with the increments of the sampled
traversal (any draw oracle) -/
theorem sampled_iterate_update (g : Game ℝ) (hg : GameWF g) (p : RegretParams ℝ) (draw : DrawFn ℝ)
    (it : Nat) (s : SolveSt ℝ) (log : List (DrawRec ℝ)) (hs : StOK g s) (me : Bool) (I : Nat)
    (x : InfoSt ℝ) (hx : (s.get me)[I]? = some x) :
    let es := (vrec ⟨g.chance, true, s.strat, draw, it - 1⟩ g.root 1 1 1 { log := log }).2.1
    ∃ x', ((vanillaIter g true p draw it s log).1.get me)[I]? = some x' ∧
      x'.cumRegret = discountCumRegret p it
        (vadd x.cumRegret (incVec es me I Slot.regret x.cumRegret.length)) ∧
      x'.cumStrat = discountAverageStrat p it
        (vadd x.cumStrat (incVec es me I Slot.strat x.cumStrat.length)) ∧
      x'.strat = regretMatch p.noPositive
        (vadd x.cumRegret (incVec es me I Slot.regret x.cumRegret.length)) := by
  intro es
  obtain ⟨x', g1, _, eR, eS⟩ := SI.applyEffs_vec s es me I x hx
  refine ⟨(x'.advance p it it).1, ?_, ?_, ?_, ?_⟩
  · rw [SI.vanillaIter_get, List.getElem?_map, g1]; rfl
  · simp only [InfoSt.advance, eR]
  · simp only [InfoSt.advance, eS]
  · simp only [InfoSt.advance, eR]

/-- **external sampling, one pass**: the updating player's infosets get the DCFR regret update
with the sampled increments and their average-strategy accumulator is only discounted; the other
player's infosets only receive the sampled strategy additions -/
theorem external_pass_update (g : Game ℝ) (hg : GameWF g) (first : Bool) (p : RegretParams ℝ)
    (draw : DrawFn ℝ) (it : Nat) (s : SolveSt ℝ) (log : List (DrawRec ℝ)) (hs : StOK g s)
    (me : Bool) (I : Nat) (x : InfoSt ℝ) (hx : (s.get me)[I]? = some x) :
    let c : ECtx ℝ := ⟨g.chance, first, s.strat, draw, 2 * (it - 1) + (if first then 0 else 1),
      if first then it - 1 else it⟩
    let es := (erec c g.root { log := log }).2.1
    ∃ x', ((externalPass g first p draw it s log).1.get me)[I]? = some x' ∧
      (me = first →
        x'.cumRegret = discountCumRegret p it
          (vadd x.cumRegret (incVec es me I Slot.regret x.cumRegret.length)) ∧
        x'.cumStrat = discountAverageStrat p (if first then it - 1 else it) x.cumStrat ∧
        x'.strat = regretMatch p.noPositive
          (vadd x.cumRegret (incVec es me I Slot.regret x.cumRegret.length))) ∧
      (me ≠ first →
        x'.cumRegret = x.cumRegret ∧ x'.strat = x.strat ∧
        x'.cumStrat = vadd x.cumStrat (incVec es me I Slot.strat x.cumStrat.length)) := by
  intro c es
  obtain ⟨x', g1, sS, eR, eS⟩ := SI.applyEffs_vec s es me I x hx
  by_cases hm : me = first
  · refine ⟨(x'.advance p it (if first then it - 1 else it)).1, ?_, ?_, ?_⟩
    · rw [SI.externalPass_state, hm, SI.get_set_same, List.getElem?_map]
      rw [hm] at g1
      rw [g1]; rfl
    · intro _
      have eS' : x'.cumStrat = x.cumStrat := by
        rw [eS]
        apply SI.vadd_zeros
        intro a
        rw [hm]
        exact SI.erec_strat_zero c I a g.root _
      refine ⟨?_, ?_, ?_⟩
      · simp only [InfoSt.advance, eR]
      · simp only [InfoSt.advance, eS']
      · simp only [InfoSt.advance, eR]
    · intro h; exact absurd hm h
  · refine ⟨x', ?_, ?_, ?_⟩
    · rw [SI.externalPass_state, SI.get_set_ne _ _ _ _ hm]
      exact g1
    · intro h; exact absurd h hm
    · intro _
      have eR' : x'.cumRegret = x.cumRegret := by
        rw [eR]
        apply SI.vadd_zeros
        intro a
        exact erec_zero c me I a g.root _ (fun h => absurd h hm)
      exact ⟨eR', sS, eS⟩

end Cfr
