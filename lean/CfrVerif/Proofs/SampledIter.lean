import CfrVerif.Proofs.PresetGameInv
import CfrVerif.Model.External
/-!
# One iteration of the sampled solvers = the DCFR update with the sampled increments

For the unsampled solver `PG.cell_step` says that one iteration maps every infoset's state by
`Q ↦ disc_t(Q + r)`, `S ↦ (t/(t+1))^γ (S + s)`, `σ ↦ RM(Q + r)` with the exact counterfactual
regrets `r`.  The sampled solvers perform the *same* update with the sampled increments — what
the sampled traversal of the pass adds (`effSum` of its effect list), which C04 shows to be unbiased
estimates of `r`.  In external sampling a pass updates the regrets and the strategy of the updating
player only, and the average-strategy accumulator of the other player only.
-/
set_option linter.unusedSectionVars false
namespace Cfr

/-- the increments of one traversal, as vectors over the actions of an infoset -/
noncomputable def incVec (es : List (Eff ℝ)) (me : Bool) (I : Nat) (slot : Slot) (n : Nat) : List ℝ :=
  (List.range n).map (fun a => effSum es me I slot a)

/-- **chance-sampled CFR, one iteration**: the DCFR update with the increments of the sampled
traversal (any draw oracle) -/
theorem sampled_iterate_update (g : Game ℝ) (hg : GameWF g) (p : RegretParams ℝ) (draw : DrawFn ℝ)
    (it : Nat) (s : SolveSt ℝ) (log : List (DrawRec ℝ)) (hs : StOK g s) (me : Bool) (I : Nat)
    (x : InfoSt ℝ) (hx : (s.get me)[I]? = some x) :
    let es := (vrec ⟨g.chance, true, s.strat, draw, it - 1⟩ g.root 1 1 1 { log := log }).2.1
    ∃ x', ((vanillaIter g true p draw it s log).1.get me)[I]? = some x' ∧
      x'.cumRegret = discountCumRegret p it
        (vadd x.cumRegret (incVec es me I Slot.regret x.cumRegret.length)) ∧
      x'.cumStrat = discountAverageStrat p it
        (vadd x.cumStrat (incVec es me I Slot.strat x.cumStrat.length)) ∧
      x'.strat = regretMatch p.noPositive
        (vadd x.cumRegret (incVec es me I Slot.regret x.cumRegret.length)) := by
  sorry

/-- **external sampling, one pass**: the updating player's infosets get the DCFR regret update
with the sampled increments and their average-strategy accumulator is only discounted; the other
player's infosets only receive the sampled strategy additions -/
theorem external_pass_update (g : Game ℝ) (hg : GameWF g) (first : Bool) (p : RegretParams ℝ)
    (draw : DrawFn ℝ) (it : Nat) (s : SolveSt ℝ) (log : List (DrawRec ℝ)) (hs : StOK g s)
    (me : Bool) (I : Nat) (x : InfoSt ℝ) (hx : (s.get me)[I]? = some x) :
    let c : ECtx ℝ := ⟨g.chance, first, s.strat, draw, 2 * (it - 1) + (if first then 0 else 1),
      if first then it - 1 else it⟩
    let es := (erec c g.root { log := log }).2.1
    ∃ x', ((externalPass g first p draw it s log).1.get me)[I]? = some x' ∧
      (me = first →
        x'.cumRegret = discountCumRegret p it
          (vadd x.cumRegret (incVec es me I Slot.regret x.cumRegret.length)) ∧
        x'.cumStrat = discountAverageStrat p (if first then it - 1 else it) x.cumStrat ∧
        x'.strat = regretMatch p.noPositive
          (vadd x.cumRegret (incVec es me I Slot.regret x.cumRegret.length))) ∧
      (me ≠ first →
        x'.cumRegret = x.cumRegret ∧ x'.strat = x.strat ∧
        x'.cumStrat = vadd x.cumStrat (incVec es me I Slot.strat x.cumStrat.length)) := by
  sorry

end Cfr
