import CfrVerif.Proofs.Locks
/-!
# The executable checker of the pool hypotheses is sound

`poolOKb` (Model/Locks.lean) is what the driver evaluates on the mutex traces *observed* in the
crate, one list per worker thread and pass.  It implies `Lk.PoolOK`, hence the three conclusions
for every interleaving of the observed traces.
-/
namespace Cfr
namespace Lk

theorem tryLocksOf_eq (t : List LEv) : tryLocksOf t = tryLocks t := by
  induction t with
  | nil => rfl
  | cons e t ih => cases e <;> simp [tryLocksOf, tryLocks, ih]

theorem blockLocksOf_eq (t : List LEv) : blockLocksOf t = blockLocks t := by
  induction t with
  | nil => rfl
  | cons e t ih => cases e <;> simp [blockLocksOf, blockLocks, ih]

theorem tryLocksOf_fun : tryLocksOf = tryLocks := funext tryLocksOf_eq
theorem blockLocksOf_fun : blockLocksOf = blockLocks := funext blockLocksOf_eq

theorem nodupb_iff (l : List LockId) : nodupb l = true ↔ l.Nodup := by
  induction l with
  | nil => simp [nodupb]
  | cons a l ih => simp [nodupb, ih, List.nodup_cons]

theorem leafCSb_iff (t : List LEv) : leafCSb t = true ↔ LeafCS t := by
  fun_induction leafCSb t with
  | case1 => simp
  | case2 l l' t ih => simp [ih]
  | case3 l t h =>
    constructor
    · intro h'; cases h'
    · intro h'
      obtain ⟨t', rfl, _⟩ := LeafCS_acq h'
      exact absurd rfl (h l t')
  | case4 e t h1 h2 ih =>
    cases e with
    | tryAcq l => simpa using ih
    | rel l => simpa using ih
    | acq l =>
      cases t with
      | nil => exact absurd rfl (h2 l)
      | cons e' t' =>
        cases e' with
        | rel l' => exact (h1 l l' t' rfl rfl).elim
        | tryAcq l' => exact absurd rfl (h2 l)
        | acq l' => exact absurd rfl (h2 l)

theorem relOKb_iff (t : List LEv) : relOKb t = true ↔ RelOK t := by
  induction t with
  | nil => simp [relOKb, RelOK]
  | cons e t ih => cases e <;> simp [relOKb, RelOK, ih]

theorem poolOKb_iff (ts : List (List LEv)) : poolOKb ts = true ↔ PoolOK ts := by
  simp only [poolOKb, tryLocksOf_fun, blockLocksOf_fun, Bool.and_eq_true, List.all_eq_true,
    nodupb_iff, leafCSb_iff, relOKb_iff, Bool.not_eq_true', List.contains_eq_mem,
    decide_eq_false_iff_not]
  constructor
  · rintro ⟨⟨⟨h1, h2⟩, h3⟩, h4⟩
    exact ⟨h1, h2, h3, fun t ht => (RelOK_iff t).mp (h4 t ht)⟩
  · intro h
    exact ⟨⟨⟨h.tryNodup, h.leaf⟩, h.disjoint⟩, fun t ht => (RelOK_iff t).mpr (h.released t ht)⟩

/-- **soundness of the checker** -/
theorem poolOKb_sound (ts : List (List LEv)) (h : poolOKb ts = true) : PoolOK ts :=
  (poolOKb_iff ts).mp h

/-- and completeness: the checker rejects only traces outside the hypotheses -/
theorem poolOKb_complete (ts : List (List LEv)) (h : PoolOK ts) : poolOKb ts = true :=
  (poolOKb_iff ts).mpr h

end Lk

/-- **observed traces that pass the checker can neither panic on a `try_lock` nor deadlock**, under
any thread schedule; every schedule ends and leaves all mutexes free -/
theorem checked_traces_safe (ts : List (List LEv)) (h : poolOKb ts = true) {n : Nat} {cfg : LCfg}
    (hr : LReach (LCfg.init ts) n cfg) :
    (∀ j, lstep cfg j ≠ LOut.panic) ∧
    (cfg.finished = true ∨ ∃ j cfg', lstep cfg j = LOut.ok cfg') ∧
    n + cfg.remaining = (LCfg.init ts).remaining ∧
    (cfg.finished = true → cfg.held = []) :=
  ⟨Lk.no_panic (Lk.poolOKb_sound ts h) hr, Lk.no_deadlock (Lk.poolOKb_sound ts h) hr,
   Lk.steps_bounded ts hr, Lk.finished_all_free (Lk.poolOKb_sound ts h) hr⟩

/-- the pass context of `externalLockPasses` is the one `externalPass` uses -/
theorem externalPass_uses_externalCtx {α : Type} [Field α] [LinearOrder α] [IsStrictOrderedRing α]
    [Transc α] (g : Game α) (first : Bool) (p : RegretParams α) (draw : DrawFn α) (it : Nat)
    (s : SolveSt α) (log : List (DrawRec α)) :
    externalPass g first p draw it s log =
      (let c := externalCtx g first draw it s
       let r := erec c g.root { log := log }
       let s' := s.applyEffs r.2.1
       let a := advanceAll p it (if first then it - 1 else it) (s'.get first) 0
       (s'.set first a.1, a.2, r.2.2.log)) := by
  rfl

end Cfr
