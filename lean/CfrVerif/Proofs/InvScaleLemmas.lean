import CfrVerif.Proofs.Transforms
import CfrVerif.Proofs.Basic
import CfrVerif.Model.Eval
import CfrVerif.Model.Vanilla
import CfrVerif.Model.External
/-!
# Helper lemmas for `Proofs/InvScale.lean` (C12, part 2)

* `compile` never looks at the payoffs (`compile_mapPay`);
* evaluation is homogeneous (`expected_scale`, `view_scale`, `collect_mapTerm`, `search_scale`,
  `resolveAll_scale`, `bestResponse_scale`);
* regret matching is scale-free, discounting and the bounds are homogeneous;
* a traversal of the scaled game returns the scaled value and the same effects with the regret
  increments scaled (`vrec_scale`, `erec_scale`); applying them and `advance` commute with scaling
  the cumulative regrets (`SolveSt.scaleR`).
-/
set_option linter.unusedSectionVars false
namespace Cfr
variable {α : Type} [Field α] [LinearOrder α] [IsStrictOrderedRing α]

/-! ## construction -/

theorem Node.mapPayL_eq_map (f : α → α) : ∀ ks : List (Node α), Node.mapPayL f ks = ks.map (Node.mapPay f)
  | [] => rfl
  | k :: ks => by simp [Node.mapPayL, Node.mapPayL_eq_map f ks]

/-- the image of a compile result -/
def mapRes (f : α → α) : Node α × BState α → Node α × BState α := fun x => (x.1.mapPay f, x.2)

theorem registerChance_mapPay (f : α → α) (info : Option Nat) (probs : List α) (kids : List (Node α))
    (s : BState α) :
    registerChance info probs (Node.mapPayL f kids) s
      = (registerChance info probs kids s).map (mapRes f) := by
  match kids with
  | [] => rfl
  | [k] =>
    simp only [Node.mapPayL, registerChance]
    split
    · rfl
    · split
      · split <;> rfl
      · rfl
  | k :: k' :: ks =>
    simp only [Node.mapPayL, registerChance]
    split
    · rfl
    · split
      · split <;> rfl
      · rfl

mutual
theorem compile_mapPay (f : α → α) : ∀ (r : Raw α) (prev : Prev) (s : BState α),
    compile (r.mapPay f) prev s = (compile r prev s).map (mapRes f)
  | .term p, prev, s => by
    simp [Raw.mapPay, compile, Except.map, mapRes, Node.mapPay]
  | .chance info ws ks, prev, s => by
    simp only [Raw.mapPay, compile]
    rw [compileOutcomes_mapPay f ws ks prev s]
    cases h : compileOutcomes ws ks prev s with
    | error e => rfl
    | ok x =>
      obtain ⟨ps, ns, s'⟩ := x
      simp only [Except.map]
      exact registerChance_mapPay f info ps ns s'
  | .player one info [] ks, prev, s => by
    simp only [Raw.mapPay, compile]; rfl
  | .player one info (_ :: _) [], prev, s => by
    simp only [Raw.mapPay, Raw.mapPayL, compile]; rfl
  | .player one info [a] (k :: ks), prev, s => by
    simp only [Raw.mapPay, Raw.mapPayL, compile]
    cases registerSingle one info a s with
    | error e => rfl
    | ok s' => exact compile_mapPay f k prev s'
  | .player one info (a :: b :: as) (k :: ks), prev, s => by
    have hk : Raw.mapPayL f (k :: ks) = Raw.mapPay f k :: Raw.mapPayL f ks := by
      simp [Raw.mapPayL]
    simp only [Raw.mapPay]
    rw [hk]
    simp only [compile]
    rw [← hk]
    cases registerPlayer one info (a :: b :: as) prev s with
    | error e => rfl
    | ok x =>
      obtain ⟨i, s'⟩ := x
      simp only
      rw [compileActions_mapPay f (k :: ks) one i 0 prev s']
      cases compileActions (k :: ks) one i 0 prev s' with
      | error e => rfl
      | ok y => rfl
theorem compileOutcomes_mapPay (f : α → α) : ∀ (ws : List α) (ks : List (Raw α)) (prev : Prev) (s : BState α),
    compileOutcomes ws (Raw.mapPayL f ks) prev s
      = (compileOutcomes ws ks prev s).map (fun x => (x.1, Node.mapPayL f x.2.1, x.2.2))
  | [], _, prev, s => by
    simp [compileOutcomes, Except.map, Node.mapPayL]
  | _ :: _, [], prev, s => by
    simp [compileOutcomes, Except.map, Node.mapPayL, Raw.mapPayL]
  | w :: ws, k :: ks, prev, s => by
    simp only [Raw.mapPayL, compileOutcomes]
    split
    · rw [compile_mapPay f k prev s]
      cases compile k prev s with
      | error e => rfl
      | ok x =>
        obtain ⟨n, s'⟩ := x
        simp only [Except.map, mapRes]
        rw [compileOutcomes_mapPay f ws ks prev s']
        cases compileOutcomes ws ks prev s' with
        | error e => rfl
        | ok y => rfl
    · rfl
theorem compileActions_mapPay (f : α → α) : ∀ (ks : List (Raw α)) (one : Bool) (i a : Nat) (prev : Prev) (s : BState α),
    compileActions (Raw.mapPayL f ks) one i a prev s
      = (compileActions ks one i a prev s).map (fun x => (Node.mapPayL f x.1, x.2))
  | [], one, i, a, prev, s => rfl
  | k :: ks, one, i, a, prev, s => by
    simp only [Raw.mapPayL, compileActions]
    rw [compile_mapPay f k _ s]
    cases compile k (prev.set one (some (i, a))) s with
    | error e => rfl
    | ok x =>
      obtain ⟨n, s'⟩ := x
      simp only [Except.map, mapRes]
      rw [compileActions_mapPay f ks one i (a+1) prev s']
      cases compileActions ks one i (a+1) prev s' with
      | error e => rfl
      | ok y => rfl
end

theorem fromRoot_mapPay_aux (f : α → α) (r : Raw α) :
    fromRoot (r.mapPay f) = (fromRoot r).map (Game.mapPay f) := by
  simp only [fromRoot]
  rw [compile_mapPay]
  cases compile r {} {} with
  | error e => rfl
  | ok x => rfl


/-! ## evaluation -/

mutual
theorem expected_scale (c : α) (ch : List (List α)) (σ : Bool → Strat α) : ∀ n : Node α,
    expected ch σ (n.mapPay (fun x => c * x)) = c * expected ch σ n
  | .term p => by simp [Node.mapPay, expected]
  | .chance i ks => by
    simp only [Node.mapPay, expected]; exact expectedL_scale c ch σ false _ ks
  | .player one i ks => by
    simp only [Node.mapPay, expected]; exact expectedL_scale c ch σ true _ ks
theorem expectedL_scale (c : α) (ch : List (List α)) (σ : Bool → Strat α) (skip : Bool) :
    ∀ (ps : List α) (ks : List (Node α)),
    expectedL ch σ skip ps (Node.mapPayL (fun x => c * x) ks) = c * expectedL ch σ skip ps ks
  | [], ks => by simp [expectedL]
  | _ :: _, [] => by simp [expectedL, Node.mapPayL]
  | p :: ps, k :: ks => by
    simp only [Node.mapPayL, expectedL]
    rw [expected_scale c ch σ k, expectedL_scale c ch σ skip ps ks]
    split_ifs <;> ring
end

mutual
/-- apply `f` to every terminal of a view -/
def V.mapTerm (f : α → α) : V α → V α
  | .term u => .term (f u)
  | .nature ws ks => .nature ws (V.mapTermL f ks)
  | .decide i ks => .decide i (V.mapTermL f ks)
def V.mapTermL (f : α → α) : List (V α) → List (V α)
  | [] => []
  | k :: ks => V.mapTerm f k :: V.mapTermL f ks
end

mutual
theorem view_scale (c : α) (ch : List (List α)) (σo : Strat α) (me : Bool) : ∀ n : Node α,
    view ch σo me (n.mapPay (fun x => c * x)) = (view ch σo me n).mapTerm (fun x => c * x)
  | .term p => by
    cases me <;> simp [Node.mapPay, view, V.mapTerm]
  | .chance i ks => by
    simp only [Node.mapPay, view, V.mapTerm]; rw [viewL_scale c ch σo me ks]
  | .player one i ks => by
    simp only [Node.mapPay, view]
    split_ifs <;> simp only [V.mapTerm] <;> rw [viewL_scale c ch σo me ks]
theorem viewL_scale (c : α) (ch : List (List α)) (σo : Strat α) (me : Bool) : ∀ ks : List (Node α),
    viewL ch σo me (Node.mapPayL (fun x => c * x) ks) = V.mapTermL (fun x => c * x) (viewL ch σo me ks)
  | [] => rfl
  | k :: ks => by
    simp only [Node.mapPayL, viewL, V.mapTermL]
    rw [view_scale c ch σo me k, viewL_scale c ch σo me ks]
end

def Reached.mapTerm (f : α → α) (h : Reached α) : Reached α := ⟨h.info, V.mapTermL f h.kids, h.reach⟩

mutual
theorem collect_mapTerm (f : α → α) : ∀ (v : V α) (r : α),
    collect (v.mapTerm f) r = (collect v r).map (Reached.mapTerm f)
  | .term u, r => by simp [V.mapTerm, collect]
  | .nature ws ks, r => by
    simp only [V.mapTerm, collect]; exact collectN_mapTerm f ws ks r
  | .decide i ks, r => by
    simp only [V.mapTerm, collect, List.map_cons]
    rw [collectD_mapTerm f ks r]; rfl
theorem collectN_mapTerm (f : α → α) : ∀ (ws : List α) (ks : List (V α)) (r : α),
    collectN ws (V.mapTermL f ks) r = (collectN ws ks r).map (Reached.mapTerm f)
  | [], ks, r => by simp [collectN]
  | _ :: _, [], r => by simp [collectN, V.mapTermL]
  | w :: ws, k :: ks, r => by
    simp only [V.mapTermL, collectN, List.map_append]
    rw [collectN_mapTerm f ws ks r]
    split_ifs
    · rw [collect_mapTerm f k (w * r)]
    · simp
theorem collectD_mapTerm (f : α → α) : ∀ (ks : List (V α)) (r : α),
    collectD (V.mapTermL f ks) r = (collectD ks r).map (Reached.mapTerm f)
  | [], r => by simp [collectD, V.mapTermL]
  | k :: ks, r => by
    simp only [V.mapTermL, collectD, List.map_append]
    rw [collect_mapTerm f k r, collectD_mapTerm f ks r]
end

theorem getD_scale (c : α) (mu : List α) (i : Nat) :
    (mu.map (fun x => c * x)).getD i 0 = c * mu.getD i 0 := by
  simp only [List.getD_eq_getElem?_getD, List.getElem?_map]
  cases mu[i]? <;> simp

mutual
theorem search_scale (c : α) (mu : List α) : ∀ v : V α,
    search (mu.map (fun x => c * x)) (v.mapTerm (fun x => c * x)) = c * search mu v
  | .term u => by simp [V.mapTerm, search]
  | .nature ws ks => by
    simp only [V.mapTerm, search]; exact searchN_scale c mu ws ks
  | .decide i ks => by
    simp only [V.mapTerm, search]; exact getD_scale c mu i
theorem searchN_scale (c : α) (mu : List α) : ∀ (ws : List α) (ks : List (V α)),
    searchN (mu.map (fun x => c * x)) ws (V.mapTermL (fun x => c * x) ks) = c * searchN mu ws ks
  | [], ks => by simp [searchN]
  | _ :: _, [] => by simp [searchN, V.mapTermL]
  | w :: ws, k :: ks => by
    simp only [V.mapTermL, searchN]
    rw [search_scale c mu k, searchN_scale c mu ws ks]
    split_ifs <;> ring
end

theorem addPayoffs_scale (c : α) (mu : List α) (r : α) : ∀ (acc : List α) (ks : List (V α)),
    addPayoffs (mu.map (fun x => c * x)) r (acc.map (fun x => c * x)) (V.mapTermL (fun x => c * x) ks)
      = (addPayoffs mu r acc ks).map (fun x => c * x)
  | [], ks => by simp [addPayoffs]
  | _ :: _, [] => by simp [addPayoffs, V.mapTermL]
  | a :: acc, k :: ks => by
    simp only [V.mapTermL, List.map_cons, addPayoffs]
    rw [search_scale c mu k, addPayoffs_scale c mu r acc ks]
    congr 1; ring

theorem foldl_addPayoffs_scale (c : α) (mu : List α) : ∀ (l : List (Reached α)) (acc : List α),
    (l.map (Reached.mapTerm (fun x => c * x))).foldl
        (fun acc n => addPayoffs (mu.map (fun x => c * x)) n.reach acc n.kids) (acc.map (fun x => c * x))
      = (l.foldl (fun acc n => addPayoffs mu n.reach acc n.kids) acc).map (fun x => c * x)
  | [], acc => rfl
  | h :: l, acc => by
    simp only [List.map_cons, List.foldl_cons]
    have := addPayoffs_scale c mu h.reach acc h.kids
    simp only [Reached.mapTerm]
    rw [this]
    exact foldl_addPayoffs_scale c mu l _

theorem filter_mapTerm (f : α → α) (I : Nat) (nodes : List (Reached α)) :
    (nodes.map (Reached.mapTerm f)).filter (·.info == I)
      = (nodes.filter (·.info == I)).map (Reached.mapTerm f) := by
  rw [List.filter_map]; rfl

theorem infoPayoffs_scale (c : α) (nodes : List (Reached α)) (nActs I : Nat) (mu : List α) :
    infoPayoffs (nodes.map (Reached.mapTerm (fun x => c * x))) nActs I (mu.map (fun x => c * x))
      = (infoPayoffs nodes nActs I mu).map (fun x => c * x) := by
  unfold infoPayoffs
  rw [filter_mapTerm, ← foldl_addPayoffs_scale]
  simp

theorem foldl_fmax_scale (c : α) (hc : 0 < c) : ∀ (l : List α) (x : α),
    (l.map (fun x => c * x)).foldl fmax (c * x) = c * l.foldl fmax x
  | [], x => rfl
  | y :: l, x => by
    simp only [List.map_cons, List.foldl_cons]
    rw [fmax_eq_max, fmax_eq_max, ← mul_max_of_nonneg _ _ hc.le]
    exact foldl_fmax_scale c hc l _

theorem maxList_scale (c : α) (hc : 0 < c) (l : List α) :
    maxList (l.map (fun x => c * x)) = (maxList l).map (fun x => c * x) := by
  cases l with
  | nil => rfl
  | cons x xs => simp [maxList, foldl_fmax_scale c hc]

theorem resolveOne_scale (c : α) (hc : 0 < c) (nodes : List (Reached α)) (nActs I : Nat) (mu : List α) :
    resolveOne (nodes.map (Reached.mapTerm (fun x => c * x))) nActs I (mu.map (fun x => c * x))
      = (resolveOne nodes nActs I mu).map (fun x => c * x) := by
  unfold resolveOne
  simp only [infoPayoffs_scale, maxList_scale c hc, filter_mapTerm]
  have h1 : ((nodes.filter (·.info == I)).map (Reached.mapTerm (fun x => c * x))).isEmpty
      = (nodes.filter (·.info == I)).isEmpty := by simp
  have h2 : ((nodes.filter (·.info == I)).map (Reached.mapTerm (fun x => c * x))).map (·.reach)
      = (nodes.filter (·.info == I)).map (·.reach) := by
    simp [Reached.mapTerm, Function.comp_def]
  rw [h1, h2]
  split_ifs
  · rfl
  · cases maxList (infoPayoffs nodes nActs I mu) with
    | none => rfl
    | some m => simp [List.map_set, mul_div_assoc]

theorem resolveAll_scale (c : α) (hc : 0 < c) (nodes : List (Reached α)) (nActs : Nat → Nat) :
    ∀ (n : Nat) (mu : List α),
    resolveAll (nodes.map (Reached.mapTerm (fun x => c * x))) nActs n (mu.map (fun x => c * x))
      = (resolveAll nodes nActs n mu).map (fun x => c * x)
  | 0, mu => rfl
  | n + 1, mu => by
    simp only [resolveAll]
    rw [resolveOne_scale c hc, resolveAll_scale c hc nodes nActs n]

theorem bestResponse_scale (c : α) (hc : 0 < c) (N : Nat) (nActs : Nat → Nat) (v : V α) :
    bestResponse N nActs (v.mapTerm (fun x => c * x)) = c * bestResponse N nActs v := by
  unfold bestResponse
  simp only
  rw [collect_mapTerm]
  have : List.replicate N (0 : α) = (List.replicate N (0 : α)).map (fun x => c * x) := by simp
  rw [this, resolveAll_scale c hc, search_scale, ← this]

theorem optimalDeviations_scale (c : α) (hc : 0 < c) (g : Game α) (me : Bool) (σo : Strat α) :
    optimalDeviations (g.mapPay (fun x => c * x)) me σo = c * optimalDeviations g me σo := by
  unfold optimalDeviations
  simp only [Game.mapPay, Game.infos]
  rw [view_scale, bestResponse_scale c hc]

theorem getInfo_scale_aux (c : α) (hc : 0 < c) (g : Game α) (σ : Bool → Strat α) :
    (getInfo (g.mapPay (fun x => c * x)) σ).util = c * (getInfo g σ).util ∧
    (getInfo (g.mapPay (fun x => c * x)) σ).regretOne = c * (getInfo g σ).regretOne ∧
    (getInfo (g.mapPay (fun x => c * x)) σ).regretTwo = c * (getInfo g σ).regretTwo := by
  simp only [getInfo, optimalDeviations_scale c hc]
  have he : expected (g.mapPay (fun x => c * x)).chance σ (g.mapPay (fun x => c * x)).root
      = c * expected g.chance σ g.root := by
    simp only [Game.mapPay]; exact expected_scale c g.chance σ g.root
  rw [he]
  refine ⟨rfl, ?_, ?_⟩
  · rw [fmax_eq_max, fmax_eq_max, ← mul_sub, ← mul_zero c, ← mul_max_of_nonneg _ _ hc.le, mul_zero]
  · rw [fmax_eq_max, fmax_eq_max, ← mul_add, ← mul_zero c, ← mul_max_of_nonneg _ _ hc.le, mul_zero]



/-! ## regret matching, discounting, bounds -/

theorem pos_scale_iff {c : α} (hc : 0 < c) (r : α) : 0 < c * r ↔ 0 < r :=
  mul_pos_iff_of_pos_left hc

theorem neg_scale_iff {c : α} (hc : 0 < c) (r : α) : c * r < 0 ↔ r < 0 := by
  have := mul_lt_mul_iff_right₀ hc (b := r) (c := 0)
  rwa [mul_zero] at this

theorem argmaxLast_go_scale {c : α} (hc : 0 < c) : ∀ (ys : List α) (i : Nat) (b : α) (bi : Nat),
    argmaxLast.go (ys.map (fun x => c * x)) i (c * b) bi = argmaxLast.go ys i b bi
  | [], i, b, bi => rfl
  | y :: ys, i, b, bi => by
    simp only [List.map_cons, argmaxLast.go, mul_lt_mul_iff_right₀ hc]
    split_ifs
    · exact argmaxLast_go_scale hc ys _ b bi
    · exact argmaxLast_go_scale hc ys _ y i

theorem argmaxLast_scale {c : α} (hc : 0 < c) (l : List α) :
    argmaxLast (l.map (fun x => c * x)) = argmaxLast l := by
  cases l with
  | nil => rfl
  | cons x xs => simp only [List.map_cons, argmaxLast]; exact argmaxLast_go_scale hc xs 1 x 0

theorem argminFirst_go_scale {c : α} (hc : 0 < c) : ∀ (ys : List α) (i : Nat) (b : α) (bi : Nat),
    argminFirst.go (ys.map (fun x => c * x)) i (c * b) bi = argminFirst.go ys i b bi
  | [], i, b, bi => rfl
  | y :: ys, i, b, bi => by
    simp only [List.map_cons, argminFirst.go, mul_lt_mul_iff_right₀ hc]
    split_ifs
    · exact argminFirst_go_scale hc ys _ y i
    · exact argminFirst_go_scale hc ys _ b bi

theorem argminFirst_scale {c : α} (hc : 0 < c) (l : List α) :
    argminFirst (l.map (fun x => c * x)) = argminFirst l := by
  cases l with
  | nil => rfl
  | cons x xs => simp only [List.map_cons, argminFirst]; exact argminFirst_go_scale hc xs 1 x 0

theorem lsum_filter_pos_scale {c : α} (hc : 0 < c) : ∀ l : List α,
    lsum ((l.map (fun x => c * x)).filter (fun v => 0 < v)) = c * lsum (l.filter (fun v => 0 < v))
  | [] => by simp
  | x :: l => by
    simp only [List.map_cons, List.filter_cons, pos_scale_iff hc, decide_eq_true_eq]
    split_ifs
    · rw [lsum_cons, lsum_cons, lsum_filter_pos_scale hc l]; ring
    · exact lsum_filter_pos_scale hc l

theorem regretMatch_scale [Transc α] {c : α} (hc : 0 < c) (np : Ext α)
    (hnp : np = .fin 0 ∨ np = .posInf ∨ np = .negInf) (R : List α) :
    regretMatch np (R.map (fun x => c * x)) = regretMatch np R := by
  unfold regretMatch
  simp only [lsum_filter_pos_scale hc, pos_scale_iff hc, List.length_map, argmaxLast_scale hc,
    argminFirst_scale hc]
  split_ifs with h
  · rw [List.map_map]
    apply List.map_congr_left
    intro r _
    simp only [Function.comp, pos_scale_iff hc]
    split_ifs
    · exact mul_div_mul_left _ _ hc.ne'
    · rfl
  · rcases hnp with rfl | rfl | rfl
    · simp
    · rfl
    · rfl

theorem discountCumRegret_scale [Transc α] {c : α} (hc : 0 < c) (p : RegretParams α) (it : Nat)
    (R : List α) :
    discountCumRegret p it (R.map (fun x => c * x)) = (discountCumRegret p it R).map (fun x => c * x) := by
  unfold discountCumRegret
  simp only [List.map_map]
  apply List.map_congr_left
  intro r _
  simp only [Function.comp, pos_scale_iff hc, neg_scale_iff hc]
  split_ifs <;> ring

theorem maxD_scale {c : α} (hc : 0 < c) (l : List α) :
    maxD 0 (l.map (fun x => c * x)) = c * maxD 0 l := by
  cases l with
  | nil => simp [maxD]
  | cons x xs => simp only [List.map_cons, maxD]; exact foldl_fmax_scale c hc xs x

theorem fmax_zero_scale {c : α} (hc : 0 < c) (m : α) : fmax (c * m) 0 = c * fmax m 0 := by
  rw [fmax_eq_max, fmax_eq_max, mul_max_of_nonneg _ _ hc.le, mul_zero]

theorem cumRegretBound_scale {c : α} (hc : 0 < c) (it : Nat) (R : List α) :
    cumRegretBound it (R.map (fun x => c * x)) = c * cumRegretBound it R := by
  unfold cumRegretBound
  rw [maxD_scale hc, fmax_zero_scale hc]; ring

/-! ## solver states -/

/-- cumulative regrets multiplied by `c`, everything else unchanged -/
def InfoSt.scaleR (c : α) (x : InfoSt α) : InfoSt α :=
  ⟨x.cumRegret.map (fun r => c * r), x.cumStrat, x.strat⟩

def SolveSt.scaleR (c : α) (s : SolveSt α) : SolveSt α :=
  ⟨s.one.map (InfoSt.scaleR c), s.two.map (InfoSt.scaleR c)⟩

/-- regret accumulations multiplied by `c` -/
def Eff.sc (c : α) (e : Eff α) : Eff α :=
  match e.slot with
  | .regret => { e with delta := c * e.delta }
  | .strat => e

theorem advance_scale [Transc α] {c : α} (hc : 0 < c) (p : RegretParams α) (hp : p.noPositive = .fin 0 ∨ p.noPositive = .posInf ∨ p.noPositive = .negInf)
    (it itAvg : Nat) (x : InfoSt α) :
    (x.scaleR c).advance p it itAvg
      = ((x.advance p it itAvg).1.scaleR c, c * (x.advance p it itAvg).2) := by
  simp only [InfoSt.advance, InfoSt.scaleR, regretMatch_scale hc _ hp, discountCumRegret_scale hc,
    cumRegretBound_scale hc]

theorem advanceAll_scale [Transc α] {c : α} (hc : 0 < c) (p : RegretParams α) (hp : p.noPositive = .fin 0 ∨ p.noPositive = .posInf ∨ p.noPositive = .negInf)
    (it itAvg : Nat) : ∀ (xs : List (InfoSt α)) (acc : α),
    advanceAll p it itAvg (xs.map (InfoSt.scaleR c)) (c * acc)
      = ((advanceAll p it itAvg xs acc).1.map (InfoSt.scaleR c), c * (advanceAll p it itAvg xs acc).2)
  | [], acc => rfl
  | x :: xs, acc => by
    simp only [List.map_cons, advanceAll, advance_scale hc p hp]
    rw [← mul_add, advanceAll_scale hc p hp it itAvg xs]

theorem get_scaleR (c : α) (s : SolveSt α) (one : Bool) :
    (s.scaleR c).get one = (s.get one).map (InfoSt.scaleR c) := by
  cases one <;> rfl

theorem set_scaleR (c : α) (s : SolveSt α) (one : Bool) (l : List (InfoSt α)) :
    (s.scaleR c).set one (l.map (InfoSt.scaleR c)) = (s.set one l).scaleR c := by
  cases one <;> rfl

theorem strat_scaleR (c : α) (s : SolveSt α) : (s.scaleR c).strat = s.strat := by
  funext one i
  simp only [SolveSt.strat, get_scaleR, List.getElem?_map]
  cases (s.get one)[i]? <;> rfl

theorem avg_scaleR (c : α) (s : SolveSt α) (one : Bool) : (s.scaleR c).avg one = s.avg one := by
  simp only [SolveSt.avg, get_scaleR, List.map_map]
  rfl

theorem modify_map {β γ : Type} (f : β → γ) (g : γ → γ) (g' : β → β) (h : ∀ x, g (f x) = f (g' x)) :
    ∀ (l : List β) (i : Nat), (l.map f).modify i g = (l.modify i g').map f
  | [], i => by simp
  | x :: l, 0 => by simp [h]
  | x :: l, i + 1 => by simp [modify_map f g g' h l i]

theorem apply_sc (c : α) (x : InfoSt α) (slot : Slot) (a : Nat) (d : α) :
    (x.scaleR c).apply slot a (match slot with | .regret => c * d | .strat => d)
      = (x.apply slot a d).scaleR c := by
  cases slot
  · simp only [InfoSt.apply, InfoSt.scaleR, addAt]
    congr 1
    exact modify_map _ _ _ (fun x => by ring) _ _
  · rfl

theorem applyEff_sc (c : α) (s : SolveSt α) (e : Eff α) :
    (s.scaleR c).applyEff (e.sc c) = (s.applyEff e).scaleR c := by
  obtain ⟨one, info, slot, act, delta⟩ := e
  have h1 : (Eff.sc c ⟨one, info, slot, act, delta⟩) =
      ⟨one, info, slot, act, (match slot with | .regret => c * delta | .strat => delta)⟩ := by
    cases slot <;> rfl
  rw [h1]
  simp only [SolveSt.applyEff, get_scaleR]
  rw [modify_map (InfoSt.scaleR c) _ (fun x => x.apply slot act delta) (fun x => apply_sc c x slot act delta)]
  exact set_scaleR c s one _

theorem applyEffs_sc (c : α) : ∀ (es : List (Eff α)) (s : SolveSt α),
    (s.scaleR c).applyEffs (es.map (Eff.sc c)) = (s.applyEffs es).scaleR c
  | [], s => rfl
  | e :: es, s => by
    simp only [SolveSt.applyEffs, List.map_cons, List.foldl_cons]
    rw [applyEff_sc]
    exact applyEffs_sc c es _

theorem init_mapPay (f : α → α) (g : Game α) : SolveSt.init (g.mapPay f) = SolveSt.init g := rfl

theorem init_scaleR (c : α) (g : Game α) : (SolveSt.init g).scaleR c = SolveSt.init g := by
  simp [SolveSt.init, SolveSt.scaleR, InfoSt.scaleR, InfoSt.new, Function.comp_def]



/-! ## traversals -/

/-- the image of a traversal result: value and regret effects multiplied by `c` -/
def scRes (c : α) (r : α × List (Eff α) × DrawSt α) : α × List (Eff α) × DrawSt α :=
  (c * r.1, r.2.1.map (Eff.sc c), r.2.2)

theorem stratEffs_sc (c : α) (one : Bool) (i : Nat) (own : α) : ∀ (σ : List α) (a : Nat),
    (stratEffs one i own σ a).map (Eff.sc c) = stratEffs one i own σ a
  | [], a => rfl
  | s :: σ, a => by
    simp only [stratEffs, List.map_cons, stratEffs_sc c one i own σ]; rfl

theorem subEffs_sc (c : α) (one : Bool) (i : Nat) (sub : α) (n : Nat) :
    (subEffs one i sub n).map (Eff.sc c) = subEffs one i (c * sub) n := by
  simp only [subEffs, List.map_map]
  apply List.map_congr_left
  intro a _
  simp [Eff.sc]

theorem extStratEffs_sc (c : α) (one : Bool) (i : Nat) : ∀ (σ : List α) (a : Nat),
    (extStratEffs one i σ a).map (Eff.sc c) = extStratEffs one i σ a
  | [], a => rfl
  | s :: σ, a => by
    simp only [extStratEffs, List.map_cons, extStratEffs_sc c one i σ]; rfl

theorem subEffsE_sc (c : α) (one : Bool) (i : Nat) (sub : α) (n : Nat) :
    (subEffsE one i sub n).map (Eff.sc c) = subEffsE one i (c * sub) n := by
  simp only [subEffsE, List.map_map]
  apply List.map_congr_left
  intro a _
  simp [Eff.sc]

variable [Transc α]

mutual
theorem vrec_scale (c : α) (x : VCtx α) : ∀ (n : Node α) (pc p1 p2 : α) (d : DrawSt α),
    vrec x (n.mapPay (fun y => c * y)) pc p1 p2 d = scRes c (vrec x n pc p1 p2 d)
  | .term p, pc, p1, p2, d => by simp [Node.mapPay, vrec, scRes]
  | .chance i ks, pc, p1, p2, d => by
    simp only [Node.mapPay, vrec]
    split_ifs
    · exact vrecNth_scale c x ks _ pc p1 p2 _
    · have := vrecChance_scale c x (x.ch.getD i []) ks pc p1 p2 d 0
      rw [mul_zero] at this
      exact this
  | .player one i ks, pc, p1, p2, d => by
    simp only [Node.mapPay, vrec]
    have := vrecActs_scale c x one i (if one then pc * p2 else -p1 * pc) (x.strat one i) ks pc p1 p2 d 0 0 0
    rw [mul_zero] at this
    rw [this]
    simp only [scRes, List.map_append, stratEffs_sc, subEffs_sc]
theorem vrecNth_scale (c : α) (x : VCtx α) : ∀ (ks : List (Node α)) (k : Nat) (pc p1 p2 : α) (d : DrawSt α),
    vrecNth x (Node.mapPayL (fun y => c * y) ks) k pc p1 p2 d = scRes c (vrecNth x ks k pc p1 p2 d)
  | [], _, _, _, _, d => by simp [Node.mapPayL, vrecNth, scRes]
  | k :: _, 0, pc, p1, p2, d => by
    simp only [Node.mapPayL, vrecNth]; exact vrec_scale c x k pc p1 p2 d
  | _ :: ks, n + 1, pc, p1, p2, d => by
    simp only [Node.mapPayL, vrecNth]; exact vrecNth_scale c x ks n pc p1 p2 d
theorem vrecChance_scale (c : α) (x : VCtx α) : ∀ (ps : List α) (ks : List (Node α)) (pc p1 p2 : α)
    (d : DrawSt α) (acc : α),
    vrecChance x ps (Node.mapPayL (fun y => c * y) ks) pc p1 p2 d (c * acc)
      = scRes c (vrecChance x ps ks pc p1 p2 d acc)
  | p :: ps, k :: ks, pc, p1, p2, d, acc => by
    simp only [Node.mapPayL, vrecChance]
    rw [vrec_scale c x k (pc * p) p1 p2 d]
    have := vrecChance_scale c x ps ks pc p1 p2 (vrec x k (pc * p) p1 p2 d).2.2
      (acc + p * (vrec x k (pc * p) p1 p2 d).1)
    simp only [scRes] at this ⊢
    rw [show c * acc + p * (c * (vrec x k (pc * p) p1 p2 d).1)
      = c * (acc + p * (vrec x k (pc * p) p1 p2 d).1) by ring, this]
    simp
  | [], _, _, _, _, d, _ => by simp [vrecChance, scRes]
  | _ :: _, [], _, _, _, d, _ => by simp [Node.mapPayL, vrecChance, scRes]
theorem vrecActs_scale (c : α) (x : VCtx α) (one : Bool) (i : Nat) (mult : α) :
    ∀ (σ : List α) (ks : List (Node α)) (pc p1 p2 : α) (d : DrawSt α) (a : Nat) (eo ex : α),
    vrecActs x one i mult σ (Node.mapPayL (fun y => c * y) ks) pc p1 p2 d a (c * eo) (c * ex)
      = (c * (vrecActs x one i mult σ ks pc p1 p2 d a eo ex).1,
         c * (vrecActs x one i mult σ ks pc p1 p2 d a eo ex).2.1,
         (vrecActs x one i mult σ ks pc p1 p2 d a eo ex).2.2.1.map (Eff.sc c),
         (vrecActs x one i mult σ ks pc p1 p2 d a eo ex).2.2.2)
  | s :: σ, k :: ks, pc, p1, p2, d, a, eo, ex => by
    simp only [Node.mapPayL, vrecActs]
    cases one with
    | true =>
      simp only [if_true]
      rw [vrec_scale c x k pc (p1 * s) p2 d]
      have := vrecActs_scale c x true i mult σ ks pc p1 p2 (vrec x k pc (p1 * s) p2 d).2.2 (a + 1)
        (eo + s * (vrec x k pc (p1 * s) p2 d).1) (ex + (vrec x k pc (p1 * s) p2 d).1 * mult * s)
      simp only [scRes] at this ⊢
      rw [show c * eo + s * (c * (vrec x k pc (p1 * s) p2 d).1)
        = c * (eo + s * (vrec x k pc (p1 * s) p2 d).1) by ring,
        show c * ex + c * (vrec x k pc (p1 * s) p2 d).1 * mult * s
        = c * (ex + (vrec x k pc (p1 * s) p2 d).1 * mult * s) by ring, this]
      simp [Eff.sc, mul_assoc]
    | false =>
      simp only [Bool.false_eq_true, if_false]
      rw [vrec_scale c x k pc p1 (p2 * s) d]
      have := vrecActs_scale c x false i mult σ ks pc p1 p2 (vrec x k pc p1 (p2 * s) d).2.2 (a + 1)
        (eo + s * (vrec x k pc p1 (p2 * s) d).1) (ex + (vrec x k pc p1 (p2 * s) d).1 * mult * s)
      simp only [scRes] at this ⊢
      rw [show c * eo + s * (c * (vrec x k pc p1 (p2 * s) d).1)
        = c * (eo + s * (vrec x k pc p1 (p2 * s) d).1) by ring,
        show c * ex + c * (vrec x k pc p1 (p2 * s) d).1 * mult * s
        = c * (ex + (vrec x k pc p1 (p2 * s) d).1 * mult * s) by ring, this]
      simp [Eff.sc, mul_assoc]
  | [], _, _, _, _, d, _, _, _ => by simp [vrecActs]
  | _ :: _, [], _, _, _, d, _, _, _ => by simp [Node.mapPayL, vrecActs]
end



mutual
theorem erec_scale (c : α) (x : ECtx α) : ∀ (n : Node α) (d : DrawSt α),
    erec x (n.mapPay (fun y => c * y)) d = scRes c (erec x n d)
  | .term p, d => by
    simp only [Node.mapPay, erec, scRes, List.map_nil]
    split_ifs <;> simp
  | .chance i ks, d => by
    simp only [Node.mapPay, erec]
    exact erecNth_scale c x ks _ _
  | .player one i ks, d => by
    simp only [Node.mapPay, erec]
    split_ifs
    · have := erecActs_scale c x one i (x.strat one i) ks d 0 0
      rw [mul_zero] at this
      rw [this]
      simp only [scRes, List.map_append, subEffsE_sc]
    all_goals
      rw [erecNth_scale c x ks _ _]
      simp only [scRes, List.map_append, extStratEffs_sc]
theorem erecNth_scale (c : α) (x : ECtx α) : ∀ (ks : List (Node α)) (k : Nat) (d : DrawSt α),
    erecNth x (Node.mapPayL (fun y => c * y) ks) k d = scRes c (erecNth x ks k d)
  | [], _, d => by simp [Node.mapPayL, erecNth, scRes]
  | k :: _, 0, d => by
    simp only [Node.mapPayL, erecNth]; exact erec_scale c x k d
  | _ :: ks, n + 1, d => by
    simp only [Node.mapPayL, erecNth]; exact erecNth_scale c x ks n d
theorem erecActs_scale (c : α) (x : ECtx α) (one : Bool) (i : Nat) :
    ∀ (σ : List α) (ks : List (Node α)) (d : DrawSt α) (a : Nat) (ex : α),
    erecActs x one i σ (Node.mapPayL (fun y => c * y) ks) d a (c * ex)
      = scRes c (erecActs x one i σ ks d a ex)
  | s :: σ, k :: ks, d, a, ex => by
    simp only [Node.mapPayL, erecActs]
    rw [erec_scale c x k d]
    have := erecActs_scale c x one i σ ks (erec x k d).2.2 (a + 1) (ex + s * (erec x k d).1)
    simp only [scRes] at this ⊢
    rw [show c * ex + s * (c * (erec x k d).1) = c * (ex + s * (erec x k d).1) by ring, this]
    simp [Eff.sc]
  | [], _, d, _, _ => by simp [erecActs, scRes]
  | _ :: _, [], d, _, _ => by simp [Node.mapPayL, erecActs, scRes]
end

/-! ## iterations -/

/-- the image of an iteration result -/
def scIter (c : α) (r : SolveSt α × α × α × List (DrawRec α)) : SolveSt α × α × α × List (DrawRec α) :=
  (r.1.scaleR c, c * r.2.1, c * r.2.2.1, r.2.2.2)

theorem vanillaIter_scale {c : α} (hc : 0 < c) (g : Game α) (sampled : Bool) (p : RegretParams α)
    (hp : p.noPositive = .fin 0 ∨ p.noPositive = .posInf ∨ p.noPositive = .negInf)
    (draw : DrawFn α) (it : Nat) (s : SolveSt α) (log : List (DrawRec α)) :
    vanillaIter (g.mapPay (fun y => c * y)) sampled p draw it (s.scaleR c) log
      = scIter c (vanillaIter g sampled p draw it s log) := by
  simp only [vanillaIter, strat_scaleR, Game.mapPay, vrec_scale, scRes, applyEffs_sc, scIter]
  have h1 := advanceAll_scale hc p hp it it
    (s.applyEffs (vrec ⟨g.chance, sampled, s.strat, draw, it - 1⟩ g.root 1 1 1 { log := log }).2.1).one 0
  have h2 := advanceAll_scale hc p hp it it
    (s.applyEffs (vrec ⟨g.chance, sampled, s.strat, draw, it - 1⟩ g.root 1 1 1 { log := log }).2.1).two 0
  rw [mul_zero] at h1 h2
  simp only [SolveSt.scaleR, h1, h2]

theorem externalPass_scale {c : α} (hc : 0 < c) (g : Game α) (first : Bool) (p : RegretParams α)
    (hp : p.noPositive = .fin 0 ∨ p.noPositive = .posInf ∨ p.noPositive = .negInf)
    (draw : DrawFn α) (it : Nat) (s : SolveSt α) (log : List (DrawRec α)) :
    externalPass (g.mapPay (fun y => c * y)) first p draw it (s.scaleR c) log
      = ((externalPass g first p draw it s log).1.scaleR c, c * (externalPass g first p draw it s log).2.1,
          (externalPass g first p draw it s log).2.2) := by
  simp only [externalPass, strat_scaleR, Game.mapPay, erec_scale, scRes, applyEffs_sc, get_scaleR]
  have h1 := fun (xs : List (InfoSt α)) => advanceAll_scale hc p hp it (if first then it - 1 else it) xs 0
  simp only [mul_zero] at h1
  simp only [h1, set_scaleR]

theorem externalIter_scale {c : α} (hc : 0 < c) (g : Game α) (p : RegretParams α)
    (hp : p.noPositive = .fin 0 ∨ p.noPositive = .posInf ∨ p.noPositive = .negInf)
    (draw : DrawFn α) (it : Nat) (s : SolveSt α) (log : List (DrawRec α)) :
    externalIter (g.mapPay (fun y => c * y)) p draw it (s.scaleR c) log
      = scIter c (externalIter g p draw it s log) := by
  simp only [externalIter, externalPass_scale hc g _ p hp, scIter]

/-! ## the loop -/

theorem belowThreshold_scale {c : α} (hc : 0 < c) (r1 r2 : α) (thr : Option (Ext α)) :
    belowThreshold (c * r1) (c * r2) (thr.map (Ext.scale c)) = belowThreshold r1 r2 thr := by
  cases thr with
  | none => rfl
  | some t =>
    simp only [Option.map_some, belowThreshold, fmax_eq_max, ← mul_max_of_nonneg _ _ hc.le]
    cases t with
    | negInf => rfl
    | posInf => rfl
    | fin y => simp only [Ext.scale, Ext.lt, mul_lt_mul_iff_right₀ hc]

theorem solveLoop_scale {c : α} (hc : 0 < c) (step step' : IterFn α)
    (hstep : ∀ it s log, step' it (s.scaleR c) log = scIter c (step it s log))
    (thr : Option (Ext α)) : ∀ (n it : Nat) (s : SolveSt α) (r1 r2 : Ext α) (log : List (DrawRec α)),
    solveLoop step' (thr.map (Ext.scale c)) n it (s.scaleR c) (r1.scale c) (r2.scale c) log
      = (solveLoop step thr n it s r1 r2 log).scale c
  | 0, it, s, r1, r2, log => by
    simp only [solveLoop, SolveOut.scale, avg_scaleR]
  | n + 1, it, s, r1, r2, log => by
    simp only [solveLoop, hstep, scIter, belowThreshold_scale hc]
    split_ifs
    · simp only [SolveOut.scale, avg_scaleR, Ext.scale]
    · exact solveLoop_scale hc step step' hstep thr n (it + 1) _ (.fin _) (.fin _) _

theorem solveWith_scale {c : α} (hc : 0 < c) (g : Game α) (step step' : IterFn α)
    (hstep : ∀ it s log, step' it (s.scaleR c) log = scIter c (step it s log))
    (T : Nat) (thr : Option (Ext α)) :
    solveWith (g.mapPay (fun y => c * y)) step' T (thr.map (Ext.scale c))
      = (solveWith g step T thr).scale c := by
  unfold solveWith
  have := solveLoop_scale hc step step' hstep thr T 1 (SolveSt.init g) .posInf .posInf []
  rw [init_scaleR] at this
  exact this


end Cfr
