import CfrVerif.Model.Worklist
import CfrVerif.Proofs.CompileWF
import CfrVerif.Proofs.ViewBridge
import CfrVerif.Proofs.WorklistLemmas
/-!
# The crate's work-list computes the same best-response value as resolving in decreasing order

`optimalDeviationsWL` (`Model/Worklist.lean`) is `optimal_deviations` with its `future_nodes`
counters and LIFO queue; `optimalDeviations` (`Model/Eval.lean`) resolves the infosets in decreasing
index order.  On a well-formed game whose `prev` pointers are consistent with the tree (`PrevWF`,
guaranteed by `from_root`: `compile_ok_prevwf`) the two compute the same value — in fact the same
table of `max_utility` values (`wl_table_eq` in `Proofs/WorklistLemmas.lean`): every reached
infoset is resolved exactly once, after all reached infosets below it.
-/
set_option linter.unusedSectionVars false
namespace Cfr
variable {α : Type} [Field α] [LinearOrder α] [IsStrictOrderedRing α]

/-- the `prev` pointers stored in the infoset tables describe the own histories of the tree:
perfect recall holds for the history function read off the tables, **and the pointers point
backwards** (to smaller indices).

The second clause is needed: `histOf` stops at a pointer that does not point backwards, so the
first clause alone accepts tables with a `prev` cycle, on which the work-list never resolves the
infosets of the cycle (see the example below). -/
def PrevWF (g : Game α) : Prop :=
  (∀ me : Bool, PR me (histOf (g.infos me)) [] g.root) ∧
  (∀ (me : Bool) (i : Nat) (e : PInfo), (g.infos me)[i]? = some e →
    ∀ j a, e.prev = some (j, a) → j < i)

/-- a table with a `prev` pointer to itself (never produced by `from_root`): one infoset of player
one at the root, payoffs `1` and `2` -/
def cexPrevGame : Game ℚ where
  chance := []
  p1 := [⟨0, [0, 1], some (0, 0)⟩]
  p2 := []
  s1 := []
  s2 := []
  root := .player true 0 [.term 1, .term 2]

/-- **why `PrevWF` needs its second clause.**  `cexPrevGame` is well formed (`GameWF`) and satisfies
the first clause of `PrevWF` (`histOf` ignores the pointer `0 ↦ 0`), but the work-list counts the
root as a future node of its own infoset, never resolves it and returns `0`, whereas the
decreasing-order resolution returns the best response value `2`. -/
example : GameWF cexPrevGame ∧
    (∀ me : Bool, PR me (histOf (cexPrevGame.infos me)) [] cexPrevGame.root) ∧
    IsStrat ([] : Strat ℚ) ∧ FitsGame cexPrevGame (!true) [] ∧
    optimalDeviationsWL cexPrevGame true [] = 0 ∧ optimalDeviations cexPrevGame true [] = 2 := by
  refine ⟨⟨by decide +kernel, by simp [NodeOK, NodeOKL, cexPrevGame, Game.infos],
    fun me => ⟨fun _ => [], by cases me <;> simp [PR, PRL, PRD, cexPrevGame], by simp⟩,
    ⟨by decide, by decide, by decide, by decide⟩, ⟨by decide, by decide, by decide, by decide⟩,
    by intro me; cases me <;> decide⟩, ?_, by simp [IsStrat], by simp [FitsGame, cexPrevGame, Game.infos],
    by decide +kernel, by decide +kernel⟩
  intro me
  cases me
  · simp [PR, PRL, cexPrevGame]
  · have : histOf (cexPrevGame.infos true) 0 = [] := by
      rw [histOf]; simp [cexPrevGame, Game.infos]
    simp [PR, PRD, cexPrevGame]
    simpa [cexPrevGame] using this

/-- whatever `from_root` accepts has consistent `prev` pointers -/
theorem compile_ok_prevwf (r : Raw α) (hs : Raw.Shape r) (g : Game α) (h : fromRoot r = .ok g) :
    PrevWF g := by
  unfold fromRoot at h
  split at h
  · cases h
  · rename_i root s hc
    simp only [Except.ok.injEq] at h
    subst h
    have hi0 : ∀ one, ({} : BState α).infos one = [] := fun one => by cases one <;> rfl
    have hs0 : ∀ one, ({} : BState α).singles one = [] := fun one => by cases one <;> rfl
    have hp0 : ∀ one, ({} : Prev).get one = none := fun one => by cases one <;> rfl
    have hb0 : BInv ({} : BState α) := by
      refine ⟨?_, ?_, ?_, ?_⟩
      · intro one; rw [hi0, hs0]; exact ⟨by simp, by simp, by simp, by simp⟩
      · intro one e he; rw [hi0] at he; simp at he
      · intro one i e he; rw [hi0] at he; simp at he
      · intro e he; exact absurd he (by simp)
    have hpo : PrevOK ({} : Prev) ({} : BState α) := by
      intro one j a hj; rw [hp0] at hj; cases hj
    obtain ⟨hb, _, _, hpr⟩ := compile_inv r {} {} s root hs hb0 hpo hc
    refine ⟨fun me => ?_, fun me i e he => ?_⟩
    · have := hpr me
      rw [hp0] at this
      exact this
    · exact hb.prevLt me i e (by cases me <;> exact he)

/-! ## the compiled tables give a work-list context -/

theorem prev_getD_some {infos : List PInfo} {i j : Nat}
    (h : ((infos.getD i default).prev).map (·.1) = some j) :
    ∃ e a, infos[i]? = some e ∧ e.prev = some (j, a) := by
  rw [List.getD_eq_getElem?_getD] at h
  by_cases hi : i < infos.length
  · rw [List.getElem?_eq_getElem hi] at h
    simp only [Option.getD_some, Option.map_eq_some_iff] at h
    obtain ⟨⟨j', a⟩, h1, h2⟩ := h
    simp only at h2
    subst h2
    exact ⟨infos[i], a, List.getElem?_eq_getElem hi, h1⟩
  · rw [List.getElem?_eq_none (by omega)] at h
    have hd : (default : PInfo).prev = none := rfl
    simp [hd] at h

theorem prev_getD_none {infos : List PInfo} {i : Nat}
    (h : ((infos.getD i default).prev).map (·.1) = none) :
    ∀ e, infos[i]? = some e → e.prev = none := by
  intro e he
  rw [List.getD_eq_getElem?_getD, he] at h
  simpa using h

/-- the setting of `Proofs/WorklistLemmas.lean` for player `me` of a well-formed game -/
theorem wlctx_of_game (g : Game α) (hg : GameWF g) (hp : PrevWF g) (me : Bool)
    (σo : Strat α) (hσ : IsStrat σo) (hfit : FitsGame g (!me) σo) :
    WLCtx (g.infos me).length (nActsOf g me) (histOf (g.infos me))
      (fun i => (((g.infos me).getD i default).prev).map (·.1))
      (collect (view g.chance σo me g.root) 1) := by
  obtain ⟨hpr, hlt⟩ := hp
  have hch : ∀ ps ∈ g.chance, ∀ p ∈ ps, 0 ≤ p :=
    fun ps hps p hp => le_of_lt ((hg.chancePos ps hps).1 p hp)
  have hok := view_VOK g hch me σo hσ hfit g.root hg.nodes
  have hprv := view_PRV g.chance σo me (histOf (g.infos me)) g.root [] (hpr me)
  have hlink : ∀ i j, (((g.infos me).getD i default).prev).map (·.1) = some j →
      j < i ∧ ∃ a, histOf (g.infos me) i = histOf (g.infos me) j ++ [(j, a)] := by
    intro i j h
    obtain ⟨e, a, he, hea⟩ := prev_getD_some h
    have hji := hlt me i e he j a hea
    refine ⟨hji, a, ?_⟩
    rw [histOf, he]
    simp only [hea, hji, dite_true]
  refine ⟨histOf_lt _, ?_, collect_ok _ _ _ _ [] 1 one_pos hok hprv, fun i j h => (hlink i j h).1,
    fun i j h => (hlink i j h).2, ?_, ?_⟩
  · intro i hi
    have := hg.actsTwo me _ (List.getElem_mem hi)
    simp only [nActsOf, List.getD_eq_getElem?_getD, List.getElem?_eq_getElem hi, Option.getD_some]
    omega
  · intro i h
    rw [histOf]
    cases he : (g.infos me)[i]? with
    | none => rfl
    | some e => simp only [prev_getD_none h e he]
  · intro h hh j hj
    obtain ⟨a, ha⟩ := (hlink _ _ hj).2
    rcases collect_anc (histOf (g.infos me)) _ [] 1 hprv h hh (j, a) (by rw [ha]; simp) with h1 | h1
    · simp at h1
    · exact h1

/-- **the work-list is a correct schedule**: on a well-formed game with consistent `prev` pointers
the crate's work-list (future-node counters, LIFO queue) yields exactly the value of the
decreasing-index-order resolution, for every valid opponent strategy -/
theorem optimalDeviationsWL_eq (g : Game α) (hg : GameWF g) (hp : PrevWF g) (me : Bool)
    (σo : Strat α) (hσ : IsStrat σo) (hfit : FitsGame g (!me) σo) :
    optimalDeviationsWL g me σo = optimalDeviations g me σo := by
  have ctx := wlctx_of_game g hg hp me σo hσ hfit
  exact congrArg (fun mu => search mu (view g.chance σo me g.root)) (wl_table_eq ctx)

/-- in particular for every game `from_root` accepts -/
theorem optimalDeviationsWL_eq_compiled (r : Raw α) (hs : Raw.Shape r) (g : Game α)
    (h : fromRoot r = .ok g) (me : Bool) (σo : Strat α) (hσ : IsStrat σo)
    (hfit : FitsGame g (!me) σo) :
    optimalDeviationsWL g me σo = optimalDeviations g me σo :=
  optimalDeviationsWL_eq g (compile_ok_wf r hs g h) (compile_ok_prevwf r hs g h) me σo hσ hfit

theorem getInfoWL_eq (g : Game α) (hg : GameWF g) (hp : PrevWF g) (σ : Bool → Strat α)
    (hσ : ∀ me : Bool, IsStrat (σ me) ∧ FitsGame g me (σ me)) :
    (getInfoWL g σ).util = (getInfo g σ).util ∧ (getInfoWL g σ).regretOne = (getInfo g σ).regretOne ∧
    (getInfoWL g σ).regretTwo = (getInfo g σ).regretTwo := by
  have h1 := optimalDeviationsWL_eq g hg hp true (σ false) (hσ false).1 (hσ false).2
  have h2 := optimalDeviationsWL_eq g hg hp false (σ true) (hσ true).1 (hσ true).2
  simp only [getInfoWL, getInfo, h1, h2, and_self]

/-! ## non-vacuity: a game with `prev` pointers, two nodes in one infoset, non-trivial counters -/

/-- player one moves at the root (infoset `0`); after action `0` a coin leads to infoset `1` or,
through player two, to infoset `2`; after action `1` player two moves unobserved and player one
moves again at infoset `3` (two nodes).  `future_nodes[0] = 4` after the first loop. -/
def wlGame : Game ℚ where
  chance := [[1/2, 1/2]]
  p1 := [⟨0, [0, 1], none⟩, ⟨1, [0, 1], some (0, 0)⟩, ⟨2, [0, 1], some (0, 0)⟩,
    ⟨3, [0, 1], some (0, 1)⟩]
  p2 := [⟨0, [0, 1], none⟩, ⟨1, [0, 1], none⟩]
  s1 := []
  s2 := []
  root := .player true 0
    [.chance 0
       [.player true 1 [.term 3, .term 1],
        .player false 0 [.player true 2 [.term 0, .term 5], .term 2]],
     .player false 1
       [.player true 3 [.term 1, .term 4],
        .player true 3 [.term 6, .term 0]]]

def wlProfile : Bool → Strat ℚ :=
  fun p => if p then [[1/2, 1/2], [1, 0], [0, 1], [1/2, 1/2]] else [[1/2, 1/2], [1/3, 2/3]]

theorem wlGame_hist : histOf wlGame.p1 0 = [] ∧ histOf wlGame.p1 1 = [(0, 0)] ∧
    histOf wlGame.p1 2 = [(0, 0)] ∧ histOf wlGame.p1 3 = [(0, 1)] := by
  refine ⟨?_, ?_, ?_, ?_⟩
  · rw [histOf]; simp [wlGame]
  all_goals (rw [histOf]; simp [wlGame]; rw [histOf]; simp)

theorem wlGame_wf : GameWF wlGame where
  chancePos := by decide +kernel
  nodes := by simp [NodeOK, NodeOKL, wlGame, Game.infos]
  recall := fun me => by
    cases me
    · exact ⟨fun _ => [], by simp [PR, PRL, PRD, wlGame], by simp⟩
    · refine ⟨fun i => if i = 0 then [] else if i = 3 then [(0, 1)] else [(0, 0)],
        by simp [PR, PRL, PRD, wlGame], ?_⟩
      intro i e he
      simp only at he
      split_ifs at he with h1 h2
      · simp at he
      · simp only [List.mem_singleton] at he; subst he; omega
      · simp only [List.mem_singleton] at he; subst he; omega
  tables1 := ⟨by decide, by decide, by decide, by decide⟩
  tables2 := ⟨by decide, by decide, by decide, by decide⟩
  actsTwo := by intro me; cases me <;> decide

theorem wlGame_prevwf : PrevWF wlGame := by
  refine ⟨fun me => ?_, ?_⟩
  · cases me
    · simp only [PR, PRL, PRD, wlGame, Game.infos]
      simp only [Bool.true_eq_false, Bool.false_eq_true, if_false, if_true, and_true, true_and]
      constructor <;> (rw [histOf]; simp)
    · obtain ⟨h0, h1, h2, h3⟩ := wlGame_hist
      have e : wlGame.infos true = wlGame.p1 := rfl
      rw [e]
      simp only [PR, PRL, PRD, wlGame, if_true, h0, h1, h2, h3] at h0 h1 h2 h3 ⊢
      simp
  · intro me i e he j a hp
    cases me
    · rcases i with _ | _ | i <;> simp [wlGame, Game.infos] at he <;> subst he <;> simp at hp
    · rcases i with _ | _ | _ | _ | i <;> simp [wlGame, Game.infos] at he <;> subst he <;>
        simp at hp <;> omega

theorem wlProfile_ok : ∀ me : Bool, IsStrat (wlProfile me) ∧ FitsGame wlGame me (wlProfile me) := by
  intro me
  cases me <;> simp only [IsStrat, IsDist, FitsGame] <;> decide +kernel

/-- the work-list and the decreasing-order resolution on `wlGame`: the values (player one's best
response takes action `1` at the root and then action `0`: `1/3 · 1 + 2/3 · 6`) -/
example : optimalDeviationsWL wlGame true (wlProfile false) = 13/3 ∧
    optimalDeviations wlGame true (wlProfile false) = 13/3 ∧
    optimalDeviationsWL wlGame false (wlProfile true) = optimalDeviations wlGame false (wlProfile true) ∧
    (getInfoWL wlGame wlProfile).regretOne = (getInfo wlGame wlProfile).regretOne := by
  decide +kernel

/-- the hypotheses of `getInfoWL_eq` hold on `wlGame` -/
example := getInfoWL_eq wlGame wlGame_wf wlGame_prevwf wlProfile wlProfile_ok

end Cfr
