import CfrVerif.Model.Worklist
import CfrVerif.Proofs.CompileWF
import CfrVerif.Proofs.ViewBridge
/-!
# The crate's work-list computes the same best-response value as resolving in decreasing order
-/
set_option linter.unusedSectionVars false
namespace Cfr
variable {α : Type} [Field α] [LinearOrder α] [IsStrictOrderedRing α]

/-- the `prev` pointers stored in the infoset tables describe the own histories of the tree:
perfect recall holds for the history function read off the tables -/
def PrevWF (g : Game α) : Prop := ∀ me : Bool, PR me (histOf (g.infos me)) [] g.root

/-- whatever `from_root` accepts has consistent `prev` pointers -/
theorem compile_ok_prevwf (r : Raw α) (hs : Raw.Shape r) (g : Game α) (h : fromRoot r = .ok g) :
    PrevWF g := by
  sorry

/-- **the work-list is a correct schedule**: on a well-formed game with consistent `prev` pointers
the crate's work-list (future-node counters, LIFO queue) yields exactly the value of the
decreasing-index-order resolution, for every valid opponent strategy -/
theorem optimalDeviationsWL_eq (g : Game α) (hg : GameWF g) (hp : PrevWF g) (me : Bool)
    (σo : Strat α) (hσ : IsStrat σo) (hfit : FitsGame g (!me) σo) :
    optimalDeviationsWL g me σo = optimalDeviations g me σo := by
  sorry

theorem getInfoWL_eq (g : Game α) (hg : GameWF g) (hp : PrevWF g) (σ : Bool → Strat α)
    (hσ : ∀ me : Bool, IsStrat (σ me) ∧ FitsGame g me (σ me)) :
    (getInfoWL g σ).util = (getInfo g σ).util ∧ (getInfoWL g σ).regretOne = (getInfo g σ).regretOne ∧
    (getInfoWL g σ).regretTwo = (getInfo g σ).regretTwo := by
  sorry

end Cfr
