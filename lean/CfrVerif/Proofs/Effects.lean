import CfrVerif.Proofs.Basic
import CfrVerif.Model.Solve
import Mathlib.Data.List.Perm.Basic
/-!
# Atomic accumulations commute

The state after a list of atomic accumulations does not depend on their order (exact
arithmetic): this is what makes the result of a multi-threaded iteration independent of the
thread schedule.
-/
set_option linter.unusedSectionVars false
namespace Cfr
variable {α : Type} [Field α] [LinearOrder α] [IsStrictOrderedRing α] [Transc α]

theorem modify_comm {β : Type} (f g : β → β) (hfg : ∀ x, f (g x) = g (f x)) (l : List β) (i j : Nat) :
    (l.modify i f).modify j g = (l.modify j g).modify i f := by
  apply List.ext_getElem?
  intro k
  simp only [List.getElem?_modify]
  by_cases h1 : i = k <;> by_cases h2 : j = k <;> simp [h1, h2, Option.map_map, Function.comp_def, hfg]

theorem modify_comm_ne {β : Type} (f g : β → β) (l : List β) (i j : Nat) (h : i ≠ j) :
    (l.modify i f).modify j g = (l.modify j g).modify i f := by
  apply List.ext_getElem?
  intro k
  simp only [List.getElem?_modify]
  by_cases h1 : i = k <;> by_cases h2 : j = k <;> simp [h1, h2]
  exact absurd (h1.trans h2.symm) h

theorem addAt_comm (l : List α) (a b : Nat) (x y : α) :
    addAt (addAt l a x) b y = addAt (addAt l b y) a x := by
  unfold addAt
  exact modify_comm _ _ (fun z => by ring) l a b

theorem InfoSt.apply_comm (x : InfoSt α) (s1 s2 : Slot) (a b : Nat) (u v : α) :
    (x.apply s1 a u).apply s2 b v = (x.apply s2 b v).apply s1 a u := by
  cases s1 <;> cases s2 <;> simp [InfoSt.apply, addAt_comm]

theorem SolveSt.applyEff_comm (s : SolveSt α) (e f : Eff α) :
    (s.applyEff e).applyEff f = (s.applyEff f).applyEff e := by
  obtain ⟨o1, i1, sl1, a1, d1⟩ := e
  obtain ⟨o2, i2, sl2, a2, d2⟩ := f
  cases o1 <;> cases o2 <;>
    simp only [SolveSt.applyEff, SolveSt.set, SolveSt.get, Bool.false_eq_true, if_false, if_true] <;>
    first
    | rfl
    | (congr 1
       by_cases h : i1 = i2
       · subst h
         exact modify_comm _ _ (fun x => InfoSt.apply_comm x sl2 sl1 a2 a1 d2 d1) _ _ _
       · exact modify_comm_ne _ _ _ _ _ h)

/-- **order independence**: any rearrangement of a list of atomic accumulations leads to the
same state -/
theorem SolveSt.applyEffs_perm (s : SolveSt α) {es es' : List (Eff α)} (h : es.Perm es') :
    s.applyEffs es = s.applyEffs es' := by
  unfold SolveSt.applyEffs
  induction h generalizing s with
  | nil => rfl
  | cons x _ ih => simp only [List.foldl_cons]; exact ih _
  | swap x y l => simp only [List.foldl_cons]; rw [SolveSt.applyEff_comm]
  | trans _ _ ih1 ih2 => rw [ih1, ih2]

theorem SolveSt.applyEffs_append (s : SolveSt α) (es es' : List (Eff α)) :
    s.applyEffs (es ++ es') = (s.applyEffs es).applyEffs es' := by
  simp [SolveSt.applyEffs, List.foldl_append]

end Cfr
