import CfrVerif.Props.C12
import CfrVerif.Proofs.CliLemmas
/-!
# C16: a JSON and a Gambit encoding of the same game give the same solution

The two readers hand different trees to `from_root` for the same game: the Gambit reader names
chance infosets by number and player infosets by their resolved names, writes normalised
probabilities, and subtracts the constant-sum offset from every payoff; the JSON reader keeps the
file's own names, weights and payoffs.  `Twin` says exactly that about two trees: one is the other
renamed injectively, with payoffs shifted by `-sum`, and with chance weights rescaled.  For such
trees the program prints the same regrets, the same utility of player one and the same strategies
up to the renaming, with the deterministic method; player two's printed utility is `2 * sum` higher
on the Gambit side (a constant-sum file gives player two `2 * sum - u`, JSON can only say `-u`), so
the whole printed object agrees exactly when `sum = 0`.
-/
set_option linter.unusedSectionVars false
namespace Cfr

/-- `rg` (what the Gambit reader produces, offset `sum`) and `rj` (what the JSON reader produces)
describe the same game -/
def Twin (ρ : Renaming) (sum : ℝ) (rj rg : Raw ℝ) : Prop :=
  ρ.Injective ∧ Rescaled ((rj.rename ρ).mapPay (fun x => x + -sum)) rg


namespace Twn

/-! ## renaming keeps the shape of the input tree -/

theorem renameL_length (ρ : Renaming) : ∀ ks : List (Raw ℝ), (Raw.renameL ρ ks).length = ks.length
  | [] => rfl
  | k :: ks => by simp [Raw.renameL, renameL_length ρ ks]

mutual
theorem shape_rename (ρ : Renaming) : ∀ r : Raw ℝ, Raw.Shape r → Raw.Shape (r.rename ρ)
  | .term _, _ => by simp [Raw.rename, Raw.Shape]
  | .chance i ws ks, h => by
    simp only [Raw.rename, Raw.Shape] at h ⊢
    exact ⟨by rw [renameL_length]; exact h.1, shapeL_rename ρ ks h.2⟩
  | .player o i as ks, h => by
    simp only [Raw.rename, Raw.Shape] at h ⊢
    exact ⟨by rw [renameL_length, List.length_map]; exact h.1, shapeL_rename ρ ks h.2⟩
theorem shapeL_rename (ρ : Renaming) : ∀ ks : List (Raw ℝ), Raw.ShapeL ks → Raw.ShapeL (Raw.renameL ρ ks)
  | [], _ => by simp [Raw.renameL, Raw.ShapeL]
  | k :: ks, h => by
    simp only [Raw.renameL, Raw.ShapeL] at h ⊢
    exact ⟨shape_rename ρ k h.1, shapeL_rename ρ ks h.2⟩
end

/-! ## the compiled Gambit-style game -/

/-- the game the Gambit-style tree compiles to -/
abbrev twinGame (ρ : Renaming) (sum : ℝ) (gj : Game ℝ) : Game ℝ :=
  (gj.rename ρ).mapPay (fun x => x + -sum)

theorem compile_twin (ρ : Renaming) (sum : ℝ) (rj rg : Raw ℝ) (ht : Twin ρ sum rj rg)
    (gj : Game ℝ) (hj : fromRoot rj = .ok gj) :
    fromRoot (rj.rename ρ) = .ok (gj.rename ρ) ∧ fromRoot rg = .ok (twinGame ρ sum gj) := by
  have h1 : fromRoot (rj.rename ρ) = .ok (gj.rename ρ) := by
    rw [rename_equivariant ρ ht.1 rj, hj]; rfl
  refine ⟨h1, ?_⟩
  rw [rescale_chance_weights _ _ ht.2, fromRoot_mapPay, h1]; rfl

theorem wf_rename (ρ : Renaming) (sum : ℝ) (rj rg : Raw ℝ) (ht : Twin ρ sum rj rg)
    (hs : Raw.Shape rj) (gj : Game ℝ) (hj : fromRoot rj = .ok gj) : GameWF (gj.rename ρ) :=
  compile_ok_wf (rj.rename ρ) (shape_rename ρ rj hs) _ (compile_twin ρ sum rj rg ht gj hj).1

theorem profileOK_rename (ρ : Renaming) (gj : Game ℝ) (σ : Profile ℝ) (h : ProfileOK gj σ) :
    ProfileOK (gj.rename ρ) σ := by
  intro me
  refine ⟨(h me).1, ?_⟩
  have := (h me).2
  cases me <;>
    simpa [FitsGame, Game.infos, Game.rename, PInfo.rename, List.map_map, Function.comp_def]
      using this

/-- evaluation on the Gambit-style game: utility lower by `sum`, regrets equal -/
theorem eval_twin (ρ : Renaming) (sum : ℝ) (gj : Game ℝ) (hw : GameWF (gj.rename ρ))
    (σ : Profile ℝ) (hσ : ProfileOK gj σ) :
    (getInfo (twinGame ρ sum gj) σ).util + sum = (getInfo gj σ).util ∧
    (getInfo (twinGame ρ sum gj) σ).regretOne = (getInfo gj σ).regretOne ∧
    (getInfo (twinGame ρ sum gj) σ).regretTwo = (getInfo gj σ).regretTwo := by
  obtain ⟨a1, a2, a3⟩ := getInfo_shift (-sum) (gj.rename ρ) hw σ (profileOK_rename ρ gj σ hσ)
  obtain ⟨b1, b2, b3⟩ := getInfo_sameShape gj (gj.rename ρ) (sameShape_rename ρ gj) σ
  refine ⟨?_, ?_, ?_⟩
  · rw [a1, ← b1]; ring
  · rw [a2, ← b2]
  · rw [a3, ← b3]

/-! ## printed strategies under a renaming -/

/-- the renaming applied to a printed strategy of player `o` -/
def renNamed (ρ : Renaming) (o : Bool) (e : Nat × List (Nat × ℝ)) : Nat × List (Nat × ℝ) :=
  (ρ.info o e.1, e.2.map (fun a => (ρ.act a.1, a.2)))

theorem toList_rename (ρ : Renaming) (as : List Nat) (v : List ℝ) :
    (ActIter.data (as.map ρ.act) v).toList
      = (ActIter.data as v).toList.map (fun a => (ρ.act a.1, a.2)) := by
  simp only [ActIter.toList]
  rw [List.zip_map_left, List.filter_map]
  rfl

theorem asNamed_rename (ρ : Renaming) (o : Bool) (infos : List PInfo) (singles : List (Nat × Nat))
    (σ : Strat ℝ) :
    asNamed (infos.map (PInfo.rename ρ o)) (singles.map (fun e => (ρ.info o e.1, ρ.act e.2))) σ
      = (asNamed infos singles σ).map (renNamed ρ o) := by
  unfold asNamed
  rw [List.map_append, List.zip_map_left, List.map_map, List.map_map, List.map_map, List.map_map]
  congr 1
  · apply List.map_congr_left
    rintro ⟨i, v⟩ _
    simp only [Function.comp, Prod.map, id, PInfo.rename, renNamed, toList_rename]

theorem strategyOfNamed_rename (ρ : Renaming) (o : Bool) (hρ : Function.Injective (ρ.info o))
    (n s : Named ℝ) (h : strategyOfNamed n = some s) :
    strategyOfNamed (n.map (renNamed ρ o)) = some (s.map (renNamed ρ o)) := by
  unfold strategyOfNamed at h ⊢
  split_ifs at h with hd
  have hd' : hasDupNat (n.map (·.1)) = false := by simpa using hd
  have hn : ((n.map (renNamed ρ o)).map (·.1)).Nodup := by
    have := ((CliP.hasDupNat_eq_false _).mp hd').map hρ
    simpa [List.map_map, Function.comp_def, renNamed] using this
  rw [if_neg (by rw [(CliP.hasDupNat_eq_false _).mpr hn]; simp)]
  simp only [Option.some.injEq] at h
  subst h
  congr 1
  rw [List.map_map, List.map_map]
  apply List.map_congr_left
  rintro ⟨l, as⟩ _
  simp only [Function.comp, renNamed, List.filter_map]
  rfl

/-- the two output records for the same printed profile and evaluations that agree up to the offset -/
theorem assemble_twin (ρ : Renaming) (hρ : ρ.Injective) (sum : ℝ) (gj : Game ℝ)
    (ij ig : StrategiesInfo ℝ) (hu : ig.util + sum = ij.util) (e1 : ig.regretOne = ij.regretOne)
    (e2 : ig.regretTwo = ij.regretTwo) (one two : Strat ℝ) (oj og : CliOut ℝ)
    (h1 : assemble gj 0 ij one two = .ok oj)
    (h2 : assemble (twinGame ρ sum gj) sum ig one two = .ok og) :
    og.regret = oj.regret ∧ og.playerOneUtility = oj.playerOneUtility ∧
    og.playerTwoUtility = oj.playerTwoUtility + 2 * sum ∧
    og.playerOneRegret = oj.playerOneRegret ∧ og.playerTwoRegret = oj.playerTwoRegret ∧
    og.playerOneStrategy = oj.playerOneStrategy.map (renNamed ρ true) ∧
    og.playerTwoStrategy = oj.playerTwoStrategy.map (renNamed ρ false) := by
  obtain ⟨a1, a2, ha1, ha2, rfl⟩ := CliP.assemble_ok h1
  obtain ⟨b1, b2, hb1, hb2, rfl⟩ := CliP.assemble_ok h2
  have hb1' : strategyOfNamed (asNamed (gj.p1.map (PInfo.rename ρ true))
      (gj.s1.map (fun e => (ρ.info true e.1, ρ.act e.2))) one) = some b1 := hb1
  have hb2' : strategyOfNamed (asNamed (gj.p2.map (PInfo.rename ρ false))
      (gj.s2.map (fun e => (ρ.info false e.1, ρ.act e.2))) two) = some b2 := hb2
  rw [asNamed_rename, strategyOfNamed_rename ρ true (hρ.1 true) _ _ ha1] at hb1'
  rw [asNamed_rename, strategyOfNamed_rename ρ false (hρ.1 false) _ _ ha2] at hb2'
  simp only [Option.some.injEq] at hb1' hb2'
  refine ⟨?_, ?_, ?_, ?_, ?_, hb1'.symm, hb2'.symm⟩
  · simp only [StrategiesInfo.regret, e1, e2]
  · simp only [StrategiesInfo.playerUtility, if_true]; linarith
  · simp only [StrategiesInfo.playerUtility, Bool.false_eq_true, if_false]; linarith
  · simp only [StrategiesInfo.playerRegret, if_true, e1]
  · simp only [StrategiesInfo.playerRegret, Bool.false_eq_true, if_false, e2]

theorem profileOK_truncate (g : Game ℝ) (clip : ℝ) (one two : Strat ℝ)
    (h : ProfileOK g (fun p => if p then one else two)) :
    ProfileOK g (fun p => if p then truncate clip one else truncate clip two) := by
  intro me
  have := h me
  cases me
  · simp only [Bool.false_eq_true, if_false] at this ⊢
    exact ⟨truncate_valid _ _ this.1, by unfold FitsGame; rw [truncate_shape]; exact this.2⟩
  · simp only [if_true] at this ⊢
    exact ⟨truncate_valid _ _ this.1, by unfold FitsGame; rw [truncate_shape]; exact this.2⟩

/-- the printed objects of the two runs: everything equal up to the renaming, except that player
two's utility is higher by `2 * sum` on the Gambit side (the program reports `-u + sum` there and
`-u` on the JSON side, where `u` already differs by `sum`) -/
theorem report_twin (ρ : Renaming) (sum : ℝ) (rj rg : Raw ℝ) (ht : Twin ρ sum rj rg)
    (hs : Raw.Shape rj) (gj gg : Game ℝ) (hj : fromRoot rj = .ok gj) (hg : fromRoot rg = .ok gg)
    (clip : ℝ) (one two : Strat ℝ)
    (hσ : ProfileOK gj (fun p => if p then one else two)) (oj og : CliOut ℝ)
    (h1 : report gj 0 clip one two = .ok oj) (h2 : report gg sum clip one two = .ok og) :
    og.regret = oj.regret ∧ og.playerOneUtility = oj.playerOneUtility ∧
    og.playerTwoUtility = oj.playerTwoUtility + 2 * sum ∧
    og.playerOneRegret = oj.playerOneRegret ∧ og.playerTwoRegret = oj.playerTwoRegret ∧
    og.playerOneStrategy = oj.playerOneStrategy.map (renNamed ρ true) ∧
    og.playerTwoStrategy = oj.playerTwoStrategy.map (renNamed ρ false) := by
  have hgg : gg = twinGame ρ sum gj :=
    Except.ok.inj (hg.symm.trans (compile_twin ρ sum rj rg ht gj hj).2)
  subst hgg
  have hw := wf_rename ρ sum rj rg ht hs gj hj
  obtain ⟨u0, r0, s0⟩ := eval_twin ρ sum gj hw _ hσ
  obtain ⟨u1, r1, s1⟩ := eval_twin ρ sum gj hw _ (profileOK_truncate gj clip one two hσ)
  unfold report at h1 h2
  simp only at h1 h2
  have hreg0 : (getInfo (twinGame ρ sum gj) (fun p => if p then one else two)).regret
      = (getInfo gj (fun p => if p then one else two)).regret := by
    simp only [StrategiesInfo.regret, r0, s0]
  have hreg1 : (getInfo (twinGame ρ sum gj)
        (fun p => if p then truncate clip one else truncate clip two)).regret
      = (getInfo gj (fun p => if p then truncate clip one else truncate clip two)).regret := by
    simp only [StrategiesInfo.regret, r1, s1]
  rw [hreg0, hreg1] at h2
  split_ifs at h1 h2
  · exact assemble_twin ρ ht.1 sum gj _ _ u1 r1 s1 _ _ oj og h1 h2
  · exact assemble_twin ρ ht.1 sum gj _ _ u0 r0 s0 _ _ oj og h1 h2

end Twn

/-- **same game, same solution** (deterministic method, one thread; other thread counts by C06):
if the JSON tree is accepted then so is the Gambit tree, the compiled games have the same decision
tables up to the renaming, the unsampled solver returns the same strategies, bounds and iteration
count on both, and every valid profile evaluates to the same regrets and to utilities that differ
by exactly the offset the program adds back -/
theorem json_gambit_same_solution (ρ : Renaming) (sum : ℝ) (rj rg : Raw ℝ) (ht : Twin ρ sum rj rg)
    (hs : Raw.Shape rj) (gj : Game ℝ) (hj : fromRoot rj = .ok gj) (p : RegretParams ℝ)
    (draw : DrawFn ℝ) (T : Nat) (thr : Option (Ext ℝ)) :
    ∃ gg, fromRoot rg = .ok gg ∧
      gg.p1 = gj.p1.map (PInfo.rename ρ true) ∧ gg.p2 = gj.p2.map (PInfo.rename ρ false) ∧
      solveVanillaSingle gg false p draw T thr = solveVanillaSingle gj false p draw T thr ∧
      ∀ σ : Profile ℝ, ProfileOK gj σ →
        (getInfo gg σ).util + sum = (getInfo gj σ).util ∧
        (getInfo gg σ).regretOne = (getInfo gj σ).regretOne ∧
        (getInfo gg σ).regretTwo = (getInfo gj σ).regretTwo := by
  obtain ⟨h1, h2⟩ := Twn.compile_twin ρ sum rj rg ht gj hj
  have hw := Twn.wf_rename ρ sum rj rg ht hs gj hj
  refine ⟨_, h2, rfl, rfl, ?_, fun σ hσ => Twn.eval_twin ρ sum gj hw σ hσ⟩
  rw [solve_full_shift (-sum) (gj.rename ρ) hw p draw T thr]
  exact (solve_sameShape gj (gj.rename ρ) (sameShape_rename ρ gj) p draw T thr false 0
    Sched.seq).1.symm

/-- the printed object is the same up to the renaming of the strategies' labels: same regrets,
same utility of player one (the Gambit run adds `sum` back, the JSON run adds `0`); player two's
utility is `2 * sum` higher on the Gambit side.

**Statement changed** against the first version, which claimed `og.playerTwoUtility =
oj.playerTwoUtility` for every `sum`; that is false for `sum ≠ 0` (see `Twn.exNotSame` below).
This is the general form; `json_gambit_same_report` is the original statement under `sum = 0`. -/
theorem json_gambit_report_offset (ρ : Renaming) (sum : ℝ) (rj rg : Raw ℝ) (ht : Twin ρ sum rj rg)
    (hs : Raw.Shape rj) (gj gg : Game ℝ) (hj : fromRoot rj = .ok gj) (hg : fromRoot rg = .ok gg)
    (clip : ℝ) (one two : Strat ℝ)
    (hσ : ProfileOK gj (fun p => if p then one else two)) (oj og : CliOut ℝ)
    (h1 : report gj 0 clip one two = .ok oj) (h2 : report gg sum clip one two = .ok og) :
    og.regret = oj.regret ∧ og.playerOneUtility = oj.playerOneUtility ∧
    og.playerTwoUtility = oj.playerTwoUtility + 2 * sum ∧
    og.playerOneRegret = oj.playerOneRegret ∧
    og.playerTwoRegret = oj.playerTwoRegret ∧
    og.playerOneStrategy = oj.playerOneStrategy.map
      (fun e => (ρ.info true e.1, e.2.map (fun a => (ρ.act a.1, a.2)))) ∧
    og.playerTwoStrategy = oj.playerTwoStrategy.map
      (fun e => (ρ.info false e.1, e.2.map (fun a => (ρ.act a.1, a.2)))) :=
  Twn.report_twin ρ sum rj rg ht hs gj gg hj hg clip one two hσ oj og h1 h2

/-- hence, **for a zero-sum Gambit file** (`h0 : sum = 0`, hypothesis added: without it the clause
on player two's utility fails), the printed object is the same up to the renaming of the
strategies' labels: same regrets, same utilities -/
theorem json_gambit_same_report (ρ : Renaming) (sum : ℝ) (rj rg : Raw ℝ) (ht : Twin ρ sum rj rg)
    (hs : Raw.Shape rj) (gj gg : Game ℝ) (hj : fromRoot rj = .ok gj) (hg : fromRoot rg = .ok gg)
    (clip : ℝ) (one two : Strat ℝ)
    (hσ : ProfileOK gj (fun p => if p then one else two)) (oj og : CliOut ℝ)
    (h1 : report gj 0 clip one two = .ok oj) (h2 : report gg sum clip one two = .ok og)
    (h0 : sum = 0) :
    og.regret = oj.regret ∧ og.playerOneUtility = oj.playerOneUtility ∧
    og.playerTwoUtility = oj.playerTwoUtility ∧ og.playerOneRegret = oj.playerOneRegret ∧
    og.playerTwoRegret = oj.playerTwoRegret ∧
    og.playerOneStrategy = oj.playerOneStrategy.map
      (fun e => (ρ.info true e.1, e.2.map (fun a => (ρ.act a.1, a.2)))) ∧
    og.playerTwoStrategy = oj.playerTwoStrategy.map
      (fun e => (ρ.info false e.1, e.2.map (fun a => (ρ.act a.1, a.2)))) := by
  obtain ⟨a, b, c, d⟩ :=
    json_gambit_report_offset ρ sum rj rg ht hs gj gg hj hg clip one two hσ oj og h1 h2
  refine ⟨a, b, ?_, d⟩
  rw [c, h0]; ring

/-! ## non-vacuity, and the counterexample to the first version of the report statement -/

namespace Twn

/-- JSON-style tree: chance weights `1 : 3`, its own infoset names, payoffs as written -/
noncomputable def exJ : Raw ℝ :=
  .chance (some 4) [1, 3]
    [.player true 5 [0, 1] [.term 2, .term 0],
     .player false 2 [0, 1] [.term 1, .term 3]]

/-- Gambit-style tree of the same game with offset `1`: normalised probabilities, other labels,
every payoff lowered by `1` -/
noncomputable def exG : Raw ℝ :=
  .chance (some 5) [1/4, 3/4]
    [.player true 7 [10, 11] [.term 1, .term (-1)],
     .player false 9 [10, 11] [.term 0, .term 2]]

def exR : Renaming := ⟨fun o n => if o then n + 2 else n + 7, fun a => a + 10, fun c => c + 1⟩

theorem exR_inj : exR.Injective := by
  refine ⟨fun o a b h => ?_, fun a b h => ?_, fun a b h => ?_⟩
  · cases o <;> simp only [exR] at h <;> simp at h <;> omega
  · simp only [exR] at h; omega
  · simp only [exR] at h; omega

theorem ex_twin : Twin exR 1 exJ exG := by
  refine ⟨exR_inj, ?_⟩
  simp only [exJ, exG, exR, Raw.rename, Raw.renameL, Raw.mapPay, Raw.mapPayL, Rescaled, RescaledL,
    Option.map, List.map]
  norm_num
  exact ⟨1/4, by norm_num, by norm_num⟩

/-- what `exJ` compiles to -/
noncomputable def exGJ : Game ℝ :=
  { chance := [[1/4, 3/4]], p1 := [⟨5, [0, 1], none⟩], p2 := [⟨2, [0, 1], none⟩], s1 := [], s2 := [],
    root := .chance 0 [.player true 0 [.term 2, .term 0], .player false 0 [.term 1, .term 3]] }

theorem exJ_ok : fromRoot exJ = .ok exGJ := by
  have e : ([0, 1] : List Nat).eraseDups = [0, 1] := by decide
  simp [fromRoot, exJ, exGJ, compile, compileOutcomes, compileActions, registerChance,
    registerPlayer, BState.infos, BState.singles, BState.setInfos, Prev.get, e]
  norm_num

theorem exJ_shape : Raw.Shape exJ := by simp [exJ, Raw.Shape, Raw.ShapeL]

theorem ex_profile : ProfileOK exGJ (fun p => if p then [[1, 0]] else [[1, 0]]) := by
  intro me
  cases me <;> simp [IsStrat, IsDist, FitsGame, Game.infos, exGJ]

/-- on a well-formed game and a valid profile the report step prints something -/
theorem report_exists (g : Game ℝ) (hg : GameWF g) (sum clip : ℝ) (one two : Strat ℝ)
    (hσ : ProfileOK g (fun p => if p then one else two)) :
    ∃ o, report g sum clip one two = .ok o := by
  have h1 : IsStrat one ∧ Fits g.p1 one := hσ true
  have h2 : IsStrat two ∧ Fits g.p2 two := hσ false
  unfold report
  simp only
  split_ifs
  · exact CliP.assemble_succeeds hg _ _ (CliP.truncate_fits _ h1) (CliP.truncate_fits _ h2)
  · exact CliP.assemble_succeeds hg _ _ h1 h2

/-- all hypotheses of `json_gambit_report_offset` hold together for `exJ`, `exG`, offset `1`; and
on this instance player two's printed utilities differ (by `2`): the clause
`og.playerTwoUtility = oj.playerTwoUtility` of the first version of `json_gambit_same_report`
is false for `sum ≠ 0` -/
theorem exNotSame : ∃ (gg : Game ℝ) (oj og : CliOut ℝ),
    Twin exR 1 exJ exG ∧ Raw.Shape exJ ∧ fromRoot exJ = .ok exGJ ∧ fromRoot exG = .ok gg ∧
    ProfileOK exGJ (fun p => if p then [[1, 0]] else [[1, 0]]) ∧
    report exGJ 0 0 [[1, 0]] [[1, 0]] = .ok oj ∧ report gg 1 0 [[1, 0]] [[1, 0]] = .ok og ∧
    og.playerTwoUtility = oj.playerTwoUtility + 2 ∧ og.playerTwoUtility ≠ oj.playerTwoUtility := by
  have hg2 := (compile_twin exR 1 exJ exG ex_twin exGJ exJ_ok).2
  have hw := wf_rename exR 1 exJ exG ex_twin exJ_shape exGJ exJ_ok
  have hwj : GameWF exGJ := compile_ok_wf exJ exJ_shape _ exJ_ok
  obtain ⟨oj, hoj⟩ := report_exists exGJ hwj 0 0 _ _ ex_profile
  obtain ⟨og, hog⟩ := report_exists (twinGame exR 1 exGJ) (gameWF_mapPay _ _ hw) 1 0 _ _
    (profileOK_mapPay _ _ _ (profileOK_rename exR exGJ _ ex_profile))
  have h := (report_twin exR 1 exJ exG ex_twin exJ_shape exGJ _ exJ_ok hg2 0 _ _ ex_profile
    oj og hoj hog).2.2.1
  refine ⟨_, oj, og, ex_twin, exJ_shape, exJ_ok, hg2, ex_profile, hoj, hog, by rw [h]; ring, ?_⟩
  rw [h]
  intro hc
  linarith

/-- the first version of the statement (player two's utilities equal for every offset) is false -/
example : ¬ ∀ (ρ : Renaming) (sum : ℝ) (rj rg : Raw ℝ), Twin ρ sum rj rg → Raw.Shape rj →
    ∀ (gj gg : Game ℝ), fromRoot rj = .ok gj → fromRoot rg = .ok gg →
    ∀ (clip : ℝ) (one two : Strat ℝ), ProfileOK gj (fun p => if p then one else two) →
    ∀ (oj og : CliOut ℝ), report gj 0 clip one two = .ok oj → report gg sum clip one two = .ok og →
    og.playerTwoUtility = oj.playerTwoUtility := by
  intro h
  obtain ⟨gg, oj, og, a, b, c, d, e, f, g, -, hne⟩ := exNotSame
  exact hne (h _ _ _ _ a b _ _ c d _ _ _ e _ _ f g)

end Twn

end Cfr
