import CfrVerif.Proofs.Transforms
import CfrVerif.Proofs.WellFormed
import CfrVerif.Proofs.Trajectory
import CfrVerif.Props.C01
/-!
# Helper lemmas for C12, part 3 (payoff shift, exchange of the players)
-/
set_option linter.unusedSectionVars false
set_option linter.unusedSimpArgs false
set_option linter.unusedVariables false
namespace Cfr

section Swap
variable {α : Type} [Field α] [LinearOrder α] [IsStrictOrderedRing α]

/-! ## evaluation of the mirrored game -/

mutual
theorem expected_swap (ch : List (List α)) (σ : Bool → Strat α) :
    ∀ n : Node α, expected ch (fun one => σ (!one)) n.swap = - expected ch σ n
  | .term p => by simp [Node.swap, expected]
  | .chance i ks => by
    simp only [Node.swap, expected]
    exact expectedL_swap ch σ false _ ks
  | .player one i ks => by
    simp only [Node.swap, expected, Bool.not_not]
    exact expectedL_swap ch σ true _ ks
theorem expectedL_swap (ch : List (List α)) (σ : Bool → Strat α) (skip : Bool) :
    ∀ (ps : List α) (ks : List (Node α)),
      expectedL ch (fun one => σ (!one)) skip ps (Node.swapL ks) = - expectedL ch σ skip ps ks
  | [], ks => by simp [expectedL]
  | _ :: _, [] => by simp [Node.swapL, expectedL]
  | p :: ps, k :: ks => by
    simp only [Node.swapL, expectedL, expected_swap ch σ k, expectedL_swap ch σ skip ps ks]
    split_ifs <;> ring
end

mutual
theorem view_swap (ch : List (List α)) (σo : Strat α) (me : Bool) :
    ∀ n : Node α, view ch σo me n.swap = view ch σo (!me) n
  | .term p => by cases me <;> simp [Node.swap, view]
  | .chance i ks => by
    simp only [Node.swap, view, viewL_swap ch σo me ks]
  | .player one i ks => by
    cases one <;> cases me <;> simp [Node.swap, view, viewL_swap ch σo _ ks]
theorem viewL_swap (ch : List (List α)) (σo : Strat α) (me : Bool) :
    ∀ ks : List (Node α), viewL ch σo me (Node.swapL ks) = viewL ch σo (!me) ks
  | [] => by simp [Node.swapL, viewL]
  | k :: ks => by simp only [Node.swapL, viewL, view_swap ch σo me k, viewL_swap ch σo me ks]
end

theorem infos_swap (g : Game α) (me : Bool) : g.swap.infos me = g.infos (!me) := by
  cases me <;> rfl

theorem optimalDeviations_swap (g : Game α) (me : Bool) (σo : Strat α) :
    optimalDeviations g.swap me σo = optimalDeviations g (!me) σo := by
  unfold optimalDeviations
  rw [infos_swap]
  show bestResponse _ _ (view g.chance σo me g.root.swap) = _
  rw [view_swap]

/-! ## the traversal of the mirrored game -/

/-- the same accumulation addressed to the other player -/
def Eff.flip (e : Eff α) : Eff α := { e with one := !e.one }

/-- the state with the two tables exchanged -/
def SolveSt.mirror (s : SolveSt α) : SolveSt α := ⟨s.two, s.one⟩

/-- the context with the two strategies exchanged -/
def VCtx.mirror (c : VCtx α) : VCtx α := { c with strat := fun one => c.strat (!one) }

theorem stratEffs_flip (one : Bool) (i : Nat) (own : α) :
    ∀ (σ : List α) (a : Nat),
      stratEffs (!one) i own σ a = (stratEffs one i own σ a).map Eff.flip
  | [], _ => by simp [stratEffs]
  | s :: σ, a => by simp [stratEffs, Eff.flip, stratEffs_flip one i own σ (a + 1)]

theorem subEffs_flip (one : Bool) (i : Nat) (sub : α) (n : Nat) :
    subEffs (!one) i sub n = (subEffs one i sub n).map Eff.flip := by
  simp [subEffs, Eff.flip]

theorem mirror_sampled (c : VCtx α) : c.mirror.sampled = c.sampled := rfl
theorem mirror_ch (c : VCtx α) : c.mirror.ch = c.ch := rfl

mutual
theorem vrec_swap (c : VCtx α) (hs : c.sampled = false) :
    ∀ (n : Node α) (pc p1 p2 : α) (d : DrawSt α),
      vrec c.mirror n.swap pc p2 p1 d
        = (-(vrec c n pc p1 p2 d).1, (vrec c n pc p1 p2 d).2.1.map Eff.flip, (vrec c n pc p1 p2 d).2.2)
  | .term p, pc, p1, p2, d => by simp [Node.swap, vrec_term]
  | .chance i ks, pc, p1, p2, d => by
    simp only [Node.swap]
    rw [vrec_chance c hs, vrec_chance c.mirror (by rw [mirror_sampled]; exact hs), mirror_ch]
    have := vrecChance_swap c hs (c.ch.getD i []) ks pc p1 p2 d 0
    rw [neg_zero] at this
    exact this
  | .player one i ks, pc, p1, p2, d => by
    simp only [Node.swap]
    rw [vrec_player, vrec_player]
    have hσ : c.mirror.strat (!one) i = c.strat one i := by simp [VCtx.mirror]
    have hm : (if (!one) = true then pc * p1 else -p2 * pc)
        = -(if one = true then pc * p2 else -p1 * pc) := by
      cases one <;> simp <;> ring
    have ho : (if (!one) = true then p2 else p1) = (if one = true then p1 else p2) := by
      cases one <;> simp
    have := vrecActs_swap c hs one i (if one = true then pc * p2 else -p1 * pc) (c.strat one i) ks
      pc p1 p2 d 0 0 0
    rw [neg_zero] at this
    simp only [hσ, hm, ho, this, stratEffs_flip, subEffs_flip, List.map_append]
theorem vrecChance_swap (c : VCtx α) (hs : c.sampled = false) :
    ∀ (ps : List α) (ks : List (Node α)) (pc p1 p2 : α) (d : DrawSt α) (acc : α),
      vrecChance c.mirror ps (Node.swapL ks) pc p2 p1 d (-acc)
        = (-(vrecChance c ps ks pc p1 p2 d acc).1,
            (vrecChance c ps ks pc p1 p2 d acc).2.1.map Eff.flip,
            (vrecChance c ps ks pc p1 p2 d acc).2.2)
  | [], ks, pc, p1, p2, d, acc => by simp [vrecChance]
  | _ :: _, [], pc, p1, p2, d, acc => by simp [Node.swapL, vrecChance]
  | p :: ps, k :: ks, pc, p1, p2, d, acc => by
    simp only [Node.swapL]
    rw [vrecChance_cons, vrecChance_cons]
    simp only [vrec_swap c hs k (pc * p) p1 p2 d]
    have e : -acc + p * -(vrec c k (pc * p) p1 p2 d).1 = -(acc + p * (vrec c k (pc * p) p1 p2 d).1) := by
      ring
    rw [e, vrecChance_swap c hs ps ks pc p1 p2 _ _]
    simp only [List.map_append]
theorem vrecActs_swap (c : VCtx α) (hs : c.sampled = false) (one : Bool) (i : Nat) (mult : α) :
    ∀ (ss : List α) (ks : List (Node α)) (pc p1 p2 : α) (d : DrawSt α) (a : Nat) (eo ex : α),
      vrecActs c.mirror (!one) i (-mult) ss (Node.swapL ks) pc p2 p1 d a (-eo) ex
        = (-(vrecActs c one i mult ss ks pc p1 p2 d a eo ex).1,
            (vrecActs c one i mult ss ks pc p1 p2 d a eo ex).2.1,
            (vrecActs c one i mult ss ks pc p1 p2 d a eo ex).2.2.1.map Eff.flip,
            (vrecActs c one i mult ss ks pc p1 p2 d a eo ex).2.2.2)
  | [], ks, pc, p1, p2, d, a, eo, ex => by simp [vrecActs]
  | _ :: _, [], pc, p1, p2, d, a, eo, ex => by simp [Node.swapL, vrecActs]
  | s :: ss, k :: ks, pc, p1, p2, d, a, eo, ex => by
    simp only [Node.swapL]
    rw [vrecActs_cons, vrecActs_cons]
    have hv : (if (!one) = true then vrec c.mirror k.swap pc (p2 * s) p1 d
          else vrec c.mirror k.swap pc p2 (p1 * s) d)
        = (-(if one = true then vrec c k pc (p1 * s) p2 d else vrec c k pc p1 (p2 * s) d).1,
            (if one = true then vrec c k pc (p1 * s) p2 d else vrec c k pc p1 (p2 * s) d).2.1.map Eff.flip,
            (if one = true then vrec c k pc (p1 * s) p2 d else vrec c k pc p1 (p2 * s) d).2.2) := by
      cases one
      · simpa using vrec_swap c hs k pc p1 (p2 * s) d
      · simpa using vrec_swap c hs k pc (p1 * s) p2 d
    simp only [hv]
    generalize (if one = true then vrec c k pc (p1 * s) p2 d else vrec c k pc p1 (p2 * s) d) = r
    have e1 : -eo + s * -r.1 = -(eo + s * r.1) := by ring
    have e2 : ex + -r.1 * -mult * s = ex + r.1 * mult * s := by ring
    have e3 : -r.1 * -mult = r.1 * mult := by ring
    rw [e1, e2, e3, vrecActs_swap c hs one i mult ss ks pc p1 p2 _ _ _ _]
    simp [Eff.flip]
end

/-! ## states -/

theorem applyEff_mirror (s : SolveSt α) (e : Eff α) :
    s.mirror.applyEff e.flip = (s.applyEff e).mirror := by
  obtain ⟨o, i, sl, a, d⟩ := e
  cases o <;> simp [SolveSt.applyEff, SolveSt.set, SolveSt.get, SolveSt.mirror, Eff.flip]

theorem applyEffs_mirror : ∀ (es : List (Eff α)) (s : SolveSt α),
    s.mirror.applyEffs (es.map Eff.flip) = (s.applyEffs es).mirror
  | [], s => rfl
  | e :: es, s => by
    have h1 : s.mirror.applyEffs ((e :: es).map Eff.flip)
        = (s.mirror.applyEff e.flip).applyEffs (es.map Eff.flip) := rfl
    have h2 : s.applyEffs (e :: es) = (s.applyEff e).applyEffs es := rfl
    rw [h1, h2, applyEff_mirror, applyEffs_mirror es]

theorem strat_mirror (s : SolveSt α) : s.mirror.strat = fun one => s.strat (!one) := by
  funext one i
  cases one <;> rfl

theorem vanillaIter_swap [Transc α] (g : Game α) (p : RegretParams α) (draw : DrawFn α) (it : Nat)
    (s : SolveSt α) (log : List (DrawRec α)) :
    vanillaIter g.swap false p draw it s.mirror log
      = ((vanillaIter g false p draw it s log).1.mirror, (vanillaIter g false p draw it s log).2.2.1,
          (vanillaIter g false p draw it s log).2.1, (vanillaIter g false p draw it s log).2.2.2) := by
  have hc : (⟨g.swap.chance, false, s.mirror.strat, draw, it - 1⟩ : VCtx α)
      = (⟨g.chance, false, s.strat, draw, it - 1⟩ : VCtx α).mirror := by
    rw [strat_mirror]; rfl
  have hr : g.swap.root = g.root.swap := rfl
  simp only [vanillaIter]
  rw [hc, hr, vrec_swap _ rfl]
  simp only [applyEffs_mirror]
  rfl

theorem belowThreshold_comm (r1 r2 : α) (thr : Option (Ext α)) :
    belowThreshold r2 r1 thr = belowThreshold r1 r2 thr := by
  unfold belowThreshold
  rw [fmax_eq_max, fmax_eq_max, max_comm]

theorem solveLoop_unfold_succ [Transc α] (step : IterFn α) (thr : Option (Ext α)) (n it : ℕ) (s : SolveSt α)
    (r1 r2 : Ext α) (log : List (DrawRec α)) :
    solveLoop step thr (n + 1) it s r1 r2 log =
      if belowThreshold (step it s log).2.1 (step it s log).2.2.1 thr = true then
        ⟨.fin (step it s log).2.1, .fin (step it s log).2.2.1, (step it s log).1.avg true,
          (step it s log).1.avg false, it, (step it s log).2.2.2⟩
      else solveLoop step thr n (it + 1) (step it s log).1 (.fin (step it s log).2.1)
        (.fin (step it s log).2.2.1) (step it s log).2.2.2 := by
  rw [solveLoop]

theorem solveLoop_swap [Transc α] (step step' : IterFn α) (thr : Option (Ext α))
    (h : ∀ it s log, step' it s.mirror log
      = ((step it s log).1.mirror, (step it s log).2.2.1, (step it s log).2.1, (step it s log).2.2.2)) :
    ∀ (n it : Nat) (s : SolveSt α) (r1 r2 : Ext α) (log : List (DrawRec α)),
      solveLoop step' thr n it s.mirror r2 r1 log = (solveLoop step thr n it s r1 r2 log).swap
  | 0, it, s, r1, r2, log => by
    simp only [solveLoop]
    rfl
  | n + 1, it, s, r1, r2, log => by
    rw [solveLoop_unfold_succ, solveLoop_unfold_succ, h]
    simp only []
    rw [belowThreshold_comm]
    split_ifs
    · rfl
    · exact solveLoop_swap step step' thr h n (it + 1) _ _ _ _

end Swap

section Shift
variable {α : Type} [Field α] [LinearOrder α] [IsStrictOrderedRing α]

/-! ## the shifted game is as well formed as the original one -/

theorem mapPayL_length (f : α → α) : ∀ ks : List (Node α), (Node.mapPayL f ks).length = ks.length
  | [] => by simp [Node.mapPayL]
  | k :: ks => by simp [Node.mapPayL, mapPayL_length f ks]

theorem chance_mapPay (f : α → α) (g : Game α) : (g.mapPay f).chance = g.chance := rfl
theorem infos_mapPay (f : α → α) (g : Game α) (one : Bool) : (g.mapPay f).infos one = g.infos one := rfl
theorem root_mapPay (f : α → α) (g : Game α) : (g.mapPay f).root = g.root.mapPay f := rfl

mutual
theorem nodeOK_mapPay (f : α → α) (g : Game α) :
    ∀ n : Node α, NodeOK g n → NodeOK (g.mapPay f) (n.mapPay f)
  | .term p, _ => by simp [Node.mapPay, NodeOK]
  | .chance i ks, h => by
    obtain ⟨h1, h2, hk⟩ := (by simpa [NodeOK] using h :
      (∃ ps, g.chance[i]? = some ps ∧ ps.length = ks.length) ∧ 2 ≤ ks.length ∧ NodeOKL g ks)
    simp only [Node.mapPay, NodeOK, mapPayL_length, chance_mapPay]
    exact ⟨h1, h2, nodeOKL_mapPay f g ks hk⟩
  | .player one i ks, h => by
    obtain ⟨h1, h2, hk⟩ := (by simpa [NodeOK] using h :
      (∃ e, (g.infos one)[i]? = some e ∧ e.actions.length = ks.length) ∧ 2 ≤ ks.length ∧
        NodeOKL g ks)
    simp only [Node.mapPay, NodeOK, mapPayL_length, infos_mapPay]
    exact ⟨h1, h2, nodeOKL_mapPay f g ks hk⟩
theorem nodeOKL_mapPay (f : α → α) (g : Game α) :
    ∀ ks : List (Node α), NodeOKL g ks → NodeOKL (g.mapPay f) (Node.mapPayL f ks)
  | [], _ => by simp [Node.mapPayL, NodeOKL]
  | k :: ks, h => by
    obtain ⟨h1, h2⟩ := (by simpa [NodeOKL] using h : NodeOK g k ∧ NodeOKL g ks)
    simp only [Node.mapPayL, NodeOKL]
    exact ⟨nodeOK_mapPay f g k h1, nodeOKL_mapPay f g ks h2⟩
end

mutual
theorem pr_mapPay (f : α → α) (me : Bool) (hist : Nat → Hist) :
    ∀ (n : Node α) (H : Hist), PR me hist H n → PR me hist H (n.mapPay f)
  | .term p, H, _ => by simp [Node.mapPay, PR]
  | .chance i ks, H, h => by
    simp only [Node.mapPay, PR] at h ⊢
    exact prl_mapPay f me hist ks H h
  | .player one i ks, H, h => by
    simp only [Node.mapPay, PR] at h ⊢
    by_cases hm : one = me
    · rw [if_pos hm] at h ⊢
      exact ⟨h.1, prd_mapPay f me hist ks H i 0 h.2⟩
    · rw [if_neg hm] at h ⊢
      exact prl_mapPay f me hist ks H h
theorem prl_mapPay (f : α → α) (me : Bool) (hist : Nat → Hist) :
    ∀ (ks : List (Node α)) (H : Hist), PRL me hist H ks → PRL me hist H (Node.mapPayL f ks)
  | [], H, _ => by simp [Node.mapPayL, PRL]
  | k :: ks, H, h => by
    simp only [Node.mapPayL, PRL] at h ⊢
    exact ⟨pr_mapPay f me hist k H h.1, prl_mapPay f me hist ks H h.2⟩
theorem prd_mapPay (f : α → α) (me : Bool) (hist : Nat → Hist) :
    ∀ (ks : List (Node α)) (H : Hist) (i a : Nat), PRD me hist H i a ks →
      PRD me hist H i a (Node.mapPayL f ks)
  | [], H, i, a, _ => by simp [Node.mapPayL, PRD]
  | k :: ks, H, i, a, h => by
    simp only [Node.mapPayL, PRD] at h ⊢
    exact ⟨pr_mapPay f me hist k _ h.1, prd_mapPay f me hist ks H i (a + 1) h.2⟩
end

theorem gameWF_mapPay (f : α → α) (g : Game α) (hg : GameWF g) : GameWF (g.mapPay f) where
  chancePos := hg.chancePos
  nodes := nodeOK_mapPay f g g.root hg.nodes
  recall := fun me => by
    obtain ⟨hist, h1, h2⟩ := hg.recall me
    exact ⟨hist, pr_mapPay f me hist g.root [] h1, h2⟩
  tables1 := hg.tables1
  tables2 := hg.tables2
  actsTwo := hg.actsTwo

/-! ## expected payoff of the shifted game -/

mutual
theorem expected_shift (k : α) (g : Game α) (hch : ∀ ps ∈ g.chance, ps.sum = 1)
    (σ : Bool → Strat α) (hσ : ∀ me, IsStrat (σ me) ∧ FitsGame g me (σ me)) :
    ∀ n : Node α, NodeOK g n →
      expected g.chance σ (n.mapPay (fun x => x + k)) = expected g.chance σ n + k
  | .term p, _ => by simp [Node.mapPay, expected]
  | .chance i ks, h => by
    obtain ⟨⟨ps, hps, hl⟩, _, hk⟩ := (by simpa [NodeOK] using h :
      (∃ ps, g.chance[i]? = some ps ∧ ps.length = ks.length) ∧ 2 ≤ ks.length ∧ NodeOKL g ks)
    have e : g.chance.getD i [] = ps := by simp [List.getD_eq_getElem?_getD, hps]
    simp only [Node.mapPay, expected, e]
    rw [expectedL_shift k g hch σ hσ false ps ks hl (by simp) hk, hch ps (List.mem_of_getElem? hps)]
    ring
  | .player one i ks, h => by
    obtain ⟨⟨e, he, hl⟩, _, hk⟩ := (by simpa [NodeOK] using h :
      (∃ e, (g.infos one)[i]? = some e ∧ e.actions.length = ks.length) ∧ 2 ≤ ks.length ∧
        NodeOKL g ks)
    obtain ⟨v, hv, hvl⟩ := fits_at g one (σ one) (hσ one).2 i e he
    have e' : (σ one).at i = v := by simp [Strat.at, List.getD_eq_getElem?_getD, hv]
    have hd := (hσ one).1 v (List.mem_of_getElem? hv)
    simp only [Node.mapPay, expected, e']
    rw [expectedL_shift k g hch σ hσ true v ks (by omega) (fun _ => hd.1) hk, hd.2]
    ring
theorem expectedL_shift (k : α) (g : Game α) (hch : ∀ ps ∈ g.chance, ps.sum = 1)
    (σ : Bool → Strat α) (hσ : ∀ me, IsStrat (σ me) ∧ FitsGame g me (σ me)) (skip : Bool) :
    ∀ (ps : List α) (ks : List (Node α)), ps.length = ks.length →
      (skip = true → ∀ p ∈ ps, 0 ≤ p) → NodeOKL g ks →
      expectedL g.chance σ skip ps (Node.mapPayL (fun x => x + k) ks)
        = expectedL g.chance σ skip ps ks + k * ps.sum
  | [], [], _, _, _ => by simp [Node.mapPayL, expectedL]
  | [], _ :: _, hl, _, _ => by simp at hl
  | _ :: _, [], hl, _, _ => by simp at hl
  | p :: ps, n :: ks, hl, hp, h => by
    obtain ⟨h1, h2⟩ := (by simpa [NodeOKL] using h : NodeOK g n ∧ NodeOKL g ks)
    simp only [Node.mapPayL, expectedL, List.sum_cons, expected_shift k g hch σ hσ n h1,
      expectedL_shift k g hch σ hσ skip ps ks (by simpa using hl)
        (fun hs w hw => hp hs w (List.mem_cons_of_mem _ hw)) h2]
    by_cases hs : (skip && !(decide (0 < p))) = true
    · have hs' : skip = true ∧ ¬ 0 < p := by simpa using hs
      have h0 : p = 0 := le_antisymm (not_lt.mp hs'.2) (hp hs'.1 p List.mem_cons_self)
      subst h0
      simp
    · simp only [hs, Bool.false_eq_true, if_false]
      ring
end

theorem utility_shift (k : α) (g : Game α) (hg : GameWF g) (σ : Profile α) (hσ : ProfileOK g σ)
    (me : Bool) :
    utility (g.mapPay (fun x => x + k)) σ me = utility g σ me + sg me k := by
  have h := expected_shift k g (fun ps hps => (hg.chancePos ps hps).2) σ hσ g.root hg.nodes
  unfold utility
  rw [chance_mapPay, root_mapPay, h]
  cases me <;> simp [sg]
  ring

theorem profileOK_mapPay (f : α → α) (g : Game α) (σ : Profile α) (hσ : ProfileOK g σ) :
    ProfileOK (g.mapPay f) σ := fun me => hσ me

/-- the best-response value moves with the payoffs (through C01: it is the greatest utility over
the deviations, and every one of these moves by the same constant) -/
theorem optimalDeviations_shift (k : α) (g : Game α) (hg : GameWF g) (σ : Profile α)
    (hσ : ProfileOK g σ) (me : Bool) :
    optimalDeviations (g.mapPay (fun x => x + k)) me (σ (!me))
      = optimalDeviations g me (σ (!me)) + sg me k := by
  have h1 := eval_best_response (g.mapPay (fun x => x + k)) (gameWF_mapPay _ g hg) σ
    (profileOK_mapPay _ g σ hσ) me
  have h2 := eval_best_response g hg σ hσ me
  refine h1.unique ⟨?_, ?_⟩
  · obtain ⟨τ, a, b, e⟩ := h2.1
    refine ⟨τ, a, b, ?_⟩
    rw [utility_shift k g hg _ (profileOK_deviate hσ me τ a b) me, ← e]
  · rintro u ⟨τ, a, b, rfl⟩
    have hb : FitsGame g me τ := b
    rw [utility_shift k g hg _ (profileOK_deviate hσ me τ a hb) me]
    have := h2.2 ⟨τ, a, hb, rfl⟩
    linarith

/-! ## one unsampled traversal of the shifted game -/

mutual
theorem vrec_draw (c : VCtx α) (hs : c.sampled = false) :
    ∀ (n : Node α) (pc p1 p2 : α) (d : DrawSt α), (vrec c n pc p1 p2 d).2.2 = d
  | .term p, pc, p1, p2, d => by simp [vrec_term]
  | .chance i ks, pc, p1, p2, d => by
    rw [vrec_chance c hs]
    exact vrecChance_draw c hs _ ks pc p1 p2 d 0
  | .player one i ks, pc, p1, p2, d => by
    rw [vrec_player]
    exact vrecActs_draw c hs one i _ _ ks pc p1 p2 d 0 0 0
theorem vrecChance_draw (c : VCtx α) (hs : c.sampled = false) :
    ∀ (ps : List α) (ks : List (Node α)) (pc p1 p2 : α) (d : DrawSt α) (acc : α),
      (vrecChance c ps ks pc p1 p2 d acc).2.2 = d
  | [], ks, pc, p1, p2, d, acc => by simp [vrecChance]
  | _ :: _, [], pc, p1, p2, d, acc => by simp [vrecChance]
  | p :: ps, k :: ks, pc, p1, p2, d, acc => by
    rw [vrecChance_cons]
    simp only []
    rw [vrecChance_draw c hs ps ks, vrec_draw c hs k]
theorem vrecActs_draw (c : VCtx α) (hs : c.sampled = false) (one : Bool) (i : Nat) (mult : α) :
    ∀ (ss : List α) (ks : List (Node α)) (pc p1 p2 : α) (d : DrawSt α) (a : Nat) (eo ex : α),
      (vrecActs c one i mult ss ks pc p1 p2 d a eo ex).2.2.2 = d
  | [], ks, pc, p1, p2, d, a, eo, ex => by simp [vrecActs]
  | _ :: _, [], pc, p1, p2, d, a, eo, ex => by simp [vrecActs]
  | s :: ss, k :: ks, pc, p1, p2, d, a, eo, ex => by
    rw [vrecActs_cons]
    simp only []
    rw [vrecActs_draw c hs one i mult ss ks]
    cases one
    · simpa using vrec_draw c hs k pc p1 (p2 * s) d
    · simpa using vrec_draw c hs k pc (p1 * s) p2 d
end

/-- what the traversal of a well-formed game needs of its context: full mode, the game's chance
table, and at every infoset a strategy vector of the right length that sums to one -/
structure CtxFits (g : Game α) (c : VCtx α) : Prop where
  sampled : c.sampled = false
  ch : c.ch = g.chance
  strat : ∀ one i e, (g.infos one)[i]? = some e →
    (c.strat one i).length = e.actions.length ∧ (c.strat one i).sum = 1

theorem shift_extra_succ (one me : Bool) (i I : Nat) (slot : Slot) (a0 a n : Nat) (x : α) :
    (if one = me ∧ i = I ∧ Slot.regret = slot ∧ a0 = a then x else 0)
      + (if one = me ∧ i = I ∧ slot = Slot.regret ∧ a0 + 1 ≤ a ∧ a < a0 + 1 + n then x else 0)
      = if one = me ∧ i = I ∧ slot = Slot.regret ∧ a0 ≤ a ∧ a < a0 + (n + 1) then x else 0 := by
  by_cases h1 : one = me
  · by_cases h2 : i = I
    · cases slot
      · rcases Nat.lt_trichotomy a0 a with h | h | h
        · have e1 : ¬ a0 = a := by omega
          have e2 : a0 + 1 ≤ a := h
          have e3 : a0 ≤ a := by omega
          have e4 : (a < a0 + 1 + n) ↔ (a < a0 + (n + 1)) := by omega
          simp [h1, h2, e1, e2, e3, e4]
        · subst h
          have e4 : a0 < a0 + (n + 1) := by omega
          simp [h1, h2, e4]
        · have e1 : ¬ a0 = a := by omega
          have e2 : ¬ a0 + 1 ≤ a := by omega
          have e3 : ¬ a0 ≤ a := by omega
          simp [h1, h2, e1, e2, e3]
      · simp
    · simp [h2]
  · simp [h1]

mutual
theorem vrec_shift (k : α) (g : Game α) (hch : ∀ ps ∈ g.chance, ps.sum = 1) (c : VCtx α)
    (hc : CtxFits g c) (me : Bool) (I : Nat) (slot : Slot) (a : Nat)
    (ha : slot = Slot.regret → a < (c.strat me I).length) :
    ∀ (n : Node α) (pc p1 p2 : α) (d : DrawSt α), NodeOK g n →
      (vrec c (n.mapPay (fun x => x + k)) pc p1 p2 d).1 = (vrec c n pc p1 p2 d).1 + k ∧
      effSum (vrec c (n.mapPay (fun x => x + k)) pc p1 p2 d).2.1 me I slot a
        = effSum (vrec c n pc p1 p2 d).2.1 me I slot a
  | .term p, pc, p1, p2, d, _ => by simp [Node.mapPay, vrec_term]
  | .chance i ks, pc, p1, p2, d, h => by
    obtain ⟨⟨ps, hps, hl⟩, _, hk⟩ := (by simpa [NodeOK] using h :
      (∃ ps, g.chance[i]? = some ps ∧ ps.length = ks.length) ∧ 2 ≤ ks.length ∧ NodeOKL g ks)
    have e : c.ch.getD i [] = ps := by simp [hc.ch, List.getD_eq_getElem?_getD, hps]
    simp only [Node.mapPay]
    rw [vrec_chance c hc.sampled, vrec_chance c hc.sampled, e]
    obtain ⟨hv, he⟩ := vrecChance_shift k g hch c hc me I slot a ha ps ks pc p1 p2 d 0 0 hl hk
    rw [hv, he, hch ps (List.mem_of_getElem? hps)]
    exact ⟨by ring, rfl⟩
  | .player one i ks, pc, p1, p2, d, h => by
    obtain ⟨⟨e, he, hl⟩, _, hk⟩ := (by simpa [NodeOK] using h :
      (∃ e, (g.infos one)[i]? = some e ∧ e.actions.length = ks.length) ∧ 2 ≤ ks.length ∧
        NodeOKL g ks)
    obtain ⟨hσl, hσs⟩ := hc.strat one i e he
    simp only [Node.mapPay]
    rw [vrec_player, vrec_player]
    obtain ⟨hv, hx, hE⟩ := vrecActs_shift k g hch c hc me I slot a ha one i
      (if one = true then pc * p2 else -p1 * pc) (c.strat one i) ks pc p1 p2 d 0 0 0 0 0
      (by omega) hk
    simp only [effSum_append]
    rw [hv, hx, hE, hσs]
    refine ⟨by ring, ?_⟩
    cases slot with
    | strat => simp [effSum_subEffs_strat]
    | regret =>
      simp only [effSum_subEffs_regret]
      by_cases h1 : one = me ∧ i = I
      · obtain ⟨rfl, rfl⟩ := h1
        have ha' := ha rfl
        have ha'' : a < 0 + ks.length := by omega
        simp only [ha', ha'', Nat.zero_le, true_and, and_self, and_true, if_true]
        ring
      · rcases not_and_or.mp h1 with hh | hh <;> simp [hh]
theorem vrecChance_shift (k : α) (g : Game α) (hch : ∀ ps ∈ g.chance, ps.sum = 1) (c : VCtx α)
    (hc : CtxFits g c) (me : Bool) (I : Nat) (slot : Slot) (a : Nat)
    (ha : slot = Slot.regret → a < (c.strat me I).length) :
    ∀ (ps : List α) (ks : List (Node α)) (pc p1 p2 : α) (d : DrawSt α) (acc acc' : α),
      ps.length = ks.length → NodeOKL g ks →
      (vrecChance c ps (Node.mapPayL (fun x => x + k) ks) pc p1 p2 d acc').1
        = (vrecChance c ps ks pc p1 p2 d acc).1 + (acc' - acc) + k * ps.sum ∧
      effSum (vrecChance c ps (Node.mapPayL (fun x => x + k) ks) pc p1 p2 d acc').2.1 me I slot a
        = effSum (vrecChance c ps ks pc p1 p2 d acc).2.1 me I slot a
  | [], [], pc, p1, p2, d, acc, acc', _, _ => by simp [Node.mapPayL, vrecChance]
  | [], _ :: _, _, _, _, _, _, _, hl, _ => by simp at hl
  | _ :: _, [], _, _, _, _, _, _, hl, _ => by simp at hl
  | p :: ps, n :: ks, pc, p1, p2, d, acc, acc', hl, h => by
    obtain ⟨h1, h2⟩ := (by simpa [NodeOKL] using h : NodeOK g n ∧ NodeOKL g ks)
    simp only [Node.mapPayL]
    rw [vrecChance_cons, vrecChance_cons]
    simp only [vrec_draw c hc.sampled, effSum_append]
    obtain ⟨hv, he⟩ := vrec_shift k g hch c hc me I slot a ha n (pc * p) p1 p2 d h1
    obtain ⟨hv', he'⟩ := vrecChance_shift k g hch c hc me I slot a ha ps ks pc p1 p2 d
      (acc + p * (vrec c n (pc * p) p1 p2 d).1)
      (acc' + p * (vrec c (n.mapPay (fun x => x + k)) (pc * p) p1 p2 d).1) (by simpa using hl) h2
    rw [hv', he', he, hv, List.sum_cons]
    exact ⟨by ring, rfl⟩
theorem vrecActs_shift (k : α) (g : Game α) (hch : ∀ ps ∈ g.chance, ps.sum = 1) (c : VCtx α)
    (hc : CtxFits g c) (me : Bool) (I : Nat) (slot : Slot) (a : Nat)
    (ha : slot = Slot.regret → a < (c.strat me I).length) (one : Bool) (i : Nat) (mult : α) :
    ∀ (ss : List α) (ks : List (Node α)) (pc p1 p2 : α) (d : DrawSt α) (a0 : Nat) (eo ex eo' ex' : α),
      ss.length = ks.length → NodeOKL g ks →
      (vrecActs c one i mult ss (Node.mapPayL (fun x => x + k) ks) pc p1 p2 d a0 eo' ex').1
        = (vrecActs c one i mult ss ks pc p1 p2 d a0 eo ex).1 + (eo' - eo) + k * ss.sum ∧
      (vrecActs c one i mult ss (Node.mapPayL (fun x => x + k) ks) pc p1 p2 d a0 eo' ex').2.1
        = (vrecActs c one i mult ss ks pc p1 p2 d a0 eo ex).2.1 + (ex' - ex) + k * mult * ss.sum ∧
      effSum (vrecActs c one i mult ss (Node.mapPayL (fun x => x + k) ks) pc p1 p2 d a0 eo' ex').2.2.1
          me I slot a
        = effSum (vrecActs c one i mult ss ks pc p1 p2 d a0 eo ex).2.2.1 me I slot a
          + (if one = me ∧ i = I ∧ slot = Slot.regret ∧ a0 ≤ a ∧ a < a0 + ks.length then k * mult
             else 0)
  | [], [], pc, p1, p2, d, a0, eo, ex, eo', ex', _, _ => by
    have : ¬ (a0 ≤ a ∧ a < a0 + 0) := by omega
    simp only [Node.mapPayL, vrecActs, List.sum_nil, List.length_nil, effSum_nil]
    refine ⟨by ring, by ring, ?_⟩
    rw [if_neg (fun hh => this hh.2.2.2)]
    ring
  | [], _ :: _, _, _, _, _, _, _, _, _, _, hl, _ => by simp at hl
  | _ :: _, [], _, _, _, _, _, _, _, _, _, hl, _ => by simp at hl
  | s :: ss, n :: ks, pc, p1, p2, d, a0, eo, ex, eo', ex', hl, h => by
    obtain ⟨h1, h2⟩ := (by simpa [NodeOKL] using h : NodeOK g n ∧ NodeOKL g ks)
    simp only [Node.mapPayL]
    rw [vrecActs_cons, vrecActs_cons]
    have hr : (if one = true then vrec c (n.mapPay (fun x => x + k)) pc (p1 * s) p2 d
          else vrec c (n.mapPay (fun x => x + k)) pc p1 (p2 * s) d).1
        = (if one = true then vrec c n pc (p1 * s) p2 d else vrec c n pc p1 (p2 * s) d).1 + k ∧
        effSum (if one = true then vrec c (n.mapPay (fun x => x + k)) pc (p1 * s) p2 d
          else vrec c (n.mapPay (fun x => x + k)) pc p1 (p2 * s) d).2.1 me I slot a
        = effSum (if one = true then vrec c n pc (p1 * s) p2 d
            else vrec c n pc p1 (p2 * s) d).2.1 me I slot a ∧
        (if one = true then vrec c (n.mapPay (fun x => x + k)) pc (p1 * s) p2 d
          else vrec c (n.mapPay (fun x => x + k)) pc p1 (p2 * s) d).2.2 = d ∧
        (if one = true then vrec c n pc (p1 * s) p2 d else vrec c n pc p1 (p2 * s) d).2.2 = d := by
      cases one
      · simp only [Bool.false_eq_true, if_false]
        exact ⟨(vrec_shift k g hch c hc me I slot a ha n pc p1 (p2 * s) d h1).1,
          (vrec_shift k g hch c hc me I slot a ha n pc p1 (p2 * s) d h1).2,
          vrec_draw c hc.sampled _ _ _ _ _, vrec_draw c hc.sampled _ _ _ _ _⟩
      · simp only [if_true]
        exact ⟨(vrec_shift k g hch c hc me I slot a ha n pc (p1 * s) p2 d h1).1,
          (vrec_shift k g hch c hc me I slot a ha n pc (p1 * s) p2 d h1).2,
          vrec_draw c hc.sampled _ _ _ _ _, vrec_draw c hc.sampled _ _ _ _ _⟩
    generalize (if one = true then vrec c (n.mapPay (fun x => x + k)) pc (p1 * s) p2 d
          else vrec c (n.mapPay (fun x => x + k)) pc p1 (p2 * s) d) = r' at hr
    generalize (if one = true then vrec c n pc (p1 * s) p2 d else vrec c n pc p1 (p2 * s) d) = r at hr
    obtain ⟨hv, he, hd', hd⟩ := hr
    simp only [hd', hd, effSum_append, effSum_cons]
    obtain ⟨q1, q2, q3⟩ := vrecActs_shift k g hch c hc me I slot a ha one i mult ss ks pc p1 p2 d
      (a0 + 1) (eo + s * r.1) (ex + r.1 * mult * s) (eo' + s * r'.1) (ex' + r'.1 * mult * s)
      (by simpa using hl) h2
    rw [q1, q2, q3, he, hv, List.sum_cons, List.length_cons,
      ← shift_extra_succ one me i I slot a0 a ks.length (k * mult)]
    refine ⟨by ring, by ring, ?_⟩
    by_cases hh : one = me ∧ i = I ∧ Slot.regret = slot ∧ a0 = a
    · simp only [if_pos hh]; ring
    · simp only [if_neg hh]; ring
end

/-! ## equal sums at every cell give equal states -/

theorem getD_eq_getElem' (l : List α) (a : Nat) (h : a < l.length) : l.getD a 0 = l[a] := by
  simp [List.getD_eq_getElem?_getD, h]

theorem list_ext_getD (l l' : List α) (hl : l'.length = l.length)
    (h : ∀ a, a < l.length → l'.getD a 0 = l.getD a 0) : l' = l := by
  apply List.ext_getElem hl
  intro a h1 h2
  have := h a h2
  rwa [getD_eq_getElem' _ _ h1, getD_eq_getElem' _ _ h2] at this

theorem strat_of_get (s : SolveSt α) (one : Bool) (I : Nat) (x : InfoSt α)
    (hx : (s.get one)[I]? = some x) : s.strat one I = x.strat := by
  simp [SolveSt.strat, hx]

theorem solveSt_ext (A B : SolveSt α) (h : ∀ one, A.get one = B.get one) : A = B := by
  have h1 := h true
  have h2 := h false
  cases A; cases B
  simp only [SolveSt.get, if_true, Bool.false_eq_true, if_false] at h1 h2
  subst h1; subst h2; rfl

/-- two effect lists that add the same total to every existing accumulator cell lead to the same
state -/
theorem applyEffs_congr (s : SolveSt α) (es es' : List (Eff α))
    (hlen : ∀ (one : Bool) (I : Nat) (x : InfoSt α), (s.get one)[I]? = some x →
      x.cumRegret.length ≤ x.strat.length)
    (h : ∀ me I slot a, (slot = Slot.regret → a < (s.strat me I).length) →
      effSum es' me I slot a = effSum es me I slot a) :
    s.applyEffs es' = s.applyEffs es := by
  apply solveSt_ext
  intro one
  obtain ⟨l1, c1⟩ := applyEffs_cell s es' one
  obtain ⟨l2, c2⟩ := applyEffs_cell s es one
  apply List.ext_getElem?
  intro I
  cases hx : (s.get one)[I]? with
  | none =>
    have hI : (s.get one).length ≤ I := List.getElem?_eq_none_iff.mp hx
    rw [List.getElem?_eq_none_iff.mpr (by omega), List.getElem?_eq_none_iff.mpr (by omega)]
  | some x =>
    obtain ⟨x1, g1, s1, r1, t1, cr1, cs1⟩ := c1 I x hx
    obtain ⟨x2, g2, s2, r2, t2, cr2, cs2⟩ := c2 I x hx
    rw [g1, g2]
    congr 1
    have hst := strat_of_get s one I x hx
    have e1 : x1.cumRegret = x2.cumRegret := by
      apply list_ext_getD _ _ (r1.trans r2.symm)
      intro a ha
      rw [r2] at ha
      rw [cr1 a ha, cr2 a ha, h one I Slot.regret a (fun _ => by
        rw [hst]; exact lt_of_lt_of_le ha (hlen one I x hx))]
    have e2 : x1.cumStrat = x2.cumStrat := by
      apply list_ext_getD _ _ (t1.trans t2.symm)
      intro a ha
      rw [t2] at ha
      rw [cs1 a ha, cs2 a ha, h one I Slot.strat a (fun hh => by cases hh)]
    cases x1; cases x2
    simp only at e1 e2 s1 s2
    subst e1; subst e2
    rw [s1, s2]

theorem solveLoop_congr [Transc α] (step step' : IterFn α) (thr : Option (Ext α))
    (P : SolveSt α → Prop)
    (h : ∀ it s log, P s → step' it s log = step it s log ∧ P (step it s log).1) :
    ∀ (n it : Nat) (s : SolveSt α) (r1 r2 : Ext α) (log : List (DrawRec α)), P s →
      solveLoop step' thr n it s r1 r2 log = solveLoop step thr n it s r1 r2 log
  | 0, it, s, r1, r2, log, _ => by simp only [solveLoop]
  | n + 1, it, s, r1, r2, log, hs => by
    rw [solveLoop_unfold_succ, solveLoop_unfold_succ, (h it s log hs).1]
    split_ifs
    · rfl
    · exact solveLoop_congr step step' thr P h n (it + 1) _ _ _ _ (h it s log hs).2

end Shift

/-! ## the solver over `ℝ` -/

theorem tableOK_get_ss : ∀ (es : List PInfo) (xs : List (InfoSt ℝ)), TableOK es xs →
    ∀ (i : ℕ) (e : PInfo), es[i]? = some e → ∃ x, xs[i]? = some x ∧ InfoOK e.actions.length x
  | [], [], _, i, e, he => by simp at he
  | e' :: es, y :: xs, h, 0, e, he => by
    simp only [TableOK] at h
    simp only [List.getElem?_cons_zero, Option.some.injEq] at he
    subst he
    exact ⟨y, by simp, h.1⟩
  | e' :: es, y :: xs, h, i + 1, e, he => by
    simp only [TableOK] at h
    simp only [List.getElem?_cons_succ] at he ⊢
    exact tableOK_get_ss es xs h.2 i e he
  | [], _ :: _, h, _, _, _ => by simp [TableOK] at h
  | _ :: _, [], h, _, _, _ => by simp [TableOK] at h

theorem tableOK_get_ss' : ∀ (es : List PInfo) (xs : List (InfoSt ℝ)), TableOK es xs →
    ∀ (i : ℕ) (x : InfoSt ℝ), xs[i]? = some x → ∃ e, es[i]? = some e ∧ InfoOK e.actions.length x
  | [], [], _, i, x, hx => by simp at hx
  | e' :: es, y :: xs, h, 0, x, hx => by
    simp only [TableOK] at h
    simp only [List.getElem?_cons_zero, Option.some.injEq] at hx
    subst hx
    exact ⟨e', by simp, h.1⟩
  | e' :: es, y :: xs, h, i + 1, x, hx => by
    simp only [TableOK] at h
    simp only [List.getElem?_cons_succ] at hx ⊢
    exact tableOK_get_ss' es xs h.2 i x hx
  | [], _ :: _, h, _, _, _ => by simp [TableOK] at h
  | _ :: _, [], h, _, _, _ => by simp [TableOK] at h

theorem ctxFits_of_stOK (g : Game ℝ) (s : SolveSt ℝ) (hs : StOK g s) (draw : DrawFn ℝ) (pass : ℕ) :
    CtxFits g ⟨g.chance, false, s.strat, draw, pass⟩ where
  sampled := rfl
  ch := rfl
  strat := by
    intro one i e he
    obtain ⟨x, hx, hok⟩ := tableOK_get_ss _ _ (hs one) i e he
    show (s.strat one i).length = _ ∧ (s.strat one i).sum = 1
    rw [strat_of_get s one i x hx]
    exact ⟨hok.lenσ, hok.dist.2⟩

theorem vanillaIter_shift (k : ℝ) (g : Game ℝ) (hg : GameWF g) (p : RegretParams ℝ)
    (draw : DrawFn ℝ) (it : ℕ) (s : SolveSt ℝ) (log : List (DrawRec ℝ)) (hs : StOK g s) :
    vanillaIter (g.mapPay (fun x => x + k)) false p draw it s log
      = vanillaIter g false p draw it s log := by
  have hc := ctxFits_of_stOK g s hs draw (it - 1)
  have hst : s.applyEffs (vrec ⟨g.chance, false, s.strat, draw, it - 1⟩
        (g.root.mapPay (fun x => x + k)) 1 1 1 { log := log }).2.1
      = s.applyEffs (vrec ⟨g.chance, false, s.strat, draw, it - 1⟩ g.root 1 1 1 { log := log }).2.1 := by
    apply applyEffs_congr
    · intro one I x hx
      obtain ⟨e, _, hok⟩ := tableOK_get_ss' _ _ (hs one) I x hx
      rw [hok.lenR, hok.lenσ]
    · intro me I slot a ha
      exact (vrec_shift k g (fun ps hps => (hg.chancePos ps hps).2) _ hc me I slot a ha g.root 1 1 1 _
        hg.nodes).2
  simp only [vanillaIter, chance_mapPay, root_mapPay]
  rw [hst, vrec_draw _ rfl, vrec_draw _ rfl]

/-- the same parameters with a negative average-strategy exponent replaced by `0` (the model
treats every non-positive exponent alike) -/
def RegretParams.clampStrat (p : RegretParams ℝ) : RegretParams ℝ := { p with strat := max p.strat 0 }

theorem discountAverageStrat_clamp (p : RegretParams ℝ) (t : ℕ) (v : List ℝ) :
    discountAverageStrat p.clampStrat t v = discountAverageStrat p t v := by
  unfold discountAverageStrat RegretParams.clampStrat
  by_cases h : 0 < p.strat
  · simp only [max_eq_left h.le]
  · have e : max p.strat 0 = 0 := max_eq_right (not_lt.mp h)
    simp only [e, lt_irrefl, if_false, h]

theorem advance_clamp (p : RegretParams ℝ) (it itAvg : ℕ) (x : InfoSt ℝ) :
    x.advance p.clampStrat it itAvg = x.advance p it itAvg := by
  simp only [InfoSt.advance, discountAverageStrat_clamp]
  rfl

theorem advanceAll_clamp (p : RegretParams ℝ) (it itAvg : ℕ) :
    ∀ (xs : List (InfoSt ℝ)) (acc : ℝ),
      advanceAll p.clampStrat it itAvg xs acc = advanceAll p it itAvg xs acc
  | [], acc => by simp only [advanceAll]
  | x :: xs, acc => by
    simp only [advanceAll, advance_clamp, advanceAll_clamp p it itAvg xs]

theorem vanillaIter_clamp (g : Game ℝ) (sampled : Bool) (p : RegretParams ℝ) (draw : DrawFn ℝ) :
    vanillaIter g sampled p.clampStrat draw = vanillaIter g sampled p draw := by
  funext it s log
  simp only [vanillaIter, advanceAll_clamp]

end Cfr
