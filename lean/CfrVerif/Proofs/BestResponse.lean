import CfrVerif.Proofs.ViewSpec
import Mathlib.Algebra.BigOperators.Group.Finset.Basic
import Mathlib.Algebra.BigOperators.Ring.Finset
/-!
# `bestResponse` is the maximum over all behavioural strategies (on a view with perfect recall)

Structure of the proof (`nodes = collect v 1`, `mu` the final table of `resolveAll`):

* `tele` : on every subtree `t` hanging below the own history `H`,
  `W(H) * c * (evV τ t - search mu t) = Σ_{h ∈ collect t c} W(hist (info h)) * loc h`, where
  `W(H)` (`histW`) is the product of the own action probabilities along `H` and
  `loc h = reach h * (τ(info h) ⬝ (search mu (kids h)) - mu[info h])` is the local deviation at
  `h`.  Perfect recall is what makes the weight of a collected node a function of its infoset.
* `collect_ok` : collected nodes have positive reach, the declared arity, and their children
  extend the history of their infoset (`ROK`).
* `search_congr`, `infoPayoffs_congr` : below an own node of infoset `I`, `search` reads only
  table entries with index `> I` (`hord`).
* `resolveAll_spec` : the final table satisfies, at every reached infoset `I`,
  `mu[I] = max (infoPayoffs nodes I mu) / total I` (`SpecAt`; entries are written once).
* `ev_sub_search` : `evV τ v - search mu v = Σ_I W(hist I) * (τ(I) ⬝ infoPayoffs I - total I * mu[I])`;
  every bracket is `≤ 0` for a distribution `τ(I)` (`bracket_le`) and `= 0` for all mass on a
  maximiser (`exists_best`); weights are `≥ 0`.

(`front_diff`, `part_collect` — the frontier decomposition — are kept as independent structural
facts; the final proof goes through `tele` instead.)
-/
set_option linter.unusedSectionVars false
namespace Cfr
variable {α : Type} [Field α] [LinearOrder α] [IsStrictOrderedRing α]

/-! ## sums over lists of reached nodes -/

/-- sum of `f` over a list of reached nodes -/
def rsum (f : Reached α → α) (l : List (Reached α)) : α := (l.map f).sum

@[simp] theorem rsum_nil (f : Reached α → α) : rsum f [] = 0 := by simp [rsum]
@[simp] theorem rsum_cons (f : Reached α → α) (x : Reached α) (l : List (Reached α)) :
    rsum f (x :: l) = f x + rsum f l := by simp [rsum]
@[simp] theorem rsum_append (f : Reached α → α) (l l' : List (Reached α)) :
    rsum f (l ++ l') = rsum f l + rsum f l' := by simp [rsum]

theorem rsum_congr {f g : Reached α → α} {l : List (Reached α)} (h : ∀ n ∈ l, f n = g n) :
    rsum f l = rsum g l := by
  induction l with
  | nil => simp
  | cons x l ih =>
    simp only [rsum_cons]
    rw [h x (by simp), ih (fun n hn => h n (by simp [hn]))]

theorem rsum_add (f g : Reached α → α) (l : List (Reached α)) :
    rsum (fun n => f n + g n) l = rsum f l + rsum g l := by
  induction l with
  | nil => simp
  | cons x l ih => simp only [rsum_cons, ih]; ring

theorem rsum_sub (f g : Reached α → α) (l : List (Reached α)) :
    rsum (fun n => f n - g n) l = rsum f l - rsum g l := by
  induction l with
  | nil => simp
  | cons x l ih => simp only [rsum_cons, ih]; ring

theorem rsum_mul_right (f : Reached α → α) (c : α) (l : List (Reached α)) :
    rsum (fun n => f n * c) l = rsum f l * c := by
  induction l with
  | nil => simp
  | cons x l ih => simp only [rsum_cons, ih]; ring

theorem rsum_zero (l : List (Reached α)) : rsum (fun _ => (0 : α)) l = 0 := by
  induction l with
  | nil => simp
  | cons x l ih => simp only [rsum_cons, ih]; ring

theorem rsum_eq_zero {f : Reached α → α} {l : List (Reached α)} (h : ∀ n ∈ l, f n = 0) :
    rsum f l = 0 := by
  rw [rsum_congr h, rsum_zero]

theorem rsum_filter (q : Reached α → Bool) (f : Reached α → α) (l : List (Reached α)) :
    rsum f (l.filter q) = rsum (fun n => if q n then f n else 0) l := by
  induction l with
  | nil => simp
  | cons x l ih =>
    by_cases hq : q x
    · simp [List.filter_cons, hq, ih]
    · simp [List.filter_cons, hq, ih]

theorem rsum_nonpos {f : Reached α → α} {l : List (Reached α)} (h : ∀ n ∈ l, f n ≤ 0) :
    rsum f l ≤ 0 := by
  induction l with
  | nil => simp
  | cons x l ih =>
    simp only [rsum_cons]
    have := h x (by simp)
    have := ih (fun n hn => h n (by simp [hn]))
    linarith

theorem rsum_nonneg {f : Reached α → α} {l : List (Reached α)} (h : ∀ n ∈ l, 0 ≤ f n) :
    0 ≤ rsum f l := by
  induction l with
  | nil => simp
  | cons x l ih =>
    simp only [rsum_cons]
    have := h x (by simp)
    have := ih (fun n hn => h n (by simp [hn]))
    linarith

theorem rsum_pos {f : Reached α → α} {l : List (Reached α)} (h : ∀ n ∈ l, 0 ≤ f n)
    (h' : ∃ n ∈ l, 0 < f n) : 0 < rsum f l := by
  induction l with
  | nil => obtain ⟨n, hn, _⟩ := h'; simp at hn
  | cons x l ih =>
    simp only [rsum_cons]
    have hx := h x (by simp)
    have hl : 0 ≤ rsum f l := rsum_nonneg (fun n hn => h n (by simp [hn]))
    obtain ⟨n, hn, hp⟩ := h'
    rcases List.mem_cons.mp hn with rfl | hn
    · linarith
    · have := ih (fun n hn => h n (by simp [hn])) ⟨n, hn, hp⟩
      linarith

/-- regrouping a weighted sum over nodes by infoset -/
theorem rsum_by_info (N : Nat) (w : Nat → α) (f : Reached α → α) :
    ∀ l : List (Reached α), (∀ n ∈ l, n.info < N) →
      rsum (fun n => w n.info * f n) l
        = ∑ J ∈ Finset.range N, w J * rsum (fun n => if n.info = J then f n else 0) l
  | [], _ => by simp
  | x :: l, h => by
    have ih := rsum_by_info N w f l (fun n hn => h n (by simp [hn]))
    have hx : x.info < N := h x (by simp)
    simp only [rsum_cons, mul_add, Finset.sum_add_distrib]
    rw [ih]
    congr 1
    rw [Finset.sum_eq_single x.info]
    · simp
    · intro J _ hJ
      have : ¬ x.info = J := fun e => hJ e.symm
      simp [this]
    · intro h; exact absurd (Finset.mem_range.mpr hx) h

/-! ## dot products -/

/-- `Σ_a p_a * x_a` (truncating to the shorter list) -/
def dot : List α → List α → α
  | p :: ps, x :: xs => p * x + dot ps xs
  | _, _ => 0

@[simp] theorem dot_nil_left (xs : List α) : dot [] xs = 0 := by simp [dot]
@[simp] theorem dot_nil_right (ps : List α) : dot ps [] = 0 := by cases ps <;> simp [dot]
@[simp] theorem dot_cons_cons (p x : α) (ps xs : List α) :
    dot (p :: ps) (x :: xs) = p * x + dot ps xs := by simp [dot]

theorem dot_replicate_zero_left (n : Nat) : ∀ xs : List α, dot (List.replicate n 0) xs = 0 := by
  induction n with
  | zero => intro xs; simp
  | succ n ih =>
    intro xs
    cases xs with
    | nil => simp
    | cons x xs => simp [List.replicate_succ, ih]

theorem dot_replicate_zero_right : ∀ (ps : List α) (n : Nat), dot ps (List.replicate n 0) = 0
  | [], n => by simp
  | p :: ps, 0 => by simp
  | p :: ps, n + 1 => by simp [List.replicate_succ, dot_replicate_zero_right ps n]

theorem dot_drop (p : List α) (a : Nat) (x : α) (xs : List α) :
    dot (p.drop a) (x :: xs) = p.getD a 0 * x + dot (p.drop (a + 1)) xs := by
  by_cases h : a < p.length
  · rw [List.drop_eq_getElem_cons h, dot_cons_cons]
    simp [List.getD_eq_getElem?_getD, h]
  · have h' : p.length ≤ a := not_lt.mp h
    rw [List.drop_of_length_le h', List.drop_of_length_le (by omega)]
    simp [List.getD_eq_getElem?_getD, h']

theorem dot_sub_map {β : Type} (f g : β → α) : ∀ (p : List α) (ks : List β),
    dot p (ks.map f) - dot p (ks.map g) = dot p (ks.map (fun k => f k - g k))
  | [], ks => by simp
  | p :: ps, [] => by simp
  | p :: ps, k :: ks => by
    have := dot_sub_map f g ps ks
    simp only [List.map_cons, dot_cons_cons]
    rw [← this]; ring

theorem dot_mul_map {β : Type} (f : β → α) (r : α) : ∀ (p : List α) (ks : List β),
    r * dot p (ks.map f) = dot p (ks.map (fun k => r * f k))
  | [], ks => by simp
  | p :: ps, [] => by simp
  | p :: ps, k :: ks => by
    have := dot_mul_map f r ps ks
    simp only [List.map_cons, dot_cons_cons]
    rw [← this]; ring

theorem dot_map_congr {β : Type} {f g : β → α} : ∀ (p : List α) (ks : List β),
    (∀ k ∈ ks, f k = g k) → dot p (ks.map f) = dot p (ks.map g)
  | [], ks, _ => by simp
  | p :: ps, [], _ => by simp
  | p :: ps, k :: ks, h => by
    simp only [List.map_cons, dot_cons_cons]
    rw [h k (by simp), dot_map_congr ps ks (fun k hk => h k (by simp [hk]))]

/-- a convex combination is at most the maximum -/
theorem dot_le_sum_mul (m : α) : ∀ (p P : List α), (∀ q ∈ p, 0 ≤ q) → (∀ x ∈ P, x ≤ m) →
    p.length = P.length → dot p P ≤ p.sum * m
  | [], [], _, _, _ => by simp
  | [], _ :: _, _, _, h => by simp at h
  | _ :: _, [], _, _, h => by simp at h
  | q :: p, x :: P, hp, hP, hl => by
    have ih := dot_le_sum_mul m p P (fun q hq => hp q (by simp [hq]))
      (fun x hx => hP x (by simp [hx])) (by simpa using hl)
    have hq : 0 ≤ q := hp q (by simp)
    have hx : x ≤ m := hP x (by simp)
    simp only [dot_cons_cons, List.sum_cons]
    nlinarith

/-- all mass on an entry equal to `m` -/
theorem exists_onehot : ∀ (P : List α) (m : α), m ∈ P →
    ∃ p : List α, IsDist p ∧ p.length = P.length ∧ dot p P = m
  | [], m, h => by simp at h
  | x :: xs, m, h => by
    by_cases hx : m = x
    · refine ⟨1 :: List.replicate xs.length 0, ⟨?_, ?_⟩, by simp, ?_⟩
      · intro q hq
        rcases List.mem_cons.mp hq with rfl | hq
        · exact zero_le_one
        · rw [(List.mem_replicate.mp hq).2]
      · simp
      · simp [dot_replicate_zero_left, hx]
    · have hm : m ∈ xs := by
        rcases List.mem_cons.mp h with h | h
        · exact absurd h hx
        · exact h
      obtain ⟨p, ⟨hp0, hp1⟩, hl, hd⟩ := exists_onehot xs m hm
      refine ⟨0 :: p, ⟨?_, ?_⟩, by simp [hl], ?_⟩
      · intro q hq
        rcases List.mem_cons.mp hq with rfl | hq
        · exact le_refl _
        · exact hp0 q hq
      · simp [hp1]
      · simp [hd]

/-! ## `maxList` -/

theorem foldl_fmax_mem_le : ∀ (xs : List α) (x : α),
    (xs.foldl fmax x ∈ x :: xs) ∧ ∀ y ∈ x :: xs, y ≤ xs.foldl fmax x
  | [], x => by simp
  | z :: zs, x => by
    obtain ⟨h1, h2⟩ := foldl_fmax_mem_le zs (fmax x z)
    simp only [List.foldl_cons]
    rw [fmax_eq_max] at h1 h2 ⊢
    constructor
    · rcases List.mem_cons.mp h1 with h | h
      · rcases max_choice x z with e | e
        · rw [h, e]; simp
        · rw [h, e]; simp
      · simp [h]
    · intro y hy
      have hm := h2 (max x z) (by simp)
      rcases List.mem_cons.mp hy with rfl | hy
      · exact le_trans (le_max_left _ _) hm
      · rcases List.mem_cons.mp hy with rfl | hy
        · exact le_trans (le_max_right _ _) hm
        · exact h2 y (by simp [hy])

theorem maxList_spec (l : List α) (hl : l ≠ []) :
    ∃ m, maxList l = some m ∧ m ∈ l ∧ ∀ x ∈ l, x ≤ m := by
  cases l with
  | nil => exact absurd rfl hl
  | cons x xs =>
    obtain ⟨h1, h2⟩ := foldl_fmax_mem_le xs x
    exact ⟨_, rfl, h1, h2⟩

/-! ## the frontier: first own nodes below a subtree -/

mutual
/-- the first own nodes met on the positive-probability paths below a subtree -/
def frontier : V α → α → List (Reached α)
  | .term _, _ => []
  | .nature ws ks, r => frontierN ws ks r
  | .decide i ks, r => [⟨i, ks, r⟩]
def frontierN : List α → List (V α) → α → List (Reached α)
  | w :: ws, k :: ks, r => (if 0 < w then frontier k (w * r) else []) ++ frontierN ws ks r
  | _, _, _ => []
end

/-- what own node `h` contributes to `evV τ - search mu` -/
def gap (τ : Strat α) (mu : List α) (h : Reached α) : α :=
  h.reach * (evVN τ (τ.at h.info) h.kids - mu.getD h.info 0)

mutual
theorem front_diff (N : Nat) (nActs : Nat → Nat) (τ : Strat α) (mu : List α) :
    ∀ (t : V α) (c : α), VOK N nActs t →
      c * (evV τ t - search mu t) = rsum (gap τ mu) (frontier t c)
  | .term u, c, _ => by simp [evV, search, frontier]
  | .nature ws ks, c, h => by
    obtain ⟨_, hw, hk⟩ := (by simpa [VOK] using h :
      ws.length = ks.length ∧ (∀ w ∈ ws, 0 ≤ w) ∧ VOKL N nActs ks)
    simp only [evV, search, frontier]
    exact front_diffN N nActs τ mu ws ks c hw hk
  | .decide i ks, c, _ => by
    simp [evV, search, frontier, gap]
theorem front_diffN (N : Nat) (nActs : Nat → Nat) (τ : Strat α) (mu : List α) :
    ∀ (ws : List α) (ks : List (V α)) (c : α), (∀ w ∈ ws, 0 ≤ w) → VOKL N nActs ks →
      c * (evVN τ ws ks - searchN mu ws ks) = rsum (gap τ mu) (frontierN ws ks c)
  | [], ks, c, _, _ => by simp [evVN, searchN, frontierN]
  | _ :: _, [], c, _, _ => by simp [evVN, searchN, frontierN]
  | w :: ws, k :: ks, c, hw, hk => by
    obtain ⟨h1, h2⟩ := (by simpa [VOKL] using hk : VOK N nActs k ∧ VOKL N nActs ks)
    have a := front_diff N nActs τ mu k (w * c) h1
    have b := front_diffN N nActs τ mu ws ks c (fun w hw' => hw w (by simp [hw'])) h2
    have hw0 : 0 ≤ w := hw w (by simp)
    simp only [evVN, searchN, frontierN, rsum_append]
    rw [← b]
    by_cases hp : 0 < w
    · simp only [hp, if_true]
      rw [← a]; ring
    · have : w = 0 := le_antisymm (not_lt.mp hp) hw0
      subst this
      simp
end

/-- sum of `φ` over the frontiers of a list of children -/
def kidsF (φ : Reached α → α) : List (V α) → α → α
  | [], _ => 0
  | k :: ks, r => rsum φ (frontier k r) + kidsF φ ks r

mutual
theorem part_collect (φ : Reached α → α) : ∀ (t : V α) (c : α), 0 < c →
    rsum φ (collect t c) = rsum φ (frontier t c)
      + rsum (fun n => kidsF φ n.kids n.reach) (collect t c)
  | .term _, c, _ => by simp [collect, frontier]
  | .nature ws ks, c, hc => by
    simp only [collect, frontier]; exact part_collectN φ ws ks c hc
  | .decide i ks, c, hc => by
    simp only [collect, frontier, rsum_cons, rsum_nil]
    rw [part_collectD φ ks c hc]; ring
theorem part_collectN (φ : Reached α → α) : ∀ (ws : List α) (ks : List (V α)) (c : α), 0 < c →
    rsum φ (collectN ws ks c) = rsum φ (frontierN ws ks c)
      + rsum (fun n => kidsF φ n.kids n.reach) (collectN ws ks c)
  | [], _, c, _ => by simp [collectN, frontierN]
  | _ :: _, [], c, _ => by simp [collectN, frontierN]
  | w :: ws, k :: ks, c, hc => by
    simp only [collectN, frontierN, rsum_append]
    rw [part_collectN φ ws ks c hc]
    by_cases hp : 0 < w
    · have hwc : 0 < w * c := mul_pos hp hc
      simp only [hp, hwc, decide_true, Bool.and_self, if_true]
      rw [part_collect φ k (w * c) hwc]; ring
    · simp [hp]
theorem part_collectD (φ : Reached α → α) : ∀ (ks : List (V α)) (c : α), 0 < c →
    rsum φ (collectD ks c) = kidsF φ ks c
      + rsum (fun n => kidsF φ n.kids n.reach) (collectD ks c)
  | [], c, _ => by simp [collectD, kidsF]
  | k :: ks, c, hc => by
    simp only [collectD, kidsF, rsum_append]
    rw [part_collect φ k c hc, part_collectD φ ks c hc]; ring
end

/-! ## weights of own histories -/

/-- product of the own action probabilities along an own history -/
def histW (τ : Strat α) (H : Hist) : α := (H.map (fun e => (τ.at e.1).getD e.2 0)).prod

@[simp] theorem histW_nil (τ : Strat α) : histW τ [] = 1 := by simp [histW]

theorem histW_snoc (τ : Strat α) (H : Hist) (i a : Nat) :
    histW τ (H ++ [(i, a)]) = histW τ H * (τ.at i).getD a 0 := by
  simp [histW]

theorem strat_entry_nonneg {τ : Strat α} (hτ : IsStrat τ) (i a : Nat) :
    0 ≤ (τ.at i).getD a 0 := by
  unfold Strat.at
  rw [List.getD_eq_getElem?_getD, List.getD_eq_getElem?_getD]
  by_cases hi : i < τ.length
  · have hm : τ[i] ∈ τ := List.getElem_mem hi
    by_cases ha : a < τ[i].length
    · have := (hτ _ hm).1 _ (List.getElem_mem ha)
      simpa [hi, ha] using this
    · simp [hi, ha]
  · simp [hi]

theorem histW_nonneg {τ : Strat α} (hτ : IsStrat τ) (H : Hist) : 0 ≤ histW τ H := by
  induction H with
  | nil => simp
  | cons e H ih =>
    have : histW τ (e :: H) = (τ.at e.1).getD e.2 0 * histW τ H := by simp [histW]
    rw [this]
    exact mul_nonneg (strat_entry_nonneg hτ _ _) ih

theorem evVN_eq_dot (τ : Strat α) : ∀ (p : List α) (ks : List (V α)),
    evVN τ p ks = dot p (ks.map (evV τ))
  | [], ks => by simp [evVN]
  | _ :: _, [] => by simp [evVN]
  | p :: ps, k :: ks => by simp [evVN, evVN_eq_dot τ ps ks]

/-- local deviation at a reached own node: reach times (value of playing `τ` here and reading
`mu` below, minus `mu` here) -/
def loc (τ : Strat α) (mu : List α) (h : Reached α) : α :=
  h.reach * (dot (τ.at h.info) (h.kids.map (search mu)) - mu.getD h.info 0)

mutual
theorem tele (N : Nat) (nActs : Nat → Nat) (hist : Nat → Hist) (τ : Strat α) (mu : List α) :
    ∀ (t : V α) (H : Hist) (c : α), 0 < c → VOK N nActs t → PRV hist H t →
      histW τ H * (c * (evV τ t - search mu t))
        = rsum (fun h => histW τ (hist h.info) * loc τ mu h) (collect t c)
  | .term u, H, c, _, _, _ => by simp [evV, search, collect]
  | .nature ws ks, H, c, hc, h, hp => by
    obtain ⟨_, hw, hk⟩ := (by simpa [VOK] using h :
      ws.length = ks.length ∧ (∀ w ∈ ws, 0 ≤ w) ∧ VOKL N nActs ks)
    have hp' : PRVL hist H ks := by simpa [PRV] using hp
    simp only [evV, search, collect]
    exact teleN N nActs hist τ mu ws ks H c hc hw hk hp'
  | .decide i ks, H, c, hc, h, hp => by
    obtain ⟨_, _, _, hk⟩ := (by simpa [VOK] using h :
      i < N ∧ ks.length = nActs i ∧ 1 ≤ ks.length ∧ VOKL N nActs ks)
    obtain ⟨hH, hd⟩ := (by simpa [PRV] using hp : hist i = H ∧ PRVD hist H i 0 ks)
    have := teleD N nActs hist τ mu ks H i 0 c hc hk hd
    rw [List.drop_zero] at this
    simp only [evV, search, collect, rsum_cons]
    rw [← this, evVN_eq_dot]
    simp only [loc]
    rw [hH]; ring
theorem teleN (N : Nat) (nActs : Nat → Nat) (hist : Nat → Hist) (τ : Strat α) (mu : List α) :
    ∀ (ws : List α) (ks : List (V α)) (H : Hist) (c : α), 0 < c → (∀ w ∈ ws, 0 ≤ w) →
      VOKL N nActs ks → PRVL hist H ks →
      histW τ H * (c * (evVN τ ws ks - searchN mu ws ks))
        = rsum (fun h => histW τ (hist h.info) * loc τ mu h) (collectN ws ks c)
  | [], ks, H, c, _, _, _, _ => by simp [evVN, searchN, collectN]
  | _ :: _, [], H, c, _, _, _, _ => by simp [evVN, searchN, collectN]
  | w :: ws, k :: ks, H, c, hc, hw, hk, hp => by
    obtain ⟨h1, h2⟩ := (by simpa [VOKL] using hk : VOK N nActs k ∧ VOKL N nActs ks)
    obtain ⟨p1, p2⟩ := (by simpa [PRVL] using hp : PRV hist H k ∧ PRVL hist H ks)
    have b := teleN N nActs hist τ mu ws ks H c hc (fun w hw' => hw w (by simp [hw'])) h2 p2
    have hw0 : 0 ≤ w := hw w (by simp)
    simp only [evVN, searchN, collectN, rsum_append]
    rw [← b]
    by_cases hp : 0 < w
    · have hwc : 0 < w * c := mul_pos hp hc
      have a := tele N nActs hist τ mu k H (w * c) hwc h1 p1
      simp only [hp, hwc, decide_true, Bool.and_self, if_true]
      rw [← a]; ring
    · have : w = 0 := le_antisymm (not_lt.mp hp) hw0
      subst this
      simp
theorem teleD (N : Nat) (nActs : Nat → Nat) (hist : Nat → Hist) (τ : Strat α) (mu : List α) :
    ∀ (ks : List (V α)) (H : Hist) (i a : Nat) (c : α), 0 < c → VOKL N nActs ks →
      PRVD hist H i a ks →
      histW τ H * (c * (dot ((τ.at i).drop a) (ks.map (evV τ))
          - dot ((τ.at i).drop a) (ks.map (search mu))))
        = rsum (fun h => histW τ (hist h.info) * loc τ mu h) (collectD ks c)
  | [], H, i, a, c, _, _, _ => by simp [collectD]
  | k :: ks, H, i, a, c, hc, hk, hp => by
    obtain ⟨h1, h2⟩ := (by simpa [VOKL] using hk : VOK N nActs k ∧ VOKL N nActs ks)
    obtain ⟨p1, p2⟩ := (by simpa [PRVD] using hp :
      PRV hist (H ++ [(i, a)]) k ∧ PRVD hist H i (a + 1) ks)
    have a' := tele N nActs hist τ mu k (H ++ [(i, a)]) c hc h1 p1
    have b := teleD N nActs hist τ mu ks H i (a + 1) c hc h2 p2
    simp only [collectD, rsum_append, List.map_cons, dot_drop]
    rw [← a', ← b, histW_snoc]; ring
end

/-! ## what is known about collected nodes -/

/-- a reached own node of a well-formed view with perfect recall -/
def ROK (N : Nat) (nActs : Nat → Nat) (hist : Nat → Hist) (h : Reached α) : Prop :=
  h.info < N ∧ h.kids.length = nActs h.info ∧ 0 < h.reach ∧ VOKL N nActs h.kids ∧
    PRVD hist (hist h.info) h.info 0 h.kids

mutual
theorem collect_ok (N : Nat) (nActs : Nat → Nat) (hist : Nat → Hist) :
    ∀ (t : V α) (H : Hist) (c : α), 0 < c → VOK N nActs t → PRV hist H t →
      ∀ h ∈ collect t c, ROK N nActs hist h
  | .term u, H, c, _, _, _ => by simp [collect]
  | .nature ws ks, H, c, hc, h, hp => by
    obtain ⟨_, hw, hk⟩ := (by simpa [VOK] using h :
      ws.length = ks.length ∧ (∀ w ∈ ws, 0 ≤ w) ∧ VOKL N nActs ks)
    have hp' : PRVL hist H ks := by simpa [PRV] using hp
    simp only [collect]
    exact collectN_ok N nActs hist ws ks H c hc hk hp'
  | .decide i ks, H, c, hc, h, hp => by
    obtain ⟨h1, h2, _, hk⟩ := (by simpa [VOK] using h :
      i < N ∧ ks.length = nActs i ∧ 1 ≤ ks.length ∧ VOKL N nActs ks)
    obtain ⟨hH, hd⟩ := (by simpa [PRV] using hp : hist i = H ∧ PRVD hist H i 0 ks)
    intro x hx
    simp only [collect, List.mem_cons] at hx
    rcases hx with rfl | hx
    · exact ⟨h1, h2, hc, hk, by rw [hH]; exact hd⟩
    · exact collectD_ok N nActs hist ks H i 0 c hc hk hd x hx
theorem collectN_ok (N : Nat) (nActs : Nat → Nat) (hist : Nat → Hist) :
    ∀ (ws : List α) (ks : List (V α)) (H : Hist) (c : α), 0 < c → VOKL N nActs ks →
      PRVL hist H ks → ∀ h ∈ collectN ws ks c, ROK N nActs hist h
  | [], ks, H, c, _, _, _ => by simp [collectN]
  | _ :: _, [], H, c, _, _, _ => by simp [collectN]
  | w :: ws, k :: ks, H, c, hc, hk, hp => by
    obtain ⟨h1, h2⟩ := (by simpa [VOKL] using hk : VOK N nActs k ∧ VOKL N nActs ks)
    obtain ⟨p1, p2⟩ := (by simpa [PRVL] using hp : PRV hist H k ∧ PRVL hist H ks)
    intro x hx
    simp only [collectN, List.mem_append] at hx
    rcases hx with hx | hx
    · by_cases hw : 0 < w
      · have hwc : 0 < w * c := mul_pos hw hc
        simp only [hw, hwc, decide_true, Bool.and_self, if_true] at hx
        exact collect_ok N nActs hist k H (w * c) hwc h1 p1 x hx
      · simp [hw] at hx
    · exact collectN_ok N nActs hist ws ks H c hc h2 p2 x hx
theorem collectD_ok (N : Nat) (nActs : Nat → Nat) (hist : Nat → Hist) :
    ∀ (ks : List (V α)) (H : Hist) (i a : Nat) (c : α), 0 < c → VOKL N nActs ks →
      PRVD hist H i a ks → ∀ h ∈ collectD ks c, ROK N nActs hist h
  | [], H, i, a, c, _, _, _ => by simp [collectD]
  | k :: ks, H, i, a, c, hc, hk, hp => by
    obtain ⟨h1, h2⟩ := (by simpa [VOKL] using hk : VOK N nActs k ∧ VOKL N nActs ks)
    obtain ⟨p1, p2⟩ := (by simpa [PRVD] using hp :
      PRV hist (H ++ [(i, a)]) k ∧ PRVD hist H i (a + 1) ks)
    intro x hx
    simp only [collectD, List.mem_append] at hx
    rcases hx with hx | hx
    · exact collect_ok N nActs hist k _ c hc h1 p1 x hx
    · exact collectD_ok N nActs hist ks H i (a + 1) c hc h2 p2 x hx
end

/-! ## `search` reads only the entries of the next own infosets -/

mutual
theorem search_congr (hist : Nat → Hist) (mu mu' : List α) :
    ∀ (t : V α) (H : Hist), PRV hist H t →
      (∀ j, hist j = H → mu.getD j 0 = mu'.getD j 0) → search mu t = search mu' t
  | .term u, H, _, _ => by simp [search]
  | .nature ws ks, H, hp, he => by
    have hp' : PRVL hist H ks := by simpa [PRV] using hp
    simp only [search]
    exact searchN_congr hist mu mu' ws ks H hp' he
  | .decide i ks, H, hp, he => by
    obtain ⟨hH, _⟩ := (by simpa [PRV] using hp : hist i = H ∧ PRVD hist H i 0 ks)
    simp only [search]
    exact he i hH
theorem searchN_congr (hist : Nat → Hist) (mu mu' : List α) :
    ∀ (ws : List α) (ks : List (V α)) (H : Hist), PRVL hist H ks →
      (∀ j, hist j = H → mu.getD j 0 = mu'.getD j 0) → searchN mu ws ks = searchN mu' ws ks
  | [], ks, H, _, _ => by simp [searchN]
  | _ :: _, [], H, _, _ => by simp [searchN]
  | w :: ws, k :: ks, H, hp, he => by
    obtain ⟨p1, p2⟩ := (by simpa [PRVL] using hp : PRV hist H k ∧ PRVL hist H ks)
    simp only [searchN]
    rw [search_congr hist mu mu' k H p1 he, searchN_congr hist mu mu' ws ks H p2 he]
end

/-- below an own node of infoset `i`, `search` reads only entries with index `> i` -/
theorem addPayoffs_congr (hist : Nat → Hist) (hord : ∀ i, ∀ e ∈ hist i, e.1 < i)
    (mu mu' : List α) (r : α) (i : Nat) (he : ∀ j, i < j → mu.getD j 0 = mu'.getD j 0) :
    ∀ (ks : List (V α)) (acc : List α) (H : Hist) (a : Nat), PRVD hist H i a ks →
      addPayoffs mu r acc ks = addPayoffs mu' r acc ks
  | [], acc, H, a, _ => by cases acc <;> simp [addPayoffs]
  | k :: ks, [], H, a, _ => by simp [addPayoffs]
  | k :: ks, x :: acc, H, a, hp => by
    obtain ⟨p1, p2⟩ := (by simpa [PRVD] using hp :
      PRV hist (H ++ [(i, a)]) k ∧ PRVD hist H i (a + 1) ks)
    simp only [addPayoffs]
    rw [addPayoffs_congr hist hord mu mu' r i he ks acc H (a + 1) p2,
      search_congr hist mu mu' k _ p1 (fun j hj => he j (by
        have := hord j (i, a) (by rw [hj]; simp)
        exact this))]

theorem addPayoffs_length (mu : List α) (r : α) : ∀ (acc : List α) (ks : List (V α)),
    (addPayoffs mu r acc ks).length = acc.length
  | [], ks => by simp [addPayoffs]
  | _ :: _, [] => by simp [addPayoffs]
  | x :: acc, k :: ks => by simp [addPayoffs, addPayoffs_length mu r acc ks]

theorem dot_addPayoffs (mu : List α) (r : α) : ∀ (p acc : List α) (ks : List (V α)),
    acc.length = ks.length →
      dot p (addPayoffs mu r acc ks) = dot p acc + r * dot p (ks.map (search mu))
  | p, [], [], _ => by simp [addPayoffs]
  | p, [], _ :: _, h => by simp at h
  | p, _ :: _, [], h => by simp at h
  | [], x :: acc, k :: ks, _ => by simp
  | q :: p, x :: acc, k :: ks, h => by
    have ih := dot_addPayoffs mu r p acc ks (by simpa using h)
    simp only [addPayoffs, List.map_cons, dot_cons_cons, ih]
    ring

/-- the nodes of infoset `I` -/
def mine (nodes : List (Reached α)) (I : Nat) : List (Reached α) :=
  nodes.filter (fun n => n.info == I)

theorem mem_mine {nodes : List (Reached α)} {I : Nat} {h : Reached α} :
    h ∈ mine nodes I ↔ h ∈ nodes ∧ h.info = I := by
  simp [mine]

theorem infoPayoffs_eq (nodes : List (Reached α)) (n I : Nat) (mu : List α) :
    infoPayoffs nodes n I mu
      = (mine nodes I).foldl (fun acc h => addPayoffs mu h.reach acc h.kids) (List.replicate n 0) :=
  rfl

theorem foldl_addPayoffs_length (mu : List α) : ∀ (l : List (Reached α)) (acc : List α),
    (l.foldl (fun acc h => addPayoffs mu h.reach acc h.kids) acc).length = acc.length
  | [], acc => by simp
  | x :: l, acc => by
    simp only [List.foldl_cons]
    rw [foldl_addPayoffs_length mu l, addPayoffs_length]

theorem infoPayoffs_length (nodes : List (Reached α)) (n I : Nat) (mu : List α) :
    (infoPayoffs nodes n I mu).length = n := by
  rw [infoPayoffs_eq, foldl_addPayoffs_length]; simp

theorem dot_foldl_addPayoffs (mu : List α) (p : List α) : ∀ (l : List (Reached α)) (acc : List α),
    (∀ h ∈ l, h.kids.length = acc.length) →
    dot p (l.foldl (fun acc h => addPayoffs mu h.reach acc h.kids) acc)
      = dot p acc + rsum (fun h => h.reach * dot p (h.kids.map (search mu))) l
  | [], acc, _ => by simp
  | x :: l, acc, hl => by
    simp only [List.foldl_cons, rsum_cons]
    rw [dot_foldl_addPayoffs mu p l _ (fun h hh => by
        rw [addPayoffs_length]; exact hl h (by simp [hh])),
      dot_addPayoffs mu x.reach p acc x.kids (hl x (by simp)).symm]
    ring

theorem foldl_addPayoffs_congr (hist : Nat → Hist) (hord : ∀ i, ∀ e ∈ hist i, e.1 < i)
    (mu mu' : List α) (I : Nat) (he : ∀ j, I < j → mu.getD j 0 = mu'.getD j 0) :
    ∀ (l : List (Reached α)) (acc : List α),
      (∀ h ∈ l, h.info = I ∧ PRVD hist (hist h.info) h.info 0 h.kids) →
      l.foldl (fun acc h => addPayoffs mu h.reach acc h.kids) acc
        = l.foldl (fun acc h => addPayoffs mu' h.reach acc h.kids) acc
  | [], acc, _ => by simp
  | x :: l, acc, hl => by
    simp only [List.foldl_cons]
    obtain ⟨hx, hp⟩ := hl x (by simp)
    rw [addPayoffs_congr hist hord mu mu' x.reach x.info (by rw [hx]; exact he) x.kids acc _ 0 hp]
    exact foldl_addPayoffs_congr hist hord mu mu' I he l _ (fun h hh => hl h (by simp [hh]))

theorem infoPayoffs_congr (N : Nat) (nActs : Nat → Nat) (hist : Nat → Hist)
    (hord : ∀ i, ∀ e ∈ hist i, e.1 < i) (nodes : List (Reached α))
    (hn : ∀ h ∈ nodes, ROK N nActs hist h) (n I : Nat) (mu mu' : List α)
    (he : ∀ j, I < j → mu.getD j 0 = mu'.getD j 0) :
    infoPayoffs nodes n I mu = infoPayoffs nodes n I mu' := by
  rw [infoPayoffs_eq, infoPayoffs_eq]
  apply foldl_addPayoffs_congr hist hord mu mu' I he
  intro h hh
  obtain ⟨h1, h2⟩ := mem_mine.mp hh
  exact ⟨h2, (hn h h1).2.2.2.2⟩

theorem dot_infoPayoffs (N : Nat) (nActs : Nat → Nat) (hist : Nat → Hist)
    (nodes : List (Reached α)) (hn : ∀ h ∈ nodes, ROK N nActs hist h) (I : Nat) (mu p : List α) :
    dot p (infoPayoffs nodes (nActs I) I mu)
      = rsum (fun h => h.reach * dot p (h.kids.map (search mu))) (mine nodes I) := by
  rw [infoPayoffs_eq, dot_foldl_addPayoffs]
  · rw [dot_replicate_zero_right]; ring
  · intro h hh
    obtain ⟨h1, h2⟩ := mem_mine.mp hh
    rw [(hn h h1).2.1, h2]; simp


/-! ## the table computed by `resolveAll` -/

/-- total reach of infoset `I` -/
def total (nodes : List (Reached α)) (I : Nat) : α := rsum (fun h => h.reach) (mine nodes I)

theorem resolveOne_eq (nodes : List (Reached α)) (n I : Nat) (mu : List α) :
    resolveOne nodes n I mu =
      if (mine nodes I).isEmpty then mu else
        match maxList (infoPayoffs nodes n I mu) with
        | some m => mu.set I (m / total nodes I)
        | none => mu := by
  unfold resolveOne total mine rsum
  simp only [lsum_eq_sum]
  rfl

theorem resolveOne_length (nodes : List (Reached α)) (n I : Nat) (mu : List α) :
    (resolveOne nodes n I mu).length = mu.length := by
  rw [resolveOne_eq]
  split_ifs
  · rfl
  · split <;> simp

theorem resolveOne_getD_ne (nodes : List (Reached α)) (n I : Nat) (mu : List α) (j : Nat)
    (hj : j ≠ I) : (resolveOne nodes n I mu).getD j 0 = mu.getD j 0 := by
  rw [resolveOne_eq]
  split_ifs
  · rfl
  · split
    · rw [List.getD_eq_getElem?_getD, List.getD_eq_getElem?_getD, List.getElem?_set_ne (Ne.symm hj)]
    · rfl

theorem resolveAll_length (nodes : List (Reached α)) (nActs : Nat → Nat) :
    ∀ (n : Nat) (mu : List α), (resolveAll nodes nActs n mu).length = mu.length
  | 0, mu => by simp [resolveAll]
  | n + 1, mu => by
    simp only [resolveAll]
    rw [resolveAll_length nodes nActs n, resolveOne_length]

theorem resolveAll_getD_ge (nodes : List (Reached α)) (nActs : Nat → Nat) :
    ∀ (n : Nat) (mu : List α) (j : Nat), n ≤ j →
      (resolveAll nodes nActs n mu).getD j 0 = mu.getD j 0
  | 0, mu, j, _ => by simp [resolveAll]
  | n + 1, mu, j, hj => by
    simp only [resolveAll]
    rw [resolveAll_getD_ge nodes nActs n _ j (by omega), resolveOne_getD_ne _ _ _ _ _ (by omega)]

/-- the fixed-point equation at infoset `I`: if `I` is reached, `mu[I]` is the largest
per-action counterfactual value divided by the total reach -/
def SpecAt (nodes : List (Reached α)) (nActs : Nat → Nat) (mu : List α) (I : Nat) : Prop :=
  mine nodes I ≠ [] →
    ∃ m, m ∈ infoPayoffs nodes (nActs I) I mu ∧ (∀ x ∈ infoPayoffs nodes (nActs I) I mu, x ≤ m) ∧
      mu.getD I 0 = m / total nodes I

theorem resolveOne_spec (nodes : List (Reached α)) (nActs : Nat → Nat) (I : Nat) (mu : List α)
    (hI : I < mu.length) (hpos : 1 ≤ nActs I)
    (hc : infoPayoffs nodes (nActs I) I (resolveOne nodes (nActs I) I mu)
      = infoPayoffs nodes (nActs I) I mu) :
    SpecAt nodes nActs (resolveOne nodes (nActs I) I mu) I := by
  intro hne
  have hP : infoPayoffs nodes (nActs I) I mu ≠ [] := by
    intro h
    have := infoPayoffs_length nodes (nActs I) I mu
    rw [h] at this; simp at this; omega
  obtain ⟨m, hm, h1, h2⟩ := maxList_spec _ hP
  refine ⟨m, by rw [hc]; exact h1, by rw [hc]; exact h2, ?_⟩
  rw [resolveOne_eq]
  have : (mine nodes I).isEmpty = false := by
    cases hm' : mine nodes I with
    | nil => exact absurd hm' hne
    | cons _ _ => rfl
  rw [this, hm]
  simp [List.getD_eq_getElem?_getD, hI]

theorem resolveAll_spec (N : Nat) (nActs : Nat → Nat) (hist : Nat → Hist)
    (hord : ∀ i, ∀ e ∈ hist i, e.1 < i) (hpos : ∀ i, i < N → 1 ≤ nActs i)
    (nodes : List (Reached α)) (hn : ∀ h ∈ nodes, ROK N nActs hist h) :
    ∀ (n : Nat) (mu : List α), n ≤ N → mu.length = N →
      ∀ I, I < n → SpecAt nodes nActs (resolveAll nodes nActs n mu) I
  | 0, mu, _, _, I, hI => by omega
  | n + 1, mu, hnN, hl, I, hI => by
    simp only [resolveAll]
    by_cases hIn : I < n
    · exact resolveAll_spec N nActs hist hord hpos nodes hn n _ (by omega)
        (by rw [resolveOne_length, hl]) I hIn
    · have hIn' : I = n := by omega
      subst hIn'
      have s1 := resolveOne_spec nodes nActs I mu (by omega) (hpos I (by omega))
        (infoPayoffs_congr N nActs hist hord nodes hn _ I _ _
          (fun j hj => resolveOne_getD_ne _ _ _ _ _ (by omega)))
      intro hne
      obtain ⟨m, h1, h2, h3⟩ := s1 hne
      have hc := infoPayoffs_congr N nActs hist hord nodes hn (nActs I) I
        (resolveAll nodes nActs I (resolveOne nodes (nActs I) I mu))
        (resolveOne nodes (nActs I) I mu)
        (fun j hj => resolveAll_getD_ge nodes nActs I _ j (by omega))
      refine ⟨m, by rw [hc]; exact h1, by rw [hc]; exact h2, ?_⟩
      rw [resolveAll_getD_ge nodes nActs I _ I (le_refl _)]
      exact h3

theorem total_pos (N : Nat) (nActs : Nat → Nat) (hist : Nat → Hist)
    (nodes : List (Reached α)) (hn : ∀ h ∈ nodes, ROK N nActs hist h) (I : Nat)
    (hne : mine nodes I ≠ []) : 0 < total nodes I := by
  unfold total
  apply rsum_pos
  · intro h hh
    exact le_of_lt (hn h (mem_mine.mp hh).1).2.2.1
  · cases hm : mine nodes I with
    | nil => exact absurd hm hne
    | cons x l =>
      have hx : x ∈ mine nodes I := by rw [hm]; simp
      exact ⟨x, by simp, (hn x (mem_mine.mp hx).1).2.2.1⟩

/-- the local deviations of the nodes of one infoset, summed -/
theorem rsum_loc_mine (N : Nat) (nActs : Nat → Nat) (hist : Nat → Hist)
    (nodes : List (Reached α)) (hn : ∀ h ∈ nodes, ROK N nActs hist h) (τ : Strat α)
    (mu : List α) (I : Nat) :
    rsum (loc τ mu) (mine nodes I)
      = dot (τ.at I) (infoPayoffs nodes (nActs I) I mu) - total nodes I * mu.getD I 0 := by
  rw [dot_infoPayoffs N nActs hist nodes hn, total, ← rsum_mul_right, ← rsum_sub]
  apply rsum_congr
  intro h hh
  rw [loc, (mem_mine.mp hh).2]; ring

/-! ## assembling -/

/-- the expected value of `τ` minus the table value at the root, infoset by infoset: the
weight of the own history of the infoset times its summed local deviation -/
theorem ev_sub_search (N : Nat) (nActs : Nat → Nat) (hist : Nat → Hist) (v : V α)
    (hok : VOK N nActs v) (hpr : PRV hist [] v) (τ : Strat α) (mu : List α) :
    evV τ v - search mu v = ∑ J ∈ Finset.range N, histW τ (hist J) *
      (dot (τ.at J) (infoPayoffs (collect v 1) (nActs J) J mu)
        - total (collect v 1) J * mu.getD J 0) := by
  have hn := collect_ok N nActs hist v [] 1 one_pos hok hpr
  have t := tele N nActs hist τ mu v [] 1 one_pos hok hpr
  rw [histW_nil, one_mul, one_mul] at t
  rw [t, rsum_by_info N (fun J => histW τ (hist J)) (loc τ mu) _ (fun n h => (hn n h).1)]
  apply Finset.sum_congr rfl
  intro J _
  rw [← rsum_loc_mine N nActs hist _ hn τ mu J, mine, rsum_filter]
  congr 1
  apply rsum_congr
  intro n _
  simp

theorem bracket_le (N : Nat) (nActs : Nat → Nat) (hist : Nat → Hist)
    (nodes : List (Reached α)) (hn : ∀ h ∈ nodes, ROK N nActs hist h) (mu : List α) (J : Nat)
    (spec : SpecAt nodes nActs mu J) (p : List α) (hp : IsDist p) (hl : p.length = nActs J) :
    dot p (infoPayoffs nodes (nActs J) J mu) - total nodes J * mu.getD J 0 ≤ 0 := by
  by_cases hne : mine nodes J = []
  · rw [dot_infoPayoffs N nActs hist nodes hn, total, hne]; simp
  · obtain ⟨m, _, h2, h3⟩ := spec hne
    have ht := total_pos N nActs hist nodes hn J hne
    have hd := dot_le_sum_mul m p _ hp.1 h2 (by rw [hl, infoPayoffs_length])
    rw [hp.2, one_mul] at hd
    rw [h3, mul_div_cancel₀ _ (ne_of_gt ht)]
    linarith

theorem exists_best (N : Nat) (nActs : Nat → Nat) (hist : Nat → Hist)
    (nodes : List (Reached α)) (hn : ∀ h ∈ nodes, ROK N nActs hist h) (mu : List α) (J : Nat)
    (spec : SpecAt nodes nActs mu J) (hpos : 1 ≤ nActs J) :
    ∃ p : List α, IsDist p ∧ p.length = nActs J ∧
      dot p (infoPayoffs nodes (nActs J) J mu) - total nodes J * mu.getD J 0 = 0 := by
  have hlen := infoPayoffs_length nodes (nActs J) J mu
  by_cases hne : mine nodes J = []
  · cases hP : infoPayoffs nodes (nActs J) J mu with
    | nil => rw [hP] at hlen; simp at hlen; omega
    | cons x xs =>
      obtain ⟨p, hp, hl, _⟩ := exists_onehot (x :: xs) x (by simp)
      refine ⟨p, hp, by rw [hl, ← hP, hlen], ?_⟩
      rw [← hP, dot_infoPayoffs N nActs hist nodes hn, total, hne]; simp
  · obtain ⟨m, h1, _, h3⟩ := spec hne
    have ht := total_pos N nActs hist nodes hn J hne
    obtain ⟨p, hp, hl, hd⟩ := exists_onehot _ m h1
    refine ⟨p, hp, by rw [hl, hlen], ?_⟩
    rw [hd, h3, mul_div_cancel₀ _ (ne_of_gt ht)]; ring

theorem at_mem {τ : Strat α} {i : Nat} (hi : i < τ.length) : τ.at i ∈ τ := by
  unfold Strat.at
  rw [List.getD_eq_getElem?_getD]
  simp [hi]

/-- **Main theorem.**  On a well-formed view with perfect recall whose infosets are numbered so
that earlier own decisions have smaller indices, the value computed by `bestResponse` (collect
the reached own nodes, resolve the infosets in decreasing index order, evaluate the root)
is an upper bound for the expected utility of *every* behavioural strategy of the player, and
it is attained by one (so it is attained by a pure one as well as by mixtures of optimal ones). -/
theorem bestResponse_optimal (N : Nat) (nActs : Nat → Nat) (v : V α) (hist : Nat → Hist)
    (hok : VOK N nActs v) (hpr : PRV hist [] v) (hord : ∀ i, ∀ e ∈ hist i, e.1 < i)
    (hpos : ∀ i, i < N → 1 ≤ nActs i) :
    (∀ τ : Strat α, StratOK N nActs τ → evV τ v ≤ bestResponse N nActs v) ∧
    (∃ τ : Strat α, StratOK N nActs τ ∧ evV τ v = bestResponse N nActs v) := by
  have hn := collect_ok N nActs hist v [] 1 one_pos hok hpr
  have spec := resolveAll_spec N nActs hist hord hpos (collect v 1) hn N (List.replicate N 0)
    (le_refl _) (by simp)
  have hbr : bestResponse N nActs v
      = search (resolveAll (collect v 1) nActs N (List.replicate N 0)) v := rfl
  rw [hbr]
  generalize resolveAll (collect v 1) nActs N (List.replicate N 0) = mu at spec
  constructor
  · intro τ ⟨hlen, hl, hs⟩
    have := ev_sub_search N nActs hist v hok hpr τ mu
    have : evV τ v - search mu v ≤ 0 := by
      rw [this]
      apply Finset.sum_nonpos
      intro J hJ
      have hJ' : J < N := Finset.mem_range.mp hJ
      exact mul_nonpos_of_nonneg_of_nonpos (histW_nonneg hs _)
        (bracket_le N nActs hist _ hn mu J (spec J hJ') _ (hs _ (at_mem (by omega))) (hl J hJ'))
    linarith
  · have key : ∀ J, ∃ p : List α, J < N → (IsDist p ∧ p.length = nActs J ∧
        dot p (infoPayoffs (collect v 1) (nActs J) J mu)
          - total (collect v 1) J * mu.getD J 0 = 0) := by
      intro J
      by_cases hJ : J < N
      · obtain ⟨p, hp⟩ := exists_best N nActs hist _ hn mu J (spec J hJ) (hpos J hJ)
        exact ⟨p, fun _ => hp⟩
      · exact ⟨[], fun h => absurd h hJ⟩
    choose f hf using key
    have hat : ∀ J, J < N → Strat.at ((List.range N).map f) J = f J := by
      intro J hJ
      simp [Strat.at, List.getD_eq_getElem?_getD, hJ]
    refine ⟨(List.range N).map f, ⟨by simp, ?_, ?_⟩, ?_⟩
    · intro i hi
      rw [hat i hi]; exact (hf i hi).2.1
    · intro p hp
      obtain ⟨J, hJ, rfl⟩ := List.mem_map.mp hp
      exact (hf J (List.mem_range.mp hJ)).1
    · have := ev_sub_search N nActs hist v hok hpr ((List.range N).map f) mu
      have : evV ((List.range N).map f) v - search mu v = 0 := by
        rw [this]
        apply Finset.sum_eq_zero
        intro J hJ
        have hJ' : J < N := Finset.mem_range.mp hJ
        rw [hat J hJ', (hf J hJ').2.2, mul_zero]
      linarith

end Cfr
