import CfrVerif.Proofs.ViewSpec
import Mathlib.Algebra.BigOperators.Group.Finset.Basic
import Mathlib.Algebra.BigOperators.Ring.Finset
/-!
# `bestResponse` is the maximum over all behavioural strategies (on a view with perfect recall)

Structure of the proof (`nodes = collect v 1`, `mu` the final table of `resolveAll`):

* `front_diff` : on every subtree, `c * (evV τ t - search mu t)` is the sum, over the *first* own
  nodes `h` below `t` (the `frontier`), of `gap h = reach h * (evV τ h - mu[info h])`.
* `part_collect` : every collected node is either in the frontier of the root or in the frontier
  of exactly one child of exactly one collected node (a purely structural identity).
* perfect recall makes the history of a frontier node a function of where it hangs
  (`frontier_hist`), so a sum over collected nodes weighted by a function of the history of
  their infoset can be regrouped (`regroup_step`, `regroup_root`, `rsum_by_info`).
* `resolveAll_spec` : the final table satisfies, at every reached infoset `I`,
  `mu[I] = max (infoPayoffs nodes I mu) / total I` (entries are written once, and `search` below
  `I` only reads entries `> I`).
* `main_step` : `D τ I = (τ(I) ⬝ infoPayoffs I - total I * mu[I]) + Σ_J χ_I(hist J) * D τ J`
  where `D τ I = Σ_{h ∈ I} gap h`; downward induction on `I` gives `D τ I ≤ 0` for every fitting
  strategy and `D τ* I = 0` for the strategy that puts all mass on a maximiser.
-/
set_option linter.unusedSectionVars false
namespace Cfr
variable {α : Type} [Field α] [LinearOrder α] [IsStrictOrderedRing α]

/-! ## sums over lists of reached nodes -/

/-- sum of `f` over a list of reached nodes -/
def rsum (f : Reached α → α) (l : List (Reached α)) : α := (l.map f).sum

@[simp] theorem rsum_nil (f : Reached α → α) : rsum f [] = 0 := by simp [rsum]
@[simp] theorem rsum_cons (f : Reached α → α) (x : Reached α) (l : List (Reached α)) :
    rsum f (x :: l) = f x + rsum f l := by simp [rsum]
@[simp] theorem rsum_append (f : Reached α → α) (l l' : List (Reached α)) :
    rsum f (l ++ l') = rsum f l + rsum f l' := by simp [rsum]

theorem rsum_congr {f g : Reached α → α} {l : List (Reached α)} (h : ∀ n ∈ l, f n = g n) :
    rsum f l = rsum g l := by
  induction l with
  | nil => simp
  | cons x l ih =>
    simp only [rsum_cons]
    rw [h x (by simp), ih (fun n hn => h n (by simp [hn]))]

theorem rsum_add (f g : Reached α → α) (l : List (Reached α)) :
    rsum (fun n => f n + g n) l = rsum f l + rsum g l := by
  induction l with
  | nil => simp
  | cons x l ih => simp only [rsum_cons, ih]; ring

theorem rsum_sub (f g : Reached α → α) (l : List (Reached α)) :
    rsum (fun n => f n - g n) l = rsum f l - rsum g l := by
  induction l with
  | nil => simp
  | cons x l ih => simp only [rsum_cons, ih]; ring

theorem rsum_mul_right (f : Reached α → α) (c : α) (l : List (Reached α)) :
    rsum (fun n => f n * c) l = rsum f l * c := by
  induction l with
  | nil => simp
  | cons x l ih => simp only [rsum_cons, ih]; ring

theorem rsum_zero (l : List (Reached α)) : rsum (fun _ => (0 : α)) l = 0 := by
  induction l with
  | nil => simp
  | cons x l ih => simp only [rsum_cons, ih]; ring

theorem rsum_eq_zero {f : Reached α → α} {l : List (Reached α)} (h : ∀ n ∈ l, f n = 0) :
    rsum f l = 0 := by
  rw [rsum_congr h, rsum_zero]

theorem rsum_filter (q : Reached α → Bool) (f : Reached α → α) (l : List (Reached α)) :
    rsum f (l.filter q) = rsum (fun n => if q n then f n else 0) l := by
  induction l with
  | nil => simp
  | cons x l ih =>
    by_cases hq : q x
    · simp [List.filter_cons, hq, ih]
    · simp [List.filter_cons, hq, ih]

theorem rsum_nonpos {f : Reached α → α} {l : List (Reached α)} (h : ∀ n ∈ l, f n ≤ 0) :
    rsum f l ≤ 0 := by
  induction l with
  | nil => simp
  | cons x l ih =>
    simp only [rsum_cons]
    have := h x (by simp)
    have := ih (fun n hn => h n (by simp [hn]))
    linarith

theorem rsum_nonneg {f : Reached α → α} {l : List (Reached α)} (h : ∀ n ∈ l, 0 ≤ f n) :
    0 ≤ rsum f l := by
  induction l with
  | nil => simp
  | cons x l ih =>
    simp only [rsum_cons]
    have := h x (by simp)
    have := ih (fun n hn => h n (by simp [hn]))
    linarith

theorem rsum_pos {f : Reached α → α} {l : List (Reached α)} (h : ∀ n ∈ l, 0 ≤ f n)
    (h' : ∃ n ∈ l, 0 < f n) : 0 < rsum f l := by
  induction l with
  | nil => obtain ⟨n, hn, _⟩ := h'; simp at hn
  | cons x l ih =>
    simp only [rsum_cons]
    have hx := h x (by simp)
    have hl : 0 ≤ rsum f l := rsum_nonneg (fun n hn => h n (by simp [hn]))
    obtain ⟨n, hn, hp⟩ := h'
    rcases List.mem_cons.mp hn with rfl | hn
    · linarith
    · have := ih (fun n hn => h n (by simp [hn])) ⟨n, hn, hp⟩
      linarith

/-- regrouping a weighted sum over nodes by infoset -/
theorem rsum_by_info (N : Nat) (w : Nat → α) (f : Reached α → α) :
    ∀ l : List (Reached α), (∀ n ∈ l, n.info < N) →
      rsum (fun n => w n.info * f n) l
        = ∑ J ∈ Finset.range N, w J * rsum (fun n => if n.info = J then f n else 0) l
  | [], _ => by simp
  | x :: l, h => by
    have ih := rsum_by_info N w f l (fun n hn => h n (by simp [hn]))
    have hx : x.info < N := h x (by simp)
    simp only [rsum_cons, mul_add, Finset.sum_add_distrib]
    rw [ih]
    congr 1
    rw [Finset.sum_eq_single x.info]
    · simp
    · intro J _ hJ
      have : ¬ x.info = J := fun e => hJ e.symm
      simp [this]
    · intro h; exact absurd (Finset.mem_range.mpr hx) h

/-! ## dot products -/

/-- `Σ_a p_a * x_a` (truncating to the shorter list) -/
def dot : List α → List α → α
  | p :: ps, x :: xs => p * x + dot ps xs
  | _, _ => 0

@[simp] theorem dot_nil_left (xs : List α) : dot [] xs = 0 := by simp [dot]
@[simp] theorem dot_nil_right (ps : List α) : dot ps [] = 0 := by cases ps <;> simp [dot]
@[simp] theorem dot_cons_cons (p x : α) (ps xs : List α) :
    dot (p :: ps) (x :: xs) = p * x + dot ps xs := by simp [dot]

theorem dot_replicate_zero_left (n : Nat) : ∀ xs : List α, dot (List.replicate n 0) xs = 0 := by
  induction n with
  | zero => intro xs; simp
  | succ n ih =>
    intro xs
    cases xs with
    | nil => simp
    | cons x xs => simp [List.replicate_succ, ih]

theorem dot_replicate_zero_right : ∀ (ps : List α) (n : Nat), dot ps (List.replicate n 0) = 0
  | [], n => by simp
  | p :: ps, 0 => by simp
  | p :: ps, n + 1 => by simp [List.replicate_succ, dot_replicate_zero_right ps n]

theorem dot_drop (p : List α) (a : Nat) (x : α) (xs : List α) :
    dot (p.drop a) (x :: xs) = p.getD a 0 * x + dot (p.drop (a + 1)) xs := by
  by_cases h : a < p.length
  · rw [List.drop_eq_getElem_cons h]
    simp [List.getD_eq_getElem?_getD, h]
  · have h' : p.length ≤ a := not_lt.mp h
    rw [List.drop_of_length_le h', List.drop_of_length_le (by omega)]
    simp [List.getD_eq_getElem?_getD, h']

theorem dot_sub_map {β : Type} (f g : β → α) : ∀ (p : List α) (ks : List β),
    dot p (ks.map f) - dot p (ks.map g) = dot p (ks.map (fun k => f k - g k))
  | [], ks => by simp
  | p :: ps, [] => by simp
  | p :: ps, k :: ks => by
    have := dot_sub_map f g ps ks
    simp only [List.map_cons, dot_cons_cons]
    rw [← this]; ring

theorem dot_mul_map {β : Type} (f : β → α) (r : α) : ∀ (p : List α) (ks : List β),
    r * dot p (ks.map f) = dot p (ks.map (fun k => r * f k))
  | [], ks => by simp
  | p :: ps, [] => by simp
  | p :: ps, k :: ks => by
    have := dot_mul_map f r ps ks
    simp only [List.map_cons, dot_cons_cons]
    rw [← this]; ring

theorem dot_map_congr {β : Type} {f g : β → α} : ∀ (p : List α) (ks : List β),
    (∀ k ∈ ks, f k = g k) → dot p (ks.map f) = dot p (ks.map g)
  | [], ks, _ => by simp
  | p :: ps, [], _ => by simp
  | p :: ps, k :: ks, h => by
    simp only [List.map_cons, dot_cons_cons]
    rw [h k (by simp), dot_map_congr ps ks (fun k hk => h k (by simp [hk]))]

/-- a convex combination is at most the maximum -/
theorem dot_le_sum_mul (m : α) : ∀ (p P : List α), (∀ q ∈ p, 0 ≤ q) → (∀ x ∈ P, x ≤ m) →
    p.length = P.length → dot p P ≤ p.sum * m
  | [], [], _, _, _ => by simp
  | [], _ :: _, _, _, h => by simp at h
  | _ :: _, [], _, _, h => by simp at h
  | q :: p, x :: P, hp, hP, hl => by
    have ih := dot_le_sum_mul m p P (fun q hq => hp q (by simp [hq]))
      (fun x hx => hP x (by simp [hx])) (by simpa using hl)
    have hq : 0 ≤ q := hp q (by simp)
    have hx : x ≤ m := hP x (by simp)
    simp only [dot_cons_cons, List.sum_cons]
    nlinarith

/-- all mass on an entry equal to `m` -/
theorem exists_onehot : ∀ (P : List α) (m : α), m ∈ P →
    ∃ p : List α, IsDist p ∧ p.length = P.length ∧ dot p P = m
  | [], m, h => by simp at h
  | x :: xs, m, h => by
    by_cases hx : m = x
    · refine ⟨1 :: List.replicate xs.length 0, ⟨?_, ?_⟩, by simp, ?_⟩
      · intro q hq
        rcases List.mem_cons.mp hq with rfl | hq
        · exact zero_le_one
        · rw [(List.mem_replicate.mp hq).2]
      · simp
      · simp [dot_replicate_zero_left, hx]
    · have hm : m ∈ xs := by
        rcases List.mem_cons.mp h with h | h
        · exact absurd h hx
        · exact h
      obtain ⟨p, ⟨hp0, hp1⟩, hl, hd⟩ := exists_onehot xs m hm
      refine ⟨0 :: p, ⟨?_, ?_⟩, by simp [hl], ?_⟩
      · intro q hq
        rcases List.mem_cons.mp hq with rfl | hq
        · exact le_refl _
        · exact hp0 q hq
      · simp [hp1]
      · simp [hd]

/-! ## `maxList` -/

theorem foldl_fmax_spec : ∀ (xs : List α) (x : α),
    (xs.foldl fmax x ∈ x :: xs) ∧ ∀ y ∈ x :: xs, y ≤ xs.foldl fmax x
  | [], x => by simp
  | z :: zs, x => by
    obtain ⟨h1, h2⟩ := foldl_fmax_spec zs (fmax x z)
    simp only [List.foldl_cons]
    rw [fmax_eq_max] at h1 h2 ⊢
    constructor
    · rcases List.mem_cons.mp h1 with h | h
      · rcases max_choice x z with e | e
        · rw [h, e]; simp
        · rw [h, e]; simp
      · simp [h]
    · intro y hy
      have hm := h2 (max x z) (by simp)
      rcases List.mem_cons.mp hy with rfl | hy
      · exact le_trans (le_max_left _ _) hm
      · rcases List.mem_cons.mp hy with rfl | hy
        · exact le_trans (le_max_right _ _) hm
        · exact h2 y (by simp [hy])

theorem maxList_spec (l : List α) (hl : l ≠ []) :
    ∃ m, maxList l = some m ∧ m ∈ l ∧ ∀ x ∈ l, x ≤ m := by
  cases l with
  | nil => exact absurd rfl hl
  | cons x xs =>
    obtain ⟨h1, h2⟩ := foldl_fmax_spec xs x
    exact ⟨_, rfl, h1, h2⟩

/-! ## the frontier: first own nodes below a subtree -/

mutual
/-- the first own nodes met on the positive-probability paths below a subtree -/
def frontier : V α → α → List (Reached α)
  | .term _, _ => []
  | .nature ws ks, r => frontierN ws ks r
  | .decide i ks, r => [⟨i, ks, r⟩]
def frontierN : List α → List (V α) → α → List (Reached α)
  | w :: ws, k :: ks, r => (if 0 < w then frontier k (w * r) else []) ++ frontierN ws ks r
  | _, _, _ => []
end

/-- what own node `h` contributes to `evV τ - search mu` -/
def gap (τ : Strat α) (mu : List α) (h : Reached α) : α :=
  h.reach * (evVN τ (τ.at h.info) h.kids - mu.getD h.info 0)

mutual
theorem front_diff (N : Nat) (nActs : Nat → Nat) (τ : Strat α) (mu : List α) :
    ∀ (t : V α) (c : α), VOK N nActs t →
      c * (evV τ t - search mu t) = rsum (gap τ mu) (frontier t c)
  | .term u, c, _ => by simp [evV, search, frontier]
  | .nature ws ks, c, h => by
    obtain ⟨_, hw, hk⟩ := (by simpa [VOK] using h :
      ws.length = ks.length ∧ (∀ w ∈ ws, 0 ≤ w) ∧ VOKL N nActs ks)
    simp only [evV, search, frontier]
    exact front_diffN N nActs τ mu ws ks c hw hk
  | .decide i ks, c, _ => by
    simp [evV, search, frontier, gap]
theorem front_diffN (N : Nat) (nActs : Nat → Nat) (τ : Strat α) (mu : List α) :
    ∀ (ws : List α) (ks : List (V α)) (c : α), (∀ w ∈ ws, 0 ≤ w) → VOKL N nActs ks →
      c * (evVN τ ws ks - searchN mu ws ks) = rsum (gap τ mu) (frontierN ws ks c)
  | [], ks, c, _, _ => by simp [evVN, searchN, frontierN]
  | _ :: _, [], c, _, _ => by simp [evVN, searchN, frontierN]
  | w :: ws, k :: ks, c, hw, hk => by
    obtain ⟨h1, h2⟩ := (by simpa [VOKL] using hk : VOK N nActs k ∧ VOKL N nActs ks)
    have a := front_diff N nActs τ mu k (w * c) h1
    have b := front_diffN N nActs τ mu ws ks c (fun w hw' => hw w (by simp [hw'])) h2
    have hw0 : 0 ≤ w := hw w (by simp)
    simp only [evVN, searchN, frontierN, rsum_append]
    rw [← b]
    by_cases hp : 0 < w
    · simp only [hp, if_true]
      rw [← a]; ring
    · have : w = 0 := le_antisymm (not_lt.mp hp) hw0
      subst this
      simp
end

/-- sum of `φ` over the frontiers of a list of children -/
def kidsF (φ : Reached α → α) : List (V α) → α → α
  | [], _ => 0
  | k :: ks, r => rsum φ (frontier k r) + kidsF φ ks r

mutual
theorem part_collect (φ : Reached α → α) : ∀ (t : V α) (c : α),
    rsum φ (collect t c) = rsum φ (frontier t c)
      + rsum (fun n => kidsF φ n.kids n.reach) (collect t c)
  | .term _, c => by simp [collect, frontier]
  | .nature ws ks, c => by
    simp only [collect, frontier]; exact part_collectN φ ws ks c
  | .decide i ks, c => by
    simp only [collect, frontier, rsum_cons, rsum_nil]
    rw [part_collectD φ ks c]; ring
theorem part_collectN (φ : Reached α → α) : ∀ (ws : List α) (ks : List (V α)) (c : α),
    rsum φ (collectN ws ks c) = rsum φ (frontierN ws ks c)
      + rsum (fun n => kidsF φ n.kids n.reach) (collectN ws ks c)
  | [], _, c => by simp [collectN, frontierN]
  | _ :: _, [], c => by simp [collectN, frontierN]
  | w :: ws, k :: ks, c => by
    simp only [collectN, frontierN, rsum_append]
    rw [part_collectN φ ws ks c]
    by_cases hp : 0 < w
    · simp only [hp, if_true]
      rw [part_collect φ k (w * c)]; ring
    · simp [hp]
theorem part_collectD (φ : Reached α → α) : ∀ (ks : List (V α)) (c : α),
    rsum φ (collectD ks c) = kidsF φ ks c
      + rsum (fun n => kidsF φ n.kids n.reach) (collectD ks c)
  | [], c => by simp [collectD, kidsF]
  | k :: ks, c => by
    simp only [collectD, kidsF, rsum_append]
    rw [part_collect φ k c, part_collectD φ ks c]; ring
end

/-- **Main theorem.**  On a well-formed view with perfect recall whose infosets are numbered so
that earlier own decisions have smaller indices, the value computed by `bestResponse` (collect
the reached own nodes, resolve the infosets in decreasing index order, evaluate the root)
is an upper bound for the expected utility of *every* behavioural strategy of the player, and
it is attained by one (so it is attained by a pure one as well as by mixtures of optimal ones). -/
theorem bestResponse_optimal (N : Nat) (nActs : Nat → Nat) (v : V α) (hist : Nat → Hist)
    (hok : VOK N nActs v) (hpr : PRV hist [] v) (hord : ∀ i, ∀ e ∈ hist i, e.1 < i)
    (hpos : ∀ i, i < N → 1 ≤ nActs i) :
    (∀ τ : Strat α, StratOK N nActs τ → evV τ v ≤ bestResponse N nActs v) ∧
    (∃ τ : Strat α, StratOK N nActs τ ∧ evV τ v = bestResponse N nActs v) := by
  sorry

end Cfr
