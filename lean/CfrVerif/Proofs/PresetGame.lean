import CfrVerif.Proofs.PresetSpec
import CfrVerif.Props.C02
import CfrVerif.Proofs.PresetGameRange
import CfrVerif.Proofs.PresetGameAsm
/-!
# Game-level part of the discounted-preset analysis: from the solver run to per-infoset traces

For every accepted parameter tuple the true regret of the profile returned by the unsampled
solver after `T` iterations (no early termination) is at most the sum over all decision infosets
of both players of the clamped maximal `t^γ`-weighted regret, divided by the total weight — where
each infoset's regret sequence is a regret-matching trace (`RMTrace`) of the solver's parameters.
(The weighted analogue of the chain used for C02: the traversal adds the instantaneous
counterfactual regrets, performance difference regrouped by infoset, the returned average strategy
is realisation equivalent to the `t^γ`-weighted mixture of the iterates, zero-sum sandwich.)
-/
set_option linter.unusedSectionVars false
set_option linter.unusedVariables false
namespace Cfr

/-- the number of actions of infoset `I` of player `me` -/
def nActsAt (g : Game ℝ) (me : Bool) (I : Nat) : Nat := ((g.infos me).getD I default).actions.length

theorem preset_reduction (g : Game ℝ) (hg : GameWF g) (p : RegretParams ℝ) (hp : 0 ≤ p.strat)
    (hpos : p.posRegret ≠ .negInf)
    (lo hi : ℝ) (hpay : PayIn lo hi g.root) (draw : DrawFn ℝ) (T : Nat) (hT : 0 < T) :
    ∃ tr : (me : Bool) → (I : Nat) → RMTrace p (nActsAt g me I) (hi - lo) T,
      (getInfo g (solveVanillaSingle g false p draw T none).profile).regret * weightTotal p.strat T
        ≤ ((List.range g.p1.length).map (fun I => (tr true I).clampedMax)).sum
          + ((List.range g.p2.length).map (fun I => (tr false I).clampedMax)).sum := by
  refine ⟨fun me I => PG.trace g hg p hp lo hi hpay draw T me I, ?_⟩
  rw [PG.solve_profile]
  exact PG.reduction g hg p hp lo hi hpay draw T hT

/-- the true regret never exceeds the payoff range -/
theorem regret_le_range (g : Game ℝ) (hg : GameWF g) (lo hi : ℝ) (hpay : PayIn lo hi g.root)
    (σ : Profile ℝ) (hσ : ProfileOK g σ) : (getInfo g σ).regret ≤ hi - lo :=
  PG.regret_le_range g hg lo hi hpay σ hσ

end Cfr
