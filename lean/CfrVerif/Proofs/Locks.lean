import CfrVerif.Model.Locks
import CfrVerif.Proofs.GameWF
import CfrVerif.Proofs.FrontierExt
import CfrVerif.Proofs.LocksGeneric
import CfrVerif.Proofs.LocksTrace
/-!
# Workers never meet, the pool never deadlocks, every schedule ends

Over the interleaving model of `Model/Locks.lean`: any worker may take the next step, a
`try_lock().unwrap()` on a held mutex is a panic, a `lock()` on a held mutex waits.

Generic part (any list of task traces):
* `TryNodup` : no mutex is `try_lock`ed twice in the whole pool (neither by two tasks nor twice by one);
* `LeafCS`   : every blocking `lock()` is released by the very next event of the same task, and the
  blocking locks are never the `try_lock`ed ones.
From these: no reachable configuration lets a worker panic, every reachable configuration that is
not finished has a worker that can move, and every execution has at most as many steps as there
are events.

Specific part: on every accepted game (`GameWF`: perfect recall) the traces of the pool's tasks
in one pass of the external-sampling solver, for every pass context, task target and draw oracle,
satisfy both hypotheses; so does the closing recursion on the calling thread.
-/
set_option linter.unusedSectionVars false
namespace Cfr
namespace Lk

/-! The definitions `tryLocks`, `blockLocks`, `LeafCS`, `PoolOK` are in `Proofs/LocksGeneric.lean`
(with the invariant `Inv` of reachable configurations); the facts about the traces of the model
are in `Proofs/LocksTrace.lean`. -/

/-- **workers never meet**: in no reachable configuration does a `try_lock().unwrap()` find its
mutex held -/
theorem no_panic {ts : List (List LEv)} (h : PoolOK ts) {n : Nat} {cfg : LCfg}
    (hr : LReach (LCfg.init ts) n cfg) (j : Nat) : lstep cfg j ≠ LOut.panic :=
  ((Inv.init h).reach hr).no_panic j

/-- **no deadlock**: a reachable configuration is finished or some worker can move -/
theorem no_deadlock {ts : List (List LEv)} (h : PoolOK ts) {n : Nat} {cfg : LCfg}
    (hr : LReach (LCfg.init ts) n cfg) :
    cfg.finished = true ∨ ∃ j cfg', lstep cfg j = LOut.ok cfg' :=
  ((Inv.init h).reach hr).no_deadlock

/-- **every schedule ends**: each step executes one event -/
theorem steps_bounded (ts : List (List LEv)) {n : Nat} {cfg : LCfg}
    (hr : LReach (LCfg.init ts) n cfg) : n + cfg.remaining = (LCfg.init ts).remaining :=
  reach_remaining hr

/-- when everything has run, every mutex is free again -/
theorem finished_all_free {ts : List (List LEv)} (h : PoolOK ts) {n : Nat} {cfg : LCfg}
    (hr : LReach (LCfg.init ts) n cfg) (hf : cfg.finished = true) : cfg.held = [] :=
  ((Inv.init h).reach hr).finished_all_free hf

/-- for executable schedules: `lrun` never reports a panic -/
theorem lrun_isSome {ts : List (List LEv)} (h : PoolOK ts) (sch : List Nat) :
    (lrun (LCfg.init ts) sch).isSome = true :=
  Inv.lrun_isSome sch (Inv.init h)

section
variable {α : Type} [Field α] [LinearOrder α] [IsStrictOrderedRing α] [Transc α]

/-- the tasks of one external-sampling pass satisfy the hypotheses: every accepted game, every pass
context (either player updating, any current strategies, any draw oracle), every task target -/
theorem externalPool_ok (g : Game α) (hg : GameWF g) (c : ECtx α) (target : Nat)
    (log : List (DrawRec α)) : PoolOK (externalPoolTraces g c target log) := by
  obtain ⟨hist, hpr, _⟩ := hg.recall c.first
  have hq : ItemsOK c.first hist
      (eThreshold c target g.root.size (2 * g.root.size + 2) [⟨[], g.root⟩] [] { log := log }).1 :=
    (eThreshold_itemsOK c hist target g.root.size (2 * g.root.size + 2) [⟨[], g.root⟩] []
      { log := log } (ItemsOK.root c.first hist g.root hpr)).left
  have e : externalPoolTraces g c target log = (eTaskTraces c
      (eThreshold c target g.root.size (2 * g.root.size + 2) [⟨[], g.root⟩] [] { log := log }).1
      (eThreshold c target g.root.size (2 * g.root.size + 2) [⟨[], g.root⟩] []
        { log := log }).2.2).1 := rfl
  rw [e]
  refine poolOK_of_trOK (α := α) (first := c.first) (eTaskTraces_nodup c hist _ _ hq) (fun t ht => ?_)
  obtain ⟨it, _, hok⟩ := eTaskTraces_mem c _ _ t ht
  exact ⟨it.node, hok⟩

/-- and so does the closing recursion on the calling thread, alone -/
theorem externalClosing_ok (g : Game α) (hg : GameWF g) (c : ECtx α) (target : Nat)
    (log : List (DrawRec α)) : PoolOK [externalClosingTrace g c target log] := by
  obtain ⟨hist, hpr, _⟩ := hg.recall c.first
  have hok := etraceC_ok c
    (eRunTasks c
      (eThreshold c target g.root.size (2 * g.root.size + 2) [⟨[], g.root⟩] [] { log := log }).1
      (eThreshold c target g.root.size (2 * g.root.size + 2) [⟨[], g.root⟩] []
        { log := log }).2.2).1
    g.root []
    (eRunTasks c
      (eThreshold c target g.root.size (2 * g.root.size + 2) [⟨[], g.root⟩] [] { log := log }).1
      (eThreshold c target g.root.size (2 * g.root.size + 2) [⟨[], g.root⟩] []
        { log := log }).2.2).2.2
  have e : externalClosingTrace g c target log = (etraceC c
    (eRunTasks c
      (eThreshold c target g.root.size (2 * g.root.size + 2) [⟨[], g.root⟩] [] { log := log }).1
      (eThreshold c target g.root.size (2 * g.root.size + 2) [⟨[], g.root⟩] []
        { log := log }).2.2).1
    g.root []
    (eRunTasks c
      (eThreshold c target g.root.size (2 * g.root.size + 2) [⟨[], g.root⟩] [] { log := log }).1
      (eThreshold c target g.root.size (2 * g.root.size + 2) [⟨[], g.root⟩] []
        { log := log }).2.2).2.2).1 := rfl
  rw [e]
  refine poolOK_of_trOK (α := α) (first := c.first) ?_ (fun t ht => ?_)
  · simpa using hok.nodup hist [] hpr
  · rw [List.mem_singleton] at ht
    subst ht
    exact ⟨g.root, hok⟩

end
end Lk

section
variable {α : Type} [Field α] [LinearOrder α] [IsStrictOrderedRing α] [Transc α]

/-- **C07, "never fails because two workers meet at one infoset"** — as a statement about every
interleaving of the pool's workers: on an accepted game, in every configuration any thread
schedule can reach during a pass of the multi-threaded external-sampling solver, no
`try_lock().unwrap()` finds its mutex held -/
theorem external_workers_never_meet (g : Game α) (hg : GameWF g) (c : ECtx α) (target : Nat)
    (log : List (DrawRec α)) {n : Nat} {cfg : LCfg}
    (hr : LReach (LCfg.init (externalPoolTraces g c target log)) n cfg) (j : Nat) :
    lstep cfg j ≠ LOut.panic :=
  Lk.no_panic (Lk.externalPool_ok g hg c target log) hr j

/-- **C05, "never … hangs or deadlocks"** for the mutexes of the pool: every reachable
configuration is finished or has a worker that can move, every execution has exactly as many
steps as events were executed (so at most the number of events of the pass), and when all
workers are done every mutex is free -/
theorem external_pool_never_deadlocks (g : Game α) (hg : GameWF g) (c : ECtx α) (target : Nat)
    (log : List (DrawRec α)) {n : Nat} {cfg : LCfg}
    (hr : LReach (LCfg.init (externalPoolTraces g c target log)) n cfg) :
    (cfg.finished = true ∨ ∃ j cfg', lstep cfg j = LOut.ok cfg') ∧
    n + cfg.remaining = (LCfg.init (externalPoolTraces g c target log)).remaining ∧
    (cfg.finished = true → cfg.held = []) :=
  ⟨Lk.no_deadlock (Lk.externalPool_ok g hg c target log) hr,
   Lk.steps_bounded _ hr,
   Lk.finished_all_free (Lk.externalPool_ok g hg c target log) hr⟩

/-- the closing recursion on the calling thread (all workers done, every mutex free) never finds
a mutex of its own held either -/
theorem external_closing_never_panics (g : Game α) (hg : GameWF g) (c : ECtx α) (target : Nat)
    (log : List (DrawRec α)) {n : Nat} {cfg : LCfg}
    (hr : LReach (LCfg.init [externalClosingTrace g c target log]) n cfg) (j : Nat) :
    lstep cfg j ≠ LOut.panic :=
  Lk.no_panic (Lk.externalClosing_ok g hg c target log) hr j

end

/-! ## the hypotheses are not vacuous, and each is needed -/
namespace Lk

/-- two workers that `try_lock` the same mutex can meet -/
example : ∃ cfg, LReach (LCfg.init [[.tryAcq (.player true 0), .rel (.player true 0)],
    [.tryAcq (.player true 0), .rel (.player true 0)]]) 1 cfg ∧ lstep cfg 1 = LOut.panic := by
  exact ⟨_, LReach.step 0 (LReach.refl _) rfl, rfl⟩

/-- a worker that waits for a mutex while holding another one can deadlock with its mirror image -/
example : ∃ cfg, LReach (LCfg.init [[.acq (.chance 0), .acq (.chance 1), .rel (.chance 1), .rel (.chance 0)],
    [.acq (.chance 1), .acq (.chance 0), .rel (.chance 0), .rel (.chance 1)]]) 2 cfg ∧
    cfg.finished = false ∧ ∀ j, ∀ cfg', lstep cfg j ≠ LOut.ok cfg' := by
  refine ⟨_, LReach.step 1 (LReach.step 0 (LReach.refl _) rfl) rfl, by decide, ?_⟩
  intro j cfg' h
  match j with
  | 0 => exact absurd (show LOut.blocked = LOut.ok cfg' from h) (by simp)
  | 1 => exact absurd (show LOut.blocked = LOut.ok cfg' from h) (by simp)
  | j + 2 => exact absurd (show LOut.idle = LOut.ok cfg' from h) (by simp)

end Lk
end Cfr
