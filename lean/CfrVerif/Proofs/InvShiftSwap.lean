import CfrVerif.Proofs.Transforms
import CfrVerif.Proofs.WellFormed
import CfrVerif.Props.C01
import CfrVerif.Proofs.InvShiftSwapLemmas
/-!
# C12, part 3: adding a constant to the payoffs; exchanging the players
-/
set_option linter.unusedSectionVars false
namespace Cfr

section Swap
variable {α : Type} [Field α] [LinearOrder α] [IsStrictOrderedRing α]

/-- **evaluation of the mirrored game**: negated utility, exchanged regrets (every game, every
profile) -/
theorem getInfo_swap (g : Game α) (σ : Bool → Strat α) :
    (getInfo g.swap (fun one => σ (!one))).util = -(getInfo g σ).util ∧
    (getInfo g.swap (fun one => σ (!one))).regretOne = (getInfo g σ).regretTwo ∧
    (getInfo g.swap (fun one => σ (!one))).regretTwo = (getInfo g σ).regretOne := by
  have he : expected g.swap.chance (fun one => σ (!one)) g.swap.root = -expected g.chance σ g.root :=
    expected_swap g.chance σ g.root
  simp only [getInfo, he, optimalDeviations_swap, Bool.not_true, Bool.not_false, sub_neg_eq_add,
    ← sub_eq_add_neg, true_and]

/-- **the unsampled solver on the mirrored game** returns the mirrored result: exchanged
strategies and bounds, the same number of iterations (every game, parameters, budget, threshold) -/
theorem solve_full_swap [Transc α] (g : Game α) (p : RegretParams α) (draw : DrawFn α) (T : Nat)
    (thr : Option (Ext α)) :
    solveVanillaSingle g.swap false p draw T thr = (solveVanillaSingle g false p draw T thr).swap := by
  unfold solveVanillaSingle solveWith
  exact solveLoop_swap (vanillaIter g false p draw) (vanillaIter g.swap false p draw) thr
    (vanillaIter_swap g p draw) T 1 (SolveSt.init g) .posInf .posInf []
end Swap

section Shift
variable {α : Type} [Field α] [LinearOrder α] [IsStrictOrderedRing α]

/-- **evaluation under a payoff shift**: the utility moves by `k`, the regrets stay (well-formed
game, valid profile: probabilities sum to one) -/
theorem getInfo_shift (k : α) (g : Game α) (hg : GameWF g) (σ : Profile α) (hσ : ProfileOK g σ) :
    (getInfo (g.mapPay (fun x => x + k)) σ).util = (getInfo g σ).util + k ∧
    (getInfo (g.mapPay (fun x => x + k)) σ).regretOne = (getInfo g σ).regretOne ∧
    (getInfo (g.mapPay (fun x => x + k)) σ).regretTwo = (getInfo g σ).regretTwo := by
  have he : expected (g.mapPay (fun x => x + k)).chance σ (g.mapPay (fun x => x + k)).root
      = expected g.chance σ g.root + k :=
    expected_shift k g (fun ps hps => (hg.chancePos ps hps).2) σ hσ g.root hg.nodes
  have h1 := optimalDeviations_shift k g hg σ hσ true
  have h2 := optimalDeviations_shift k g hg σ hσ false
  simp only [Bool.not_true, Bool.not_false, sg, if_true, Bool.false_eq_true, if_false] at h1 h2
  simp only [getInfo, he, h1, h2, true_and]
  constructor
  · congr 1; ring
  · congr 1; ring

/-- **the unsampled solver ignores a payoff shift** -/
theorem solve_full_shift (k : ℝ) (g : Game ℝ) (hg : GameWF g) (p : RegretParams ℝ)
    (draw : DrawFn ℝ) (T : Nat) (thr : Option (Ext ℝ)) :
    solveVanillaSingle (g.mapPay (fun x => x + k)) false p draw T thr
      = solveVanillaSingle g false p draw T thr := by
  have hp : 0 ≤ p.clampStrat.strat := le_max_right _ _
  unfold solveVanillaSingle solveWith
  rw [← vanillaIter_clamp g false p draw, ← vanillaIter_clamp (g.mapPay (fun x => x + k)) false p draw]
  exact solveLoop_congr (vanillaIter g false p.clampStrat draw)
    (vanillaIter (g.mapPay (fun x => x + k)) false p.clampStrat draw) thr (StOK g)
    (fun it s log hs => ⟨vanillaIter_shift k g hg p.clampStrat draw it s log hs,
      (vanillaIter_ok g false p.clampStrat hp draw it s log hs).1⟩)
    T 1 (SolveSt.init g) .posInf .posInf [] (stOK_init g hg)
end Shift

end Cfr
