import CfrVerif.Proofs.Transforms
import CfrVerif.Proofs.WellFormed
import CfrVerif.Props.C01
/-!
# C12, part 3: adding a constant to the payoffs; exchanging the players
-/
set_option linter.unusedSectionVars false
namespace Cfr

section Swap
variable {α : Type} [Field α] [LinearOrder α] [IsStrictOrderedRing α]

/-- **evaluation of the mirrored game**: negated utility, exchanged regrets (every game, every
profile) -/
theorem getInfo_swap (g : Game α) (σ : Bool → Strat α) :
    (getInfo g.swap (fun one => σ (!one))).util = -(getInfo g σ).util ∧
    (getInfo g.swap (fun one => σ (!one))).regretOne = (getInfo g σ).regretTwo ∧
    (getInfo g.swap (fun one => σ (!one))).regretTwo = (getInfo g σ).regretOne := by
  sorry

/-- **the unsampled solver on the mirrored game** returns the mirrored result: exchanged
strategies and bounds, the same number of iterations (every game, parameters, budget, threshold) -/
theorem solve_full_swap [Transc α] (g : Game α) (p : RegretParams α) (draw : DrawFn α) (T : Nat)
    (thr : Option (Ext α)) :
    solveVanillaSingle g.swap false p draw T thr = (solveVanillaSingle g false p draw T thr).swap := by
  sorry
end Swap

section Shift
variable {α : Type} [Field α] [LinearOrder α] [IsStrictOrderedRing α]

/-- **evaluation under a payoff shift**: the utility moves by `k`, the regrets stay (well-formed
game, valid profile: probabilities sum to one) -/
theorem getInfo_shift (k : α) (g : Game α) (hg : GameWF g) (σ : Profile α) (hσ : ProfileOK g σ) :
    (getInfo (g.mapPay (fun x => x + k)) σ).util = (getInfo g σ).util + k ∧
    (getInfo (g.mapPay (fun x => x + k)) σ).regretOne = (getInfo g σ).regretOne ∧
    (getInfo (g.mapPay (fun x => x + k)) σ).regretTwo = (getInfo g σ).regretTwo := by
  sorry

/-- **the unsampled solver ignores a payoff shift** -/
theorem solve_full_shift (k : ℝ) (g : Game ℝ) (hg : GameWF g) (p : RegretParams ℝ)
    (draw : DrawFn ℝ) (T : Nat) (thr : Option (Ext ℝ)) :
    solveVanillaSingle (g.mapPay (fun x => x + k)) false p draw T thr
      = solveVanillaSingle g false p draw T thr := by
  sorry
end Shift

end Cfr
