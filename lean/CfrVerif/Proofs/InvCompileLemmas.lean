import CfrVerif.Proofs.Transforms
import CfrVerif.Model.Eval
/-!
# Helper lemmas for `Proofs/InvCompile.lean` (C12, part 1)

* rescaled chance weights: `compile_rescale` (mutual with `compileOutcomes_rescale`,
  `compileActions_rescale`);
* renaming: the renamed builder state `BState.rename`, equivariance of the registration steps and of
  `compile`;
* padding with degenerate nodes: the relation `PadRel` between the builder states of the original
  and of the padded tree, `ExRel` (same error, or related results), `compile_pad`;
* functions of the shape only: `optimalDeviations_sameShape`, `init_sameShape`.
-/
set_option linter.unusedSectionVars false
namespace Cfr
variable {α : Type} [Field α] [LinearOrder α] [IsStrictOrderedRing α]

/-! ## rescaled chance weights -/

theorem registerChance_rescale (info : Option Nat) (c : α) (hc : 0 < c) (ps : List α)
    (nodes : List (Node α)) (s : BState α) :
    registerChance info (ps.map (fun w => c * w)) nodes s = registerChance info ps nodes s := by
  have hn : (List.map (fun x => x / lsum (ps.map (fun w => c * w))) (ps.map (fun w => c * w)))
      = List.map (fun x => x / lsum ps) ps := by
    have : lsum (ps.map (fun w => c * w)) = c * lsum ps := by
      rw [lsum_eq_sum, lsum_eq_sum]
      induction ps with
      | nil => simp
      | cons x l ih => simp only [List.map_cons, List.sum_cons, ih, mul_add]
    rw [this, List.map_map]
    apply List.map_congr_left
    intro w _
    simp only [Function.comp]
    exact mul_div_mul_left w (lsum ps) (ne_of_gt hc)
  unfold registerChance
  simp only [hn]

mutual
theorem compile_rescale : ∀ (r r' : Raw α) (prev : Prev) (s : BState α), Rescaled r r' →
    compile r' prev s = compile r prev s
  | .term p, .term p', prev, s, h => by
    simp only [Rescaled] at h
    subst h; rfl
  | .term _, .chance _ _ _, _, _, h => by simp [Rescaled] at h
  | .term _, .player _ _ _ _, _, _, h => by simp [Rescaled] at h
  | .chance _ _ _, .term _, _, _, h => by simp [Rescaled] at h
  | .chance _ _ _, .player _ _ _ _, _, _, h => by simp [Rescaled] at h
  | .player _ _ _ _, .term _, _, _, h => by simp [Rescaled] at h
  | .player _ _ _ _, .chance _ _ _, _, _, h => by simp [Rescaled] at h
  | .chance i ws ks, .chance i' ws' ks', prev, s, h => by
    simp only [Rescaled] at h
    obtain ⟨rfl, ⟨c, hc, rfl⟩, hk⟩ := h
    simp only [compile]
    rw [compileOutcomes_rescale ws ks ks' c prev s hc hk]
    cases hco : compileOutcomes ws ks prev s with
    | error e => rfl
    | ok x =>
      obtain ⟨ps, ns, s'⟩ := x
      simp only [Except.map]
      exact registerChance_rescale i c hc ps ns s'
  | .player o i as ks, .player o' i' as' ks', prev, s, h => by
    simp only [Rescaled] at h
    obtain ⟨rfl, rfl, rfl, hk⟩ := h
    match as, ks, ks', hk with
    | [], _, _, _ => simp only [compile]
    | [a], [], [], _ => simp only [compile]
    | [a], [], _ :: _, hk => simp [RescaledL] at hk
    | [a], _ :: _, [], hk => simp [RescaledL] at hk
    | [a], k :: ks, k' :: ks', hk =>
      simp only [RescaledL] at hk
      simp only [compile]
      cases registerSingle o i a s with
      | error e => rfl
      | ok s' => exact compile_rescale k k' prev s' hk.1
    | a :: b :: as, [], [], _ => simp only [compile]
    | a :: b :: as, [], _ :: _, hk => simp [RescaledL] at hk
    | a :: b :: as, _ :: _, [], hk => simp [RescaledL] at hk
    | a :: b :: as, k :: ks, k' :: ks', hk =>
      simp only [compile]
      cases registerPlayer o i (a :: b :: as) prev s with
      | error e => rfl
      | ok x =>
        obtain ⟨j, s'⟩ := x
        simp only
        rw [compileActions_rescale (k :: ks) (k' :: ks') o j 0 prev s' hk]
theorem compileOutcomes_rescale : ∀ (ws : List α) (ks ks' : List (Raw α)) (c : α) (prev : Prev)
    (s : BState α), 0 < c → RescaledL ks ks' →
    compileOutcomes (ws.map (fun w => c * w)) ks' prev s
      = (compileOutcomes ws ks prev s).map (fun x => (x.1.map (fun w => c * w), x.2.1, x.2.2))
  | [], ks, ks', c, prev, s, hc, h => by
    simp [compileOutcomes, Except.map]
  | w :: ws, [], [], c, prev, s, hc, h => by
    simp [compileOutcomes, Except.map]
  | w :: ws, [], _ :: _, c, prev, s, hc, h => by simp [RescaledL] at h
  | w :: ws, _ :: _, [], c, prev, s, hc, h => by simp [RescaledL] at h
  | w :: ws, k :: ks, k' :: ks', c, prev, s, hc, h => by
    simp only [RescaledL] at h
    simp only [List.map_cons, compileOutcomes]
    rw [compile_rescale k k' prev s h.1]
    have hpos : (0 < c * w) ↔ (0 < w) := by
      constructor
      · intro h'; exact (mul_pos_iff_of_pos_left hc).mp h'
      · intro h'; exact mul_pos hc h'
    simp only [hpos, isFinite_exact]
    by_cases hw : 0 < w
    · simp only [hw, decide_true, Bool.and_self, if_true]
      cases compile k prev s with
      | error e => rfl
      | ok x =>
        obtain ⟨n, s'⟩ := x
        simp only
        rw [compileOutcomes_rescale ws ks ks' c prev s' hc h.2]
        cases compileOutcomes ws ks prev s' with
        | error e => rfl
        | ok y => rfl
    · simp [hw, Except.map]
theorem compileActions_rescale : ∀ (ks ks' : List (Raw α)) (one : Bool) (i a : Nat) (prev : Prev)
    (s : BState α), RescaledL ks ks' →
    compileActions ks' one i a prev s = compileActions ks one i a prev s
  | [], [], one, i, a, prev, s, h => rfl
  | [], _ :: _, one, i, a, prev, s, h => by simp [RescaledL] at h
  | _ :: _, [], one, i, a, prev, s, h => by simp [RescaledL] at h
  | k :: ks, k' :: ks', one, i, a, prev, s, h => by
    simp only [RescaledL] at h
    simp only [compileActions]
    rw [compile_rescale k k' _ s h.1]
    cases compile k (prev.set one (some (i, a))) s with
    | error e => rfl
    | ok x =>
      obtain ⟨n, s'⟩ := x
      simp only
      rw [compileActions_rescale ks ks' one i (a + 1) prev s' h.2]
end


/-! ## the shape -/

theorem optimalDeviations_sameShape (g g' : Game α) (h : g.SameShape g') (me : Bool) (σo : Strat α) :
    optimalDeviations g me σo = optimalDeviations g' me σo := by
  obtain ⟨hc, hr, h1, h2⟩ := h
  have hi : (g.infos me).map (fun e => e.actions.length) = (g'.infos me).map (fun e => e.actions.length) := by
    cases me <;> simpa [Game.infos]
  have hlen : (g.infos me).length = (g'.infos me).length := by
    simpa using congrArg List.length hi
  have hf : (fun i => ((g.infos me).getD i default).actions.length)
      = (fun i => ((g'.infos me).getD i default).actions.length) := by
    funext i
    have := congrArg (fun l => l.getD i 0) hi
    simp only [List.getD_eq_getElem?_getD, List.getElem?_map] at this ⊢
    cases h1 : (g.infos me)[i]? <;> cases h2 : (g'.infos me)[i]? <;> simp_all
  unfold optimalDeviations
  simp only [hc, hr, hlen, hf]


theorem init_sameShape [Transc α] (g g' : Game α) (h : g.SameShape g') :
    SolveSt.init g = SolveSt.init g' := by
  obtain ⟨-, -, h1, h2⟩ := h
  have a1 := congrArg (List.map (fun n => (InfoSt.new n : InfoSt α))) h1
  have a2 := congrArg (List.map (fun n => (InfoSt.new n : InfoSt α))) h2
  simp only [List.map_map, Function.comp_def] at a1 a2
  simp only [SolveSt.init, a1, a2]


/-! ## padding with degenerate nodes -/

section pad

/-- both fail with the same error, or both succeed with related results -/
def ExRel {β β' : Type} (R : β → β' → Prop) : Except GameError β → Except GameError β' → Prop
  | .ok a, .ok b => R a b
  | .error e, .error e' => e = e'
  | _, _ => False

@[simp] theorem ExRel_ok {β β' : Type} (R : β → β' → Prop) (a : β) (b : β') :
    ExRel R (.ok a) (.ok b) = R a b := rfl
@[simp] theorem ExRel_error {β β' : Type} (R : β → β' → Prop) (e e' : GameError) :
    ExRel R (.error e : Except GameError β) (.error e' : Except GameError β') = (e = e') := rfl
@[simp] theorem ExRel_ok_error {β β' : Type} (R : β → β' → Prop) (a : β) (e' : GameError) :
    ExRel R (.ok a) (.error e' : Except GameError β') = False := rfl
@[simp] theorem ExRel_error_ok {β β' : Type} (R : β → β' → Prop) (e : GameError) (b : β') :
    ExRel R (.error e : Except GameError β) (.ok b) = False := rfl

/-- `s'` is the builder state of the padded tree, `s` that of the original -/
structure PadRel (fresh : Bool → Nat → Bool) (act : Bool → Nat → Nat) (s s' : BState α) : Prop where
  chance : s'.chance = s.chance
  infos : ∀ one, s'.infos one = s.infos one
  infosNF : ∀ one, ∀ e ∈ s.infos one, fresh one e.label = false
  sub : ∀ one, ∀ e ∈ s.singles one, e ∈ s'.singles one
  sup : ∀ one, ∀ e ∈ s'.singles one, e ∈ s.singles one ∨ (fresh one e.1 = true ∧ e.2 = act one e.1)
  singNF : ∀ one, ∀ e ∈ s.singles one, fresh one e.1 = false
  find : ∀ one l, fresh one l = false →
    (s'.singles one).find? (fun e => e.1 == l) = (s.singles one).find? (fun e => e.1 == l)

variable {fresh : Bool → Nat → Bool} {act : Bool → Nat → Nat}

theorem PadRel.any {s s' : BState α} (h : PadRel fresh act s s') (one : Bool) (l : Nat)
    (hl : fresh one l = false) :
    (s'.singles one).any (fun e => e.1 == l) = (s.singles one).any (fun e => e.1 == l) := by
  rw [Bool.eq_iff_iff, List.any_eq_true, List.any_eq_true]
  constructor
  · rintro ⟨e, he, hel⟩
    rcases h.sup one e he with h1 | ⟨h1, _⟩
    · exact ⟨e, h1, hel⟩
    · have : e.1 = l := by simpa using hel
      rw [this, hl] at h1; cases h1
  · rintro ⟨e, he, hel⟩
    exact ⟨e, h.sub one e he, hel⟩

theorem PadRel.setChance {s s' : BState α} (h : PadRel fresh act s s')
    (c : List (Option Nat × List α)) :
    PadRel fresh act ({ s with chance := c } : BState α) ({ s' with chance := c } : BState α) where
  chance := rfl
  infos := by simpa using h.infos
  infosNF := by simpa using h.infosNF
  sub := by simpa using h.sub
  sup := by simpa using h.sup
  singNF := by simpa using h.singNF
  find := by simpa using h.find

theorem registerChance_pad (info : Option Nat) (probs : List α) (kids : List (Node α))
    {s s' : BState α} (h : PadRel fresh act s s') :
    ExRel (fun x y => x.1 = y.1 ∧ PadRel fresh act x.2 y.2)
      (registerChance info probs kids s) (registerChance info probs kids s') := by
  unfold registerChance
  rw [h.chance]
  split
  · simp
  · split
    · simp [h]
    · split
      · split_ifs <;> simp [h]
      · simp only [ExRel_ok, true_and]
        rw [← h.chance]; exact h.setChance _
  · dsimp only
    split
    · simp only [ExRel_ok, true_and]
      rw [← h.chance]; exact h.setChance _
    · split
      · split_ifs <;> simp [h]
      · simp only [ExRel_ok, true_and]
        rw [← h.chance]; exact h.setChance _

theorem registerSingle_pad (one : Bool) (info a : Nat) (hl : fresh one info = false)
    {s s' : BState α} (h : PadRel fresh act s s') :
    ExRel (PadRel fresh act) (registerSingle one info a s) (registerSingle one info a s') := by
  unfold registerSingle
  rw [h.infos, h.find one info hl]
  split_ifs
  · simp
  · cases hf : (s.singles one).find? (fun e => e.1 == info) with
    | some e =>
      simp only
      split_ifs <;> simp [h]
    | none =>
      simp only [ExRel_ok]
      refine ⟨by simpa using h.chance, by simpa using h.infos, by simpa using h.infosNF,
        ?_, ?_, ?_, ?_⟩
      · intro me e he
        by_cases hm : one = me
        · subst hm
          simp only [BState.singles_setSingles, if_true, List.mem_append, List.mem_singleton] at he ⊢
          exact he.imp (h.sub one e) id
        · simp only [BState.singles_setSingles, hm, if_false] at he ⊢
          exact h.sub me e he
      · intro me e he
        by_cases hm : one = me
        · subst hm
          simp only [BState.singles_setSingles, if_true, List.mem_append, List.mem_singleton] at he ⊢
          rcases he with he | he
          · rcases h.sup one e he with h1 | h1
            · exact Or.inl (Or.inl h1)
            · exact Or.inr h1
          · exact Or.inl (Or.inr he)
        · simp only [BState.singles_setSingles, hm, if_false] at he ⊢
          exact h.sup me e he
      · intro me e he
        by_cases hm : one = me
        · subst hm
          simp only [BState.singles_setSingles, if_true, List.mem_append, List.mem_singleton] at he
          rcases he with he | he
          · exact h.singNF one e he
          · subst he; exact hl
        · simp only [BState.singles_setSingles, hm, if_false] at he
          exact h.singNF me e he
      · intro me l hl'
        by_cases hm : one = me
        · subst hm
          simp only [BState.singles_setSingles, if_true, List.find?_append, h.find one l hl']
        · simp only [BState.singles_setSingles, hm, if_false]
          exact h.find me l hl'

theorem registerSingle_fresh (one : Bool) (l : Nat) (hl : fresh one l = true)
    {s s' : BState α} (h : PadRel fresh act s s') :
    ∃ t', registerSingle one l (act one l) s' = .ok t' ∧ PadRel fresh act s t' := by
  unfold registerSingle
  have hany : (s'.infos one).any (fun e => e.label == l) = false := by
    rw [h.infos, List.any_eq_false]
    intro e he hel
    have : e.label = l := by simpa using hel
    have := h.infosNF one e he
    simp_all
  rw [hany]
  simp only [Bool.false_eq_true, if_false]
  cases hf : (s'.singles one).find? (fun e => e.1 == l) with
  | some e =>
    have he1 : e.1 = l := by simpa using List.find?_some hf
    have hem := List.mem_of_find?_eq_some hf
    have : e.2 = act one l := by
      rcases h.sup one e hem with h1 | ⟨_, h2⟩
      · have := h.singNF one e h1
        rw [he1, hl] at this; cases this
      · rw [h2, he1]
    simp only [this, bne_self_eq_false, Bool.false_eq_true, if_false]
    exact ⟨s', rfl, h⟩
  | none =>
    refine ⟨_, rfl, by simpa using h.chance, by simpa using h.infos, h.infosNF, ?_, ?_, h.singNF, ?_⟩
    · intro me e he
      by_cases hm : one = me
      · subst hm
        simp only [BState.singles_setSingles, if_true, List.mem_append, List.mem_singleton]
        exact Or.inl (h.sub one e he)
      · simp only [BState.singles_setSingles, hm, if_false]
        exact h.sub me e he
    · intro me e he
      by_cases hm : one = me
      · subst hm
        simp only [BState.singles_setSingles, if_true, List.mem_append, List.mem_singleton] at he
        rcases he with he | he
        · exact h.sup one e he
        · subst he; exact Or.inr ⟨hl, rfl⟩
      · simp only [BState.singles_setSingles, hm, if_false] at he
        exact h.sup me e he
    · intro me l' hl'
      by_cases hm : one = me
      · subst hm
        have hne : (l == l') = false := by
          rw [beq_eq_false_iff_ne]; intro e; rw [e, hl'] at hl; cases hl
        simp only [BState.singles_setSingles, if_true, List.find?_append, h.find one l' hl',
          List.find?_cons, hne, List.find?_nil, Option.or_none]
      · simp only [BState.singles_setSingles, hm, if_false]
        exact h.find me l' hl'

theorem registerPlayer_pad (one : Bool) (info : Nat) (acts : List Nat) (prev : Prev)
    (hl : fresh one info = false) {s s' : BState α} (h : PadRel fresh act s s') :
    ExRel (fun x y => x.1 = y.1 ∧ PadRel fresh act x.2 y.2)
      (registerPlayer one info acts prev s) (registerPlayer one info acts prev s') := by
  unfold registerPlayer
  rw [h.infos, h.any one info hl]
  split
  · split
    · split_ifs <;> simp [h]
    · simp
  · split_ifs
    · simp
    · simp only [ExRel_ok, true_and]
      refine ⟨by simpa using h.chance, ?_, ?_, by simpa using h.sub, by simpa using h.sup,
        by simpa using h.singNF, by simpa using h.find⟩
      · intro me
        by_cases hm : one = me
        · subst hm; simp
        · simp [hm, h.infos]
      · intro me e he
        by_cases hm : one = me
        · subst hm
          simp only [BState.infos_setInfos, if_true, List.mem_append, List.mem_singleton] at he
          rcases he with he | he
          · exact h.infosNF one e he
          · subst he; exact hl
        · simp only [BState.infos_setInfos, hm, if_false] at he
          exact h.infosNF me e he
    · simp


theorem compile_padChance (k' : Raw α) (w : α) (hw : 0 < w) (prev : Prev) (s : BState α) :
    compile (.chance none [w] [k']) prev s = compile k' prev s := by
  simp only [compile, compileOutcomes, hw, isFinite_exact, decide_true, Bool.and_self, if_true]
  cases compile k' prev s with
  | error e => rfl
  | ok x => rfl

abbrev NodeRel (fresh : Bool → Nat → Bool) (act : Bool → Nat → Nat) :
    Node α × BState α → Node α × BState α → Prop :=
  fun x y => x.1 = y.1 ∧ PadRel fresh act x.2 y.2
abbrev OutRel (fresh : Bool → Nat → Bool) (act : Bool → Nat → Nat) :
    List α × List (Node α) × BState α → List α × List (Node α) × BState α → Prop :=
  fun x y => x.1 = y.1 ∧ x.2.1 = y.2.1 ∧ PadRel fresh act x.2.2 y.2.2
abbrev ActRel (fresh : Bool → Nat → Bool) (act : Bool → Nat → Nat) :
    List (Node α) × BState α → List (Node α) × BState α → Prop :=
  fun x y => x.1 = y.1 ∧ PadRel fresh act x.2 y.2

/-- the statement for one pair of trees -/
def PadOK (fresh : Bool → Nat → Bool) (act : Bool → Nat → Nat) (r r' : Raw α) : Prop :=
  r.AvoidsFresh fresh → ∀ (prev : Prev) (s s' : BState α), PadRel fresh act s s' →
    ExRel (NodeRel fresh act) (compile r prev s) (compile r' prev s')

inductive AllRel (P : Raw α → Raw α → Prop) : List (Raw α) → List (Raw α) → Prop
  | nil : AllRel P [] []
  | cons (k k' : Raw α) (ks ks' : List (Raw α)) : P k k' → AllRel P ks ks' →
      AllRel P (k :: ks) (k' :: ks')

theorem compileOutcomes_pad {ks ks' : List (Raw α)} (h : AllRel (PadOK fresh act) ks ks') :
    Raw.AvoidsFreshL fresh ks → ∀ (ws : List α) (prev : Prev) (s s' : BState α),
    PadRel fresh act s s' →
    ExRel (OutRel fresh act) (compileOutcomes ws ks prev s) (compileOutcomes ws ks' prev s') := by
  induction h with
  | nil =>
    intro _ ws prev s s' hrel
    cases ws <;> simp [compileOutcomes, OutRel, hrel]
  | cons k k' ks ks' hk hks ih =>
    intro hav ws prev s s' hrel
    simp only [Raw.AvoidsFreshL] at hav
    cases ws with
    | nil => simp [compileOutcomes, OutRel, hrel]
    | cons w ws =>
      simp only [compileOutcomes]
      split_ifs
      · have h1 := hk hav.1 prev s s' hrel
        cases hc : compile k prev s with
        | error e =>
          cases hc' : compile k' prev s' with
          | error e' => simpa [hc, hc'] using h1
          | ok y => simp [hc, hc'] at h1
        | ok x =>
          cases hc' : compile k' prev s' with
          | error e' => simp [hc, hc'] at h1
          | ok y =>
            obtain ⟨n, t⟩ := x
            obtain ⟨n', t'⟩ := y
            simp only [hc, hc', ExRel_ok] at h1
            obtain ⟨rfl, ht⟩ := h1
            have h2 := ih hav.2 ws prev t t' ht
            simp only
            cases hd : compileOutcomes ws ks prev t with
            | error e =>
              cases hd' : compileOutcomes ws ks' prev t' with
              | error e' => simpa [hd, hd'] using h2
              | ok y => simp [hd, hd'] at h2
            | ok x =>
              cases hd' : compileOutcomes ws ks' prev t' with
              | error e' => simp [hd, hd'] at h2
              | ok y =>
                simp only [hd, hd', ExRel_ok] at h2
                exact ⟨by rw [h2.1], by rw [h2.2.1], h2.2.2⟩
      · simp

theorem compileActions_pad {ks ks' : List (Raw α)} (h : AllRel (PadOK fresh act) ks ks') :
    Raw.AvoidsFreshL fresh ks → ∀ (one : Bool) (i a : Nat) (prev : Prev) (s s' : BState α),
    PadRel fresh act s s' →
    ExRel (ActRel fresh act) (compileActions ks one i a prev s)
      (compileActions ks' one i a prev s') := by
  induction h with
  | nil =>
    intro _ one i a prev s s' hrel
    simp [compileActions, ActRel, hrel]
  | cons k k' ks ks' hk hks ih =>
    intro hav one i a prev s s' hrel
    simp only [Raw.AvoidsFreshL] at hav
    simp only [compileActions]
    have h1 := hk hav.1 (prev.set one (some (i, a))) s s' hrel
    cases hc : compile k (prev.set one (some (i, a))) s with
    | error e =>
      cases hc' : compile k' (prev.set one (some (i, a))) s' with
      | error e' => simpa [hc, hc'] using h1
      | ok y => simp [hc, hc'] at h1
    | ok x =>
      cases hc' : compile k' (prev.set one (some (i, a))) s' with
      | error e' => simp [hc, hc'] at h1
      | ok y =>
        obtain ⟨n, t⟩ := x
        obtain ⟨n', t'⟩ := y
        simp only [hc, hc', ExRel_ok] at h1
        obtain ⟨rfl, ht⟩ := h1
        have h2 := ih hav.2 one i (a + 1) prev t t' ht
        simp only
        cases hd : compileActions ks one i (a + 1) prev t with
        | error e =>
          cases hd' : compileActions ks' one i (a + 1) prev t' with
          | error e' => simpa [hd, hd'] using h2
          | ok y => simp [hd, hd'] at h2
        | ok x =>
          cases hd' : compileActions ks' one i (a + 1) prev t' with
          | error e' => simp [hd, hd'] at h2
          | ok y =>
            simp only [hd, hd', ExRel_ok] at h2
            exact ⟨by rw [h2.1], h2.2⟩

theorem padOK_chance (i : Option Nat) (ws : List α) {ks ks' : List (Raw α)}
    (hl : AllRel (PadOK fresh act) ks ks') : PadOK fresh act (.chance i ws ks) (.chance i ws ks') := by
  intro hav prev s s' hrel
  simp only [Raw.AvoidsFresh] at hav
  simp only [compile]
  have h1 := compileOutcomes_pad hl hav ws prev s s' hrel
  cases hc : compileOutcomes ws ks prev s with
  | error e =>
    cases hc' : compileOutcomes ws ks' prev s' with
    | error e' => simpa [hc, hc'] using h1
    | ok y => simp [hc, hc'] at h1
  | ok x =>
    cases hc' : compileOutcomes ws ks' prev s' with
    | error e' => simp [hc, hc'] at h1
    | ok y =>
      obtain ⟨ps, ns, t⟩ := x
      obtain ⟨ps', ns', t'⟩ := y
      simp only [hc, hc', ExRel_ok] at h1
      obtain ⟨rfl, rfl, ht⟩ := h1
      exact registerChance_pad i ps ns ht

theorem padOK_player (o : Bool) (i : Nat) (as : List Nat) {ks ks' : List (Raw α)}
    (hl : AllRel (PadOK fresh act) ks ks') :
    PadOK fresh act (.player o i as ks) (.player o i as ks') := by
  intro hav prev s s' hrel
  simp only [Raw.AvoidsFresh] at hav
  obtain ⟨hfi, havl⟩ := hav
  match as, ks, ks', hl, havl with
  | [], _, _, _, _ => simp [compile]
  | [a], _, _, .nil, _ => simp [compile]
  | [a], _, _, .cons k k' ks ks' hk hks, havl =>
    simp only [Raw.AvoidsFreshL] at havl
    simp only [compile]
    have h1 := registerSingle_pad (act := act) o i a hfi hrel
    cases hr : registerSingle o i a s with
    | error e =>
      cases hr' : registerSingle o i a s' with
      | error e' => simpa [hr, hr'] using h1
      | ok y => simp [hr, hr'] at h1
    | ok t =>
      cases hr' : registerSingle o i a s' with
      | error e' => simp [hr, hr'] at h1
      | ok t' =>
        simp only [hr, hr', ExRel_ok] at h1
        exact hk havl.1 prev t t' h1
  | a :: b :: as, _, _, .nil, _ => simp [compile]
  | a :: b :: as, _, _, .cons k k' ks ks' hk hks, havl =>
    simp only [compile]
    have h1 := registerPlayer_pad (act := act) o i (a :: b :: as) prev hfi hrel
    cases hr : registerPlayer o i (a :: b :: as) prev s with
    | error e =>
      cases hr' : registerPlayer o i (a :: b :: as) prev s' with
      | error e' => simpa [hr, hr'] using h1
      | ok y => simp [hr, hr'] at h1
    | ok x =>
      cases hr' : registerPlayer o i (a :: b :: as) prev s' with
      | error e' => simp [hr, hr'] at h1
      | ok y =>
        obtain ⟨j, t⟩ := x
        obtain ⟨j', t'⟩ := y
        simp only [hr, hr', ExRel_ok] at h1
        obtain ⟨rfl, ht⟩ := h1
        have h2 := compileActions_pad (.cons k k' ks ks' hk hks) havl o j 0 prev t t' ht
        simp only
        cases hc : compileActions (k :: ks) o j 0 prev t with
        | error e =>
          cases hc' : compileActions (k' :: ks') o j 0 prev t' with
          | error e' => simpa [hc, hc'] using h2
          | ok y => simp [hc, hc'] at h2
        | ok x =>
          cases hc' : compileActions (k' :: ks') o j 0 prev t' with
          | error e' => simp [hc, hc'] at h2
          | ok y =>
            simp only [hc, hc', ExRel_ok] at h2
            exact ⟨by rw [h2.1], h2.2⟩

theorem compile_pad {r r' : Raw α} (hp : Padded fresh act r r') : PadOK fresh act r r' := by
  refine Padded.rec (motive_1 := fun r r' _ => PadOK fresh act r r')
    (motive_2 := fun ks ks' _ => AllRel (PadOK fresh act) ks ks') ?_ ?_ ?_ ?_ ?_ ?_ ?_ hp
  · intro p hav prev s s' hrel
    simp only [compile]
    split_ifs <;> simp [NodeRel, hrel]
  · intro i ws ks ks' _ hl
    exact padOK_chance i ws hl
  · intro o i as ks ks' _ hl
    exact padOK_player o i as hl
  · intro r k' w hw _ ih hav prev s s' hrel
    rw [compile_padChance k' w hw]
    exact ih hav prev s s' hrel
  · intro r k' o l hl _ ih hav prev s s' hrel
    obtain ⟨t', ht', hrel'⟩ := registerSingle_fresh (act := act) o l hl hrel
    simp only [compile, ht']
    exact ih hav prev s t' hrel'
  · exact .nil
  · intro k k' ks ks' _ _ h1 h2
    exact .cons k k' ks ks' h1 h2


end pad

/-! ## renaming -/

section rename

/-- the builder state under renamed labels -/
def BState.rename (ρ : Renaming) (s : BState α) : BState α :=
  { chance := s.chance.map (fun e => (e.1.map ρ.chance, e.2)),
    p1 := s.p1.map (PInfo.rename ρ true), p2 := s.p2.map (PInfo.rename ρ false),
    s1 := s.s1.map (fun e => (ρ.info true e.1, ρ.act e.2)),
    s2 := s.s2.map (fun e => (ρ.info false e.1, ρ.act e.2)) }

@[simp] theorem BState.rename_infos (ρ : Renaming) (s : BState α) (one : Bool) :
    (s.rename ρ).infos one = (s.infos one).map (PInfo.rename ρ one) := by cases one <;> rfl
@[simp] theorem BState.rename_singles (ρ : Renaming) (s : BState α) (one : Bool) :
    (s.rename ρ).singles one = (s.singles one).map (fun e => (ρ.info one e.1, ρ.act e.2)) := by
  cases one <;> rfl
@[simp] theorem BState.rename_chance (ρ : Renaming) (s : BState α) :
    (s.rename ρ).chance = s.chance.map (fun e => (e.1.map ρ.chance, e.2)) := rfl
theorem BState.rename_setInfos (ρ : Renaming) (s : BState α) (one : Bool) (l : List PInfo) :
    (s.rename ρ).setInfos one (l.map (PInfo.rename ρ one)) = (s.setInfos one l).rename ρ := by
  cases one <;> rfl
theorem BState.rename_setSingles (ρ : Renaming) (s : BState α) (one : Bool) (l : List (Nat × Nat)) :
    (s.rename ρ).setSingles one (l.map (fun e => (ρ.info one e.1, ρ.act e.2)))
      = (s.setSingles one l).rename ρ := by
  cases one <;> rfl

theorem eraseDups_map_inj {f : Nat → Nat} (hf : Function.Injective f) :
    ∀ (n : Nat) (l : List Nat), l.length ≤ n → (l.map f).eraseDups = l.eraseDups.map f
  | _, [], _ => by simp
  | 0, a :: l, h => by simp at h
  | n + 1, a :: l, h => by
    rw [List.map_cons, List.eraseDups_cons, List.eraseDups_cons, List.map_cons, List.filter_map]
    have hp : ((fun b => !b == f a) ∘ f) = (fun b => !b == a) := by
      funext b
      simp only [Function.comp]
      by_cases hb : b = a
      · subst hb; simp
      · have : f b ≠ f a := fun e => hb (hf e)
        simp [hb, this]
    rw [hp, eraseDups_map_inj hf n]
    have := List.length_filter_le (fun b => !b == a) l
    simp only [List.length_cons] at h
    omega

theorem inj_beq {β γ : Type} [BEq β] [LawfulBEq β] [BEq γ] [LawfulBEq γ] {f : β → γ}
    (hf : Function.Injective f) (a b : β) : (f a == f b) = (a == b) := by
  by_cases h : a = b
  · subst h; simp
  · have : f a ≠ f b := fun e => h (hf e)
    simp [h, this]

variable (ρ : Renaming) (hρ : ρ.Injective)
include hρ

theorem registerChance_rename (info : Option Nat) (probs : List α) (kids : List (Node α))
    (s : BState α) :
    registerChance (info.map ρ.chance) probs kids (s.rename ρ)
      = (registerChance info probs kids s).map (fun x => (x.1, x.2.rename ρ)) := by
  have hinj := hρ.2.2
  have hfun : ∀ l : Nat, ((fun e : Option Nat × List α => e.1 == some (ρ.chance l)) ∘
      (fun e : Option Nat × List α => (e.1.map ρ.chance, e.2)))
      = (fun e : Option Nat × List α => e.1 == some l) := by
    intro l
    funext e
    simp only [Function.comp]
    cases h : e.1 with
    | none => simp
    | some x =>
      by_cases hx : x = l
      · subst hx; simp
      · have : ρ.chance x ≠ ρ.chance l := fun e => hx (hinj e)
        simp [hx, this]
  unfold registerChance
  match kids, info with
  | [], _ => rfl
  | [k], none => rfl
  | [k], some l =>
    simp only [Option.map_some, BState.rename_chance, List.find?_map, hfun]
    cases hf : s.chance.find? (fun e => e.1 == some l) with
    | none => simp [Except.map, BState.rename]
    | some e =>
      simp only [Option.map_some]
      split_ifs <;> rfl
  | _ :: _ :: _, none =>
    simp [Except.map, BState.rename]
  | _ :: _ :: _, some l =>
    simp only [Option.map_some, BState.rename_chance, List.findIdx?_map, hfun, List.length_map,
      List.getElem?_map, Option.map_map]
    cases hf : s.chance.findIdx? (fun e => e.1 == some l) with
    | none => simp [Except.map, BState.rename]
    | some i =>
      simp only [Function.comp_def]
      split_ifs <;> rfl


theorem info_beq (one : Bool) (a b : Nat) : (ρ.info one a == ρ.info one b) = (a == b) := by
  by_cases h : a = b
  · subst h; simp
  · have : ρ.info one a ≠ ρ.info one b := fun e => h (hρ.1 one e)
    simp [h, this]

theorem registerSingle_rename (one : Bool) (info a : Nat) (s : BState α) :
    registerSingle one (ρ.info one info) (ρ.act a) (s.rename ρ)
      = (registerSingle one info a s).map (BState.rename ρ) := by
  have h1 : ((fun e : PInfo => e.label == ρ.info one info) ∘ PInfo.rename ρ one)
      = (fun e : PInfo => e.label == info) := by
    funext e; simp only [Function.comp, PInfo.rename]; exact info_beq ρ hρ one _ _
  have h2 : ((fun e : Nat × Nat => e.1 == ρ.info one info) ∘
      (fun e : Nat × Nat => (ρ.info one e.1, ρ.act e.2))) = (fun e : Nat × Nat => e.1 == info) := by
    funext e; simp only [Function.comp]; exact info_beq ρ hρ one _ _
  unfold registerSingle
  simp only [BState.rename_infos, BState.rename_singles, List.any_map, List.find?_map, h1, h2]
  by_cases hany : (s.infos one).any (fun e => e.label == info) = true
  · simp [hany, Except.map]
  · simp only [hany, if_false, Bool.false_eq_true]
    cases hf : (s.singles one).find? (fun e => e.1 == info) with
    | none =>
      simp only [Option.map_none, Except.map]
      rw [← BState.rename_setSingles]
      simp
    | some e =>
      simp only [Option.map_some]
      have : (ρ.act e.2 != ρ.act a) = (e.2 != a) := by
        simp only [bne, inj_beq hρ.2.1]
      rw [this]
      split_ifs <;> rfl

theorem registerPlayer_rename (one : Bool) (info : Nat) (acts : List Nat) (prev : Prev)
    (s : BState α) :
    registerPlayer one (ρ.info one info) (acts.map ρ.act) prev (s.rename ρ)
      = (registerPlayer one info acts prev s).map (fun x => (x.1, x.2.rename ρ)) := by
  have h1 : ((fun e : PInfo => e.label == ρ.info one info) ∘ PInfo.rename ρ one)
      = (fun e : PInfo => e.label == info) := by
    funext e; simp only [Function.comp, PInfo.rename]; exact info_beq ρ hρ one _ _
  have h2 : ((fun e : Nat × Nat => e.1 == ρ.info one info) ∘
      (fun e : Nat × Nat => (ρ.info one e.1, ρ.act e.2))) = (fun e : Nat × Nat => e.1 == info) := by
    funext e; simp only [Function.comp]; exact info_beq ρ hρ one _ _
  have hmi : Function.Injective (List.map ρ.act) := List.map_injective_iff.mpr hρ.2.1
  unfold registerPlayer
  simp only [BState.rename_infos, BState.rename_singles, List.any_map, List.findIdx?_map, h1, h2,
    List.getElem?_map, List.length_map]
  cases hf : (s.infos one).findIdx? (fun e => e.label == info) with
  | some i =>
    simp only
    cases he : (s.infos one)[i]? with
    | none => rfl
    | some e =>
      simp only [Option.map_some]
      have : ((PInfo.rename ρ one e).actions != acts.map ρ.act) = (e.actions != acts) := by
        simp only [PInfo.rename, bne, inj_beq hmi]
      rw [this]
      have : (PInfo.rename ρ one e).prev = e.prev := rfl
      rw [this]
      split_ifs <;> rfl
  | none =>
    rw [eraseDups_map_inj hρ.2.1 acts.length acts (Nat.le_refl _), List.length_map]
    by_cases hany : (s.singles one).any (fun e => e.1 == info) = true
    · simp [hany, Except.map]
    · simp only [hany, if_false, Bool.false_eq_true]
      split_ifs
      · simp only [Except.map]
        rw [← BState.rename_setInfos]
        simp [PInfo.rename]
      · rfl


mutual
theorem compile_rename : ∀ (r : Raw α) (prev : Prev) (s : BState α),
    compile (r.rename ρ) prev (s.rename ρ)
      = (compile r prev s).map (fun x => (x.1, x.2.rename ρ))
  | .term p, prev, s => by
    simp only [Raw.rename, compile, isFinite_exact, if_true]; rfl
  | .chance i ws ks, prev, s => by
    simp only [Raw.rename, compile]
    rw [compileOutcomes_rename ws ks prev s]
    cases compileOutcomes ws ks prev s with
    | error e => rfl
    | ok x =>
      obtain ⟨ps, ns, s'⟩ := x
      simp only [Except.map]
      exact registerChance_rename ρ hρ i ps ns s'
  | .player o i [] ks, prev, s => by
    simp only [Raw.rename, List.map_nil, compile]; rfl
  | .player o i (a :: as) [], prev, s => by
    simp only [Raw.rename, Raw.renameL, List.map_cons, compile]; rfl
  | .player o i [a] (k :: ks), prev, s => by
    simp only [Raw.rename, Raw.renameL, List.map_cons, List.map_nil, compile]
    rw [registerSingle_rename ρ hρ]
    cases registerSingle o i a s with
    | error e => rfl
    | ok s' =>
      simp only [Except.map]
      exact compile_rename k prev s'
  | .player o i (a :: b :: as) (k :: ks), prev, s => by
    have hk : Raw.rename ρ k :: Raw.renameL ρ ks = Raw.renameL ρ (k :: ks) := by
      simp only [Raw.renameL]
    simp only [Raw.rename, Raw.renameL, List.map_cons, compile]
    have := registerPlayer_rename ρ hρ o i (a :: b :: as) prev s
    simp only [List.map_cons] at this
    rw [this, hk]
    cases registerPlayer o i (a :: b :: as) prev s with
    | error e => rfl
    | ok x =>
      obtain ⟨j, s'⟩ := x
      simp only [Except.map]
      rw [compileActions_rename (k :: ks) o j 0 prev s']
      cases compileActions (k :: ks) o j 0 prev s' with
      | error e => rfl
      | ok y => rfl
theorem compileOutcomes_rename : ∀ (ws : List α) (ks : List (Raw α)) (prev : Prev) (s : BState α),
    compileOutcomes ws (Raw.renameL ρ ks) prev (s.rename ρ)
      = (compileOutcomes ws ks prev s).map (fun x => (x.1, x.2.1, x.2.2.rename ρ))
  | [], ks, prev, s => by
    simp [compileOutcomes, Except.map]
  | w :: ws, [], prev, s => by
    simp [Raw.renameL, compileOutcomes, Except.map]
  | w :: ws, k :: ks, prev, s => by
    simp only [Raw.renameL, compileOutcomes]
    rw [compile_rename k prev s]
    split_ifs
    · cases compile k prev s with
      | error e => rfl
      | ok x =>
        obtain ⟨n, s'⟩ := x
        simp only [Except.map]
        rw [compileOutcomes_rename ws ks prev s']
        cases compileOutcomes ws ks prev s' with
        | error e => rfl
        | ok y => rfl
    · rfl
theorem compileActions_rename : ∀ (ks : List (Raw α)) (one : Bool) (i a : Nat) (prev : Prev)
    (s : BState α),
    compileActions (Raw.renameL ρ ks) one i a prev (s.rename ρ)
      = (compileActions ks one i a prev s).map (fun x => (x.1, x.2.rename ρ))
  | [], one, i, a, prev, s => rfl
  | k :: ks, one, i, a, prev, s => by
    simp only [Raw.renameL, compileActions]
    rw [compile_rename k _ s]
    cases compile k (prev.set one (some (i, a))) s with
    | error e => rfl
    | ok x =>
      obtain ⟨n, s'⟩ := x
      simp only [Except.map]
      rw [compileActions_rename ks one i (a + 1) prev s']
      cases compileActions ks one i (a + 1) prev s' with
      | error e => rfl
      | ok y => rfl
end


end rename

end Cfr
