import CfrVerif.Proofs.Frontier
import CfrVerif.Proofs.FrontierExt
/-!
# The frontier loops terminate by their own exit condition

`thread_threshold` in `vanilla.rs` and `external.rs` is a `while` loop, and `next_nodes` in
`external.rs` follows a path downwards; in the model they are recursions on a fuel argument
(`vThreshold`, `eThreshold`, `eNextNodes`).  A model that stopped *because the fuel ran out* would
hide a loop that never ends.  These theorems show that it never does: with the fuel the solvers
pass (`2 * size + 2` turns, depth `size`), giving the loops any amount of additional fuel changes
nothing — they have already left through their exit condition (frontier large enough, or both
vectors empty), for every game tree, target, strategy table and draw oracle.
-/
set_option linter.unusedSectionVars false
namespace Cfr
variable {α : Type} [Field α] [LinearOrder α] [IsStrictOrderedRing α] [Transc α]

namespace Fuel

/-! ## sizes -/

theorem size_pos : ∀ n : Node α, 0 < n.size
  | .term _ => by simp only [Node.size]; omega
  | .chance _ _ => by simp only [Node.size]; omega
  | .player _ _ _ => by simp only [Node.size]; omega

/-- a child is not larger than the list of children -/
theorem getElem?_size : ∀ (ks : List (Node α)) (k : Nat) (n : Node α),
    ks[k]? = some n → n.size ≤ Node.sizeL ks
  | [], k, n, h => by simp at h
  | x :: ks, 0, n, h => by
    simp at h; subst h; simp only [Node.sizeL]; omega
  | x :: ks, k + 1, n, h => by
    simp at h; have := getElem?_size ks k n h; simp only [Node.sizeL]; omega

theorem mem_sizeL : ∀ (ks : List (Node α)) (k : Node α), k ∈ ks → k.size ≤ Node.sizeL ks
  | [], k, h => by simp at h
  | x :: ks, k, h => by
    simp only [Node.sizeL]
    rcases List.mem_cons.1 h with rfl | h
    · omega
    · have := mem_sizeL ks k h; omega

/-- total size of the nodes of a list of items -/
def tot {β : Type} (f : β → Node α) (l : List β) : Nat := (l.map (fun x => (f x).size)).sum

theorem tot_nil {β : Type} (f : β → Node α) : tot f [] = 0 := rfl
theorem tot_cons {β : Type} (f : β → Node α) (x : β) (l : List β) :
    tot f (x :: l) = (f x).size + tot f l := by simp [tot]
theorem tot_append {β : Type} (f : β → Node α) (a b : List β) :
    tot f (a ++ b) = tot f a + tot f b := by simp [tot]

/-- the potential of a loop state: twice the total size, plus one when a swap is due -/
def mu {β : Type} (f : β → Node α) (queue work : List β) : Nat :=
  2 * (tot f queue + tot f work) + (if queue.isEmpty then 1 else 0)

/-- a swap (only taken when `queue` is empty and `work` is not) lowers the potential -/
theorem mu_swap {β : Type} (f : β → Node α) (queue work : List β)
    (hq : queue.getLast? = none) (hne : (!(queue.isEmpty && work.isEmpty)) = true) :
    mu f work queue < mu f queue work := by
  have hq' : queue = [] := by simpa using hq
  subst hq'
  cases work with
  | nil => simp at hne
  | cons x w => simp [mu, tot_nil]

/-- popping the last item of `queue` and pushing items of smaller total size lowers the potential -/
theorem mu_pop {β : Type} (f : β → Node α) (queue work new : List β) (it : β)
    (hq : queue.getLast? = some it) (hnew : tot f new < (f it).size) :
    mu f queue.dropLast (work ++ new) < mu f queue work := by
  have hq' : queue.dropLast ++ [it] = queue := List.dropLast_append_getLast? it (by simp [hq])
  have h1 : tot f queue = tot f queue.dropLast + (f it).size := by
    conv_lhs => rw [← hq']
    rw [tot_append, tot_cons, tot_nil, Nat.add_zero]
  have h2 : queue.isEmpty = false := by
    cases queue with
    | nil => simp at hq
    | cons x w => rfl
  simp only [mu, h1, h2, tot_append]
  split <;> simp <;> omega

/-- popping the last item and pushing nothing -/
theorem mu_pop0 {β : Type} (f : β → Node α) (queue work : List β) (it : β)
    (hq : queue.getLast? = some it) :
    mu f queue.dropLast work < mu f queue work := by
  have := mu_pop f queue work [] it hq (by rw [tot_nil]; exact size_pos _)
  simpa using this

/-! ## vanilla -/

theorem childItems_tot (one : Bool) (path : Path) (pc p1 p2 : α) :
    ∀ (σ : List α) (ks : List (Node α)) (a : Nat),
      tot VItem.node (childItems one path pc p1 p2 σ ks a) ≤ Node.sizeL ks
  | [], _, _ => by simp [childItems, tot_nil]
  | _ :: _, [], _ => by simp [childItems, tot_nil]
  | s :: σ, k :: ks, a => by
    have := childItems_tot one path pc p1 p2 σ ks (a + 1)
    simp only [childItems, tot_cons, Node.sizeL]
    cases one <;> simp <;> omega

theorem chanceItems_tot (path : Path) (pc p1 p2 : α) :
    ∀ (ps : List α) (ks : List (Node α)) (a : Nat),
      tot VItem.node (chanceItems path pc p1 p2 ps ks a) ≤ Node.sizeL ks
  | [], _, _ => by simp [chanceItems, tot_nil]
  | _ :: _, [], _ => by simp [chanceItems, tot_nil]
  | p :: ps, k :: ks, a => by
    have := chanceItems_tot path pc p1 p2 ps ks (a + 1)
    simp only [chanceItems, tot_cons, Node.sizeL]
    omega

/-- once the fuel exceeds the potential, more fuel changes nothing -/
theorem vThreshold_extra (c : VCtx α) (target extra : Nat) :
    ∀ (fuel : Nat) (queue work : List (VItem α)) (d : DrawSt α),
      mu VItem.node queue work < fuel →
      vThreshold c target (fuel + extra) queue work d = vThreshold c target fuel queue work d
  | 0, _, _, _, h => by omega
  | fuel + 1, queue, work, d, h => by
    rw [show fuel + 1 + extra = (fuel + extra) + 1 by omega]
    simp only [vThreshold]
    split
    next hc =>
      have hc1 : (!(queue.isEmpty && work.isEmpty)) = true := by
        simp only [Bool.and_eq_true] at hc; exact hc.1
      rcases hq : queue.getLast? with _ | it
      · dsimp only
        exact vThreshold_extra c target extra fuel work queue d
          (by have := mu_swap VItem.node queue work hq hc1; omega)
      · dsimp only
        have h0 := mu_pop0 VItem.node queue work it hq
        rcases hn : it.node with p | ⟨i, ks⟩ | ⟨one, i, ks⟩
        · dsimp only
          exact vThreshold_extra c target extra fuel _ _ d (by omega)
        · dsimp only
          split
          · rcases hs : sampleChance c.draw c.pass (c.ch.getD i []) i d with ⟨k, d'⟩
            dsimp only
            rcases hk : ks[k]? with _ | n
            · dsimp only
              exact vThreshold_extra c target extra fuel _ _ d' (by omega)
            · dsimp only
              refine vThreshold_extra c target extra fuel _ _ d' ?_
              have := mu_pop VItem.node queue work
                [⟨it.path ++ [k], n, it.pc * 1, it.p1, it.p2⟩] it hq (by
                  have := getElem?_size ks k n hk
                  rw [tot_cons, tot_nil, hn]; simp only [Node.size]; omega)
              omega
          · refine vThreshold_extra c target extra fuel _ _ d ?_
            have := mu_pop VItem.node queue work
              (chanceItems it.path it.pc it.p1 it.p2 (c.ch.getD i []) ks 0) it hq (by
                have := chanceItems_tot it.path it.pc it.p1 it.p2 (c.ch.getD i []) ks 0
                rw [hn]; simp only [Node.size]; omega)
            omega
        · dsimp only
          refine vThreshold_extra c target extra fuel _ _ d ?_
          have := mu_pop VItem.node queue work
            (childItems one it.path it.pc it.p1 it.p2 (c.strat one i) ks 0) it hq (by
              have := childItems_tot one it.path it.pc it.p1 it.p2 (c.strat one i) ks 0
              rw [hn]; simp only [Node.size]; omega)
          omega
    next => rfl

/-! ## external sampling -/

theorem eChildren_tot (path : Path) : ∀ (ks : List (Node α)) (a : Nat),
    tot EItem.node (eChildren path ks a) = Node.sizeL ks
  | [], _ => by simp [eChildren, tot_nil, Node.sizeL]
  | k :: ks, a => by
    have := eChildren_tot path ks (a + 1)
    simp only [eChildren, tot_cons, Node.sizeL]
    omega

/-- any two depths not smaller than the size of the node give the same result -/
theorem eNextNodes_indep (c : ECtx α) : ∀ (f1 f2 : Nat) (n : Node α) (path : Path) (d : DrawSt α),
    n.size ≤ f1 → n.size ≤ f2 → eNextNodes c f1 n path d = eNextNodes c f2 n path d
  | 0, _, n, _, _, h1, _ => by have := size_pos n; omega
  | _ + 1, 0, n, _, _, _, h2 => by have := size_pos n; omega
  | f1 + 1, f2 + 1, n, path, d, h1, h2 => by
    cases n with
    | term p => simp only [eNextNodes]
    | chance i ks =>
      simp only [eNextNodes]
      rcases hs : sampleChance c.draw c.chancePass (c.ch.getD i []) i d with ⟨k, d'⟩
      dsimp only
      rcases hk : ks[k]? with _ | n'
      · rfl
      · dsimp only
        have := getElem?_size ks k n' hk
        simp only [Node.size] at h1 h2
        exact eNextNodes_indep c f1 f2 n' _ d' (by omega) (by omega)
    | player one i ks =>
      simp only [eNextNodes]
      split
      · rfl
      · rcases hs : samplePlayer c.draw (if one then 1 else 2) c.playerPass (c.strat one i) i d
          with ⟨k, d'⟩
        dsimp only
        rcases hk : ks[k]? with _ | n'
        · rfl
        · dsimp only
          have := getElem?_size ks k n' hk
          simp only [Node.size] at h1 h2
          exact eNextNodes_indep c f1 f2 n' _ d' (by omega) (by omega)

/-- the items `next_nodes` returns are the children of a descendant: smaller in total -/
theorem eNextNodes_tot (c : ECtx α) : ∀ (f : Nat) (n : Node α) (path : Path) (d : DrawSt α)
    (items : List (EItem α)) (d' : DrawSt α),
    eNextNodes c f n path d = (some items, d') → tot EItem.node items < n.size
  | 0, _, _, _, _, _, h => by simp [eNextNodes] at h
  | f + 1, n, path, d, items, d', h => by
    cases n with
    | term p => simp [eNextNodes] at h
    | chance i ks =>
      simp only [eNextNodes] at h
      rcases hs : sampleChance c.draw c.chancePass (c.ch.getD i []) i d with ⟨k, d1⟩
      rw [hs] at h
      dsimp only at h
      rcases hk : ks[k]? with _ | n'
      · rw [hk] at h; simp at h
      · rw [hk] at h
        dsimp only at h
        have h1 := eNextNodes_tot c f n' _ d1 items d' h
        have h2 := getElem?_size ks k n' hk
        simp only [Node.size]; omega
    | player one i ks =>
      simp only [eNextNodes] at h
      split at h
      · simp only [Prod.mk.injEq, Option.some.injEq] at h
        rw [← h.1, eChildren_tot]; simp only [Node.size]; omega
      · rcases hs : samplePlayer c.draw (if one then 1 else 2) c.playerPass (c.strat one i) i d
          with ⟨k, d1⟩
        rw [hs] at h
        dsimp only at h
        rcases hk : ks[k]? with _ | n'
        · rw [hk] at h; simp at h
        · rw [hk] at h
          dsimp only at h
          have h1 := eNextNodes_tot c f n' _ d1 items d' h
          have h2 := getElem?_size ks k n' hk
          simp only [Node.size]; omega

/-- once the fuel exceeds the potential, more fuel changes nothing -/
theorem eThreshold_extra (c : ECtx α) (target depth extra : Nat) :
    ∀ (fuel : Nat) (queue work : List (EItem α)) (d : DrawSt α),
      mu EItem.node queue work < fuel →
      eThreshold c target depth (fuel + extra) queue work d
        = eThreshold c target depth fuel queue work d
  | 0, _, _, _, h => by omega
  | fuel + 1, queue, work, d, h => by
    rw [show fuel + 1 + extra = (fuel + extra) + 1 by omega]
    simp only [eThreshold]
    split
    next hc =>
      have hc1 : (!(queue.isEmpty && work.isEmpty)) = true := by
        simp only [Bool.and_eq_true] at hc; exact hc.1
      rcases hq : queue.getLast? with _ | it
      · dsimp only
        exact eThreshold_extra c target depth extra fuel work queue d
          (by have := mu_swap EItem.node queue work hq hc1; omega)
      · dsimp only
        rcases he : eNextNodes c depth it.node it.path d with ⟨_ | nexts, d'⟩
        · dsimp only
          have h0 := mu_pop0 EItem.node queue work it hq
          exact eThreshold_extra c target depth extra fuel _ _ d' (by omega)
        · dsimp only
          have h0 := mu_pop EItem.node queue work nexts it hq
            (eNextNodes_tot c depth it.node it.path d nexts d' he)
          exact eThreshold_extra c target depth extra fuel _ _ d' (by omega)
    next => rfl

end Fuel

/-- the frontier loop of the vanilla solvers -/
theorem vThreshold_fuel_enough (g : Game α) (c : VCtx α) (target extra : Nat) (d : DrawSt α) :
    vThreshold c target (2 * g.root.size + 2 + extra) [⟨[], g.root, 1, 1, 1⟩] [] d
      = vThreshold c target (2 * g.root.size + 2) [⟨[], g.root, 1, 1, 1⟩] [] d := by
  apply Fuel.vThreshold_extra
  simp [Fuel.mu, Fuel.tot]

/-- following the sampled path to the updating player's next node -/
theorem eNextNodes_fuel_enough (c : ECtx α) (n : Node α) (path : Path) (extra : Nat) (d : DrawSt α) :
    eNextNodes c (n.size + extra) n path d = eNextNodes c n.size n path d :=
  Fuel.eNextNodes_indep c _ _ n path d (by omega) (by omega)

/-- the frontier loop of the external-sampling solver -/
theorem eThreshold_fuel_enough (g : Game α) (c : ECtx α) (target extra : Nat) (d : DrawSt α) :
    eThreshold c target g.root.size (2 * g.root.size + 2 + extra) [⟨[], g.root⟩] [] d
      = eThreshold c target g.root.size (2 * g.root.size + 2) [⟨[], g.root⟩] [] d := by
  apply Fuel.eThreshold_extra
  simp [Fuel.mu, Fuel.tot]

end Cfr
