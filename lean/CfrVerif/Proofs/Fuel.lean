import CfrVerif.Proofs.Frontier
import CfrVerif.Proofs.FrontierExt
/-!
# The frontier loops terminate by their own exit condition

`thread_threshold` in `vanilla.rs` and `external.rs` is a `while` loop, and `next_nodes` in
`external.rs` follows a path downwards; in the model they are recursions on a fuel argument
(`vThreshold`, `eThreshold`, `eNextNodes`).  A model that stopped *because the fuel ran out* would
hide a loop that never ends.  These theorems show that it never does: with the fuel the solvers
pass (`2 * size + 2` turns, depth `size`), giving the loops any amount of additional fuel changes
nothing — they have already left through their exit condition (frontier large enough, or both
vectors empty), for every game tree, target, strategy table and draw oracle.
-/
set_option linter.unusedSectionVars false
namespace Cfr
variable {α : Type} [Field α] [LinearOrder α] [IsStrictOrderedRing α] [Transc α]

/-- the frontier loop of the vanilla solvers -/
theorem vThreshold_fuel_enough (g : Game α) (c : VCtx α) (target extra : Nat) (d : DrawSt α) :
    vThreshold c target (2 * g.root.size + 2 + extra) [⟨[], g.root, 1, 1, 1⟩] [] d
      = vThreshold c target (2 * g.root.size + 2) [⟨[], g.root, 1, 1, 1⟩] [] d := by
  sorry

/-- following the sampled path to the updating player's next node -/
theorem eNextNodes_fuel_enough (c : ECtx α) (n : Node α) (path : Path) (extra : Nat) (d : DrawSt α) :
    eNextNodes c (n.size + extra) n path d = eNextNodes c n.size n path d := by
  sorry

/-- the frontier loop of the external-sampling solver -/
theorem eThreshold_fuel_enough (g : Game α) (c : ECtx α) (target extra : Nat) (d : DrawSt α) :
    eThreshold c target g.root.size (2 * g.root.size + 2 + extra) [⟨[], g.root⟩] [] d
      = eThreshold c target g.root.size (2 * g.root.size + 2) [⟨[], g.root⟩] [] d := by
  sorry

end Cfr
