import CfrVerif.Proofs.CliInst
import CfrVerif.Proofs.CliGambit
/-!
# `gambit_file_semantics` on concrete files (over `ℚ`, by evaluation)

* `demoFile` (`Proofs/CliInst.lean`: constant-sum `10`, an interior outcome, unsorted actions, an
  outcome given by number only) satisfies every hypothesis of `CliP.gambit_semantics`;
* the two hypotheses collected in `Efg.FileOK` cannot be dropped: a chance node whose
  probabilities add up to zero and a terminal with the null outcome are counterexamples.
-/
set_option linter.unusedSectionVars false
namespace Cfr
namespace CliP

/-! ## deciding equality of raw trees -/

mutual
def rawEqb {α : Type} [DecidableEq α] : Raw α → Raw α → Bool
  | .term a, .term b => decide (a = b)
  | .chance i ws ks, .chance i' ws' ks' => decide (i = i') && decide (ws = ws') && rawEqbL ks ks'
  | .player o l as ks, .player o' l' as' ks' =>
    decide (o = o') && decide (l = l') && decide (as = as') && rawEqbL ks ks'
  | _, _ => false
def rawEqbL {α : Type} [DecidableEq α] : List (Raw α) → List (Raw α) → Bool
  | [], [] => true
  | a :: as, b :: bs => rawEqb a b && rawEqbL as bs
  | _, _ => false
end

mutual
theorem rawEqb_sound {α : Type} [DecidableEq α] : ∀ a b : Raw α, rawEqb a b = true → a = b
  | .term a, .term b, h => by
    simp only [rawEqb, decide_eq_true_eq] at h
    rw [h]
  | .chance i ws ks, .chance i' ws' ks', h => by
    simp only [rawEqb, Bool.and_eq_true, decide_eq_true_eq] at h
    obtain ⟨⟨rfl, rfl⟩, hk⟩ := h
    rw [rawEqbL_sound ks ks' hk]
  | .player o l as ks, .player o' l' as' ks', h => by
    simp only [rawEqb, Bool.and_eq_true, decide_eq_true_eq] at h
    obtain ⟨⟨⟨rfl, rfl⟩, rfl⟩, hk⟩ := h
    rw [rawEqbL_sound ks ks' hk]
  | .term _, .chance _ _ _, h => by simp [rawEqb] at h
  | .term _, .player _ _ _ _, h => by simp [rawEqb] at h
  | .chance _ _ _, .term _, h => by simp [rawEqb] at h
  | .chance _ _ _, .player _ _ _ _, h => by simp [rawEqb] at h
  | .player _ _ _ _, .term _, h => by simp [rawEqb] at h
  | .player _ _ _ _, .chance _ _ _, h => by simp [rawEqb] at h
theorem rawEqbL_sound {α : Type} [DecidableEq α] :
    ∀ a b : List (Raw α), rawEqbL a b = true → a = b
  | [], [], _ => rfl
  | [], _ :: _, h => by simp [rawEqbL] at h
  | _ :: _, [], h => by simp [rawEqbL] at h
  | a :: as, b :: bs, h => by
    simp only [rawEqbL, Bool.and_eq_true] at h
    rw [rawEqb_sound a b h.1, rawEqbL_sound as bs h.2]
end

/-- the answer of `gambitRaw`, compared by evaluation -/
def gambitRawIs (numName : Nat → Nat) (f : EfgFile ℚ) (raw : Raw ℚ) (sum : ℚ) : Bool :=
  match gambitRaw numName f with
  | .ok (r, s) => rawEqb r raw && decide (s = sum)
  | .error _ => false

theorem gambitRawIs_sound {numName : Nat → Nat} {f : EfgFile ℚ} {raw : Raw ℚ} {sum : ℚ}
    (h : gambitRawIs numName f raw sum = true) : gambitRaw numName f = .ok (raw, sum) := by
  unfold gambitRawIs at h
  split at h
  · rename_i r s hr
    simp only [Bool.and_eq_true, decide_eq_true_eq] at h
    rw [hr, rawEqb_sound r raw h.1, h.2]
  · cases h

theorem okOf_some {ε β : Type} {x : Except ε β} {b : β} (h : okOf x = some b) : x = .ok b := by
  cases x with
  | error e => simp [okOf] at h
  | ok v => simp only [okOf, Option.some.injEq] at h; rw [h]

/-! ## the demo file satisfies the hypotheses -/

/-- the tables of the first loop of `get_global_info` on `demoFile` -/
def demoTables : Tables ℚ :=
  ⟨⟨[(1, 6)], [1]⟩, ⟨[(2, 8), (1, 7)], [2, 1]⟩,
    [(2, (2, 3)), (4, (6, -1)), (1, (1, 4)), (3, (2, 3))]⟩

/-- what `from_root` is handed for `demoFile` (offset `5` subtracted, `L` before `R`) -/
def demoRaw : Raw ℚ :=
  .player true 6 [2, 3]
    [.player false 7 [4] [.term (-2)], .player false 8 [4, 5] [.term (-1), .term 3]]

/-- a behavioural profile of that tree -/
def demoRho : LProfile ℚ := fun o l a =>
  if o then (if a = 2 then 1 / 3 else 2 / 3) else if l = 7 then 1 else (if a = 4 then 1 / 4 else 3 / 4)

theorem demo_tables : Tables.run ({} : Tables ℚ) demoFile.root.visits = .ok demoTables := rfl
theorem demo_names1 : demoTables.one.resolve demoNumName = .ok [(1, 6)] := rfl
theorem demo_names2 : demoTables.two.resolve demoNumName = .ok [(2, 8), (1, 7)] := rfl
theorem demo_raw : gambitRaw demoNumName demoFile = .ok (demoRaw, 5) :=
  gambitRawIs_sound (by decide +kernel)
theorem demo_shape : demoFile.root.ShapeOK := by
  simp [demoFile, Efg.ShapeOK, Efg.ShapeOKL]
theorem demo_fileOK : demoFile.root.FileOK := by
  simp [demoFile, Efg.FileOK, Efg.FileOKL]
theorem demo_leaves :
    Efg.leaves demoTables.outcomes demoFile.root (0, 0) = .ok [(3, 7), (8, 2), (4, 6)] :=
  okOf_some (by decide +kernel)
theorem demo_constant : ExactConstantSum demoTables.outcomes demoFile.root 10 := by
  intro ls hls
  rw [demo_leaves] at hls
  cases hls
  decide +kernel
theorem demo_valid : LValidOn demoRho demoRaw := by
  simp only [demoRaw, LValidOn, LValidOnL]
  norm_num [demoRho]

/-- every hypothesis of `gambit_semantics` holds for `demoFile`; the conclusions, evaluated:
the offset is `5 = 10 / 2`, player one expects `17/3` of her own file payoffs, player two
`10 - 17/3` -/
example :
    (5 : ℚ) = 10 / 2 ∧
    rawEV demoRho demoRaw
      = efgEV demoTables.outcomes (fun o => if o then [(1, 6)] else [(2, 8), (1, 7)]) demoRho true
          demoFile.root 0 - 10 / 2 ∧
    efgEV demoTables.outcomes (fun o => if o then [(1, 6)] else [(2, 8), (1, 7)]) demoRho false
        demoFile.root 0
      = 10 - efgEV demoTables.outcomes (fun o => if o then [(1, 6)] else [(2, 8), (1, 7)]) demoRho true
          demoFile.root 0 :=
  gambit_semantics demoNumName demoFile demo_shape demo_fileOK demoTables _ _ demoRaw 5 10
    demo_tables demo_names1 demo_names2 demo_raw demo_constant demoRho demo_valid

example : efgEV demoTables.outcomes (fun o => if o then [(1, 6)] else [(2, 8), (1, 7)]) demoRho true
    demoFile.root 0 = 17 / 3 ∧ rawEV demoRho demoRaw = 2 / 3 := by
  constructor
  · simp only [demoFile, efgEV, efgEVP, outcomePair, assocFind, demoTables]
    norm_num [demoRho]
  · simp only [demoRaw, rawEV, rawEVP]
    norm_num [demoRho]

/-! ## the two facts of `Efg.FileOK` are needed -/

/-- **a chance node whose probabilities add up to zero** (here: no children at all).  The file
converts (`sum = 0`), has no terminal, hence is exactly constant-sum `K` for every `K`; every
`ρ` is valid on the converted tree; but `sum = 0 ≠ 2 / 2`. -/
example :
    let f : EfgFile ℚ := ⟨2, .chance 1 [] [] [] 0 none⟩
    f.root.ShapeOK ∧ Tables.run ({} : Tables ℚ) f.root.visits = .ok {} ∧
    ({} : Tables ℚ).one.resolve id = .ok [] ∧ ({} : Tables ℚ).two.resolve id = .ok [] ∧
    gambitRaw id f = .ok (.chance (some 1) [] [], 0) ∧
    ExactConstantSum ({} : Tables ℚ).outcomes f.root 2 ∧
    (∀ ρ : LProfile ℚ, LValidOn ρ (.chance (some 1) [] [])) ∧ (0 : ℚ) ≠ 2 / 2 := by
  refine ⟨by simp [Efg.ShapeOK, Efg.ShapeOKL], rfl, rfl, rfl, gambitRawIs_sound (by decide +kernel),
    ?_, fun ρ => by simp [LValidOn, LValidOnL], by norm_num⟩
  intro ls hls
  have : Efg.leaves ({} : Tables ℚ).outcomes (Efg.chance 1 [] [] [] 0 none) (0, 0) = .ok [] :=
    okOf_some (by decide +kernel)
  rw [this] at hls
  cases hls
  simp

/-- the same with children: total weight `1 + (-1) = 0`, every expectation is `0`, the file is
exactly constant-sum `2` with offset `1`, so the converted tree pays `0 ≠ 0 - 2 / 2` -/
example :
    let f : EfgFile ℚ := ⟨2, .chance 1 [0, 1] [1, -1] [.term 1 [1, 1], .term 1 [1, 1]] 0 none⟩
    let tbl : List (Nat × (ℚ × ℚ)) := [(1, (1, 1)), (1, (1, 1))]
    let raw : Raw ℚ := .chance (some 1) [1, -1] [.term 0, .term 0]
    f.root.ShapeOK ∧ okOf (Efg.leaves tbl f.root (0, 0)) = some [(1, 1), (1, 1)] ∧
    gambitRaw id f = .ok (raw, 1) ∧
    (∀ ρ : LProfile ℚ, LValidOn ρ raw ∧ rawEV ρ raw = 0 ∧
      efgEV tbl (fun _ => []) ρ true f.root 0 - 2 / 2 = -1) := by
  refine ⟨by simp [Efg.ShapeOK, Efg.ShapeOKL], by decide +kernel,
    gambitRawIs_sound (by decide +kernel), fun ρ => ⟨by simp [LValidOn, LValidOnL], ?_, ?_⟩⟩
  · simp [rawEV, rawEVC]
  · simp [efgEV, efgEVC]

/-- **a terminal with the null outcome `0`**: the conversion reads the payoffs stored under the
number `0` (`sum = 1`, the converted terminal pays `1 - 1 = 0`), `efgEV` gives the null outcome no
payoff; the file is exactly constant-sum `2`, but `0 ≠ 0 - 2 / 2` -/
example :
    let f : EfgFile ℚ := ⟨2, .term 0 [1, 1]⟩
    let tbl : List (Nat × (ℚ × ℚ)) := [(0, (1, 1))]
    f.root.ShapeOK ∧ okOf (Efg.leaves tbl f.root (0, 0)) = some [(1, 1)] ∧
    gambitRaw id f = .ok (.term 0, 1) ∧
    (∀ ρ : LProfile ℚ, LValidOn ρ (.term 0) ∧ rawEV ρ (.term (0 : ℚ)) = 0 ∧
      efgEV tbl (fun _ => []) ρ true f.root 0 - 2 / 2 = -1) := by
  refine ⟨by simp [Efg.ShapeOK], by decide +kernel,
    gambitRawIs_sound (by decide +kernel), fun ρ => ⟨by simp [LValidOn], by simp [rawEV], ?_⟩⟩
  simp [efgEV, outcomePair]

end CliP
end Cfr
