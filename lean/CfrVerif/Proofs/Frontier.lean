import CfrVerif.Proofs.Effects
import CfrVerif.Model.Dispatch
/-!
# Frontier decomposition for the vanilla (full / chance-sampled) multi-threaded iteration

The breadth-first frontier (`vThreshold`) is a cut of the tree that carries the reach
probabilities of the current strategies; the tasks' traversals of the drained cut nodes together
with the cached traversal from the root perform exactly the accumulations of the plain
traversal, and the cached traversal returns the plain traversal's value.
-/
set_option linter.unusedSectionVars false
namespace Cfr
variable {α : Type} [Field α] [LinearOrder α] [IsStrictOrderedRing α] [Transc α]

/-- a schedule only rearranges the atomic accumulations it is given -/
def Sched.Fair (sched : Sched α) : Prop := ∀ it es, (sched it es).Perm es

theorem Sched.seq_fair : (Sched.seq : Sched α).Fair := fun _ _ => List.Perm.refl _

/-- two solver results agree: bounds, strategies and iteration count are equal and the same
draws were made (in some order) -/
def SolveOut.Same (a b : SolveOut α) : Prop :=
  a.regOne = b.regOne ∧ a.regTwo = b.regTwo ∧ a.stratOne = b.stratOne ∧ a.stratTwo = b.stratTwo ∧
  a.iters = b.iters ∧ a.log.Perm b.log

/-! Everything below is internal to the proofs of C06 / C07 (vanilla part) and lives in `Cfr.Van`. -/
namespace Van

/-- an event of the pure traversal: an accumulation, or a visit of a sampled chance infoset -/
abbrev Ev (α : Type) := Eff α ⊕ Nat

def effsOf (l : List (Ev α)) : List (Eff α) := l.filterMap (Sum.elim some (fun _ => none))
def idsOf (l : List (Ev α)) : List Nat := l.filterMap (Sum.elim (fun _ => none) some)

@[simp] theorem effsOf_nil : effsOf ([] : List (Ev α)) = [] := rfl
@[simp] theorem idsOf_nil : idsOf ([] : List (Ev α)) = [] := rfl
@[simp] theorem effsOf_append (a b : List (Ev α)) : effsOf (a ++ b) = effsOf a ++ effsOf b := by
  simp [effsOf]
@[simp] theorem idsOf_append (a b : List (Ev α)) : idsOf (a ++ b) = idsOf a ++ idsOf b := by
  simp [idsOf]
@[simp] theorem effsOf_inl (e : Eff α) (l : List (Ev α)) : effsOf (.inl e :: l) = e :: effsOf l := by
  simp [effsOf]
@[simp] theorem effsOf_inr (i : Nat) (l : List (Ev α)) : effsOf (.inr i :: l) = effsOf l := rfl
@[simp] theorem idsOf_inl (e : Eff α) (l : List (Ev α)) : idsOf (.inl e :: l) = idsOf l := rfl
@[simp] theorem idsOf_inr (i : Nat) (l : List (Ev α)) : idsOf (.inr i :: l) = i :: idsOf l := by
  simp [idsOf]
@[simp] theorem effsOf_map_inl (l : List (Eff α)) : effsOf (l.map (Sum.inl : Eff α → Ev α)) = l := by
  induction l with
  | nil => rfl
  | cons e l ih => simp [ih]
@[simp] theorem idsOf_map_inl (l : List (Eff α)) : idsOf (l.map (Sum.inl : Eff α → Ev α)) = [] := by
  induction l with
  | nil => rfl
  | cons e l ih => simp [ih]
theorem effsOf_perm {a b : List (Ev α)} (h : a.Perm b) : (effsOf a).Perm (effsOf b) :=
  h.filterMap _
theorem idsOf_perm {a b : List (Ev α)} (h : a.Perm b) : (idsOf a).Perm (idsOf b) :=
  h.filterMap _
theorem mem_idsOf {i : Nat} {l : List (Ev α)} : i ∈ idsOf l ↔ Sum.inr i ∈ l := by
  induction l with
  | nil => simp
  | cons e l ih => cases e <;> simp [ih]

/-- the outcome the oracle gives at chance infoset `i` in this pass -/
def kdraw (c : VCtx α) (i : Nat) : Nat := c.draw 0 i c.pass (c.ch.getD i [])

mutual
/-- the traversal without the draw state: every sampled chance infoset follows the oracle -/
def pv (c : VCtx α) (cache : List (Path × α)) : Node α → Path → α → α → α → α × List (Ev α)
  | n, path, pc, p1, p2 =>
    match cacheGet cache path with
    | some pay => (pay, [])
    | none =>
      match n with
      | .term p => (p, [])
      | .chance i ks =>
        if c.sampled then
          ((pvNth c cache ks (kdraw c i) (path ++ [kdraw c i]) pc p1 p2).1,
            .inr i :: (pvNth c cache ks (kdraw c i) (path ++ [kdraw c i]) pc p1 p2).2)
        else pvChance c cache (c.ch.getD i []) ks path 0 pc p1 p2 0
      | .player one i ks =>
        ((pvActs c cache one i (if one then pc * p2 else -p1 * pc) (c.strat one i) ks path pc p1 p2 0 0 0).1,
          (stratEffs one i (if one then p1 else p2) (c.strat one i) 0).map .inl
            ++ (pvActs c cache one i (if one then pc * p2 else -p1 * pc) (c.strat one i) ks path pc p1 p2 0 0 0).2.2
            ++ (subEffs one i (pvActs c cache one i (if one then pc * p2 else -p1 * pc) (c.strat one i) ks path pc p1 p2 0 0 0).2.1
                  (c.strat one i).length).map .inl)
def pvNth (c : VCtx α) (cache : List (Path × α)) :
    List (Node α) → Nat → Path → α → α → α → α × List (Ev α)
  | [], _, _, _, _, _ => (0, [])
  | k :: _, 0, path, pc, p1, p2 => pv c cache k path pc p1 p2
  | _ :: ks, n + 1, path, pc, p1, p2 => pvNth c cache ks n path pc p1 p2
def pvChance (c : VCtx α) (cache : List (Path × α)) :
    List α → List (Node α) → Path → Nat → α → α → α → α → α × List (Ev α)
  | p :: ps, k :: ks, path, a, pc, p1, p2, acc =>
    ((pvChance c cache ps ks path (a + 1) pc p1 p2 (acc + p * (pv c cache k (path ++ [a]) (pc * p) p1 p2).1)).1,
      (pv c cache k (path ++ [a]) (pc * p) p1 p2).2
        ++ (pvChance c cache ps ks path (a + 1) pc p1 p2 (acc + p * (pv c cache k (path ++ [a]) (pc * p) p1 p2).1)).2)
  | _, _, _, _, _, _, _, acc => (acc, [])
def pvActs (c : VCtx α) (cache : List (Path × α)) (one : Bool) (i : Nat) (mult : α) :
    List α → List (Node α) → Path → α → α → α → Nat → α → α → α × α × List (Ev α)
  | s :: σ, k :: ks, path, pc, p1, p2, a, eo, ex =>
    let r := if one then pv c cache k (path ++ [a]) pc (p1 * s) p2
      else pv c cache k (path ++ [a]) pc p1 (p2 * s)
    let r' := pvActs c cache one i mult σ ks path pc p1 p2 (a + 1) (eo + s * r.1) (ex + r.1 * mult * s)
    (r'.1, r'.2.1, r.2 ++ .inl ⟨one, i, .regret, a, r.1 * mult⟩ :: r'.2.2)
  | _, _, _, _, _, _, _, eo, ex => (eo, ex, [])
end

theorem cacheGet_nil (p : Path) : cacheGet ([] : List (Path × α)) p = none := by
  simp [cacheGet]

theorem pv_hit (c : VCtx α) (cache : List (Path × α)) (n : Node α) (path : Path) (pc p1 p2 v : α)
    (h : cacheGet cache path = some v) : pv c cache n path pc p1 p2 = (v, []) := by
  rw [pv.eq_def]; simp only [h]

theorem pv_term (c : VCtx α) (cache : List (Path × α)) (p : α) (path : Path) (pc p1 p2 : α)
    (h : cacheGet cache path = none) : pv c cache (.term p) path pc p1 p2 = (p, []) := by
  rw [pv.eq_def]; simp only [h]

theorem pv_chance_s (c : VCtx α) (cache : List (Path × α)) (i : Nat) (ks : List (Node α))
    (path : Path) (pc p1 p2 : α) (h : cacheGet cache path = none) (hs : c.sampled = true) :
    pv c cache (.chance i ks) path pc p1 p2 =
      ((pvNth c cache ks (kdraw c i) (path ++ [kdraw c i]) pc p1 p2).1,
        .inr i :: (pvNth c cache ks (kdraw c i) (path ++ [kdraw c i]) pc p1 p2).2) := by
  rw [pv.eq_def]; simp only [h, hs, if_true]

theorem pv_chance_f (c : VCtx α) (cache : List (Path × α)) (i : Nat) (ks : List (Node α))
    (path : Path) (pc p1 p2 : α) (h : cacheGet cache path = none) (hs : c.sampled = false) :
    pv c cache (.chance i ks) path pc p1 p2 =
      pvChance c cache (c.ch.getD i []) ks path 0 pc p1 p2 0 := by
  rw [pv.eq_def]; simp only [h, hs, Bool.false_eq_true, if_false]

theorem pv_player (c : VCtx α) (cache : List (Path × α)) (one : Bool) (i : Nat) (ks : List (Node α))
    (path : Path) (pc p1 p2 : α) (h : cacheGet cache path = none) :
    pv c cache (.player one i ks) path pc p1 p2 =
      ((pvActs c cache one i (if one then pc * p2 else -p1 * pc) (c.strat one i) ks path pc p1 p2 0 0 0).1,
        (stratEffs one i (if one then p1 else p2) (c.strat one i) 0).map .inl
          ++ (pvActs c cache one i (if one then pc * p2 else -p1 * pc) (c.strat one i) ks path pc p1 p2 0 0 0).2.2
          ++ (subEffs one i (pvActs c cache one i (if one then pc * p2 else -p1 * pc) (c.strat one i) ks path pc p1 p2 0 0 0).2.1
                (c.strat one i).length).map .inl) := by
  rw [pv.eq_def]; simp only [h]


/-! ## draw states -/

/-- every cached sample is the oracle's answer -/
def Cons (c : VCtx α) (d : DrawSt α) : Prop :=
  ∀ i k, assocGet d.chance i = some k → k = kdraw c i

def drawOne (c : VCtx α) (i : Nat) (d : DrawSt α) : DrawSt α :=
  (sampleChance c.draw c.pass (c.ch.getD i []) i d).2

def drawAll (c : VCtx α) (ids : List Nat) (d : DrawSt α) : DrawSt α :=
  ids.foldl (fun d i => drawOne c i d) d

@[simp] theorem drawAll_nil (c : VCtx α) (d : DrawSt α) : drawAll c [] d = d := rfl
@[simp] theorem drawAll_cons (c : VCtx α) (i : Nat) (ids : List Nat) (d : DrawSt α) :
    drawAll c (i :: ids) d = drawAll c ids (drawOne c i d) := rfl
theorem drawAll_append (c : VCtx α) (a b : List Nat) (d : DrawSt α) :
    drawAll c (a ++ b) d = drawAll c b (drawAll c a d) := by
  simp [drawAll, List.foldl_append]

theorem assocGet_cons' (a b : Nat) (l : List (Nat × Nat)) (j : Nat) :
    assocGet ((a, b) :: l) j = if a = j then some b else assocGet l j := by
  unfold assocGet
  by_cases hj : a = j
  · simp [hj]
  · simp [hj]

theorem sampleChance_cons (c : VCtx α) (i : Nat) (d : DrawSt α) (h : Cons c d) :
    sampleChance c.draw c.pass (c.ch.getD i []) i d = (kdraw c i, drawOne c i d) := by
  unfold drawOne
  cases hg : assocGet d.chance i with
  | some k => simp only [sampleChance, hg]; rw [h i k hg]
  | none => simp only [sampleChance, hg]; rfl

theorem Cons.drawOne {c : VCtx α} {d : DrawSt α} (h : Cons c d) (i : Nat) : Cons c (drawOne c i d) := by
  unfold Cfr.Van.drawOne
  cases hg : assocGet d.chance i with
  | some k => simp only [sampleChance, hg]; exact h
  | none =>
    simp only [sampleChance, hg]
    intro j k hj
    rw [assocGet_cons'] at hj
    split_ifs at hj with hij
    · subst hij; simp only [Option.some.injEq] at hj; rw [← hj]; rfl
    · exact h j k hj

theorem Cons.drawAll {c : VCtx α} (ids : List Nat) : ∀ {d : DrawSt α}, Cons c d → Cons c (drawAll c ids d) := by
  induction ids with
  | nil => intro d h; exact h
  | cons i ids ih => intro d h; exact ih (h.drawOne i)

mutual
theorem vrecC_pv (c : VCtx α) (cache : List (Path × α)) :
    ∀ (n : Node α) (path : Path) (pc p1 p2 : α) (d : DrawSt α), Cons c d →
      vrecC c cache n path pc p1 p2 d =
        ((pv c cache n path pc p1 p2).1, effsOf (pv c cache n path pc p1 p2).2,
          drawAll c (idsOf (pv c cache n path pc p1 p2).2) d)
  | .term p, path, pc, p1, p2, d, hd => by
    rw [vrecC.eq_def, pv.eq_def]
    cases hc : cacheGet cache path <;> simp [hc]
  | .chance i ks, path, pc, p1, p2, d, hd => by
    rw [vrecC.eq_def, pv.eq_def]
    cases hc : cacheGet cache path with
    | some v => simp [hc]
    | none =>
      cases hs : c.sampled with
      | true =>
        simp only [hc, if_true, sampleChance_cons c i d hd]
        rw [vrecCNth_pv c cache ks _ _ pc p1 p2 _ (hd.drawOne i)]
        simp
      | false =>
        simp only [hc, Bool.false_eq_true, if_false]
        exact vrecCChance_pv c cache _ ks path 0 pc p1 p2 d 0 hd
  | .player one i ks, path, pc, p1, p2, d, hd => by
    rw [vrecC.eq_def, pv.eq_def]
    cases hc : cacheGet cache path with
    | some v => simp [hc]
    | none =>
      simp only [hc]
      rw [vrecCActs_pv c cache one i _ _ ks path pc p1 p2 d 0 0 0 hd]
      simp
theorem vrecCNth_pv (c : VCtx α) (cache : List (Path × α)) :
    ∀ (ks : List (Node α)) (k : Nat) (path : Path) (pc p1 p2 : α) (d : DrawSt α), Cons c d →
      vrecCNth c cache ks k path pc p1 p2 d =
        ((pvNth c cache ks k path pc p1 p2).1, effsOf (pvNth c cache ks k path pc p1 p2).2,
          drawAll c (idsOf (pvNth c cache ks k path pc p1 p2).2) d)
  | [], _, _, _, _, _, d, _ => by simp [vrecCNth, pvNth]
  | k :: _, 0, path, pc, p1, p2, d, hd => by
    simp only [vrecCNth, pvNth]; exact vrecC_pv c cache k path pc p1 p2 d hd
  | _ :: ks, n + 1, path, pc, p1, p2, d, hd => by
    simp only [vrecCNth, pvNth]; exact vrecCNth_pv c cache ks n path pc p1 p2 d hd
theorem vrecCChance_pv (c : VCtx α) (cache : List (Path × α)) :
    ∀ (ps : List α) (ks : List (Node α)) (path : Path) (a : Nat) (pc p1 p2 : α) (d : DrawSt α)
      (acc : α), Cons c d →
      vrecCChance c cache ps ks path a pc p1 p2 d acc =
        ((pvChance c cache ps ks path a pc p1 p2 acc).1,
          effsOf (pvChance c cache ps ks path a pc p1 p2 acc).2,
          drawAll c (idsOf (pvChance c cache ps ks path a pc p1 p2 acc).2) d)
  | p :: ps, k :: ks, path, a, pc, p1, p2, d, acc, hd => by
    simp only [vrecCChance, pvChance]
    rw [vrecC_pv c cache k (path ++ [a]) (pc * p) p1 p2 d hd]
    simp only
    rw [vrecCChance_pv c cache ps ks path (a + 1) pc p1 p2 _ _ (hd.drawAll _)]
    simp [drawAll_append]
  | [], _, _, _, _, _, _, d, _, _ => by simp [vrecCChance, pvChance]
  | _ :: _, [], _, _, _, _, _, d, _, _ => by simp [vrecCChance, pvChance]
theorem vrecCActs_pv (c : VCtx α) (cache : List (Path × α)) (one : Bool) (i : Nat) (mult : α) :
    ∀ (σ : List α) (ks : List (Node α)) (path : Path) (pc p1 p2 : α) (d : DrawSt α) (a : Nat)
      (eo ex : α), Cons c d →
      vrecCActs c cache one i mult σ ks path pc p1 p2 d a eo ex =
        ((pvActs c cache one i mult σ ks path pc p1 p2 a eo ex).1,
          (pvActs c cache one i mult σ ks path pc p1 p2 a eo ex).2.1,
          effsOf (pvActs c cache one i mult σ ks path pc p1 p2 a eo ex).2.2,
          drawAll c (idsOf (pvActs c cache one i mult σ ks path pc p1 p2 a eo ex).2.2) d)
  | s :: σ, k :: ks, path, pc, p1, p2, d, a, eo, ex, hd => by
    simp only [vrecCActs, pvActs]
    cases one
    · simp only [Bool.false_eq_true, if_false]
      rw [vrecC_pv c cache k (path ++ [a]) pc p1 (p2 * s) d hd]
      simp only
      rw [vrecCActs_pv c cache false i mult σ ks path pc p1 p2 _ _ _ _ (hd.drawAll _)]
      simp [drawAll_append]
    · simp only [if_true]
      rw [vrecC_pv c cache k (path ++ [a]) pc (p1 * s) p2 d hd]
      simp only
      rw [vrecCActs_pv c cache true i mult σ ks path pc p1 p2 _ _ _ _ (hd.drawAll _)]
      simp [drawAll_append]
  | [], _, _, _, _, _, d, _, _, _, _ => by simp [vrecCActs, pvActs]
  | _ :: _, [], _, _, _, _, d, _, _, _, _ => by simp [vrecCActs, pvActs]
end


/-! ## the cached traversal with an empty cache is the plain traversal -/

mutual
theorem vrecC_nil (c : VCtx α) : ∀ (n : Node α) (path : Path) (pc p1 p2 : α) (d : DrawSt α),
    vrecC c [] n path pc p1 p2 d = vrec c n pc p1 p2 d
  | .term p, path, pc, p1, p2, d => by
    rw [vrecC]; simp only [cacheGet_nil, vrec]
  | .chance i ks, path, pc, p1, p2, d => by
    rw [vrecC]; simp only [cacheGet_nil, vrec]
    split_ifs with h
    · exact vrecCNth_nil c ks _ _ pc p1 p2 _
    · exact vrecCChance_nil c _ ks path 0 pc p1 p2 d 0
  | .player one i ks, path, pc, p1, p2, d => by
    rw [vrecC]; simp only [cacheGet_nil, vrec]
    rw [vrecCActs_nil c one i _ _ ks path pc p1 p2 d 0 0 0]
theorem vrecCNth_nil (c : VCtx α) : ∀ (ks : List (Node α)) (k : Nat) (path : Path) (pc p1 p2 : α)
    (d : DrawSt α), vrecCNth c [] ks k path pc p1 p2 d = vrecNth c ks k pc p1 p2 d
  | [], _, _, _, _, _, d => by simp only [vrecCNth, vrecNth]
  | k :: _, 0, path, pc, p1, p2, d => by
    simp only [vrecCNth, vrecNth]; exact vrecC_nil c k path pc p1 p2 d
  | _ :: ks, n + 1, path, pc, p1, p2, d => by
    simp only [vrecCNth, vrecNth]; exact vrecCNth_nil c ks n path pc p1 p2 d
theorem vrecCChance_nil (c : VCtx α) : ∀ (ps : List α) (ks : List (Node α)) (path : Path) (a : Nat)
    (pc p1 p2 : α) (d : DrawSt α) (acc : α),
    vrecCChance c [] ps ks path a pc p1 p2 d acc = vrecChance c ps ks pc p1 p2 d acc
  | p :: ps, k :: ks, path, a, pc, p1, p2, d, acc => by
    simp only [vrecCChance, vrecChance]
    rw [vrecC_nil c k (path ++ [a]) (pc * p) p1 p2 d, vrecCChance_nil c ps ks path (a + 1)]
  | [], _, _, _, _, _, _, d, _ => by simp only [vrecCChance, vrecChance]
  | _ :: _, [], _, _, _, _, _, d, _ => by simp only [vrecCChance, vrecChance]
theorem vrecCActs_nil (c : VCtx α) (one : Bool) (i : Nat) (mult : α) : ∀ (σ : List α)
    (ks : List (Node α)) (path : Path) (pc p1 p2 : α) (d : DrawSt α) (a : Nat) (eo ex : α),
    vrecCActs c [] one i mult σ ks path pc p1 p2 d a eo ex
      = vrecActs c one i mult σ ks pc p1 p2 d a eo ex
  | s :: σ, k :: ks, path, pc, p1, p2, d, a, eo, ex => by
    simp only [vrecCActs, vrecActs]
    rw [vrecC_nil c k (path ++ [a]) pc (p1 * s) p2 d, vrecC_nil c k (path ++ [a]) pc p1 (p2 * s) d]
    cases one
    · simp only [Bool.false_eq_true, if_false]
      rw [vrecCActs_nil c false i mult σ ks path]
    · simp only [if_true]
      rw [vrecCActs_nil c true i mult σ ks path]
  | [], _, _, _, _, _, d, _, _, _ => by simp only [vrecCActs, vrecActs]
  | _ :: _, [], _, _, _, _, d, _, _, _ => by simp only [vrecCActs, vrecActs]
end

/-! ## prefixes -/

theorem prefix_of_snoc_prefix {p q : Path} {a : Nat} (h : p ++ [a] <+: q) : p <+: q :=
  (List.prefix_append p [a]).trans h

theorem snoc_prefix_inj {p q : Path} {a b : Nat} (h1 : p ++ [a] <+: q) (h2 : p ++ [b] <+: q) :
    a = b := by
  obtain ⟨t, ht⟩ := h1
  obtain ⟨t', ht'⟩ := h2
  rw [← ht', List.append_assoc, List.append_assoc] at ht
  have := List.append_cancel_left ht
  exact (by simpa using this : a = b ∧ t = t').1

theorem cacheGet_cons (p : Path) (v : α) (C : List (Path × α)) (q : Path) :
    cacheGet ((p, v) :: C) q = if p = q then some v else cacheGet C q := by
  unfold cacheGet
  by_cases h : p = q
  · simp [h]
  · simp [h]

theorem cacheGet_eq_none {C : List (Path × α)} {q : Path} (h : ∀ e ∈ C, e.1 ≠ q) :
    cacheGet C q = none := by
  unfold cacheGet
  rw [Option.map_eq_none_iff, List.find?_eq_none]
  intro e he
  simpa using h e he

/-! ## only the cache entries below a node matter -/

mutual
theorem pv_irr (c : VCtx α) (C' C : List (Path × α)) :
    ∀ (n : Node α) (path : Path) (pc p1 p2 : α),
      (∀ q, path <+: q → cacheGet C' q = cacheGet C q) →
      pv c C' n path pc p1 p2 = pv c C n path pc p1 p2
  | .term p, path, pc, p1, p2, h => by
    have h0 := h path (List.prefix_refl _)
    cases hc : cacheGet C path with
    | some v => rw [pv_hit c C _ _ _ _ _ v hc, pv_hit c C' _ _ _ _ _ v (h0.trans hc)]
    | none => rw [pv_term c C _ _ _ _ _ hc, pv_term c C' _ _ _ _ _ (h0.trans hc)]
  | .chance i ks, path, pc, p1, p2, h => by
    have h0 := h path (List.prefix_refl _)
    cases hc : cacheGet C path with
    | some v => rw [pv_hit c C _ _ _ _ _ v hc, pv_hit c C' _ _ _ _ _ v (h0.trans hc)]
    | none =>
      cases hs : c.sampled with
      | true =>
        rw [pv_chance_s c C _ _ _ _ _ _ hc hs, pv_chance_s c C' _ _ _ _ _ _ (h0.trans hc) hs,
          pvNth_irr c C' C ks (kdraw c i) (path ++ [kdraw c i]) pc p1 p2
            (fun q hq => h q (prefix_of_snoc_prefix hq))]
      | false =>
        rw [pv_chance_f c C _ _ _ _ _ _ hc hs, pv_chance_f c C' _ _ _ _ _ _ (h0.trans hc) hs,
          pvChance_irr c C' C (c.ch.getD i []) ks path 0 pc p1 p2 0
            (fun b _ q hq => h q (prefix_of_snoc_prefix hq))]
  | .player one i ks, path, pc, p1, p2, h => by
    have h0 := h path (List.prefix_refl _)
    cases hc : cacheGet C path with
    | some v => rw [pv_hit c C _ _ _ _ _ v hc, pv_hit c C' _ _ _ _ _ v (h0.trans hc)]
    | none =>
      rw [pv_player c C _ _ _ _ _ _ _ hc, pv_player c C' _ _ _ _ _ _ _ (h0.trans hc),
        pvActs_irr c C' C one i _ (c.strat one i) ks path pc p1 p2 0 0 0
          (fun b _ q hq => h q (prefix_of_snoc_prefix hq))]
theorem pvNth_irr (c : VCtx α) (C' C : List (Path × α)) :
    ∀ (ks : List (Node α)) (k : Nat) (path : Path) (pc p1 p2 : α),
      (∀ q, path <+: q → cacheGet C' q = cacheGet C q) →
      pvNth c C' ks k path pc p1 p2 = pvNth c C ks k path pc p1 p2
  | [], _, _, _, _, _, _ => by simp only [pvNth]
  | k :: _, 0, path, pc, p1, p2, h => by
    simp only [pvNth]; exact pv_irr c C' C k path pc p1 p2 h
  | _ :: ks, n + 1, path, pc, p1, p2, h => by
    simp only [pvNth]; exact pvNth_irr c C' C ks n path pc p1 p2 h
theorem pvChance_irr (c : VCtx α) (C' C : List (Path × α)) :
    ∀ (ps : List α) (ks : List (Node α)) (path : Path) (a : Nat) (pc p1 p2 acc : α),
      (∀ b, a ≤ b → ∀ q, path ++ [b] <+: q → cacheGet C' q = cacheGet C q) →
      pvChance c C' ps ks path a pc p1 p2 acc = pvChance c C ps ks path a pc p1 p2 acc
  | p :: ps, k :: ks, path, a, pc, p1, p2, acc, h => by
    simp only [pvChance]
    rw [pv_irr c C' C k (path ++ [a]) (pc * p) p1 p2 (h a (Nat.le_refl a)),
      pvChance_irr c C' C ps ks path (a + 1) pc p1 p2 _ (fun b hb => h b (by omega))]
  | [], _, _, _, _, _, _, _, _ => by simp only [pvChance]
  | _ :: _, [], _, _, _, _, _, _, _ => by simp only [pvChance]
theorem pvActs_irr (c : VCtx α) (C' C : List (Path × α)) (one : Bool) (i : Nat) (mult : α) :
    ∀ (σ : List α) (ks : List (Node α)) (path : Path) (pc p1 p2 : α) (a : Nat) (eo ex : α),
      (∀ b, a ≤ b → ∀ q, path ++ [b] <+: q → cacheGet C' q = cacheGet C q) →
      pvActs c C' one i mult σ ks path pc p1 p2 a eo ex
        = pvActs c C one i mult σ ks path pc p1 p2 a eo ex
  | s :: σ, k :: ks, path, pc, p1, p2, a, eo, ex, h => by
    simp only [pvActs]
    rw [pv_irr c C' C k (path ++ [a]) pc (p1 * s) p2 (h a (Nat.le_refl a)),
      pv_irr c C' C k (path ++ [a]) pc p1 (p2 * s) (h a (Nat.le_refl a)),
      pvActs_irr c C' C one i mult σ ks path pc p1 p2 (a + 1) _ _ (fun b hb => h b (by omega))]
  | [], _, _, _, _, _, _, _, _, _ => by simp only [pvActs]
  | _ :: _, [], _, _, _, _, _, _, _, _ => by simp only [pvActs]
end


/-! ## positions in the tree -/

/-- the pure traversal of the subtree an item stands for -/
def pvI (c : VCtx α) (C : List (Path × α)) (x : VItem α) : α × List (Ev α) :=
  pv c C x.node x.path x.pc x.p1 x.p2

/-- the child the plain traversal reaches from `x` through index `a`, with its reach triple -/
def vstep (c : VCtx α) (x : VItem α) (a : Nat) : Option (VItem α) :=
  match x.node with
  | .term _ => none
  | .chance i ks =>
    if c.sampled then
      if a = kdraw c i then (ks[a]?).map (fun n => ⟨x.path ++ [a], n, x.pc, x.p1, x.p2⟩) else none
    else
      match (c.ch.getD i [])[a]?, ks[a]? with
      | some p, some n => some ⟨x.path ++ [a], n, x.pc * p, x.p1, x.p2⟩
      | _, _ => none
  | .player one i ks =>
    match (c.strat one i)[a]?, ks[a]? with
    | some s, some n =>
      some (if one then ⟨x.path ++ [a], n, x.pc, x.p1 * s, x.p2⟩
        else ⟨x.path ++ [a], n, x.pc, x.p1, x.p2 * s⟩)
    | _, _ => none

/-- follow a path -/
def vdesc (c : VCtx α) : VItem α → List Nat → Option (VItem α)
  | x, [] => some x
  | x, a :: r => (vstep c x a).bind (fun y => vdesc c y r)

theorem vstep_path {c : VCtx α} {x y : VItem α} {a : Nat} (h : vstep c x a = some y) :
    y.path = x.path ++ [a] := by
  unfold vstep at h
  split at h
  · exact absurd h (by simp)
  · split_ifs at h
    · simp only [Option.map_eq_some_iff] at h
      obtain ⟨n, -, h⟩ := h
      rw [← h]
    · split at h
      · simp only [Option.some.injEq] at h; rw [← h]
      · exact absurd h (by simp)
  · split at h
    · simp only [Option.some.injEq] at h; rw [← h]; split_ifs <;> rfl
    · exact absurd h (by simp)

theorem vdesc_path {c : VCtx α} : ∀ (r : List Nat) {x y : VItem α}, vdesc c x r = some y →
    y.path = x.path ++ r
  | [], x, y, h => by simp only [vdesc, Option.some.injEq] at h; rw [← h]; simp
  | a :: r, x, y, h => by
    simp only [vdesc] at h
    cases hs : vstep c x a with
    | none => simp [hs] at h
    | some z =>
      simp only [hs, Option.bind_some] at h
      rw [vdesc_path r h, vstep_path hs]; simp

theorem vdesc_append (c : VCtx α) : ∀ (r s : List Nat) (x : VItem α),
    vdesc c x (r ++ s) = (vdesc c x r).bind (fun y => vdesc c y s)
  | [], s, x => by simp [vdesc]
  | a :: r, s, x => by
    simp only [List.cons_append, vdesc]
    cases hs : vstep c x a with
    | none => simp
    | some z => simp only [Option.bind_some]; exact vdesc_append c r s z

theorem vdesc_snoc (c : VCtx α) (r : List Nat) (a : Nat) (x y z : VItem α)
    (h1 : vdesc c x r = some y) (h2 : vstep c y a = some z) : vdesc c x (r ++ [a]) = some z := by
  rw [vdesc_append, h1]; simp [vdesc, h2]

/-! ## permutation bookkeeping -/

theorem perm_head {β : Type} {h' h E : List β} (t : List β) (hp : (h' ++ E).Perm h) :
    (h' ++ t ++ E).Perm (h ++ t) := by
  rw [List.append_assoc]
  exact ((List.perm_append_comm (l₁ := t) (l₂ := E)).append_left h').trans
    (by rw [← List.append_assoc]; exact hp.append_right t)

theorem perm_tail {β : Type} {t' t E : List β} (h : List β) (hp : (t' ++ E).Perm t) :
    (h ++ t' ++ E).Perm (h ++ t) := by
  rw [List.append_assoc]; exact hp.append_left h

theorem perm_mid {β : Type} {m' m E : List β} (A B : List β) (hp : (m' ++ E).Perm m) :
    (A ++ m' ++ B ++ E).Perm (A ++ m ++ B) := by
  rw [List.append_assoc A m' B, List.append_assoc A m B, List.append_assoc A]
  exact (perm_head B hp).append_left A

/-! ## one more cached node -/

/-- at `x` the traversal with cache `C'` returns the value of the traversal with cache `C` and
performs its events except `E` -/
def RelAt (c : VCtx α) (C' C : List (Path × α)) (E : List (Ev α)) (x : VItem α) : Prop :=
  (pvI c C' x).1 = (pvI c C x).1 ∧ ((pvI c C' x).2 ++ E).Perm (pvI c C x).2

theorem pvNth_eq (c : VCtx α) (C : List (Path × α)) : ∀ (ks : List (Node α)) (k : Nat) (path : Path)
    (pc p1 p2 : α), pvNth c C ks k path pc p1 p2 =
      match ks[k]? with
      | some n => pv c C n path pc p1 p2
      | none => (0, [])
  | [], _, _, _, _, _ => by simp [pvNth]
  | k :: _, 0, path, pc, p1, p2 => by simp [pvNth]
  | _ :: ks, n + 1, path, pc, p1, p2 => by simp [pvNth, pvNth_eq c C ks n]

theorem not_prefix_of_ne {path q : Path} {a b : Nat} (hab : a ≠ b) (hq : path ++ [a] <+: q) :
    ¬ path ++ [b] <+: q := fun h => hab (snoc_prefix_inj hq h)

theorem pvChance_step (c : VCtx α) (C' C : List (Path × α)) (E : List (Ev α)) (y : VItem α)
    (hag : ∀ q, ¬ y.path <+: q → cacheGet C' q = cacheGet C q) (hy : RelAt c C' C E y) :
    ∀ (ps : List α) (ks : List (Node α)) (j : Nat) (path : Path) (a0 b : Nat) (pc p1 p2 acc p : α)
      (n : Node α), ps[j]? = some p → ks[j]? = some n → b = a0 + j →
      y = ⟨path ++ [b], n, pc * p, p1, p2⟩ →
      (pvChance c C' ps ks path a0 pc p1 p2 acc).1 = (pvChance c C ps ks path a0 pc p1 p2 acc).1 ∧
      ((pvChance c C' ps ks path a0 pc p1 p2 acc).2 ++ E).Perm
        (pvChance c C ps ks path a0 pc p1 p2 acc).2
  | [], _, j, _, _, _, _, _, _, _, _, _, h, _, _, _ => by simp at h
  | _ :: _, [], j, _, _, _, _, _, _, _, _, _, _, h, _, _ => by simp at h
  | p0 :: ps, k0 :: ks, 0, path, a0, b, pc, p1, p2, acc, p, n, hp, hn, hb, hyv => by
    simp only [List.getElem?_cons_zero, Option.some.injEq] at hp hn
    subst hp hn
    have hb' : b = a0 := by omega
    subst hb' hyv
    simp only [pvChance]
    obtain ⟨h1, h2⟩ := hy
    simp only [pvI] at h1 h2
    have hirr : ∀ acc', pvChance c C' ps ks path (b + 1) pc p1 p2 acc'
        = pvChance c C ps ks path (b + 1) pc p1 p2 acc' := fun acc' =>
      pvChance_irr c C' C ps ks path (b + 1) pc p1 p2 acc'
        (fun b' hb' q hq => hag q (not_prefix_of_ne (by omega) hq))
    rw [h1, hirr]
    exact ⟨rfl, perm_head _ h2⟩
  | p0 :: ps, k0 :: ks, j + 1, path, a0, b, pc, p1, p2, acc, p, n, hp, hn, hb, hyv => by
    simp only [List.getElem?_cons_succ] at hp hn
    simp only [pvChance]
    have hirr : pv c C' k0 (path ++ [a0]) (pc * p0) p1 p2 = pv c C k0 (path ++ [a0]) (pc * p0) p1 p2 :=
      pv_irr c C' C k0 (path ++ [a0]) (pc * p0) p1 p2
        (fun q hq => hag q (by rw [hyv]; exact not_prefix_of_ne (by omega) hq))
    rw [hirr]
    obtain ⟨h1, h2⟩ := pvChance_step c C' C E y hag hy ps ks j path (a0 + 1) b pc p1 p2
      (acc + p0 * (pv c C k0 (path ++ [a0]) (pc * p0) p1 p2).1) p n hp hn (by omega) hyv
    exact ⟨h1, perm_tail _ h2⟩

theorem pvActs_step (c : VCtx α) (C' C : List (Path × α)) (E : List (Ev α)) (y : VItem α)
    (hag : ∀ q, ¬ y.path <+: q → cacheGet C' q = cacheGet C q) (hy : RelAt c C' C E y)
    (one : Bool) (i : Nat) (mult : α) :
    ∀ (σ : List α) (ks : List (Node α)) (j : Nat) (path : Path) (a0 b : Nat) (pc p1 p2 eo ex s : α)
      (n : Node α), σ[j]? = some s → ks[j]? = some n → b = a0 + j →
      y = (if one then ⟨path ++ [b], n, pc, p1 * s, p2⟩ else ⟨path ++ [b], n, pc, p1, p2 * s⟩) →
      (pvActs c C' one i mult σ ks path pc p1 p2 a0 eo ex).1
        = (pvActs c C one i mult σ ks path pc p1 p2 a0 eo ex).1 ∧
      (pvActs c C' one i mult σ ks path pc p1 p2 a0 eo ex).2.1
        = (pvActs c C one i mult σ ks path pc p1 p2 a0 eo ex).2.1 ∧
      ((pvActs c C' one i mult σ ks path pc p1 p2 a0 eo ex).2.2 ++ E).Perm
        (pvActs c C one i mult σ ks path pc p1 p2 a0 eo ex).2.2
  | [], _, j, _, _, _, _, _, _, _, _, _, _, h, _, _, _ => by simp at h
  | _ :: _, [], j, _, _, _, _, _, _, _, _, _, _, _, h, _, _ => by simp at h
  | s0 :: σ, k0 :: ks, 0, path, a0, b, pc, p1, p2, eo, ex, s, n, hp, hn, hb, hyv => by
    simp only [List.getElem?_cons_zero, Option.some.injEq] at hp hn
    subst hp hn
    have hb' : b = a0 := by omega
    subst hb'
    have hirr : ∀ eo' ex', pvActs c C' one i mult σ ks path pc p1 p2 (b + 1) eo' ex'
        = pvActs c C one i mult σ ks path pc p1 p2 (b + 1) eo' ex' := fun eo' ex' =>
      pvActs_irr c C' C one i mult σ ks path pc p1 p2 (b + 1) eo' ex'
        (fun b' hb' q hq => hag q (by
          rw [hyv]; cases one <;> exact not_prefix_of_ne (by omega) hq))
    obtain ⟨h1, h2⟩ := hy
    simp only [pvActs]
    cases one
    · simp only [Bool.false_eq_true, if_false] at hyv ⊢
      subst hyv
      simp only [pvI] at h1 h2
      rw [h1, hirr]
      exact ⟨rfl, rfl, perm_head _ h2⟩
    · simp only [if_true] at hyv ⊢
      subst hyv
      simp only [pvI] at h1 h2
      rw [h1, hirr]
      exact ⟨rfl, rfl, perm_head _ h2⟩
  | s0 :: σ, k0 :: ks, j + 1, path, a0, b, pc, p1, p2, eo, ex, s, n, hp, hn, hb, hyv => by
    simp only [List.getElem?_cons_succ] at hp hn
    have hyp : y.path = path ++ [b] := by rw [hyv]; cases one <;> rfl
    have hirr : ∀ q1 q2, pv c C' k0 (path ++ [a0]) pc q1 q2 = pv c C k0 (path ++ [a0]) pc q1 q2 :=
      fun q1 q2 => pv_irr c C' C k0 (path ++ [a0]) pc q1 q2
        (fun q hq => hag q (by rw [hyp]; exact not_prefix_of_ne (by omega) hq))
    simp only [pvActs]
    rw [hirr, hirr]
    obtain ⟨h1, h2, h3⟩ := pvActs_step c C' C E y hag hy one i mult σ ks j path (a0 + 1) b pc p1 p2
      (eo + s0 * (if one then pv c C k0 (path ++ [a0]) pc (p1 * s0) p2
        else pv c C k0 (path ++ [a0]) pc p1 (p2 * s0)).1)
      (ex + (if one then pv c C k0 (path ++ [a0]) pc (p1 * s0) p2
        else pv c C k0 (path ++ [a0]) pc p1 (p2 * s0)).1 * mult * s0) s n hp hn (by omega) hyv
    refine ⟨h1, h2, ?_⟩
    rw [List.append_assoc]
    exact (List.Perm.cons _ h3).append_left _


/-- one step up: if the relation holds at a child `y` of `x`, the caches agree away from `y`
and neither has an entry at `x`, it holds at `x` -/
theorem relAt_step (c : VCtx α) (C' C : List (Path × α)) (E : List (Ev α)) (x y : VItem α) (a : Nat)
    (hv : vstep c x a = some y) (hx : cacheGet C x.path = none) (hx' : cacheGet C' x.path = none)
    (hag : ∀ q, ¬ y.path <+: q → cacheGet C' q = cacheGet C q) (hy : RelAt c C' C E y) :
    RelAt c C' C E x := by
  obtain ⟨xp, xn, xpc, x1, x2⟩ := x
  simp only at hx hx'
  cases xn with
  | term p => simp [vstep] at hv
  | chance i ks =>
    simp only [vstep] at hv
    cases hs : c.sampled with
    | true =>
      simp only [hs, if_true] at hv
      split_ifs at hv with hak
      · subst hak
        simp only [Option.map_eq_some_iff] at hv
        obtain ⟨n, hn, hv⟩ := hv
        subst hv
        unfold RelAt pvI
        simp only
        rw [pv_chance_s c C _ _ _ _ _ _ hx hs, pv_chance_s c C' _ _ _ _ _ _ hx' hs,
          pvNth_eq, pvNth_eq, hn]
        obtain ⟨h1, h2⟩ := hy
        exact ⟨h1, List.Perm.cons _ h2⟩
    | false =>
      simp only [hs, Bool.false_eq_true, if_false] at hv
      split at hv
      · rename_i p n hp hn
        simp only [Option.some.injEq] at hv
        unfold RelAt pvI
        simp only
        rw [pv_chance_f c C _ _ _ _ _ _ hx hs, pv_chance_f c C' _ _ _ _ _ _ hx' hs]
        exact pvChance_step c C' C E y hag hy _ ks a xp 0 a xpc x1 x2 0 p n hp hn (by omega) hv.symm
      · simp at hv
  | player one i ks =>
    simp only [vstep] at hv
    split at hv
    · rename_i s n hs hn
      simp only [Option.some.injEq] at hv
      unfold RelAt pvI
      simp only
      rw [pv_player c C _ _ _ _ _ _ _ hx, pv_player c C' _ _ _ _ _ _ _ hx']
      obtain ⟨h1, h2, h3⟩ := pvActs_step c C' C E y hag hy one i
        (if one then xpc * x2 else -x1 * xpc) _ ks a xp 0 a xpc x1 x2 0 0 s n hs hn (by omega) hv.symm
      simp only
      rw [h1, h2]
      exact ⟨rfl, perm_mid _ _ h3⟩
    · simp at hv

/-- caching one more node `x0` (with the value of its plain traversal) that is incomparable with
all cached paths: at every ancestor `x` the value is unchanged and exactly the events of `x0`'s
plain traversal disappear -/
theorem relAt_desc (c : VCtx α) (C : List (Path × α)) (x0 : VItem α)
    (hinc : ∀ e ∈ C, ¬ e.1 <+: x0.path ∧ ¬ x0.path <+: e.1) :
    ∀ (r : List Nat) (x : VItem α), vdesc c x r = some x0 →
      RelAt c ((x0.path, (pvI c [] x0).1) :: C) C (pvI c [] x0).2 x
  | [], x, h => by
    simp only [vdesc, Option.some.injEq] at h
    subst h
    have h1 : pvI c ((x.path, (pvI c [] x).1) :: C) x = ((pvI c [] x).1, []) := by
      unfold pvI
      exact pv_hit c _ _ _ _ _ _ _ (by rw [cacheGet_cons, if_pos rfl])
    have h2 : pvI c C x = pvI c [] x := by
      unfold pvI
      apply pv_irr
      intro q hq
      rw [cacheGet_nil]
      exact cacheGet_eq_none (fun e he heq => (hinc e he).2 (heq ▸ hq))
    unfold RelAt
    rw [h1, h2]
    exact ⟨rfl, by simp⟩
  | a :: r, x, h => by
    simp only [vdesc] at h
    cases hs : vstep c x a with
    | none => simp [hs] at h
    | some y =>
      simp only [hs, Option.bind_some] at h
      have hyp := vstep_path hs
      have h0p := vdesc_path r h
      have hpre : x.path <+: x0.path := by
        rw [h0p, hyp, List.append_assoc]; exact List.prefix_append _ _
      have hne : x0.path ≠ x.path := by
        intro heq
        have := congrArg List.length heq
        rw [h0p, hyp] at this
        simp at this
      have hx : cacheGet C x.path = none :=
        cacheGet_eq_none (fun e he heq => (hinc e he).1 (heq ▸ hpre))
      have hx' : cacheGet ((x0.path, (pvI c [] x0).1) :: C) x.path = none := by
        rw [cacheGet_cons, if_neg hne]; exact hx
      refine relAt_step c _ C _ x y a hs hx hx' ?_ (relAt_desc c C x0 hinc r y h)
      intro q hq
      rw [cacheGet_cons, if_neg]
      intro heq
      apply hq
      rw [← heq, h0p]
      exact List.prefix_append _ _


/-! ## cuts -/

def Incomp (x y : VItem α) : Prop := ¬ x.path <+: y.path ∧ ¬ y.path <+: x.path

theorem Incomp.symm {x y : VItem α} (h : Incomp x y) : Incomp y x := ⟨h.2, h.1⟩

/-- every item is the position the plain traversal reaches along its path (with the reach
triple), and no item is below another -/
def CutInv (c : VCtx α) (r0 : VItem α) (S : List (VItem α)) : Prop :=
  (∀ x ∈ S, vdesc c r0 x.path = some x) ∧ S.Pairwise Incomp

theorem CutInv.perm {c : VCtx α} {r0 : VItem α} {S S' : List (VItem α)} (h : CutInv c r0 S)
    (hp : S.Perm S') : CutInv c r0 S' :=
  ⟨fun x hx => h.1 x (hp.symm.subset hx), (hp.pairwise_iff Incomp.symm).1 h.2⟩

theorem CutInv.sublist {c : VCtx α} {r0 : VItem α} {S S' : List (VItem α)} (h : CutInv c r0 S)
    (hs : S'.Sublist S) : CutInv c r0 S' :=
  ⟨fun x hx => h.1 x (hs.subset hx), h.2.sublist hs⟩

def cacheOf (c : VCtx α) (Q : List (VItem α)) : List (Path × α) :=
  Q.map (fun x => (x.path, (pvI c [] x).1))

def taskEvs (c : VCtx α) (Q : List (VItem α)) : List (Ev α) :=
  Q.flatMap (fun x => (pvI c [] x).2)

/-- **decomposition**: the tasks on a cut and the cached traversal from the root together perform
the events of the plain traversal, and the cached traversal returns its value -/
theorem cut_decomp (c : VCtx α) (r0 : VItem α) :
    ∀ (Q : List (VItem α)), CutInv c r0 Q →
      (pvI c (cacheOf c Q) r0).1 = (pvI c [] r0).1 ∧
      (taskEvs c Q ++ (pvI c (cacheOf c Q) r0).2).Perm (pvI c [] r0).2
  | [], _ => by simp [cacheOf, taskEvs]
  | x :: Q, h => by
    have hQ : CutInv c r0 Q := h.sublist (List.sublist_cons_self x Q)
    obtain ⟨ih1, ih2⟩ := cut_decomp c r0 Q hQ
    have hinc : ∀ e ∈ cacheOf c Q, ¬ e.1 <+: x.path ∧ ¬ x.path <+: e.1 := by
      intro e he
      obtain ⟨y, hy, rfl⟩ := List.mem_map.mp he
      exact ((List.pairwise_cons.mp h.2).1 y hy).symm
    have hd : vdesc c r0 x.path = some x := h.1 x List.mem_cons_self
    obtain ⟨h1, h2⟩ := relAt_desc c (cacheOf c Q) x hinc x.path r0 hd
    have hc : cacheOf c (x :: Q) = (x.path, (pvI c [] x).1) :: cacheOf c Q := rfl
    have ht : taskEvs c (x :: Q) = (pvI c [] x).2 ++ taskEvs c Q := by simp [taskEvs]
    rw [hc, ht]
    refine ⟨h1.trans ih1, ?_⟩
    refine List.Perm.trans ?_ ih2
    rw [List.append_assoc]
    refine List.perm_append_comm.trans ?_
    rw [List.append_assoc]
    exact h2.append_left _

/-- the events of the subtree at a reachable position are events of the whole traversal -/
theorem evs_sub (c : VCtx α) (r0 x : VItem α) (hd : vdesc c r0 x.path = some x) :
    ∀ e ∈ (pvI c [] x).2, e ∈ (pvI c [] r0).2 := by
  obtain ⟨-, h2⟩ := relAt_desc c [] x (fun e he => absurd he List.not_mem_nil) x.path r0 hd
  intro e he
  exact h2.subset (List.mem_append_right _ he)

/-! ## the children pushed by the frontier loop -/

theorem chanceItems_spec (path : Path) (pc p1 p2 : α) : ∀ (ps : List α) (ks : List (Node α)) (a0 : Nat),
    (∀ y ∈ chanceItems path pc p1 p2 ps ks a0, ∃ j p n, ps[j]? = some p ∧ ks[j]? = some n ∧
      y = ⟨path ++ [a0 + j], n, pc * p, p1, p2⟩) ∧
    (chanceItems path pc p1 p2 ps ks a0).Pairwise (fun y z => y.path ≠ z.path)
  | [], _, _ => by simp [chanceItems]
  | _ :: _, [], _ => by simp [chanceItems]
  | p :: ps, k :: ks, a0 => by
    obtain ⟨ih1, ih2⟩ := chanceItems_spec path pc p1 p2 ps ks (a0 + 1)
    simp only [chanceItems]
    constructor
    · intro y hy
      rcases List.mem_cons.mp hy with rfl | hy
      · exact ⟨0, p, k, rfl, rfl, rfl⟩
      · obtain ⟨j, p', n, h1, h2, h3⟩ := ih1 y hy
        exact ⟨j + 1, p', n, h1, h2, by rw [h3, show a0 + 1 + j = a0 + (j + 1) by omega]⟩
    · refine List.pairwise_cons.mpr ⟨?_, ih2⟩
      intro y hy
      obtain ⟨j, p', n, -, -, h3⟩ := ih1 y hy
      rw [h3]
      simp
      omega

theorem childItems_spec (one : Bool) (path : Path) (pc p1 p2 : α) :
    ∀ (σ : List α) (ks : List (Node α)) (a0 : Nat),
    (∀ y ∈ childItems one path pc p1 p2 σ ks a0, ∃ j s n, σ[j]? = some s ∧ ks[j]? = some n ∧
      y = (if one then ⟨path ++ [a0 + j], n, pc, p1 * s, p2⟩
        else ⟨path ++ [a0 + j], n, pc, p1, p2 * s⟩)) ∧
    (childItems one path pc p1 p2 σ ks a0).Pairwise (fun y z => y.path ≠ z.path)
  | [], _, _ => by simp [childItems]
  | _ :: _, [], _ => by simp [childItems]
  | s :: σ, k :: ks, a0 => by
    obtain ⟨ih1, ih2⟩ := childItems_spec one path pc p1 p2 σ ks (a0 + 1)
    simp only [childItems]
    constructor
    · intro y hy
      rcases List.mem_cons.mp hy with rfl | hy
      · exact ⟨0, s, k, rfl, rfl, rfl⟩
      · obtain ⟨j, s', n, h1, h2, h3⟩ := ih1 y hy
        exact ⟨j + 1, s', n, h1, h2, by rw [h3, show a0 + 1 + j = a0 + (j + 1) by omega]⟩
    · refine List.pairwise_cons.mpr ⟨?_, ih2⟩
      intro y hy
      obtain ⟨j, s', n, -, -, h3⟩ := ih1 y hy
      rw [h3]
      cases one <;> simp <;> omega

/-- replacing an item of a cut by (some of) its children gives a cut -/
theorem CutInv.replace {c : VCtx α} {r0 it : VItem α} {R ch : List (VItem α)}
    (h : CutInv c r0 (it :: R)) (hch : ∀ y ∈ ch, ∃ a, vstep c it a = some y)
    (hne : ch.Pairwise (fun y z => y.path ≠ z.path)) : CutInv c r0 (ch ++ R) := by
  have hR : CutInv c r0 R := h.sublist (List.sublist_cons_self it R)
  have hit : vdesc c r0 it.path = some it := h.1 it List.mem_cons_self
  have hiR := (List.pairwise_cons.mp h.2).1
  constructor
  · intro x hx
    rcases List.mem_append.mp hx with hx | hx
    · obtain ⟨a, ha⟩ := hch x hx
      rw [vstep_path ha]
      exact vdesc_snoc c it.path a r0 it x hit ha
    · exact hR.1 x hx
  · rw [List.pairwise_append]
    refine ⟨?_, hR.2, ?_⟩
    · refine hne.imp_of_mem ?_
      intro y z hy hz hyz
      obtain ⟨a, ha⟩ := hch y hy
      obtain ⟨b, hb⟩ := hch z hz
      have hly : y.path.length = z.path.length := by
        rw [vstep_path ha, vstep_path hb]; simp
      exact ⟨fun hp => hyz (hp.eq_of_length hly), fun hp => hyz (hp.eq_of_length hly.symm).symm⟩
    · intro y hy z hz
      obtain ⟨a, ha⟩ := hch y hy
      have hyp := vstep_path ha
      obtain ⟨i1, i2⟩ := hiR z hz
      constructor
      · intro hp
        rw [hyp] at hp
        exact i1 (prefix_of_snoc_prefix hp)
      · intro hp
        rw [hyp, List.prefix_concat_iff] at hp
        rcases hp with hp | hp
        · exact i1 (hp ▸ List.prefix_append _ _)
        · exact i2 hp


/-! ## the draw log is determined by the set of sampled infosets -/

def keys (d : DrawSt α) : List Nat := d.chance.map Prod.fst

/-- the log record of a fresh draw at chance infoset `i` -/
def drec (c : VCtx α) (i : Nat) : DrawRec α := ⟨0, i, c.pass, c.ch.getD i [], kdraw c i⟩

/-- cached samples are the oracle's, every infoset is cached once, and the log is the initial
log plus one record per cached infoset (newest first) -/
def Good (c : VCtx α) (log0 : List (DrawRec α)) (d : DrawSt α) : Prop :=
  Cons c d ∧ (keys d).Nodup ∧ d.log = (keys d).map (drec c) ++ log0

theorem assocGet_eq_none_iff (l : List (Nat × Nat)) (i : Nat) :
    assocGet l i = none ↔ i ∉ l.map Prod.fst := by
  unfold assocGet
  simp only [Option.map_eq_none_iff, List.find?_eq_none, List.mem_map, not_exists, not_and]
  constructor
  · intro h e he hei
    have := h e he
    simp [hei] at this
  · intro h e he
    simpa using h e he

theorem Good.init (c : VCtx α) (log0 : List (DrawRec α)) : Good c log0 { log := log0 } :=
  ⟨fun i k h => by simp [assocGet] at h, by simp [keys], by simp [keys]⟩

theorem Good.drawOne {c : VCtx α} {log0 : List (DrawRec α)} {d : DrawSt α} (h : Good c log0 d)
    (i : Nat) : Good c log0 (drawOne c i d) ∧ ∀ j, j ∈ keys (drawOne c i d) ↔ j = i ∨ j ∈ keys d := by
  obtain ⟨h1, h2, h3⟩ := h
  refine ⟨⟨h1.drawOne i, ?_⟩, ?_⟩
  · unfold Cfr.Van.drawOne
    cases hg : assocGet d.chance i with
    | some k => simp only [sampleChance, hg]; exact ⟨h2, h3⟩
    | none =>
      simp only [sampleChance, hg]
      have hni := (assocGet_eq_none_iff _ _).1 hg
      refine ⟨?_, ?_⟩
      · simp only [keys, List.map_cons]
        exact List.nodup_cons.mpr ⟨hni, h2⟩
      · simp only [keys, List.map_cons, List.cons_append, h3]
        rfl
  · unfold Cfr.Van.drawOne
    cases hg : assocGet d.chance i with
    | some k =>
      simp only [sampleChance, hg]
      have hi : i ∈ keys d := by
        by_contra hni
        rw [(assocGet_eq_none_iff _ _).2 hni] at hg
        exact absurd hg (by simp)
      intro j
      constructor
      · exact Or.inr
      · rintro (rfl | hj)
        · exact hi
        · exact hj
    | none =>
      simp only [sampleChance, hg]
      intro j
      simp [keys]

theorem Good.drawAll {c : VCtx α} {log0 : List (DrawRec α)} : ∀ (ids : List Nat) {d : DrawSt α},
    Good c log0 d →
      Good c log0 (drawAll c ids d) ∧ ∀ j, j ∈ keys (drawAll c ids d) ↔ j ∈ keys d ∨ j ∈ ids
  | [], d, h => ⟨h, fun j => by simp⟩
  | i :: ids, d, h => by
    obtain ⟨g1, k1⟩ := h.drawOne i
    obtain ⟨g2, k2⟩ := Good.drawAll ids g1
    refine ⟨g2, fun j => ?_⟩
    rw [drawAll_cons, k2, k1, List.mem_cons]
    tauto

/-- two good draw states with the same set of sampled infosets have the same log up to order -/
theorem Good.log_perm {c : VCtx α} {log0 log0' : List (DrawRec α)} {d d' : DrawSt α}
    (h : Good c log0 d) (h' : Good c log0' d') (hk : ∀ j, j ∈ keys d ↔ j ∈ keys d')
    (hl : log0.Perm log0') : d.log.Perm d'.log := by
  rw [h.2.2, h'.2.2]
  exact (((List.perm_ext_iff_of_nodup h.2.1 h'.2.1).2 hk).map _).append hl

/-! ## the frontier loop keeps a cut -/

/-- what the frontier loop maintains about the draw state -/
def DInv (c : VCtx α) (r0 : VItem α) (log0 : List (DrawRec α)) (dinit d : DrawSt α) : Prop :=
  Good c log0 d ∧ (∀ j ∈ keys d, Sum.inr j ∈ (pvI c [] r0).2) ∧ (c.sampled = false → d = dinit)

theorem vThreshold_inv (c : VCtx α) (r0 : VItem α) (target : Nat) (log0 : List (DrawRec α))
    (dinit : DrawSt α) : ∀ (fuel : Nat) (queue work : List (VItem α)) (d : DrawSt α),
    CutInv c r0 (queue ++ work) → DInv c r0 log0 dinit d →
      CutInv c r0 ((vThreshold c target fuel queue work d).1
        ++ (vThreshold c target fuel queue work d).2.1) ∧
      DInv c r0 log0 dinit (vThreshold c target fuel queue work d).2.2
  | 0, queue, work, d, hc, hd => by simp only [vThreshold]; exact ⟨hc, hd⟩
  | fuel + 1, queue, work, d, hc, hd => by
    rw [vThreshold]
    by_cases hcond : (!(queue.isEmpty && work.isEmpty) &&
        decide (queue.length + work.length < target)) = true
    · rw [if_pos hcond]
      cases hl : queue.getLast? with
      | none =>
        simp only
        exact vThreshold_inv c r0 target log0 dinit fuel work queue d
          (hc.perm List.perm_append_comm) hd
      | some it =>
        simp only
        have hq : queue.dropLast ++ [it] = queue := List.dropLast_append_getLast? it hl
        have hqw : queue ++ work = queue.dropLast ++ it :: work := by
          conv_lhs => rw [← hq]
          simp
        have hc' : CutInv c r0 (it :: (queue.dropLast ++ work)) := by
          rw [hqw] at hc; exact hc.perm List.perm_middle
        have hcs : CutInv c r0 (queue.dropLast ++ work) := hc'.sublist (List.sublist_cons_self _ _)
        have hit : vdesc c r0 it.path = some it := hc'.1 it List.mem_cons_self
        have hrep : ∀ ch : List (VItem α), (∀ y ∈ ch, ∃ a, vstep c it a = some y) →
            ch.Pairwise (fun y z => y.path ≠ z.path) →
            CutInv c r0 (queue.dropLast ++ (work ++ ch)) := by
          intro ch h1 h2
          rw [← List.append_assoc]
          exact (hc'.replace h1 h2).perm List.perm_append_comm
        cases hn : it.node with
        | term p =>
          simp only
          exact vThreshold_inv c r0 target log0 dinit fuel _ work d hcs hd
        | chance i ks =>
          simp only
          cases hs : c.sampled with
          | true =>
            simp only [if_true, sampleChance_cons c i d hd.1.1]
            obtain ⟨g1, k1⟩ := hd.1.drawOne i
            have hi : Sum.inr i ∈ (pvI c [] r0).2 := by
              apply evs_sub c r0 it hit
              unfold pvI
              rw [hn, pv_chance_s c [] _ _ _ _ _ _ (cacheGet_nil _) hs]
              exact List.mem_cons_self
            have hd' : DInv c r0 log0 dinit (drawOne c i d) := by
              refine ⟨g1, ?_, fun hf => absurd (hs.symm.trans hf) (by decide)⟩
              intro j hj
              rcases (k1 j).1 hj with rfl | hj
              · exact hi
              · exact hd.2.1 j hj
            cases hk : ks[kdraw c i]? with
            | some n =>
              simp only
              refine vThreshold_inv c r0 target log0 dinit fuel _ _ _ (hrep _ ?_ ?_) hd'
              · intro y hy
                rw [List.mem_singleton] at hy
                refine ⟨kdraw c i, ?_⟩
                rw [hy, mul_one]
                simp [vstep, hn, hs, hk]
              · simp
            | none =>
              simp only
              exact vThreshold_inv c r0 target log0 dinit fuel _ work _ hcs hd'
          | false =>
            simp only [Bool.false_eq_true, if_false]
            obtain ⟨s1, s2⟩ := chanceItems_spec it.path it.pc it.p1 it.p2 (c.ch.getD i []) ks 0
            refine vThreshold_inv c r0 target log0 dinit fuel _ _ d (hrep _ ?_ s2) hd
            intro y hy
            obtain ⟨j, p, n, hp, hn', rfl⟩ := s1 y hy
            refine ⟨j, ?_⟩
            simp only [vstep, hn, hs, Bool.false_eq_true, if_false, Nat.zero_add, hp, hn']
        | player one i ks =>
          simp only
          obtain ⟨s1, s2⟩ := childItems_spec one it.path it.pc it.p1 it.p2 (c.strat one i) ks 0
          refine vThreshold_inv c r0 target log0 dinit fuel _ _ d (hrep _ ?_ s2) hd
          intro y hy
          obtain ⟨j, s, n, hp, hn', rfl⟩ := s1 y hy
          refine ⟨j, ?_⟩
          simp [vstep, hn, hp, hn']
    · rw [if_neg hcond]; exact ⟨hc, hd⟩


/-! ## the unsampled traversal visits no sampled infoset -/

mutual
theorem pv_ids_full (c : VCtx α) (C : List (Path × α)) (hs : c.sampled = false) :
    ∀ (n : Node α) (path : Path) (pc p1 p2 : α), idsOf (pv c C n path pc p1 p2).2 = []
  | .term p, path, pc, p1, p2 => by
    cases hc : cacheGet C path with
    | some v => rw [pv_hit c C _ _ _ _ _ v hc]; rfl
    | none => rw [pv_term c C _ _ _ _ _ hc]; rfl
  | .chance i ks, path, pc, p1, p2 => by
    cases hc : cacheGet C path with
    | some v => rw [pv_hit c C _ _ _ _ _ v hc]; rfl
    | none =>
      rw [pv_chance_f c C _ _ _ _ _ _ hc hs]
      exact pvChance_ids_full c C hs _ ks path 0 pc p1 p2 0
  | .player one i ks, path, pc, p1, p2 => by
    cases hc : cacheGet C path with
    | some v => rw [pv_hit c C _ _ _ _ _ v hc]; rfl
    | none =>
      rw [pv_player c C _ _ _ _ _ _ _ hc]
      simp [pvActs_ids_full c C hs one i _ _ ks path pc p1 p2 0 0 0]
theorem pvChance_ids_full (c : VCtx α) (C : List (Path × α)) (hs : c.sampled = false) :
    ∀ (ps : List α) (ks : List (Node α)) (path : Path) (a : Nat) (pc p1 p2 acc : α),
      idsOf (pvChance c C ps ks path a pc p1 p2 acc).2 = []
  | p :: ps, k :: ks, path, a, pc, p1, p2, acc => by
    simp only [pvChance, idsOf_append, pv_ids_full c C hs k, pvChance_ids_full c C hs ps ks,
      List.append_nil]
  | [], _, _, _, _, _, _, _ => by simp [pvChance]
  | _ :: _, [], _, _, _, _, _, _ => by simp [pvChance]
theorem pvActs_ids_full (c : VCtx α) (C : List (Path × α)) (hs : c.sampled = false) (one : Bool)
    (i : Nat) (mult : α) :
    ∀ (σ : List α) (ks : List (Node α)) (path : Path) (pc p1 p2 : α) (a : Nat) (eo ex : α),
      idsOf (pvActs c C one i mult σ ks path pc p1 p2 a eo ex).2.2 = []
  | s :: σ, k :: ks, path, pc, p1, p2, a, eo, ex => by
    simp only [pvActs, idsOf_append, idsOf_inl, pvActs_ids_full c C hs one i mult σ ks,
      List.append_nil]
    cases one <;> simp [pv_ids_full c C hs k]
  | [], _, _, _, _, _, _, _, _ => by simp [pvActs]
  | _ :: _, [], _, _, _, _, _, _, _ => by simp [pvActs]
end

theorem taskEvs_ids_full (c : VCtx α) (hs : c.sampled = false) (Q : List (VItem α)) :
    idsOf (taskEvs c Q) = [] := by
  induction Q with
  | nil => rfl
  | cons x Q ih =>
    have ht : taskEvs c (x :: Q) = (pvI c [] x).2 ++ taskEvs c Q := by simp [taskEvs]
    rw [ht, idsOf_append, ih]
    unfold pvI
    rw [pv_ids_full c [] hs]; rfl

/-! ## the three phases of a multi-threaded iteration -/

theorem vrec_pv (c : VCtx α) (x : VItem α) (d : DrawSt α) (hd : Cons c d) :
    vrec c x.node x.pc x.p1 x.p2 d =
      ((pvI c [] x).1, effsOf (pvI c [] x).2, drawAll c (idsOf (pvI c [] x).2) d) := by
  rw [← vrecC_nil c x.node x.path]
  exact vrecC_pv c [] x.node x.path x.pc x.p1 x.p2 d hd

theorem vRunTasks_spec (c : VCtx α) : ∀ (Q : List (VItem α)) (d : DrawSt α), Cons c d →
    vRunTasks c Q d = (cacheOf c Q, effsOf (taskEvs c Q), drawAll c (idsOf (taskEvs c Q)) d)
  | [], d, _ => by simp [vRunTasks, cacheOf, taskEvs]
  | x :: Q, d, hd => by
    simp only [vRunTasks]
    rw [vrec_pv c x d hd]
    simp only
    rw [vRunTasks_spec c Q _ (hd.drawAll _)]
    simp [cacheOf, taskEvs, drawAll_append]

/-- the root position -/
def rootItem (g : Game α) : VItem α := ⟨[], g.root, 1, 1, 1⟩

/-- **one multi-threaded traversal phase**: its accumulations are a rearrangement of those of the
plain traversal; its draw state is good, has sampled exactly the infosets the plain traversal
samples, and is untouched when nothing is sampled -/
theorem vanillaMultiEffects_spec (g : Game α) (c : VCtx α) (target : Nat) (log : List (DrawRec α)) :
    ((vanillaMultiEffects g c target log).1).Perm (effsOf (pvI c [] (rootItem g)).2) ∧
    Good c log (vanillaMultiEffects g c target log).2 ∧
    (∀ j, j ∈ keys (vanillaMultiEffects g c target log).2 ↔ j ∈ idsOf (pvI c [] (rootItem g)).2) ∧
    (c.sampled = false → (vanillaMultiEffects g c target log).2 = { log := log }) := by
  have hc0 : CutInv c (rootItem g) ([rootItem g] ++ []) := by
    refine ⟨?_, by simp⟩
    intro x hx
    simp only [List.append_nil, List.mem_singleton] at hx
    subst hx
    rfl
  have hd0 : DInv c (rootItem g) log { log := log } { log := log } :=
    ⟨Good.init c log, fun j hj => by simp [keys] at hj, fun _ => rfl⟩
  obtain ⟨hc1, hg1, hk1, hf1⟩ := vThreshold_inv c (rootItem g) target log { log := log }
    (2 * g.root.size + 2) [rootItem g] [] { log := log } hc0 hd0
  have hQ : CutInv c (rootItem g)
      (vThreshold c target (2 * g.root.size + 2) [rootItem g] [] { log := log }).1 :=
    hc1.sublist (List.sublist_append_left _ _)
  obtain ⟨dv, dp⟩ := cut_decomp c (rootItem g) _ hQ
  have heq : vanillaMultiEffects g c target log =
      (effsOf (taskEvs c (vThreshold c target (2 * g.root.size + 2) [rootItem g] [] { log := log }).1
          ++ (pvI c (cacheOf c (vThreshold c target (2 * g.root.size + 2) [rootItem g] []
            { log := log }).1) (rootItem g)).2),
        drawAll c (idsOf (taskEvs c
            (vThreshold c target (2 * g.root.size + 2) [rootItem g] [] { log := log }).1
          ++ (pvI c (cacheOf c (vThreshold c target (2 * g.root.size + 2) [rootItem g] []
            { log := log }).1) (rootItem g)).2))
          (vThreshold c target (2 * g.root.size + 2) [rootItem g] [] { log := log }).2.2) := by
    unfold vanillaMultiEffects
    simp only
    rw [show (⟨[], g.root, 1, 1, 1⟩ : VItem α) = rootItem g from rfl]
    rw [vRunTasks_spec c _ _ hg1.1]
    simp only
    rw [vrecC_pv c _ g.root [] 1 1 1 _ (hg1.1.drawAll _)]
    simp only [effsOf_append, idsOf_append, drawAll_append]
    rfl
  rw [heq]
  obtain ⟨g2, k2⟩ := Good.drawAll (c := c) (idsOf (taskEvs c
      (vThreshold c target (2 * g.root.size + 2) [rootItem g] [] { log := log }).1
    ++ (pvI c (cacheOf c (vThreshold c target (2 * g.root.size + 2) [rootItem g] []
      { log := log }).1) (rootItem g)).2)) hg1
  refine ⟨effsOf_perm dp, g2, ?_, ?_⟩
  · intro j
    rw [k2, (idsOf_perm dp).mem_iff]
    constructor
    · rintro (h | h)
      · exact mem_idsOf.2 (hk1 j h)
      · exact h
    · exact Or.inr
  · intro hs
    simp only
    rw [idsOf_append, taskEvs_ids_full c hs]
    unfold pvI
    rw [pv_ids_full c _ hs, hf1 hs]
    rfl


/-! ## one iteration, the whole solve -/

/-- one multi-threaded iteration against one single-threaded iteration started with a
rearranged log: same state, same bounds, rearranged log (the same log when nothing is sampled) -/
theorem vanillaMultiIterS_rel (sched : Sched α) (hs : sched.Fair) (g : Game α) (sampled : Bool)
    (p : RegretParams α) (draw : DrawFn α) (target it : Nat) (s : SolveSt α)
    (log log' : List (DrawRec α)) :
    (vanillaMultiIterS sched g sampled p draw target it s log).1
      = (vanillaIter g sampled p draw it s log').1 ∧
    (vanillaMultiIterS sched g sampled p draw target it s log).2.1
      = (vanillaIter g sampled p draw it s log').2.1 ∧
    (vanillaMultiIterS sched g sampled p draw target it s log).2.2.1
      = (vanillaIter g sampled p draw it s log').2.2.1 ∧
    (log.Perm log' → (vanillaMultiIterS sched g sampled p draw target it s log).2.2.2.Perm
      (vanillaIter g sampled p draw it s log').2.2.2) ∧
    (sampled = false → log = log' → (vanillaMultiIterS sched g sampled p draw target it s log).2.2.2
      = (vanillaIter g sampled p draw it s log').2.2.2) := by
  obtain ⟨e1, e2, e3, e4⟩ :=
    vanillaMultiEffects_spec g ⟨g.chance, sampled, s.strat, draw, it - 1⟩ target log
  have hv := vrec_pv ⟨g.chance, sampled, s.strat, draw, it - 1⟩ (rootItem g) { log := log' }
    (Good.init _ log').1
  have hst : s.applyEffs (sched it
      (vanillaMultiEffects g ⟨g.chance, sampled, s.strat, draw, it - 1⟩ target log).1)
      = s.applyEffs (effsOf (pvI ⟨g.chance, sampled, s.strat, draw, it - 1⟩ [] (rootItem g)).2) :=
    SolveSt.applyEffs_perm s ((hs it _).trans e1)
  unfold vanillaMultiIterS vanillaIter
  simp only
  rw [show vrec ⟨g.chance, sampled, s.strat, draw, it - 1⟩ g.root 1 1 1 { log := log' }
    = _ from hv, hst]
  refine ⟨rfl, rfl, rfl, ?_, ?_⟩
  · intro hl
    simp only
    obtain ⟨g2, k2⟩ := Good.drawAll (c := ⟨g.chance, sampled, s.strat, draw, it - 1⟩)
      (idsOf (pvI ⟨g.chance, sampled, s.strat, draw, it - 1⟩ [] (rootItem g)).2) (Good.init _ log')
    refine Good.log_perm e2 g2 ?_ hl
    intro j
    rw [e3, k2]
    simp [keys]
  · intro hf hl
    subst hf hl
    simp only
    rw [e4 rfl]
    unfold pvI
    rw [pv_ids_full _ _ rfl]
    rfl

theorem solveLoop_succ' (step : IterFn α) (thr : Option (Ext α)) (n it : Nat) (s : SolveSt α)
    (r1 r2 : Ext α) (log : List (DrawRec α)) :
    solveLoop step thr (n + 1) it s r1 r2 log =
      if belowThreshold (step it s log).2.1 (step it s log).2.2.1 thr = true then
        ⟨.fin (step it s log).2.1, .fin (step it s log).2.2.1, (step it s log).1.avg true,
          (step it s log).1.avg false, it, (step it s log).2.2.2⟩
      else solveLoop step thr n (it + 1) (step it s log).1 (.fin (step it s log).2.1)
        (.fin (step it s log).2.2.1) (step it s log).2.2.2 := by
  rw [solveLoop]

/-- two iteration functions that agree on state and bounds and keep logs rearrangements of each
other give solves that agree -/
theorem solveLoop_same (step step' : IterFn α) (thr : Option (Ext α))
    (h : ∀ it s log log', log.Perm log' →
      (step it s log).1 = (step' it s log').1 ∧ (step it s log).2.1 = (step' it s log').2.1 ∧
      (step it s log).2.2.1 = (step' it s log').2.2.1 ∧
      (step it s log).2.2.2.Perm (step' it s log').2.2.2) :
    ∀ (n it : Nat) (s : SolveSt α) (r1 r2 : Ext α) (log log' : List (DrawRec α)), log.Perm log' →
      (solveLoop step thr n it s r1 r2 log).Same (solveLoop step' thr n it s r1 r2 log')
  | 0, it, s, r1, r2, log, log', hl => by
    simp only [solveLoop]
    exact ⟨rfl, rfl, rfl, rfl, rfl, hl⟩
  | n + 1, it, s, r1, r2, log, log', hl => by
    obtain ⟨h1, h2, h3, h4⟩ := h it s log log' hl
    rw [solveLoop_succ', solveLoop_succ', h1, h2, h3]
    split_ifs with hb
    · exact ⟨rfl, rfl, rfl, rfl, rfl, h4⟩
    · exact solveLoop_same step step' thr h n (it + 1) _ _ _ _ _ h4


end Van

end Cfr
