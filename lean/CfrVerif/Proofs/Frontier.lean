import CfrVerif.Proofs.Effects
import CfrVerif.Model.Dispatch
/-!
# Frontier decomposition for the vanilla (full / chance-sampled) multi-threaded iteration

The breadth-first frontier (`vThreshold`) is a cut of the tree that carries the reach
probabilities of the current strategies; the tasks' traversals of the drained cut nodes together
with the cached traversal from the root perform exactly the accumulations of the plain
traversal, and the cached traversal returns the plain traversal's value.
-/
set_option linter.unusedSectionVars false
namespace Cfr
variable {α : Type} [Field α] [LinearOrder α] [IsStrictOrderedRing α] [Transc α]

/-- a schedule only rearranges the atomic accumulations it is given -/
def Sched.Fair (sched : Sched α) : Prop := ∀ it es, (sched it es).Perm es

theorem Sched.seq_fair : (Sched.seq : Sched α).Fair := fun _ _ => List.Perm.refl _

/-- two solver results agree: bounds, strategies and iteration count are equal and the same
draws were made (in some order) -/
def SolveOut.Same (a b : SolveOut α) : Prop :=
  a.regOne = b.regOne ∧ a.regTwo = b.regTwo ∧ a.stratOne = b.stratOne ∧ a.stratTwo = b.stratTwo ∧
  a.iters = b.iters ∧ a.log.Perm b.log

end Cfr
