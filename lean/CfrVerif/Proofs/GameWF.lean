import CfrVerif.Proofs.Tables
import CfrVerif.Model.Compile
/-!
# Well-formed compiled games: what evaluation and the solvers rely on

`GameWF g` collects the guarantees of a successful `Game::from_root` that the rest of
the crate uses without checking: indices in range, every interior node has at least two
children and as many as its infoset has actions / outcomes, chance probabilities positive
and summing to one, well-formed label tables, and **perfect recall in history form**:
each player's infoset determines the player's own sequence of `(infoset, action index)`
decisions leading to it.
-/
set_option linter.unusedSectionVars false
namespace Cfr
variable {α : Type}

mutual
/-- indices in range and arities as declared by the infoset tables -/
def NodeOK (g : Game α) : Node α → Prop
  | .term _ => True
  | .chance i ks =>
    (∃ ps, g.chance[i]? = some ps ∧ ps.length = ks.length) ∧ 2 ≤ ks.length ∧ NodeOKL g ks
  | .player one i ks =>
    (∃ e, (g.infos one)[i]? = some e ∧ e.actions.length = ks.length) ∧ 2 ≤ ks.length ∧ NodeOKL g ks
def NodeOKL (g : Game α) : List (Node α) → Prop
  | [] => True
  | k :: ks => NodeOK g k ∧ NodeOKL g ks
end

/-- an own history: the player's earlier decisions `(infoset index, action index)`, oldest first -/
abbrev Hist := List (Nat × Nat)

mutual
/-- perfect recall of player `me` in history form: every node of infoset `i` is reached
after exactly the own history `hist i` -/
def PR (me : Bool) (hist : Nat → Hist) : Hist → Node α → Prop
  | _, .term _ => True
  | H, .chance _ ks => PRL me hist H ks
  | H, .player one i ks =>
    if one = me then hist i = H ∧ PRD me hist H i 0 ks else PRL me hist H ks
/-- children that do not extend the own history -/
def PRL (me : Bool) (hist : Nat → Hist) : Hist → List (Node α) → Prop
  | _, [] => True
  | H, k :: ks => PR me hist H k ∧ PRL me hist H ks
/-- children of an own node of infoset `i`: child number `a` extends the history by `(i, a)` -/
def PRD (me : Bool) (hist : Nat → Hist) : Hist → Nat → Nat → List (Node α) → Prop
  | _, _, _, [] => True
  | H, i, a, k :: ks => PR me hist (H ++ [(i, a)]) k ∧ PRD me hist H i (a + 1) ks
end

structure GameWF [Field α] [LinearOrder α] (g : Game α) : Prop where
  /-- chance probabilities are positive and sum to one -/
  chancePos : ∀ ps ∈ g.chance, (∀ p ∈ ps, 0 < p) ∧ ps.sum = 1
  nodes : NodeOK g g.root
  /-- perfect recall for both players; earlier infosets have smaller indices -/
  recall : ∀ me : Bool, ∃ hist : Nat → Hist, PR me hist [] g.root ∧ ∀ i, ∀ e ∈ hist i, e.1 < i
  tables1 : TablesWF g.p1 g.s1
  tables2 : TablesWF g.p2 g.s2
  /-- every registered (multi-action) infoset has at least two actions -/
  actsTwo : ∀ me : Bool, ∀ e ∈ g.infos me, 2 ≤ e.actions.length

/-- a strategy of player `me` that fits the game: one vector per infoset, of the right length -/
def FitsGame (g : Game α) (me : Bool) (τ : List (List α)) : Prop :=
  τ.map List.length = (g.infos me).map (fun i => i.actions.length)

end Cfr
