import CfrVerif.Proofs.RateExternal
/-!
# The CFR rate through `advance`, one iteration and the solver loop (vanilla parameters)

Invariant after `t` iterations, for every infoset of both players (`RegInv`): the current strategy
is `regretMatch (.fin 0)` of the cumulative regrets and their potential is at most `t·A·D²`.
-/
set_option linter.unusedSectionVars false
namespace Cfr
open Finset

/-! ## vanilla parameters -/

theorem discountCumRegret_vanilla_r (it : ℕ) (l : List ℝ) :
    discountCumRegret (RegretParams.vanilla : RegretParams ℝ) it l = l := by
  simp only [discountCumRegret, RegretParams.vanilla, genDiscount, mul_one]
  conv_rhs => rw [← List.map_id l]
  apply List.map_congr_left
  intro r _
  split_ifs <;> rfl

theorem advance_vanilla_r (it itAvg : ℕ) (x : InfoSt ℝ) :
    (x.advance RegretParams.vanilla it itAvg).1.cumRegret = x.cumRegret ∧
    (x.advance RegretParams.vanilla it itAvg).1.strat = regretMatch (.fin 0) x.cumRegret ∧
    (x.advance RegretParams.vanilla it itAvg).2 = cumRegretBound it x.cumRegret := by
  simp only [InfoSt.advance, discountCumRegret_vanilla_r]
  exact ⟨trivial, rfl, trivial⟩

theorem advanceAll_spec (p : RegretParams ℝ) (it itAvg : ℕ) :
    ∀ (l : List (InfoSt ℝ)) (acc : ℝ),
      (advanceAll p it itAvg l acc).1 = l.map (fun x => (x.advance p it itAvg).1) ∧
      (advanceAll p it itAvg l acc).2 = acc + (l.map (fun x => (x.advance p it itAvg).2)).sum
  | [], acc => by simp [advanceAll]
  | x :: xs, acc => by
    obtain ⟨h1, h2⟩ := advanceAll_spec p it itAvg xs (acc + (x.advance p it itAvg).2)
    simp only [advanceAll, List.map_cons, List.sum_cons]
    exact ⟨congrArg _ h1, by rw [h2]; ring⟩

/-! ## the invariant -/

/-- the rate invariant of one infoset after `T` iterations -/
structure RegInv (A : ℕ) (D : ℝ) (T : ℕ) (x : InfoSt ℝ) : Prop where
  matched : x.strat = regretMatch (.fin 0) x.cumRegret
  phi : Phi x.cumRegret ≤ T * A * D ^ 2

/-- … of a player's table -/
def PInv (A : ℕ) (D : ℝ) (T : ℕ) (xs : List (InfoSt ℝ)) : Prop :=
  ∀ (I : ℕ) (x : InfoSt ℝ), xs[I]? = some x → RegInv A D T x

/-- the table between the traversal and `advance` in iteration `T` -/
def PMid (A : ℕ) (D : ℝ) (T : ℕ) (xs : List (InfoSt ℝ)) : Prop :=
  ∀ (I : ℕ) (x : InfoSt ℝ), xs[I]? = some x → x.cumRegret ≠ [] ∧ Phi x.cumRegret ≤ T * A * D ^ 2

theorem regInv_new (A : ℕ) (D : ℝ) (n : ℕ) : RegInv A D 0 (InfoSt.new n : InfoSt ℝ) := by
  constructor
  · simp only [InfoSt.new]
    rw [regretMatch_uniform _ (by intro x hx; rw [List.eq_of_mem_replicate hx])]
    simp
  · simp only [InfoSt.new, Phi_replicate_zero]
    simp

theorem pInv_init (A : ℕ) (D : ℝ) (g : Game ℝ) (me : Bool) :
    PInv A D 0 ((SolveSt.init g).get me) := by
  intro I x hx
  cases me <;>
    simp only [SolveSt.init, SolveSt.get, if_true, Bool.false_eq_true, if_false,
      List.getElem?_map, Option.map_eq_some_iff] at hx <;>
    obtain ⟨e, _, rfl⟩ := hx <;> exact regInv_new A D _

/-- one cell through the traversal of iteration `it` -/
theorem cell_step (A : ℕ) (D : ℝ) (it n : ℕ) (hit : 1 ≤ it) (hnA : n ≤ A) (x x' : InfoSt ℝ)
    (hx : InfoOK n x) (hinv : RegInv A D (it - 1) x) (δ : ℕ → ℝ)
    (hlen : x'.cumRegret.length = x.cumRegret.length)
    (hcell : ∀ a, a < x.cumRegret.length → x'.cumRegret.getD a 0 = x.cumRegret.getD a 0 + δ a)
    (horth : ∑ a ∈ range x.strat.length, x.strat.getD a 0 * δ a = 0)
    (hbd : ∀ a, |δ a| ≤ D) :
    x'.cumRegret ≠ [] ∧ Phi x'.cumRegret ≤ it * A * D ^ 2 := by
  constructor
  · intro h0
    rw [h0, List.length_nil, hx.lenR] at hlen
    have := hx.pos
    omega
  · have hl : x.strat.length = x.cumRegret.length := by rw [hx.lenσ, hx.lenR]
    rw [hl, hinv.matched] at horth
    have h1 := phi_step x.cumRegret x'.cumRegret δ D hlen hcell horth (fun a _ => hbd a)
    have h2 := hinv.phi
    rw [hx.lenR] at h1
    have hc : ((it - 1 : ℕ) : ℝ) = (it : ℝ) - 1 := by
      rw [Nat.cast_sub hit]; simp
    rw [hc] at h2
    have h3 : (n : ℝ) ≤ A := by exact_mod_cast hnA
    nlinarith [sq_nonneg D, mul_le_mul_of_nonneg_right h3 (sq_nonneg D)]

/-- a whole table through the traversal -/
theorem table_mid (A : ℕ) (D : ℝ) (it : ℕ) (hit : 1 ≤ it) (es : List PInfo)
    (hA : ∀ e ∈ es, e.actions.length ≤ A) (xs xs' : List (InfoSt ℝ)) (hok : TableOK es xs)
    (hinv : PInv A D (it - 1) xs) (δ : ℕ → ℕ → ℝ) (hlen : xs'.length = xs.length)
    (hcell : ∀ (I : ℕ) (x : InfoSt ℝ), xs[I]? = some x →
      ∃ x', xs'[I]? = some x' ∧ x'.strat = x.strat ∧
        x'.cumRegret.length = x.cumRegret.length ∧
        (∀ a, a < x.cumRegret.length → x'.cumRegret.getD a 0 = x.cumRegret.getD a 0 + δ I a))
    (horth : ∀ (I : ℕ) (x : InfoSt ℝ), xs[I]? = some x →
      ∑ a ∈ range x.strat.length, x.strat.getD a 0 * δ I a = 0)
    (hbd : ∀ (I : ℕ) (x : InfoSt ℝ), xs[I]? = some x → ∀ a, |δ I a| ≤ D) :
    PMid A D it xs' := by
  intro I x' hx'
  have hI : I < xs.length := by
    rw [← hlen]
    exact (List.getElem?_eq_some_iff.mp hx').1
  have hx : xs[I]? = some xs[I] := List.getElem?_eq_getElem hI
  obtain ⟨e, he, hinfo⟩ := (tableOK_get_r es xs hok).2 I _ hx
  obtain ⟨x'', hx'', -, hl, hc⟩ := hcell I _ hx
  rw [hx'] at hx''
  obtain rfl : x' = x'' := by simpa using hx''
  exact cell_step A D it _ hit (hA e (List.mem_of_getElem? he)) _ _ hinfo (hinv I _ hx) (δ I) hl hc
    (horth I _ hx) (hbd I _ hx)

/-- `advance` of a whole table with vanilla parameters -/
theorem table_advance (A : ℕ) (D : ℝ) (hD : 0 ≤ D) (it itAvg : ℕ) (hit : 1 ≤ it)
    (xs : List (InfoSt ℝ)) (h : PMid A D it xs) :
    PInv A D it (advanceAll RegretParams.vanilla it itAvg xs 0).1 ∧
    (advanceAll RegretParams.vanilla it itAvg xs 0).2
      ≤ 2 * D * xs.length * Real.sqrt A / Real.sqrt it := by
  obtain ⟨e1, e2⟩ := advanceAll_spec (RegretParams.vanilla : RegretParams ℝ) it itAvg xs 0
  rw [e1, e2]
  constructor
  · intro I y hy
    rw [List.getElem?_map] at hy
    obtain ⟨x, hx, rfl⟩ := Option.map_eq_some_iff.mp hy
    obtain ⟨a1, a2, -⟩ := advance_vanilla_r it itAvg x
    exact ⟨by rw [a1, a2], by rw [a1]; exact (h I x hx).2⟩
  · have hb : ∀ b ∈ xs.map (fun x => (x.advance RegretParams.vanilla it itAvg).2),
        b ≤ 2 * D * Real.sqrt A / Real.sqrt it := by
      intro b hb
      obtain ⟨x, hx, rfl⟩ := List.mem_map.mp hb
      obtain ⟨I, hI, rfl⟩ := List.getElem_of_mem hx
      obtain ⟨c1, c2⟩ := h I _ (List.getElem?_eq_getElem hI)
      rw [(advance_vanilla_r it itAvg _).2.2]
      exact bound_of_phi _ c1 D hD A it hit c2
    have := List.sum_le_card_nsmul _ _ hb
    rw [List.length_map, nsmul_eq_mul] at this
    rw [zero_add]
    calc _ ≤ _ := this
      _ = 2 * D * xs.length * Real.sqrt A / Real.sqrt it := by ring

/-! ## the loop -/

/-- the invariant of the iteration loop for the rate: a state invariant indexed by the number of
iterations done, per-iteration bound predicates -/
theorem solveLoop_rate (step : IterFn ℝ) (thr : Option (Ext ℝ)) (P : ℕ → SolveSt ℝ → Prop)
    (D : ℝ) (n1 n2 A : ℕ)
    (hstep : ∀ it s log, 1 ≤ it → P (it - 1) s →
      P it (step it s log).1 ∧ RateOK D n1 A it (.fin (step it s log).2.1) ∧
        RateOK D n2 A it (.fin (step it s log).2.2.1)) :
    ∀ (n it : ℕ) (s : SolveSt ℝ) (r1 r2 : Ext ℝ) (log : List (DrawRec ℝ)), 1 ≤ it →
      P (it - 1) s → RateOK D n1 A (it - 1) r1 → RateOK D n2 A (it - 1) r2 →
      RateOK D n1 A (solveLoop step thr n it s r1 r2 log).iters
        (solveLoop step thr n it s r1 r2 log).regOne ∧
      RateOK D n2 A (solveLoop step thr n it s r1 r2 log).iters
        (solveLoop step thr n it s r1 r2 log).regTwo := by
  intro n
  induction n with
  | zero =>
    intro it s r1 r2 log _ _ hb1 hb2
    simp only [solveLoop]
    exact ⟨hb1, hb2⟩
  | succ n ih =>
    intro it s r1 r2 log hit hs _ _
    obtain ⟨hs', hr1, hr2⟩ := hstep it s log hit hs
    rw [wf_solveLoop_succ]
    split_ifs with hb
    · exact ⟨hr1, hr2⟩
    · exact ih (it + 1) _ _ _ _ (by omega) (by simpa using hs') (by simpa using hr1)
        (by simpa using hr2)

/-! ## the vanilla solvers (unsampled and chance-sampled) -/

/-- the state invariant after `T` iterations -/
def RInv (g : Game ℝ) (A : ℕ) (D : ℝ) (T : ℕ) (s : SolveSt ℝ) : Prop :=
  StOK g s ∧ ∀ me, PInv A D T (s.get me)

theorem rInv_init (g : Game ℝ) (hg : GameWF g) (A : ℕ) (D : ℝ) :
    RInv g A D 0 (SolveSt.init g) :=
  ⟨stOK_init g hg, fun me => pInv_init A D g me⟩

theorem payIn_le (g : Game ℝ) (hg : GameWF g) (lo hi : ℝ) (hpay : PayIn lo hi g.root) :
    lo ≤ hi := by
  have h := vrec_rng ⟨g.chance, false, (SolveSt.init g).strat, fun _ _ _ _ => 0, 0⟩
    (by intro h; cases h) lo hi g.root 1 1 1 {}
    (tfit_of_ok g hg _ (stOK_init g hg) g.root hg.nodes) hpay (DOK.init _ _)
  exact le_trans h.1 h.2.1

/-- what the traversal of one vanilla iteration adds to the regrets of one infoset -/
theorem vanilla_traversal (g : Game ℝ) (hg : GameWF g) (lo hi : ℝ) (hpay : PayIn lo hi g.root)
    (sampled : Bool) (draw : DrawFn ℝ) (hdr : sampled = true → DrawLt draw) (pass : ℕ)
    (s : SolveSt ℝ) (hs : StOK g s) (log : List (DrawRec ℝ)) (me : Bool) (I : ℕ) (x : InfoSt ℝ)
    (hx : (s.get me)[I]? = some x) :
    (∑ a ∈ range x.strat.length, x.strat.getD a 0 *
      effSum (vrec ⟨g.chance, sampled, s.strat, draw, pass⟩ g.root 1 1 1 { log := log }).2.1
        me I Slot.regret a = 0) ∧
    ∀ a, |effSum (vrec ⟨g.chance, sampled, s.strat, draw, pass⟩ g.root 1 1 1 { log := log }).2.1
        me I Slot.regret a| ≤ hi - lo := by
  obtain ⟨e, he, hinfo⟩ := (tableOK_get_r _ _ (hs me)).2 I x hx
  have hst := strat_of_get_r s me I x hx
  constructor
  · have := vrec_orth ⟨g.chance, sampled, s.strat, draw, pass⟩ me I
      (by simp only [hst]; exact hinfo.dist.2) g.root 1 1 1 { log := log }
    simp only [dotE, hst] at this
    exact this
  · intro a
    obtain ⟨hist, hpr, -⟩ := hg.recall me
    have := vrec_bnd ⟨g.chance, sampled, s.strat, draw, pass⟩ hdr me I lo hi
      (payIn_le g hg lo hi hpay) g.root 1 1 1 { log := log } zero_le_one zero_le_one zero_le_one
      (good_of_PR me hist I g.root [] hpr) (tfit_of_ok g hg s hs g.root hg.nodes) hpay
      (DOK.init _ _) a
    simpa using this

theorem vanillaIter_rate (g : Game ℝ) (hg : GameWF g) (lo hi : ℝ) (hpay : PayIn lo hi g.root)
    (A : ℕ) (hA : ActsLe g A) (sampled : Bool) (draw : DrawFn ℝ)
    (hdr : sampled = true → DrawLt draw) (it : ℕ) (hit : 1 ≤ it) (s : SolveSt ℝ)
    (log : List (DrawRec ℝ)) (h : RInv g A (hi - lo) (it - 1) s) :
    RInv g A (hi - lo) it (vanillaIter g sampled RegretParams.vanilla draw it s log).1 ∧
    RateOK (hi - lo) g.p1.length A it
      (.fin (vanillaIter g sampled RegretParams.vanilla draw it s log).2.1) ∧
    RateOK (hi - lo) g.p2.length A it
      (.fin (vanillaIter g sampled RegretParams.vanilla draw it s log).2.2.1) := by
  obtain ⟨hs, hinv⟩ := h
  have hD : 0 ≤ hi - lo := sub_nonneg.mpr (payIn_le g hg lo hi hpay)
  have hok := (vanillaIter_ok g sampled RegretParams.vanilla (by simp [RegretParams.vanilla])
    draw it s log hs).1
  have mid : ∀ me, PMid A (hi - lo) it ((s.applyEffs (vrec ⟨g.chance, sampled, s.strat, draw,
      it - 1⟩ g.root 1 1 1 { log := log }).2.1).get me) := by
    intro me
    obtain ⟨hl, hc⟩ := applyEffs_cell s (vrec ⟨g.chance, sampled, s.strat, draw, it - 1⟩ g.root
      1 1 1 { log := log }).2.1 me
    refine table_mid A (hi - lo) it hit (g.infos me) (hA me) (s.get me) _ (hs me) (hinv me)
      (fun I a => effSum (vrec ⟨g.chance, sampled, s.strat, draw, it - 1⟩ g.root
        1 1 1 { log := log }).2.1 me I Slot.regret a) hl ?_ ?_ ?_
    · intro I x hx
      obtain ⟨x', g1, g2, g3, -, g5, -⟩ := hc I x hx
      exact ⟨x', g1, g2, g3, g5⟩
    · intro I x hx
      exact (vanilla_traversal g hg lo hi hpay sampled draw hdr (it - 1) s hs log me I x hx).1
    · intro I x hx
      exact (vanilla_traversal g hg lo hi hpay sampled draw hdr (it - 1) s hs log me I x hx).2
  have t1 := table_advance A (hi - lo) hD it it hit _ (mid true)
  have t2 := table_advance A (hi - lo) hD it it hit _ (mid false)
  have l1 : ((s.applyEffs (vrec ⟨g.chance, sampled, s.strat, draw, it - 1⟩ g.root 1 1 1
      { log := log }).2.1).get true).length = g.p1.length := by
    rw [(applyEffs_cell s _ true).1, tableOK_length_r _ _ (hs true)]; rfl
  have l2 : ((s.applyEffs (vrec ⟨g.chance, sampled, s.strat, draw, it - 1⟩ g.root 1 1 1
      { log := log }).2.1).get false).length = g.p2.length := by
    rw [(applyEffs_cell s _ false).1, tableOK_length_r _ _ (hs false)]; rfl
  rw [l1] at t1
  rw [l2] at t2
  refine ⟨⟨hok, ?_⟩, ?_, ?_⟩
  · intro me
    cases me
    · exact t2.1
    · exact t1.1
  · exact t1.2
  · exact t2.2

/-- the rate of both vanilla solvers (the chance-sampled one for in-range draws) -/
theorem vanilla_rate (g : Game ℝ) (hg : GameWF g) (lo hi : ℝ) (hpay : PayIn lo hi g.root)
    (A : ℕ) (hA : ActsLe g A) (sampled : Bool) (draw : DrawFn ℝ)
    (hdr : sampled = true → DrawLt draw) (T : ℕ) (thr : Option (Ext ℝ)) :
    RateOK (hi - lo) g.p1.length A
      (solveVanillaSingle g sampled RegretParams.vanilla draw T thr).iters
      (solveVanillaSingle g sampled RegretParams.vanilla draw T thr).regOne ∧
    RateOK (hi - lo) g.p2.length A
      (solveVanillaSingle g sampled RegretParams.vanilla draw T thr).iters
      (solveVanillaSingle g sampled RegretParams.vanilla draw T thr).regTwo := by
  unfold solveVanillaSingle solveWith
  exact solveLoop_rate _ thr (RInv g A (hi - lo)) (hi - lo) g.p1.length g.p2.length A
    (fun it s log hit h => vanillaIter_rate g hg lo hi hpay A hA sampled draw hdr it hit s log h)
    T 1 (SolveSt.init g) .posInf .posInf [] le_rfl (rInv_init g hg A _) rfl rfl

/-! ## external sampling -/

/-- the read-only context of a pass -/
def passC (g : Game ℝ) (first : Bool) (draw : DrawFn ℝ) (it : ℕ) (s : SolveSt ℝ) : ECtx ℝ :=
  ⟨g.chance, first, s.strat, draw, 2 * (it - 1) + (if first then 0 else 1),
    if first then it - 1 else it⟩

theorem externalPass_eq' (g : Game ℝ) (first : Bool) (p : RegretParams ℝ) (draw : DrawFn ℝ)
    (it : ℕ) (s : SolveSt ℝ) (log : List (DrawRec ℝ)) :
    externalPass g first p draw it s log =
      ((s.applyEffs (erec (passC g first draw it s) g.root { log := log }).2.1).set first
          (advanceAll p it (if first then it - 1 else it)
            ((s.applyEffs (erec (passC g first draw it s) g.root { log := log }).2.1).get first) 0).1,
        (advanceAll p it (if first then it - 1 else it)
            ((s.applyEffs (erec (passC g first draw it s) g.root { log := log }).2.1).get first) 0).2,
        (erec (passC g first draw it s) g.root { log := log }).2.2.log) := by
  rfl

theorem get_set' (s : SolveSt ℝ) (o : Bool) (l : List (InfoSt ℝ)) (one : Bool) :
    (s.set o l).get one = if one = o then l else s.get one := by
  cases o <;> cases one <;> simp [SolveSt.get, SolveSt.set]

theorem list_ext_getD_r (l l' : List ℝ) (hlen : l'.length = l.length)
    (h : ∀ a, a < l.length → l'.getD a 0 = l.getD a 0) : l' = l := by
  apply List.ext_getElem hlen
  intro i h1 h2
  have := h i h2
  rw [List.getD_eq_getElem?_getD, List.getD_eq_getElem?_getD, List.getElem?_eq_getElem h1,
    List.getElem?_eq_getElem h2] at this
  simpa using this

/-- a table whose regrets the traversal did not touch keeps its invariant -/
theorem pInv_same (A : ℕ) (D : ℝ) (T : ℕ) (xs xs' : List (InfoSt ℝ)) (h : PInv A D T xs)
    (hlen : xs'.length = xs.length)
    (hcell : ∀ (I : ℕ) (x : InfoSt ℝ), xs[I]? = some x →
      ∃ x', xs'[I]? = some x' ∧ x'.strat = x.strat ∧
        x'.cumRegret.length = x.cumRegret.length ∧
        (∀ a, a < x.cumRegret.length → x'.cumRegret.getD a 0 = x.cumRegret.getD a 0)) :
    PInv A D T xs' := by
  intro I x' hx'
  have hI : I < xs.length := by
    rw [← hlen]
    exact (List.getElem?_eq_some_iff.mp hx').1
  have hx : xs[I]? = some xs[I] := List.getElem?_eq_getElem hI
  obtain ⟨x'', hx'', hs, hl, hc⟩ := hcell I _ hx
  rw [hx'] at hx''
  obtain rfl : x' = x'' := by simpa using hx''
  have e := list_ext_getD_r _ _ hl hc
  have r := h I _ hx
  exact ⟨by rw [hs, e]; exact r.matched, by rw [e]; exact r.phi⟩

/-- what one external-sampling pass adds to the regrets of an infoset of the updating player -/
theorem ext_traversal (g : Game ℝ) (hg : GameWF g) (lo hi : ℝ) (hpay : PayIn lo hi g.root)
    (first : Bool) (draw : DrawFn ℝ) (hdr : DrawLt draw) (it : ℕ)
    (s : SolveSt ℝ) (hs : StOK g s) (log : List (DrawRec ℝ)) (I : ℕ) (x : InfoSt ℝ)
    (hx : (s.get first)[I]? = some x) :
    (∑ a ∈ range x.strat.length, x.strat.getD a 0 *
      effSum (erec (passC g first draw it s) g.root { log := log }).2.1 first I Slot.regret a = 0) ∧
    ∀ a, |effSum (erec (passC g first draw it s) g.root { log := log }).2.1
        first I Slot.regret a| ≤ hi - lo := by
  obtain ⟨e, he, hinfo⟩ := (tableOK_get_r _ _ (hs first)).2 I x hx
  have hst := strat_of_get_r s first I x hx
  have hle := payIn_le g hg lo hi hpay
  constructor
  · have := erec_orth (passC g first draw it s) first I
      (by simp only [passC, hst]; exact hinfo.dist.2) g.root { log := log }
    simp only [dotE, passC, hst] at this
    exact this
  · intro a
    obtain ⟨hist, hpr, -⟩ := hg.recall first
    have hgood := good_of_PR first hist I g.root [] hpr
    have hfit := tfit_of_ok g hg s hs g.root hg.nodes
    cases first
    · have := erec_bnd (passC g false draw it s) hdr lo hi (-hi) (-lo)
        (by intro p h1 h2; simp only [passC, Bool.false_eq_true, if_false]
            constructor <;> linarith)
        (by linarith) I g.root { log := log } hgood hfit hpay (EOK.init _ _) a
      have e : -lo - -hi = hi - lo := by ring
      rw [e] at this
      exact this
    · exact erec_bnd (passC g true draw it s) hdr lo hi lo hi
        (by intro p h1 h2; simp only [passC, if_true]; exact ⟨h1, h2⟩)
        hle I g.root { log := log } hgood hfit hpay (EOK.init _ _) a

theorem externalPass_rate (g : Game ℝ) (hg : GameWF g) (lo hi : ℝ) (hpay : PayIn lo hi g.root)
    (A : ℕ) (hA : ActsLe g A) (draw : DrawFn ℝ) (hdr : DrawLt draw) (it : ℕ) (hit : 1 ≤ it)
    (first : Bool) (s : SolveSt ℝ) (log : List (DrawRec ℝ)) (T : Bool → ℕ)
    (hT : T first = it - 1) (hs : StOK g s) (hinv : ∀ me, PInv A (hi - lo) (T me) (s.get me)) :
    StOK g (externalPass g first RegretParams.vanilla draw it s log).1 ∧
    PInv A (hi - lo) it ((externalPass g first RegretParams.vanilla draw it s log).1.get first) ∧
    PInv A (hi - lo) (T (!first))
      ((externalPass g first RegretParams.vanilla draw it s log).1.get (!first)) ∧
    (externalPass g first RegretParams.vanilla draw it s log).2.1
      ≤ 2 * (hi - lo) * (g.infos first).length * Real.sqrt A / Real.sqrt it := by
  have hD : 0 ≤ hi - lo := sub_nonneg.mpr (payIn_le g hg lo hi hpay)
  have hok := (externalPass_ok g first RegretParams.vanilla (by simp [RegretParams.vanilla])
    draw it s log hs).1
  refine ⟨hok, ?_⟩
  rw [externalPass_eq']
  obtain ⟨hl, hc⟩ := applyEffs_cell s
    (erec (passC g first draw it s) g.root { log := log }).2.1 first
  have mid : PMid A (hi - lo) it
      ((s.applyEffs (erec (passC g first draw it s) g.root { log := log }).2.1).get first) := by
    have hi1 := hinv first
    rw [hT] at hi1
    refine table_mid A (hi - lo) it hit (g.infos first) (hA first) (s.get first) _ (hs first) hi1
      (fun I a => effSum (erec (passC g first draw it s) g.root { log := log }).2.1
        first I Slot.regret a) hl ?_ ?_ ?_
    · intro I x hx
      obtain ⟨x', g1, g2, g3, -, g5, -⟩ := hc I x hx
      exact ⟨x', g1, g2, g3, g5⟩
    · intro I x hx
      exact (ext_traversal g hg lo hi hpay first draw hdr it s hs log I x hx).1
    · intro I x hx
      exact (ext_traversal g hg lo hi hpay first draw hdr it s hs log I x hx).2
  have t1 := table_advance A (hi - lo) hD it (if first then it - 1 else it) hit _ mid
  rw [hl, tableOK_length_r _ _ (hs first)] at t1
  refine ⟨?_, ?_, t1.2⟩
  · simp only [get_set', if_true]
    exact t1.1
  · have hne : ¬ (!first) = first := by cases first <;> simp
    simp only [get_set', if_neg hne]
    obtain ⟨hl2, hc2⟩ := applyEffs_cell s
      (erec (passC g first draw it s) g.root { log := log }).2.1 (!first)
    refine pInv_same A (hi - lo) _ (s.get (!first)) _ (hinv (!first)) hl2 ?_
    intro I x hx
    obtain ⟨x', g1, g2, g3, -, g5, -⟩ := hc2 I x hx
    refine ⟨x', g1, g2, g3, ?_⟩
    intro a ha
    rw [g5 a ha, erec_zero (passC g first draw it s) (!first) I a g.root { log := log }
      (fun h => absurd h hne), add_zero]

theorem externalIter_rate (g : Game ℝ) (hg : GameWF g) (lo hi : ℝ) (hpay : PayIn lo hi g.root)
    (A : ℕ) (hA : ActsLe g A) (draw : DrawFn ℝ) (hdr : DrawLt draw) (it : ℕ) (hit : 1 ≤ it)
    (s : SolveSt ℝ) (log : List (DrawRec ℝ)) (h : RInv g A (hi - lo) (it - 1) s) :
    RInv g A (hi - lo) it (externalIter g RegretParams.vanilla draw it s log).1 ∧
    RateOK (hi - lo) g.p1.length A it
      (.fin (externalIter g RegretParams.vanilla draw it s log).2.1) ∧
    RateOK (hi - lo) g.p2.length A it
      (.fin (externalIter g RegretParams.vanilla draw it s log).2.2.1) := by
  obtain ⟨hs, hinv⟩ := h
  obtain ⟨a1, a2, a3, a4⟩ := externalPass_rate g hg lo hi hpay A hA draw hdr it hit true s log
    (fun _ => it - 1) rfl hs hinv
  obtain ⟨b1, b2, b3, b4⟩ := externalPass_rate g hg lo hi hpay A hA draw hdr it hit false
    (externalPass g true RegretParams.vanilla draw it s log).1
    (externalPass g true RegretParams.vanilla draw it s log).2.2
    (fun me => if me then it else it - 1) rfl a1
    (by intro me; cases me
        · exact a3
        · exact a2)
  simp only [externalIter]
  refine ⟨⟨b1, ?_⟩, a4, b4⟩
  intro me
  cases me
  · exact b2
  · exact b3

/-- the rate of the external-sampling solver, for in-range draws -/
theorem external_rate (g : Game ℝ) (hg : GameWF g) (lo hi : ℝ) (hpay : PayIn lo hi g.root)
    (A : ℕ) (hA : ActsLe g A) (draw : DrawFn ℝ) (hdr : DrawLt draw) (T : ℕ)
    (thr : Option (Ext ℝ)) :
    RateOK (hi - lo) g.p1.length A
      (solveExternalSingle g RegretParams.vanilla draw T thr).iters
      (solveExternalSingle g RegretParams.vanilla draw T thr).regOne ∧
    RateOK (hi - lo) g.p2.length A
      (solveExternalSingle g RegretParams.vanilla draw T thr).iters
      (solveExternalSingle g RegretParams.vanilla draw T thr).regTwo := by
  unfold solveExternalSingle solveWith
  exact solveLoop_rate _ thr (RInv g A (hi - lo)) (hi - lo) g.p1.length g.p2.length A
    (fun it s log hit h => externalIter_rate g hg lo hi hpay A hA draw hdr it hit s log h)
    T 1 (SolveSt.init g) .posInf .posInf [] le_rfl (rInv_init g hg A _) rfl rfl

end Cfr
