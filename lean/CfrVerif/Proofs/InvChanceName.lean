import CfrVerif.Proofs.InvCompile
import CfrVerif.Proofs.InvChanceNameLemmas
/-!
# C12, part 4: a single-outcome chance node inserted WITH an infoset name

`Padded` (part 1) inserts single-outcome chance nodes without an infoset name: the compiled game
is then identical.  With a (fresh) name `from_root` registers the degenerate distribution `[1]`
under that name, which shifts the indices of the chance infosets registered afterwards: the
compiled games are no longer equal but *equal up to a renumbering of the chance infosets*
(`ChanceReindexed`), and neither evaluation nor the unsampled solver can tell the difference.
-/
set_option linter.unusedSectionVars false
namespace Cfr
variable {α : Type} [Field α] [LinearOrder α] [IsStrictOrderedRing α]

mutual
/-- `n'` is `n` with every chance infoset index `i` replaced by `ι i` -/
def Node.ReindexedBy (ι : Nat → Nat) : Node α → Node α → Prop
  | .term p, .term p' => p = p'
  | .chance i ks, .chance i' ks' => i' = ι i ∧ Node.ReindexedByL ι ks ks'
  | .player o i ks, .player o' i' ks' => o = o' ∧ i = i' ∧ Node.ReindexedByL ι ks ks'
  | _, _ => False
def Node.ReindexedByL (ι : Nat → Nat) : List (Node α) → List (Node α) → Prop
  | [], [] => True
  | k :: ks, k' :: ks' => Node.ReindexedBy ι k k' ∧ Node.ReindexedByL ι ks ks'
  | _, _ => False
end

/-- `g'` is `g` with renumbered chance infosets: same decision tables, the tree reindexed by `ι`,
and every chance infoset keeps its distribution under its new number -/
def Game.ChanceReindexed (g g' : Game α) : Prop :=
  ∃ ι : Nat → Nat, Node.ReindexedBy ι g.root g'.root ∧
    (∀ i, i < g.chance.length → g'.chance.getD (ι i) [] = g.chance.getD i []) ∧
    g'.p1 = g.p1 ∧ g'.p2 = g.p2

mutual
/-- `PaddedNamed fresh r r'` : `r'` is `r` with single-outcome chance nodes inserted anywhere, each
carrying an infoset name `l` with `fresh l = true` (and any positive weight) -/
inductive PaddedNamed (fresh : Nat → Bool) : Raw α → Raw α → Prop
  | term (p : α) : PaddedNamed fresh (.term p) (.term p)
  | chance (i : Option Nat) (ws : List α) (ks ks' : List (Raw α)) :
      PaddedNamedL fresh ks ks' → PaddedNamed fresh (.chance i ws ks) (.chance i ws ks')
  | player (o : Bool) (i : Nat) (as : List Nat) (ks ks' : List (Raw α)) :
      PaddedNamedL fresh ks ks' → PaddedNamed fresh (.player o i as ks) (.player o i as ks')
  | pad (r k' : Raw α) (l : Nat) (w : α) :
      fresh l = true → 0 < w → PaddedNamed fresh r k' → PaddedNamed fresh r (.chance (some l) [w] [k'])
inductive PaddedNamedL (fresh : Nat → Bool) : List (Raw α) → List (Raw α) → Prop
  | nil : PaddedNamedL fresh [] []
  | cons (k k' : Raw α) (ks ks' : List (Raw α)) :
      PaddedNamed fresh k k' → PaddedNamedL fresh ks ks' → PaddedNamedL fresh (k :: ks) (k' :: ks')
end

mutual
/-- no chance node of the tree uses a name reserved for padding -/
def Raw.AvoidsChanceName (fresh : Nat → Bool) : Raw α → Prop
  | .term _ => True
  | .chance i _ ks => (∀ l, i = some l → fresh l = false) ∧ Raw.AvoidsChanceNameL fresh ks
  | .player _ _ _ ks => Raw.AvoidsChanceNameL fresh ks
def Raw.AvoidsChanceNameL (fresh : Nat → Bool) : List (Raw α) → Prop
  | [] => True
  | k :: ks => Raw.AvoidsChanceName fresh k ∧ Raw.AvoidsChanceNameL fresh ks
end


namespace CN

mutual
theorem reindexedBy_iff (ι : Nat → Nat) :
    ∀ (n n' : Node α), Node.ReindexedBy ι n n' ↔ n' = reindex ι n
  | .term p, .term p' => by
    simp only [Node.ReindexedBy, reindex, Node.term.injEq]; exact eq_comm
  | .term _, .chance _ _ => by simp [Node.ReindexedBy, reindex]
  | .term _, .player _ _ _ => by simp [Node.ReindexedBy, reindex]
  | .chance _ _, .term _ => by simp [Node.ReindexedBy, reindex]
  | .chance _ _, .player _ _ _ => by simp [Node.ReindexedBy, reindex]
  | .player _ _ _, .term _ => by simp [Node.ReindexedBy, reindex]
  | .player _ _ _, .chance _ _ => by simp [Node.ReindexedBy, reindex]
  | .chance i ks, .chance i' ks' => by
    simp only [Node.ReindexedBy, reindex, Node.chance.injEq, reindexedByL_iff ι ks ks']
  | .player o i ks, .player o' i' ks' => by
    simp only [Node.ReindexedBy, reindex, Node.player.injEq, reindexedByL_iff ι ks ks']
    constructor
    · rintro ⟨rfl, rfl, rfl⟩; exact ⟨rfl, rfl, rfl⟩
    · rintro ⟨rfl, rfl, rfl⟩; exact ⟨rfl, rfl, rfl⟩
theorem reindexedByL_iff (ι : Nat → Nat) :
    ∀ (ks ks' : List (Node α)), Node.ReindexedByL ι ks ks' ↔ ks' = reindexL ι ks
  | [], [] => by simp [Node.ReindexedByL, reindexL]
  | [], _ :: _ => by simp [Node.ReindexedByL, reindexL]
  | _ :: _, [] => by simp [Node.ReindexedByL, reindexL]
  | k :: ks, k' :: ks' => by
    simp only [Node.ReindexedByL, reindexL, List.cons.injEq, reindexedBy_iff ι k k',
      reindexedByL_iff ι ks ks']
end

end CN

/-- **evaluation cannot tell renumbered chance infosets apart** -/
theorem getInfo_chanceReindexed (g g' : Game α) (h : g.ChanceReindexed g') (hn : NodeOK g g.root)
    (σ : Bool → Strat α) :
    (getInfo g σ).util = (getInfo g' σ).util ∧ (getInfo g σ).regretOne = (getInfo g' σ).regretOne ∧
    (getInfo g σ).regretTwo = (getInfo g' σ).regretTwo := by
  obtain ⟨ι, hr, hch, h1, h2⟩ := h
  have hr' := (CN.reindexedBy_iff ι _ _).mp hr
  have hlt := CN.chLt_of_nodeOK g g.root hn
  have hi : ∀ me, g'.infos me = g.infos me := fun me => by cases me <;> simp [Game.infos, h1, h2]
  have he : expected g'.chance σ g'.root = expected g.chance σ g.root := by
    rw [hr']; exact CN.expected_reindex g.chance g'.chance ι _ hch σ g.root hlt
  have hv : ∀ σo me, view g'.chance σo me g'.root = view g.chance σo me g.root := fun σo me => by
    rw [hr']; exact CN.view_reindex g.chance g'.chance ι _ hch σo me g.root hlt
  simp only [getInfo, optimalDeviations, he, hv, hi, and_self]

/-- **nor can the unsampled solver** (single-threaded; every thread count then by C06) -/
theorem solve_full_chanceReindexed [Transc α] (g g' : Game α) (h : g.ChanceReindexed g')
    (hn : NodeOK g g.root) (p : RegretParams α) (draw : DrawFn α) (T : Nat) (thr : Option (Ext α)) :
    solveVanillaSingle g false p draw T thr = solveVanillaSingle g' false p draw T thr := by
  obtain ⟨ι, hr, hch, h1, h2⟩ := h
  have hr' := (CN.reindexedBy_iff ι _ _).mp hr
  have hlt := CN.chLt_of_nodeOK g g.root hn
  have hi : SolveSt.init g' = SolveSt.init g := by simp only [SolveSt.init, h1, h2]
  have hv : vanillaIter g' false p draw = vanillaIter g false p draw := by
    funext it s log
    simp only [vanillaIter]
    rw [hr', CN.vrec_reindex g.chance g'.chance ι _ hch s.strat draw (it - 1) g.root 1 1 1 _ hlt]
  simp only [solveVanillaSingle, solveWith, hi, hv]


namespace CN

theorem compile_padNamed {fresh : Nat → Bool} {r r' : Raw α} (hp : PaddedNamed fresh r r') :
    r.AvoidsChanceName fresh → POK fresh r r' := by
  refine PaddedNamed.rec (motive_1 := fun r r' _ => r.AvoidsChanceName fresh → POK fresh r r')
    (motive_2 := fun ks ks' _ => Raw.AvoidsChanceNameL fresh ks → AllRel (POK fresh) ks ks')
    ?_ ?_ ?_ ?_ ?_ ?_ hp
  · intro p _
    exact pOK_term p
  · intro i ws ks ks' _ ih hav
    simp only [Raw.AvoidsChanceName] at hav
    exact pOK_chance i hav.1 ws (ih hav.2)
  · intro o i as ks ks' _ ih hav
    simp only [Raw.AvoidsChanceName] at hav
    exact pOK_player o i as (ih hav)
  · intro r k' l w hl hw _ ih hav
    exact pOK_pad l w hl hw (ih hav)
  · intro _
    exact .nil
  · intro k k' ks ks' _ _ h1 h2 hav
    simp only [Raw.AvoidsChanceNameL] at hav
    exact .cons k k' ks ks' (h1 hav.1) (h2 hav.2)

end CN

/-- **padding with named single-outcome chance nodes** (names the tree does not use): the same
acceptance and errors; on success the compiled games are equal up to a renumbering of the chance
infosets -/
theorem named_chance_padding_transparent (fresh : Nat → Bool) (r r' : Raw α)
    (hp : PaddedNamed fresh r r') (hav : r.AvoidsChanceName fresh) (hs : Raw.Shape r) :
    match fromRoot r, fromRoot r' with
    | .ok g, .ok g' => g.ChanceReindexed g' ∧ g'.s1 = g.s1 ∧ g'.s2 = g.s2
    | .error e, .error e' => e = e'
    | _, _ => False := by
  have _ := hs
  have h0 : CN.Rel fresh ({} : BState α) ({} : BState α) :=
    ⟨rfl, fun e he => by simp at he, fun _ => rfl, fun _ => rfl⟩
  have h1 := CN.compile_padNamed hp hav {} {} {} h0
  unfold fromRoot
  rcases CN.exRel_cases h1 with ⟨e, ha, hb⟩ | ⟨⟨n, t⟩, ⟨n', t'⟩, ha, hb, ht, -, hn, hn'⟩
  · simp only [ha, hb]
  · simp only [ha, hb]
    simp only at ht hn hn'
    refine ⟨⟨CN.nth (CN.keep fresh) t'.chance, (CN.reindexedBy_iff _ _ _).mpr hn', ?_,
      ht.infos true, ht.infos false⟩, ht.singles true, ht.singles false⟩
    intro i hi
    simp only [List.length_map] at hi
    simp only [List.getD_eq_getElem?_getD, List.getElem?_map]
    rw [CN.nth_getElem? _ _ i (by rw [ht.len]; exact hi), ← ht.chance]

/-! ## non-vacuity -/

/-- two named chance infosets (`1` and `2`) below a decision of player one -/
def exCN : Raw ℚ :=
  .player true 5 [0, 1]
    [.chance (some 1) [1, 1] [.term 1, .term 2],
     .chance (some 2) [1, 3] [.term 0, .term 4]]

/-- chance names `≥ 90` are reserved for padding -/
def exFreshCN : Nat → Bool := fun l => decide (90 ≤ l)

/-- the first chance node below a single-outcome chance node named `90`: the name is registered
(after the infoset `1`, before the infoset `2`), which moves the infoset `2` from index `1` to `2` -/
def exCNpadded : Raw ℚ :=
  .player true 5 [0, 1]
    [.chance (some 90) [7] [.chance (some 1) [1, 1] [.term 1, .term 2]],
     .chance (some 2) [1, 3] [.term 0, .term 4]]

theorem exCN_padded : PaddedNamed exFreshCN exCN exCNpadded :=
  .player _ _ _ _ _ <|
    .cons _ _ _ _
      (.pad _ _ 90 7 rfl (by norm_num) <|
        .chance _ _ _ _ <| .cons _ _ _ _ (.term _) <| .cons _ _ _ _ (.term _) .nil) <|
    .cons _ _ _ _
      (.chance _ _ _ _ <| .cons _ _ _ _ (.term _) <| .cons _ _ _ _ (.term _) .nil)
      .nil

theorem exCN_avoids : exCN.AvoidsChanceName exFreshCN := by
  simp [exCN, exFreshCN, Raw.AvoidsChanceName, Raw.AvoidsChanceNameL]

theorem exCN_shape : Raw.Shape exCN := by
  simp [exCN, Raw.Shape, Raw.ShapeL]

example : (fromRoot exCN).toBool = true := by decide +kernel
example : (fromRoot exCNpadded).toBool = true := by decide +kernel

/-- the chance infoset index stored in the second child of the root -/
def exSecondIdx : Except GameError (Game ℚ) → Option Nat
  | .ok ⟨_, _, _, _, _, .player _ _ [_, .chance i _]⟩ => some i
  | _ => none

/-- the index of the second chance infoset shifts, and the chance table grows -/
example : exSecondIdx (fromRoot exCN) = some 1 ∧ exSecondIdx (fromRoot exCNpadded) = some 2 := by
  decide +kernel
example : (fromRoot exCN).toOption.map (·.chance.length) = some 2 ∧
    (fromRoot exCNpadded).toOption.map (·.chance.length) = some 3 := by
  decide +kernel

/-- the theorem applies to this pair -/
example :
    match fromRoot exCN, fromRoot exCNpadded with
    | .ok g, .ok g' => g.ChanceReindexed g' ∧ g'.s1 = g.s1 ∧ g'.s2 = g.s2
    | .error e, .error e' => e = e'
    | _, _ => False :=
  named_chance_padding_transparent exFreshCN exCN exCNpadded exCN_padded exCN_avoids exCN_shape

end Cfr
