import CfrVerif.Proofs.GameWF
import CfrVerif.Model.Eval
/-!
# Specification side of the player view: expected value of an own strategy, well-formedness,
perfect recall — and the statement that `bestResponse` is the maximum over all behavioural
strategies.
-/
set_option linter.unusedSectionVars false
namespace Cfr
variable {α : Type} [Field α] [LinearOrder α] [IsStrictOrderedRing α]

mutual
/-- expected own utility of the own behavioural strategy `τ` on a view -/
def evV (τ : Strat α) : V α → α
  | .term u => u
  | .nature ws ks => evVN τ ws ks
  | .decide i ks => evVN τ (τ.at i) ks
def evVN (τ : Strat α) : List α → List (V α) → α
  | w :: ws, k :: ks => w * evV τ k + evVN τ ws ks
  | _, _ => 0
end

mutual
/-- a view with `N` own infosets, `nActs i` actions at infoset `i`, non-negative weights -/
def VOK (N : Nat) (nActs : Nat → Nat) : V α → Prop
  | .term _ => True
  | .nature ws ks => ws.length = ks.length ∧ (∀ w ∈ ws, 0 ≤ w) ∧ VOKL N nActs ks
  | .decide i ks => i < N ∧ ks.length = nActs i ∧ 1 ≤ ks.length ∧ VOKL N nActs ks
def VOKL (N : Nat) (nActs : Nat → Nat) : List (V α) → Prop
  | [] => True
  | k :: ks => VOK N nActs k ∧ VOKL N nActs ks
end

mutual
/-- perfect recall on a view, in history form -/
def PRV (hist : Nat → Hist) : Hist → V α → Prop
  | _, .term _ => True
  | H, .nature _ ks => PRVL hist H ks
  | H, .decide i ks => hist i = H ∧ PRVD hist H i 0 ks
def PRVL (hist : Nat → Hist) : Hist → List (V α) → Prop
  | _, [] => True
  | H, k :: ks => PRV hist H k ∧ PRVL hist H ks
def PRVD (hist : Nat → Hist) : Hist → Nat → Nat → List (V α) → Prop
  | _, _, _, [] => True
  | H, i, a, k :: ks => PRV hist (H ++ [(i, a)]) k ∧ PRVD hist H i (a + 1) ks
end

/-- an own strategy that fits: `N` probability vectors, vector `i` of length `nActs i` -/
def StratOK (N : Nat) (nActs : Nat → Nat) (τ : Strat α) : Prop :=
  τ.length = N ∧ (∀ i, i < N → (τ.at i).length = nActs i) ∧ IsStrat τ

end Cfr
