import CfrVerif.Proofs.PresetSpec
import CfrVerif.Props.C02
/-!
# The true regret of a valid profile never exceeds the payoff range
-/
set_option linter.unusedSectionVars false
set_option linter.unusedVariables false
namespace Cfr.PG

mutual
theorem tfit_of_profile (g : Game ℝ) (hg : GameWF g) (σ : Profile ℝ) (hσ : ProfileOK g σ) :
    ∀ n : Node ℝ, NodeOK g n → TFit g.chance (fun one i => (σ one).at i) n
  | .term _, _ => by simp [TFit]
  | .chance i ks, h => by
    obtain ⟨⟨ps, hps, hl⟩, h2, hk⟩ := (by simpa [NodeOK] using h :
      (∃ ps, g.chance[i]? = some ps ∧ ps.length = ks.length) ∧ 2 ≤ ks.length ∧ NodeOKL g ks)
    have e : g.chance.getD i [] = ps := by
      rw [List.getD_eq_getElem?_getD, hps]; rfl
    have hmem : ps ∈ g.chance := List.mem_of_getElem? hps
    obtain ⟨hp, hsum⟩ := hg.chancePos ps hmem
    simp only [TFit, e]
    refine ⟨hl, ?_, ⟨fun p hp' => (hp p hp').le, hsum⟩, tfitL_of_profile g hg σ hσ ks hk⟩
    intro hnil; subst hnil; simp at h2
  | .player one i ks, h => by
    obtain ⟨⟨e, he, hl⟩, h2, hk⟩ := (by simpa [NodeOK] using h :
      (∃ e, (g.infos one)[i]? = some e ∧ e.actions.length = ks.length) ∧ 2 ≤ ks.length
        ∧ NodeOKL g ks)
    obtain ⟨v, hv, hvl⟩ := fits_at g one (σ one) (hσ one).2 i e he
    have e' : (σ one).at i = v := by simp [Strat.at, List.getD_eq_getElem?_getD, hv]
    simp only [TFit, e']
    refine ⟨by rw [hvl, hl], ?_, (hσ one).1 v (List.mem_of_getElem? hv),
      tfitL_of_profile g hg σ hσ ks hk⟩
    intro hnil; subst hnil; simp at h2
theorem tfitL_of_profile (g : Game ℝ) (hg : GameWF g) (σ : Profile ℝ) (hσ : ProfileOK g σ) :
    ∀ ks : List (Node ℝ), NodeOKL g ks → TFitL g.chance (fun one i => (σ one).at i) ks
  | [], _ => by simp [TFitL]
  | k :: ks, h => by
    obtain ⟨h1, h2⟩ := (by simpa [NodeOKL] using h : NodeOK g k ∧ NodeOKL g ks)
    simp only [TFitL]
    exact ⟨tfit_of_profile g hg σ hσ k h1, tfitL_of_profile g hg σ hσ ks h2⟩
end

/-- the expected payoff of a valid profile lies in the payoff range -/
theorem expected_range (g : Game ℝ) (hg : GameWF g) (lo hi : ℝ) (hpay : PayIn lo hi g.root)
    (σ : Profile ℝ) (hσ : ProfileOK g σ) :
    lo ≤ expected g.chance σ g.root ∧ expected g.chance σ g.root ≤ hi := by
  have h := vrec_rng ⟨g.chance, false, fun one i => (σ one).at i, fun _ _ _ _ => 0, 0⟩
    (by intro h; cases h) lo hi g.root 1 1 1 {}
    (tfit_of_profile g hg σ hσ g.root hg.nodes) hpay (DOK.init _ _)
  have hv := vrec_full_value ⟨g.chance, false, fun one i => (σ one).at i, fun _ _ _ _ => 0, 0⟩
    rfl σ (fun _ _ => rfl) g.root 1 1 1 {}
  have hu := utility_eq_evV g hg σ hσ true
  have hu' : utility g σ true = expected g.chance σ g.root := by simp [utility]
  rw [hu'] at hu
  simp only [Bool.not_true] at hu
  rw [hv, ← hu] at h
  exact ⟨h.1, h.2.1⟩

/-- the true regret never exceeds the payoff range -/
theorem regret_le_range (g : Game ℝ) (hg : GameWF g) (lo hi : ℝ) (hpay : PayIn lo hi g.root)
    (σ : Profile ℝ) (hσ : ProfileOK g σ) : (getInfo g σ).regret ≤ hi - lo := by
  have hD : 0 ≤ hi - lo := sub_nonneg.mpr (payIn_le g hg lo hi hpay)
  obtain ⟨u1, u2⟩ := expected_range g hg lo hi hpay σ hσ
  obtain ⟨τ1, a1, b1, e1⟩ := (eval_best_response g hg σ hσ true).1
  obtain ⟨τ2, a2, b2, e2⟩ := (eval_best_response g hg σ hσ false).1
  obtain ⟨v1, v2⟩ := expected_range g hg lo hi hpay _ (profileOK_deviate hσ true τ1 a1 b1)
  obtain ⟨w1, w2⟩ := expected_range g hg lo hi hpay _ (profileOK_deviate hσ false τ2 a2 b2)
  rw [eval_total_regret, eval_regret, eval_regret, e1, e2]
  simp only [utility, if_true, Bool.false_eq_true, if_false]
  refine max_le (max_le ?_ hD) (max_le ?_ hD) <;> linarith

end Cfr.PG
