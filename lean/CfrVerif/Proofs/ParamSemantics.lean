import CfrVerif.Proofs.RealInst
import CfrVerif.Model.Params
import CfrVerif.Model.Solve
import Mathlib.Algebra.BigOperators.Intervals
/-!
# C08 — the documented discounted-CFR parameter semantics

The helpers of `src/solve/data.rs` at `ℝ` (`exp`, `ln`, `ln_1p`, `powf` = the real functions):
discount factors in closed form, the average-strategy weights, the regret-matching branches,
the preset tuples, the order inside `advance`.
-/
set_option linter.unusedSectionVars false
namespace Cfr
open Finset

/-! ## discount factors -/

theorem lnAddExp0_eq (x : ℝ) : lnAddExp0 x = Real.log (1 + Real.exp x) := by
  unfold lnAddExp0
  split_ifs with h1 h2
  · have : x = 0 := by simpa using h1
    subst this
    simp; norm_num
  · simp only [transc_log1p, transc_exp]
    have : 1 + Real.exp x = Real.exp x * (1 + Real.exp (-x)) := by
      rw [mul_add, ← Real.exp_add]; simp [add_comm]
    rw [this, Real.log_mul (Real.exp_pos x).ne' (by positivity), Real.log_exp]
  · simp

/-- **`gen_discount` is `t^d / (t^d + 1)`** (computed in log space by the crate) for every
iteration `t ≥ 1` and every finite exponent -/
theorem genDiscount_closed_form (t : ℕ) (ht : 1 ≤ t) (d : ℝ) :
    genDiscount t (.fin d) = (t : ℝ) ^ d / ((t : ℝ) ^ d + 1) := by
  have htpos : (0 : ℝ) < t := by exact_mod_cast ht
  simp only [genDiscount]
  split_ifs with h
  · have : d = 0 := by simpa using h
    subst this
    simp [half]
  · simp only [lnAddExp0_eq, transc_exp, transc_log]
    rw [Real.rpow_def_of_pos htpos, Real.exp_sub, Real.exp_log (by positivity), mul_comm d]
    rw [add_comm]

/-- exponent `-∞` : immediate forgetting -/
theorem genDiscount_negInf (t : ℕ) : genDiscount t (.negInf : Ext ℝ) = 0 := by
  rfl

/-- exponent `+∞` : no discounting -/
theorem genDiscount_posInf (t : ℕ) : genDiscount t (.posInf : Ext ℝ) = 1 := by
  rfl

/-- exponent `0` : one half -/
theorem genDiscount_zero (t : ℕ) : genDiscount t (.fin (0 : ℝ)) = 1 / 2 := by
  simp [genDiscount, half]; norm_num

/-- every discount factor lies in `[0, 1]` -/
theorem genDiscount_mem_unit (t : ℕ) (ht : 1 ≤ t) (d : Ext ℝ) :
    0 ≤ genDiscount t d ∧ genDiscount t d ≤ 1 := by
  cases d with
  | negInf => simp [genDiscount]
  | posInf => simp [genDiscount]
  | fin d =>
    rw [genDiscount_closed_form t ht d]
    have htpos : (0 : ℝ) < t := by exact_mod_cast ht
    have h : 0 < (t : ℝ) ^ d := Real.rpow_pos_of_pos htpos d
    constructor
    · positivity
    · rw [div_le_one (by positivity)]; linarith

/-- **cumulative positive regrets are multiplied by the `α`-factor, negative ones by the
`β`-factor, zeros stay** -/
theorem discountCumRegret_entry (p : RegretParams ℝ) (t : ℕ) (v : List ℝ) (a : ℕ) (x : ℝ)
    (hx : v[a]? = some x) :
    (discountCumRegret p t v)[a]? = some
      (if 0 < x then x * genDiscount t p.posRegret
       else if x < 0 then x * genDiscount t p.negRegret else x) := by
  simp [discountCumRegret, List.getElem?_map, hx]

/-! ## average-strategy weights -/

/-- after iteration `t` the cumulative strategy is multiplied by `(t/(t+1))^γ` (for `γ = 0`
that factor is `1`) -/
theorem discountAverageStrat_entry (p : RegretParams ℝ) (hγ : 0 ≤ p.strat) (t : ℕ) (v : List ℝ) :
    discountAverageStrat p t v = v.map (· * ((t : ℝ) / ((t : ℝ) + 1)) ^ p.strat) := by
  simp only [discountAverageStrat]
  split_ifs with h
  · simp
  · have : p.strat = 0 := le_antisymm (not_lt.mp h) hγ
    simp [this]

theorem prod_ratio_telescopes (t T : ℕ) (ht : 1 ≤ t) (htT : t ≤ T) :
    ∏ s ∈ Ico t T, ((s : ℝ) / ((s : ℝ) + 1)) = (t : ℝ) / (T : ℝ) := by
  induction T, htT using Nat.le_induction with
  | base =>
    have htpos : (0 : ℝ) < t := by exact_mod_cast ht
    simp [htpos.ne']
  | succ T hT ih =>
    have hTpos : (0 : ℝ) < T := by exact_mod_cast (le_trans ht hT)
    rw [Finset.prod_Ico_succ_top hT, ih]
    push_cast
    field_simp

/-- **iteration `t` contributes to the average with weight `t^γ`**: the product of the factors
applied after iterations `t, t+1, …, T-1` to what iteration `t` added is `(t/T)^γ` -/
theorem avg_weight_telescopes (γ : ℝ) (t T : ℕ) (ht : 1 ≤ t) (htT : t ≤ T) :
    ∏ s ∈ Ico t T, (((s : ℝ) / ((s : ℝ) + 1)) ^ γ) = ((t : ℝ) / (T : ℝ)) ^ γ := by
  rw [← prod_ratio_telescopes t T ht htT]
  clear htT ht
  induction T with
  | zero => simp
  | succ T ih =>
    by_cases hT : t ≤ T
    · rw [Finset.prod_Ico_succ_top hT, Finset.prod_Ico_succ_top hT, ih,
        Real.mul_rpow (Finset.prod_nonneg fun s _ => by positivity) (by positivity)]
    · have : Ico t (T + 1) = ∅ := Finset.Ico_eq_empty_of_le (by omega)
      simp [this]

/-! ## regret matching -/

/-- positive part -/
def pos (x : ℝ) : ℝ := max x 0

theorem pos_nonneg (x : ℝ) : 0 ≤ pos x := le_max_right _ _

theorem lsum_filter_pos (v : List ℝ) :
    lsum (v.filter (fun x => decide (0 < x))) = (v.map pos).sum := by
  induction v with
  | nil => simp
  | cons x xs ih =>
    by_cases hx : 0 < x
    · simp [hx, ih, pos, max_eq_left hx.le]
    · simp [hx, ih, pos, max_eq_right (not_lt.mp hx)]

theorem sum_map_pos_nonneg (v : List ℝ) : 0 ≤ (v.map pos).sum :=
  List.sum_nonneg (by intro x hx; obtain ⟨y, _, rfl⟩ := List.mem_map.mp hx; exact pos_nonneg y)

theorem sum_map_pos_pos (v : List ℝ) (h : ∃ x ∈ v, 0 < x) : 0 < (v.map pos).sum := by
  induction v with
  | nil => simp at h
  | cons y ys ih =>
    obtain ⟨x, hx, hx0⟩ := h
    simp only [List.map_cons, List.sum_cons]
    rcases List.mem_cons.mp hx with rfl | hx
    · have : pos x = x := max_eq_left hx0.le
      have := sum_map_pos_nonneg ys
      linarith
    · have := ih ⟨x, hx, hx0⟩
      have := pos_nonneg y
      linarith

theorem sum_map_pos_eq_zero (v : List ℝ) (h : ∀ x ∈ v, x ≤ 0) : (v.map pos).sum = 0 := by
  induction v with
  | nil => simp
  | cons y ys ih =>
    simp only [List.map_cons, List.sum_cons]
    rw [ih (fun x hx => h x (List.mem_cons_of_mem _ hx))]
    have : pos y = 0 := max_eq_right (h y List.mem_cons_self)
    linarith

/-- **the next strategy is proportional to the positive cumulative regret** whenever some
regret is positive -/
theorem regretMatch_positive (np : Ext ℝ) (v : List ℝ) (h : ∃ x ∈ v, 0 < x) :
    regretMatch np v = v.map (fun r => pos r / (v.map pos).sum) := by
  simp only [regretMatch, lsum_filter_pos]
  rw [if_pos (sum_map_pos_pos v h)]
  apply List.map_congr_left
  intro r _
  split_ifs with hr
  · rw [pos, max_eq_left hr.le]
  · rw [pos, max_eq_right (not_lt.mp hr), zero_div]

/-- no positive regret, weight `0` : uniform -/
theorem regretMatch_uniform (v : List ℝ) (h : ∀ x ∈ v, x ≤ 0) :
    regretMatch (.fin 0) v = List.replicate v.length (1 / (v.length : ℝ)) := by
  simp only [regretMatch, lsum_filter_pos, sum_map_pos_eq_zero v h]
  simp

theorem argmaxLast_go (ys : List ℝ) (i : ℕ) (b : ℝ) (bi : ℕ) :
    (argmaxLast.go ys i b bi = bi ∧ ∀ y ∈ ys, y < b) ∨
      ∃ j m, ys[j]? = some m ∧ argmaxLast.go ys i b bi = i + j ∧ b ≤ m ∧ ∀ y ∈ ys, y ≤ m := by
  induction ys generalizing i b bi with
  | nil => left; simp [argmaxLast.go]
  | cons y ys ih =>
    simp only [argmaxLast.go]
    split_ifs with hy
    · rcases ih (i + 1) b bi with ⟨hk, hall⟩ | ⟨j, m, hj, hk, hbm, hall⟩
      · left
        refine ⟨hk, ?_⟩
        intro z hz
        rcases List.mem_cons.mp hz with rfl | hz
        · exact hy
        · exact hall z hz
      · right
        refine ⟨j + 1, m, by simpa using hj, by omega, hbm, ?_⟩
        intro z hz
        rcases List.mem_cons.mp hz with rfl | hz
        · linarith
        · exact hall z hz
    · have hby : b ≤ y := not_lt.mp hy
      right
      rcases ih (i + 1) y i with ⟨hk, hall⟩ | ⟨j, m, hj, hk, hbm, hall⟩
      · refine ⟨0, y, by simp, by simpa using hk, hby, ?_⟩
        intro z hz
        rcases List.mem_cons.mp hz with rfl | hz
        · exact le_refl _
        · exact (hall z hz).le
      · refine ⟨j + 1, m, by simpa using hj, by omega, by linarith, ?_⟩
        intro z hz
        rcases List.mem_cons.mp hz with rfl | hz
        · exact hbm
        · exact hall z hz

theorem argmaxLast_spec (v : List ℝ) (hne : v ≠ []) :
    argmaxLast v < v.length ∧ ∀ x ∈ v, x ≤ v[argmaxLast v]! := by
  cases v with
  | nil => exact absurd rfl hne
  | cons x xs =>
    simp only [argmaxLast]
    rcases argmaxLast_go xs 1 x 0 with ⟨hk, hall⟩ | ⟨j, m, hj, hk, hbm, hall⟩
    · rw [hk]
      refine ⟨by simp, ?_⟩
      intro z hz
      rcases List.mem_cons.mp hz with rfl | hz
      · simp
      · simpa using (hall z hz).le
    · rw [hk]
      obtain ⟨hjlt, hjm⟩ := List.getElem?_eq_some_iff.mp hj
      have hlt : 1 + j < (x :: xs).length := by simp; omega
      have hget : (x :: xs)[1 + j]! = m := by
        rw [getElem!_pos (x :: xs) (1 + j) hlt]
        simp [add_comm 1 j, hjm]
      refine ⟨hlt, ?_⟩
      rw [hget]
      intro z hz
      rcases List.mem_cons.mp hz with rfl | hz
      · exact hbm
      · exact hall z hz

/-- no positive regret, weight `+∞` : all mass on an action of maximal regret -/
theorem regretMatch_best (v : List ℝ) (hne : v ≠ []) (h : ∀ x ∈ v, x ≤ 0) :
    ∃ k, k < v.length ∧ (∀ x ∈ v, x ≤ v[k]!) ∧ regretMatch .posInf v = oneHot v.length k := by
  refine ⟨argmaxLast v, (argmaxLast_spec v hne).1, (argmaxLast_spec v hne).2, ?_⟩
  simp only [regretMatch, lsum_filter_pos, sum_map_pos_eq_zero v h, lt_irrefl, if_false]

theorem argminFirst_go (ys : List ℝ) (i : ℕ) (b : ℝ) (bi : ℕ) :
    (argminFirst.go ys i b bi = bi ∧ ∀ y ∈ ys, b ≤ y) ∨
      ∃ j m, ys[j]? = some m ∧ argminFirst.go ys i b bi = i + j ∧ m < b ∧ ∀ y ∈ ys, m ≤ y := by
  induction ys generalizing i b bi with
  | nil => left; simp [argminFirst.go]
  | cons y ys ih =>
    simp only [argminFirst.go]
    split_ifs with hy
    · right
      rcases ih (i + 1) y i with ⟨hk, hall⟩ | ⟨j, m, hj, hk, hbm, hall⟩
      · refine ⟨0, y, by simp, by simpa using hk, hy, ?_⟩
        intro z hz
        rcases List.mem_cons.mp hz with rfl | hz
        · exact le_refl _
        · exact hall z hz
      · refine ⟨j + 1, m, by simpa using hj, by omega, by linarith, ?_⟩
        intro z hz
        rcases List.mem_cons.mp hz with rfl | hz
        · exact hbm.le
        · exact hall z hz
    · have hby : b ≤ y := not_lt.mp hy
      rcases ih (i + 1) b bi with ⟨hk, hall⟩ | ⟨j, m, hj, hk, hbm, hall⟩
      · left
        refine ⟨hk, ?_⟩
        intro z hz
        rcases List.mem_cons.mp hz with rfl | hz
        · exact hby
        · exact hall z hz
      · right
        refine ⟨j + 1, m, by simpa using hj, by omega, hbm, ?_⟩
        intro z hz
        rcases List.mem_cons.mp hz with rfl | hz
        · linarith
        · exact hall z hz

theorem argminFirst_spec (v : List ℝ) (hne : v ≠ []) :
    argminFirst v < v.length ∧ ∀ x ∈ v, v[argminFirst v]! ≤ x := by
  cases v with
  | nil => exact absurd rfl hne
  | cons x xs =>
    simp only [argminFirst]
    rcases argminFirst_go xs 1 x 0 with ⟨hk, hall⟩ | ⟨j, m, hj, hk, hbm, hall⟩
    · rw [hk]
      refine ⟨by simp, ?_⟩
      intro z hz
      rcases List.mem_cons.mp hz with rfl | hz
      · simp
      · simpa using hall z hz
    · rw [hk]
      obtain ⟨hjlt, hjm⟩ := List.getElem?_eq_some_iff.mp hj
      have hlt : 1 + j < (x :: xs).length := by simp; omega
      have hget : (x :: xs)[1 + j]! = m := by
        rw [getElem!_pos (x :: xs) (1 + j) hlt]
        simp [add_comm 1 j, hjm]
      refine ⟨hlt, ?_⟩
      rw [hget]
      intro z hz
      rcases List.mem_cons.mp hz with rfl | hz
      · exact hbm.le
      · exact hall z hz

/-- no positive regret, weight `-∞` : all mass on an action of minimal regret -/
theorem regretMatch_worst (v : List ℝ) (hne : v ≠ []) (h : ∀ x ∈ v, x ≤ 0) :
    ∃ k, k < v.length ∧ (∀ x ∈ v, v[k]! ≤ x) ∧ regretMatch .negInf v = oneHot v.length k := by
  refine ⟨argminFirst v, (argminFirst_spec v hne).1, (argminFirst_spec v hne).2, ?_⟩
  simp only [regretMatch, lsum_filter_pos, sum_map_pos_eq_zero v h, lt_irrefl, if_false]

theorem sum_map_mul_right (v : List ℝ) (f : ℝ → ℝ) (c : ℝ) :
    (v.map (fun r => f r * c)).sum = (v.map f).sum * c := by
  induction v with
  | nil => simp
  | cons y ys ih => simp [ih, add_mul]

theorem sum_map_exp_pos (v : List ℝ) (hne : v ≠ []) (f : ℝ → ℝ) :
    0 < (v.map (fun r => Real.exp (f r))).sum := by
  induction v with
  | nil => exact absurd rfl hne
  | cons y ys ih =>
    simp only [List.map_cons, List.sum_cons]
    have : 0 ≤ (ys.map (fun r => Real.exp (f r))).sum :=
      List.sum_nonneg (by
        intro x hx; obtain ⟨y, _, rfl⟩ := List.mem_map.mp hx; exact (Real.exp_pos _).le)
    have := Real.exp_pos (f y)
    linarith

/-- no positive regret, finite non-zero weight `w` : the soft-max of `w · regret` -/
theorem regretMatch_softmax (w : ℝ) (hw : w ≠ 0) (v : List ℝ) (h : ∀ x ∈ v, x ≤ 0) :
    regretMatch (.fin w) v
      = v.map (fun r => Real.exp (w * r) / (v.map (fun s => Real.exp (w * s))).sum) := by
  simp only [regretMatch, lsum_filter_pos, sum_map_pos_eq_zero v h, lt_irrefl, if_false]
  rw [if_neg (by simpa using hw)]
  generalize (if 0 < w then maxD 0 v else minD 0 v) = e
  simp only [transc_exp, lsum_eq_sum, List.map_map]
  by_cases hne : v = []
  · subst hne; simp
  have key : ∀ r : ℝ, Real.exp ((r - e) * w) = Real.exp (w * r) * Real.exp (-(e * w)) := by
    intro r; rw [← Real.exp_add]; congr 1; ring
  have hS := sum_map_exp_pos v hne (fun s => w * s)
  apply List.map_congr_left
  intro r _
  simp only [Function.comp, key]
  rw [sum_map_mul_right v (fun r => Real.exp (w * r))]
  have := Real.exp_pos (-(e * w))
  field_simp

/-! ## presets, default, order inside `advance` -/

theorem preset_vanilla : (RegretParams.vanilla : RegretParams ℝ) = ⟨.posInf, .posInf, 0, .fin 0⟩ := by
  rfl
theorem preset_lcfr : (RegretParams.lcfr : RegretParams ℝ) = ⟨.fin 1, .fin 1, 1, .posInf⟩ := by
  rfl
theorem preset_cfrPlus : (RegretParams.cfrPlus : RegretParams ℝ) = ⟨.posInf, .negInf, 2, .posInf⟩ := by
  simp [RegretParams.cfrPlus, two]; norm_num
theorem preset_dcfr : (RegretParams.dcfr : RegretParams ℝ) = ⟨.fin (3 / 2), .fin 0, 2, .posInf⟩ := by
  simp [RegretParams.dcfr, two, half]; norm_num
theorem preset_dcfrPrune :
    (RegretParams.dcfrPrune : RegretParams ℝ) = ⟨.fin (3 / 2), .fin (1 / 2), 2, .posInf⟩ := by
  simp [RegretParams.dcfrPrune, two, half]; norm_num
/-- omitting the parameters means DCFR -/
theorem default_is_dcfr : (RegretParams.default : RegretParams ℝ) = RegretParams.dcfr := by
  rfl

/-- **order inside `advance`**: the next strategy is matched on the *pre-discount* regrets,
then the regrets are discounted (iteration `it`), then the average (iteration `itAvg`), and the
reported bound is `2·max(max_a R(a), 0)/it` of the discounted regrets -/
theorem advance_order (p : RegretParams ℝ) (it itAvg : ℕ) (x : InfoSt ℝ) :
    x.advance p it itAvg =
      (⟨discountCumRegret p it x.cumRegret, discountAverageStrat p itAvg x.cumStrat,
        regretMatch p.noPositive x.cumRegret⟩,
       cumRegretBound it (discountCumRegret p it x.cumRegret)) := by
  rfl

theorem foldl_fmax_spec (xs : List ℝ) (x : ℝ) :
    (∀ y ∈ x :: xs, y ≤ xs.foldl fmax x) ∧ xs.foldl fmax x ∈ x :: xs := by
  induction xs generalizing x with
  | nil => simp
  | cons y ys ih =>
    simp only [List.foldl_cons, fmax_eq_max]
    obtain ⟨h1, h2⟩ := ih (max x y)
    constructor
    · intro z hz
      rcases List.mem_cons.mp hz with rfl | hz
      · exact le_trans (le_max_left _ _) (h1 _ List.mem_cons_self)
      rcases List.mem_cons.mp hz with rfl | hz
      · exact le_trans (le_max_right _ _) (h1 _ List.mem_cons_self)
      · exact h1 z (List.mem_cons_of_mem _ hz)
    · rcases List.mem_cons.mp h2 with h2 | h2
      · rw [h2]
        rcases max_choice x y with hm | hm <;> rw [hm] <;> simp
      · exact List.mem_cons_of_mem _ (List.mem_cons_of_mem _ h2)

/-- the reported per-infoset bound in closed form -/
theorem cumRegretBound_closed (it : ℕ) (v : List ℝ) (hne : v ≠ []) :
    ∃ m, (∀ x ∈ v, x ≤ m) ∧ m ∈ v ∧ cumRegretBound it v = 2 * max m 0 / (it : ℝ) := by
  cases v with
  | nil => exact absurd rfl hne
  | cons x xs =>
    refine ⟨xs.foldl fmax x, (foldl_fmax_spec xs x).1, (foldl_fmax_spec xs x).2, ?_⟩
    simp only [cumRegretBound, maxD, fmax_eq_max, two]
    norm_num

end Cfr
