import CfrVerif.Proofs.PresetGameInv
import CfrVerif.Proofs.PresetGameAvg
/-!
# Assembly of the discounted-preset reduction: weighted regret side, weighted average side,
zero-sum sandwich
-/
set_option linter.unusedSectionVars false
set_option linter.unusedVariables false
namespace Cfr.PG
noncomputable section

theorem wsum_mul_left (N : ℕ) (nActs : ℕ → ℕ) (hist : ℕ → Hist) (τ : Strat ℝ) (c : ℝ)
    (f : ℕ → ℕ → ℝ) :
    c * wsum N nActs hist τ f = wsum N nActs hist τ (fun I a => c * f I a) := by
  unfold wsum
  simp only [Finset.mul_sum]
  apply Finset.sum_congr rfl
  intro I _
  apply Finset.sum_congr rfl
  intro a _
  ring

theorem weightTotal_eq (p : RegretParams ℝ) (T : ℕ) :
    weightTotal p.strat T = ((List.range T).map (fun k => wgt p k)).sum := rfl

theorem weightTotal_pos (p : RegretParams ℝ) (T : ℕ) (hT : 0 < T) : 0 < weightTotal p.strat T := by
  rw [weightTotal_eq, sum_list_range]
  apply Finset.sum_pos
  · intro k _; exact wgt_pos p k
  · exact ⟨0, Finset.mem_range.mpr hT⟩

theorem clampedMax_nonneg {p : RegretParams ℝ} {n : ℕ} {D : ℝ} {T : ℕ} (tr : RMTrace p n D T) :
    0 ≤ tr.clampedMax := by
  unfold RMTrace.clampedMax
  rw [fmax_eq_max]; exact le_max_right _ _

/-- the profile iteration `k + 1` reads -/
abbrev prof (g : Game ℝ) (p : RegretParams ℝ) (draw : DrawFn ℝ) (k : ℕ) : Profile ℝ :=
  (run g p draw k).1.profile

theorem prof_ok (g : Game ℝ) (hg : GameWF g) (p : RegretParams ℝ) (hp : 0 ≤ p.strat)
    (draw : DrawFn ℝ) (k : ℕ) : ProfileOK g (prof g p draw k) :=
  stOK_profile g _ (run_ok g hg p hp draw k)

theorem weightedRegret_trace (g : Game ℝ) (hg : GameWF g) (p : RegretParams ℝ) (hp : 0 ≤ p.strat)
    (lo hi : ℝ) (hpay : PayIn lo hi g.root) (draw : DrawFn ℝ) (T : ℕ) (me : Bool) (I a : ℕ) (ha : a < nActsOf g me I) :
    (trace g hg p hp lo hi hpay draw T me I).weightedRegret a
      = ((List.range T).map (fun k => wgt p k *
          regAdd (prof g p draw k me) I a (viewOf g (prof g p draw k) me) 1)).sum := by
  simp only [RMTrace.weightedRegret, trace, rof, rvec, Nat.add_sub_cancel]
  apply lmsum_congr
  intro k _
  rw [getD_range_map _ _ a ha]
  rfl

/-- **weighted regret side** -/
theorem wregret_side (g : Game ℝ) (hg : GameWF g) (p : RegretParams ℝ) (hp : 0 ≤ p.strat)
    (lo hi : ℝ) (hpay : PayIn lo hi g.root) (draw : DrawFn ℝ) (T : ℕ) (me : Bool) (τ : Strat ℝ) (hτ1 : IsStrat τ) (hτ2 : FitsGame g me τ) :
    ((List.range T).map (fun k => wgt p k *
        (evV τ (viewOf g (prof g p draw k) me)
          - evV (prof g p draw k me) (viewOf g (prof g p draw k) me)))).sum
      ≤ ((List.range (g.infos me).length).map
          (fun I => (trace g hg p hp lo hi hpay draw T me I).clampedMax)).sum := by
  obtain ⟨hist, hpr, _⟩ := hg.recall me
  have hτ : StratOK (g.infos me).length (nActsOf g me) τ := (stratOK_iff g me τ).mpr ⟨hτ1, hτ2⟩
  have e1 : ((List.range T).map (fun k => wgt p k *
        (evV τ (viewOf g (prof g p draw k) me)
          - evV (prof g p draw k me) (viewOf g (prof g p draw k) me)))).sum
      = ((List.range T).map (fun k => wsum (g.infos me).length (nActsOf g me) hist τ
          (fun I a => wgt p k *
            regAdd (prof g p draw k me) I a (viewOf g (prof g p draw k) me) 1))).sum := by
    apply lmsum_congr
    intro k _
    rw [← wsum_mul_left]
    congr 1
    exact perf_decomp _ _ hist τ (prof g p draw k me) hτ _
      (viewOf_ok g hg _ (prof_ok g hg p hp draw k) me)
      (view_PRV g.chance _ me hist g.root [] hpr)
  have e2 : wsum (g.infos me).length (nActsOf g me) hist τ
        (fun I a => ((List.range T).map (fun k => wgt p k *
            regAdd (prof g p draw k me) I a (viewOf g (prof g p draw k) me) 1)).sum)
      = wsum (g.infos me).length (nActsOf g me) hist τ
        (fun I a => (trace g hg p hp lo hi hpay draw T me I).weightedRegret a) := by
    apply wsum_congr
    intro I _ a ha
    rw [weightedRegret_trace g hg p hp lo hi hpay draw T me I a ha]
  rw [e1, lmsum_wsum, e2, sum_list_range]
  unfold wsum
  apply Finset.sum_le_sum
  intro I hI
  have hI := Finset.mem_range.mp hI
  set tr := trace g hg p hp lo hi hpay draw T me I with htr
  set R : List ℝ := (List.range (nActsOf g me I)).map tr.weightedRegret with hR
  have hRl : R.length = nActsOf g me I := by simp [hR]
  have hτl : (τ.at I).length = R.length := by rw [hRl]; exact hτ.2.1 I hI
  have hdist : IsDist (τ.at I) := hτ.2.2 _ (at_mem (by rw [hτ.1]; exact hI))
  have e3 : ∑ a ∈ Finset.range (nActsOf g me I), (τ.at I).getD a 0 * tr.weightedRegret a
      = dot (τ.at I) R := by
    rw [← sum_range_dot _ _ hτl, hRl]
    apply Finset.sum_congr rfl
    intro a ha
    rw [hR, getD_range_map _ _ a (Finset.mem_range.mp ha)]
  rw [e3]
  have h0 := histW_nonneg hτ.2.2 (hist I)
  have h1 := histW_le_one hτ.2.2 (hist I)
  have hd := dot_le_clamped_max (τ.at I) R hdist hτl
  have hM : 0 ≤ fmax (maxD 0 R) 0 := by
    rw [fmax_eq_max]; exact le_max_right _ _
  show histW τ (hist I) * dot (τ.at I) R ≤ fmax (maxD 0 R) 0
  calc histW τ (hist I) * dot (τ.at I) R
      ≤ histW τ (hist I) * fmax (maxD 0 R) 0 := mul_le_mul_of_nonneg_left hd h0
    _ ≤ 1 * fmax (maxD 0 R) 0 := mul_le_mul_of_nonneg_right h1 hM
    _ = fmax (maxD 0 R) 0 := one_mul _

/-! ## the average side -/

/-- the iterates of player `q` with their weights -/
def wlist (g : Game ℝ) (p : RegretParams ℝ) (draw : DrawFn ℝ) (T : ℕ) (q : Bool) : List (ℝ × Strat ℝ) :=
  (List.range T).map (fun k => (wgt p k, prof g p draw k q))

theorem wts_wlist (g : Game ℝ) (p : RegretParams ℝ) (draw : DrawFn ℝ) (T : ℕ) (q : Bool) (f : Strat ℝ → ℝ) :
    wts (wlist g p draw T q) f
      = ((List.range T).map (fun k => wgt p k * f (prof g p draw k q))).sum := by
  simp [wts, wlist, List.map_map, Function.comp_def]

/-- **the returned average strategy is the weighted reach-weighted average of the iterates** -/
theorem wavg_at (g : Game ℝ) (hg : GameWF g) (p : RegretParams ℝ) (hp : 0 ≤ p.strat)
    (draw : DrawFn ℝ) (T : ℕ) (q : Bool) (hist : ℕ → Hist) (hpr : PR q hist [] g.root) (τ : Strat ℝ) (I : ℕ)
    (hI : 0 < cntInfo I (view g.chance τ q g.root)) :
    WAvgAt (g.infos q).length (nActsOf g q) hist (wlist g p draw T q)
      ((run g p draw T).1.avg q) I := by
  have hok := run_ok g hg p hp draw T
  have hlen := stOK_length g _ hok q
  by_cases hIN : I < (g.infos q).length
  · have hI' : I < ((run g p draw T).1.get q).length := by rw [hlen]; exact hIN
    have hx := List.getElem?_eq_getElem hI'
    obtain ⟨_, hinfo⟩ := stOK_get g _ hok q I _ hx
    have hclosed := cumStrat_closed g hg p hp draw T q I _ hx
    generalize ((run g p draw T).1.get q)[I] = x at hx hinfo hclosed
    have hat : Strat.at ((run g p draw T).1.avg q) I = avgStrat x.cumStrat := by
      simp [SolveSt.avg, Strat.at, List.getD_eq_getElem?_getD, List.getElem?_map, hx]
    obtain ⟨_, hal⟩ := avgStrat_isDist x.cumStrat (by rw [hinfo.lenS]; exact hinfo.pos) hinfo.nonneg
    rw [WAvgAt, hat]
    refine ⟨by rw [hal, hinfo.lenS], ?_⟩
    intro a ha
    have hw := wgt_pos p T
    set cnt : ℝ := (cntInfo I (view g.chance τ q g.root) : ℝ) with hcnt
    set c : ℝ := cnt / wgt p T with hc
    have hcpos : c ≠ 0 := by
      have : (0 : ℝ) < cnt := by rw [hcnt]; exact_mod_cast hI
      exact (div_pos this hw).ne'
    have key : ∀ b, b < nActsOf g q I → x.cumStrat.getD b 0
        = c * wts (wlist g p draw T q) (fun σ => histW σ (hist I) * (σ.at I).getD b 0) := by
      intro b hb
      have h := hclosed b hb
      have e : ((List.range T).map (fun k => wgt p k *
            stratAdd (prof g p draw k q) I b (viewOf g (prof g p draw k) q) 1)).sum
          = cnt * wts (wlist g p draw T q) (fun σ => histW σ (hist I) * (σ.at I).getD b 0) := by
        rw [wts_wlist, ← lmsum_mul_left]
        apply lmsum_congr
        intro k _
        have := stratAdd_eq (g.infos q).length (nActsOf g q) hist (prof g p draw k q) I b
          (viewOf g (prof g p draw k) q) []
          (viewOf_ok g hg _ (prof_ok g hg p hp draw k) q)
          (view_PRV g.chance _ q hist g.root [] hpr)
        rw [histW_nil] at this
        rw [this, cntInfo_view g.chance (prof g p draw k (!q)) τ q I g.root]
        ring
      rw [e] at h
      rw [hc, div_mul_eq_mul_div, eq_div_iff hw.ne']
      exact h
    have hsumA : ∑ b ∈ Finset.range (nActsOf g q I),
        wts (wlist g p draw T q) (fun σ => histW σ (hist I) * (σ.at I).getD b 0)
        = wts (wlist g p draw T q) (fun σ => histW σ (hist I)) := by
      simp only [wts_wlist]
      rw [lmsum_range (nActsOf g q I) (List.range T)
        (fun k b => wgt p k * (histW (prof g p draw k q) (hist I)
          * ((prof g p draw k q).at I).getD b 0))]
      apply lmsum_congr
      intro k _
      have hs := profile_stratOK g _ (prof_ok g hg p hp draw k) q
      have h1 : ((prof g p draw k q).at I).length = nActsOf g q I := hs.2.1 I hIN
      have h2 : ((prof g p draw k q).at I).sum = 1 :=
        (hs.2.2 _ (at_mem (by rw [hs.1]; exact hIN))).2
      rw [← Finset.mul_sum, ← Finset.mul_sum, ← h1, sum_range_getD, h2, mul_one]
    have hS : x.cumStrat.sum
        = c * wts (wlist g p draw T q) (fun σ => histW σ (hist I)) := by
      rw [← sum_range_getD, hinfo.lenS, ← hsumA, Finset.mul_sum]
      apply Finset.sum_congr rfl
      intro b hb
      exact key b (Finset.mem_range.mp hb)
    have ha' : a < x.cumStrat.length := by rw [hinfo.lenS]; exact ha
    have hmem : x.cumStrat.getD a 0 ∈ x.cumStrat := by
      rw [List.getD_eq_getElem?_getD, List.getElem?_eq_getElem ha']
      exact List.getElem_mem ha'
    have h0 : x.cumStrat.sum = 0 → x.cumStrat.getD a 0 = 0 := by
      intro hz
      have h1 := mem_le_sum _ hinfo.nonneg _ hmem
      have h2 := hinfo.nonneg _ hmem
      rw [hz] at h1
      exact le_antisymm h1 h2
    have hentry : (avgStrat x.cumStrat).getD a 0
        = if x.cumStrat.sum = 0 then 1 / (x.cumStrat.length : ℝ)
          else x.cumStrat.getD a 0 / x.cumStrat.sum := by
      simp only [avgStrat, lsum_eq_sum]
      split_ifs with h1 h2 h2
      · simp [List.getD_eq_getElem?_getD, ha']
      · exact absurd (by simpa using h1) h2
      · exact absurd (by simpa using h2) h1
      · simp [List.getD_eq_getElem?_getD, List.getElem?_map, List.getElem?_eq_getElem ha']
    rcases avg_at_entry c _ _ _ _ hcpos hS (key a ha) h0 with hh | ⟨z1, z2, z3⟩
    · rw [hentry]
      by_cases hz : x.cumStrat.sum = 0
      · rw [if_pos hz] at hh ⊢
        rw [zero_mul] at hh
        have hW : wts (wlist g p draw T q) (fun σ => histW σ (hist I)) = 0 := by
          rw [hz] at hS
          rcases mul_eq_zero.mp hS.symm with h' | h'
          · exact absurd h' hcpos
          · exact h'
        rw [hW, mul_zero]; exact hh
      · rw [if_neg hz] at hh ⊢
        exact hh
    · rw [z2, z3, mul_zero]
  · have hge : (g.infos q).length ≤ I := not_lt.mp hIN
    have hat : Strat.at ((run g p draw T).1.avg q) I = [] := by
      simp [SolveSt.avg, Strat.at, List.getD_eq_getElem?_getD, hlen, hge]
    have hn : nActsOf g q I = 0 := nActsOf_ge g q I hge
    rw [WAvgAt, hat, hn]
    exact ⟨rfl, fun a ha => absurd ha (Nat.not_lt_zero a)⟩

/-- **weighted average side**: against the returned average strategy of the opponent every
strategy `τ` earns the weighted mean of what it earns against the opponent's iterates -/
theorem wavg_side (g : Game ℝ) (hg : GameWF g) (p : RegretParams ℝ) (hp : 0 ≤ p.strat)
    (draw : DrawFn ℝ) (T : ℕ) (me : Bool) (τ : Strat ℝ) (hτ1 : IsStrat τ) (hτ2 : FitsGame g me τ) :
    ((List.range T).map (fun k => wgt p k * evV τ (viewOf g (prof g p draw k) me))).sum
      = weightTotal p.strat T * evV τ (view g.chance ((run g p draw T).1.avg (!me)) me g.root) := by
  obtain ⟨hist, hpr, _⟩ := hg.recall (!me)
  have hτ2' : FitsGame g (!(!me)) τ := by rwa [Bool.not_not]
  have hok := view_ok g hg (!me) τ hτ1 hτ2'
  have hprv := view_PRV g.chance τ (!me) hist g.root [] hpr
  have := wavg_realisation _ _ hist (wlist g p draw T (!me)) ((run g p draw T).1.avg (!me)) _
    hok hprv (fun I hI => wavg_at g hg p hp draw T (!me) hist hpr τ I hI)
  rw [wts_wlist, wts_wlist] at this
  have e : ((List.range T).map (fun k => wgt p k *
        evV (prof g p draw k (!me)) (view g.chance τ (!me) g.root))).sum
      = - ((List.range T).map (fun k => wgt p k * evV τ (viewOf g (prof g p draw k) me))).sum := by
    rw [← lmsum_neg]
    apply lmsum_congr
    intro k _
    rw [evV_view_swap g.chance (prof g p draw k (!me)) τ me g.root]
    ring
  have e' : ((List.range T).map (fun k => wgt p k * (1 : ℝ))).sum = weightTotal p.strat T := by
    rw [weightTotal_eq]
    apply lmsum_congr
    intro k _
    ring
  rw [e, e', evV_view_swap] at this
  linarith

/-! ## the zero-sum sandwich -/

theorem wbr_le (g : Game ℝ) (hg : GameWF g) (p : RegretParams ℝ) (hp : 0 ≤ p.strat)
    (lo hi : ℝ) (hpay : PayIn lo hi g.root) (draw : DrawFn ℝ) (T : ℕ) (hT : 0 < T) (me : Bool) :
    weightTotal p.strat T * optimalDeviations g me ((run g p draw T).1.avg (!me))
      ≤ ((List.range T).map (fun k => wgt p k *
            evV (prof g p draw k me) (viewOf g (prof g p draw k) me))).sum
        + ((List.range (g.infos me).length).map
            (fun I => (trace g hg p hp lo hi hpay draw T me I).clampedMax)).sum := by
  have hok := run_ok g hg p hp draw T
  have hσb : ProfileOK g (run g p draw T).1.avg := fun q => stOK_avg g _ hok q
  obtain ⟨τ, t1, t2, e⟩ := (eval_best_response g hg _ hσb me).1
  rw [utility_deviate g hg _ hσb me τ t1 t2] at e
  have a1 := wavg_side g hg p hp draw T me τ t1 t2
  have a2 := wregret_side g hg p hp lo hi hpay draw T me τ t1 t2
  have a3 : ((List.range T).map (fun k => wgt p k *
        (evV τ (viewOf g (prof g p draw k) me)
          - evV (prof g p draw k me) (viewOf g (prof g p draw k) me)))).sum
      = ((List.range T).map (fun k => wgt p k * evV τ (viewOf g (prof g p draw k) me))).sum
        - ((List.range T).map (fun k => wgt p k *
            evV (prof g p draw k me) (viewOf g (prof g p draw k) me))).sum := by
    rw [← lmsum_sub]
    apply lmsum_congr
    intro k _
    ring
  rw [a3, a1] at a2
  rw [e]
  linarith

/-- **the reduction**: the true regret of the returned profile times the total weight is at most
the sum of the clamped maximal weighted regrets of all infosets of both players -/
theorem reduction (g : Game ℝ) (hg : GameWF g) (p : RegretParams ℝ) (hp : 0 ≤ p.strat)
    (lo hi : ℝ) (hpay : PayIn lo hi g.root) (draw : DrawFn ℝ) (T : ℕ) (hT : 0 < T) :
    (getInfo g (run g p draw T).1.avg).regret * weightTotal p.strat T
      ≤ ((List.range (g.infos true).length).map
            (fun I => (trace g hg p hp lo hi hpay draw T true I).clampedMax)).sum
        + ((List.range (g.infos false).length).map
            (fun I => (trace g hg p hp lo hi hpay draw T false I).clampedMax)).sum := by
  have hok := run_ok g hg p hp draw T
  have hσb : ProfileOK g (run g p draw T).1.avg := fun q => stOK_avg g _ hok q
  have hW := weightTotal_pos p T hT
  have b1 := wbr_le g hg p hp lo hi hpay draw T hT true
  have b2 := wbr_le g hg p hp lo hi hpay draw T hT false
  have hU : ((List.range T).map (fun k => wgt p k *
        evV (prof g p draw k false) (viewOf g (prof g p draw k) false))).sum
      = - ((List.range T).map (fun k => wgt p k *
        evV (prof g p draw k true) (viewOf g (prof g p draw k) true))).sum := by
    rw [← lmsum_neg]
    apply lmsum_congr
    intro k _
    have := evV_view_neg g.chance (prof g p draw k true) (prof g p draw k false) g.root
    simp only [viewOf, Bool.not_false, Bool.not_true]
    rw [this]; ring
  rw [hU] at b2
  have n1 : 0 ≤ ((List.range (g.infos true).length).map
      (fun I => (trace g hg p hp lo hi hpay draw T true I).clampedMax)).sum := by
    apply List.sum_nonneg
    intro v hv
    obtain ⟨I, _, rfl⟩ := List.mem_map.mp hv
    exact clampedMax_nonneg _
  have n2 : 0 ≤ ((List.range (g.infos false).length).map
      (fun I => (trace g hg p hp lo hi hpay draw T false I).clampedMax)).sum := by
    apply List.sum_nonneg
    intro v hv
    obtain ⟨I, _, rfl⟩ := List.mem_map.mp hv
    exact clampedMax_nonneg _
  have u1 := best_response_ge_utility g hg _ hσb true
  have u2 := best_response_ge_utility g hg _ hσb false
  have hu : utility g (run g p draw T).1.avg false = - utility g (run g p draw T).1.avg true := by
    simp [utility]
  rw [hu] at u2
  rw [eval_total_regret, eval_regret, eval_regret, hu]
  set B1 := optimalDeviations g true ((run g p draw T).1.avg (!true)) with hB1
  set B2 := optimalDeviations g false ((run g p draw T).1.avg (!false)) with hB2
  set S1 := ((List.range (g.infos true).length).map
      (fun I => (trace g hg p hp lo hi hpay draw T true I).clampedMax)).sum with hS1
  set S2 := ((List.range (g.infos false).length).map
      (fun I => (trace g hg p hp lo hi hpay draw T false I).clampedMax)).sum with hS2
  set u := utility g (run g p draw T).1.avg true with hu'
  set U := ((List.range T).map (fun k => wgt p k *
        evV (prof g p draw k true) (viewOf g (prof g p draw k) true))).sum with hUU
  set W := weightTotal p.strat T with hWW
  have hsum : W * (B1 + B2) ≤ S1 + S2 := by nlinarith
  have k1 : (B1 - u) * W ≤ S1 + S2 := by nlinarith
  have k2 : (B2 - -u) * W ≤ S1 + S2 := by nlinarith
  have k0 : (0 : ℝ) * W ≤ S1 + S2 := by rw [zero_mul]; linarith
  rcases max_choice (max (B1 - u) 0) (max (B2 - -u) 0) with h | h <;> rw [h]
  · rcases max_choice (B1 - u) 0 with h' | h' <;> rw [h']
    · exact k1
    · exact k0
  · rcases max_choice (B2 - -u) 0 with h' | h' <;> rw [h']
    · exact k2
    · exact k0

end
end Cfr.PG
