import CfrVerif.Model.Worklist
import CfrVerif.Proofs.BestResponse
import Mathlib.Data.Finset.Card
import Mathlib.Data.Finset.Max
import Mathlib.Data.Finset.Dedup
/-!
# Lemmas for `Proofs/WorklistEq.lean`: the work-list of `optimal_deviations` is a correct schedule

Abstract setting (`WLCtx`): `N` infosets, `nActs`, the own histories `hist`, the previous-infoset
function `prev` read off the tables, the list `nodes` of reached own nodes.

* `wlCollect_spec` : what the first loop files under every infoset.
* `muStar` : the final table of `resolveAll`; `muStar_unreached`, `muStar_reached`.
* `WInv` : the loop invariant of `wlLoop`, indexed by the finite set `U` of reached infosets that
  are not resolved yet; `wlStep_inv`, `wlLoop_spec`, `wlInitial_inv`.
* `wl_table_eq` : the `max_utility` column of the final work-list table *is* `muStar`.
* `collect_anc` : a reached own node lies below reached nodes of all infosets of its own history.
-/
set_option linter.unusedSectionVars false
namespace Cfr
variable {α : Type} [Field α] [LinearOrder α] [IsStrictOrderedRing α]

/-! ## the first loop -/

theorem mine_cons (h : Reached α) (l : List (Reached α)) (I : Nat) :
    mine (h :: l) I = (if h.info = I then [h] else []) ++ mine l I := by
  unfold mine
  by_cases e : h.info = I
  · simp [e]
  · simp [e]

theorem mine_nil (I : Nat) : mine ([] : List (Reached α)) I = [] := rfl

theorem mine_ne_nil {nodes : List (Reached α)} {I : Nat} :
    mine nodes I ≠ [] ↔ ∃ h ∈ nodes, h.info = I := by
  constructor
  · intro hne
    cases hm : mine nodes I with
    | nil => exact absurd hm hne
    | cons x l =>
      have hx : x ∈ mine nodes I := by rw [hm]; simp
      exact ⟨x, (mem_mine.mp hx).1, (mem_mine.mp hx).2⟩
  · rintro ⟨h, h1, h2⟩ he
    have : h ∈ mine nodes I := mem_mine.mpr ⟨h1, h2⟩
    rw [he] at this
    simp at this

/-- what `wlCollect` adds to entry `I` -/
theorem wlCollect_spec (prev : Nat → Option Nat) : ∀ (l : List (Reached α)) (T : List (DevInfo α)),
    (wlCollect prev l T).length = T.length ∧
    ∀ (I : Nat) (d : DevInfo α), T[I]? = some d → (wlCollect prev l T)[I]? =
      some (DevInfo.mk (d.future + l.countP (fun h => decide (prev h.info = some I)))
        (d.nodes ++ mine l I) d.maxU)
  | [], T => by
    refine ⟨rfl, fun I d hd => ?_⟩
    simp [wlCollect, mine_nil, hd]
  | h :: hs, T => by
    simp only [wlCollect]
    cases hp : prev h.info with
    | none =>
      obtain ⟨ih1, ih2⟩ := wlCollect_spec prev hs
        (T.modify h.info (fun d => { d with nodes := d.nodes ++ [h] }))
      refine ⟨by rw [ih1]; simp, fun I d hd => ?_⟩
      have hI : (T.modify h.info (fun d => { d with nodes := d.nodes ++ [h] }))[I]? =
          some (DevInfo.mk d.future (d.nodes ++ (if h.info = I then [h] else [])) d.maxU) := by
        rw [List.getElem?_modify, hd]
        by_cases e : h.info = I <;> simp [e]
      rw [ih2 I _ hI, mine_cons, List.countP_cons]
      simp [hp, List.append_assoc]
    | some j =>
      obtain ⟨ih1, ih2⟩ := wlCollect_spec prev hs
        ((T.modify h.info (fun d => { d with nodes := d.nodes ++ [h] })).modify j
          (fun d => { d with future := d.future + 1 }))
      refine ⟨by rw [ih1]; simp, fun I d hd => ?_⟩
      have hI : ((T.modify h.info (fun d => { d with nodes := d.nodes ++ [h] })).modify j
          (fun d => { d with future := d.future + 1 }))[I]? =
          some (DevInfo.mk (d.future + (if j = I then 1 else 0))
            (d.nodes ++ (if h.info = I then [h] else [])) d.maxU) := by
        rw [List.getElem?_modify, List.getElem?_modify, hd]
        by_cases e : h.info = I <;> by_cases e' : j = I <;> simp [e, e']
      rw [ih2 I _ hI, mine_cons, List.countP_cons]
      by_cases e' : j = I
      · simp [hp, e', List.append_assoc]; omega
      · simp [hp, e', List.append_assoc]

/-! ## below a node of infoset `I`, only the entries of the infosets whose history is
`hist I ++ [(I, a)]` are read -/

theorem addPayoffs_congr' (hist : Nat → Hist) (mu mu' : List α) (r : α) (i : Nat) (H : Hist)
    (he : ∀ j a, hist j = H ++ [(i, a)] → mu.getD j 0 = mu'.getD j 0) :
    ∀ (ks : List (V α)) (acc : List α) (a : Nat), PRVD hist H i a ks →
      addPayoffs mu r acc ks = addPayoffs mu' r acc ks
  | [], acc, a, _ => by cases acc <;> simp [addPayoffs]
  | k :: ks, [], a, _ => by simp [addPayoffs]
  | k :: ks, x :: acc, a, hp => by
    obtain ⟨p1, p2⟩ := (by simpa [PRVD] using hp :
      PRV hist (H ++ [(i, a)]) k ∧ PRVD hist H i (a + 1) ks)
    simp only [addPayoffs]
    rw [addPayoffs_congr' hist mu mu' r i H he ks acc (a + 1) p2,
      search_congr hist mu mu' k _ p1 (fun j hj => he j a hj)]

theorem foldl_addPayoffs_congr' (hist : Nat → Hist) (mu mu' : List α) (I : Nat)
    (he : ∀ j a, hist j = hist I ++ [(I, a)] → mu.getD j 0 = mu'.getD j 0) :
    ∀ (l : List (Reached α)) (acc : List α),
      (∀ h ∈ l, h.info = I ∧ PRVD hist (hist h.info) h.info 0 h.kids) →
      l.foldl (fun acc h => addPayoffs mu h.reach acc h.kids) acc
        = l.foldl (fun acc h => addPayoffs mu' h.reach acc h.kids) acc
  | [], acc, _ => by simp
  | x :: l, acc, hl => by
    simp only [List.foldl_cons]
    obtain ⟨hx, hp⟩ := hl x (by simp)
    rw [addPayoffs_congr' hist mu mu' x.reach x.info (hist x.info) (by rw [hx]; exact he)
      x.kids acc 0 hp]
    exact foldl_addPayoffs_congr' hist mu mu' I he l _ (fun h hh => hl h (by simp [hh]))

theorem infoPayoffs_congr' (N : Nat) (nActs : Nat → Nat) (hist : Nat → Hist)
    (nodes : List (Reached α)) (hn : ∀ h ∈ nodes, ROK N nActs hist h) (n I : Nat) (mu mu' : List α)
    (he : ∀ j a, hist j = hist I ++ [(I, a)] → mu.getD j 0 = mu'.getD j 0) :
    infoPayoffs nodes n I mu = infoPayoffs nodes n I mu' := by
  rw [infoPayoffs_eq, infoPayoffs_eq]
  apply foldl_addPayoffs_congr' hist mu mu' I he
  intro h hh
  obtain ⟨h1, h2⟩ := mem_mine.mp hh
  exact ⟨h2, (hn h h1).2.2.2.2⟩

/-! ## the table of the decreasing-order resolution -/

/-- the final table of `resolveAll` -/
def muStar (N : Nat) (nActs : Nat → Nat) (nodes : List (Reached α)) : List α :=
  resolveAll nodes nActs N (List.replicate N 0)

theorem muStar_length (N : Nat) (nActs : Nat → Nat) (nodes : List (Reached α)) :
    (muStar N nActs nodes).length = N := by
  unfold muStar; rw [resolveAll_length]; simp

theorem resolveAll_getD_unreached (nodes : List (Reached α)) (nActs : Nat → Nat) (I : Nat)
    (hI : mine nodes I = []) : ∀ (n : Nat) (mu : List α),
      (resolveAll nodes nActs n mu).getD I 0 = mu.getD I 0
  | 0, mu => by simp [resolveAll]
  | n + 1, mu => by
    simp only [resolveAll]
    rw [resolveAll_getD_unreached nodes nActs I hI n]
    by_cases e : I = n
    · subst e
      rw [resolveOne_eq, hI]; simp
    · exact resolveOne_getD_ne _ _ _ _ _ e

theorem muStar_unreached (N : Nat) (nActs : Nat → Nat) (nodes : List (Reached α)) (I : Nat)
    (hI : mine nodes I = []) : (muStar N nActs nodes).getD I 0 = 0 := by
  unfold muStar
  rw [resolveAll_getD_unreached nodes nActs I hI]
  rw [List.getD_eq_getElem?_getD, List.getElem?_replicate]
  split_ifs <;> rfl

/-! ## a reached node lies below reached nodes of every infoset of its own history -/

mutual
theorem collect_anc (hist : Nat → Hist) : ∀ (t : V α) (H : Hist) (c : α), PRV hist H t →
    ∀ h ∈ collect t c, ∀ e ∈ hist h.info, e ∈ H ∨ ∃ h' ∈ collect t c, h'.info = e.1
  | .term u, H, c, _ => by simp [collect]
  | .nature ws ks, H, c, hp => by
    have hp' : PRVL hist H ks := by simpa [PRV] using hp
    simp only [collect]
    exact collectN_anc hist ws ks H c hp'
  | .decide i ks, H, c, hp => by
    obtain ⟨hH, hd⟩ := (by simpa [PRV] using hp : hist i = H ∧ PRVD hist H i 0 ks)
    intro h hh e he
    simp only [collect, List.mem_cons] at hh
    rcases hh with rfl | hh
    · left; rw [← hH]; exact he
    · rcases collectD_anc hist ks H i 0 c hd h hh e he with h1 | h1 | ⟨h', h1, h2⟩
      · exact Or.inl h1
      · exact Or.inr ⟨⟨i, ks, c⟩, by simp [collect], h1.symm⟩
      · exact Or.inr ⟨h', by simp [collect, h1], h2⟩
theorem collectN_anc (hist : Nat → Hist) : ∀ (ws : List α) (ks : List (V α)) (H : Hist) (c : α),
    PRVL hist H ks →
    ∀ h ∈ collectN ws ks c, ∀ e ∈ hist h.info, e ∈ H ∨ ∃ h' ∈ collectN ws ks c, h'.info = e.1
  | [], ks, H, c, _ => by simp [collectN]
  | _ :: _, [], H, c, _ => by simp [collectN]
  | w :: ws, k :: ks, H, c, hp => by
    obtain ⟨p1, p2⟩ := (by simpa [PRVL] using hp : PRV hist H k ∧ PRVL hist H ks)
    intro h hh e he
    simp only [collectN, List.mem_append] at hh ⊢
    rcases hh with hh | hh
    · by_cases hw : 0 < w ∧ 0 < w * c
      · simp only [hw.1, hw.2, decide_true, Bool.and_self, if_true] at hh ⊢
        rcases collect_anc hist k H (w * c) p1 h hh e he with h1 | ⟨h', h1, h2⟩
        · exact Or.inl h1
        · exact Or.inr ⟨h', Or.inl h1, h2⟩
      · have : (decide (0 < w) && decide (0 < w * c)) = false := by
          simpa [Bool.and_eq_false_iff, not_and_or] using hw
        simp [this] at hh
    · rcases collectN_anc hist ws ks H c p2 h hh e he with h1 | ⟨h', h1, h2⟩
      · exact Or.inl h1
      · exact Or.inr ⟨h', Or.inr h1, h2⟩
theorem collectD_anc (hist : Nat → Hist) : ∀ (ks : List (V α)) (H : Hist) (i a : Nat) (c : α),
    PRVD hist H i a ks →
    ∀ h ∈ collectD ks c, ∀ e ∈ hist h.info,
      e ∈ H ∨ e.1 = i ∨ ∃ h' ∈ collectD ks c, h'.info = e.1
  | [], H, i, a, c, _ => by simp [collectD]
  | k :: ks, H, i, a, c, hp => by
    obtain ⟨p1, p2⟩ := (by simpa [PRVD] using hp :
      PRV hist (H ++ [(i, a)]) k ∧ PRVD hist H i (a + 1) ks)
    intro h hh e he
    simp only [collectD, List.mem_append] at hh ⊢
    rcases hh with hh | hh
    · rcases collect_anc hist k _ c p1 h hh e he with h1 | ⟨h', h1, h2⟩
      · rcases List.mem_append.mp h1 with h1 | h1
        · exact Or.inl h1
        · simp only [List.mem_singleton] at h1
          subst h1; exact Or.inr (Or.inl rfl)
      · exact Or.inr (Or.inr ⟨h', Or.inl h1, h2⟩)
    · rcases collectD_anc hist ks H i (a + 1) c p2 h hh e he with h1 | h1 | ⟨h', h1, h2⟩
      · exact Or.inl h1
      · exact Or.inr (Or.inl h1)
      · exact Or.inr (Or.inr ⟨h', Or.inr h1, h2⟩)
end

/-! ## the abstract setting -/

/-- `N` infosets with `nActs` actions, own histories `hist`, previous-infoset pointers `prev`
consistent with `hist`, the reached own nodes `nodes` -/
structure WLCtx (N : Nat) (nActs : Nat → Nat) (hist : Nat → Hist) (prev : Nat → Option Nat)
    (nodes : List (Reached α)) : Prop where
  hord : ∀ i, ∀ e ∈ hist i, e.1 < i
  hpos : ∀ i, i < N → 1 ≤ nActs i
  hn : ∀ h ∈ nodes, ROK N nActs hist h
  prevLt : ∀ i j, prev i = some j → j < i
  linkSome : ∀ i j, prev i = some j → ∃ a, hist i = hist j ++ [(j, a)]
  linkNone : ∀ i, prev i = none → hist i = []
  /-- the previous infoset of a reached infoset is reached -/
  up : ∀ h ∈ nodes, ∀ j, prev h.info = some j → ∃ h' ∈ nodes, h'.info = j

section ctx
variable {N : Nat} {nActs : Nat → Nat} {hist : Nat → Hist} {prev : Nat → Option Nat}
  {nodes : List (Reached α)}

theorem WLCtx.link (ctx : WLCtx N nActs hist prev nodes) {K I a : Nat}
    (h : hist K = hist I ++ [(I, a)]) : prev K = some I := by
  cases hp : prev K with
  | none =>
    have := ctx.linkNone K hp
    rw [this] at h
    simp at h
  | some j =>
    obtain ⟨a', ha'⟩ := ctx.linkSome K j hp
    rw [ha'] at h
    have := List.append_inj_right' h (by simp)
    simp only [List.cons.injEq, Prod.mk.injEq, and_true] at this
    rw [this.1]

/-- number of reached nodes of unresolved infosets whose previous infoset is `I` -/
def fut (prev : Nat → Option Nat) (nodes : List (Reached α)) (U : Finset Nat) (I : Nat) : Nat :=
  nodes.countP (fun h => decide (h.info ∈ U) && decide (prev h.info = some I))

theorem fut_eq_zero {U : Finset Nat} {I : Nat} :
    fut prev nodes U I = 0 ↔ ∀ h ∈ nodes, h.info ∈ U → prev h.info ≠ some I := by
  unfold fut
  rw [List.countP_eq_zero]
  constructor
  · intro h x hx hU hp
    exact h x hx (by simp [hU, hp])
  · intro h x hx hc
    simp only [Bool.and_eq_true, decide_eq_true_eq] at hc
    exact h x hx hc.1 hc.2

theorem countP_erase (U : Finset Nat) (I0 j : Nat) (hI0 : I0 ∈ U) : ∀ l : List (Reached α),
    l.countP (fun h => decide (h.info ∈ U) && decide (prev h.info = some j))
      = l.countP (fun h => decide (h.info ∈ U.erase I0) && decide (prev h.info = some j))
        + (if prev I0 = some j then (mine l I0).length else 0)
  | [] => by simp [mine_nil]
  | h :: l => by
    rw [List.countP_cons, List.countP_cons, countP_erase U I0 j hI0 l, mine_cons]
    by_cases e : h.info = I0
    · by_cases e' : prev I0 = some j
      · simp [e, e', hI0]; omega
      · simp [e, e', hI0]
    · by_cases e' : prev I0 = some j
      · simp [e, e', Finset.mem_erase]; omega
      · simp [e, e', Finset.mem_erase]

theorem fut_erase (U : Finset Nat) (I0 j : Nat) (hI0 : I0 ∈ U) :
    fut prev nodes U j = fut prev nodes (U.erase I0) j
      + (if prev I0 = some j then (mine nodes I0).length else 0) :=
  countP_erase U I0 j hI0 nodes

/-! ## the loop invariant -/

/-- what entry `I` of the work-list table holds while the infosets in `U` are unresolved -/
def EntryOK (N : Nat) (nActs : Nat → Nat) (prev : Nat → Option Nat) (nodes : List (Reached α))
    (U : Finset Nat) (I : Nat) (d : DevInfo α) : Prop :=
  d.nodes = (if I ∈ U then mine nodes I else []) ∧ d.future = fut prev nodes U I ∧
    (I ∉ U → d.maxU = (muStar N nActs nodes).getD I 0)

/-- the invariant of `wlLoop`; `U` = the reached infosets that are not resolved yet -/
structure WInv (N : Nat) (nActs : Nat → Nat) (prev : Nat → Option Nat) (nodes : List (Reached α))
    (U : Finset Nat) (queue : List Nat) (table : List (DevInfo α)) : Prop where
  len : table.length = N
  ent : ∀ (I : Nat) (d : DevInfo α), table[I]? = some d → EntryOK N nActs prev nodes U I d
  sub : ∀ I ∈ U, I < N ∧ mine nodes I ≠ []
  upc : ∀ K ∈ U, ∀ j, prev K = some j → j ∈ U
  qmem : ∀ I, I ∈ queue ↔ I ∈ U ∧ fut prev nodes U I = 0
  qnd : queue.Nodup

theorem map_maxU_set (T : List (DevInfo α)) (i : Nat) (d d' : DevInfo α) (hd : T[i]? = some d)
    (h : d'.maxU = d.maxU) : (T.set i d').map (·.maxU) = T.map (·.maxU) := by
  apply List.ext_getElem?
  intro K
  simp only [List.getElem?_map, List.getElem?_set]
  split_ifs with h1 h2
  · subst h1; simp [hd, h]
  · subst h1
    rw [List.getElem?_eq_none (by omega)]
  · rfl

/-- every infoset whose previous infoset is `I` is resolved when `I`'s counter is zero -/
theorem WInv.kids_done {U : Finset Nat} {queue : List Nat} {table : List (DevInfo α)}
    (inv : WInv N nActs prev nodes U queue table) {I : Nat} (hf0 : fut prev nodes U I = 0)
    {K : Nat} (hK : prev K = some I) : K ∉ U := by
  intro hKU
  obtain ⟨h, h1, h2⟩ := mine_ne_nil.mp (inv.sub K hKU).2
  exact fut_eq_zero.mp hf0 h h1 (by rw [h2]; exact hKU) (by rw [h2]; exact hK)

theorem WInv.getD_maxU {U : Finset Nat} {queue : List Nat} {table : List (DevInfo α)}
    (inv : WInv N nActs prev nodes U queue table) {K : Nat} (hK : K ∉ U) :
    (table.map (·.maxU)).getD K 0 = (muStar N nActs nodes).getD K 0 := by
  by_cases hKN : K < N
  · have hKl : K < table.length := by rw [inv.len]; exact hKN
    have hd : table[K]? = some table[K] := List.getElem?_eq_getElem hKl
    have := (inv.ent K _ hd).2.2 hK
    rw [List.getD_eq_getElem?_getD, List.getElem?_map, hd]
    simpa using this
  · rw [List.getD_eq_getElem?_getD, List.getD_eq_getElem?_getD,
      List.getElem?_eq_none (by simp [inv.len]; omega),
      List.getElem?_eq_none (by rw [muStar_length]; omega)]

/-- the value the work-list writes for `I` is the one of the decreasing-order resolution -/
theorem WInv.step_value (ctx : WLCtx N nActs hist prev nodes) {U : Finset Nat} {queue : List Nat}
    {table : List (DevInfo α)} (inv : WInv N nActs prev nodes U queue table) {I : Nat}
    (hIU : I ∈ U) (hf0 : fut prev nodes U I = 0) :
    ∃ m, maxList (infoPayoffs nodes (nActs I) I (table.map (·.maxU))) = some m ∧
      m / total nodes I = (muStar N nActs nodes).getD I 0 := by
  obtain ⟨hIN, hIne⟩ := inv.sub I hIU
  have hc : infoPayoffs nodes (nActs I) I (table.map (·.maxU))
      = infoPayoffs nodes (nActs I) I (muStar N nActs nodes) := by
    apply infoPayoffs_congr' N nActs hist nodes ctx.hn
    intro K a hK
    exact inv.getD_maxU (inv.kids_done hf0 (ctx.link hK))
  have hP : infoPayoffs nodes (nActs I) I (table.map (·.maxU)) ≠ [] := by
    intro h
    have := infoPayoffs_length nodes (nActs I) I (table.map (·.maxU))
    rw [h] at this
    have := ctx.hpos I hIN
    simp at *; omega
  obtain ⟨m', hm', h1, h2⟩ := maxList_spec _ hP
  have spec : SpecAt nodes nActs (muStar N nActs nodes) I :=
    resolveAll_spec N nActs hist ctx.hord ctx.hpos nodes ctx.hn N (List.replicate N 0)
      (le_refl _) (by simp) I hIN
  obtain ⟨m, g1, g2, g3⟩ := spec hIne
  refine ⟨m', hm', ?_⟩
  rw [g3]
  rw [hc] at h1 h2
  rw [le_antisymm (g2 m' h1) (h2 m g1)]

theorem wlStep_inv (ctx : WLCtx N nActs hist prev nodes) {U : Finset Nat} {q : List Nat} {I : Nat}
    {table : List (DevInfo α)} (inv : WInv N nActs prev nodes U (q ++ [I]) table) :
    ∀ q' T', wlStep prev nActs I q table = (q', T') →
      I ∈ U ∧ WInv N nActs prev nodes (U.erase I) q' T' := by
  intro q' T' hstep
  obtain ⟨hIU, hf0⟩ := (inv.qmem I).mp (by simp)
  obtain ⟨hIN, hIne⟩ := inv.sub I hIU
  have hIl : I < table.length := by rw [inv.len]; exact hIN
  have hd : table[I]? = some table[I] := List.getElem?_eq_getElem hIl
  generalize table[I] = d at hd
  obtain ⟨dn, df, _⟩ := inv.ent I d hd
  rw [if_pos hIU] at dn
  obtain ⟨m, hm, hval⟩ := inv.step_value ctx hIU hf0
  have htot : lsum (d.nodes.map (·.reach)) = total nodes I := by rw [dn, lsum_eq_sum]; rfl
  have hlen : d.nodes.length = (mine nodes I).length := by rw [dn]
  have hpos : 0 < (mine nodes I).length := List.length_pos_iff.mpr hIne
  have hne : ∀ K, K ≠ I → (K ∈ U.erase I ↔ K ∈ U) := fun K hK => by simp [Finset.mem_erase, hK]
  have futE := fun K => fut_erase (prev := prev) (nodes := nodes) U I K hIU
  have entNe : ∀ K dK, K ≠ I → prev I ≠ some K → EntryOK N nActs prev nodes U K dK →
      EntryOK N nActs prev nodes (U.erase I) K dK := by
    intro K dK hK hpK ⟨a, b, c⟩
    refine ⟨?_, ?_, ?_⟩
    · rw [a]; simp only [hne K hK]
    · rw [b, futE K, if_neg hpK]; rfl
    · intro h; exact c (fun h' => h ((hne K hK).mpr h'))
  have entI : prev I ≠ some I →
      EntryOK N nActs prev nodes (U.erase I) I ⟨d.future, [], m / total nodes I⟩ := by
    intro hpI
    refine ⟨by simp, ?_, fun _ => hval⟩
    show d.future = _
    rw [df, futE I, if_neg hpI]; rfl
  have hqnd : q.Nodup ∧ I ∉ q := by
    have := inv.qnd
    rw [List.nodup_append] at this
    exact ⟨this.1, fun h => this.2.2 I h I (by simp) rfl⟩
  have hq : ∀ K, K ∈ q ↔ K ≠ I ∧ K ∈ U ∧ fut prev nodes U K = 0 := by
    intro K
    have := inv.qmem K
    simp only [List.mem_append, List.mem_singleton] at this
    constructor
    · intro h
      exact ⟨fun e => hqnd.2 (e ▸ h), this.mp (Or.inl h)⟩
    · rintro ⟨h1, h2⟩
      rcases this.mpr h2 with h | h
      · exact h
      · exact absurd h h1
  have hsub : ∀ K ∈ U.erase I, K < N ∧ mine nodes K ≠ [] :=
    fun K hK => inv.sub K (Finset.mem_of_mem_erase hK)
  have hupc : ∀ K ∈ U.erase I, ∀ j, prev K = some j → j ∈ U.erase I := by
    intro K hK j hj
    have hKU := Finset.mem_of_mem_erase hK
    refine Finset.mem_erase.mpr ⟨?_, inv.upc K hKU j hj⟩
    rintro rfl
    exact inv.kids_done hf0 hj hKU
  have e1 := map_maxU_set table I d {d with nodes := []} hd rfl
  have hm' : maxList (List.foldl (fun acc n => addPayoffs (List.map (fun x => x.maxU) table)
      n.reach acc n.kids) (List.replicate (nActs I) 0) (mine nodes I)) = some m := hm
  refine ⟨hIU, ?_⟩
  cases hp : prev I with
  | none =>
    simp only [wlStep, hd, hp] at hstep
    rw [e1, htot] at hstep
    rw [dn, hm'] at hstep
    simp only [Prod.mk.injEq] at hstep
    obtain ⟨rfl, rfl⟩ := hstep
    have hpK : ∀ K, prev I ≠ some K := fun K => by rw [hp]; simp
    refine ⟨by simp [inv.len], ?_, hsub, hupc, ?_, hqnd.1⟩
    · intro K dK hK
      by_cases e : K = I
      · subst e
        rw [List.getElem?_modify_eq, List.getElem?_set_self hIl] at hK
        simp only [Option.map_eq_map, Option.map_some, Option.some.injEq] at hK
        subst hK
        exact entI (hpK _)
      · rw [List.getElem?_modify_ne _ _ (Ne.symm e), List.getElem?_set_ne (Ne.symm e)] at hK
        exact entNe K dK e (hpK K) (inv.ent K dK hK)
    · intro K
      rw [hq K, Finset.mem_erase]
      have := futE K
      rw [if_neg (hpK K)] at this
      rw [this]; simp only [Nat.add_zero]; tauto
  | some j =>
    have hjI : j < I := ctx.prevLt I j hp
    have hjl : j < table.length := by omega
    have hj : table[j]? = some table[j] := List.getElem?_eq_getElem hjl
    generalize table[j] = dj at hj
    have hj1 : (table.set I {d with nodes := []})[j]? = some dj := by
      rw [List.getElem?_set_ne (by omega)]; exact hj
    obtain ⟨djn, djf, djm⟩ := inv.ent j dj hj
    have hjU : j ∈ U := inv.upc I hIU j hp
    have hjU' : j ∈ U.erase I := Finset.mem_erase.mpr ⟨by omega, hjU⟩
    have hfj := futE j
    rw [if_pos hp] at hfj
    have hf : dj.future - d.nodes.length = fut prev nodes (U.erase I) j := by
      rw [djf, hlen, hfj]; omega
    have e2 := map_maxU_set (table.set I {d with nodes := []}) j dj
      {dj with future := dj.future - d.nodes.length} hj1 rfl
    simp only [wlStep, hd, hp, hj1] at hstep
    rw [e2, e1, htot] at hstep
    rw [dn, hm'] at hstep
    simp only [Prod.mk.injEq] at hstep
    obtain ⟨rfl, rfl⟩ := hstep
    have hpK : ∀ K, K ≠ j → prev I ≠ some K := fun K hK => by
      rw [hp]; intro h; exact hK (Option.some.inj h).symm
    have hjq : j ∉ q := by
      intro h
      have := ((hq j).mp h).2.2
      omega
    refine ⟨by simp [inv.len], ?_, hsub, hupc, ?_, ?_⟩
    · intro K dK hK
      by_cases e : K = I
      · subst e
        rw [List.getElem?_modify_eq, List.getElem?_set_ne (by omega),
          List.getElem?_set_self hIl] at hK
        simp only [Option.map_eq_map, Option.map_some, Option.some.injEq] at hK
        subst hK
        exact entI (hpK _ (by omega))
      · rw [List.getElem?_modify_ne _ _ (Ne.symm e)] at hK
        by_cases e' : K = j
        · subst e'
          rw [List.getElem?_set_self (by simpa using hjl)] at hK
          simp only [Option.some.injEq] at hK
          subst hK
          refine ⟨?_, ?_, ?_⟩
          · show dj.nodes = _
            rw [djn]; simp only [hne K e]
          · show dj.future - (mine nodes I).length = _
            rw [← hlen]; exact hf
          · intro h; exact absurd hjU' h
        · rw [List.getElem?_set_ne (Ne.symm e'), List.getElem?_set_ne (Ne.symm e)] at hK
          exact entNe K dK e (hpK K e') (inv.ent K dK hK)
    · intro K
      have hKq : K ≠ j → (K ∈ q ↔ K ∈ U.erase I ∧ fut prev nodes (U.erase I) K = 0) := by
        intro e'
        rw [hq K, Finset.mem_erase]
        have := futE K
        rw [if_neg (hpK K e')] at this
        rw [this]; simp only [Nat.add_zero]; tauto
      rw [← hlen, hf]
      by_cases h0 : fut prev nodes (U.erase I) j = 0
      · simp only [h0, beq_self_eq_true, if_true, List.mem_append, List.mem_singleton]
        by_cases e' : K = j
        · subst e'
          simp [hjU', h0]
        · rw [hKq e']; simp [e']
      · have : (fut prev nodes (U.erase I) j == 0) = false := by simpa using h0
        simp only [this, Bool.false_eq_true, if_false]
        by_cases e' : K = j
        · subst e'
          simp [hjq, h0]
        · exact hKq e'
    · rw [← hlen, hf]
      split_ifs
      · rw [List.nodup_append]
        refine ⟨hqnd.1, by simp, ?_⟩
        intro a ha b hb
        simp only [List.mem_singleton] at hb
        subst hb
        intro e; exact hjq (e ▸ ha)
      · exact hqnd.1

theorem WInv.map_maxU_eq {U : Finset Nat} {queue : List Nat} {table : List (DevInfo α)}
    (inv : WInv N nActs prev nodes U queue table) (hU : U = ∅) :
    table.map (·.maxU) = muStar N nActs nodes := by
  apply List.ext_getElem?
  intro K
  have := inv.getD_maxU (K := K) (by simp [hU])
  rw [List.getD_eq_getElem?_getD, List.getD_eq_getElem?_getD] at this
  by_cases hK : K < N
  · have h1 : K < (table.map (·.maxU)).length := by simp [inv.len, hK]
    have h2 : K < (muStar N nActs nodes).length := by rw [muStar_length]; exact hK
    rw [List.getElem?_eq_getElem h1, List.getElem?_eq_getElem h2] at this ⊢
    simpa using this
  · rw [List.getElem?_eq_none (by simp [inv.len]; omega),
      List.getElem?_eq_none (by rw [muStar_length]; omega)]

/-- the loop resolves every reached infoset, with the value of the decreasing-order resolution -/
theorem wlLoop_spec (ctx : WLCtx N nActs hist prev nodes) : ∀ (fuel : Nat) (U : Finset Nat)
    (queue : List Nat) (table : List (DevInfo α)), WInv N nActs prev nodes U queue table →
    U.card + 1 ≤ fuel →
    (wlLoop prev nActs fuel queue table).map (·.maxU) = muStar N nActs nodes
  | 0, U, queue, table, _, h => by omega
  | fuel + 1, U, queue, table, inv, h => by
    simp only [wlLoop]
    cases hq : queue.getLast? with
    | none =>
      have hq' : queue = [] := List.getLast?_eq_none_iff.mp hq
      have hU : U = ∅ := by
        by_contra hne
        obtain ⟨J, hJ, hmax⟩ := U.exists_max_image id (Finset.nonempty_iff_ne_empty.mpr hne)
        have h0 : fut prev nodes U J = 0 := by
          rw [fut_eq_zero]
          intro x _ hxU hp
          have h1 := ctx.prevLt _ _ hp
          have h2 := hmax _ hxU
          simp only [id] at h2
          omega
        have := (inv.qmem J).mpr ⟨hJ, h0⟩
        rw [hq'] at this
        simp at this
      exact inv.map_maxU_eq hU
    | some I =>
      have hqe : queue.dropLast ++ [I] = queue := List.dropLast_append_getLast? I hq
      rw [← hqe] at inv
      rcases hs : wlStep prev nActs I queue.dropLast table with ⟨q', T'⟩
      obtain ⟨hIU, inv'⟩ := wlStep_inv ctx inv q' T' hs
      simp only [hs]
      refine wlLoop_spec ctx fuel (U.erase I) q' T' inv' ?_
      rw [Finset.card_erase_of_mem hIU]
      have := Finset.card_pos.mpr ⟨I, hIU⟩
      omega

/-- the state after the first loop satisfies the invariant, with every reached infoset unresolved -/
theorem wlInitial_inv (ctx : WLCtx N nActs hist prev nodes) :
    WInv N nActs prev nodes (nodes.map (·.info)).toFinset
      (wlInitial (wlCollect prev nodes (List.replicate N ⟨0, [], 0⟩)))
      (wlCollect prev nodes (List.replicate N ⟨0, [], 0⟩)) := by
  obtain ⟨hl, hent⟩ := wlCollect_spec prev nodes (List.replicate N (⟨0, [], 0⟩ : DevInfo α))
  have hl' : (wlCollect prev nodes (List.replicate N (⟨0, [], 0⟩ : DevInfo α))).length = N := by
    rw [hl]; simp
  have hU : ∀ I, I ∈ (nodes.map (·.info)).toFinset ↔ mine nodes I ≠ [] := by
    intro I
    rw [mine_ne_nil, List.mem_toFinset, List.mem_map]
  have hfut : ∀ I, fut prev nodes (nodes.map (·.info)).toFinset I
      = nodes.countP (fun h => decide (prev h.info = some I)) := by
    intro I
    unfold fut
    apply List.countP_congr
    intro x hx
    have : x.info ∈ (nodes.map (·.info)).toFinset := by
      rw [List.mem_toFinset, List.mem_map]; exact ⟨x, hx, rfl⟩
    simp [this]
  have hget : ∀ I, I < N →
      (wlCollect prev nodes (List.replicate N (⟨0, [], 0⟩ : DevInfo α)))[I]? =
        some (DevInfo.mk (nodes.countP (fun h => decide (prev h.info = some I))) (mine nodes I) 0) := by
    intro I hI
    have := hent I ⟨0, [], 0⟩ (by simp [hI])
    simpa using this
  refine ⟨hl', ?_, ?_, ?_, ?_, ?_⟩
  · intro I d hd
    have hI : I < N := by
      have := (List.getElem?_eq_some_iff.mp hd).1
      omega
    rw [hget I hI] at hd
    simp only [Option.some.injEq] at hd
    subst hd
    refine ⟨?_, (hfut I).symm, ?_⟩
    · show mine nodes I = _
      split_ifs with h
      · rfl
      · by_contra hne
        exact h ((hU I).mpr hne)
    · intro h
      show (0 : α) = _
      rw [muStar_unreached]
      by_contra hne
      exact h ((hU I).mpr hne)
  · intro I hI
    have hne := (hU I).mp hI
    obtain ⟨h, h1, h2⟩ := mine_ne_nil.mp hne
    exact ⟨h2 ▸ (ctx.hn h h1).1, hne⟩
  · intro K hK j hj
    obtain ⟨h, h1, h2⟩ := mine_ne_nil.mp ((hU K).mp hK)
    obtain ⟨h', h1', h2'⟩ := ctx.up h h1 j (by rw [h2]; exact hj)
    exact (hU j).mpr (mine_ne_nil.mpr ⟨h', h1', h2'⟩)
  · intro I
    unfold wlInitial
    rw [List.mem_filter, List.mem_range, hl', hU I, hfut I]
    constructor
    · rintro ⟨hI, h⟩
      rw [hget I hI] at h
      simp only [Bool.and_eq_true, beq_iff_eq, Bool.not_eq_true', List.isEmpty_eq_false_iff] at h
      exact ⟨h.2, h.1⟩
    · rintro ⟨h1, h2⟩
      obtain ⟨h, g1, g2⟩ := mine_ne_nil.mp h1
      have hI : I < N := g2 ▸ (ctx.hn h g1).1
      refine ⟨hI, ?_⟩
      rw [hget I hI]
      simp only [Bool.and_eq_true, beq_iff_eq, Bool.not_eq_true', List.isEmpty_eq_false_iff]
      exact ⟨h2, h1⟩
  · unfold wlInitial
    exact List.nodup_range.filter _

/-- **the `max_utility` column of the final work-list table is the table of `resolveAll`** -/
theorem wl_table_eq (ctx : WLCtx N nActs hist prev nodes) :
    (wlLoop prev nActs (N + 1)
      (wlInitial (wlCollect prev nodes (List.replicate N ⟨0, [], 0⟩)))
      (wlCollect prev nodes (List.replicate N ⟨0, [], 0⟩))).map (·.maxU)
      = resolveAll nodes nActs N (List.replicate N 0) := by
  have inv := wlInitial_inv ctx
  refine wlLoop_spec ctx (N + 1) _ _ _ inv ?_
  have hsub : (nodes.map (·.info)).toFinset ⊆ Finset.range N := by
    intro I hI
    exact Finset.mem_range.mpr (inv.sub I hI).1
  have := Finset.card_le_card hsub
  rw [Finset.card_range] at this
  omega

end ctx

end Cfr
