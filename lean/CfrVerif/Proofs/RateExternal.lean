import CfrVerif.Proofs.RateVanilla
/-!
# What one external-sampling pass (`erec`) adds to the regrets of one infoset

For every infoset `I`, with `δ a := effSum es me I .regret a`:

* `erec_zero` : `δ = 0` for the player who does not update in this pass (and for infosets the
  tree does not contain);
* `erec_orth` : `Σ_a σ(I,a)·δ a = 0`;
* `erec_bnd`  : `|δ a| ≤ hi − lo` for the updating player under perfect recall, for payoffs in
  `[lo, hi]` and in-range draws.
-/
set_option linter.unusedSectionVars false
namespace Cfr
open Finset

/-! ## bookkeeping -/

theorem erec_chance' (c : ECtx ℝ) (i : ℕ) (ks : List (Node ℝ)) (d : DrawSt ℝ) :
    erec c (.chance i ks) d =
      erecNth c ks (sampleChance c.draw c.chancePass (c.ch.getD i []) i d).1
        (sampleChance c.draw c.chancePass (c.ch.getD i []) i d).2 := by
  simp only [erec]

theorem erec_own' (c : ECtx ℝ) (one : Bool) (i : ℕ) (ks : List (Node ℝ)) (d : DrawSt ℝ)
    (h : (one == c.first) = true) :
    erec c (.player one i ks) d =
      ((erecActs c one i (c.strat one i) ks d 0 0).1,
       (erecActs c one i (c.strat one i) ks d 0 0).2.1 ++
         subEffsE one i (erecActs c one i (c.strat one i) ks d 0 0).1 (c.strat one i).length,
       (erecActs c one i (c.strat one i) ks d 0 0).2.2) := by
  simp only [erec, if_pos h]

theorem erec_opp' (c : ECtx ℝ) (one : Bool) (i : ℕ) (ks : List (Node ℝ)) (d : DrawSt ℝ)
    (h : ¬ (one == c.first) = true) :
    erec c (.player one i ks) d =
      ((erecNth c ks (samplePlayer c.draw (if one then 1 else 2) c.playerPass (c.strat one i) i d).1
          (samplePlayer c.draw (if one then 1 else 2) c.playerPass (c.strat one i) i d).2).1,
       extStratEffs one i (c.strat one i) 0 ++
        (erecNth c ks (samplePlayer c.draw (if one then 1 else 2) c.playerPass (c.strat one i) i d).1
          (samplePlayer c.draw (if one then 1 else 2) c.playerPass (c.strat one i) i d).2).2.1,
       (erecNth c ks (samplePlayer c.draw (if one then 1 else 2) c.playerPass (c.strat one i) i d).1
          (samplePlayer c.draw (if one then 1 else 2) c.playerPass (c.strat one i) i d).2).2.2) := by
  simp only [erec, if_neg h]

theorem erecActs_cons' (c : ECtx ℝ) (one : Bool) (j : ℕ) (s : ℝ) (σ : List ℝ) (k : Node ℝ)
    (ks : List (Node ℝ)) (d : DrawSt ℝ) (a : ℕ) (ex : ℝ) :
    erecActs c one j (s :: σ) (k :: ks) d a ex =
      ((erecActs c one j σ ks (erec c k d).2.2 (a + 1) (ex + s * (erec c k d).1)).1,
       (erec c k d).2.1 ++ ⟨one, j, .regret, a, (erec c k d).1⟩ ::
         (erecActs c one j σ ks (erec c k d).2.2 (a + 1) (ex + s * (erec c k d).1)).2.1,
       (erecActs c one j σ ks (erec c k d).2.2 (a + 1) (ex + s * (erec c k d).1)).2.2) := by
  simp only [erecActs]

theorem erecActs_nil_left (c : ECtx ℝ) (one : Bool) (j : ℕ) (ks : List (Node ℝ)) (d : DrawSt ℝ)
    (a : ℕ) (ex : ℝ) : erecActs c one j [] ks d a ex = (ex, [], d) := by
  simp [erecActs]

theorem erecActs_nil_right (c : ECtx ℝ) (one : Bool) (j : ℕ) (ss : List ℝ) (d : DrawSt ℝ)
    (a : ℕ) (ex : ℝ) : erecActs c one j ss [] d a ex = (ex, [], d) := by
  cases ss <;> simp [erecActs]

theorem effSum_subEffsE_regret (one : Bool) (i : ℕ) (sub : ℝ) (n : ℕ) (me : Bool) (I a : ℕ) :
    effSum (subEffsE one i sub n) me I Slot.regret a
      = if one = me ∧ i = I ∧ a < n then -sub else 0 :=
  effSum_subEffs_regret one i sub n me I a

theorem effSum_extStratEffs_regret (one : Bool) (i : ℕ) (me : Bool) (I a : ℕ) :
    ∀ (σ : List ℝ) (k : ℕ), effSum (extStratEffs one i σ k) me I Slot.regret a = 0
  | [], k => by simp [extStratEffs]
  | s :: σ, k => by
    simp [extStratEffs, effSum_cons, effSum_extStratEffs_regret one i me I a σ (k + 1)]

/-- every cached sample of the non-updating player is an index into that player's strategy -/
def POKc (c : ECtx ℝ) (d : DrawSt ℝ) : Prop :=
  ∀ i k, assocGet d.player i = some k → ∀ one, one ≠ c.first → k < (c.strat one i).length

/-- the sample caches of a pass are in range -/
def EOK (c : ECtx ℝ) (d : DrawSt ℝ) : Prop := DOK c.ch d ∧ POKc c d

theorem EOK.init (c : ECtx ℝ) (log : List (DrawRec ℝ)) : EOK c { log := log } := by
  refine ⟨DOK.init _ _, ?_⟩
  intro i k h
  simp [assocGet] at h

theorem bool_ne_eq {a b f : Bool} (ha : a ≠ f) (hb : b ≠ f) : a = b := by
  cases a <;> cases b <;> cases f <;> simp_all

theorem sampleChance_okE (c : ECtx ℝ) (hd : DrawLt c.draw) (i : ℕ) (d : DrawSt ℝ)
    (hne : c.ch.getD i [] ≠ []) (h : EOK c d) :
    (sampleChance c.draw c.chancePass (c.ch.getD i []) i d).1 < (c.ch.getD i []).length ∧
      EOK c (sampleChance c.draw c.chancePass (c.ch.getD i []) i d).2 := by
  obtain ⟨s1, s2, s3⟩ := sampleChance_ok c.draw hd c.ch c.chancePass i d hne h.1
  refine ⟨s1, s2, ?_⟩
  intro j k hj
  rw [s3] at hj
  exact h.2 j k hj

theorem samplePlayer_okE (c : ECtx ℝ) (hd : DrawLt c.draw) (one : Bool) (hone : one ≠ c.first)
    (kind i : ℕ) (d : DrawSt ℝ) (hne : c.strat one i ≠ []) (h : EOK c d) :
    (samplePlayer c.draw kind c.playerPass (c.strat one i) i d).1 < (c.strat one i).length ∧
      EOK c (samplePlayer c.draw kind c.playerPass (c.strat one i) i d).2 := by
  cases hc : assocGet d.player i with
  | some k =>
    simp only [samplePlayer, hc]
    exact ⟨h.2 i k hc one hone, h⟩
  | none =>
    simp only [samplePlayer, hc]
    refine ⟨hd _ _ _ _ hne, h.1, ?_⟩
    intro j k hj one' hone'
    simp only [assocGet_cons_r] at hj
    split_ifs at hj with hij
    · subst hij
      simp only [Option.some.injEq] at hj
      subst hj
      rw [bool_ne_eq hone' hone]
      exact hd _ _ _ _ hne
    · exact h.2 j k hj one' hone'

/-! ## nothing is added to the other player, or to an infoset the subtree does not contain -/

mutual
theorem erec_zero (c : ECtx ℝ) (me : Bool) (I a : ℕ) :
    ∀ (n : Node ℝ) (d : DrawSt ℝ), (me = c.first → ¬ Has me I n) →
      effSum (erec c n d).2.1 me I Slot.regret a = 0
  | .term p, d, _ => by simp [erec]
  | .chance i ks, d, h => by
    rw [erec_chance']
    exact erecNth_zero c me I a ks _ _ (fun hm => by simpa [Has] using h hm)
  | .player one i ks, d, h => by
    have hk : me = c.first → ¬ HasL me I ks := fun hm hks => h hm (by simp [Has, hks])
    by_cases ho : (one == c.first) = true
    · have ho' : one = c.first := by simpa using ho
      have h1 : ¬ (one = me ∧ i = I) := by
        rintro ⟨h1, h2⟩
        exact h (h1 ▸ ho') (by simp [Has, h1, h2])
      rw [erec_own' c one i ks d ho]
      simp only [effSum_append, effSum_subEffsE_regret]
      have c1 : ¬ (one = me ∧ i = I ∧ a < (c.strat one i).length) := fun hh => h1 ⟨hh.1, hh.2.1⟩
      rw [erecActs_zero c me I a one i _ ks d 0 0 h1 hk, if_neg c1]
      simp
    · rw [erec_opp' c one i ks d ho]
      simp only [effSum_append, effSum_extStratEffs_regret, zero_add]
      exact erecNth_zero c me I a ks _ _ hk
theorem erecNth_zero (c : ECtx ℝ) (me : Bool) (I a : ℕ) :
    ∀ (ks : List (Node ℝ)) (k : ℕ) (d : DrawSt ℝ), (me = c.first → ¬ HasL me I ks) →
      effSum (erecNth c ks k d).2.1 me I Slot.regret a = 0
  | [], _, d, _ => by simp [erecNth]
  | k :: _, 0, d, h => by
    simp only [erecNth]
    exact erec_zero c me I a k d (fun hm hk => h hm (by simp [HasL, hk]))
  | _ :: ks, n + 1, d, h => by
    simp only [erecNth]
    exact erecNth_zero c me I a ks n d (fun hm hk => h hm (by simp [HasL, hk]))
theorem erecActs_zero (c : ECtx ℝ) (me : Bool) (I a : ℕ) (one : Bool) (i : ℕ) :
    ∀ (ss : List ℝ) (ks : List (Node ℝ)) (d : DrawSt ℝ) (k : ℕ) (ex : ℝ),
      ¬ (one = me ∧ i = I) → (me = c.first → ¬ HasL me I ks) →
      effSum (erecActs c one i ss ks d k ex).2.1 me I Slot.regret a = 0
  | s :: ss, n :: ks, d, k, ex, h1, h => by
    rw [erecActs_cons']
    simp only [effSum_append]
    rw [effSum_cons_regret_ne _ _ _ _ _ _ _ _ h1,
      erec_zero c me I a n d (fun hm hk => h hm (by simp [HasL, hk])),
      erecActs_zero c me I a one i ss ks _ _ _ h1 (fun hm hk => h hm (by simp [HasL, hk]))]
    simp
  | [], _, d, _, _, _, _ => by simp [erecActs]
  | _ :: _, [], d, _, _, _, _ => by simp [erecActs]
end

/-! ## values stay in the payoff range (of the updating player) -/

mutual
theorem erec_rng (c : ECtx ℝ) (hdr : DrawLt c.draw) (lo hi lo' hi' : ℝ)
    (hterm : ∀ p, lo ≤ p → p ≤ hi →
      lo' ≤ (if c.first then p else -p) ∧ (if c.first then p else -p) ≤ hi') :
    ∀ (n : Node ℝ) (d : DrawSt ℝ), TFit c.ch c.strat n → PayIn lo hi n → EOK c d →
      lo' ≤ (erec c n d).1 ∧ (erec c n d).1 ≤ hi' ∧ EOK c (erec c n d).2.2
  | .term p, d, _, hp, hd => by
    simp only [erec]
    simp only [PayIn] at hp
    exact ⟨(hterm p hp.1 hp.2).1, (hterm p hp.1 hp.2).2, hd⟩
  | .chance i ks, d, hf, hp, hd => by
    obtain ⟨hl, hne, hdist, hk⟩ := (by simpa [TFit] using hf :
      (c.ch.getD i []).length = ks.length ∧ ks ≠ [] ∧ IsDist (c.ch.getD i []) ∧
        TFitL c.ch c.strat ks)
    have hpk : PayInL lo hi ks := by simpa [PayIn] using hp
    have hne' : c.ch.getD i [] ≠ [] := by
      intro h0; rw [h0] at hl; exact hne (List.eq_nil_of_length_eq_zero hl.symm)
    rw [erec_chance']
    obtain ⟨s1, s2⟩ := sampleChance_okE c hdr i d hne' hd
    exact erecNth_rng c hdr lo hi lo' hi' hterm ks _ _ hk hpk s2 (hl ▸ s1)
  | .player one i ks, d, hf, hp, hd => by
    obtain ⟨hl, hne, hdist, hk⟩ := (by simpa [TFit] using hf :
      (c.strat one i).length = ks.length ∧ ks ≠ [] ∧ IsDist (c.strat one i) ∧
        TFitL c.ch c.strat ks)
    have hpk : PayInL lo hi ks := by simpa [PayIn] using hp
    by_cases ho : (one == c.first) = true
    · rw [erec_own' c one i ks d ho]
      obtain ⟨r1, r2, r3⟩ := erecActs_rng c hdr lo hi lo' hi' hterm one i (c.strat one i) ks d 0 0
        hdist.1 hl hk hpk hd
      rw [hdist.2] at r1 r2
      exact ⟨by linarith, by linarith, r3⟩
    · have ho' : one ≠ c.first := by simpa using ho
      have hne' : c.strat one i ≠ [] := by
        intro h0; rw [h0] at hl; exact hne (List.eq_nil_of_length_eq_zero hl.symm)
      rw [erec_opp' c one i ks d ho]
      obtain ⟨s1, s2⟩ := samplePlayer_okE c hdr one ho' (if one then 1 else 2) i d hne' hd
      exact erecNth_rng c hdr lo hi lo' hi' hterm ks _ _ hk hpk s2 (hl ▸ s1)
theorem erecNth_rng (c : ECtx ℝ) (hdr : DrawLt c.draw) (lo hi lo' hi' : ℝ)
    (hterm : ∀ p, lo ≤ p → p ≤ hi →
      lo' ≤ (if c.first then p else -p) ∧ (if c.first then p else -p) ≤ hi') :
    ∀ (ks : List (Node ℝ)) (k : ℕ) (d : DrawSt ℝ), TFitL c.ch c.strat ks → PayInL lo hi ks →
      EOK c d → k < ks.length →
      lo' ≤ (erecNth c ks k d).1 ∧ (erecNth c ks k d).1 ≤ hi' ∧ EOK c (erecNth c ks k d).2.2
  | [], _, d, _, _, _, hlt => by simp at hlt
  | k :: _, 0, d, hf, hp, hd, _ => by
    simp only [erecNth]
    simp only [TFitL] at hf
    simp only [PayInL] at hp
    exact erec_rng c hdr lo hi lo' hi' hterm k d hf.1 hp.1 hd
  | _ :: ks, n + 1, d, hf, hp, hd, hlt => by
    simp only [erecNth]
    simp only [TFitL] at hf
    simp only [PayInL] at hp
    exact erecNth_rng c hdr lo hi lo' hi' hterm ks n d hf.2 hp.2 hd (by simpa using hlt)
theorem erecActs_rng (c : ECtx ℝ) (hdr : DrawLt c.draw) (lo hi lo' hi' : ℝ)
    (hterm : ∀ p, lo ≤ p → p ≤ hi →
      lo' ≤ (if c.first then p else -p) ∧ (if c.first then p else -p) ≤ hi')
    (one : Bool) (i : ℕ) :
    ∀ (ss : List ℝ) (ks : List (Node ℝ)) (d : DrawSt ℝ) (k : ℕ) (ex : ℝ),
      (∀ s ∈ ss, 0 ≤ s) → ss.length = ks.length → TFitL c.ch c.strat ks → PayInL lo hi ks →
      EOK c d →
      ex + lo' * ss.sum ≤ (erecActs c one i ss ks d k ex).1 ∧
        (erecActs c one i ss ks d k ex).1 ≤ ex + hi' * ss.sum ∧
        EOK c (erecActs c one i ss ks d k ex).2.2
  | s :: ss, n :: ks, d, k, ex, hnn, hl, hf, hp, hd => by
    simp only [TFitL] at hf
    simp only [PayInL] at hp
    have hs0 : 0 ≤ s := hnn s List.mem_cons_self
    rw [erecActs_cons']
    obtain ⟨a1, a2, a3⟩ := erec_rng c hdr lo hi lo' hi' hterm n d hf.1 hp.1 hd
    obtain ⟨b1, b2, b3⟩ := erecActs_rng c hdr lo hi lo' hi' hterm one i ss ks (erec c n d).2.2
      (k + 1) (ex + s * (erec c n d).1) (fun q hq => hnn q (List.mem_cons_of_mem _ hq))
      (by simpa using hl) hf.2 hp.2 a3
    simp only [List.sum_cons]
    refine ⟨?_, ?_, b3⟩
    · nlinarith [mul_le_mul_of_nonneg_left a1 hs0]
    · nlinarith [mul_le_mul_of_nonneg_left a2 hs0]
  | [], [], d, _, ex, _, _, _, _, hd => by
    simp only [erecActs, List.sum_nil, mul_zero, add_zero]
    exact ⟨le_rfl, le_rfl, hd⟩
  | [], _ :: _, _, _, _, _, hl, _, _, _ => by simp at hl
  | _ :: _, [], _, _, _, _, hl, _, _, _ => by simp at hl
end

/-! ## orthogonality to the current strategy -/

mutual
theorem erec_orth (c : ECtx ℝ) (me : Bool) (I : ℕ) (hsum : (c.strat me I).sum = 1) :
    ∀ (n : Node ℝ) (d : DrawSt ℝ),
      dotE (c.strat me I) (fun a => effSum (erec c n d).2.1 me I Slot.regret a) = 0
  | .term p, d => by simp [erec, dotE]
  | .chance i ks, d => by
    rw [erec_chance']
    exact erecNth_orth c me I hsum ks _ _
  | .player one i ks, d => by
    by_cases ho : (one == c.first) = true
    · rw [erec_own' c one i ks d ho]
      simp only [effSum_append, effSum_subEffsE_regret]
      rw [dotE_add, erecActs_orth c me I hsum one i _ ks d 0 0 (fun h => by rw [h.1, h.2]; simp)]
      by_cases h : one = me ∧ i = I
      · obtain ⟨rfl, rfl⟩ := h
        simp only [and_self, if_true, true_and, sub_zero]
        rw [dotE_const_lt, hsum]
        ring
      · have e : ∀ a, (one = me ∧ i = I ∧ a < (c.strat one i).length) ↔ False := by
          intro a; constructor
          · rintro ⟨h1, h2, _⟩; exact h ⟨h1, h2⟩
          · exact False.elim
        simp only [if_neg h, e, if_false, dotE_zero, add_zero]
    · rw [erec_opp' c one i ks d ho]
      simp only [effSum_append, effSum_extStratEffs_regret, zero_add]
      exact erecNth_orth c me I hsum ks _ _
theorem erecNth_orth (c : ECtx ℝ) (me : Bool) (I : ℕ) (hsum : (c.strat me I).sum = 1) :
    ∀ (ks : List (Node ℝ)) (k : ℕ) (d : DrawSt ℝ),
      dotE (c.strat me I) (fun a => effSum (erecNth c ks k d).2.1 me I Slot.regret a) = 0
  | [], _, d => by simp [erecNth, dotE]
  | k :: _, 0, d => by
    simp only [erecNth]
    exact erec_orth c me I hsum k d
  | _ :: ks, n + 1, d => by
    simp only [erecNth]
    exact erecNth_orth c me I hsum ks n d
theorem erecActs_orth (c : ECtx ℝ) (me : Bool) (I : ℕ) (hsum : (c.strat me I).sum = 1)
    (one : Bool) (i : ℕ) :
    ∀ (ss : List ℝ) (ks : List (Node ℝ)) (d : DrawSt ℝ) (k : ℕ) (ex : ℝ),
      (one = me ∧ i = I → ss = (c.strat me I).drop k) →
      dotE (c.strat me I)
        (fun a => effSum (erecActs c one i ss ks d k ex).2.1 me I Slot.regret a)
        = if one = me ∧ i = I then (erecActs c one i ss ks d k ex).1 - ex else 0
  | s :: ss, n :: ks, d, k, ex, hss => by
    rw [erecActs_cons']
    simp only [effSum_append, effSum_cons_regret]
    rw [dotE_add, dotE_add, erec_orth c me I hsum n]
    by_cases h : one = me ∧ i = I
    · obtain ⟨hk, hs, hss'⟩ := drop_eq_cons (hss h)
      rw [erecActs_orth c me I hsum one i ss ks _ _ _ (fun _ => hss')]
      simp only [h, and_self, if_true, true_and]
      rw [dotE_single _ _ _ hk, ← hs]
      ring
    · rw [erecActs_orth c me I hsum one i ss ks _ _ _ (fun h' => absurd h' h)]
      have e : ∀ a, (one = me ∧ i = I ∧ k = a) ↔ False := by
        intro a; constructor
        · rintro ⟨h1, h2, _⟩; exact h ⟨h1, h2⟩
        · exact False.elim
      simp only [if_neg h, e, if_false, dotE_zero, add_zero]
  | [], _, d, _, ex, _ => by
    rw [erecActs_nil_left]
    simp [dotE]
  | _ :: _, [], d, _, ex, _ => by
    rw [erecActs_nil_right]
    simp [dotE]
end

/-! ## boundedness -/

theorem erecActs_self (c : ECtx ℝ) (hdr : DrawLt c.draw) (lo hi lo' hi' : ℝ)
    (hterm : ∀ p, lo ≤ p → p ≤ hi →
      lo' ≤ (if c.first then p else -p) ∧ (if c.first then p else -p) ≤ hi')
    (hD : lo' ≤ hi') (I : ℕ) :
    ∀ (ss : List ℝ) (ks : List (Node ℝ)) (d : DrawSt ℝ) (k : ℕ) (ex : ℝ),
      ss.length = ks.length → ¬ HasL c.first I ks → TFitL c.ch c.strat ks → PayInL lo hi ks →
      EOK c d →
      ∀ a, ∃ u, lo' ≤ u ∧ u ≤ hi' ∧
        effSum (erecActs c c.first I ss ks d k ex).2.1 c.first I Slot.regret a
          = if k ≤ a ∧ a < k + ks.length then u else 0
  | s :: ss, n :: ks, d, k, ex, hl, hh, hf, hp, hd, a => by
    simp only [TFitL] at hf
    simp only [PayInL] at hp
    rw [erecActs_cons']
    simp only [effSum_append, effSum_cons_regret_self]
    obtain ⟨a1, a2, a3⟩ := erec_rng c hdr lo hi lo' hi' hterm n d hf.1 hp.1 hd
    rw [erec_zero c c.first I a n d (fun _ hk => hh (by simp [HasL, hk]))]
    obtain ⟨u, u1, u2, hu⟩ := erecActs_self c hdr lo hi lo' hi' hterm hD I ss ks (erec c n d).2.2
      (k + 1) (ex + s * (erec c n d).1) (by simpa using hl) (fun hk => hh (by simp [HasL, hk]))
      hf.2 hp.2 a3 a
    rw [hu]
    by_cases hka : k = a
    · refine ⟨_, a1, a2, ?_⟩
      have c2 : ¬ (k + 1 ≤ a ∧ a < k + 1 + ks.length) := by omega
      have c3 : k ≤ a ∧ a < k + (n :: ks).length := by
        simp only [List.length_cons]; omega
      rw [if_pos hka, if_neg c2, if_pos c3]
      ring
    · refine ⟨u, u1, u2, ?_⟩
      rw [if_neg hka]
      by_cases c2 : k + 1 ≤ a ∧ a < k + 1 + ks.length
      · have c3 : k ≤ a ∧ a < k + (n :: ks).length := by
          simp only [List.length_cons]; omega
        rw [if_pos c2, if_pos c3]
        ring
      · have c3 : ¬ (k ≤ a ∧ a < k + (n :: ks).length) := by
          simp only [List.length_cons]; omega
        rw [if_neg c2, if_neg c3]
        ring
  | [], [], d, k, _, _, _, _, _, _, a => by
    refine ⟨lo', le_rfl, hD, ?_⟩
    rw [erecActs_nil_left]
    simp
  | [], _ :: _, _, _, _, hl, _, _, _, _, _ => by simp at hl
  | _ :: _, [], _, _, _, hl, _, _, _, _, _ => by simp at hl

mutual
theorem erec_bnd (c : ECtx ℝ) (hdr : DrawLt c.draw) (lo hi lo' hi' : ℝ)
    (hterm : ∀ p, lo ≤ p → p ≤ hi →
      lo' ≤ (if c.first then p else -p) ∧ (if c.first then p else -p) ≤ hi')
    (hD : lo' ≤ hi') (I : ℕ) :
    ∀ (n : Node ℝ) (d : DrawSt ℝ), GoodR c.first I n → TFit c.ch c.strat n → PayIn lo hi n →
      EOK c d → ∀ a, |effSum (erec c n d).2.1 c.first I Slot.regret a| ≤ hi' - lo'
  | .term p, d, _, _, _, _, a => by
    simp only [erec, effSum_nil, abs_zero]
    linarith
  | .chance i ks, d, hg, hf, hp, hd, a => by
    obtain ⟨hl, hne, hdist, hk⟩ := (by simpa [TFit] using hf :
      (c.ch.getD i []).length = ks.length ∧ ks ≠ [] ∧ IsDist (c.ch.getD i []) ∧
        TFitL c.ch c.strat ks)
    have hpk : PayInL lo hi ks := by simpa [PayIn] using hp
    have hgk : GoodL c.first I ks := by simpa [GoodR] using hg
    have hne' : c.ch.getD i [] ≠ [] := by
      intro h0; rw [h0] at hl; exact hne (List.eq_nil_of_length_eq_zero hl.symm)
    rw [erec_chance']
    obtain ⟨-, s2⟩ := sampleChance_okE c hdr i d hne' hd
    exact erecNth_bnd c hdr lo hi lo' hi' hterm hD I ks _ _ hgk hk hpk s2 a
  | .player one i ks, d, hg, hf, hp, hd, a => by
    obtain ⟨hl, hne, hdist, hk⟩ := (by simpa [TFit] using hf :
      (c.strat one i).length = ks.length ∧ ks ≠ [] ∧ IsDist (c.strat one i) ∧
        TFitL c.ch c.strat ks)
    have hpk : PayInL lo hi ks := by simpa [PayIn] using hp
    obtain ⟨hgk, hown⟩ := (by simpa [GoodR] using hg : GoodL c.first I ks ∧
      (one = c.first → (i = I → ¬ HasL c.first I ks) ∧ (i ≠ I → Uniq c.first I ks)))
    have hw : 0 ≤ hi' - lo' := sub_nonneg.mpr hD
    by_cases ho : (one == c.first) = true
    · have ho' : one = c.first := by simpa using ho
      rw [erec_own' c one i ks d ho]
      simp only [effSum_append, effSum_subEffsE_regret]
      subst ho'
      by_cases hi'' : i = I
      · have hi3 : I = i := hi''.symm
        subst hi3
        have hno := (hown rfl).1 rfl
        obtain ⟨u, u1, u2, hu⟩ := erecActs_self c hdr lo hi lo' hi' hterm hD I (c.strat c.first I)
          ks d 0 0 hl hno hk hpk hd a
        obtain ⟨r1, r2, -⟩ := erecActs_rng c hdr lo hi lo' hi' hterm c.first I (c.strat c.first I)
          ks d 0 0 hdist.1 hl hk hpk hd
        rw [hdist.2] at r1 r2
        rw [hu]
        by_cases ha : a < ks.length
        · have c1 : 0 ≤ a ∧ a < 0 + ks.length := ⟨Nat.zero_le _, by omega⟩
          have c2 : c.first = c.first ∧ I = I ∧ a < (c.strat c.first I).length :=
            ⟨rfl, rfl, by rw [hl]; exact ha⟩
          rw [if_pos c1, if_pos c2, abs_le]
          constructor <;> linarith
        · have c1 : ¬ (0 ≤ a ∧ a < 0 + ks.length) := by omega
          have c2 : ¬ (c.first = c.first ∧ I = I ∧ a < (c.strat c.first I).length) := by
            rw [hl]; exact fun h => ha h.2.2
          rw [if_neg c1, if_neg c2]
          simpa using hw
      · have hu := (hown rfl).2 hi''
        have B := erecActs_bnd_own c hdr lo hi lo' hi' hterm hD I i hi'' (c.strat c.first i) ks d
          0 0 hdist.1 hl hu hgk hk hpk hd a
        have c1 : ¬ (c.first = c.first ∧ i = I ∧ a < (c.strat c.first i).length) :=
          fun h => hi'' h.2.1
        rw [if_neg c1, add_zero]
        exact B
    · have ho' : one ≠ c.first := by simpa using ho
      have hne' : c.strat one i ≠ [] := by
        intro h0; rw [h0] at hl; exact hne (List.eq_nil_of_length_eq_zero hl.symm)
      rw [erec_opp' c one i ks d ho]
      simp only [effSum_append, effSum_extStratEffs_regret, zero_add]
      obtain ⟨-, s2⟩ := samplePlayer_okE c hdr one ho' (if one then 1 else 2) i d hne' hd
      exact erecNth_bnd c hdr lo hi lo' hi' hterm hD I ks _ _ hgk hk hpk s2 a
theorem erecNth_bnd (c : ECtx ℝ) (hdr : DrawLt c.draw) (lo hi lo' hi' : ℝ)
    (hterm : ∀ p, lo ≤ p → p ≤ hi →
      lo' ≤ (if c.first then p else -p) ∧ (if c.first then p else -p) ≤ hi')
    (hD : lo' ≤ hi') (I : ℕ) :
    ∀ (ks : List (Node ℝ)) (k : ℕ) (d : DrawSt ℝ), GoodL c.first I ks → TFitL c.ch c.strat ks →
      PayInL lo hi ks → EOK c d →
      ∀ a, |effSum (erecNth c ks k d).2.1 c.first I Slot.regret a| ≤ hi' - lo'
  | [], _, d, _, _, _, _, a => by
    simp only [erecNth, effSum_nil, abs_zero]
    linarith
  | k :: _, 0, d, hg, hf, hp, hd, a => by
    simp only [erecNth]
    simp only [GoodL] at hg
    simp only [TFitL] at hf
    simp only [PayInL] at hp
    exact erec_bnd c hdr lo hi lo' hi' hterm hD I k d hg.1 hf.1 hp.1 hd a
  | _ :: ks, n + 1, d, hg, hf, hp, hd, a => by
    simp only [erecNth]
    simp only [GoodL] at hg
    simp only [TFitL] at hf
    simp only [PayInL] at hp
    exact erecNth_bnd c hdr lo hi lo' hi' hterm hD I ks n d hg.2 hf.2 hp.2 hd a
theorem erecActs_bnd_own (c : ECtx ℝ) (hdr : DrawLt c.draw) (lo hi lo' hi' : ℝ)
    (hterm : ∀ p, lo ≤ p → p ≤ hi →
      lo' ≤ (if c.first then p else -p) ∧ (if c.first then p else -p) ≤ hi')
    (hD : lo' ≤ hi') (I i : ℕ) (hi'' : ¬ i = I) :
    ∀ (ss : List ℝ) (ks : List (Node ℝ)) (d : DrawSt ℝ) (k : ℕ) (ex : ℝ),
      (∀ s ∈ ss, 0 ≤ s) → ss.length = ks.length → Uniq c.first I ks → GoodL c.first I ks →
      TFitL c.ch c.strat ks → PayInL lo hi ks → EOK c d →
      ∀ a, |effSum (erecActs c c.first i ss ks d k ex).2.1 c.first I Slot.regret a| ≤ hi' - lo'
  | s :: ss, n :: ks, d, k, ex, hnn, hl, hu, hg, hf, hp, hd, a => by
    simp only [GoodL] at hg
    simp only [TFitL] at hf
    simp only [PayInL] at hp
    simp only [Uniq] at hu
    rw [erecActs_cons']
    simp only [effSum_append]
    rw [effSum_cons_regret_ne _ _ _ _ _ _ _ _ (fun h => hi'' h.2)]
    by_cases hn : Has c.first I n
    · rw [erecActs_zero c c.first I a c.first i ss ks _ _ _ (fun h => hi'' h.2)
        (fun _ => hu.1 hn)]
      have A := erec_bnd c hdr lo hi lo' hi' hterm hD I n d hg.1 hf.1 hp.1 hd a
      simpa using A
    · rw [erec_zero c c.first I a n d (fun _ => hn)]
      obtain ⟨-, -, a3⟩ := erec_rng c hdr lo hi lo' hi' hterm n d hf.1 hp.1 hd
      have B := erecActs_bnd_own c hdr lo hi lo' hi' hterm hD I i hi'' ss ks (erec c n d).2.2
        (k + 1) (ex + s * (erec c n d).1) (fun q hq => hnn q (List.mem_cons_of_mem _ hq))
        (by simpa using hl) hu.2 hg.2 hf.2 hp.2 a3 a
      simpa using B
  | [], [], d, _, _, _, _, _, _, _, _, _, a => by
    simp only [erecActs, effSum_nil, abs_zero]
    linarith
  | [], _ :: _, _, _, _, _, hl, _, _, _, _, _, _ => by simp at hl
  | _ :: _, [], _, _, _, _, hl, _, _, _, _, _, _ => by simp at hl
end

end Cfr
