import CfrVerif.Proofs.Transforms
import CfrVerif.Proofs.InvCompileLemmas
import CfrVerif.Model.Eval
/-!
# C12, part 1: presentations that compile to the same game

Rescaled chance weights give the *identical* result of `fromRoot`; padding with degenerate nodes
gives the same game up to the single-action table; an injective renaming gives the same game with
renamed labels.  Evaluation and every solver only look at the tree, the chance table and the
number of actions per infoset (`Game.SameShape`), so all their results coincide.
-/
set_option linter.unusedSectionVars false
namespace Cfr
variable {α : Type} [Field α] [LinearOrder α] [IsStrictOrderedRing α]

/-- rescaling the weights of any chance nodes by positive constants: identical construction result
(same game, or the same error) -/
theorem rescale_chance_weights (r r' : Raw α) (h : Rescaled r r') : fromRoot r' = fromRoot r := by
  unfold fromRoot
  rw [compile_rescale r r' {} {} h]

/-- an injective renaming of infosets, actions and chance infosets: the same construction result
with renamed labels (same indices, same tree, same probabilities; the same error otherwise) -/
theorem rename_equivariant (ρ : Renaming) (hρ : ρ.Injective) (r : Raw α) :
    fromRoot (r.rename ρ) = (fromRoot r).map (Game.rename ρ) := by
  unfold fromRoot
  have h0 := compile_rename ρ hρ r {} ({} : BState α)
  change compile (r.rename ρ) {} {} = _ at h0
  rw [h0]
  cases compile r {} ({} : BState α) with
  | error e => rfl
  | ok x =>
    obtain ⟨n, s⟩ := x
    simp [Except.map, Game.rename, BState.rename]

/-- inserting single-outcome chance nodes and single-action decision nodes (with labels the tree
does not use): construction fails with the same error, or succeeds with the same tree, chance
table and multi-action infoset tables; only the single-action table grows -/
theorem degenerate_nodes_transparent (fresh : Bool → Nat → Bool) (act : Bool → Nat → Nat)
    (r r' : Raw α) (hp : Padded fresh act r r') (hav : r.AvoidsFresh fresh) :
    match fromRoot r, fromRoot r' with
    | .ok g, .ok g' =>
      g'.chance = g.chance ∧ g'.root = g.root ∧ g'.p1 = g.p1 ∧ g'.p2 = g.p2 ∧
      (∀ e ∈ g.s1, e ∈ g'.s1) ∧ (∀ e ∈ g.s2, e ∈ g'.s2) ∧
      (∀ e ∈ g'.s1, e ∈ g.s1 ∨ (fresh true e.1 = true ∧ e.2 = act true e.1)) ∧
      (∀ e ∈ g'.s2, e ∈ g.s2 ∨ (fresh false e.1 = true ∧ e.2 = act false e.1))
    | .error e, .error e' => e = e'
    | _, _ => False := by
  have h0 : PadRel fresh act ({} : BState α) ({} : BState α) :=
    ⟨rfl, fun _ => rfl, fun one e he => by cases one <;> simp [BState.infos] at he,
      fun _ _ h => h, fun _ _ h => Or.inl h,
      fun one e he => by cases one <;> simp [BState.singles] at he, fun _ _ _ => rfl⟩
  have h1 := compile_pad hp hav {} {} {} h0
  unfold fromRoot
  cases hc : compile r {} ({} : BState α) with
  | error e =>
    cases hc' : compile r' {} ({} : BState α) with
    | error e' => simpa [hc, hc'] using h1
    | ok y => simp [hc, hc'] at h1
  | ok x =>
    cases hc' : compile r' {} ({} : BState α) with
    | error e' => simp [hc, hc'] at h1
    | ok y =>
      obtain ⟨n, t⟩ := x
      obtain ⟨n', t'⟩ := y
      simp only [hc, hc', ExRel_ok] at h1
      obtain ⟨hn, ht⟩ := h1
      simp only at hn
      subst hn
      refine ⟨by rw [ht.chance], rfl, ht.infos true, ht.infos false, ht.sub true, ht.sub false,
        ht.sup true, ht.sup false⟩

theorem sameShape_rename (ρ : Renaming) (g : Game α) : g.SameShape (g.rename ρ) := by
  refine ⟨rfl, rfl, ?_, ?_⟩ <;>
  simp [Game.rename, PInfo.rename, List.map_map, Function.comp_def]

/-- evaluation only looks at the shape -/
theorem getInfo_sameShape (g g' : Game α) (h : g.SameShape g') (σ : Bool → Strat α) :
    (getInfo g σ).util = (getInfo g' σ).util ∧ (getInfo g σ).regretOne = (getInfo g' σ).regretOne ∧
    (getInfo g σ).regretTwo = (getInfo g' σ).regretTwo := by
  have e1 := optimalDeviations_sameShape g g' h true (σ false)
  have e2 := optimalDeviations_sameShape g g' h false (σ true)
  obtain ⟨hc, hr, -, -⟩ := h
  simp only [getInfo, hc, hr, e1, e2, and_self]

/-- so does every solver -/
theorem solve_sameShape [Transc α] (g g' : Game α) (h : g.SameShape g') (p : RegretParams α)
    (draw : DrawFn α) (T : Nat) (thr : Option (Ext α)) (sampled : Bool) (target : Nat)
    (sched : Sched α) :
    solveVanillaSingle g sampled p draw T thr = solveVanillaSingle g' sampled p draw T thr ∧
    solveExternalSingle g p draw T thr = solveExternalSingle g' p draw T thr ∧
    solveVanillaMultiS sched g sampled p draw T thr target
      = solveVanillaMultiS sched g' sampled p draw T thr target ∧
    solveExternalMultiS sched g p draw T thr target
      = solveExternalMultiS sched g' p draw T thr target := by
  have hi := init_sameShape g g' h
  obtain ⟨hc, hr, -, -⟩ := h
  have v1 : vanillaIter g sampled p draw = vanillaIter g' sampled p draw := by
    funext it s log
    simp only [vanillaIter, hc, hr]
  have v2 : externalIter g p draw = externalIter g' p draw := by
    funext it s log
    simp only [externalIter, externalPass, hc, hr]
  have v3 : vanillaMultiIterS sched g sampled p draw target
      = vanillaMultiIterS sched g' sampled p draw target := by
    funext it s log
    simp only [vanillaMultiIterS, vanillaMultiEffects, hc, hr]
  have v4 : externalMultiIterS sched g p draw target = externalMultiIterS sched g' p draw target := by
    funext it s log
    simp only [externalMultiIterS, externalMultiPassS, externalMultiEffects, hc, hr]
  simp only [solveVanillaSingle, solveExternalSingle, solveVanillaMultiS, solveExternalMultiS,
    solveWith, hi, v1, v2, v3, v4, and_self]

/-! ## non-vacuity -/

/-- a named chance infoset over two player-one nodes sharing an infoset; player two has a
single-action node -/
def exC12 : Raw ℚ :=
  .chance (some 4) [1, 3]
    [.player true 5 [0, 1] [.term 1, .player false 2 [7] [.term 0]],
     .player true 5 [0, 1] [.term (-1), .term 3]]

example : (fromRoot exC12).toBool = true := by decide +kernel

/-- the same tree with the chance weights doubled -/
def exC12scaled : Raw ℚ :=
  .chance (some 4) [2, 6]
    [.player true 5 [0, 1] [.term 1, .player false 2 [7] [.term 0]],
     .player true 5 [0, 1] [.term (-1), .term 3]]

example : Rescaled exC12 exC12scaled := by
  simp only [exC12, exC12scaled, Rescaled, RescaledL, and_self, and_true, true_and]
  exact ⟨2, by norm_num, by norm_num⟩

example : (fromRoot exC12scaled).toBool = true := by decide +kernel

/-- an injective renaming -/
def exRho : Renaming := ⟨fun o n => if o then n + 10 else 2 * n + 1, fun a => a + 100, fun c => c + 7⟩

example : exRho.Injective := by
  refine ⟨fun o a b h => ?_, fun a b h => ?_, fun a b h => ?_⟩
  · cases o <;> simp only [exRho] at h <;> simp at h <;> omega
  · simp only [exRho] at h; omega
  · simp only [exRho] at h; omega

example : (fromRoot (exC12.rename exRho)).toBool = true := by decide +kernel

/-- labels `≥ 90` are reserved for padding; the padded single-action nodes play action `42` -/
def exFresh : Bool → Nat → Bool := fun _ l => decide (90 ≤ l)
def exAct : Bool → Nat → Nat := fun _ _ => 42

/-- `exC12` below a single-outcome chance node, with a single-action node of player one (label
`99`) in front of the first decision and one of player two (label `98`) in front of a terminal -/
def exC12padded : Raw ℚ :=
  .chance none [5] [
    .chance (some 4) [1, 3]
      [.player true 99 [42]
        [.player true 5 [0, 1] [.term 1, .player false 2 [7] [.term 0]]],
       .player true 5 [0, 1] [.term (-1), .player false 98 [42] [.term 3]]]]

example : Padded exFresh exAct exC12 exC12padded :=
  .padChance _ _ 5 (by norm_num) <|
    .chance _ _ _ _ <|
      .cons _ _ _ _
        (.padPlayer _ _ true 99 rfl <|
          .player _ _ _ _ _ <| .cons _ _ _ _ (.term _) <|
            .cons _ _ _ _ (.player _ _ _ _ _ <| .cons _ _ _ _ (.term _) .nil) .nil) <|
      .cons _ _ _ _
        (.player _ _ _ _ _ <| .cons _ _ _ _ (.term _) <|
          .cons _ _ _ _ (.padPlayer _ _ false 98 rfl (.term _)) .nil)
        .nil

example : exC12.AvoidsFresh exFresh := by
  simp [exC12, exFresh, Raw.AvoidsFresh, Raw.AvoidsFreshL]

example : (fromRoot exC12padded).toBool = true := by decide +kernel

end Cfr
