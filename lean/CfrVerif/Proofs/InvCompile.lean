import CfrVerif.Proofs.Transforms
import CfrVerif.Model.Eval
/-!
# C12, part 1: presentations that compile to the same game

Rescaled chance weights give the *identical* result of `fromRoot`; padding with degenerate nodes
gives the same game up to the single-action table; an injective renaming gives the same game with
renamed labels.  Evaluation and every solver only look at the tree, the chance table and the
number of actions per infoset (`Game.SameShape`), so all their results coincide.
-/
set_option linter.unusedSectionVars false
namespace Cfr
variable {α : Type} [Field α] [LinearOrder α] [IsStrictOrderedRing α]

/-- rescaling the weights of any chance nodes by positive constants: identical construction result
(same game, or the same error) -/
theorem rescale_chance_weights (r r' : Raw α) (h : Rescaled r r') : fromRoot r' = fromRoot r := by
  sorry

/-- an injective renaming of infosets, actions and chance infosets: the same construction result
with renamed labels (same indices, same tree, same probabilities; the same error otherwise) -/
theorem rename_equivariant (ρ : Renaming) (hρ : ρ.Injective) (r : Raw α) :
    fromRoot (r.rename ρ) = (fromRoot r).map (Game.rename ρ) := by
  sorry

/-- inserting single-outcome chance nodes and single-action decision nodes (with labels the tree
does not use): construction fails with the same error, or succeeds with the same tree, chance
table and multi-action infoset tables; only the single-action table grows -/
theorem degenerate_nodes_transparent (fresh : Bool → Nat → Bool) (act : Bool → Nat → Nat)
    (r r' : Raw α) (hp : Padded fresh act r r') (hav : r.AvoidsFresh fresh) :
    match fromRoot r, fromRoot r' with
    | .ok g, .ok g' =>
      g'.chance = g.chance ∧ g'.root = g.root ∧ g'.p1 = g.p1 ∧ g'.p2 = g.p2 ∧
      (∀ e ∈ g.s1, e ∈ g'.s1) ∧ (∀ e ∈ g.s2, e ∈ g'.s2) ∧
      (∀ e ∈ g'.s1, e ∈ g.s1 ∨ (fresh true e.1 = true ∧ e.2 = act true e.1)) ∧
      (∀ e ∈ g'.s2, e ∈ g.s2 ∨ (fresh false e.1 = true ∧ e.2 = act false e.1))
    | .error e, .error e' => e = e'
    | _, _ => False := by
  sorry

theorem sameShape_rename (ρ : Renaming) (g : Game α) : g.SameShape (g.rename ρ) := by
  sorry

/-- evaluation only looks at the shape -/
theorem getInfo_sameShape (g g' : Game α) (h : g.SameShape g') (σ : Bool → Strat α) :
    (getInfo g σ).util = (getInfo g' σ).util ∧ (getInfo g σ).regretOne = (getInfo g' σ).regretOne ∧
    (getInfo g σ).regretTwo = (getInfo g' σ).regretTwo := by
  sorry

/-- so does every solver -/
theorem solve_sameShape [Transc α] (g g' : Game α) (h : g.SameShape g') (p : RegretParams α)
    (draw : DrawFn α) (T : Nat) (thr : Option (Ext α)) (sampled : Bool) (target : Nat)
    (sched : Sched α) :
    solveVanillaSingle g sampled p draw T thr = solveVanillaSingle g' sampled p draw T thr ∧
    solveExternalSingle g p draw T thr = solveExternalSingle g' p draw T thr ∧
    solveVanillaMultiS sched g sampled p draw T thr target
      = solveVanillaMultiS sched g' sampled p draw T thr target ∧
    solveExternalMultiS sched g p draw T thr target
      = solveExternalMultiS sched g' p draw T thr target := by
  sorry

end Cfr
