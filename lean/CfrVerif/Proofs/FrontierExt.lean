import CfrVerif.Proofs.Frontier
/-!
# Frontier decomposition for the external-sampling multi-threaded pass
-/
set_option linter.unusedSectionVars false
namespace Cfr
variable {α : Type} [Field α] [LinearOrder α] [IsStrictOrderedRing α] [Transc α]

end Cfr
