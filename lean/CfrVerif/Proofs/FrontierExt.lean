import CfrVerif.Proofs.Frontier
import CfrVerif.Proofs.GameWF
/-!
# Frontier decomposition for the external-sampling multi-threaded pass
-/
set_option linter.unusedSectionVars false
namespace Cfr
variable {α : Type} [Field α] [LinearOrder α] [IsStrictOrderedRing α] [Transc α]

/-! ## unfolding equations in projection form -/

theorem erec_chance_eq (c : ECtx α) (i : Nat) (ks : List (Node α)) (d : DrawSt α) :
    erec c (.chance i ks) d =
      erecNth c ks (sampleChance c.draw c.chancePass (c.ch.getD i []) i d).1
        (sampleChance c.draw c.chancePass (c.ch.getD i []) i d).2 := by
  simp only [erec]

theorem erec_own_eq (c : ECtx α) (one : Bool) (i : Nat) (ks : List (Node α)) (d : DrawSt α)
    (h : (one == c.first) = true) :
    erec c (.player one i ks) d =
      ((erecActs c one i (c.strat one i) ks d 0 0).1,
       (erecActs c one i (c.strat one i) ks d 0 0).2.1 ++
         subEffsE one i (erecActs c one i (c.strat one i) ks d 0 0).1 (c.strat one i).length,
       (erecActs c one i (c.strat one i) ks d 0 0).2.2) := by
  simp only [erec, if_pos h]

theorem erec_opp_eq (c : ECtx α) (one : Bool) (i : Nat) (ks : List (Node α)) (d : DrawSt α)
    (h : ¬ (one == c.first) = true) :
    erec c (.player one i ks) d =
      ((erecNth c ks (samplePlayer c.draw (if one then 1 else 2) c.playerPass (c.strat one i) i d).1
          (samplePlayer c.draw (if one then 1 else 2) c.playerPass (c.strat one i) i d).2).1,
       extStratEffs one i (c.strat one i) 0 ++
        (erecNth c ks (samplePlayer c.draw (if one then 1 else 2) c.playerPass (c.strat one i) i d).1
          (samplePlayer c.draw (if one then 1 else 2) c.playerPass (c.strat one i) i d).2).2.1,
       (erecNth c ks (samplePlayer c.draw (if one then 1 else 2) c.playerPass (c.strat one i) i d).1
          (samplePlayer c.draw (if one then 1 else 2) c.playerPass (c.strat one i) i d).2).2.2) := by
  simp only [erec, if_neg h]

theorem erecActs_cons_eq (c : ECtx α) (one : Bool) (j : Nat) (s : α) (σ : List α) (k : Node α)
    (ks : List (Node α)) (d : DrawSt α) (a : Nat) (ex : α) :
    erecActs c one j (s :: σ) (k :: ks) d a ex =
      ((erecActs c one j σ ks (erec c k d).2.2 (a + 1) (ex + s * (erec c k d).1)).1,
       (erec c k d).2.1 ++ ⟨one, j, .regret, a, (erec c k d).1⟩ ::
         (erecActs c one j σ ks (erec c k d).2.2 (a + 1) (ex + s * (erec c k d).1)).2.1,
       (erecActs c one j σ ks (erec c k d).2.2 (a + 1) (ex + s * (erec c k d).1)).2.2) := by
  simp only [erecActs]

/-! ## Part B: an infoset of the updating player is visited at most once per pass -/

/-- the accumulations counted by `active_infoset_visited_once` -/
def EHit (first : Bool) (i : Nat) (e : Eff α) : Bool :=
  e.one == first && e.info == i && e.slot == Slot.regret && e.act == 0

theorem Slot.strat_beq_regret : (Slot.strat == Slot.regret) = false := rfl
theorem Slot.regret_beq_regret : (Slot.regret == Slot.regret) = true := rfl

theorem EHit_extStratEffs (first : Bool) (i : Nat) (one : Bool) (j : Nat) (σ : List α) (a : Nat) :
    (extStratEffs one j σ a).countP (EHit first i) = 0 := by
  induction σ generalizing a with
  | nil => simp [extStratEffs]
  | cons s σ ih =>
    simp only [extStratEffs, List.countP_cons, ih]
    simp [EHit, Slot.strat_beq_regret]

theorem EHit_subEffsE_le (first : Bool) (i : Nat) (one : Bool) (j : Nat) (ex : α) (n : Nat) :
    (subEffsE one j ex n).countP (EHit first i) ≤ 1 := by
  unfold subEffsE
  cases n with
  | zero => simp
  | succ n =>
    rw [List.range_succ_eq_map, List.map_cons, List.map_map, List.countP_cons, List.countP_map]
    have : List.countP (EHit first i ∘ (fun a => (⟨one, j, Slot.regret, a, -ex⟩ : Eff α)) ∘ Nat.succ)
        (List.range n) = 0 := by
      rw [List.countP_eq_zero]
      intro a _
      simp [EHit]
    rw [this]
    split_ifs <;> omega

theorem EHit_subEffsE_ne (first : Bool) (i : Nat) (one : Bool) (j : Nat) (ex : α) (n : Nat)
    (h : j ≠ i) : (subEffsE one j ex n).countP (EHit first i) = 0 := by
  unfold subEffsE
  rw [List.countP_eq_zero]
  intro e he
  obtain ⟨a, _, rfl⟩ := List.mem_map.mp he
  simp [EHit, h]

theorem prefix_snoc_inj {β : Type} {H l : List β} {x y : β} (h1 : (H ++ [x]) <+: l)
    (h2 : (H ++ [y]) <+: l) : x = y := by
  rw [List.prefix_iff_eq_take] at h1 h2
  have hl : (H ++ [x]).length = (H ++ [y]).length := by simp
  rw [hl, ← h2] at h1
  simpa using h1

mutual
theorem erec_hit (c : ECtx α) (hist : Nat → Hist) (i : Nat) :
    ∀ (n : Node α) (H : Hist) (d : DrawSt α), PR c.first hist H n →
      ((erec c n d).2.1.countP (EHit c.first i) ≤ 2 ∧
       (0 < (erec c n d).2.1.countP (EHit c.first i) → H <+: hist i))
  | .term p, H, d, _ => by simp [erec]
  | .chance j ks, H, d, h => by
    rw [erec_chance_eq]
    exact erecNth_hit c hist i ks _ H _ (by simpa [PR] using h)
  | .player one j ks, H, d, h => by
    by_cases ho : (one == c.first) = true
    · rw [erec_own_eq c one j ks d ho]
      have ho' : one = c.first := by simpa using ho
      obtain ⟨hH, hD⟩ := (by simpa [PR, ho'] using h : hist j = H ∧ PRD c.first hist H j 0 ks)
      simp only [List.countP_append]
      obtain ⟨h1, h2⟩ := erecActs_hit c hist i one j (c.strat one j) ks H d 0 0 hD
      by_cases hj : j = i
      · subst hj
        have h3 := h2 rfl hH
        have h4 := EHit_subEffsE_le c.first j one j
          (erecActs c one j (c.strat one j) ks d 0 0).1 (c.strat one j).length
        simp only [if_true] at h3
        refine ⟨by omega, fun _ => hH ▸ List.prefix_refl _⟩
      · have h3 := h1 hj
        rw [EHit_subEffsE_ne _ _ _ _ _ _ hj, Nat.add_zero]
        refine ⟨h3.1, fun hp => ?_⟩
        obtain ⟨a', _, hpre⟩ := h3.2 hp
        exact (List.prefix_append _ _).trans hpre
    · rw [erec_opp_eq c one j ks d ho]
      have ho' : ¬ one = c.first := by simpa using ho
      have hL : PRL c.first hist H ks := by simpa [PR, ho'] using h
      simp only [List.countP_append, EHit_extStratEffs, Nat.zero_add]
      exact erecNth_hit c hist i ks _ H _ hL
theorem erecNth_hit (c : ECtx α) (hist : Nat → Hist) (i : Nat) :
    ∀ (ks : List (Node α)) (k : Nat) (H : Hist) (d : DrawSt α), PRL c.first hist H ks →
      ((erecNth c ks k d).2.1.countP (EHit c.first i) ≤ 2 ∧
       (0 < (erecNth c ks k d).2.1.countP (EHit c.first i) → H <+: hist i))
  | [], _, H, d, _ => by simp [erecNth]
  | k :: _, 0, H, d, h => by
    simp only [erecNth]
    exact erec_hit c hist i k H d (by simpa [PRL] using h : PR c.first hist H k ∧ _).1
  | _ :: ks, n + 1, H, d, h => by
    simp only [erecNth]
    exact erecNth_hit c hist i ks n H d (by simpa [PRL] using h : _ ∧ PRL c.first hist H ks).2
theorem erecActs_hit (c : ECtx α) (hist : Nat → Hist) (i : Nat) (one : Bool) (j : Nat) :
    ∀ (σ : List α) (ks : List (Node α)) (H : Hist) (d : DrawSt α) (a : Nat) (ex : α),
      PRD c.first hist H j a ks →
      (j ≠ i → ((erecActs c one j σ ks d a ex).2.1.countP (EHit c.first i) ≤ 2 ∧
        (0 < (erecActs c one j σ ks d a ex).2.1.countP (EHit c.first i) →
          ∃ a', a ≤ a' ∧ (H ++ [(j, a')]) <+: hist i))) ∧
      (j = i → hist i = H →
        (erecActs c one j σ ks d a ex).2.1.countP (EHit c.first i) ≤ (if a = 0 then 1 else 0))
  | s :: σ, k :: ks, H, d, a, ex, h => by
    obtain ⟨hk, hks⟩ :=
      (by simpa [PRD] using h : PR c.first hist (H ++ [(j, a)]) k ∧ PRD c.first hist H j (a + 1) ks)
    rw [erecActs_cons_eq]
    simp only [List.countP_append, List.countP_cons]
    obtain ⟨c1, c2⟩ := erec_hit c hist i k (H ++ [(j, a)]) d hk
    obtain ⟨r1, r2⟩ := erecActs_hit c hist i one j σ ks H (erec c k d).2.2 (a + 1)
      (ex + s * (erec c k d).1) hks
    constructor
    · intro hj
      have hE : EHit c.first i (⟨one, j, Slot.regret, a, (erec c k d).1⟩ : Eff α) = false := by
        simp [EHit, hj]
      rw [hE]
      simp only [Bool.false_eq_true, if_false, Nat.add_zero]
      obtain ⟨r3, r4⟩ := r1 hj
      by_cases hp1 : 0 < (erec c k d).2.1.countP (EHit c.first i)
      · by_cases hp2 : 0 < (erecActs c one j σ ks (erec c k d).2.2 (a + 1)
            (ex + s * (erec c k d).1)).2.1.countP (EHit c.first i)
        · obtain ⟨a', ha', hpre⟩ := r4 hp2
          have := prefix_snoc_inj (c2 hp1) hpre
          simp only [Prod.mk.injEq, true_and] at this
          omega
        · refine ⟨by omega, fun _ => ⟨a, le_refl _, c2 hp1⟩⟩
      · refine ⟨by omega, fun hp => ?_⟩
        obtain ⟨a', ha', hpre⟩ := r4 (by omega)
        exact ⟨a', by omega, hpre⟩
    · intro hj hH
      have h0 : (erec c k d).2.1.countP (EHit c.first i) = 0 := by
        by_contra hne
        have := (c2 (by omega)).length_le
        rw [hj, hH] at this
        simp at this
      have h1 := r2 hj hH
      rw [if_neg (by omega)] at h1
      rw [h0]
      by_cases ha : a = 0
      · rw [if_pos ha]; split_ifs <;> omega
      · rw [if_neg ha]
        have hE : EHit c.first i (⟨one, j, Slot.regret, a, (erec c k d).1⟩ : Eff α) = false := by
          simp [EHit, ha]
        rw [hE]
        simp only [Bool.false_eq_true, if_false]
        omega
  | [], _, H, d, a, _, _ => by simp [erecActs]
  | _ :: _, [], H, d, a, _, _ => by simp [erecActs]
end

/-- **an infoset of the updating player is visited at most once in a pass** (perfect recall) -/
theorem erec_hit_le_two (c : ECtx α) (hist : Nat → Hist) (i : Nat) (n : Node α) (d : DrawSt α)
    (h : PR c.first hist [] n) : (erec c n d).2.1.countP (EHit c.first i) ≤ 2 :=
  (erec_hit c hist i n [] d h).1

/-! ## Part A: the pure traversal

Under a *consistent* draw state (every cached sample is the oracle's answer) a traversal's value
and accumulations do not depend on the caches: `precC` is the traversal with the oracle's answers
substituted, returning the value and the list of *events* (atomic accumulations and sample
requests) in the order in which they happen. -/

/-- a sample request: a chance infoset or an infoset of the non-updating player -/
inductive EReq where
  | ch (i : Nat)
  | pl (i : Nat)
  deriving DecidableEq

inductive EEv (α : Type) where
  | eff (e : Eff α)
  | req (r : EReq)

def EEv.getEff : EEv α → Option (Eff α)
  | .eff e => some e
  | .req _ => none
def EEv.getReq : EEv α → Option EReq
  | .eff _ => none
  | .req r => some r
def effsOf (l : List (EEv α)) : List (Eff α) := l.filterMap EEv.getEff
def reqsOf (l : List (EEv α)) : List EReq := l.filterMap EEv.getReq

@[simp] theorem effsOf_nil : effsOf ([] : List (EEv α)) = [] := rfl
@[simp] theorem reqsOf_nil : reqsOf ([] : List (EEv α)) = [] := rfl
@[simp] theorem effsOf_append (a b : List (EEv α)) : effsOf (a ++ b) = effsOf a ++ effsOf b := by
  simp [effsOf]
@[simp] theorem reqsOf_append (a b : List (EEv α)) : reqsOf (a ++ b) = reqsOf a ++ reqsOf b := by
  simp [reqsOf]
@[simp] theorem effsOf_cons_eff (e : Eff α) (l : List (EEv α)) :
    effsOf (.eff e :: l) = e :: effsOf l := by simp [effsOf, EEv.getEff]
@[simp] theorem effsOf_cons_req (r : EReq) (l : List (EEv α)) :
    effsOf (.req r :: l) = effsOf l := by
  simp only [effsOf]; rw [List.filterMap_cons_none]; rfl
@[simp] theorem reqsOf_cons_eff (e : Eff α) (l : List (EEv α)) :
    reqsOf (.eff e :: l) = reqsOf l := by
  simp only [reqsOf]; rw [List.filterMap_cons_none]; rfl
@[simp] theorem reqsOf_cons_req (r : EReq) (l : List (EEv α)) :
    reqsOf (.req r :: l) = r :: reqsOf l := by simp [reqsOf, EEv.getReq]
@[simp] theorem effsOf_map_eff (l : List (Eff α)) : effsOf (l.map EEv.eff) = l := by
  induction l with
  | nil => rfl
  | cons e l ih => simp [ih]
@[simp] theorem reqsOf_map_eff (l : List (Eff α)) : reqsOf (l.map EEv.eff) = [] := by
  induction l with
  | nil => rfl
  | cons e l ih => simp [ih]

/-- the oracle's answer at chance infoset `i` in this pass -/
def ECtx.oc (c : ECtx α) (i : Nat) : Nat := c.draw 0 i c.chancePass (c.ch.getD i [])
/-- the oracle's answer at infoset `i` of the non-updating player in this pass -/
def ECtx.op (c : ECtx α) (i : Nat) : Nat :=
  c.draw (if !c.first then 1 else 2) i c.playerPass (c.strat (!c.first) i)

mutual
def precC (c : ECtx α) (cache : List (Path × α)) : Node α → Path → α × List (EEv α)
  | n, path =>
    match cacheGet cache path with
    | some pay => (pay, [])
    | none =>
      match n with
      | .term p => (if c.first then p else -p, [])
      | .chance i ks =>
        ((precCNth c cache ks (c.oc i) (path ++ [c.oc i])).1,
          .req (.ch i) :: (precCNth c cache ks (c.oc i) (path ++ [c.oc i])).2)
      | .player one i ks =>
        if one == c.first then
          ((precCActs c cache one i (c.strat one i) ks path 0 0).1,
           (precCActs c cache one i (c.strat one i) ks path 0 0).2 ++
             (subEffsE one i (precCActs c cache one i (c.strat one i) ks path 0 0).1
               (c.strat one i).length).map .eff)
        else
          ((precCNth c cache ks (c.op i) (path ++ [c.op i])).1,
           .req (.pl i) :: ((extStratEffs one i (c.strat one i) 0).map .eff ++
             (precCNth c cache ks (c.op i) (path ++ [c.op i])).2))
def precCNth (c : ECtx α) (cache : List (Path × α)) : List (Node α) → Nat → Path → α × List (EEv α)
  | [], _, _ => (0, [])
  | k :: _, 0, path => precC c cache k path
  | _ :: ks, n + 1, path => precCNth c cache ks n path
def precCActs (c : ECtx α) (cache : List (Path × α)) (one : Bool) (i : Nat) :
    List α → List (Node α) → Path → Nat → α → α × List (EEv α)
  | s :: σ, k :: ks, path, a, ex =>
    ((precCActs c cache one i σ ks path (a + 1) (ex + s * (precC c cache k (path ++ [a])).1)).1,
     (precC c cache k (path ++ [a])).2 ++
       .eff ⟨one, i, .regret, a, (precC c cache k (path ++ [a])).1⟩ ::
       (precCActs c cache one i σ ks path (a + 1) (ex + s * (precC c cache k (path ++ [a])).1)).2)
  | _, _, _, _, ex => (ex, [])
end

theorem precC_hit (c : ECtx α) (cache : List (Path × α)) (n : Node α) (path : Path) (v : α)
    (h : cacheGet cache path = some v) : precC c cache n path = (v, []) := by
  cases n <;> simp only [precC, h]

theorem precC_term (c : ECtx α) (cache : List (Path × α)) (p : α) (path : Path)
    (h : cacheGet cache path = none) :
    precC c cache (.term p) path = (if c.first then p else -p, []) := by
  simp only [precC, h]

theorem precC_chance (c : ECtx α) (cache : List (Path × α)) (i : Nat) (ks : List (Node α))
    (path : Path) (h : cacheGet cache path = none) :
    precC c cache (.chance i ks) path =
      ((precCNth c cache ks (c.oc i) (path ++ [c.oc i])).1,
        .req (.ch i) :: (precCNth c cache ks (c.oc i) (path ++ [c.oc i])).2) := by
  simp only [precC, h]

theorem precC_own (c : ECtx α) (cache : List (Path × α)) (one : Bool) (i : Nat)
    (ks : List (Node α)) (path : Path) (h : cacheGet cache path = none)
    (ho : (one == c.first) = true) :
    precC c cache (.player one i ks) path =
      ((precCActs c cache one i (c.strat one i) ks path 0 0).1,
       (precCActs c cache one i (c.strat one i) ks path 0 0).2 ++
         (subEffsE one i (precCActs c cache one i (c.strat one i) ks path 0 0).1
           (c.strat one i).length).map .eff) := by
  simp only [precC, h, if_pos ho]

theorem precC_opp (c : ECtx α) (cache : List (Path × α)) (one : Bool) (i : Nat)
    (ks : List (Node α)) (path : Path) (h : cacheGet cache path = none)
    (ho : ¬ (one == c.first) = true) :
    precC c cache (.player one i ks) path =
      ((precCNth c cache ks (c.op i) (path ++ [c.op i])).1,
       .req (.pl i) :: ((extStratEffs one i (c.strat one i) 0).map .eff ++
         (precCNth c cache ks (c.op i) (path ++ [c.op i])).2)) := by
  simp only [precC, h, if_neg ho]

theorem precCActs_cons (c : ECtx α) (cache : List (Path × α)) (one : Bool) (i : Nat) (s : α)
    (σ : List α) (k : Node α) (ks : List (Node α)) (path : Path) (a : Nat) (ex : α) :
    precCActs c cache one i (s :: σ) (k :: ks) path a ex =
    ((precCActs c cache one i σ ks path (a + 1) (ex + s * (precC c cache k (path ++ [a])).1)).1,
     (precC c cache k (path ++ [a])).2 ++
       .eff ⟨one, i, .regret, a, (precC c cache k (path ++ [a])).1⟩ ::
       (precCActs c cache one i σ ks path (a + 1) (ex + s * (precC c cache k (path ++ [a])).1)).2) := by
  simp only [precCActs]

theorem precCActs_nil_left (c : ECtx α) (cache : List (Path × α)) (one : Bool) (i : Nat)
    (ks : List (Node α)) (path : Path) (a : Nat) (ex : α) :
    precCActs c cache one i [] ks path a ex = (ex, []) := by
  simp only [precCActs]

theorem precCActs_nil_right (c : ECtx α) (cache : List (Path × α)) (one : Bool) (i : Nat)
    (σ : List α) (path : Path) (a : Nat) (ex : α) :
    precCActs c cache one i σ [] path a ex = (ex, []) := by
  cases σ <;> simp only [precCActs]

/-! ### the cached traversal of the model, unfolded -/

theorem erecC_hit (c : ECtx α) (cache : List (Path × α)) (n : Node α) (path : Path) (d : DrawSt α)
    (v : α) (h : cacheGet cache path = some v) : erecC c cache n path d = (v, [], d) := by
  cases n <;> simp only [erecC, h]

theorem erecC_term (c : ECtx α) (cache : List (Path × α)) (p : α) (path : Path) (d : DrawSt α)
    (h : cacheGet cache path = none) :
    erecC c cache (.term p) path d = (if c.first then p else -p, [], d) := by
  simp only [erecC, h]

theorem erecC_chance (c : ECtx α) (cache : List (Path × α)) (i : Nat) (ks : List (Node α))
    (path : Path) (d : DrawSt α) (h : cacheGet cache path = none) :
    erecC c cache (.chance i ks) path d =
      erecCNth c cache ks (sampleChance c.draw c.chancePass (c.ch.getD i []) i d).1
        (path ++ [(sampleChance c.draw c.chancePass (c.ch.getD i []) i d).1])
        (sampleChance c.draw c.chancePass (c.ch.getD i []) i d).2 := by
  simp only [erecC, h]

theorem erecC_own (c : ECtx α) (cache : List (Path × α)) (one : Bool) (i : Nat)
    (ks : List (Node α)) (path : Path) (d : DrawSt α) (h : cacheGet cache path = none)
    (ho : (one == c.first) = true) :
    erecC c cache (.player one i ks) path d =
      ((erecCActs c cache one i (c.strat one i) ks path d 0 0).1,
       (erecCActs c cache one i (c.strat one i) ks path d 0 0).2.1 ++
         subEffsE one i (erecCActs c cache one i (c.strat one i) ks path d 0 0).1
           (c.strat one i).length,
       (erecCActs c cache one i (c.strat one i) ks path d 0 0).2.2) := by
  simp only [erecC, h, if_pos ho]

theorem erecC_opp (c : ECtx α) (cache : List (Path × α)) (one : Bool) (i : Nat)
    (ks : List (Node α)) (path : Path) (d : DrawSt α) (h : cacheGet cache path = none)
    (ho : ¬ (one == c.first) = true) :
    erecC c cache (.player one i ks) path d =
      ((erecCNth c cache ks
          (samplePlayer c.draw (if one then 1 else 2) c.playerPass (c.strat one i) i d).1
          (path ++ [(samplePlayer c.draw (if one then 1 else 2) c.playerPass (c.strat one i) i d).1])
          (samplePlayer c.draw (if one then 1 else 2) c.playerPass (c.strat one i) i d).2).1,
       extStratEffs one i (c.strat one i) 0 ++
        (erecCNth c cache ks
          (samplePlayer c.draw (if one then 1 else 2) c.playerPass (c.strat one i) i d).1
          (path ++ [(samplePlayer c.draw (if one then 1 else 2) c.playerPass (c.strat one i) i d).1])
          (samplePlayer c.draw (if one then 1 else 2) c.playerPass (c.strat one i) i d).2).2.1,
       (erecCNth c cache ks
          (samplePlayer c.draw (if one then 1 else 2) c.playerPass (c.strat one i) i d).1
          (path ++ [(samplePlayer c.draw (if one then 1 else 2) c.playerPass (c.strat one i) i d).1])
          (samplePlayer c.draw (if one then 1 else 2) c.playerPass (c.strat one i) i d).2).2.2) := by
  simp only [erecC, h, if_neg ho]

theorem erecCActs_cons_eq (c : ECtx α) (cache : List (Path × α)) (one : Bool) (j : Nat) (s : α)
    (σ : List α) (k : Node α) (ks : List (Node α)) (path : Path) (d : DrawSt α) (a : Nat) (ex : α) :
    erecCActs c cache one j (s :: σ) (k :: ks) path d a ex =
      ((erecCActs c cache one j σ ks path (erecC c cache k (path ++ [a]) d).2.2 (a + 1)
          (ex + s * (erecC c cache k (path ++ [a]) d).1)).1,
       (erecC c cache k (path ++ [a]) d).2.1 ++
         ⟨one, j, .regret, a, (erecC c cache k (path ++ [a]) d).1⟩ ::
         (erecCActs c cache one j σ ks path (erecC c cache k (path ++ [a]) d).2.2 (a + 1)
          (ex + s * (erecC c cache k (path ++ [a]) d).1)).2.1,
       (erecCActs c cache one j σ ks path (erecC c cache k (path ++ [a]) d).2.2 (a + 1)
          (ex + s * (erecC c cache k (path ++ [a]) d).1)).2.2) := by
  simp only [erecCActs]

/-! ### consistent draw states -/

/-- every cached sample is the oracle's answer -/
def ECons (c : ECtx α) (d : DrawSt α) : Prop :=
  (∀ i k, assocGet d.chance i = some k → k = c.oc i) ∧
  (∀ i k, assocGet d.player i = some k → k = c.op i)

/-- serve one sample request -/
def DrawSt.req (c : ECtx α) (d : DrawSt α) : EReq → DrawSt α
  | .ch i => (sampleChance c.draw c.chancePass (c.ch.getD i []) i d).2
  | .pl i => (samplePlayer c.draw (if !c.first then 1 else 2) c.playerPass (c.strat (!c.first) i) i d).2

def DrawSt.run (c : ECtx α) (d : DrawSt α) (rs : List EReq) : DrawSt α := rs.foldl (DrawSt.req c) d

theorem DrawSt.req_ch (c : ECtx α) (d : DrawSt α) (i : Nat) :
    (sampleChance c.draw c.chancePass (c.ch.getD i []) i d).2 = d.req c (.ch i) := rfl
theorem DrawSt.req_pl (c : ECtx α) (d : DrawSt α) (i : Nat) :
    (samplePlayer c.draw (if !c.first then 1 else 2) c.playerPass (c.strat (!c.first) i) i d).2
      = d.req c (.pl i) := rfl

@[simp] theorem DrawSt.run_nil (c : ECtx α) (d : DrawSt α) : d.run c [] = d := rfl
@[simp] theorem DrawSt.run_cons (c : ECtx α) (d : DrawSt α) (r : EReq) (rs : List EReq) :
    d.run c (r :: rs) = (d.req c r).run c rs := rfl
theorem DrawSt.run_append (c : ECtx α) (d : DrawSt α) (a b : List EReq) :
    d.run c (a ++ b) = (d.run c a).run c b := by
  simp [DrawSt.run, List.foldl_append]

theorem EassocGet_cons (a b : Nat) (l : List (Nat × Nat)) (j : Nat) :
    assocGet ((a, b) :: l) j = if a = j then some b else assocGet l j := by
  unfold assocGet
  by_cases hj : a = j
  · simp [hj]
  · simp [hj]

theorem ECons.sampleChance_fst {c : ECtx α} {d : DrawSt α} (h : ECons c d) (i : Nat) :
    (sampleChance c.draw c.chancePass (c.ch.getD i []) i d).1 = c.oc i := by
  cases hc : assocGet d.chance i with
  | some k => simp only [sampleChance, hc]; exact h.1 i k hc
  | none => simp only [sampleChance, hc]; rfl

theorem ECons.samplePlayer_fst {c : ECtx α} {d : DrawSt α} (h : ECons c d) (i : Nat) :
    (samplePlayer c.draw (if !c.first then 1 else 2) c.playerPass (c.strat (!c.first) i) i d).1
      = c.op i := by
  cases hc : assocGet d.player i with
  | some k => simp only [samplePlayer, hc]; exact h.2 i k hc
  | none => simp only [samplePlayer, hc]; rfl

theorem ECons.req {c : ECtx α} {d : DrawSt α} (h : ECons c d) (r : EReq) : ECons c (d.req c r) := by
  cases r with
  | ch i =>
    cases hc : assocGet d.chance i with
    | some k => simp only [DrawSt.req, sampleChance, hc]; exact h
    | none =>
      simp only [DrawSt.req, sampleChance, hc]
      refine ⟨fun j k hj => ?_, h.2⟩
      rw [EassocGet_cons] at hj
      by_cases hij : i = j
      · rw [if_pos hij] at hj; subst hij; exact (Option.some.inj hj).symm
      · rw [if_neg hij] at hj; exact h.1 j k hj
  | pl i =>
    cases hc : assocGet d.player i with
    | some k => simp only [DrawSt.req, samplePlayer, hc]; exact h
    | none =>
      simp only [DrawSt.req, samplePlayer, hc]
      refine ⟨h.1, fun j k hj => ?_⟩
      rw [EassocGet_cons] at hj
      by_cases hij : i = j
      · rw [if_pos hij] at hj; subst hij; exact (Option.some.inj hj).symm
      · rw [if_neg hij] at hj; exact h.2 j k hj

theorem ECons.run {c : ECtx α} {d : DrawSt α} (h : ECons c d) (rs : List EReq) :
    ECons c (d.run c rs) := by
  induction rs generalizing d with
  | nil => exact h
  | cons r rs ih => exact ih (h.req r)

theorem ECons.init (c : ECtx α) (log : List (DrawRec α)) : ECons c { log := log } :=
  ⟨fun i k h => by simp [assocGet] at h, fun i k h => by simp [assocGet] at h⟩

theorem opp_eq_not_first {c : ECtx α} {one : Bool} (h : ¬ (one == c.first) = true) :
    one = !c.first := by
  cases one <;> cases hf : c.first <;> simp_all

/-! ### the model's traversals are the pure one plus cache bookkeeping -/

mutual
theorem erecC_pure (c : ECtx α) (cache : List (Path × α)) :
    ∀ (n : Node α) (path : Path) (d : DrawSt α), ECons c d →
      erecC c cache n path d = ((precC c cache n path).1, effsOf (precC c cache n path).2,
        d.run c (reqsOf (precC c cache n path).2))
  | n, path, d, hd => by
    cases hc : cacheGet cache path with
    | some v => rw [erecC_hit _ _ _ _ _ v hc, precC_hit _ _ _ _ v hc]; rfl
    | none =>
      match n with
      | .term p => rw [erecC_term _ _ _ _ _ hc, precC_term _ _ _ _ hc]; rfl
      | .chance i ks =>
        rw [erecC_chance _ _ _ _ _ _ hc, precC_chance _ _ _ _ _ hc, hd.sampleChance_fst i,
          DrawSt.req_ch, erecCNth_pure c cache ks (c.oc i) (path ++ [c.oc i]) _ (hd.req (.ch i))]
        simp only [reqsOf_cons_req, effsOf_cons_req, DrawSt.run_cons]
      | .player one i ks =>
        by_cases ho : (one == c.first) = true
        · rw [erecC_own _ _ _ _ _ _ _ hc ho, precC_own _ _ _ _ _ _ hc ho,
            erecCActs_pure c cache one i (c.strat one i) ks path d 0 0 hd]
          simp only [effsOf_append, effsOf_map_eff, reqsOf_append, reqsOf_map_eff, List.append_nil]
        · rw [erecC_opp _ _ _ _ _ _ _ hc ho, precC_opp _ _ _ _ _ _ hc ho]
          have hone := opp_eq_not_first ho
          subst hone
          rw [hd.samplePlayer_fst i, DrawSt.req_pl,
            erecCNth_pure c cache ks (c.op i) (path ++ [c.op i]) _ (hd.req (.pl i))]
          simp only [reqsOf_cons_req, effsOf_cons_req, DrawSt.run_cons, effsOf_append,
            effsOf_map_eff, reqsOf_append, reqsOf_map_eff, List.nil_append]
theorem erecCNth_pure (c : ECtx α) (cache : List (Path × α)) :
    ∀ (ks : List (Node α)) (j : Nat) (path : Path) (d : DrawSt α), ECons c d →
      erecCNth c cache ks j path d = ((precCNth c cache ks j path).1,
        effsOf (precCNth c cache ks j path).2, d.run c (reqsOf (precCNth c cache ks j path).2))
  | [], _, _, d, _ => by simp only [erecCNth, precCNth]; rfl
  | k :: _, 0, path, d, hd => by
    simp only [erecCNth, precCNth]; exact erecC_pure c cache k path d hd
  | _ :: ks, j + 1, path, d, hd => by
    simp only [erecCNth, precCNth]; exact erecCNth_pure c cache ks j path d hd
theorem erecCActs_pure (c : ECtx α) (cache : List (Path × α)) (one : Bool) (i : Nat) :
    ∀ (σ : List α) (ks : List (Node α)) (path : Path) (d : DrawSt α) (a : Nat) (ex : α),
      ECons c d →
      erecCActs c cache one i σ ks path d a ex = ((precCActs c cache one i σ ks path a ex).1,
        effsOf (precCActs c cache one i σ ks path a ex).2,
        d.run c (reqsOf (precCActs c cache one i σ ks path a ex).2))
  | s :: σ, k :: ks, path, d, a, ex, hd => by
    rw [erecCActs_cons_eq, precCActs_cons, erecC_pure c cache k (path ++ [a]) d hd]
    simp only
    rw [erecCActs_pure c cache one i σ ks path _ (a + 1) _ (hd.run _)]
    simp only [effsOf_append, effsOf_cons_eff, reqsOf_append, reqsOf_cons_eff, DrawSt.run_append]
  | [], _, _, d, _, _, _ => by simp only [erecCActs, precCActs]; rfl
  | _ :: _, [], _, d, _, _, _ => by simp only [erecCActs, precCActs]; rfl
end

theorem cacheGet_nil (p : Path) : cacheGet ([] : List (Path × α)) p = none := rfl

mutual
theorem erec_eq_erecC (c : ECtx α) :
    ∀ (n : Node α) (path : Path) (d : DrawSt α), erecC c [] n path d = erec c n d
  | .term p, path, d => by rw [erecC_term _ _ _ _ _ (cacheGet_nil _)]; simp only [erec]
  | .chance i ks, path, d => by
    rw [erecC_chance _ _ _ _ _ _ (cacheGet_nil _), erec_chance_eq]
    exact erecNth_eq_erecCNth c ks _ _ _
  | .player one i ks, path, d => by
    by_cases ho : (one == c.first) = true
    · rw [erecC_own _ _ _ _ _ _ _ (cacheGet_nil _) ho, erec_own_eq _ _ _ _ _ ho,
        erecActs_eq_erecCActs c one i _ ks path d 0 0]
    · rw [erecC_opp _ _ _ _ _ _ _ (cacheGet_nil _) ho, erec_opp_eq _ _ _ _ _ ho,
        erecNth_eq_erecCNth c ks _ _ _]
theorem erecNth_eq_erecCNth (c : ECtx α) :
    ∀ (ks : List (Node α)) (j : Nat) (path : Path) (d : DrawSt α),
      erecCNth c [] ks j path d = erecNth c ks j d
  | [], _, _, d => by simp only [erecCNth, erecNth]
  | k :: _, 0, path, d => by simp only [erecCNth, erecNth]; exact erec_eq_erecC c k path d
  | _ :: ks, j + 1, path, d => by
    simp only [erecCNth, erecNth]; exact erecNth_eq_erecCNth c ks j path d
theorem erecActs_eq_erecCActs (c : ECtx α) (one : Bool) (i : Nat) :
    ∀ (σ : List α) (ks : List (Node α)) (path : Path) (d : DrawSt α) (a : Nat) (ex : α),
      erecCActs c [] one i σ ks path d a ex = erecActs c one i σ ks d a ex
  | s :: σ, k :: ks, path, d, a, ex => by
    rw [erecCActs_cons_eq, erecActs_cons_eq, erec_eq_erecC c k (path ++ [a]) d,
      erecActs_eq_erecCActs c one i σ ks path _ (a + 1) _]
  | [], _, _, d, _, _ => by simp only [erecCActs, erecActs]
  | _ :: _, [], _, d, _, _ => by simp only [erecCActs, erecActs]
end

/-! ### the payoff cache -/

theorem cacheGet_eq_none_iff (cache : List (Path × α)) (q : Path) :
    cacheGet cache q = none ↔ ∀ e ∈ cache, e.1 ≠ q := by
  unfold cacheGet
  simp [List.find?_eq_none]

theorem cacheGet_snoc_ne (cache : List (Path × α)) (P q : Path) (v : α) (h : q ≠ P) :
    cacheGet (cache ++ [(P, v)]) q = cacheGet cache q := by
  unfold cacheGet
  rw [List.find?_append]
  cases hf : List.find? (fun e => e.1 == q) cache with
  | some x => simp
  | none =>
    have : ¬ P = q := fun h' => h h'.symm
    simp [this]

theorem cacheGet_snoc_self (cache : List (Path × α)) (P : Path) (v : α)
    (h : cacheGet cache P = none) : cacheGet (cache ++ [(P, v)]) P = some v := by
  unfold cacheGet at h ⊢
  rw [List.find?_append]
  cases hf : List.find? (fun e => e.1 == P) cache with
  | some x => rw [hf] at h; simp at h
  | none => simp

/-! the cached traversal of a subtree only looks at cached paths below the subtree's path -/
mutual
theorem precC_congr (c : ECtx α) (c1 c2 : List (Path × α)) :
    ∀ (n : Node α) (path : Path), (∀ q, path <+: q → cacheGet c1 q = cacheGet c2 q) →
      precC c c1 n path = precC c c2 n path
  | n, path, h => by
    have hp := h path (List.prefix_refl _)
    cases hc : cacheGet c2 path with
    | some v => rw [precC_hit _ _ _ _ v hc, precC_hit _ _ _ _ v (hp.trans hc)]
    | none =>
      have hc1 := hp.trans hc
      match n with
      | .term p => rw [precC_term _ _ _ _ hc, precC_term _ _ _ _ hc1]
      | .chance i ks =>
        rw [precC_chance _ _ _ _ _ hc, precC_chance _ _ _ _ _ hc1,
          precCNth_congr c c1 c2 ks (c.oc i) (path ++ [c.oc i])
            (fun q hq => h q ((List.prefix_append _ _).trans hq))]
      | .player one i ks =>
        by_cases ho : (one == c.first) = true
        · rw [precC_own _ _ _ _ _ _ hc ho, precC_own _ _ _ _ _ _ hc1 ho,
            precCActs_congr c c1 c2 one i (c.strat one i) ks path 0 0 h]
        · rw [precC_opp _ _ _ _ _ _ hc ho, precC_opp _ _ _ _ _ _ hc1 ho,
            precCNth_congr c c1 c2 ks (c.op i) (path ++ [c.op i])
              (fun q hq => h q ((List.prefix_append _ _).trans hq))]
theorem precCNth_congr (c : ECtx α) (c1 c2 : List (Path × α)) :
    ∀ (ks : List (Node α)) (j : Nat) (path : Path),
      (∀ q, path <+: q → cacheGet c1 q = cacheGet c2 q) →
      precCNth c c1 ks j path = precCNth c c2 ks j path
  | [], _, _, _ => by simp only [precCNth]
  | k :: _, 0, path, h => by simp only [precCNth]; exact precC_congr c c1 c2 k path h
  | _ :: ks, j + 1, path, h => by simp only [precCNth]; exact precCNth_congr c c1 c2 ks j path h
theorem precCActs_congr (c : ECtx α) (c1 c2 : List (Path × α)) (one : Bool) (i : Nat) :
    ∀ (σ : List α) (ks : List (Node α)) (path : Path) (a : Nat) (ex : α),
      (∀ q, path <+: q → cacheGet c1 q = cacheGet c2 q) →
      precCActs c c1 one i σ ks path a ex = precCActs c c2 one i σ ks path a ex
  | s :: σ, k :: ks, path, a, ex, h => by
    rw [precCActs_cons, precCActs_cons,
      precC_congr c c1 c2 k (path ++ [a]) (fun q hq => h q ((List.prefix_append _ _).trans hq)),
      precCActs_congr c c1 c2 one i σ ks path (a + 1) _ h]
  | [], _, _, _, _, _ => by simp only [precCActs]
  | _ :: _, [], _, _, _, _ => by simp only [precCActs]
end

theorem precCNth_get (c : ECtx α) (cache : List (Path × α)) :
    ∀ (ks : List (Node α)) (j : Nat) (k : Node α) (q : Path), ks[j]? = some k →
      precCNth c cache ks j q = precC c cache k q
  | [], _, _, _, h => by simp at h
  | k0 :: _, 0, k, q, h => by
    simp only [List.getElem?_cons_zero, Option.some.injEq] at h
    subst h; simp only [precCNth]
  | _ :: ks, j + 1, k, q, h => by
    simp only [List.getElem?_cons_succ] at h
    simp only [precCNth]; exact precCNth_get c cache ks j k q h

/-! ### the sampled tree -/

/-- `OnT c n rel m` : the traversal of `n` reaches its descendant `m` along the relative path
`rel` (oracle's outcome at chance nodes, oracle's action at the opponent's nodes, any action with
a strategy entry at the updating player's nodes) -/
inductive OnT (c : ECtx α) : Node α → Path → Node α → Prop
  | here (n : Node α) : OnT c n [] n
  | chance (i : Nat) (ks : List (Node α)) (k : Node α) (rel : Path) (m : Node α) :
      ks[c.oc i]? = some k → OnT c k rel m → OnT c (.chance i ks) (c.oc i :: rel) m
  | own (one : Bool) (i : Nat) (ks : List (Node α)) (a : Nat) (k : Node α) (rel : Path) (m : Node α) :
      (one == c.first) = true → a < (c.strat one i).length → ks[a]? = some k → OnT c k rel m →
      OnT c (.player one i ks) (a :: rel) m
  | opp (one : Bool) (i : Nat) (ks : List (Node α)) (k : Node α) (rel : Path) (m : Node α) :
      ¬ (one == c.first) = true → ks[c.op i]? = some k → OnT c k rel m →
      OnT c (.player one i ks) (c.op i :: rel) m

theorem OnT.trans {c : ECtx α} {a b e : Node α} {r1 r2 : Path} (h1 : OnT c a r1 b)
    (h2 : OnT c b r2 e) : OnT c a (r1 ++ r2) e := by
  induction h1 with
  | here n => exact h2
  | chance i ks k rel m hk _ ih => exact OnT.chance i ks k _ _ hk (ih h2)
  | own one i ks a k rel m ho ha hk _ ih => exact OnT.own one i ks a k _ _ ho ha hk (ih h2)
  | opp one i ks k rel m ho hk _ ih => exact OnT.opp one i ks k _ _ ho hk (ih h2)

/-! ### adding one cut node to the cache -/

theorem perm_mid {β : Type} {A' A X : List β} (S : List β) (h : (A' ++ X).Perm A) :
    ((A' ++ S) ++ X).Perm (A ++ S) := by
  have h1 : ((A' ++ S) ++ X).Perm ((A' ++ X) ++ S) := by
    rw [List.append_assoc, List.append_assoc]
    exact List.Perm.append_left _ List.perm_append_comm
  exact h1.trans (h.append_right S)

theorem perm_rot {β : Type} (A B C : List β) : (A ++ (B ++ C)).Perm ((A ++ C) ++ B) := by
  rw [List.append_assoc]
  exact List.Perm.append_left _ List.perm_append_comm

theorem precCActs_rest_eq (c : ECtx α) (c1 c2 : List (Path × α)) (one : Bool) (i : Nat)
    (path : Path) :
    ∀ (σ : List α) (ks : List (Node α)) (a0 : Nat) (ex : α),
      (∀ a', a0 ≤ a' → ∀ k', precC c c1 k' (path ++ [a']) = precC c c2 k' (path ++ [a'])) →
      precCActs c c1 one i σ ks path a0 ex = precCActs c c2 one i σ ks path a0 ex
  | s :: σ, k :: ks, a0, ex, h => by
    rw [precCActs_cons, precCActs_cons, h a0 (le_refl _) k,
      precCActs_rest_eq c c1 c2 one i path σ ks (a0 + 1) _ (fun a' ha' => h a' (by omega))]
  | [], _, _, _, _ => by simp only [precCActs]
  | _ :: _, [], _, _, _ => by simp only [precCActs]

theorem precCActs_add_item (c : ECtx α) (c1 c2 : List (Path × α)) (one : Bool) (i : Nat)
    (path : Path) (X : List (EEv α)) (a : Nat) (k : Node α)
    (hk1 : (precC c c1 k (path ++ [a])).1 = (precC c c2 k (path ++ [a])).1)
    (hk2 : ((precC c c1 k (path ++ [a])).2 ++ X).Perm (precC c c2 k (path ++ [a])).2)
    (hother : ∀ a', a' ≠ a → ∀ k', precC c c1 k' (path ++ [a']) = precC c c2 k' (path ++ [a'])) :
    ∀ (σ : List α) (ks : List (Node α)) (a0 : Nat) (ex : α), a0 ≤ a → ks[a - a0]? = some k →
      a - a0 < σ.length →
      (precCActs c c1 one i σ ks path a0 ex).1 = (precCActs c c2 one i σ ks path a0 ex).1 ∧
      ((precCActs c c1 one i σ ks path a0 ex).2 ++ X).Perm (precCActs c c2 one i σ ks path a0 ex).2
  | [], _, a0, ex, _, _, hl => absurd hl (by simp)
  | _ :: _, [], a0, ex, _, hk, _ => by simp at hk
  | s :: σ, k0 :: ks, a0, ex, hle, hk, hl => by
    rw [precCActs_cons, precCActs_cons]
    by_cases ha : a0 = a
    · subst ha
      simp only [Nat.sub_self, List.getElem?_cons_zero, Option.some.injEq] at hk
      subst hk
      rw [hk1, precCActs_rest_eq c c1 c2 one i path σ ks (a0 + 1) _
        (fun a' ha' k' => hother a' (by omega) k')]
      exact ⟨rfl, perm_mid _ hk2⟩
    · have hlt : a0 < a := by omega
      rw [hother a0 ha k0]
      have hidx : a - a0 = (a - (a0 + 1)) + 1 := by omega
      rw [hidx, List.getElem?_cons_succ] at hk
      have hl' : a - (a0 + 1) < σ.length := by
        simp only [List.length_cons] at hl; omega
      obtain ⟨ih1, ih2⟩ := precCActs_add_item c c1 c2 one i path X a k hk1 hk2 hother σ ks
        (a0 + 1) (ex + s * (precC c c2 k0 (path ++ [a0])).1) (by omega) hk hl'
      refine ⟨ih1, ?_⟩
      rw [List.append_assoc, List.cons_append]
      exact List.Perm.append_left _ (List.Perm.cons _ ih2)

/-- **one cut node**: caching the node `m` reached on the sampled tree at path `P` (with the
value the traversal returns there) removes exactly the events of `m`'s traversal and keeps the
value — provided no cached path is a prefix or an extension of `P` -/
theorem precC_add_item (c : ECtx α) (cache : List (Path × α)) (P : Path) (v : α) {n : Node α}
    {rel : Path} {m : Node α} (h : OnT c n rel m) :
    ∀ p, P = p ++ rel → (∀ q, q <+: P → cacheGet cache q = none) →
      (∀ q, P <+: q → cacheGet cache q = none) → v = (precC c [] m P).1 →
      (precC c (cache ++ [(P, v)]) n p).1 = (precC c cache n p).1 ∧
      ((precC c (cache ++ [(P, v)]) n p).2 ++ (precC c [] m P).2).Perm (precC c cache n p).2 := by
  induction h with
  | here n =>
    intro p hP h1 h2 hv
    simp only [List.append_nil] at hP
    subst hP
    rw [precC_hit _ _ _ _ v (cacheGet_snoc_self _ _ _ (h1 P (List.prefix_refl _))),
      precC_congr c cache [] n P (fun q hq => (h2 q hq).trans (cacheGet_nil q).symm)]
    exact ⟨hv, by simp⟩
  | chance i ks k rel m hk hsub ih =>
    intro p hP h1 h2 hv
    have hne : p ≠ P := by
      rw [hP]; intro h; have := congrArg List.length h; simp at this
    have hnone : cacheGet cache p = none := h1 p (by rw [hP]; exact List.prefix_append _ _)
    have hnone' : cacheGet (cache ++ [(P, v)]) p = none := by
      rw [cacheGet_snoc_ne _ _ _ _ hne]; exact hnone
    rw [precC_chance _ _ _ _ _ hnone, precC_chance _ _ _ _ _ hnone',
      precCNth_get _ _ _ _ _ _ hk, precCNth_get _ _ _ _ _ _ hk]
    obtain ⟨i1, i2⟩ := ih (p ++ [c.oc i]) (by rw [hP]; simp) h1 h2 hv
    exact ⟨i1, by rw [List.cons_append]; exact List.Perm.cons _ i2⟩
  | own one i ks a k rel m ho ha hk hsub ih =>
    intro p hP h1 h2 hv
    have hne : p ≠ P := by
      rw [hP]; intro h; have := congrArg List.length h; simp at this
    have hnone : cacheGet cache p = none := h1 p (by rw [hP]; exact List.prefix_append _ _)
    have hnone' : cacheGet (cache ++ [(P, v)]) p = none := by
      rw [cacheGet_snoc_ne _ _ _ _ hne]; exact hnone
    rw [precC_own _ _ _ _ _ _ hnone ho, precC_own _ _ _ _ _ _ hnone' ho]
    obtain ⟨i1, i2⟩ := ih (p ++ [a]) (by rw [hP]; simp) h1 h2 hv
    have hother : ∀ a', a' ≠ a → ∀ k', precC c (cache ++ [(P, v)]) k' (p ++ [a'])
        = precC c cache k' (p ++ [a']) := by
      intro a' ha' k'
      refine precC_congr _ _ _ k' _ (fun q hq => cacheGet_snoc_ne _ _ _ _ ?_)
      intro hqP
      subst hqP
      rw [hP, List.prefix_append_right_inj, List.cons_prefix_cons] at hq
      exact ha' hq.1
    obtain ⟨j1, j2⟩ := precCActs_add_item c _ _ one i p _ a k i1 i2 hother (c.strat one i) ks 0 0
      (Nat.zero_le _) (by simpa using hk) (by simpa using ha)
    rw [j1]
    exact ⟨rfl, perm_mid _ j2⟩
  | opp one i ks k rel m ho hk hsub ih =>
    intro p hP h1 h2 hv
    have hne : p ≠ P := by
      rw [hP]; intro h; have := congrArg List.length h; simp at this
    have hnone : cacheGet cache p = none := h1 p (by rw [hP]; exact List.prefix_append _ _)
    have hnone' : cacheGet (cache ++ [(P, v)]) p = none := by
      rw [cacheGet_snoc_ne _ _ _ _ hne]; exact hnone
    rw [precC_opp _ _ _ _ _ _ hnone ho, precC_opp _ _ _ _ _ _ hnone' ho,
      precCNth_get _ _ _ _ _ _ hk, precCNth_get _ _ _ _ _ _ hk]
    obtain ⟨i1, i2⟩ := ih (p ++ [c.op i]) (by rw [hP]; simp) h1 h2 hv
    refine ⟨i1, ?_⟩
    rw [List.cons_append, List.append_assoc]
    exact (List.Perm.append_left _ i2).cons _

/-! ### a whole cut -/

/-- neither path is a prefix of the other -/
def ApartP (p q : Path) : Prop := ¬ p <+: q ∧ ¬ q <+: p

theorem ApartP.symm {p q : Path} (h : ApartP p q) : ApartP q p := ⟨h.2, h.1⟩

/-- the cache entry a task leaves for its node -/
abbrev EItem.val (c : ECtx α) (it : EItem α) : Path × α :=
  (it.path, (precC c [] it.node it.path).1)
/-- the events of a task -/
abbrev EItem.evs (c : ECtx α) (it : EItem α) : List (EEv α) := (precC c [] it.node it.path).2

/-- **decomposition along a cut**: caching all nodes of a set of pairwise unrelated nodes of the
sampled tree removes exactly the events of the traversals of these nodes, and keeps the value -/
theorem precC_add_items (c : ECtx α) (root : Node α) :
    ∀ (items : List (EItem α)) (cache0 : List (Path × α)),
      (∀ it ∈ items, OnT c root it.path it.node) →
      items.Pairwise (fun x y => ApartP x.path y.path) →
      (∀ it ∈ items, ∀ e ∈ cache0, ApartP e.1 it.path) →
      (precC c (cache0 ++ items.map (EItem.val c)) root []).1 = (precC c cache0 root []).1 ∧
      ((precC c (cache0 ++ items.map (EItem.val c)) root []).2 ++
          items.flatMap (EItem.evs c)).Perm (precC c cache0 root []).2
  | [], cache0, _, _, _ => by simp
  | x :: rest, cache0, hon, hpw, hc => by
    rw [List.map_cons, List.flatMap_cons]
    have hcache : cache0 ++ EItem.val c x :: rest.map (EItem.val c)
        = (cache0 ++ [EItem.val c x]) ++ rest.map (EItem.val c) := by simp
    rw [hcache]
    obtain ⟨hx, hrest⟩ := List.pairwise_cons.mp hpw
    obtain ⟨i1, i2⟩ := precC_add_items c root rest (cache0 ++ [EItem.val c x])
      (fun it h => hon it (List.mem_cons_of_mem _ h)) hrest (by
        intro it hit e he
        rcases List.mem_append.mp he with he | he
        · exact hc it (List.mem_cons_of_mem _ hit) e he
        · rw [List.mem_singleton] at he; subst he; exact hx it hit)
    have hxm : x ∈ x :: rest := List.mem_cons_self
    obtain ⟨a1, a2⟩ := precC_add_item c cache0 x.path (precC c [] x.node x.path).1 (hon x hxm) []
      (by simp)
      (fun q hq => (cacheGet_eq_none_iff _ _).2 fun e he heq => (hc x hxm e he).1 (heq ▸ hq))
      (fun q hq => (cacheGet_eq_none_iff _ _).2 fun e he heq => (hc x hxm e he).2 (heq ▸ hq))
      rfl
    refine ⟨i1.trans a1, ?_⟩
    have h3 : ((precC c (cache0 ++ [EItem.val c x] ++ rest.map (EItem.val c)) root []).2 ++
        (EItem.evs c x ++ rest.flatMap (EItem.evs c))).Perm
        (((precC c (cache0 ++ [EItem.val c x] ++ rest.map (EItem.val c)) root []).2 ++
          rest.flatMap (EItem.evs c)) ++ EItem.evs c x) := perm_rot _ _ _
    exact h3.trans ((i2.append_right _).trans a2)

theorem eRunTasks_cons_eq (c : ECtx α) (it : EItem α) (rest : List (EItem α)) (d : DrawSt α) :
    eRunTasks c (it :: rest) d =
      ((it.path, (erec c it.node d).1) :: (eRunTasks c rest (erec c it.node d).2.2).1,
       (erec c it.node d).2.1 ++ (eRunTasks c rest (erec c it.node d).2.2).2.1,
       (eRunTasks c rest (erec c it.node d).2.2).2.2) := by
  simp only [eRunTasks]

/-- the tasks: each runs the plain traversal of its node -/
theorem eRunTasks_pure (c : ECtx α) :
    ∀ (items : List (EItem α)) (d : DrawSt α), ECons c d →
      eRunTasks c items d = (items.map (EItem.val c), effsOf (items.flatMap (EItem.evs c)),
        d.run c (reqsOf (items.flatMap (EItem.evs c))))
  | [], d, _ => by simp [eRunTasks]
  | it :: rest, d, hd => by
    have h1 : erec c it.node d = ((precC c [] it.node it.path).1,
        effsOf (precC c [] it.node it.path).2, d.run c (reqsOf (precC c [] it.node it.path).2)) := by
      rw [← erec_eq_erecC c it.node it.path d, erecC_pure c [] it.node it.path d hd]
    rw [eRunTasks_cons_eq, h1]
    simp only
    rw [eRunTasks_pure c rest _ (hd.run _)]
    simp only [List.map_cons, List.flatMap_cons, effsOf_append, reqsOf_append, DrawSt.run_append]

/-! ### the breadth-first frontier is a cut of the sampled tree -/

theorem apart_snoc (P : Path) {a b : Nat} (h : a ≠ b) : ApartP (P ++ [a]) (P ++ [b]) := by
  constructor
  · rw [List.prefix_append_right_inj, List.cons_prefix_cons]; exact fun h' => h h'.1
  · rw [List.prefix_append_right_inj, List.cons_prefix_cons]; exact fun h' => h h'.1.symm

theorem mem_eChildren (P : Path) :
    ∀ (ks : List (Node α)) (a0 : Nat) (it : EItem α), it ∈ eChildren P ks a0 →
      ∃ j, ks[j]? = some it.node ∧ it.path = P ++ [a0 + j]
  | [], _, it, h => by simp [eChildren] at h
  | k :: ks, a0, it, h => by
    simp only [eChildren, List.mem_cons] at h
    rcases h with h | h
    · subst h; exact ⟨0, by simp, by simp⟩
    · obtain ⟨j, hj, hp⟩ := mem_eChildren P ks (a0 + 1) it h
      exact ⟨j + 1, by simpa using hj, by rw [hp]; congr 2; omega⟩

theorem eChildren_pairwise (P : Path) :
    ∀ (ks : List (Node α)) (a0 : Nat),
      (eChildren P ks a0).Pairwise (fun x y => ApartP x.path y.path)
  | [], _ => by simp [eChildren]
  | k :: ks, a0 => by
    simp only [eChildren, List.pairwise_cons]
    refine ⟨fun y hy => ?_, eChildren_pairwise P ks (a0 + 1)⟩
    obtain ⟨j, _, hp⟩ := mem_eChildren P ks (a0 + 1) y hy
    rw [hp]
    exact apart_snoc P (by omega)

/-- a set of pairwise unrelated nodes of the sampled tree of `root` -/
def ECut (c : ECtx α) (root : Node α) (l : List (EItem α)) : Prop :=
  (∀ it ∈ l, OnT c root it.path it.node) ∧ l.Pairwise (fun x y => ApartP x.path y.path)

theorem ECut.perm {c : ECtx α} {root : Node α} {l l' : List (EItem α)} (h : ECut c root l)
    (hp : l.Perm l') : ECut c root l' :=
  ⟨fun it hit => h.1 it (hp.symm.subset hit), h.2.perm hp (fun h => h.symm)⟩

theorem ECut.tail {c : ECtx α} {root : Node α} {it : EItem α} {l : List (EItem α)}
    (h : ECut c root (it :: l)) : ECut c root l :=
  ⟨fun x hx => h.1 x (List.mem_cons_of_mem _ hx), (List.pairwise_cons.mp h.2).2⟩

theorem ECut.expand {c : ECtx α} {root : Node α} {it : EItem α} {l : List (EItem α)}
    (h : ECut c root (it :: l)) {P : Path} {one : Bool} {i : Nat} {ks : List (Node α)}
    (hP : it.path <+: P) (hon : OnT c root P (.player one i ks)) (ho : (one == c.first) = true)
    (hA : ks.length ≤ (c.strat one i).length) : ECut c root (eChildren P ks 0 ++ l) := by
  obtain ⟨hit, hl⟩ := List.pairwise_cons.mp h.2
  constructor
  · intro x hx
    rcases List.mem_append.mp hx with hx | hx
    · obtain ⟨j, hj, hp⟩ := mem_eChildren P ks 0 x hx
      rw [hp, Nat.zero_add]
      have hjl : j < ks.length := (List.getElem?_eq_some_iff.mp hj).1
      exact hon.trans (OnT.own one i ks j x.node [] x.node ho (by omega) hj (OnT.here _))
    · exact h.1 x (List.mem_cons_of_mem _ hx)
  · rw [List.pairwise_append]
    refine ⟨eChildren_pairwise P ks 0, hl, fun x hx y hy => ?_⟩
    obtain ⟨j, hj, hp⟩ := mem_eChildren P ks 0 x hx
    have hity := hit y hy
    have hPx : it.path <+: x.path := by rw [hp]; exact hP.trans (List.prefix_append _ _)
    constructor
    · intro hxy; exact hity.1 (hPx.trans hxy)
    · intro hyx
      rcases List.prefix_or_prefix_of_prefix hPx hyx with h' | h'
      · exact hity.1 h'
      · exact hity.2 h'

/-- the requests made in a subtree of the sampled tree are requests of the whole traversal -/
theorem onT_req_mem (c : ECtx α) {root : Node α} {P : Path} {m : Node α} (h : OnT c root P m)
    (r : EReq) (hr : r ∈ reqsOf (precC c [] m P).2) : r ∈ reqsOf (precC c [] root []).2 := by
  obtain ⟨-, h2⟩ := precC_add_item c [] P (precC c [] m P).1 h [] (by simp)
    (fun q _ => cacheGet_nil q) (fun q _ => cacheGet_nil q) rfl
  have h3 := (List.Perm.filterMap EEv.getReq h2).subset
  apply h3
  show r ∈ reqsOf _
  rw [reqsOf_append]
  exact List.mem_append_right _ hr

theorem eNextNodes_zero (c : ECtx α) (n : Node α) (path : Path) (d : DrawSt α) :
    eNextNodes c 0 n path d = (none, d) := by
  simp only [eNextNodes]

theorem eNextNodes_term (c : ECtx α) (fuel : Nat) (p : α) (path : Path) (d : DrawSt α) :
    eNextNodes c (fuel + 1) (.term p) path d = (none, d) := by
  simp only [eNextNodes]

theorem eNextNodes_chance (c : ECtx α) (fuel : Nat) (i : Nat) (ks : List (Node α)) (path : Path)
    (d : DrawSt α) :
    eNextNodes c (fuel + 1) (.chance i ks) path d =
      match ks[(sampleChance c.draw c.chancePass (c.ch.getD i []) i d).1]? with
      | some n' => eNextNodes c fuel n'
          (path ++ [(sampleChance c.draw c.chancePass (c.ch.getD i []) i d).1])
          (sampleChance c.draw c.chancePass (c.ch.getD i []) i d).2
      | none => (none, (sampleChance c.draw c.chancePass (c.ch.getD i []) i d).2) := by
  simp only [eNextNodes]
  rfl

theorem eNextNodes_own (c : ECtx α) (fuel : Nat) (one : Bool) (i : Nat) (ks : List (Node α))
    (path : Path) (d : DrawSt α) (ho : (one == c.first) = true) :
    eNextNodes c (fuel + 1) (.player one i ks) path d = (some (eChildren path ks 0), d) := by
  simp only [eNextNodes, if_pos ho]

theorem eNextNodes_opp (c : ECtx α) (fuel : Nat) (one : Bool) (i : Nat) (ks : List (Node α))
    (path : Path) (d : DrawSt α) (ho : ¬ (one == c.first) = true) :
    eNextNodes c (fuel + 1) (.player one i ks) path d =
      match ks[(samplePlayer c.draw (if one then 1 else 2) c.playerPass (c.strat one i) i d).1]? with
      | some n' => eNextNodes c fuel n'
          (path ++ [(samplePlayer c.draw (if one then 1 else 2) c.playerPass (c.strat one i) i d).1])
          (samplePlayer c.draw (if one then 1 else 2) c.playerPass (c.strat one i) i d).2
      | none => (none, (samplePlayer c.draw (if one then 1 else 2) c.playerPass (c.strat one i) i d).2) := by
  simp only [eNextNodes, if_neg ho]
  rfl

/-- `next_nodes` walks down the sampled tree, makes only requests the plain traversal also makes,
and returns the children of a node of the updating player -/
theorem eNextNodes_spec (c : ECtx α) (root : Node α) :
    ∀ (fuel : Nat) (n : Node α) (path : Path) (d : DrawSt α), ECons c d → OnT c root path n →
      ∃ rs, (eNextNodes c fuel n path d).2 = d.run c rs ∧
        (∀ r ∈ rs, r ∈ reqsOf (precC c [] root []).2) ∧
        ∀ items, (eNextNodes c fuel n path d).1 = some items →
          ∃ P one i ks, path <+: P ∧ OnT c root P (.player one i ks) ∧
            (one == c.first) = true ∧ items = eChildren P ks 0
  | 0, n, path, d, _, _ => by
    rw [eNextNodes_zero]
    exact ⟨[], rfl, fun _ h => absurd h List.not_mem_nil, fun _ h => by simp at h⟩
  | fuel + 1, .term p, path, d, _, _ => by
    rw [eNextNodes_term]
    exact ⟨[], rfl, fun _ h => absurd h List.not_mem_nil, fun _ h => by simp at h⟩
  | fuel + 1, .chance i ks, path, d, hd, hon => by
    have hmem : EReq.ch i ∈ reqsOf (precC c [] root []).2 := by
      refine onT_req_mem c hon _ ?_
      rw [precC_chance _ _ _ _ _ (cacheGet_nil _)]
      simp
    rw [eNextNodes_chance, hd.sampleChance_fst i, DrawSt.req_ch]
    cases hk : ks[c.oc i]? with
    | none =>
      exact ⟨[.ch i], rfl, fun r h => by rw [List.mem_singleton] at h; subst h; exact hmem,
        fun _ h => by simp at h⟩
    | some n' =>
      simp only
      have hon' : OnT c root (path ++ [c.oc i]) n' :=
        hon.trans (OnT.chance i ks n' [] n' hk (OnT.here _))
      obtain ⟨rs, h1, h2, h3⟩ := eNextNodes_spec c root fuel n' (path ++ [c.oc i]) _
        (hd.req (.ch i)) hon'
      refine ⟨.ch i :: rs, h1, ?_, ?_⟩
      · intro r hr
        rcases List.mem_cons.mp hr with h | h
        · subst h; exact hmem
        · exact h2 r h
      · intro items hi
        obtain ⟨P, one, j, ks', hp, rest⟩ := h3 items hi
        exact ⟨P, one, j, ks', (List.prefix_append _ _).trans hp, rest⟩
  | fuel + 1, .player one i ks, path, d, hd, hon => by
    by_cases ho : (one == c.first) = true
    · rw [eNextNodes_own _ _ _ _ _ _ _ ho]
      refine ⟨[], rfl, fun _ h => absurd h List.not_mem_nil, fun items h => ?_⟩
      simp only [Option.some.injEq] at h
      exact ⟨path, one, i, ks, List.prefix_refl _, hon, ho, h.symm⟩
    · have hmem : EReq.pl i ∈ reqsOf (precC c [] root []).2 := by
        refine onT_req_mem c hon _ ?_
        rw [precC_opp _ _ _ _ _ _ (cacheGet_nil _) ho]
        simp
      rw [eNextNodes_opp _ _ _ _ _ _ _ ho]
      have hone := opp_eq_not_first ho
      subst hone
      rw [hd.samplePlayer_fst i, DrawSt.req_pl]
      cases hk : ks[c.op i]? with
      | none =>
        exact ⟨[.pl i], rfl, fun r h => by rw [List.mem_singleton] at h; subst h; exact hmem,
          fun _ h => by simp at h⟩
      | some n' =>
        simp only
        have hon' : OnT c root (path ++ [c.op i]) n' :=
          hon.trans (OnT.opp _ i ks n' [] n' ho hk (OnT.here _))
        obtain ⟨rs, h1, h2, h3⟩ := eNextNodes_spec c root fuel n' (path ++ [c.op i]) _
          (hd.req (.pl i)) hon'
        refine ⟨.pl i :: rs, h1, ?_, ?_⟩
        · intro r hr
          rcases List.mem_cons.mp hr with h | h
          · subst h; exact hmem
          · exact h2 r h
        · intro items hi
          obtain ⟨P, one, j, ks', hp, rest⟩ := h3 items hi
          exact ⟨P, one, j, ks', (List.prefix_append _ _).trans hp, rest⟩

theorem eThreshold_succ (c : ECtx α) (target depth fuel : Nat) (queue work : List (EItem α))
    (d : DrawSt α) :
    eThreshold c target depth (fuel + 1) queue work d =
      if (!(queue.isEmpty && work.isEmpty) && decide (queue.length + work.length < target)) = true then
        match queue.getLast? with
        | none => eThreshold c target depth fuel work queue d
        | some it =>
          match (eNextNodes c depth it.node it.path d).1 with
          | some nexts => eThreshold c target depth fuel queue.dropLast (work ++ nexts)
              (eNextNodes c depth it.node it.path d).2
          | none => eThreshold c target depth fuel queue.dropLast work
              (eNextNodes c depth it.node it.path d).2
      else (queue, work, d) := by
  rw [eThreshold]
  split_ifs with h
  · cases hq : queue.getLast? with
    | none => rfl
    | some it =>
      simp only
      rcases hN : eNextNodes c depth it.node it.path d with ⟨_ | nexts, d'⟩ <;> rfl
  · rfl

theorem EdropLast_append_getLast? {β : Type} : ∀ (l : List β) (a : β), l.getLast? = some a →
    l.dropLast ++ [a] = l
  | [], _, h => by simp at h
  | [x], a, h => by simp at h; subst h; rfl
  | x :: y :: l, a, h => by
    rw [List.getLast?_cons_cons] at h
    rw [List.dropLast_cons_cons, List.cons_append, EdropLast_append_getLast? (y :: l) a h]

/-- **the frontier is a cut**: whatever `thread_threshold` returns (for every target, depth bound
and fuel) is a set of pairwise unrelated nodes of the sampled tree, and the requests it made are
requests of the plain traversal.  `hA`: a node of the updating player has at most as many
children as its infoset has actions. -/
theorem eThreshold_spec (c : ECtx α) (root : Node α) (target depth : Nat)
    (hA : ∀ P one i ks, OnT c root P (.player one i ks) → (one == c.first) = true →
      ks.length ≤ (c.strat one i).length) :
    ∀ (fuel : Nat) (queue work : List (EItem α)) (d : DrawSt α), ECons c d →
      ECut c root (queue ++ work) →
      ∃ rs, (eThreshold c target depth fuel queue work d).2.2 = d.run c rs ∧
        (∀ r ∈ rs, r ∈ reqsOf (precC c [] root []).2) ∧
        ECut c root ((eThreshold c target depth fuel queue work d).1 ++
          (eThreshold c target depth fuel queue work d).2.1)
  | 0, queue, work, d, _, hcut => by
    simp only [eThreshold]
    exact ⟨[], rfl, fun _ h => absurd h List.not_mem_nil, hcut⟩
  | fuel + 1, queue, work, d, hd, hcut => by
    rw [eThreshold_succ]
    split_ifs with hcond
    · cases hq : queue.getLast? with
      | none =>
        simp only
        exact eThreshold_spec c root target depth hA fuel work queue d hd
          (hcut.perm List.perm_append_comm)
      | some it =>
        simp only
        have hqe := EdropLast_append_getLast? queue it hq
        have hcut' : ECut c root (it :: (queue.dropLast ++ work)) := by
          refine hcut.perm ?_
          rw [← hqe, List.append_assoc, List.dropLast_concat]
          exact List.perm_middle
        obtain ⟨rs, h1, h2, h3⟩ := eNextNodes_spec c root depth it.node it.path d hd
          (hcut'.1 it List.mem_cons_self)
        cases hN : (eNextNodes c depth it.node it.path d).1 with
        | none =>
          simp only
          rw [h1]
          obtain ⟨rs', g1, g2, g3⟩ := eThreshold_spec c root target depth hA fuel queue.dropLast
            work (d.run c rs) (hd.run rs) hcut'.tail
          refine ⟨rs ++ rs', by rw [g1, DrawSt.run_append], ?_, g3⟩
          intro r hr
          rcases List.mem_append.mp hr with h | h
          · exact h2 r h
          · exact g2 r h
        | some nexts =>
          simp only
          rw [h1]
          obtain ⟨P, one, i, ks, hP, hon, ho, hitems⟩ := h3 nexts hN
          have hcut'' : ECut c root (queue.dropLast ++ (work ++ nexts)) := by
            have := hcut'.expand hP hon ho (hA P one i ks hon ho)
            rw [← hitems] at this
            refine this.perm ?_
            rw [← List.append_assoc queue.dropLast work nexts]
            exact List.perm_append_comm
          obtain ⟨rs', g1, g2, g3⟩ := eThreshold_spec c root target depth hA fuel queue.dropLast
            (work ++ nexts) (d.run c rs) (hd.run rs) hcut''
          refine ⟨rs ++ rs', by rw [g1, DrawSt.run_append], ?_, g3⟩
          intro r hr
          rcases List.mem_append.mp hr with h | h
          · exact h2 r h
          · exact g2 r h
    · exact ⟨[], rfl, fun _ h => absurd h List.not_mem_nil, hcut⟩

theorem ECut.left {c : ECtx α} {root : Node α} {a b : List (EItem α)} (h : ECut c root (a ++ b)) :
    ECut c root a :=
  ⟨fun it hit => h.1 it (List.mem_append_left _ hit), (List.pairwise_append.mp h.2).1⟩

theorem ECut.root (c : ECtx α) (root : Node α) : ECut c root ([⟨[], root⟩] ++ []) := by
  refine ⟨fun it hit => ?_, by simp⟩
  simp only [List.append_nil, List.mem_singleton] at hit
  subst hit
  exact OnT.here root

theorem externalMultiEffects_eq (g : Game α) (c : ECtx α) (target : Nat) (log : List (DrawRec α)) :
    externalMultiEffects g c target log =
      ((eRunTasks c (eThreshold c target g.root.size (2 * g.root.size + 2) [⟨[], g.root⟩] []
            { log := log }).1
          (eThreshold c target g.root.size (2 * g.root.size + 2) [⟨[], g.root⟩] []
            { log := log }).2.2).2.1 ++
        (erecC c (eRunTasks c (eThreshold c target g.root.size (2 * g.root.size + 2) [⟨[], g.root⟩] []
            { log := log }).1
          (eThreshold c target g.root.size (2 * g.root.size + 2) [⟨[], g.root⟩] []
            { log := log }).2.2).1 g.root []
          (eRunTasks c (eThreshold c target g.root.size (2 * g.root.size + 2) [⟨[], g.root⟩] []
            { log := log }).1
          (eThreshold c target g.root.size (2 * g.root.size + 2) [⟨[], g.root⟩] []
            { log := log }).2.2).2.2).2.1,
       (erecC c (eRunTasks c (eThreshold c target g.root.size (2 * g.root.size + 2) [⟨[], g.root⟩] []
            { log := log }).1
          (eThreshold c target g.root.size (2 * g.root.size + 2) [⟨[], g.root⟩] []
            { log := log }).2.2).1 g.root []
          (eRunTasks c (eThreshold c target g.root.size (2 * g.root.size + 2) [⟨[], g.root⟩] []
            { log := log }).1
          (eThreshold c target g.root.size (2 * g.root.size + 2) [⟨[], g.root⟩] []
            { log := log }).2.2).2.2).2.2) := by
  rfl

/-- **the traversal phase of a multi-threaded pass**: its accumulations are a rearrangement of
the plain traversal's, its sample requests are those of the frontier construction (all of them
requests of the plain traversal) followed by a rearrangement of the plain traversal's -/
theorem externalMultiEffects_spec (g : Game α) (c : ECtx α) (target : Nat) (log : List (DrawRec α))
    (hA : ∀ P one i ks, OnT c g.root P (.player one i ks) → (one == c.first) = true →
      ks.length ≤ (c.strat one i).length) :
    ∃ rsT rs, (externalMultiEffects g c target log).1.Perm (effsOf (precC c [] g.root []).2) ∧
      (externalMultiEffects g c target log).2 = ({ log := log } : DrawSt α).run c (rsT ++ rs) ∧
      (∀ r ∈ rsT, r ∈ reqsOf (precC c [] g.root []).2) ∧
      rs.Perm (reqsOf (precC c [] g.root []).2) := by
  rw [externalMultiEffects_eq]
  obtain ⟨rsT, t1, t2, t3⟩ := eThreshold_spec c g.root target g.root.size hA
    (2 * g.root.size + 2) [⟨[], g.root⟩] [] { log := log } (ECons.init c log) (ECut.root c g.root)
  have hcut := t3.left
  have hd1 : ECons c (({ log := log } : DrawSt α).run c rsT) := (ECons.init c log).run rsT
  rw [t1]
  generalize (eThreshold c target g.root.size (2 * g.root.size + 2) [⟨[], g.root⟩] []
    { log := log }).1 = queue at hcut ⊢
  rw [eRunTasks_pure c queue _ hd1]
  simp only
  rw [erecC_pure c _ g.root [] _ (hd1.run _)]
  simp only
  obtain ⟨-, i2⟩ := precC_add_items c g.root queue [] hcut.1 hcut.2 (by simp)
  rw [List.nil_append] at i2
  have i3 : (queue.flatMap (EItem.evs c) ++ (precC c (queue.map (EItem.val c)) g.root []).2).Perm
      (precC c [] g.root []).2 := List.perm_append_comm.trans i2
  refine ⟨rsT, reqsOf (queue.flatMap (EItem.evs c)) ++
    reqsOf (precC c (queue.map (EItem.val c)) g.root []).2, ?_, ?_, t2, ?_⟩
  · rw [← effsOf_append]
    exact List.Perm.filterMap _ i3
  · rw [DrawSt.run_append, DrawSt.run_append]
  · rw [← reqsOf_append]
    exact List.Perm.filterMap _ i3

/-- the plain traversal in terms of the pure one -/
theorem erec_pure (c : ECtx α) (n : Node α) (d : DrawSt α) (hd : ECons c d) :
    erec c n d = ((precC c [] n []).1, effsOf (precC c [] n []).2,
      d.run c (reqsOf (precC c [] n []).2)) := by
  rw [← erec_eq_erecC c n [] d, erecC_pure c [] n [] d hd]

/-! ### the draw log -/

/-- the record a fresh request leaves in the log -/
def ECtx.recOf (c : ECtx α) : EReq → DrawRec α
  | .ch i => ⟨0, i, c.chancePass, c.ch.getD i [], c.oc i⟩
  | .pl i => ⟨if !c.first then 1 else 2, i, c.playerPass, c.strat (!c.first) i, c.op i⟩

/-- the requests served so far in this pass -/
def DrawSt.keys (d : DrawSt α) : List EReq :=
  d.chance.map (fun e => EReq.ch e.1) ++ d.player.map (fun e => EReq.pl e.1)

/-- every request served so far was logged exactly once -/
def ETr (c : ECtx α) (log0 : List (DrawRec α)) (d : DrawSt α) : Prop :=
  d.keys.Nodup ∧ d.log.Perm (d.keys.map c.recOf ++ log0)

theorem assocGet_eq_none_iff (l : List (Nat × Nat)) (i : Nat) :
    assocGet l i = none ↔ ∀ e ∈ l, e.1 ≠ i := by
  unfold assocGet
  simp [List.find?_eq_none]

theorem assocGet_some_mem (l : List (Nat × Nat)) (i k : Nat) (h : assocGet l i = some k) :
    ∃ e ∈ l, e.1 = i := by
  by_contra hne
  have hne' : ∀ e ∈ l, e.1 ≠ i := fun e he hei => hne ⟨e, he, hei⟩
  rw [(assocGet_eq_none_iff l i).2 hne'] at h
  simp at h

theorem mem_keys_ch (d : DrawSt α) (i : Nat) : EReq.ch i ∈ d.keys ↔ ∃ e ∈ d.chance, e.1 = i := by
  simp [DrawSt.keys]

theorem mem_keys_pl (d : DrawSt α) (i : Nat) : EReq.pl i ∈ d.keys ↔ ∃ e ∈ d.player, e.1 = i := by
  simp [DrawSt.keys]

theorem ETr.req {c : ECtx α} {log0 : List (DrawRec α)} {d : DrawSt α} (h : ETr c log0 d)
    (r : EReq) :
    ETr c log0 (d.req c r) ∧ ∀ r', r' ∈ (d.req c r).keys ↔ r' = r ∨ r' ∈ d.keys := by
  cases r with
  | ch i =>
    cases hc : assocGet d.chance i with
    | some k =>
      have hmem : EReq.ch i ∈ d.keys := (mem_keys_ch d i).2 (assocGet_some_mem _ _ _ hc)
      simp only [DrawSt.req, sampleChance, hc]
      refine ⟨h, fun r' => ⟨fun hr => Or.inr hr, fun hr => ?_⟩⟩
      rcases hr with hr | hr
      · subst hr; exact hmem
      · exact hr
    | none =>
      have hnot : EReq.ch i ∉ d.keys := by
        rw [mem_keys_ch]
        rintro ⟨e, he, hei⟩
        exact (assocGet_eq_none_iff _ _).1 hc e he hei
      simp only [DrawSt.req, sampleChance, hc]
      have hkeys : (DrawSt.keys (⟨(i, c.draw 0 i c.chancePass (c.ch.getD i [])) :: d.chance,
          d.player,
          ⟨0, i, c.chancePass, c.ch.getD i [], c.draw 0 i c.chancePass (c.ch.getD i [])⟩ :: d.log⟩ :
            DrawSt α))
          = EReq.ch i :: d.keys := by
        simp [DrawSt.keys]
      refine ⟨⟨?_, ?_⟩, fun r' => ?_⟩
      · rw [hkeys]; exact List.nodup_cons.mpr ⟨hnot, h.1⟩
      · rw [hkeys, List.map_cons, List.cons_append]
        exact List.Perm.cons _ h.2
      · rw [hkeys, List.mem_cons]
  | pl i =>
    cases hc : assocGet d.player i with
    | some k =>
      have hmem : EReq.pl i ∈ d.keys := (mem_keys_pl d i).2 (assocGet_some_mem _ _ _ hc)
      simp only [DrawSt.req, samplePlayer, hc]
      refine ⟨h, fun r' => ⟨fun hr => Or.inr hr, fun hr => ?_⟩⟩
      rcases hr with hr | hr
      · subst hr; exact hmem
      · exact hr
    | none =>
      have hnot : EReq.pl i ∉ d.keys := by
        rw [mem_keys_pl]
        rintro ⟨e, he, hei⟩
        exact (assocGet_eq_none_iff _ _).1 hc e he hei
      simp only [DrawSt.req, samplePlayer, hc]
      have hkeys : (DrawSt.keys (⟨d.chance,
          (i, c.draw (if !c.first then 1 else 2) i c.playerPass (c.strat (!c.first) i)) :: d.player,
          ⟨if !c.first then 1 else 2, i, c.playerPass, c.strat (!c.first) i,
            c.draw (if !c.first then 1 else 2) i c.playerPass (c.strat (!c.first) i)⟩ :: d.log⟩ :
            DrawSt α)).Perm
          (EReq.pl i :: d.keys) := by
        simp only [DrawSt.keys, List.map_cons]
        exact List.perm_middle
      refine ⟨⟨?_, ?_⟩, fun r' => ?_⟩
      · exact (hkeys.nodup_iff).mpr (List.nodup_cons.mpr ⟨hnot, h.1⟩)
      · refine List.Perm.trans ?_ ((hkeys.map c.recOf).append_right log0).symm
        rw [List.map_cons, List.cons_append]
        exact List.Perm.cons _ h.2
      · rw [hkeys.mem_iff, List.mem_cons]

theorem ETr.run {c : ECtx α} {log0 : List (DrawRec α)} {d : DrawSt α} (h : ETr c log0 d)
    (rs : List EReq) :
    ETr c log0 (d.run c rs) ∧ ∀ r', r' ∈ (d.run c rs).keys ↔ r' ∈ rs ∨ r' ∈ d.keys := by
  induction rs generalizing d with
  | nil => exact ⟨h, fun r' => by simp⟩
  | cons r rs ih =>
    obtain ⟨h1, h2⟩ := h.req r
    obtain ⟨i1, i2⟩ := ih h1
    refine ⟨i1, fun r' => ?_⟩
    rw [DrawSt.run_cons, i2, h2, List.mem_cons]
    tauto

theorem ETr.init (c : ECtx α) (log : List (DrawRec α)) : ETr c log { log := log } :=
  ⟨by simp [DrawSt.keys], by simp [DrawSt.keys]⟩

/-- two passes that serve the same set of requests (in any order, any number of times) starting
from rearranged logs end with rearranged logs -/
theorem run_log_perm (c : ECtx α) (l1 l2 : List (DrawRec α)) (hl : l1.Perm l2) (rs1 rs2 : List EReq)
    (hrs : ∀ r, r ∈ rs1 ↔ r ∈ rs2) :
    ((({ log := l1 } : DrawSt α).run c rs1).log).Perm ((({ log := l2 } : DrawSt α).run c rs2).log) := by
  obtain ⟨⟨n1, p1⟩, k1⟩ := (ETr.init c l1).run rs1
  obtain ⟨⟨n2, p2⟩, k2⟩ := (ETr.init c l2).run rs2
  have hk : (({ log := l1 } : DrawSt α).run c rs1).keys.Perm (({ log := l2 } : DrawSt α).run c rs2).keys := by
    rw [List.perm_ext_iff_of_nodup n1 n2]
    intro r
    rw [k1, k2, hrs]
    simp [DrawSt.keys]
  exact p1.trans (((hk.map c.recOf).append hl).trans p2.symm)

/-! ### one pass -/

/-- the read-only context of a pass -/
def passCtx (g : Game α) (first : Bool) (draw : DrawFn α) (it : Nat) (s : SolveSt α) : ECtx α :=
  ⟨g.chance, first, s.strat, draw, 2 * (it - 1) + (if first then 0 else 1),
    if first then it - 1 else it⟩

theorem externalPass_eq (g : Game α) (first : Bool) (p : RegretParams α) (draw : DrawFn α)
    (it : Nat) (s : SolveSt α) (log : List (DrawRec α)) :
    externalPass g first p draw it s log =
      ((s.applyEffs (erec (passCtx g first draw it s) g.root { log := log }).2.1).set first
          (advanceAll p it (if first then it - 1 else it)
            ((s.applyEffs (erec (passCtx g first draw it s) g.root { log := log }).2.1).get first) 0).1,
        (advanceAll p it (if first then it - 1 else it)
            ((s.applyEffs (erec (passCtx g first draw it s) g.root { log := log }).2.1).get first) 0).2,
        (erec (passCtx g first draw it s) g.root { log := log }).2.2.log) := by
  rfl

theorem externalMultiPassS_eq (sched : Sched α) (g : Game α) (first : Bool) (p : RegretParams α)
    (draw : DrawFn α) (target : Nat) (it : Nat) (s : SolveSt α) (log : List (DrawRec α)) :
    externalMultiPassS sched g first p draw target it s log =
      ((s.applyEffs (sched (2 * (it - 1) + (if first then 0 else 1))
          (externalMultiEffects g (passCtx g first draw it s) target log).1)).set first
          (advanceAll p it (if first then it - 1 else it)
            ((s.applyEffs (sched (2 * (it - 1) + (if first then 0 else 1))
              (externalMultiEffects g (passCtx g first draw it s) target log).1)).get first) 0).1,
        (advanceAll p it (if first then it - 1 else it)
            ((s.applyEffs (sched (2 * (it - 1) + (if first then 0 else 1))
              (externalMultiEffects g (passCtx g first draw it s) target log).1)).get first) 0).2,
        (externalMultiEffects g (passCtx g first draw it s) target log).2.log) := by
  rfl

/-- **one pass, multi = single**: same state, same bound, rearranged log — for rearranged input
logs, every task target and every fair schedule -/
theorem externalMultiPassS_same (sched : Sched α) (hs : sched.Fair) (g : Game α) (first : Bool)
    (p : RegretParams α) (draw : DrawFn α) (target : Nat) (it : Nat) (s : SolveSt α)
    (log log' : List (DrawRec α)) (hl : log.Perm log')
    (hA : ∀ P one i ks, OnT (passCtx g first draw it s) g.root P (.player one i ks) →
      (one == (passCtx g first draw it s).first) = true →
      ks.length ≤ ((passCtx g first draw it s).strat one i).length) :
    (externalMultiPassS sched g first p draw target it s log).1
        = (externalPass g first p draw it s log').1 ∧
      (externalMultiPassS sched g first p draw target it s log).2.1
        = (externalPass g first p draw it s log').2.1 ∧
      (externalMultiPassS sched g first p draw target it s log).2.2.Perm
        (externalPass g first p draw it s log').2.2 := by
  rw [externalMultiPassS_eq, externalPass_eq]
  obtain ⟨rsT, rs, e1, e2, e3, e4⟩ :=
    externalMultiEffects_spec g (passCtx g first draw it s) target log hA
  rw [erec_pure _ _ _ (ECons.init _ log')]
  have hst : s.applyEffs (sched (2 * (it - 1) + (if first then 0 else 1))
      (externalMultiEffects g (passCtx g first draw it s) target log).1)
      = s.applyEffs (effsOf (precC (passCtx g first draw it s) [] g.root []).2) :=
    SolveSt.applyEffs_perm s ((hs _ _).trans e1)
  rw [hst, e2]
  refine ⟨rfl, rfl, ?_⟩
  refine run_log_perm _ log log' hl _ _ (fun r => ?_)
  rw [List.mem_append, e4.mem_iff]
  exact ⟨fun h => h.elim (e3 r) id, Or.inr⟩

/-! ### the shape of the solver state

`eNextNodes` hands out *all* children of a node of the updating player while the traversal visits
only those with a strategy entry: the two agree when the node has as many children as its infoset
has actions (`NodeOK`) and the strategy vectors keep the length they were created with. -/

/-- every registered infoset has a state entry whose vectors have one entry per action -/
def EShape (g : Game α) (s : SolveSt α) : Prop :=
  ∀ (one : Bool) (i : Nat) (e : PInfo), (g.infos one)[i]? = some e →
    ∃ x : InfoSt α, (s.get one)[i]? = some x ∧ x.strat.length = e.actions.length ∧
      x.cumRegret.length = e.actions.length

theorem EShape.init (g : Game α) : EShape g (SolveSt.init g) := by
  intro one i e he
  cases one
  · simp only [Game.infos, Bool.false_eq_true, if_false] at he
    refine ⟨InfoSt.new e.actions.length, ?_, ?_, ?_⟩
    · simp [SolveSt.init, SolveSt.get, he]
    · simp [InfoSt.new]
    · simp [InfoSt.new]
  · simp only [Game.infos, if_true] at he
    refine ⟨InfoSt.new e.actions.length, ?_, ?_, ?_⟩
    · simp [SolveSt.init, SolveSt.get, he]
    · simp [InfoSt.new]
    · simp [InfoSt.new]

theorem SolveSt.get_set (s : SolveSt α) (o : Bool) (l : List (InfoSt α)) (one : Bool) :
    (s.set o l).get one = if one = o then l else s.get one := by
  cases o <;> cases one <;> simp [SolveSt.get, SolveSt.set]

theorem EShape.applyEff {g : Game α} {s : SolveSt α} (h : EShape g s) (e : Eff α) :
    EShape g (s.applyEff e) := by
  intro one i inf hinf
  obtain ⟨x, hx, h1, h2⟩ := h one i inf hinf
  unfold SolveSt.applyEff
  rw [SolveSt.get_set]
  split_ifs with ho
  · subst ho
    rw [List.getElem?_modify, hx]
    by_cases hi : e.info = i
    · refine ⟨x.apply e.slot e.act e.delta, by simp [hi], ?_, ?_⟩
      · cases e.slot <;> simp [InfoSt.apply, h1]
      · cases e.slot <;> simp [InfoSt.apply, addAt, h2]
    · exact ⟨x, by simp [hi], h1, h2⟩
  · exact ⟨x, hx, h1, h2⟩

theorem EShape.applyEffs {g : Game α} {s : SolveSt α} (h : EShape g s) (es : List (Eff α)) :
    EShape g (s.applyEffs es) := by
  unfold SolveSt.applyEffs
  induction es generalizing s with
  | nil => exact h
  | cons e es ih => exact ih (h.applyEff e)

theorem advanceAll_fst (p : RegretParams α) (it itAvg : Nat) :
    ∀ (l : List (InfoSt α)) (acc : α),
      (advanceAll p it itAvg l acc).1 = l.map (fun x => (x.advance p it itAvg).1)
  | [], _ => rfl
  | x :: xs, acc => by
    have := advanceAll_fst p it itAvg xs (acc + (x.advance p it itAvg).2)
    simp only [advanceAll, List.map_cons]
    exact congrArg _ this

theorem EregretMatch_length (np : Ext α) (l : List α) : (regretMatch np l).length = l.length := by
  unfold regretMatch
  simp only
  split_ifs
  · simp
  · cases np with
    | negInf => simp [oneHot]
    | posInf => simp [oneHot]
    | fin w =>
      simp only
      split_ifs <;> simp

theorem EShape.advance {g : Game α} {s : SolveSt α} (h : EShape g s) (first : Bool)
    (p : RegretParams α) (it itAvg : Nat) :
    EShape g (s.set first (advanceAll p it itAvg (s.get first) 0).1) := by
  intro one i inf hinf
  obtain ⟨x, hx, h1, h2⟩ := h one i inf hinf
  rw [SolveSt.get_set]
  split_ifs with ho
  · subst ho
    rw [advanceAll_fst, List.getElem?_map, hx]
    refine ⟨(x.advance p it itAvg).1, rfl, ?_, ?_⟩
    · simp only [InfoSt.advance, EregretMatch_length]; exact h2
    · simp only [InfoSt.advance, discountCumRegret, List.length_map]; exact h2
  · exact ⟨x, hx, h1, h2⟩

theorem EShape.pass {g : Game α} {s : SolveSt α} (h : EShape g s) (first : Bool)
    (p : RegretParams α) (draw : DrawFn α) (it : Nat) (log : List (DrawRec α)) :
    EShape g (externalPass g first p draw it s log).1 := by
  rw [externalPass_eq]
  exact (h.applyEffs _).advance first p it _

theorem nodeOKL_get (g : Game α) :
    ∀ (ks : List (Node α)) (j : Nat) (k : Node α), NodeOKL g ks → ks[j]? = some k → NodeOK g k
  | [], _, _, _, h => by simp at h
  | k0 :: ks, 0, k, hk, h => by
    simp only [List.getElem?_cons_zero, Option.some.injEq] at h
    subst h
    exact (by simpa [NodeOKL] using hk : NodeOK g k0 ∧ NodeOKL g ks).1
  | k0 :: ks, j + 1, k, hk, h => by
    simp only [List.getElem?_cons_succ] at h
    exact nodeOKL_get g ks j k (by simpa [NodeOKL] using hk : NodeOK g k0 ∧ NodeOKL g ks).2 h

theorem OnT.nodeOK {g : Game α} {c : ECtx α} {n : Node α} {P : Path} {m : Node α}
    (h : OnT c n P m) (hn : NodeOK g n) : NodeOK g m := by
  induction h with
  | here n => exact hn
  | chance i ks k rel m hk _ ih =>
    obtain ⟨-, -, hL⟩ := (by simpa [NodeOK] using hn : _ ∧ 2 ≤ ks.length ∧ NodeOKL g ks)
    exact ih (nodeOKL_get g ks _ k hL hk)
  | own one i ks a k rel m _ _ hk _ ih =>
    obtain ⟨-, -, hL⟩ := (by simpa [NodeOK] using hn : _ ∧ 2 ≤ ks.length ∧ NodeOKL g ks)
    exact ih (nodeOKL_get g ks _ k hL hk)
  | opp one i ks k rel m _ hk _ ih =>
    obtain ⟨-, -, hL⟩ := (by simpa [NodeOK] using hn : _ ∧ 2 ≤ ks.length ∧ NodeOKL g ks)
    exact ih (nodeOKL_get g ks _ k hL hk)

/-- in a well-formed game with a well-shaped state every player node has exactly one child per
strategy entry -/
theorem arity_of_shape {g : Game α} (hn : NodeOK g g.root) {s : SolveSt α} (hs : EShape g s)
    (first : Bool) (draw : DrawFn α) (it : Nat) :
    ∀ P one i ks, OnT (passCtx g first draw it s) g.root P (.player one i ks) →
      (one == (passCtx g first draw it s).first) = true →
      ks.length ≤ ((passCtx g first draw it s).strat one i).length := by
  intro P one i ks hon _
  have hk := hon.nodeOK hn
  obtain ⟨⟨e, he, hlen⟩, -, -⟩ :=
    (by simpa [NodeOK] using hk :
      (∃ e, (g.infos one)[i]? = some e ∧ e.actions.length = ks.length) ∧ 2 ≤ ks.length ∧ NodeOKL g ks)
  obtain ⟨x, hx, h1, -⟩ := hs one i e he
  show ks.length ≤ (s.strat one i).length
  unfold SolveSt.strat
  rw [hx]
  simp only
  omega

/-! ### iterations and the whole solve -/

theorem externalIter_eq (g : Game α) (p : RegretParams α) (draw : DrawFn α) (it : Nat)
    (s : SolveSt α) (log : List (DrawRec α)) :
    externalIter g p draw it s log =
      ((externalPass g false p draw it (externalPass g true p draw it s log).1
          (externalPass g true p draw it s log).2.2).1,
       (externalPass g true p draw it s log).2.1,
       (externalPass g false p draw it (externalPass g true p draw it s log).1
          (externalPass g true p draw it s log).2.2).2.1,
       (externalPass g false p draw it (externalPass g true p draw it s log).1
          (externalPass g true p draw it s log).2.2).2.2) := by
  rfl

theorem externalMultiIterS_eq (sched : Sched α) (g : Game α) (p : RegretParams α) (draw : DrawFn α)
    (target : Nat) (it : Nat) (s : SolveSt α) (log : List (DrawRec α)) :
    externalMultiIterS sched g p draw target it s log =
      ((externalMultiPassS sched g false p draw target it
          (externalMultiPassS sched g true p draw target it s log).1
          (externalMultiPassS sched g true p draw target it s log).2.2).1,
       (externalMultiPassS sched g true p draw target it s log).2.1,
       (externalMultiPassS sched g false p draw target it
          (externalMultiPassS sched g true p draw target it s log).1
          (externalMultiPassS sched g true p draw target it s log).2.2).2.1,
       (externalMultiPassS sched g false p draw target it
          (externalMultiPassS sched g true p draw target it s log).1
          (externalMultiPassS sched g true p draw target it s log).2.2).2.2) := by
  rfl

/-- **one iteration, multi = single** -/
theorem externalMultiIterS_same (sched : Sched α) (hs : sched.Fair) (g : Game α)
    (hn : NodeOK g g.root) (p : RegretParams α) (draw : DrawFn α) (target : Nat) (it : Nat)
    (s : SolveSt α) (hsh : EShape g s) (log log' : List (DrawRec α)) (hl : log.Perm log') :
    (externalMultiIterS sched g p draw target it s log).1 = (externalIter g p draw it s log').1 ∧
    (externalMultiIterS sched g p draw target it s log).2.1 = (externalIter g p draw it s log').2.1 ∧
    (externalMultiIterS sched g p draw target it s log).2.2.1
      = (externalIter g p draw it s log').2.2.1 ∧
    (externalMultiIterS sched g p draw target it s log).2.2.2.Perm
      (externalIter g p draw it s log').2.2.2 ∧
    EShape g (externalIter g p draw it s log').1 := by
  rw [externalMultiIterS_eq, externalIter_eq]
  obtain ⟨a1, a2, a3⟩ := externalMultiPassS_same sched hs g true p draw target it s log log' hl
    (arity_of_shape hn hsh true draw it)
  have hsh1 : EShape g (externalPass g true p draw it s log').1 := hsh.pass true p draw it log'
  rw [a1, a2]
  obtain ⟨b1, b2, b3⟩ := externalMultiPassS_same sched hs g false p draw target it
    (externalPass g true p draw it s log').1 _ _ a3 (arity_of_shape hn hsh1 false draw it)
  exact ⟨b1, rfl, b2, b3, hsh1.pass false p draw it _⟩

theorem EsolveLoop_succ (step : IterFn α) (thr : Option (Ext α)) (n it : Nat) (s : SolveSt α)
    (r1 r2 : Ext α) (log : List (DrawRec α)) :
    solveLoop step thr (n + 1) it s r1 r2 log =
      if belowThreshold (step it s log).2.1 (step it s log).2.2.1 thr = true then
        ⟨.fin (step it s log).2.1, .fin (step it s log).2.2.1, (step it s log).1.avg true,
          (step it s log).1.avg false, it, (step it s log).2.2.2⟩
      else solveLoop step thr n (it + 1) (step it s log).1 (.fin (step it s log).2.1)
        (.fin (step it s log).2.2.1) (step it s log).2.2.2 := by
  rw [solveLoop]

/-- two iteration functions that agree up to the order of the draw log (on states satisfying an
invariant the second one preserves) give the same solve -/
theorem EsolveLoop_same (stepM stepS : IterFn α) (thr : Option (Ext α)) (Inv : SolveSt α → Prop)
    (hstep : ∀ it s log log', Inv s → log.Perm log' →
      (stepM it s log).1 = (stepS it s log').1 ∧ (stepM it s log).2.1 = (stepS it s log').2.1 ∧
      (stepM it s log).2.2.1 = (stepS it s log').2.2.1 ∧
      (stepM it s log).2.2.2.Perm (stepS it s log').2.2.2 ∧ Inv (stepS it s log').1) :
    ∀ (n it : Nat) (s : SolveSt α) (r1 r2 : Ext α) (log log' : List (DrawRec α)), Inv s →
      log.Perm log' →
      (solveLoop stepM thr n it s r1 r2 log).Same (solveLoop stepS thr n it s r1 r2 log')
  | 0, it, s, r1, r2, log, log', _, hl => by
    simp only [solveLoop]
    exact ⟨rfl, rfl, rfl, rfl, rfl, hl⟩
  | n + 1, it, s, r1, r2, log, log', hi, hl => by
    obtain ⟨h1, h2, h3, h4, h5⟩ := hstep it s log log' hi hl
    rw [EsolveLoop_succ, EsolveLoop_succ, h1, h2, h3]
    split_ifs with hb
    · exact ⟨rfl, rfl, rfl, rfl, rfl, h4⟩
    · exact EsolveLoop_same stepM stepS thr Inv hstep n (it + 1) _ _ _ _ _ h5 h4

/-- **C07, external sampling** -/
theorem solveExternalMultiS_same (sched : Sched α) (hs : sched.Fair) (g : Game α)
    (hn : NodeOK g g.root) (p : RegretParams α) (draw : DrawFn α) (T : Nat) (thr : Option (Ext α))
    (target : Nat) :
    (solveExternalMultiS sched g p draw T thr target).Same (solveExternalSingle g p draw T thr) := by
  unfold solveExternalMultiS solveExternalSingle solveWith
  exact EsolveLoop_same _ _ thr (EShape g)
    (fun it s log log' hi hl => externalMultiIterS_same sched hs g hn p draw target it s hi log log' hl)
    T 1 _ _ _ [] [] (EShape.init g) (List.Perm.refl _)

end Cfr
