import CfrVerif.Proofs.CfrSpec
import Mathlib.Algebra.BigOperators.Group.Finset.Basic
import Mathlib.Algebra.BigOperators.Ring.Finset
/-!
# The two identities behind "the CFR bound dominates the true regret" (on a view with perfect recall)

* `perf_decomp` : the gain of any behavioural strategy `τ` over `σ` is the `τ`-reach-weighted sum
  of the instantaneous counterfactual regrets of `σ` (performance-difference lemma regrouped by
  infoset; replaces Zinkevich's Lemma 5).
* `avg_realisation` : the reach-weighted average of strategies `σ_1 … σ_T` is
  realisation-equivalent to their uniform mixture: `Σ_t evV σ_t v = T · evV σ̄ v`.
* `stratAdd_eq` : what the traversal adds to the average-strategy accumulator of infoset `I` is
  (number of nodes of `I`) × (own reach of `I`) × `σ(I, a)`.
-/
set_option linter.unusedSectionVars false
namespace Cfr
variable {α : Type} [Field α] [LinearOrder α] [IsStrictOrderedRing α]

/-- `Σ_t f σ_t` -/
def tsum (σs : List (Strat α)) (f : Strat α → α) : α := (σs.map f).sum

/-! ## helper lemmas -/

theorem tsum_nil (f : Strat α → α) : tsum [] f = 0 := by simp [tsum]
theorem tsum_cons (x : Strat α) (l : List (Strat α)) (f : Strat α → α) :
    tsum (x :: l) f = f x + tsum l f := by simp [tsum]

theorem tsum_zero (σs : List (Strat α)) : tsum σs (fun _ => (0 : α)) = 0 := by
  induction σs with
  | nil => simp [tsum_nil]
  | cons x l ih => simp only [tsum_cons, ih]; ring

theorem tsum_add (σs : List (Strat α)) (f g : Strat α → α) :
    tsum σs (fun σ => f σ + g σ) = tsum σs f + tsum σs g := by
  induction σs with
  | nil => simp [tsum_nil]
  | cons x l ih => simp only [tsum_cons, ih]; ring

theorem tsum_mul_right (σs : List (Strat α)) (f : Strat α → α) (c : α) :
    tsum σs (fun σ => f σ * c) = tsum σs f * c := by
  induction σs with
  | nil => simp [tsum_nil]
  | cons x l ih => simp only [tsum_cons, ih]; ring

theorem tsum_const_one (σs : List (Strat α)) : tsum σs (fun _ => (1 : α)) = (σs.length : α) := by
  induction σs with
  | nil => simp [tsum_nil]
  | cons x l ih => simp only [tsum_cons, ih, List.length_cons]; push_cast; ring

/-- `Σ_{a<n} p_a x_a` as a `dot` -/
theorem sum_range_dot : ∀ (p x : List α), p.length = x.length →
    ∑ a ∈ Finset.range x.length, p.getD a 0 * x.getD a 0 = dot p x
  | [], [], _ => by simp
  | [], _ :: _, h => by simp at h
  | _ :: _, [], h => by simp at h
  | q :: p, y :: x, h => by
    have ih := sum_range_dot p x (by simpa using h)
    simp only [List.length_cons, dot_cons_cons]
    rw [Finset.sum_range_succ', ← ih]
    simp [add_comm]

theorem sum_range_getD : ∀ (p : List α),
    ∑ a ∈ Finset.range p.length, p.getD a 0 = p.sum
  | [] => by simp
  | q :: p => by
    have ih := sum_range_getD p
    simp only [List.length_cons, List.sum_cons]
    rw [Finset.sum_range_succ', ← ih]
    simp [add_comm]

theorem sum_range_local (p x : List α) (c v : α) (hl : p.length = x.length) :
    ∑ a ∈ Finset.range x.length, p.getD a 0 * (c * (x.getD a 0 - v))
      = c * (dot p x - p.sum * v) := by
  rw [← sum_range_dot p x hl, ← sum_range_getD p, hl, Finset.sum_mul, ← Finset.sum_sub_distrib,
    Finset.mul_sum]
  apply Finset.sum_congr rfl
  intro a _; ring

/-- the double sum of the statement, as a functional of the regret table -/
def wsum (N : Nat) (nActs : Nat → Nat) (hist : Nat → Hist) (τ : Strat α) (f : Nat → Nat → α) : α :=
  ∑ I ∈ Finset.range N, histW τ (hist I) *
    ∑ a ∈ Finset.range (nActs I), (τ.at I).getD a 0 * f I a

theorem wsum_zero (N : Nat) (nActs : Nat → Nat) (hist : Nat → Hist) (τ : Strat α) :
    wsum N nActs hist τ (fun _ _ => 0) = 0 := by
  simp [wsum]

theorem wsum_add (N : Nat) (nActs : Nat → Nat) (hist : Nat → Hist) (τ : Strat α)
    (f g : Nat → Nat → α) :
    wsum N nActs hist τ (fun I a => f I a + g I a)
      = wsum N nActs hist τ f + wsum N nActs hist τ g := by
  simp only [wsum, mul_add, Finset.sum_add_distrib]

/-- the summand of one infoset -/
theorem wsum_single (N : Nat) (nActs : Nat → Nat) (hist : Nat → Hist) (τ : Strat α)
    (i : Nat) (hi : i < N) (g : Nat → α) :
    wsum N nActs hist τ (fun I a => if i = I then g a else 0)
      = histW τ (hist i) * ∑ a ∈ Finset.range (nActs i), (τ.at i).getD a 0 * g a := by
  unfold wsum
  rw [Finset.sum_eq_single i]
  · simp
  · intro J _ hJ
    have : ¬ i = J := fun e => hJ e.symm
    simp [this]
  · intro h; exact absurd (Finset.mem_range.mpr hi) h

mutual
theorem perfDecompV (N : Nat) (nActs : Nat → Nat) (hist : Nat → Hist) (τ σ : Strat α)
    (hτ : StratOK N nActs τ) :
    ∀ (t : V α) (H : Hist) (c : α), VOK N nActs t → PRV hist H t →
      histW τ H * (c * (evV τ t - evV σ t))
        = wsum N nActs hist τ (fun I a => regAdd σ I a t c)
  | .term u, H, c, _, _ => by simp [evV, regAdd, wsum_zero]
  | .nature ws ks, H, c, h, hp => by
    obtain ⟨_, _, hk⟩ := (by simpa [VOK] using h :
      ws.length = ks.length ∧ (∀ w ∈ ws, 0 ≤ w) ∧ VOKL N nActs ks)
    have hp' : PRVL hist H ks := by simpa [PRV] using hp
    simp only [evV, regAdd]
    exact perfDecompN N nActs hist τ σ hτ ws ks H c hk hp'
  | .decide i ks, H, c, h, hp => by
    obtain ⟨hi, hlen, _, hk⟩ := (by simpa [VOK] using h :
      i < N ∧ ks.length = nActs i ∧ 1 ≤ ks.length ∧ VOKL N nActs ks)
    obtain ⟨hH, hd⟩ := (by simpa [PRV] using hp : hist i = H ∧ PRVD hist H i 0 ks)
    obtain ⟨hτl, hτa, hτs⟩ := hτ
    have hsum : (τ.at i).sum = 1 := (hτs _ (at_mem (by omega))).2
    have hl : (τ.at i).length = (ks.map (evV σ)).length := by
      rw [hτa i hi, List.length_map, hlen]
    have rc := perfDecompD N nActs hist τ σ ⟨hτl, hτa, hτs⟩ ks H i 0 c hk hd
    rw [List.drop_zero] at rc
    simp only [evV, regAdd]
    rw [wsum_add, ← rc, wsum_single N nActs hist τ i hi, hH, evVN_eq_dot τ]
    have e1 := sum_range_local (τ.at i) (ks.map (evV σ)) c (evVN σ (σ.at i) ks) hl
    rw [List.length_map, hlen, hsum, one_mul] at e1
    rw [e1]; ring
theorem perfDecompN (N : Nat) (nActs : Nat → Nat) (hist : Nat → Hist) (τ σ : Strat α)
    (hτ : StratOK N nActs τ) :
    ∀ (ws : List α) (ks : List (V α)) (H : Hist) (c : α), VOKL N nActs ks → PRVL hist H ks →
      histW τ H * (c * (evVN τ ws ks - evVN σ ws ks))
        = wsum N nActs hist τ (fun I a => regAddN σ I a ws ks c)
  | [], ks, H, c, _, _ => by simp [evVN, regAddN, wsum_zero]
  | _ :: _, [], H, c, _, _ => by simp [evVN, regAddN, wsum_zero]
  | w :: ws, k :: ks, H, c, hk, hp => by
    obtain ⟨h1, h2⟩ := (by simpa [VOKL] using hk : VOK N nActs k ∧ VOKL N nActs ks)
    obtain ⟨p1, p2⟩ := (by simpa [PRVL] using hp : PRV hist H k ∧ PRVL hist H ks)
    have a := perfDecompV N nActs hist τ σ hτ k H (c * w) h1 p1
    have b := perfDecompN N nActs hist τ σ hτ ws ks H c h2 p2
    simp only [evVN, regAddN]
    rw [wsum_add, ← a, ← b]; ring
theorem perfDecompD (N : Nat) (nActs : Nat → Nat) (hist : Nat → Hist) (τ σ : Strat α)
    (hτ : StratOK N nActs τ) :
    ∀ (ks : List (V α)) (H : Hist) (i a : Nat) (c : α), VOKL N nActs ks → PRVD hist H i a ks →
      histW τ H * (c * (dot ((τ.at i).drop a) (ks.map (evV τ))
          - dot ((τ.at i).drop a) (ks.map (evV σ))))
        = wsum N nActs hist τ (fun I b => regAddD σ I b ks c)
  | [], H, i, a, c, _, _ => by simp [regAddD, wsum_zero]
  | k :: ks, H, i, a, c, hk, hp => by
    obtain ⟨h1, h2⟩ := (by simpa [VOKL] using hk : VOK N nActs k ∧ VOKL N nActs ks)
    obtain ⟨p1, p2⟩ := (by simpa [PRVD] using hp :
      PRV hist (H ++ [(i, a)]) k ∧ PRVD hist H i (a + 1) ks)
    have a' := perfDecompV N nActs hist τ σ hτ k (H ++ [(i, a)]) c h1 p1
    have b := perfDecompD N nActs hist τ σ hτ ks H i (a + 1) c h2 p2
    simp only [regAddD, List.map_cons, dot_drop]
    rw [wsum_add, ← a', ← b, histW_snoc]; ring
end

/-- **performance difference, regrouped by infoset** (general subtree, own history `H`, rest of
the world reaching it with `c`) -/
theorem perf_decomp_gen (N : Nat) (nActs : Nat → Nat) (hist : Nat → Hist) (τ σ : Strat α)
    (hτ : StratOK N nActs τ) (t : V α) (H : Hist) (c : α)
    (hok : VOK N nActs t) (hpr : PRV hist H t) :
    histW τ H * (c * (evV τ t - evV σ t))
      = ∑ I ∈ Finset.range N, histW τ (hist I) *
          ∑ a ∈ Finset.range (nActs I), (τ.at I).getD a 0 * regAdd σ I a t c :=
  perfDecompV N nActs hist τ σ hτ t H c hok hpr

/-- at the root -/
theorem perf_decomp (N : Nat) (nActs : Nat → Nat) (hist : Nat → Hist) (τ σ : Strat α)
    (hτ : StratOK N nActs τ) (v : V α) (hok : VOK N nActs v) (hpr : PRV hist [] v) :
    evV τ v - evV σ v
      = ∑ I ∈ Finset.range N, histW τ (hist I) *
          ∑ a ∈ Finset.range (nActs I), (τ.at I).getD a 0 * regAdd σ I a v 1 := by
  have := perf_decomp_gen N nActs hist τ σ hτ v [] 1 hok hpr
  rw [histW_nil, one_mul, one_mul] at this
  exact this

theorem mem_le_sum : ∀ (l : List α), (∀ x ∈ l, 0 ≤ x) → ∀ x ∈ l, x ≤ l.sum
  | [], _, x, hx => by simp at hx
  | y :: l, h, x, hx => by
    have hy : 0 ≤ y := h y (by simp)
    have hs : 0 ≤ l.sum := List.sum_nonneg (fun z hz => h z (by simp [hz]))
    simp only [List.sum_cons]
    rcases List.mem_cons.mp hx with rfl | hx
    · linarith
    · have := mem_le_sum l (fun z hz => h z (by simp [hz])) x hx
      linarith

theorem strat_entry_le_one {τ : Strat α} (hτ : IsStrat τ) (i a : Nat) :
    (τ.at i).getD a 0 ≤ 1 := by
  unfold Strat.at
  rw [List.getD_eq_getElem?_getD, List.getD_eq_getElem?_getD]
  by_cases hi : i < τ.length
  · have hm : τ[i] ∈ τ := List.getElem_mem hi
    by_cases ha : a < τ[i].length
    · have := mem_le_sum _ (hτ _ hm).1 _ (List.getElem_mem ha)
      rw [(hτ _ hm).2] at this
      simpa [hi, ha] using this
    · simp [hi, ha]
  · simp [hi]

/-- own reach is a probability -/
theorem histW_le_one {τ : Strat α} (hτ : IsStrat τ) (H : Hist) : histW τ H ≤ 1 := by
  induction H with
  | nil => simp
  | cons e H ih =>
    have : histW τ (e :: H) = (τ.at e.1).getD e.2 0 * histW τ H := by simp [histW]
    rw [this]
    have h0 := strat_entry_nonneg hτ e.1 e.2
    have h1 := strat_entry_le_one hτ e.1 e.2
    have h2 := histW_nonneg hτ H
    nlinarith

/-- `σbar` is the reach-weighted average of `σs` at infoset `I` (no division: if the total reach
is zero every `σbar` qualifies) -/
def AvgAt (N : Nat) (nActs : Nat → Nat) (hist : Nat → Hist) (σs : List (Strat α)) (σbar : Strat α)
    (I : Nat) : Prop :=
  (σbar.at I).length = nActs I ∧
  ∀ a, a < nActs I →
    (σbar.at I).getD a 0 * tsum σs (fun σ => histW σ (hist I))
      = tsum σs (fun σ => histW σ (hist I) * (σ.at I).getD a 0)

mutual
theorem avgRealV (N : Nat) (nActs : Nat → Nat) (hist : Nat → Hist) (σs : List (Strat α))
    (σbar : Strat α) :
    ∀ (t : V α) (H : Hist), VOK N nActs t → PRV hist H t →
      (∀ I, 0 < cntInfo I t → AvgAt N nActs hist σs σbar I) →
      tsum σs (fun σ => histW σ H * evV σ t) = tsum σs (fun σ => histW σ H) * evV σbar t
  | .term u, H, _, _, _ => by simp only [evV]; rw [tsum_mul_right]
  | .nature ws ks, H, h, hp, hb => by
    obtain ⟨_, _, hk⟩ := (by simpa [VOK] using h :
      ws.length = ks.length ∧ (∀ w ∈ ws, 0 ≤ w) ∧ VOKL N nActs ks)
    have hp' : PRVL hist H ks := by simpa [PRV] using hp
    simp only [evV]
    exact avgRealN N nActs hist σs σbar ws ks H hk hp' (fun I hI => hb I (by simpa [cntInfo] using hI))
  | .decide i ks, H, h, hp, hb => by
    obtain ⟨hi, hlen, _, hk⟩ := (by simpa [VOK] using h :
      i < N ∧ ks.length = nActs i ∧ 1 ≤ ks.length ∧ VOKL N nActs ks)
    obtain ⟨hH, hd⟩ := (by simpa [PRV] using hp : hist i = H ∧ PRVD hist H i 0 ks)
    have hav : AvgAt N nActs hist σs σbar i := hb i (by simp [cntInfo])
    have := avgRealD N nActs hist σs σbar ks H i 0 hk hd hH (by omega) hav
      (fun I hI => hb I (by simp only [cntInfo]; omega))
    simp only [List.drop_zero] at this
    simp only [evV, evVN_eq_dot]
    exact this
theorem avgRealN (N : Nat) (nActs : Nat → Nat) (hist : Nat → Hist) (σs : List (Strat α))
    (σbar : Strat α) :
    ∀ (ws : List α) (ks : List (V α)) (H : Hist), VOKL N nActs ks → PRVL hist H ks →
      (∀ I, 0 < cntInfo.cntInfoL I ks → AvgAt N nActs hist σs σbar I) →
      tsum σs (fun σ => histW σ H * evVN σ ws ks) = tsum σs (fun σ => histW σ H) * evVN σbar ws ks
  | [], ks, H, _, _, _ => by simp [evVN, tsum_zero]
  | _ :: _, [], H, _, _, _ => by simp [evVN, tsum_zero]
  | w :: ws, k :: ks, H, hk, hp, hb => by
    obtain ⟨h1, h2⟩ := (by simpa [VOKL] using hk : VOK N nActs k ∧ VOKL N nActs ks)
    obtain ⟨p1, p2⟩ := (by simpa [PRVL] using hp : PRV hist H k ∧ PRVL hist H ks)
    have a := avgRealV N nActs hist σs σbar k H h1 p1
      (fun I hI => hb I (by simp only [cntInfo.cntInfoL]; omega))
    have b := avgRealN N nActs hist σs σbar ws ks H h2 p2
      (fun I hI => hb I (by simp only [cntInfo.cntInfoL]; omega))
    simp only [evVN]
    have e : (fun σ : Strat α => histW σ H * (w * evV σ k + evVN σ ws ks))
        = (fun σ => (histW σ H * evV σ k) * w + histW σ H * evVN σ ws ks) := by
      funext σ; ring
    rw [e, tsum_add, tsum_mul_right, a, b]; ring
theorem avgRealD (N : Nat) (nActs : Nat → Nat) (hist : Nat → Hist) (σs : List (Strat α))
    (σbar : Strat α) :
    ∀ (ks : List (V α)) (H : Hist) (i a : Nat), VOKL N nActs ks → PRVD hist H i a ks →
      hist i = H → a + ks.length ≤ nActs i → AvgAt N nActs hist σs σbar i →
      (∀ I, 0 < cntInfo.cntInfoL I ks → AvgAt N nActs hist σs σbar I) →
      tsum σs (fun σ => histW σ H * dot ((σ.at i).drop a) (ks.map (evV σ)))
        = tsum σs (fun σ => histW σ H) * dot ((σbar.at i).drop a) (ks.map (evV σbar))
  | [], H, i, a, _, _, _, _, _, _ => by simp [tsum_zero]
  | k :: ks, H, i, a, hk, hp, hH, hl, hav, hb => by
    obtain ⟨h1, h2⟩ := (by simpa [VOKL] using hk : VOK N nActs k ∧ VOKL N nActs ks)
    obtain ⟨p1, p2⟩ := (by simpa [PRVD] using hp :
      PRV hist (H ++ [(i, a)]) k ∧ PRVD hist H i (a + 1) ks)
    have hl' : a + 1 + ks.length ≤ nActs i := by simp only [List.length_cons] at hl; omega
    have a' := avgRealV N nActs hist σs σbar k (H ++ [(i, a)]) h1 p1
      (fun I hI => hb I (by simp only [cntInfo.cntInfoL]; omega))
    have b := avgRealD N nActs hist σs σbar ks H i (a + 1) h2 p2 hH hl' hav
      (fun I hI => hb I (by simp only [cntInfo.cntInfoL]; omega))
    have hava := hav.2 a (by omega)
    rw [hH] at hava
    simp only [List.map_cons, dot_drop]
    have e : (fun σ : Strat α => histW σ H *
          ((σ.at i).getD a 0 * evV σ k + dot ((σ.at i).drop (a + 1)) (ks.map (evV σ))))
        = (fun σ => histW σ (H ++ [(i, a)]) * evV σ k
            + histW σ H * dot ((σ.at i).drop (a + 1)) (ks.map (evV σ))) := by
      funext σ; rw [histW_snoc]; ring
    have e2 : (fun σ : Strat α => histW σ (H ++ [(i, a)]))
        = (fun σ => histW σ H * (σ.at i).getD a 0) := by
      funext σ; rw [histW_snoc]
    rw [e, tsum_add, a', b, e2, ← hava]; ring
end

/-- **the average strategy is realisation-equivalent to the mixture of the iterates** -/
theorem avg_realisation_gen (N : Nat) (nActs : Nat → Nat) (hist : Nat → Hist)
    (σs : List (Strat α)) (hσs : ∀ σ ∈ σs, StratOK N nActs σ) (σbar : Strat α)
    (t : V α) (H : Hist) (hok : VOK N nActs t) (hpr : PRV hist H t)
    (hbar : ∀ I, 0 < cntInfo I t → AvgAt N nActs hist σs σbar I) :
    tsum σs (fun σ => histW σ H * evV σ t) = tsum σs (fun σ => histW σ H) * evV σbar t :=
  avgRealV N nActs hist σs σbar t H hok hpr hbar

/-- at the root: the sum of the iterates' values is `T` times the value of the average -/
theorem avg_realisation (N : Nat) (nActs : Nat → Nat) (hist : Nat → Hist)
    (σs : List (Strat α)) (hσs : ∀ σ ∈ σs, StratOK N nActs σ) (σbar : Strat α)
    (v : V α) (hok : VOK N nActs v) (hpr : PRV hist [] v)
    (hbar : ∀ I, 0 < cntInfo I v → AvgAt N nActs hist σs σbar I) :
    tsum σs (fun σ => evV σ v) = (σs.length : α) * evV σbar v := by
  have := avg_realisation_gen N nActs hist σs hσs σbar v [] hok hpr hbar
  simp only [histW_nil, one_mul] at this
  rw [this, tsum_const_one]

mutual
theorem stratAdd_zero (σ : Strat α) (I a : Nat) : ∀ t : V α, stratAdd σ I a t 0 = 0
  | .term _ => by simp [stratAdd]
  | .nature _ ks => by simp only [stratAdd]; exact stratAddN_zero σ I a ks
  | .decide i ks => by
    simp only [stratAdd, zero_mul, ite_self, zero_add]; exact stratAddD_zero σ I a _ ks
theorem stratAddN_zero (σ : Strat α) (I a : Nat) : ∀ ks : List (V α), stratAddN σ I a ks 0 = 0
  | [] => by simp [stratAddN]
  | k :: ks => by simp [stratAddN, stratAdd_zero σ I a k, stratAddN_zero σ I a ks]
theorem stratAddD_zero (σ : Strat α) (I a : Nat) :
    ∀ (ss : List α) (ks : List (V α)), stratAddD σ I a ss ks 0 = 0
  | [], _ => by simp [stratAddD]
  | _ :: _, [] => by simp [stratAddD]
  | s :: ss, k :: ks => by
    simp [stratAddD, stratAdd_zero σ I a k, stratAddD_zero σ I a ss ks]
end

theorem stratAddD_drop (σ : Strat α) (I a : Nat) (p : List α) (b : Nat) (k : V α)
    (ks : List (V α)) (q : α) :
    stratAddD σ I a (p.drop b) (k :: ks) q
      = stratAdd σ I a k (q * p.getD b 0) + stratAddD σ I a (p.drop (b + 1)) ks q := by
  by_cases h : b < p.length
  · rw [List.drop_eq_getElem_cons h]
    simp [stratAddD, List.getD_eq_getElem?_getD, h]
  · have h' : p.length ≤ b := not_lt.mp h
    rw [List.drop_of_length_le h', List.drop_of_length_le (by omega)]
    simp [stratAddD, List.getD_eq_getElem?_getD, h', stratAdd_zero]

mutual
theorem stratAddEqV (hist : Nat → Hist) (σ : Strat α) (I a : Nat) :
    ∀ (t : V α) (H : Hist), PRV hist H t →
      stratAdd σ I a t (histW σ H) = (cntInfo I t : α) * (histW σ (hist I) * (σ.at I).getD a 0)
  | .term _, H, _ => by simp [stratAdd, cntInfo]
  | .nature _ ks, H, hp => by
    have hp' : PRVL hist H ks := by simpa [PRV] using hp
    simp only [stratAdd, cntInfo]
    exact stratAddEqN hist σ I a ks H hp'
  | .decide i ks, H, hp => by
    obtain ⟨hH, hd⟩ := (by simpa [PRV] using hp : hist i = H ∧ PRVD hist H i 0 ks)
    have := stratAddEqD hist σ I a ks H i 0 hd
    rw [List.drop_zero] at this
    simp only [stratAdd, cntInfo]
    rw [this]
    by_cases hi : i = I
    · subst hi; rw [hH]; simp; ring
    · simp [hi]
theorem stratAddEqN (hist : Nat → Hist) (σ : Strat α) (I a : Nat) :
    ∀ (ks : List (V α)) (H : Hist), PRVL hist H ks →
      stratAddN σ I a ks (histW σ H)
        = (cntInfo.cntInfoL I ks : α) * (histW σ (hist I) * (σ.at I).getD a 0)
  | [], H, _ => by simp [stratAddN, cntInfo.cntInfoL]
  | k :: ks, H, hp => by
    obtain ⟨p1, p2⟩ := (by simpa [PRVL] using hp : PRV hist H k ∧ PRVL hist H ks)
    simp only [stratAddN, cntInfo.cntInfoL]
    rw [stratAddEqV hist σ I a k H p1, stratAddEqN hist σ I a ks H p2]; push_cast; ring
theorem stratAddEqD (hist : Nat → Hist) (σ : Strat α) (I a : Nat) :
    ∀ (ks : List (V α)) (H : Hist) (i b : Nat), PRVD hist H i b ks →
      stratAddD σ I a ((σ.at i).drop b) ks (histW σ H)
        = (cntInfo.cntInfoL I ks : α) * (histW σ (hist I) * (σ.at I).getD a 0)
  | [], H, i, b, _ => by
    cases (σ.at i).drop b <;> simp [stratAddD, cntInfo.cntInfoL]
  | k :: ks, H, i, b, hp => by
    obtain ⟨p1, p2⟩ := (by simpa [PRVD] using hp :
      PRV hist (H ++ [(i, b)]) k ∧ PRVD hist H i (b + 1) ks)
    rw [stratAddD_drop, ← histW_snoc, stratAddEqV hist σ I a k _ p1, stratAddEqD hist σ I a ks H i (b + 1) p2]
    simp only [cntInfo.cntInfoL]; push_cast; ring
end

/-- what a traversal adds to the average-strategy accumulator, in closed form -/
theorem stratAdd_eq (N : Nat) (nActs : Nat → Nat) (hist : Nat → Hist) (σ : Strat α) (I a : Nat)
    (t : V α) (H : Hist) (hok : VOK N nActs t) (hpr : PRV hist H t) :
    stratAdd σ I a t (histW σ H) = (cntInfo I t : α) * (histW σ (hist I) * (σ.at I).getD a 0) :=
  stratAddEqV hist σ I a t H hpr

mutual
theorem cntInfo_view' (ch : List (List α)) (σo σo' : Strat α) (me : Bool) (I : Nat) :
    ∀ n : Node α, cntInfo I (view ch σo me n) = cntInfo I (view ch σo' me n)
  | .term _ => by simp [view, cntInfo]
  | .chance i ks => by
    simp only [view, cntInfo]; exact cntInfoL_view ch σo σo' me I ks
  | .player one i ks => by
    simp only [view]
    split
    · simp only [cntInfo]; rw [cntInfoL_view ch σo σo' me I ks]
    · simp only [cntInfo]; exact cntInfoL_view ch σo σo' me I ks
theorem cntInfoL_view (ch : List (List α)) (σo σo' : Strat α) (me : Bool) (I : Nat) :
    ∀ ks : List (Node α),
      cntInfo.cntInfoL I (viewL ch σo me ks) = cntInfo.cntInfoL I (viewL ch σo' me ks)
  | [] => by simp [viewL]
  | k :: ks => by
    simp only [viewL, cntInfo.cntInfoL]
    rw [cntInfo_view' ch σo σo' me I k, cntInfoL_view ch σo σo' me I ks]
end

/-- the number of nodes of an infoset does not depend on the opponent's strategy -/
theorem cntInfo_view (ch : List (List α)) (σo σo' : Strat α) (me : Bool) (I : Nat) (n : Node α) :
    cntInfo I (view ch σo me n) = cntInfo I (view ch σo' me n) :=
  cntInfo_view' ch σo σo' me I n

/-- a convex combination of a regret vector is at most the clamped maximum the solver reports -/
theorem dot_le_clamped_max (p R : List α) (hp : IsDist p) (hl : p.length = R.length) :
    dot p R ≤ fmax (maxD 0 R) 0 := by
  rw [fmax_eq_max]
  cases R with
  | nil => simp
  | cons x xs =>
    obtain ⟨_, h2⟩ := foldl_fmax_mem_le xs x
    have := dot_le_sum_mul (xs.foldl fmax x) p (x :: xs) hp.1 h2 hl
    rw [hp.2, one_mul] at this
    exact le_trans this (le_max_left _ _)

end Cfr
