import CfrVerif.Proofs.CfrSpec
import Mathlib.Algebra.BigOperators.Group.Finset.Basic
import Mathlib.Algebra.BigOperators.Ring.Finset
/-!
# The two identities behind "the CFR bound dominates the true regret" (on a view with perfect recall)

* `perf_decomp` : the gain of any behavioural strategy `τ` over `σ` is the `τ`-reach-weighted sum
  of the instantaneous counterfactual regrets of `σ` (performance-difference lemma regrouped by
  infoset; replaces Zinkevich's Lemma 5).
* `avg_realisation` : the reach-weighted average of strategies `σ_1 … σ_T` is
  realisation-equivalent to their uniform mixture: `Σ_t evV σ_t v = T · evV σ̄ v`.
* `stratAdd_eq` : what the traversal adds to the average-strategy accumulator of infoset `I` is
  (number of nodes of `I`) × (own reach of `I`) × `σ(I, a)`.
-/
set_option linter.unusedSectionVars false
namespace Cfr
variable {α : Type} [Field α] [LinearOrder α] [IsStrictOrderedRing α]

/-- `Σ_t f σ_t` -/
def tsum (σs : List (Strat α)) (f : Strat α → α) : α := (σs.map f).sum

/-- **performance difference, regrouped by infoset** (general subtree, own history `H`, rest of
the world reaching it with `c`) -/
theorem perf_decomp_gen (N : Nat) (nActs : Nat → Nat) (hist : Nat → Hist) (τ σ : Strat α)
    (hτ : StratOK N nActs τ) (t : V α) (H : Hist) (c : α)
    (hok : VOK N nActs t) (hpr : PRV hist H t) :
    histW τ H * (c * (evV τ t - evV σ t))
      = ∑ I ∈ Finset.range N, histW τ (hist I) *
          ∑ a ∈ Finset.range (nActs I), (τ.at I).getD a 0 * regAdd σ I a t c := by
  sorry

/-- at the root -/
theorem perf_decomp (N : Nat) (nActs : Nat → Nat) (hist : Nat → Hist) (τ σ : Strat α)
    (hτ : StratOK N nActs τ) (v : V α) (hok : VOK N nActs v) (hpr : PRV hist [] v) :
    evV τ v - evV σ v
      = ∑ I ∈ Finset.range N, histW τ (hist I) *
          ∑ a ∈ Finset.range (nActs I), (τ.at I).getD a 0 * regAdd σ I a v 1 := by
  sorry

/-- own reach is a probability -/
theorem histW_le_one {τ : Strat α} (hτ : IsStrat τ) (H : Hist) : histW τ H ≤ 1 := by
  sorry

/-- `σbar` is the reach-weighted average of `σs` at infoset `I` (no division: if the total reach
is zero every `σbar` qualifies) -/
def AvgAt (N : Nat) (nActs : Nat → Nat) (hist : Nat → Hist) (σs : List (Strat α)) (σbar : Strat α)
    (I : Nat) : Prop :=
  (σbar.at I).length = nActs I ∧
  ∀ a, a < nActs I →
    (σbar.at I).getD a 0 * tsum σs (fun σ => histW σ (hist I))
      = tsum σs (fun σ => histW σ (hist I) * (σ.at I).getD a 0)

/-- **the average strategy is realisation-equivalent to the mixture of the iterates** -/
theorem avg_realisation_gen (N : Nat) (nActs : Nat → Nat) (hist : Nat → Hist)
    (σs : List (Strat α)) (hσs : ∀ σ ∈ σs, StratOK N nActs σ) (σbar : Strat α)
    (t : V α) (H : Hist) (hok : VOK N nActs t) (hpr : PRV hist H t)
    (hbar : ∀ I, 0 < cntInfo I t → AvgAt N nActs hist σs σbar I) :
    tsum σs (fun σ => histW σ H * evV σ t) = tsum σs (fun σ => histW σ H) * evV σbar t := by
  sorry

/-- at the root: the sum of the iterates' values is `T` times the value of the average -/
theorem avg_realisation (N : Nat) (nActs : Nat → Nat) (hist : Nat → Hist)
    (σs : List (Strat α)) (hσs : ∀ σ ∈ σs, StratOK N nActs σ) (σbar : Strat α)
    (v : V α) (hok : VOK N nActs v) (hpr : PRV hist [] v)
    (hbar : ∀ I, 0 < cntInfo I v → AvgAt N nActs hist σs σbar I) :
    tsum σs (fun σ => evV σ v) = (σs.length : α) * evV σbar v := by
  sorry

/-- what a traversal adds to the average-strategy accumulator, in closed form -/
theorem stratAdd_eq (N : Nat) (nActs : Nat → Nat) (hist : Nat → Hist) (σ : Strat α) (I a : Nat)
    (t : V α) (H : Hist) (hok : VOK N nActs t) (hpr : PRV hist H t) :
    stratAdd σ I a t (histW σ H) = (cntInfo I t : α) * (histW σ (hist I) * (σ.at I).getD a 0) := by
  sorry

/-- the number of nodes of an infoset does not depend on the opponent's strategy -/
theorem cntInfo_view (ch : List (List α)) (σo σo' : Strat α) (me : Bool) (I : Nat) (n : Node α) :
    cntInfo I (view ch σo me n) = cntInfo I (view ch σo' me n) := by
  sorry

/-- a convex combination of a regret vector is at most the clamped maximum the solver reports -/
theorem dot_le_clamped_max (p R : List α) (hp : IsDist p) (hl : p.length = R.length) :
    dot p R ≤ fmax (maxD 0 R) 0 := by
  sorry

end Cfr
