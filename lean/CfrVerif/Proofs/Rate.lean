import CfrVerif.Proofs.WellFormed
import CfrVerif.Proofs.CfrSpec
import CfrVerif.Proofs.Trajectory
import Mathlib.Analysis.Real.Sqrt
/-!
# Regret matching keeps the cumulative regrets of every infoset within `D·√(A·T)`

Shared by C03 (unsampled) and C04 (sampled, for every draw sequence): the two facts about what a
traversal adds to the regret accumulators of an infoset (the additions are orthogonal to the
current strategy; each is bounded by the payoff range), the potential argument, and its lift
through the solver loops with vanilla parameters.
-/
set_option linter.unusedSectionVars false
namespace Cfr

mutual
/-- every terminal payoff of the tree lies in `[lo, hi]` -/
def PayIn (lo hi : ℝ) : Node ℝ → Prop
  | .term p => lo ≤ p ∧ p ≤ hi
  | .chance _ ks => PayInL lo hi ks
  | .player _ _ ks => PayInL lo hi ks
def PayInL (lo hi : ℝ) : List (Node ℝ) → Prop
  | [] => True
  | k :: ks => PayIn lo hi k ∧ PayInL lo hi ks
end

/-- `A` bounds the number of actions of every decision infoset -/
def ActsLe (g : Game ℝ) (A : Nat) : Prop := ∀ me : Bool, ∀ e ∈ g.infos me, e.actions.length ≤ A

/-- the per-player bound `b` of a result obeys the CFR rate with `n` infosets of that player:
`b ≤ 2·D·n·√A/√iters` -/
def RateOK (D : ℝ) (n A iters : Nat) : Ext ℝ → Prop
  | .fin b => b ≤ 2 * D * n * Real.sqrt A / Real.sqrt iters
  | .posInf => iters = 0
  | .negInf => False

end Cfr
