import CfrVerif.Model.Cli
import CfrVerif.Proofs.RawSem
import CfrVerif.Proofs.RealInst
/-!
# The game exactly as written in a Gambit file

`efgEV gi ρ who` is the expected *cumulative* payoff of player `who` on the file's tree: every
outcome met on the path (interior nodes included) pays, chance moves follow the file's
probabilities, decisions follow the labelled profile `ρ` (infosets by their resolved names,
actions by their labels).  It never mentions the constant-sum offset.
-/
set_option linter.unusedSectionVars false
namespace Cfr
variable {α : Type} [Field α] [LinearOrder α] [IsStrictOrderedRing α]

/-- the payoff pair of an outcome in the file's outcome table (`(0, 0)` for the null outcome) -/
def outcomePair (tbl : List (Nat × (α × α))) (oc : Nat) : α × α :=
  if oc = 0 then (0, 0) else (assocFind tbl oc).getD (0, 0)

mutual
/-- expected cumulative payoff of player `who` (`true` = player one) below a node, given what
the path has paid so far -/
def efgEV (tbl : List (Nat × (α × α))) (names : Bool → List (Nat × Nat)) (ρ : LProfile α)
    (who : Bool) : Efg α → α → α
  | .term oc _, cum => cum + (if who then (outcomePair tbl oc).1 else (outcomePair tbl oc).2)
  | .chance _ _ probs kids oc _, cum =>
    efgEVC tbl names ρ who probs.sum probs kids
      (cum + (if who then (outcomePair tbl oc).1 else (outcomePair tbl oc).2))
  | .player num info _ acts kids oc _, cum =>
    efgEVP tbl names ρ who (num == 1) ((assocFind (names (num == 1)) info).getD 0) acts kids
      (cum + (if who then (outcomePair tbl oc).1 else (outcomePair tbl oc).2))
def efgEVC (tbl : List (Nat × (α × α))) (names : Bool → List (Nat × Nat)) (ρ : LProfile α)
    (who : Bool) (total : α) : List α → List (Efg α) → α → α
  | p :: ps, k :: ks, cum =>
    p / total * efgEV tbl names ρ who k cum + efgEVC tbl names ρ who total ps ks cum
  | _, _, _ => 0
def efgEVP (tbl : List (Nat × (α × α))) (names : Bool → List (Nat × Nat)) (ρ : LProfile α)
    (who : Bool) (one : Bool) (label : Nat) : List Nat → List (Efg α) → α → α
  | a :: as, k :: ks, cum =>
    ρ one label a * efgEV tbl names ρ who k cum + efgEVP tbl names ρ who one label as ks cum
  | _, _, _ => 0
end

/-- the file is constant-sum `K` exactly: on every root-to-leaf path the two cumulative payoffs
add up to `K` -/
def ExactConstantSum (tbl : List (Nat × (α × α))) (root : Efg α) (K : α) : Prop :=
  ∀ ls, Efg.leaves tbl root (0, 0) = .ok ls → ∀ c ∈ ls, c.1 + c.2 = K

end Cfr
