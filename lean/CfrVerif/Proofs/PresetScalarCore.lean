import CfrVerif.Proofs.PresetSpec
import Mathlib.Analysis.Convex.SpecificFunctions.Basic
/-!
# Scalar core of the discounted-preset analysis

Abstract (function-level) versions of the potential argument with discounting, the bound of the
negative side, and the Abel summation of the weighted regrets against the stored regrets.
-/
set_option linter.unusedSectionVars false
namespace Cfr.PS
open Finset

/-! ## the discount rule on one entry -/

/-- the entrywise discount: positive entries times `p`, negative entries times `n` -/
noncomputable def disc (p n x : ℝ) : ℝ := if 0 < x then x * p else if x < 0 then x * n else x

theorem disc_pos_le (p n x : ℝ) (hp0 : 0 ≤ p) (hp1 : p ≤ 1) (hn0 : 0 ≤ n) :
    max (disc p n x) 0 ≤ max x 0 := by
  unfold disc
  split_ifs with h1 h2
  · rw [max_eq_left h1.le, max_eq_left (mul_nonneg h1.le hp0)]
    nlinarith
  · rw [max_eq_right h2.le, max_eq_right (by nlinarith)]
  · exact le_refl _

/-- the negative part after discounting is `n` times the negative part before -/
theorem disc_neg_le (p n x : ℝ) (hp0 : 0 ≤ p) (hn0 : 0 ≤ n) :
    -(disc p n x) ≤ n * max (-x) 0 := by
  unfold disc
  split_ifs with h1 h2
  · have : 0 ≤ n * max (-x) 0 := mul_nonneg hn0 (le_max_right _ _)
    nlinarith
  · rw [max_eq_left (by linarith)]
    linarith
  · have hx : x = 0 := le_antisymm (not_lt.mp h1) (not_lt.mp h2)
    subst hx
    simp

/-! ## list boundary -/

theorem getD_vadd (x y : List ℝ) (a : ℕ) (hx : a < x.length) (hy : a < y.length) :
    (vadd x y).getD a 0 = x.getD a 0 + y.getD a 0 := by
  simp [vadd, List.getD_eq_getElem?_getD, hx, hy]

theorem length_vadd (x y : List ℝ) : (vadd x y).length = min x.length y.length := by
  simp [vadd]

theorem getD_discount (p : RegretParams ℝ) (t : ℕ) (v : List ℝ) (a : ℕ) (ha : a < v.length) :
    (discountCumRegret p t v).getD a 0
      = disc (genDiscount t p.posRegret) (genDiscount t p.negRegret) (v.getD a 0) := by
  have h := discountCumRegret_entry p t v a v[a] (by simp [ha])
  rw [List.getD_eq_getElem?_getD, h, List.getD_eq_getElem?_getD]
  simp [ha, disc]

theorem dot_eq_sum : ∀ (x y : List ℝ), x.length = y.length →
    dot x y = ∑ a ∈ range x.length, x.getD a 0 * y.getD a 0
  | [], _, _ => by simp
  | _ :: _, [], h => by simp at h
  | p :: ps, q :: qs, h => by
    have ih := dot_eq_sum ps qs (by simpa using h)
    rw [dot_cons_cons, List.length_cons, Finset.sum_range_succ', ih]
    simp only [List.getD_cons_succ, List.getD_cons_zero]
    ring

theorem getD_replicate_zero (n a : ℕ) : (List.replicate n (0 : ℝ)).getD a 0 = 0 := by
  rw [List.getD_eq_getElem?_getD]
  by_cases h : a < n <;> simp [h]

theorem list_sum_range_map (f : ℕ → ℝ) (T : ℕ) :
    ((List.range T).map f).sum = ∑ t ∈ range T, f t := by
  induction T with
  | zero => simp
  | succ T ih => rw [List.range_succ, List.map_append, List.sum_append, ih, Finset.sum_range_succ]; simp

/-! ## the potential argument with discounting -/

theorem pot_step (n : ℕ) (D : ℝ) (x δ : ℕ → ℝ)
    (horth : ∑ a ∈ range n, max (x a) 0 * δ a = 0) (hbd : ∀ a, a < n → |δ a| ≤ D) :
    ∑ a ∈ range n, (max (x a + δ a) 0) ^ 2 ≤ ∑ a ∈ range n, (max (x a) 0) ^ 2 + n * D ^ 2 := by
  have h1 : ∑ a ∈ range n, (max (x a + δ a) 0) ^ 2 ≤ ∑ a ∈ range n,
      ((max (x a) 0) ^ 2 + 2 * (max (x a) 0 * δ a) + D ^ 2) := by
    apply Finset.sum_le_sum
    intro a ha
    have ha' := Finset.mem_range.mp ha
    have hb := abs_le.mp (hbd a ha')
    have := pos_step (x a) (δ a)
    nlinarith [mul_nonneg (sub_nonneg.mpr hb.2) (by linarith [hb.1] : 0 ≤ D + δ a)]
  rw [Finset.sum_add_distrib, Finset.sum_add_distrib, ← Finset.mul_sum, horth, Finset.sum_const,
    Finset.card_range, nsmul_eq_mul] at h1
  linarith

/-- the potential of the stored regrets and of the pre-discount regrets grows by at most `n·D²`
per iteration -/
theorem potential (n T : ℕ) (D : ℝ) (q ρ : ℕ → ℕ → ℝ)
    (h0 : ∀ a, a < n → q 0 a = 0)
    (hpos : ∀ t, 1 ≤ t → t ≤ T → ∀ a, a < n →
      max (q t a) 0 ≤ max (q (t - 1) a + ρ t a) 0)
    (horth : ∀ t, 1 ≤ t → t ≤ T → ∑ a ∈ range n, max (q (t - 1) a) 0 * ρ t a = 0)
    (hbd : ∀ t, 1 ≤ t → t ≤ T → ∀ a, a < n → |ρ t a| ≤ D) :
    ∀ t, t ≤ T → ∑ a ∈ range n, (max (q t a) 0) ^ 2 ≤ t * n * D ^ 2 ∧
      (1 ≤ t → ∑ a ∈ range n, (max (q (t - 1) a + ρ t a) 0) ^ 2 ≤ t * n * D ^ 2) := by
  intro t
  induction t with
  | zero =>
    intro _
    refine ⟨?_, fun h => absurd h (by omega)⟩
    rw [Finset.sum_eq_zero]
    · simp
    · intro a ha
      rw [h0 a (Finset.mem_range.mp ha)]; simp
  | succ t ih =>
    intro ht
    have ih1 := (ih (by omega)).1
    have hs := pot_step n D (q t) (ρ (t + 1)) (horth (t + 1) (by omega) ht)
      (hbd (t + 1) (by omega) ht)
    have h2 : ∑ a ∈ range n, (max (q t a + ρ (t + 1) a) 0) ^ 2 ≤ ((t + 1 : ℕ) : ℝ) * n * D ^ 2 := by
      push_cast
      nlinarith
    refine ⟨le_trans ?_ h2, fun _ => h2⟩
    apply Finset.sum_le_sum
    intro a ha
    have := hpos (t + 1) (by omega) ht a (Finset.mem_range.mp ha)
    simp only [Nat.add_sub_cancel] at this
    exact pow_le_pow_left₀ (le_max_right _ _) this 2

/-- the positive part of one pre-discount regret is at most `D·√(n·t)` -/
theorem pos_le_of_potential (n : ℕ) (D : ℝ) (hD : 0 ≤ D) (t : ℕ) (y : ℕ → ℝ) (a : ℕ) (ha : a < n)
    (h : ∑ a ∈ range n, (max (y a) 0) ^ 2 ≤ t * n * D ^ 2) :
    max (y a) 0 ≤ D * Real.sqrt (n * t) := by
  have h1 : (max (y a) 0) ^ 2 ≤ t * n * D ^ 2 :=
    le_trans (Finset.single_le_sum (f := fun a => (max (y a) 0) ^ 2) (fun _ _ => sq_nonneg _)
      (Finset.mem_range.mpr ha)) h
  have h2 : D * Real.sqrt (n * t) = Real.sqrt (t * n * D ^ 2) := by
    rw [Real.sqrt_mul (by positivity : (0 : ℝ) ≤ (t : ℝ) * n), Real.sqrt_sq hD, mul_comm (t : ℝ) n,
      mul_comm]
  rw [h2]
  exact Real.le_sqrt_of_sq_le h1

/-! ## Abel summation against the stored regrets -/

/-- the coefficient with which the negative part of the pre-discount regret of iteration `t`
enters -/
noncomputable def kap (w nn : ℕ → ℝ) (t : ℕ) : ℝ := max 0 (w (t + 1) * nn t - w t)

theorem abel_step (wt wt1 p n y : ℝ) (hH1 : wt ≤ wt1 * p) :
    wt * y - wt1 * disc p n y ≤ max 0 (wt1 * n - wt) * max (-y) 0 := by
  unfold disc
  have hk0 : 0 ≤ max 0 (wt1 * n - wt) := le_max_left _ _
  have hk1 : wt1 * n - wt ≤ max 0 (wt1 * n - wt) := le_max_right _ _
  split_ifs with h1 h2
  · have : 0 ≤ max 0 (wt1 * n - wt) * max (-y) 0 := mul_nonneg hk0 (le_max_right _ _)
    nlinarith
  · rw [max_eq_left (by linarith : 0 ≤ -y)]
    nlinarith
  · have hy : y = 0 := le_antisymm (not_lt.mp h1) (not_lt.mp h2)
    subst hy
    simp

theorem abel (T : ℕ) (x y ρ w pp nn : ℕ → ℝ) (hx0 : x 0 = 0)
    (hy : ∀ t, 1 ≤ t → t ≤ T → y t = x (t - 1) + ρ t)
    (hx : ∀ t, 1 ≤ t → t ≤ T → x t = disc (pp t) (nn t) (y t))
    (hH1 : ∀ t, 1 ≤ t → t < T → w t ≤ w (t + 1) * pp t)
    (hwT : 0 ≤ w T) :
    ∑ t ∈ range T, w (t + 1) * ρ (t + 1)
      ≤ w T * max (y T) 0 + ∑ t ∈ range (T - 1), kap w nn (t + 1) * max (-(y (t + 1))) 0 := by
  have J : ∀ N, N + 1 ≤ T → ∑ t ∈ range N, w (t + 1) * ρ (t + 1) - w (N + 1) * x N
      ≤ ∑ t ∈ range N, kap w nn (t + 1) * max (-(y (t + 1))) 0 := by
    intro N
    induction N with
    | zero => intro _; simp [hx0]
    | succ N ih =>
      intro hN
      have ih' := ih (by omega)
      rw [Finset.sum_range_succ, Finset.sum_range_succ]
      have e1 := hy (N + 1) (by omega) (by omega)
      have e2 := hx (N + 1) (by omega) (by omega)
      simp only [Nat.add_sub_cancel] at e1
      have st : w (N + 1) * y (N + 1) - w (N + 1 + 1) * disc (pp (N + 1)) (nn (N + 1)) (y (N + 1))
          ≤ kap w nn (N + 1) * max (-(y (N + 1))) 0 :=
        abel_step (w (N + 1)) (w (N + 1 + 1)) (pp (N + 1)) (nn (N + 1)) (y (N + 1))
          (hH1 (N + 1) (by omega) (by omega))
      rw [← e2] at st
      have e3 : ρ (N + 1) = y (N + 1) - x N := by linarith
      rw [e3]
      nlinarith
  rcases Nat.eq_zero_or_pos T with h | h
  · subst h
    simp only [range_zero, sum_empty]
    have : 0 ≤ w 0 * max (y 0) 0 := mul_nonneg hwT (le_max_right _ _)
    simpa using this
  · obtain ⟨N, rfl⟩ : ∃ N, T = N + 1 := ⟨T - 1, by omega⟩
    have hJ := J N (le_refl _)
    have e1 := hy (N + 1) (by omega) (le_refl _)
    simp only [Nat.add_sub_cancel] at e1 ⊢
    rw [Finset.sum_range_succ]
    have e3 : ρ (N + 1) = y (N + 1) - x N := by linarith
    rw [e3]
    have : w (N + 1) * y (N + 1) ≤ w (N + 1) * max (y (N + 1)) 0 :=
      mul_le_mul_of_nonneg_left (le_max_left _ _) hwT
    linarith

/-- a termwise bounded sum whose bounds vanish from `k` on -/
theorem sum_le_of_eventually_zero (f c : ℕ → ℝ) (N k : ℕ) (hf : ∀ t, t < N → f t ≤ c t)
    (hc0 : ∀ t, 0 ≤ c t) (hck : ∀ t, k ≤ t → c t = 0) :
    ∑ t ∈ range N, f t ≤ ∑ t ∈ range k, c t := by
  refine le_trans (Finset.sum_le_sum (fun t ht => hf t (Finset.mem_range.mp ht))) ?_
  rcases le_total N k with h | h
  · exact Finset.sum_le_sum_of_subset_of_nonneg (Finset.range_mono h) (fun t _ _ => hc0 t)
  · rw [← Finset.sum_range_add_sum_Ico _ h]
    rw [Finset.sum_eq_zero (s := Ico k N) (fun t ht => hck t (Finset.mem_Ico.mp ht).1)]
    simp

/-- the negative part of the pre-discount regrets: `m_t ≤ n_{t-1}·m_{t-1} + D` -/
theorem neg_step (T : ℕ) (D : ℝ) (x y ρ pp nn : ℕ → ℝ) (hx0 : x 0 = 0)
    (hy : ∀ t, 1 ≤ t → t ≤ T → y t = x (t - 1) + ρ t)
    (hx : ∀ t, 1 ≤ t → t ≤ T → x t = disc (pp t) (nn t) (y t))
    (hρ : ∀ t, 1 ≤ t → t ≤ T → |ρ t| ≤ D)
    (hpp : ∀ t, 1 ≤ t → t ≤ T → 0 ≤ pp t) (hnn : ∀ t, 1 ≤ t → t ≤ T → 0 ≤ nn t) :
    (1 ≤ T → max (-(y 1)) 0 ≤ D) ∧
    ∀ t, 1 ≤ t → t + 1 ≤ T → max (-(y (t + 1))) 0 ≤ nn t * max (-(y t)) 0 + D := by
  constructor
  · intro hT
    have e := hy 1 (le_refl _) hT
    have hb := abs_le.mp (hρ 1 (le_refl _) hT)
    simp only [Nat.sub_self, hx0, zero_add] at e
    rw [e]
    exact max_le (by linarith) (by linarith)
  · intro t ht htT
    have e := hy (t + 1) (by omega) htT
    have hb := abs_le.mp (hρ (t + 1) (by omega) htT)
    simp only [Nat.add_sub_cancel] at e
    have h1 := disc_neg_le (pp t) (nn t) (y t) (hpp t ht (by omega)) (hnn t ht (by omega))
    rw [← hx t ht (by omega)] at h1
    have h2 : 0 ≤ nn t * max (-(y t)) 0 := mul_nonneg (hnn t ht (by omega)) (le_max_right _ _)
    rw [e]
    exact max_le (by linarith) (by linarith)

/-! ## from a trace to the scalar statements -/

section trace
variable {p : RegretParams ℝ} {n : ℕ} {D : ℝ} {T : ℕ}

/-- the pre-discount cumulative regret of action `a` in iteration `t` -/
noncomputable def ypre (tr : RMTrace p n D T) (a t : ℕ) : ℝ :=
  (tr.Q (t - 1)).getD a 0 + (tr.r t).getD a 0

/-- the weights `t^γ` -/
noncomputable def wgt (γ : ℝ) (t : ℕ) : ℝ := (t : ℝ) ^ γ

theorem wgt_nonneg (γ : ℝ) (t : ℕ) : 0 ≤ wgt γ t := Real.rpow_nonneg (Nat.cast_nonneg t) γ

theorem trace_entry (tr : RMTrace p n D T) (t : ℕ) (h1 : 1 ≤ t) (hT : t ≤ T) (a : ℕ) (ha : a < n) :
    (tr.Q t).getD a 0
      = disc (genDiscount t p.posRegret) (genDiscount t p.negRegret) (ypre tr a t) := by
  have hl1 : a < (tr.Q (t - 1)).length := by rw [tr.hQ]; exact ha
  have hl2 : a < (tr.r t).length := by rw [tr.hr]; exact ha
  rw [tr.hstep t h1 hT, getD_discount _ _ _ _ (by rw [length_vadd]; exact lt_min hl1 hl2),
    getD_vadd _ _ _ hl1 hl2]
  rfl

theorem trace_bnd (tr : RMTrace p n D T) (t : ℕ) (h1 : 1 ≤ t) (hT : t ≤ T) (a : ℕ) (ha : a < n) :
    |(tr.r t).getD a 0| ≤ D :=
  tr.hbnd t h1 hT _ (getD_mem _ _ (by rw [tr.hr]; exact ha))

theorem trace_orth (tr : RMTrace p n D T) (t : ℕ) (h1 : 1 ≤ t) (hT : t ≤ T) :
    ∑ a ∈ range n, max ((tr.Q (t - 1)).getD a 0) 0 * (tr.r t).getD a 0 = 0 := by
  have h := tr.horth t h1 hT
  rw [dot_eq_sum _ _ (by simp [tr.hQ, tr.hr])] at h
  rw [List.length_map, tr.hQ] at h
  refine (Finset.sum_congr rfl ?_).trans h
  intro a ha
  rw [getD_map_lt _ _ _ (by rw [tr.hQ]; exact Finset.mem_range.mp ha)]

theorem trace_Q0 (tr : RMTrace p n D T) (a : ℕ) : (tr.Q 0).getD a 0 = 0 := by
  rw [tr.hQ0, getD_replicate_zero]

/-- (A): the positive part of the pre-discount regrets -/
theorem trace_pos (hD : 0 ≤ D) (tr : RMTrace p n D T) (t : ℕ) (h1 : 1 ≤ t) (hT : t ≤ T) (a : ℕ)
    (ha : a < n) : max (ypre tr a t) 0 ≤ D * Real.sqrt (n * t) := by
  have hP := potential n T D (fun t a => (tr.Q t).getD a 0) (fun t a => (tr.r t).getD a 0)
    (fun a _ => trace_Q0 tr a)
    (by
      intro t h1 hT a ha
      have hu := genDiscount_mem_unit t h1
      rw [trace_entry tr t h1 hT a ha]
      exact disc_pos_le _ _ _ (hu _).1 (hu _).2 (hu _).1)
    (fun t h1 hT => trace_orth tr t h1 hT)
    (fun t h1 hT a ha => trace_bnd tr t h1 hT a ha)
  exact pos_le_of_potential n D hD t (fun a => ypre tr a t) a ha ((hP t hT).2 h1)

/-- (C): Abel summation, with the positive part bounded by the potential -/
theorem trace_abel (hD : 0 ≤ D) (tr : RMTrace p n D T) (a : ℕ) (ha : a < n)
    (hH1 : ∀ t, 1 ≤ t → t < T →
      wgt p.strat t ≤ wgt p.strat (t + 1) * genDiscount t p.posRegret) :
    tr.weightedRegret a ≤ (T : ℝ) ^ p.strat * (D * Real.sqrt (n * T))
      + ∑ t ∈ range (T - 1),
          kap (wgt p.strat) (fun t => genDiscount t p.negRegret) (t + 1)
            * max (-(ypre tr a (t + 1))) 0 := by
  have e : tr.weightedRegret a
      = ∑ t ∈ range T, wgt p.strat (t + 1) * (tr.r (t + 1)).getD a 0 := by
    unfold RMTrace.weightedRegret
    rw [list_sum_range_map]
    rfl
  rw [e]
  rcases Nat.eq_zero_or_pos T with h | h
  · subst h
    simp
  have hA := abel T (fun t => (tr.Q t).getD a 0) (ypre tr a) (fun t => (tr.r t).getD a 0)
    (wgt p.strat) (fun t => genDiscount t p.posRegret) (fun t => genDiscount t p.negRegret)
    (trace_Q0 tr a) (fun t _ _ => rfl) (fun t h1 hT => trace_entry tr t h1 hT a ha) hH1
    (wgt_nonneg _ _)
  refine le_trans hA (add_le_add ?_ le_rfl)
  exact mul_le_mul_of_nonneg_left (trace_pos hD tr T h (le_refl _) a ha) (wgt_nonneg _ _)

/-- (B): the negative part of the pre-discount regrets -/
theorem trace_neg (tr : RMTrace p n D T) (a : ℕ) (ha : a < n) :
    (1 ≤ T → max (-(ypre tr a 1)) 0 ≤ D) ∧
    ∀ t, 1 ≤ t → t + 1 ≤ T →
      max (-(ypre tr a (t + 1))) 0 ≤ genDiscount t p.negRegret * max (-(ypre tr a t)) 0 + D :=
  neg_step T D (fun t => (tr.Q t).getD a 0) (ypre tr a) (fun t => (tr.r t).getD a 0)
    (fun t => genDiscount t p.posRegret) (fun t => genDiscount t p.negRegret)
    (trace_Q0 tr a) (fun _ _ _ => rfl) (fun t h1 hT => trace_entry tr t h1 hT a ha)
    (fun t h1 hT => trace_bnd tr t h1 hT a ha)
    (fun t h1 _ => (genDiscount_mem_unit t h1 _).1) (fun t h1 _ => (genDiscount_mem_unit t h1 _).1)

/-- presets whose negative side never contributes (`κ ≡ 0`) -/
theorem trace_kap_zero (hD : 0 ≤ D) (tr : RMTrace p n D T) (a : ℕ) (ha : a < n)
    (hH1 : ∀ t, 1 ≤ t → t < T →
      wgt p.strat t ≤ wgt p.strat (t + 1) * genDiscount t p.posRegret)
    (hK : ∀ t, 1 ≤ t → t < T →
      wgt p.strat (t + 1) * genDiscount t p.negRegret ≤ wgt p.strat t) :
    tr.weightedRegret a ≤ (T : ℝ) ^ p.strat * (D * Real.sqrt (n * T)) := by
  have h := trace_abel hD tr a ha hH1
  rw [Finset.sum_eq_zero] at h
  · simpa using h
  · intro t ht
    have ht' := Finset.mem_range.mp ht
    have : kap (wgt p.strat) (fun t => genDiscount t p.negRegret) (t + 1) = 0 := by
      unfold kap
      exact max_eq_left (by linarith [hK (t + 1) (by omega) (by omega)])
    rw [this, zero_mul]

end trace

/-- the negative part grows at most linearly -/
theorem neg_linear (T : ℕ) (D : ℝ) (m nn : ℕ → ℝ)
    (h1 : 1 ≤ T → m 1 ≤ D)
    (hs : ∀ t, 1 ≤ t → t + 1 ≤ T → m (t + 1) ≤ nn t * m t + D)
    (hm : ∀ t, 0 ≤ m t) (hnn : ∀ t, 1 ≤ t → t ≤ T → nn t ≤ 1) :
    ∀ t, 1 ≤ t → t ≤ T → m t ≤ t * D := by
  intro t
  induction t with
  | zero => intro h; omega
  | succ t ih =>
    intro _ hT
    rcases Nat.eq_zero_or_pos t with h | h
    · subst h
      simpa using h1 hT
    · have i1 := ih h (by omega)
      have i2 := hs t h hT
      have i3 : nn t * m t ≤ 1 * m t := mul_le_mul_of_nonneg_right (hnn t h (by omega)) (hm t)
      push_cast
      linarith

end Cfr.PS
