import CfrVerif.Proofs.LocksCheck
/-!
# The interleaving theorems under wider hypotheses

`Lk.PoolOK` asks for "every `try_lock`ed mutex is try-locked once and never `lock()`ed" and "every
`lock()` is a leaf critical section".  What the argument really uses is weaker, and the weaker form
also covers harmless variants of the crate (for instance `lock()` instead of `try_lock()` at the
updating player's infosets, which are visited once per pass): a mutex that is *acquired only once
in the whole pass* is never contended, whatever call acquires it and however long it is held;
every other acquisition must be a blocking `lock()` released by the thread's next operation.
-/
namespace Cfr
namespace Lk

/-- every mutex a trace acquires, with multiplicity -/
def acqLocks : List LEv → List LockId
  | [] => []
  | .tryAcq l :: t => l :: acqLocks t
  | .acq l :: t => l :: acqLocks t
  | .rel _ :: t => acqLocks t

/-- every acquisition in the trace is of a mutex acquired once in the pass (`all`: every
acquisition of the pass), or a `lock()` released by the next operation of the trace -/
def WideOK (all : List LockId) : List LEv → Prop
  | [] => True
  | .tryAcq l :: t => all.count l = 1 ∧ WideOK all t
  | .acq l :: t => (all.count l = 1 ∨ ∃ t', t = .rel l :: t') ∧ WideOK all t
  | .rel _ :: t => WideOK all t

/-- the wider hypotheses on the traces of a pass -/
structure PoolOK2 (ts : List (List LEv)) : Prop where
  wide : ∀ t ∈ ts, WideOK (ts.flatMap acqLocks) t
  released : ∀ t ∈ ts, RelOK t

namespace Wide

theorem acqLocksOf_eq (t : List LEv) : acqLocksOf t = acqLocks t := by
  induction t with
  | nil => rfl
  | cons e t ih => cases e <;> simp [acqLocksOf, acqLocks, ih]

theorem acqLocksOf_fun : acqLocksOf = acqLocks := funext acqLocksOf_eq

theorem WideOK_tail {all : List LockId} {e : LEv} {t : List LEv} (h : WideOK all (e :: t)) :
    WideOK all t := by
  cases e with
  | tryAcq l => exact (by simpa [WideOK] using h : _ ∧ WideOK all t).2
  | acq l => exact (by simpa [WideOK] using h : _ ∧ WideOK all t).2
  | rel l => simpa [WideOK] using h

theorem count_acqLocks (l : LockId) (t : List LEv) :
    (acqLocks t).count l = (tryLocks t).count l + (blockLocks t).count l := by
  induction t with
  | nil => simp [acqLocks]
  | cons e t ih => cases e <;> simp [acqLocks, List.count_cons, ih] <;> omega

theorem count_flatMap_acqLocks (l : LockId) (ts : List (List LEv)) :
    (ts.flatMap acqLocks).count l =
      (ts.flatMap tryLocks).count l + (ts.flatMap blockLocks).count l := by
  induction ts with
  | nil => simp
  | cons t ts ih =>
    simp only [List.flatMap_cons, List.count_append, ih, count_acqLocks]
    omega

theorem wideOK_of_leaf (all : List LockId) : ∀ (t : List LEv), LeafCS t →
    (∀ l ∈ tryLocks t, all.count l = 1) → WideOK all t
  | [], _, _ => by simp [WideOK]
  | .tryAcq l :: t, h1, h2 => by
    simp only [WideOK]
    exact ⟨h2 l (by simp), wideOK_of_leaf all t (by simpa using h1)
      (fun l' hl' => h2 l' (by simp [hl']))⟩
  | .rel l :: t, h1, h2 => by
    simp only [WideOK]
    exact wideOK_of_leaf all t (by simpa using h1) (fun l' hl' => h2 l' (by simpa using hl'))
  | .acq l :: t, h1, h2 => by
    obtain ⟨t', rfl, ht'⟩ := LeafCS_acq h1
    simp only [WideOK]
    exact ⟨Or.inr ⟨t', rfl⟩, wideOK_of_leaf all t' ht' (fun l' hl' => h2 l' (by simpa using hl'))⟩

theorem wideOKb_iff (all : List LockId) (t : List LEv) : wideOKb all t = true ↔ WideOK all t := by
  fun_induction wideOKb all t with
  | case1 => simp [WideOK]
  | case2 l t ih => simp [WideOK, ih]
  | case3 l l' t h ih =>
    have hl : l = l' := by simpa using h
    subst hl
    rw [ih]
    simp only [WideOK]
    exact ⟨fun h' => ⟨Or.inr ⟨t, rfl⟩, h'⟩, fun h' => h'.2⟩
  | case4 l l' t h ih =>
    have hl : l ≠ l' := by simpa using h
    rw [Bool.and_eq_true, ih, beq_iff_eq]
    have hne : ¬ ∃ t', LEv.rel l' :: t = LEv.rel l :: t' := by
      rintro ⟨t', ht'⟩
      simp only [List.cons.injEq, LEv.rel.injEq] at ht'
      exact hl ht'.1.symm
    constructor
    · intro h'
      exact ⟨Or.inl h'.1, h'.2⟩
    · intro h'
      obtain ⟨h1, h2⟩ := (h' : (_ ∨ _) ∧ WideOK all (LEv.rel l' :: t))
      exact ⟨h1.resolve_right hne, h2⟩
  | case5 l t h ih =>
    rw [Bool.and_eq_true, ih, beq_iff_eq]
    have hne : ¬ ∃ t', t = LEv.rel l :: t' := fun ⟨t', ht'⟩ => h l t' ht'
    constructor
    · intro h'
      exact ⟨Or.inl h'.1, h'.2⟩
    · intro h'
      obtain ⟨h1, h2⟩ := (h' : (_ ∨ _) ∧ WideOK all t)
      exact ⟨h1.resolve_right hne, h2⟩
  | case6 l t ih => simp [WideOK, ih]

/-- what holds in every configuration reachable from `LCfg.init ts` when `PoolOK2 ts`
(`all = ts.flatMap acqLocks`) -/
structure Inv2 (all : List LockId) (cfg : LCfg) : Prop where
  /-- acquisitions still to come and mutexes held, together, are among the acquisitions of the pass -/
  cnt : ∀ l, (cfg.tasks.flatMap acqLocks).count l + (cfg.held.map Prod.fst).count l ≤ all.count l
  wide : ∀ t ∈ cfg.tasks, WideOK all t
  /-- the holder of a mutex acquired more than once in the pass releases it with its next step -/
  next : ∀ l k, (l, k) ∈ cfg.held → all.count l ≠ 1 → ∃ rest, cfg.tasks[k]? = some (.rel l :: rest)
  willRel : ∀ l k, (l, k) ∈ cfg.held → ∃ t, cfg.tasks[k]? = some t ∧ LEv.rel l ∈ t
  relOK : ∀ t ∈ cfg.tasks, RelOK t

theorem Inv2.init {ts : List (List LEv)} (h : PoolOK2 ts) :
    Inv2 (ts.flatMap acqLocks) (LCfg.init ts) where
  cnt := fun l => by simp [LCfg.init]
  wide := h.wide
  next := fun _ _ hk => by simp [LCfg.init] at hk
  willRel := fun _ _ hk => by simp [LCfg.init] at hk
  relOK := h.released

theorem Inv2.step {all : List LockId} {cfg cfg' : LCfg} {j : Nat} (hI : Inv2 all cfg)
    (h : lstep cfg j = .ok cfg') : Inv2 all cfg' := by
  obtain ⟨e, rest, hj, htasks, hcase⟩ := lstep_ok h
  have hmem : (e :: rest) ∈ cfg.tasks := List.mem_of_getElem? hj
  have hjlt : j < cfg.tasks.length := (List.getElem?_eq_some_iff.mp hj).1
  have hmem' : ∀ t ∈ cfg'.tasks, t ∈ cfg.tasks ∨ t = rest := by
    intro t ht
    rw [htasks] at ht
    exact List.mem_or_eq_of_mem_set ht
  have hget : ∀ k, cfg'.tasks[k]? = if j = k then some rest else cfg.tasks[k]? := by
    intro k
    rw [htasks, List.getElem?_set]
    by_cases hk : j = k
    · subst hk; simp [hjlt]
    · simp [hk]
  have hwide : ∀ t ∈ cfg'.tasks, WideOK all t := by
    intro t ht
    rcases hmem' t ht with ht | rfl
    · exact hI.wide t ht
    · exact WideOK_tail (hI.wide _ hmem)
  have hrelOK : ∀ t ∈ cfg'.tasks, RelOK t := by
    intro t ht
    rcases hmem' t ht with ht | rfl
    · exact hI.relOK t ht
    · exact RelOK_tail (hI.relOK _ hmem)
  obtain ⟨X, Y, hX, hX'⟩ := flatMap_set acqLocks cfg.tasks j _ rest hj
  rw [← htasks] at hX'
  -- the parts that are the same for both kinds of acquisition
  have hacq : ∀ l, (e = .tryAcq l ∨ e = .acq l) → cfg'.held = (l, j) :: cfg.held →
      (∀ l', (cfg'.tasks.flatMap acqLocks).count l' + (cfg'.held.map Prod.fst).count l'
        ≤ all.count l') ∧
      (∀ l' k, (l', k) ∈ cfg'.held → ∃ t, cfg'.tasks[k]? = some t ∧ LEv.rel l' ∈ t) := by
    intro l he hheld
    constructor
    · intro l'
      have hc := hI.cnt l'
      have he' : acqLocks (e :: rest) = l :: acqLocks rest := by
        rcases he with rfl | rfl <;> rfl
      rw [hX, he'] at hc
      rw [hX', hheld]
      simp only [List.count_append, List.count_cons, List.map_cons] at hc ⊢
      generalize (if (l == l') = true then 1 else 0) = c at hc ⊢
      omega
    · intro l' k hk
      rw [hheld] at hk
      rcases List.mem_cons.mp hk with hk | hk
      · simp only [Prod.mk.injEq] at hk
        obtain ⟨rfl, rfl⟩ := hk
        refine ⟨rest, by rw [hget]; simp, ?_⟩
        rcases he with rfl | rfl
        · exact (by simpa [RelOK] using hI.relOK _ hmem : LEv.rel l' ∈ rest ∧ _).1
        · exact (by simpa [RelOK] using hI.relOK _ hmem : LEv.rel l' ∈ rest ∧ _).1
      · obtain ⟨t, ht, hr⟩ := hI.willRel l' k hk
        rw [hget]
        by_cases hjk : j = k
        · subst hjk
          rw [hj] at ht
          simp only [Option.some.injEq] at ht
          subst ht
          refine ⟨rest, by simp, ?_⟩
          rcases he with rfl | rfl <;> simpa using hr
        · exact ⟨t, by rw [if_neg hjk]; exact ht, hr⟩
  rcases hcase with ⟨l, rfl, hfree, hheld⟩ | ⟨l, rfl, hfree, hheld⟩ | ⟨l, rfl, hheld⟩
  · -- try_lock
    obtain ⟨hcnt, hwill⟩ := hacq l (Or.inl rfl) hheld
    have hu : all.count l = 1 := (by simpa [WideOK] using hI.wide _ hmem : _ ∧ WideOK all rest).1
    refine ⟨hcnt, hwide, ?_, hwill, hrelOK⟩
    intro l' k hk hn
    rw [hheld] at hk
    rcases List.mem_cons.mp hk with hk | hk
    · simp only [Prod.mk.injEq] at hk
      exact absurd (hk.1 ▸ hu) hn
    · obtain ⟨r, hr⟩ := hI.next l' k hk hn
      refine ⟨r, ?_⟩
      rw [hget]
      by_cases hjk : j = k
      · subst hjk; rw [hj] at hr; simp at hr
      · rw [if_neg hjk]; exact hr
  · -- lock
    obtain ⟨hcnt, hwill⟩ := hacq l (Or.inr rfl) hheld
    have hu : all.count l = 1 ∨ ∃ t', rest = .rel l :: t' :=
      (by simpa [WideOK] using hI.wide _ hmem : _ ∧ WideOK all rest).1
    refine ⟨hcnt, hwide, ?_, hwill, hrelOK⟩
    intro l' k hk hn
    rw [hheld] at hk
    rcases List.mem_cons.mp hk with hk | hk
    · simp only [Prod.mk.injEq] at hk
      obtain ⟨rfl, rfl⟩ := hk
      rcases hu with hu | ⟨t', rfl⟩
      · exact absurd hu hn
      · exact ⟨t', by rw [hget]; simp⟩
    · obtain ⟨r, hr⟩ := hI.next l' k hk hn
      refine ⟨r, ?_⟩
      rw [hget]
      by_cases hjk : j = k
      · subst hjk; rw [hj] at hr; simp at hr
      · rw [if_neg hjk]; exact hr
  · -- the guard is dropped
    have hsub : ∀ x, x ∈ cfg'.held → x ∈ cfg.held ∧ ¬ (x.1 = l ∧ x.2 = j) := by
      intro x hx
      rw [hheld, List.mem_filter] at hx
      refine ⟨hx.1, fun ⟨h1, h2⟩ => ?_⟩
      have := hx.2
      simp [h1, h2] at this
    refine ⟨?_, hwide, ?_, ?_, hrelOK⟩
    · intro l'
      have hc := hI.cnt l'
      rw [hX] at hc
      rw [hX', hheld]
      have hle : ((cfg.held.filter (fun h => !(h.1 == l && h.2 == j))).map Prod.fst).count l'
          ≤ (cfg.held.map Prod.fst).count l' :=
        (List.filter_sublist.map Prod.fst).count_le l'
      simp only [acqLocks, List.count_append] at hc ⊢
      omega
    · intro l' k hk hn
      obtain ⟨hk1, hk2⟩ := hsub _ hk
      obtain ⟨r, hr⟩ := hI.next l' k hk1 hn
      refine ⟨r, ?_⟩
      rw [hget]
      by_cases hjk : j = k
      · subst hjk
        rw [hj] at hr
        simp only [Option.some.injEq, List.cons.injEq, LEv.rel.injEq] at hr
        exact absurd ⟨hr.1.symm, rfl⟩ hk2
      · rw [if_neg hjk]; exact hr
    · intro l' k hk
      obtain ⟨hk1, hk2⟩ := hsub _ hk
      obtain ⟨t, ht, hr⟩ := hI.willRel l' k hk1
      rw [hget]
      by_cases hjk : j = k
      · subst hjk
        rw [hj] at ht
        simp only [Option.some.injEq] at ht
        subst ht
        refine ⟨rest, by simp, ?_⟩
        rcases List.mem_cons.mp hr with hr | hr
        · simp only [LEv.rel.injEq] at hr
          exact absurd ⟨hr, rfl⟩ hk2
        · exact hr
      · exact ⟨t, by rw [if_neg hjk]; exact ht, hr⟩

theorem Inv2.reach {all : List LockId} {a cfg : LCfg} {n : Nat} (ha : Inv2 all a)
    (hr : LReach a n cfg) : Inv2 all cfg := by
  induction hr with
  | refl => exact ha
  | step j _ hs ih => exact ih.step hs

/-- a mutex that is held while an acquisition of it is still to come is acquired more than once -/
theorem Inv2.contended {all : List LockId} {cfg : LCfg} (hI : Inv2 all cfg) {l : LockId} {k : Nat}
    (hk : (l, k) ∈ cfg.held) (hl : l ∈ cfg.tasks.flatMap acqLocks) : all.count l ≠ 1 := by
  have h1 : 0 < (cfg.tasks.flatMap acqLocks).count l := List.count_pos_iff.mpr hl
  have h2 : 0 < (cfg.held.map Prod.fst).count l :=
    List.count_pos_iff.mpr (List.mem_map.mpr ⟨(l, k), hk, rfl⟩)
  have := hI.cnt l
  omega

theorem Inv2.no_panic {all : List LockId} {cfg : LCfg} (hI : Inv2 all cfg) (j : Nat) :
    lstep cfg j ≠ LOut.panic := by
  intro hp
  unfold lstep at hp
  split at hp
  · cases hp
  · cases hp
  · rename_i e rest hj
    cases e with
    | tryAcq l =>
      simp only at hp
      split at hp
      · rename_i hh
        obtain ⟨k, hk⟩ := (isHeld_eq_true_iff cfg l).mp hh
        have hmem := List.mem_of_getElem? hj
        refine hI.contended hk (List.mem_flatMap.mpr ⟨_, hmem, by simp [acqLocks]⟩) ?_
        exact (by simpa [WideOK] using hI.wide _ hmem : _ ∧ WideOK all rest).1
      · cases hp
    | acq l =>
      simp only at hp
      split at hp <;> cases hp
    | rel l => simp only at hp; cases hp

theorem Inv2.no_deadlock {all : List LockId} {cfg : LCfg} (hI : Inv2 all cfg) :
    cfg.finished = true ∨ ∃ j cfg', lstep cfg j = LOut.ok cfg' := by
  by_cases hf : cfg.finished = true
  · exact Or.inl hf
  · right
    unfold LCfg.finished at hf
    rw [List.all_eq_true] at hf
    have : ∃ t ∈ cfg.tasks, t.isEmpty = false := by
      apply Classical.byContradiction
      intro hne
      apply hf
      intro t ht
      cases hte : t.isEmpty with
      | true => rfl
      | false => exact absurd ⟨t, ht, hte⟩ hne
    obtain ⟨t, ht, hte⟩ := this
    obtain ⟨j, hjlt, hj⟩ := List.getElem_of_mem ht
    have hj' : cfg.tasks[j]? = some t := by rw [List.getElem?_eq_getElem hjlt, hj]
    cases t with
    | nil => simp at hte
    | cons e rest =>
      cases e with
      | rel l => exact ⟨j, _, lstep_rel hj'⟩
      | tryAcq l =>
        have hnp := hI.no_panic j
        by_cases hh : cfg.isHeld l = true
        · rw [lstep_tryAcq hj', if_pos hh] at hnp; exact absurd rfl hnp
        · exact ⟨j, _, by rw [lstep_tryAcq hj', if_neg hh]⟩
      | acq l =>
        by_cases hh : cfg.isHeld l = true
        · obtain ⟨k, hk⟩ := (isHeld_eq_true_iff cfg l).mp hh
          have hn := hI.contended hk (List.mem_flatMap.mpr ⟨_, ht, by simp [acqLocks]⟩)
          obtain ⟨r, hr⟩ := hI.next l k hk hn
          exact ⟨k, _, lstep_rel hr⟩
        · exact ⟨j, _, by rw [lstep_acq hj', if_neg hh]⟩

theorem Inv2.finished_all_free {all : List LockId} {cfg : LCfg} (hI : Inv2 all cfg)
    (hf : cfg.finished = true) : cfg.held = [] := by
  unfold LCfg.finished at hf
  rw [List.all_eq_true] at hf
  cases hh : cfg.held with
  | nil => rfl
  | cons x xs =>
    obtain ⟨t, ht, hr⟩ := hI.willRel x.1 x.2 (by rw [hh]; exact List.mem_cons_self)
    have := hf t (List.mem_of_getElem? ht)
    cases t with
    | nil => simp at hr
    | cons _ _ => simp at this

end Wide

/-- the hypotheses used so far are a special case -/
theorem PoolOK.toPoolOK2 {ts : List (List LEv)} (h : PoolOK ts) : PoolOK2 ts := by
  refine ⟨fun t ht => Wide.wideOK_of_leaf _ t (h.leaf t ht) (fun l hl => ?_),
    fun t ht => (RelOK_iff t).mpr (h.released t ht)⟩
  have hl' : l ∈ ts.flatMap tryLocks := List.mem_flatMap.mpr ⟨t, ht, hl⟩
  rw [Wide.count_flatMap_acqLocks, List.count_eq_zero_of_not_mem (h.disjoint l hl')]
  have h1 := List.nodup_iff_count.mp h.tryNodup l
  have h2 := List.count_pos_iff.mpr hl'
  omega

theorem no_panic2 {ts : List (List LEv)} (h : PoolOK2 ts) {n : Nat} {cfg : LCfg}
    (hr : LReach (LCfg.init ts) n cfg) (j : Nat) : lstep cfg j ≠ LOut.panic :=
  ((Wide.Inv2.init h).reach hr).no_panic j

theorem no_deadlock2 {ts : List (List LEv)} (h : PoolOK2 ts) {n : Nat} {cfg : LCfg}
    (hr : LReach (LCfg.init ts) n cfg) :
    cfg.finished = true ∨ ∃ j cfg', lstep cfg j = LOut.ok cfg' :=
  ((Wide.Inv2.init h).reach hr).no_deadlock

theorem finished_all_free2 {ts : List (List LEv)} (h : PoolOK2 ts) {n : Nat} {cfg : LCfg}
    (hr : LReach (LCfg.init ts) n cfg) (hf : cfg.finished = true) : cfg.held = [] :=
  ((Wide.Inv2.init h).reach hr).finished_all_free hf

/-- the executable checker of the wider hypotheses is sound and complete -/
theorem poolOK2b_iff (ts : List (List LEv)) : poolOK2b ts = true ↔ PoolOK2 ts := by
  simp only [poolOK2b, Wide.acqLocksOf_fun, Bool.and_eq_true, List.all_eq_true, Wide.wideOKb_iff,
    relOKb_iff]
  exact ⟨fun ⟨h1, h2⟩ => ⟨h1, h2⟩, fun h => ⟨h.wide, h.released⟩⟩

end Lk

/-- **observed traces that pass the wider checker can neither panic on a `try_lock` nor
deadlock**, under any thread schedule; every schedule ends and leaves all mutexes free -/
theorem checked_traces_safe2 (ts : List (List LEv)) (h : poolOK2b ts = true) {n : Nat} {cfg : LCfg}
    (hr : LReach (LCfg.init ts) n cfg) :
    (∀ j, lstep cfg j ≠ LOut.panic) ∧
    (cfg.finished = true ∨ ∃ j cfg', lstep cfg j = LOut.ok cfg') ∧
    n + cfg.remaining = (LCfg.init ts).remaining ∧
    (cfg.finished = true → cfg.held = []) :=
  have h2 := (Lk.poolOK2b_iff ts).mp h
  ⟨Lk.no_panic2 h2 hr, Lk.no_deadlock2 h2 hr, Lk.steps_bounded ts hr, Lk.finished_all_free2 h2 hr⟩

/-- the wider hypotheses are really wider: the updating player's infoset taken with a blocking
`lock()` and held across a leaf section passes the wide checker and fails the narrow one -/
example : poolOK2b [[.acq (.player true 0), .acq (.chance 0), .rel (.chance 0), .rel (.player true 0)],
    [.acq (.chance 0), .rel (.chance 0)]] = true ∧
  poolOKb [[.acq (.player true 0), .acq (.chance 0), .rel (.chance 0), .rel (.player true 0)],
    [.acq (.chance 0), .rel (.chance 0)]] = false := by
  decide

/-- and they still exclude what can go wrong: a mutex two workers `try_lock` -/
example : poolOK2b [[.tryAcq (.chance 0), .rel (.chance 0)], [.tryAcq (.chance 0), .rel (.chance 0)]]
    = false := by
  decide

end Cfr
