import CfrVerif.Proofs.Dist
import Mathlib.Analysis.SpecialFunctions.Pow.Real
import Mathlib.Analysis.SpecialFunctions.Log.Basic
/-!
# The model at `ℝ` : `exp`, `ln`, `ln_1p`, `powf` are the real functions
-/
namespace Cfr

noncomputable instance : Transc ℝ where
  exp := Real.exp
  log := Real.log
  log1p := fun x => Real.log (1 + x)
  pow := fun x y => x ^ y
  ln2 := Real.log 2

@[simp] theorem transc_exp (x : ℝ) : Transc.exp x = Real.exp x := rfl
@[simp] theorem transc_log (x : ℝ) : Transc.log x = Real.log x := rfl
@[simp] theorem transc_log1p (x : ℝ) : Transc.log1p x = Real.log (1 + x) := rfl
@[simp] theorem transc_pow (x y : ℝ) : Transc.pow x y = x ^ y := rfl
@[simp] theorem transc_ln2 : (Transc.ln2 : ℝ) = Real.log 2 := rfl

end Cfr
