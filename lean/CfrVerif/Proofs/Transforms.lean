import CfrVerif.Proofs.GameWF
import CfrVerif.Proofs.CompileWF
import CfrVerif.Model.Dispatch
/-!
# Changes of presentation (C12): definitions

* on input trees (`Raw`): rescaling chance weights, padding with degenerate nodes, renaming labels,
  mapping payoffs, exchanging the players;
* on compiled games (`Game`), strategies and solver results: the corresponding images.
-/
set_option linter.unusedSectionVars false
namespace Cfr
variable {α : Type}

/-! ## payoffs -/

mutual
/-- apply `f` to every terminal payoff -/
def Raw.mapPay (f : α → α) : Raw α → Raw α
  | .term p => .term (f p)
  | .chance i ws ks => .chance i ws (Raw.mapPayL f ks)
  | .player o i as ks => .player o i as (Raw.mapPayL f ks)
def Raw.mapPayL (f : α → α) : List (Raw α) → List (Raw α)
  | [] => []
  | k :: ks => Raw.mapPay f k :: Raw.mapPayL f ks
end

mutual
def Node.mapPay (f : α → α) : Node α → Node α
  | .term p => .term (f p)
  | .chance i ks => .chance i (Node.mapPayL f ks)
  | .player o i ks => .player o i (Node.mapPayL f ks)
def Node.mapPayL (f : α → α) : List (Node α) → List (Node α)
  | [] => []
  | k :: ks => Node.mapPay f k :: Node.mapPayL f ks
end

def Game.mapPay (f : α → α) (g : Game α) : Game α := { g with root := g.root.mapPay f }

/-! ## exchanging the players (and negating the payoffs) -/

mutual
def Raw.swap [Neg α] : Raw α → Raw α
  | .term p => .term (-p)
  | .chance i ws ks => .chance i ws (Raw.swapL ks)
  | .player o i as ks => .player (!o) i as (Raw.swapL ks)
def Raw.swapL [Neg α] : List (Raw α) → List (Raw α)
  | [] => []
  | k :: ks => Raw.swap k :: Raw.swapL ks
end

mutual
def Node.swap [Neg α] : Node α → Node α
  | .term p => .term (-p)
  | .chance i ks => .chance i (Node.swapL ks)
  | .player o i ks => .player (!o) i (Node.swapL ks)
def Node.swapL [Neg α] : List (Node α) → List (Node α)
  | [] => []
  | k :: ks => Node.swap k :: Node.swapL ks
end

def Game.swap [Neg α] (g : Game α) : Game α :=
  { chance := g.chance, p1 := g.p2, p2 := g.p1, s1 := g.s2, s2 := g.s1, root := g.root.swap }

/-- the mirrored result: strategies, bounds exchanged -/
def SolveOut.swap (o : SolveOut α) : SolveOut α :=
  { o with regOne := o.regTwo, regTwo := o.regOne, stratOne := o.stratTwo, stratTwo := o.stratOne }

/-- multiply an extended value by a positive constant -/
def Ext.scale [Mul α] (c : α) : Ext α → Ext α
  | .fin x => .fin (c * x)
  | e => e

/-- bounds multiplied by `c`, everything else unchanged -/
def SolveOut.scale [Mul α] (c : α) (o : SolveOut α) : SolveOut α :=
  { o with regOne := o.regOne.scale c, regTwo := o.regTwo.scale c }

/-! ## chance weights -/

mutual
/-- `r'` is `r` with the weight lists of some chance nodes multiplied by positive constants
(a different constant at every node, if one likes) -/
def Rescaled [Mul α] [Zero α] [LT α] : Raw α → Raw α → Prop
  | .term p, .term p' => p = p'
  | .chance i ws ks, .chance i' ws' ks' =>
    i = i' ∧ (∃ c : α, 0 < c ∧ ws' = ws.map (fun w => c * w)) ∧ RescaledL ks ks'
  | .player o i as ks, .player o' i' as' ks' => o = o' ∧ i = i' ∧ as = as' ∧ RescaledL ks ks'
  | _, _ => False
def RescaledL [Mul α] [Zero α] [LT α] : List (Raw α) → List (Raw α) → Prop
  | [], [] => True
  | k :: ks, k' :: ks' => Rescaled k k' ∧ RescaledL ks ks'
  | _, _ => False
end

/-! ## degenerate nodes -/

mutual
/-- `Padded fresh act r r'` : `r'` is `r` with single-outcome chance nodes (no infoset name, any
positive weight) and single-action decision nodes (infoset label `l` with `fresh o l = true`, action
`act o l`) inserted anywhere -/
inductive Padded [Zero α] [LT α] (fresh : Bool → Nat → Bool) (act : Bool → Nat → Nat) : Raw α → Raw α → Prop
  | term (p : α) : Padded fresh act (.term p) (.term p)
  | chance (i : Option Nat) (ws : List α) (ks ks' : List (Raw α)) :
      PaddedL fresh act ks ks' → Padded fresh act (.chance i ws ks) (.chance i ws ks')
  | player (o : Bool) (i : Nat) (as : List Nat) (ks ks' : List (Raw α)) :
      PaddedL fresh act ks ks' → Padded fresh act (.player o i as ks) (.player o i as ks')
  | padChance (r k' : Raw α) (w : α) :
      0 < w → Padded fresh act r k' → Padded fresh act r (.chance none [w] [k'])
  | padPlayer (r k' : Raw α) (o : Bool) (l : Nat) :
      fresh o l = true → Padded fresh act r k' → Padded fresh act r (.player o l [act o l] [k'])
inductive PaddedL [Zero α] [LT α] (fresh : Bool → Nat → Bool) (act : Bool → Nat → Nat) :
    List (Raw α) → List (Raw α) → Prop
  | nil : PaddedL fresh act [] []
  | cons (k k' : Raw α) (ks ks' : List (Raw α)) :
      Padded fresh act k k' → PaddedL fresh act ks ks' → PaddedL fresh act (k :: ks) (k' :: ks')
end

mutual
/-- no node of the tree uses an infoset label that is reserved for padding -/
def Raw.AvoidsFresh (fresh : Bool → Nat → Bool) : Raw α → Prop
  | .term _ => True
  | .chance _ _ ks => Raw.AvoidsFreshL fresh ks
  | .player o i _ ks => fresh o i = false ∧ Raw.AvoidsFreshL fresh ks
def Raw.AvoidsFreshL (fresh : Bool → Nat → Bool) : List (Raw α) → Prop
  | [] => True
  | k :: ks => Raw.AvoidsFresh fresh k ∧ Raw.AvoidsFreshL fresh ks
end

/-! ## renaming -/

/-- a renaming of player infoset labels (per player), action labels and chance infoset labels -/
structure Renaming where
  info : Bool → Nat → Nat
  act : Nat → Nat
  chance : Nat → Nat

def Renaming.Injective (ρ : Renaming) : Prop :=
  (∀ o, Function.Injective (ρ.info o)) ∧ Function.Injective ρ.act ∧ Function.Injective ρ.chance

mutual
def Raw.rename (ρ : Renaming) : Raw α → Raw α
  | .term p => .term p
  | .chance i ws ks => .chance (i.map ρ.chance) ws (Raw.renameL ρ ks)
  | .player o i as ks => .player o (ρ.info o i) (as.map ρ.act) (Raw.renameL ρ ks)
def Raw.renameL (ρ : Renaming) : List (Raw α) → List (Raw α)
  | [] => []
  | k :: ks => Raw.rename ρ k :: Raw.renameL ρ ks
end

def PInfo.rename (ρ : Renaming) (o : Bool) (e : PInfo) : PInfo :=
  { label := ρ.info o e.label, actions := e.actions.map ρ.act, prev := e.prev }

/-- the same compiled game under renamed labels: indices, tree, probabilities untouched -/
def Game.rename (ρ : Renaming) (g : Game α) : Game α :=
  { chance := g.chance, p1 := g.p1.map (PInfo.rename ρ true), p2 := g.p2.map (PInfo.rename ρ false),
    s1 := g.s1.map (fun e => (ρ.info true e.1, ρ.act e.2)),
    s2 := g.s2.map (fun e => (ρ.info false e.1, ρ.act e.2)), root := g.root }

/-- two compiled games with the same tree, chance table and per-infoset action counts
(they may differ in labels and in their single-action tables) -/
def Game.SameShape (g g' : Game α) : Prop :=
  g.chance = g'.chance ∧ g.root = g'.root ∧
  g.p1.map (fun e => e.actions.length) = g'.p1.map (fun e => e.actions.length) ∧
  g.p2.map (fun e => e.actions.length) = g'.p2.map (fun e => e.actions.length)

end Cfr
