import CfrVerif.Proofs.LocksVanilla
import CfrVerif.Proofs.Frontier
/-!
# The multi-threaded full / chance-sampled solver takes each infoset's mutex once per visited node

In `src/solve/vanilla.rs` the only place that takes a player infoset's mutex is
`MutexPlayerRecurse::update_cum_strat`: one `lock()` per call, and under it one accumulation
`cum_strat[a] += prob * strat[a]` per action.  In the model those accumulations are the `.strat`
effects (`stratEffs`); the one for action `0` stands for the call (an infoset has at least one
action).  `Proofs/Frontier.lean` shows that the frontier's tasks and the closing recursion together
make a rearrangement of the plain traversal's effects, however the frontier splits the tree.  Hence:

* `vrec_stratUpdates`            : the plain traversal updates the average strategy of an infoset
                                    exactly once per node of the infoset it visits;
* `vanilla_multi_locks_eq_visits`: the tasks and the closing recursion of one multi-threaded
  iteration together update it (take its mutex) exactly as often as the plain traversal's trace
  `vtrace` acquires it — for every task target.  This is the number the harness compares with the
  crate's lock log (`vlocktrace`).
-/
set_option linter.unusedSectionVars false
namespace Cfr

/-- number of `update_cum_strat` calls on infoset `(one, i)` among a list of accumulations: the
accumulations into slot `0` of its average strategy -/
def stratUpdates {α : Type} (one : Bool) (i : Nat) (es : List (Eff α)) : Nat :=
  (es.filter (fun e => e.one == one && e.info == i && e.slot == Slot.strat && e.act == 0)).length

section
variable {α : Type} [Field α] [LinearOrder α] [IsStrictOrderedRing α] [Transc α]

theorem stratUpdates_nil (one : Bool) (i : Nat) : stratUpdates one i ([] : List (Eff α)) = 0 := rfl

theorem stratUpdates_cons (one : Bool) (i : Nat) (e : Eff α) (es : List (Eff α)) :
    stratUpdates one i (e :: es)
      = (if (e.one == one && e.info == i && e.slot == Slot.strat && e.act == 0) = true then 1 else 0)
        + stratUpdates one i es := by
  unfold stratUpdates
  rw [List.filter_cons]
  split
  · simp only [List.length_cons]; omega
  · omega

theorem stratUpdates_append (one : Bool) (i : Nat) (a b : List (Eff α)) :
    stratUpdates one i (a ++ b) = stratUpdates one i a + stratUpdates one i b := by
  unfold stratUpdates
  rw [List.filter_append, List.length_append]

theorem stratUpdates_perm (one : Bool) (i : Nat) {a b : List (Eff α)} (h : a.Perm b) :
    stratUpdates one i a = stratUpdates one i b := by
  unfold stratUpdates
  exact (h.filter _).length_eq

theorem slot_regret_ne : (Slot.regret == Slot.strat) = false := rfl
theorem slot_strat_eq : (Slot.strat == Slot.strat) = true := rfl

theorem stratUpdates_stratEffs_pos (one : Bool) (i : Nat) (o : Bool) (j : Nat) (own : α) :
    ∀ (σ : List α) (a : Nat), 1 ≤ a → stratUpdates one i (stratEffs o j own σ a) = 0
  | [], a, _ => by simp only [stratEffs, stratUpdates_nil]
  | s :: σ, a, ha => by
    have h0 : (a == 0) = false := by
      cases a with
      | zero => omega
      | succ n => rfl
    simp only [stratEffs, stratUpdates_cons, h0, Bool.and_false, Bool.false_eq_true, if_false,
      Nat.zero_add]
    exact stratUpdates_stratEffs_pos one i o j own σ (a + 1) (by omega)

theorem stratUpdates_stratEffs_zero (one : Bool) (i : Nat) (o : Bool) (j : Nat) (own : α)
    (σ : List α) (hσ : σ ≠ []) :
    stratUpdates one i (stratEffs o j own σ 0) = if o = one ∧ j = i then 1 else 0 := by
  cases σ with
  | nil => exact absurd rfl hσ
  | cons s σ =>
    simp only [stratEffs, stratUpdates_cons, stratUpdates_stratEffs_pos one i o j own σ (0 + 1) (by omega),
      slot_strat_eq, Nat.add_zero]
    by_cases h : o = one ∧ j = i
    · obtain ⟨rfl, rfl⟩ := h
      simp
    · rw [if_neg h]
      simpa using h

theorem stratUpdates_subEffs (one : Bool) (i : Nat) (o : Bool) (j : Nat) (sub : α) (n : Nat) :
    stratUpdates one i (subEffs o j sub n) = 0 := by
  unfold stratUpdates subEffs
  rw [List.length_eq_zero_iff, List.filter_eq_nil_iff]
  intro e he
  obtain ⟨a, _, rfl⟩ := List.mem_map.1 he
  simp [slot_regret_ne]

/-- the draw states of the plain traversal and of the visit count agree -/
theorem vrec_draws_vvisits (c : VCtx α) (one : Bool) (i : Nat) (n : Node α) (pc p1 p2 : α)
    (d : DrawSt α) : (vrec c n pc p1 p2 d).2.2 = (vvisits c one i n d).2 :=
  (vtrace_draws' c n pc p1 p2 d).symm.trans (vtrace_acq' c one i n d).2

mutual
/-- every player node of the tree finds a non-empty strategy vector in the context -/
def StratsNonempty (c : VCtx α) : Node α → Prop
  | .term _ => True
  | .chance _ ks => StratsNonemptyL c ks
  | .player o j ks => c.strat o j ≠ [] ∧ StratsNonemptyL c ks
def StratsNonemptyL (c : VCtx α) : List (Node α) → Prop
  | [] => True
  | k :: ks => StratsNonempty c k ∧ StratsNonemptyL c ks
end

mutual
theorem vrec_su (c : VCtx α) (one : Bool) (i : Nat) :
    ∀ (n : Node α) (_ : StratsNonempty c n) (pc p1 p2 : α) (d : DrawSt α),
    stratUpdates one i (vrec c n pc p1 p2 d).2.1 = (vvisits c one i n d).1
  | .term _, _, pc, p1, p2, d => by simp only [vrec, vvisits, stratUpdates_nil]
  | .chance j ks, hσ, pc, p1, p2, d => by
    have hks : StratsNonemptyL c ks := by simpa only [StratsNonempty] using hσ
    by_cases hs : c.sampled = true
    · simp only [vrec, vvisits, if_pos hs]
      exact vrecNth_su c one i ks hks _ pc p1 p2 _
    · simp only [vrec, vvisits, if_neg hs]
      exact vrecChance_su c one i _ ks hks pc p1 p2 d 0
  | .player o j ks, hσ, pc, p1, p2, d => by
    obtain ⟨h0, hks⟩ := (by simpa only [StratsNonempty] using hσ :
      c.strat o j ≠ [] ∧ StratsNonemptyL c ks)
    simp only [vrec, vvisits, stratUpdates_append, stratUpdates_subEffs,
      stratUpdates_stratEffs_zero one i o j _ _ h0, Nat.add_zero]
    rw [vrecActs_su c one i o j _ (c.strat o j) ks hks pc p1 p2 d 0 0 0]
theorem vrecNth_su (c : VCtx α) (one : Bool) (i : Nat) :
    ∀ (ks : List (Node α)) (_ : StratsNonemptyL c ks) (k : Nat) (pc p1 p2 : α) (d : DrawSt α),
    stratUpdates one i (vrecNth c ks k pc p1 p2 d).2.1 = (vvisitsNth c one i ks k d).1
  | [], _, _, pc, p1, p2, d => by simp only [vrecNth, vvisitsNth, stratUpdates_nil]
  | k :: _, hσ, 0, pc, p1, p2, d => by
    simp only [vrecNth, vvisitsNth]
    exact vrec_su c one i k (by simp only [StratsNonemptyL] at hσ; exact hσ.1) pc p1 p2 d
  | _ :: ks, hσ, n + 1, pc, p1, p2, d => by
    simp only [vrecNth, vvisitsNth]
    exact vrecNth_su c one i ks (by simp only [StratsNonemptyL] at hσ; exact hσ.2) n pc p1 p2 d
theorem vrecChance_su (c : VCtx α) (one : Bool) (i : Nat) :
    ∀ (ps : List α) (ks : List (Node α)) (_ : StratsNonemptyL c ks) (pc p1 p2 : α) (d : DrawSt α)
      (acc : α),
    stratUpdates one i (vrecChance c ps ks pc p1 p2 d acc).2.1 = (vvisitsChance c one i ps ks d).1
  | p :: ps, k :: ks, hσ, pc, p1, p2, d, acc => by
    simp only [StratsNonemptyL] at hσ
    simp only [vrecChance, vvisitsChance, stratUpdates_append]
    rw [vrec_su c one i k hσ.1 (pc * p) p1 p2 d, vrec_draws_vvisits c one i k (pc * p) p1 p2 d,
      vrecChance_su c one i ps ks hσ.2 pc p1 p2 _ _]
  | [], _, _, pc, p1, p2, d, acc => by simp only [vrecChance, vvisitsChance, stratUpdates_nil]
  | _ :: _, [], _, pc, p1, p2, d, acc => by simp only [vrecChance, vvisitsChance, stratUpdates_nil]
theorem vrecActs_su (c : VCtx α) (one : Bool) (i : Nat)
    (o : Bool) (j : Nat) (mult : α) :
    ∀ (σ : List α) (ks : List (Node α)) (_ : StratsNonemptyL c ks) (pc p1 p2 : α) (d : DrawSt α)
      (a : Nat) (eo ex : α),
    stratUpdates one i (vrecActs c o j mult σ ks pc p1 p2 d a eo ex).2.2.1
      = (vvisitsActs c one i σ ks d).1
  | s :: σ, k :: ks, hσ, pc, p1, p2, d, a, eo, ex => by
    simp only [StratsNonemptyL] at hσ
    cases o with
    | true =>
      simp only [vrecActs, vvisitsActs, if_true, stratUpdates_append, stratUpdates_cons,
        slot_regret_ne, Bool.and_false, Bool.false_and, Bool.false_eq_true, if_false, Nat.zero_add]
      rw [vrec_su c one i k hσ.1 pc (p1 * s) p2 d, vrec_draws_vvisits c one i k pc (p1 * s) p2 d,
        vrecActs_su c one i true j mult σ ks hσ.2 pc p1 p2 _ _ _ _]
    | false =>
      simp only [vrecActs, vvisitsActs, Bool.false_eq_true, if_false, stratUpdates_append,
        stratUpdates_cons, slot_regret_ne, Bool.and_false, Bool.false_and, Nat.zero_add]
      rw [vrec_su c one i k hσ.1 pc p1 (p2 * s) d, vrec_draws_vvisits c one i k pc p1 (p2 * s) d,
        vrecActs_su c one i false j mult σ ks hσ.2 pc p1 p2 _ _ _ _]
  | [], _, _, pc, p1, p2, d, a, eo, ex => by simp only [vrecActs, vvisitsActs, stratUpdates_nil]
  | _ :: _, [], _, pc, p1, p2, d, a, eo, ex => by simp only [vrecActs, vvisitsActs, stratUpdates_nil]
end

/-- the plain traversal updates the average strategy of an infoset once per visited node of it
(every player node of the tree finds a non-empty strategy vector: an infoset has at least one
action) -/
theorem vrec_stratUpdates (c : VCtx α) (n : Node α) (hσ : StratsNonempty c n) (one : Bool) (i : Nat)
    (pc p1 p2 : α) (d : DrawSt α) :
    stratUpdates one i (vrec c n pc p1 p2 d).2.1 = (vvisits c one i n d).1 :=
  vrec_su c one i n hσ pc p1 p2 d

/-- **however the frontier splits the tree**, the tasks and the closing recursion of one
multi-threaded iteration together call `update_cum_strat` on each infoset — take its mutex — exactly
as often as the plain traversal's trace acquires it -/
theorem vanilla_multi_locks_eq_visits (g : Game α) (c : VCtx α) (hσ : StratsNonempty c g.root)
    (target : Nat) (log : List (DrawRec α)) (one : Bool) (i : Nat) :
    stratUpdates one i (vanillaMultiEffects g c target log).1
      = acqCount (.player one i) (vtrace c g.root { log := log }).1 := by
  have hp := (Van.vanillaMultiEffects_spec g c target log).1
  have hv := Van.vrec_pv c (Van.rootItem g) { log := log } (Van.Good.init c log).1
  have he : (vrec c g.root 1 1 1 { log := log }).2.1
      = Van.effsOf (Van.pvI c [] (Van.rootItem g)).2 := by
    have := congrArg (fun x => x.2.1) hv
    simpa [Van.rootItem] using this
  rw [stratUpdates_perm one i hp, ← he, vrec_stratUpdates c g.root hσ, vtrace_acqCount]

end

/-! non-vacuity: a chance root over two nodes of player one's infoset `0` (no sampling): the plain
traversal updates that infoset's average strategy twice, the other player's never -/
local instance instTranscRatLvP : Transc ℚ := ⟨id, id, id, fun x _ => x, 0⟩

example : stratUpdates true 0
    (vrec (α := ℚ) ⟨[[1/2, 1/2]], false, fun _ _ => [1/2, 1/2], fun _ _ _ _ => 0, 0⟩
      (.chance 0 [.player true 0 [.term 1, .term 0],
                  .player true 0 [.term 0, .player false 0 [.term 2, .term 3]]]) 1 1 1 {}).2.1 = 2 := by
  decide +kernel

/-- the hypothesis of `vrec_stratUpdates` holds for that context and tree -/
example : StratsNonempty (α := ℚ) ⟨[[1/2, 1/2]], false, fun _ _ => [1/2, 1/2], fun _ _ _ _ => 0, 0⟩
    (.chance 0 [.player true 0 [.term 1, .term 0],
                .player true 0 [.term 0, .player false 0 [.term 2, .term 3]]]) := by
  simp [StratsNonempty, StratsNonemptyL]

example : stratUpdates false 0
    (vrec (α := ℚ) ⟨[[1/2, 1/2]], false, fun _ _ => [1/2, 1/2], fun _ _ _ _ => 0, 0⟩
      (.chance 0 [.player true 0 [.term 1, .term 0],
                  .player true 0 [.term 0, .player false 0 [.term 2, .term 3]]]) 1 1 1 {}).2.1 = 1 := by
  decide +kernel

end Cfr
