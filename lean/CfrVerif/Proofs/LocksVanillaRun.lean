import CfrVerif.Proofs.LocksVanillaPerm
import CfrVerif.Proofs.WellFormed
/-!
# The mutex count of the multi-threaded full / chance-sampled solver, for actual runs

`vanilla_multi_locks_eq_visits` (`Proofs/LocksVanillaPerm.lean`) asks that every player node of the
tree finds a non-empty strategy vector in the context (`StratsNonempty`).  Here: on an accepted game
(`GameWF`) every well-formed solver state (`StOK`: the initial state and every state the solve loop
reaches) provides that, so the count holds for every iteration of an actual run.
-/
namespace Cfr

/-- a well-formed table has a non-empty strategy vector at every index of the infoset table -/
theorem tableOK_strat_ne_nil : ∀ (es : List PInfo) (xs : List (InfoSt ℝ)), TableOK es xs →
    ∀ (i : ℕ) (e : PInfo), es[i]? = some e → ∃ x, xs[i]? = some x ∧ x.strat ≠ []
  | [], [], _, i, e, he => by simp at he
  | e' :: es, y :: xs, h, 0, e, _ => by
    simp only [TableOK] at h
    refine ⟨y, by simp, ?_⟩
    intro h0
    have := h.1.lenσ
    rw [h0] at this
    have := h.1.pos
    simp at *
    omega
  | e' :: es, y :: xs, h, i + 1, e, he => by
    simp only [TableOK] at h
    simp only [List.getElem?_cons_succ] at he ⊢
    exact tableOK_strat_ne_nil es xs h.2 i e he
  | [], _ :: _, h, _, _, _ => by simp [TableOK] at h
  | _ :: _, [], h, _, _, _ => by simp [TableOK] at h

theorem stOK_strat_ne_nil (g : Game ℝ) (s : SolveSt ℝ) (h : StOK g s) (one : Bool) (i : ℕ)
    (e : PInfo) (he : (g.infos one)[i]? = some e) : s.strat one i ≠ [] := by
  obtain ⟨x, hx, hne⟩ := tableOK_strat_ne_nil _ _ (h one) i e he
  simp only [SolveSt.strat, hx]
  exact hne

mutual
theorem stratsNonempty_of_nodeOK (g : Game ℝ) (s : SolveSt ℝ) (hs : StOK g s) (c : VCtx ℝ)
    (hc : c.strat = s.strat) : ∀ (n : Node ℝ), NodeOK g n → StratsNonempty c n
  | .term _, _ => by simp only [StratsNonempty]
  | .chance _ ks, h => by
    simp only [NodeOK] at h
    simp only [StratsNonempty]
    exact stratsNonemptyL_of_nodeOKL g s hs c hc ks h.2.2
  | .player one i ks, h => by
    simp only [NodeOK] at h
    obtain ⟨⟨e, he, _⟩, _, hks⟩ := h
    simp only [StratsNonempty]
    refine ⟨?_, stratsNonemptyL_of_nodeOKL g s hs c hc ks hks⟩
    rw [hc]
    exact stOK_strat_ne_nil g s hs one i e he
theorem stratsNonemptyL_of_nodeOKL (g : Game ℝ) (s : SolveSt ℝ) (hs : StOK g s) (c : VCtx ℝ)
    (hc : c.strat = s.strat) : ∀ (ks : List (Node ℝ)), NodeOKL g ks → StratsNonemptyL c ks
  | [], _ => by simp only [StratsNonemptyL]
  | k :: ks, h => by
    simp only [NodeOKL] at h
    simp only [StratsNonemptyL]
    exact ⟨stratsNonempty_of_nodeOK g s hs c hc k h.1, stratsNonemptyL_of_nodeOKL g s hs c hc ks h.2⟩
end

/-- on an accepted game every reachable solver state gives every player node a non-empty strategy -/
theorem stratsNonempty_of_wf (g : Game ℝ) (hg : GameWF g) (s : SolveSt ℝ) (hs : StOK g s)
    (sampled : Bool) (draw : DrawFn ℝ) (it : Nat) :
    StratsNonempty (vanillaCtx g sampled draw it s) g.root :=
  stratsNonempty_of_nodeOK g s hs _ rfl g.root hg.nodes

/-- **for every accepted game and every well-formed solver state** (in particular the initial one
and every state the solve loop reaches), however the frontier splits the tree: the tasks and the
closing recursion of one multi-threaded iteration take each infoset's mutex exactly as often as the
plain traversal's trace acquires it -/
theorem vanilla_multi_locks_eq_visits_run (g : Game ℝ) (hg : GameWF g) (s : SolveSt ℝ) (hs : StOK g s)
    (sampled : Bool) (draw : DrawFn ℝ) (it target : Nat) (log : List (DrawRec ℝ)) (one : Bool) (i : Nat) :
    stratUpdates one i (vanillaMultiEffects g (vanillaCtx g sampled draw it s) target log).1
      = acqCount (.player one i) (vtrace (vanillaCtx g sampled draw it s) g.root { log := log }).1 :=
  vanilla_multi_locks_eq_visits g _ (stratsNonempty_of_wf g hg s hs sampled draw it) target log one i

/-- non-vacuity: the initial state of every accepted game qualifies -/
theorem vanilla_multi_locks_eq_visits_init (g : Game ℝ) (hg : GameWF g) (sampled : Bool) (draw : DrawFn ℝ)
    (target : Nat) (one : Bool) (i : Nat) :
    stratUpdates one i (vanillaMultiEffects g (vanillaCtx g sampled draw 1 (SolveSt.init g)) target []).1
      = acqCount (.player one i) (vtrace (vanillaCtx g sampled draw 1 (SolveSt.init g)) g.root { log := [] }).1 :=
  vanilla_multi_locks_eq_visits_run g hg _ (stOK_init g hg) sampled draw 1 target [] one i

end Cfr
