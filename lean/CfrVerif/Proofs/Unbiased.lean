import CfrVerif.Proofs.Trajectory
import CfrVerif.Proofs.WellFormed
/-!
# The sampled regret increments are unbiased estimators of the counterfactual regrets

One chance-sampled pass draws one outcome per chance infoset (`Draws`), independently, outcome
`j` of infoset `i` with its declared probability.  `expectDraws` is the expectation over that
product distribution, as an explicit finite sum.  Provided no chance infoset occurs twice on a
root-to-leaf path (otherwise the two occurrences are perfectly correlated in the sampled pass but
independent in the game — known finding F16), the expected regret accumulation of the sampled
traversal at every `(infoset, action)` equals the accumulation of the unsampled traversal, i.e.
the exact instantaneous counterfactual regret.

Proof outline (`Cfr.Unb`): `expectDraws` is linear and the draw of one infoset can be integrated
first (`expectDraws_pull`, Fubini for the finite product); `pm` is a pure mirror of `vrec` (draws as
a function, no cache, no accumulators) that `vrec` agrees with from any cache consistent with the
draws (`vrec_pm`); a subtree only reads the draws of its own chance infosets (`pm_congr`); the value
ignores the chance reach and the regret deltas are linear in it (`pm_scale`); induction on the tree
(`unb_pm`).  No validity of the profile is needed.  Closed examples over `ℚ` at the end: a game
where both sides are `23/10`, and a well-formed game repeating a chance infoset on a path where the
expectation is `1/4` against the exact `1/8`.
-/
set_option linter.unusedSectionVars false
namespace Cfr
variable {α : Type} [Field α] [LinearOrder α] [IsStrictOrderedRing α]

/-- the draws of one pass: the outcome index of every chance infoset -/
abbrev Draws := Nat → Nat

/-- `Σ_j ps[j] * f j` -/
def expectOne (ps : List α) (f : Nat → α) : α :=
  ((List.range ps.length).map (fun j => ps.getD j 0 * f j)).sum

/-- expectation of `f` over independent draws: infoset `i + t` is drawn from the `t`-th list -/
def expectDraws : List (List α) → Nat → Draws → (Draws → α) → α
  | [], _, k, f => f k
  | ps :: rest, i, k, f =>
    expectOne ps (fun j => expectDraws rest (i + 1) (fun x => if x = i then j else k x) f)

mutual
/-- no chance infoset occurs twice on a root-to-leaf path -/
def NoChanceRepeat : List Nat → Node α → Prop
  | _, .term _ => True
  | seen, .chance i ks => i ∉ seen ∧ NoChanceRepeatL (i :: seen) ks
  | seen, .player _ _ ks => NoChanceRepeatL seen ks
def NoChanceRepeatL : List Nat → List (Node α) → Prop
  | _, [] => True
  | seen, k :: ks => NoChanceRepeat seen k ∧ NoChanceRepeatL seen ks
end

/-- the context of a chance-sampled pass whose draws are `k` -/
def sampledCtx (g : Game α) (strat : Bool → Nat → List α) (pass : Nat) (k : Draws) : VCtx α :=
  ⟨g.chance, true, strat, fun _ i _ _ => k i, pass⟩

/-- the context of the unsampled traversal with the same strategies -/
def fullCtx (g : Game α) (strat : Bool → Nat → List α) (pass : Nat) : VCtx α :=
  ⟨g.chance, false, strat, fun _ _ _ _ => 0, pass⟩


/-! Everything up to the two theorems is internal to their proofs and lives in `Cfr.Unb`. -/
namespace Unb

/-- overwrite one draw -/
def upd (k : Draws) (x j : Nat) : Draws := fun y => if y = x then j else k y

theorem upd_same (k : Draws) (x j : Nat) : upd k x j x = j := by simp [upd]
theorem upd_upd (k : Draws) (x j j' : Nat) : upd (upd k x j') x j = upd k x j := by
  funext y; simp only [upd]; split_ifs <;> rfl
theorem upd_comm (k : Draws) (x y j j' : Nat) (h : x ≠ y) :
    upd (upd k x j) y j' = upd (upd k y j') x j := by
  funext z; simp only [upd]; split_ifs with h1 h2 <;> first | rfl | omega

/-! ## `expectOne` -/

theorem expectOne_nil (f : Nat → α) : expectOne ([] : List α) f = 0 := by simp [expectOne]

theorem expectOne_cons (p : α) (ps : List α) (f : Nat → α) :
    expectOne (p :: ps) f = p * f 0 + expectOne ps (fun j => f (j + 1)) := by
  simp [expectOne, List.range_succ_eq_map, List.map_map, Function.comp_def]

theorem expectOne_congr (ps : List α) (f g : Nat → α) (h : ∀ j, j < ps.length → f j = g j) :
    expectOne ps f = expectOne ps g := by
  induction ps generalizing f g with
  | nil => simp [expectOne_nil]
  | cons p ps ih =>
    rw [expectOne_cons, expectOne_cons, h 0 (by simp), ih _ _ (fun j hj => h (j + 1) (by simpa using hj))]

theorem expectOne_add (ps : List α) (f g : Nat → α) :
    expectOne ps (fun j => f j + g j) = expectOne ps f + expectOne ps g := by
  induction ps generalizing f g with
  | nil => simp [expectOne_nil]
  | cons p ps ih => simp only [expectOne_cons, ih]; ring

theorem expectOne_mul_left (ps : List α) (c : α) (f : Nat → α) :
    expectOne ps (fun j => c * f j) = c * expectOne ps f := by
  induction ps generalizing f with
  | nil => simp [expectOne_nil]
  | cons p ps ih => simp only [expectOne_cons, ih]; ring

theorem expectOne_const (ps : List α) (c : α) : expectOne ps (fun _ => c) = ps.sum * c := by
  induction ps with
  | nil => simp [expectOne_nil]
  | cons p ps ih => simp only [expectOne_cons, ih, List.sum_cons]; ring

theorem expectOne_comm (ps qs : List α) (g : Nat → Nat → α) :
    expectOne ps (fun a => expectOne qs (fun b => g a b))
      = expectOne qs (fun b => expectOne ps (fun a => g a b)) := by
  induction ps generalizing g with
  | nil => simp [expectOne_nil, expectOne_const]
  | cons p ps ih =>
    simp only [expectOne_cons, ih, expectOne_add, expectOne_mul_left]

/-! ## `expectDraws` -/

theorem expectDraws_congr (ch : List (List α)) (i : Nat) (k : Draws) (f g : Draws → α)
    (h : ∀ k, f k = g k) : expectDraws ch i k f = expectDraws ch i k g := by
  rw [show f = g from funext h]

theorem expectDraws_add (ch : List (List α)) (i : Nat) (k : Draws) (f g : Draws → α) :
    expectDraws ch i k (fun x => f x + g x) = expectDraws ch i k f + expectDraws ch i k g := by
  induction ch generalizing i k with
  | nil => rfl
  | cons ps ch ih => simp only [expectDraws, ih, expectOne_add]

theorem expectDraws_mul_left (ch : List (List α)) (i : Nat) (k : Draws) (c : α) (f : Draws → α) :
    expectDraws ch i k (fun x => c * f x) = c * expectDraws ch i k f := by
  induction ch generalizing i k with
  | nil => rfl
  | cons ps ch ih => simp only [expectDraws, ih, expectOne_mul_left]

theorem expectDraws_const (ch : List (List α)) (h : ∀ ps ∈ ch, ps.sum = 1) (i : Nat) (k : Draws)
    (c : α) : expectDraws ch i k (fun _ => c) = c := by
  induction ch generalizing i k with
  | nil => rfl
  | cons ps ch ih =>
    simp only [expectDraws]
    rw [expectOne_congr _ _ (fun _ => c) (fun j _ => ih (fun q hq => h q (List.mem_cons_of_mem _ hq)) _ _),
      expectOne_const, h ps List.mem_cons_self, one_mul]

/-- a draw outside the range being integrated can be fixed before or after -/
theorem expectDraws_upd_lt (ch : List (List α)) (s : Nat) (k : Draws) (x j : Nat) (hx : x < s)
    (f : Draws → α) :
    expectDraws ch s k (fun k' => f (upd k' x j)) = expectDraws ch s (upd k x j) f := by
  induction ch generalizing s k with
  | nil => rfl
  | cons ps ch ih =>
    simp only [expectDraws]
    apply expectOne_congr
    intro j' _
    refine (ih (s + 1) (upd k s j') (by omega)).trans ?_
    congr 1
    funext z
    simp only [upd]
    split_ifs <;> first | rfl | omega

/-- Fubini: the draw of one infoset can be integrated first -/
theorem expectDraws_pull (ch : List (List α)) (s : Nat) (k : Draws) (t : Nat) (ps : List α)
    (ht : ch[t]? = some ps) (h1 : ps.sum = 1) (f : Draws → α) :
    expectDraws ch s k f
      = expectOne ps (fun j => expectDraws ch s k (fun k' => f (upd k' (s + t) j))) := by
  induction ch generalizing s k t with
  | nil => simp at ht
  | cons q ch ih =>
    cases t with
    | zero =>
      simp only [List.getElem?_cons_zero, Option.some.injEq] at ht
      subst ht
      simp only [expectDraws, Nat.add_zero]
      have : ∀ j j', expectDraws ch (s + 1) (fun x => if x = s then j' else k x)
            (fun k' => f (upd k' s j))
          = expectDraws ch (s + 1) (fun x => if x = s then j else k x) f := by
        intro j j'
        rw [expectDraws_upd_lt ch (s + 1) _ s j (by omega) f]
        congr 1
        funext z
        simp only [upd]
        split_ifs <;> rfl
      simp only [this, expectOne_const, h1, one_mul]
    | succ t =>
      simp only [List.getElem?_cons_succ] at ht
      simp only [expectDraws]
      rw [expectOne_comm]
      apply expectOne_congr
      intro j' _
      rw [ih (s + 1) _ t ht]
      simp only [show s + 1 + t = s + (t + 1) by omega]


/-! ## a pure mirror of the traversal: draws given as a function, no cache, no accumulators -/

mutual
def pm (ch : List (List α)) (smp : Bool) (strat : Bool → Nat → List α) (k : Draws) :
    Node α → α → α → α → α × List (Eff α)
  | .term p, _, _, _ => (p, [])
  | .chance i ks, pc, p1, p2 =>
    if smp then pmNth ch smp strat k ks (k i) pc p1 p2
    else pmCh ch smp strat k (ch.getD i []) ks pc p1 p2
  | .player one i ks, pc, p1, p2 =>
    let r := pmActs ch smp strat k one i (if one then pc * p2 else -p1 * pc) (strat one i) ks pc p1 p2 0
    (r.1, stratEffs one i (if one then p1 else p2) (strat one i) 0 ++ r.2.2
      ++ subEffs one i r.2.1 (strat one i).length)
def pmNth (ch : List (List α)) (smp : Bool) (strat : Bool → Nat → List α) (k : Draws) :
    List (Node α) → Nat → α → α → α → α × List (Eff α)
  | [], _, _, _, _ => (0, [])
  | n :: _, 0, pc, p1, p2 => pm ch smp strat k n pc p1 p2
  | _ :: ks, j + 1, pc, p1, p2 => pmNth ch smp strat k ks j pc p1 p2
def pmCh (ch : List (List α)) (smp : Bool) (strat : Bool → Nat → List α) (k : Draws) :
    List α → List (Node α) → α → α → α → α × List (Eff α)
  | p :: ps, n :: ks, pc, p1, p2 =>
    let r := pm ch smp strat k n (pc * p) p1 p2
    let r' := pmCh ch smp strat k ps ks pc p1 p2
    (p * r.1 + r'.1, r.2 ++ r'.2)
  | _, _, _, _, _ => (0, [])
def pmActs (ch : List (List α)) (smp : Bool) (strat : Bool → Nat → List α) (k : Draws)
    (one : Bool) (i : Nat) (mult : α) :
    List α → List (Node α) → α → α → α → Nat → α × α × List (Eff α)
  | s :: σ, n :: ks, pc, p1, p2, a =>
    let r := if one then pm ch smp strat k n pc (p1 * s) p2 else pm ch smp strat k n pc p1 (p2 * s)
    let r' := pmActs ch smp strat k one i mult σ ks pc p1 p2 (a + 1)
    (s * r.1 + r'.1, r.1 * mult * s + r'.2.1, r.2 ++ ⟨one, i, .regret, a, r.1 * mult⟩ :: r'.2.2)
  | _, _, _, _, _, _ => (0, 0, [])
end

theorem pmCh_nil_right (ch : List (List α)) (smp : Bool) (strat : Bool → Nat → List α) (k : Draws)
    (ps : List α) (pc p1 p2 : α) : pmCh ch smp strat k ps [] pc p1 p2 = (0, []) := by
  cases ps <;> simp [pmCh]
theorem pmActs_nil_right (ch : List (List α)) (smp : Bool) (strat : Bool → Nat → List α) (k : Draws)
    (one : Bool) (i : Nat) (mult : α) (σ : List α) (pc p1 p2 : α) (a : Nat) :
    pmActs ch smp strat k one i mult σ [] pc p1 p2 a = (0, 0, []) := by
  cases σ <;> simp [pmActs]

/-- every cached sample is the draw `k` -/
def ConsK (k : Draws) (d : DrawSt α) : Prop := ∀ i v, assocGet d.chance i = some v → v = k i

theorem ConsK_empty (k : Draws) : ConsK k ({} : DrawSt α) := by
  intro i v h; simp [assocGet] at h

/-- in sampled mode the oracle answers `k` -/
def CtxK (c : VCtx α) (k : Draws) : Prop := c.sampled = true → ∀ i ps, c.draw 0 i c.pass ps = k i

theorem sampleChance_consK (c : VCtx α) (k : Draws) (hc : CtxK c k) (hs : c.sampled = true)
    (ps : List α) (i : Nat) (d : DrawSt α) (hd : ConsK k d) :
    (sampleChance c.draw c.pass ps i d).1 = k i ∧ ConsK k (sampleChance c.draw c.pass ps i d).2 := by
  cases hg : assocGet d.chance i with
  | some v => simp only [sampleChance, hg]; exact ⟨hd i v hg, hd⟩
  | none =>
    simp only [sampleChance, hg]
    refine ⟨hc hs i ps, ?_⟩
    intro j v hj
    simp only [assocGet, List.find?_cons] at hj
    by_cases hij : i = j
    · subst hij; simp at hj; rw [← hj]; exact hc hs i ps
    · have : (i == j) = false := by simpa using hij
      simp only [this] at hj
      exact hd j v hj

mutual
theorem vrec_pm (c : VCtx α) (k : Draws) (hc : CtxK c k) :
    ∀ (n : Node α) (pc p1 p2 : α) (d : DrawSt α), ConsK k d →
      (vrec c n pc p1 p2 d).1 = (pm c.ch c.sampled c.strat k n pc p1 p2).1 ∧
      (vrec c n pc p1 p2 d).2.1 = (pm c.ch c.sampled c.strat k n pc p1 p2).2 ∧
      ConsK k (vrec c n pc p1 p2 d).2.2
  | .term p, pc, p1, p2, d, hd => by simp [vrec_term, pm, hd]
  | .chance i ks, pc, p1, p2, d, hd => by
    cases hs : c.sampled with
    | true =>
      obtain ⟨h1, h2⟩ := sampleChance_consK c k hc hs (c.ch.getD i []) i d hd
      simp only [vrec, pm, hs, if_true]
      rw [h1]
      have := vrecNth_pm c k hc ks (k i) pc p1 p2 _ h2
      rw [hs] at this
      exact this
    | false =>
      rw [vrec_chance c hs]
      simp only [pm, Bool.false_eq_true, if_false]
      have := vrecChance_pm c k hc (c.ch.getD i []) ks pc p1 p2 d 0 hd
      rw [hs] at this
      simpa using this
  | .player one i ks, pc, p1, p2, d, hd => by
    rw [vrec_player]
    obtain ⟨h1, h2, h3, h4⟩ := vrecActs_pm c k hc one i (if one then pc * p2 else -p1 * pc)
      (c.strat one i) ks pc p1 p2 d 0 0 0 hd
    simp only [pm]
    refine ⟨?_, ?_, h4⟩
    · rw [h1, zero_add]
    · rw [h2, h3, zero_add]
theorem vrecNth_pm (c : VCtx α) (k : Draws) (hc : CtxK c k) :
    ∀ (ks : List (Node α)) (j : Nat) (pc p1 p2 : α) (d : DrawSt α), ConsK k d →
      (vrecNth c ks j pc p1 p2 d).1 = (pmNth c.ch c.sampled c.strat k ks j pc p1 p2).1 ∧
      (vrecNth c ks j pc p1 p2 d).2.1 = (pmNth c.ch c.sampled c.strat k ks j pc p1 p2).2 ∧
      ConsK k (vrecNth c ks j pc p1 p2 d).2.2
  | [], _, _, _, _, d, hd => by simp [vrecNth, pmNth, hd]
  | n :: _, 0, pc, p1, p2, d, hd => by
    simp only [vrecNth, pmNth]; exact vrec_pm c k hc n pc p1 p2 d hd
  | _ :: ks, j + 1, pc, p1, p2, d, hd => by
    simp only [vrecNth, pmNth]; exact vrecNth_pm c k hc ks j pc p1 p2 d hd
theorem vrecChance_pm (c : VCtx α) (k : Draws) (hc : CtxK c k) :
    ∀ (ps : List α) (ks : List (Node α)) (pc p1 p2 : α) (d : DrawSt α) (acc : α), ConsK k d →
      (vrecChance c ps ks pc p1 p2 d acc).1
        = acc + (pmCh c.ch c.sampled c.strat k ps ks pc p1 p2).1 ∧
      (vrecChance c ps ks pc p1 p2 d acc).2.1 = (pmCh c.ch c.sampled c.strat k ps ks pc p1 p2).2 ∧
      ConsK k (vrecChance c ps ks pc p1 p2 d acc).2.2
  | p :: ps, n :: ks, pc, p1, p2, d, acc, hd => by
    rw [vrecChance_cons]
    obtain ⟨h1, h2, h3⟩ := vrec_pm c k hc n (pc * p) p1 p2 d hd
    obtain ⟨g1, g2, g3⟩ := vrecChance_pm c k hc ps ks pc p1 p2 (vrec c n (pc * p) p1 p2 d).2.2
      (acc + p * (vrec c n (pc * p) p1 p2 d).1) h3
    simp only [pmCh]
    refine ⟨?_, ?_, g3⟩
    · rw [g1, h1]; ring
    · rw [g2, h2]
  | [], _, _, _, _, d, acc, hd => by simp [vrecChance, pmCh, hd]
  | _ :: _, [], _, _, _, d, acc, hd => by simp [vrecChance, pmCh, hd]
theorem vrecActs_pm (c : VCtx α) (k : Draws) (hc : CtxK c k) (one : Bool) (i : Nat) (mult : α) :
    ∀ (σ : List α) (ks : List (Node α)) (pc p1 p2 : α) (d : DrawSt α) (a : Nat) (eo ex : α),
      ConsK k d →
      (vrecActs c one i mult σ ks pc p1 p2 d a eo ex).1
        = eo + (pmActs c.ch c.sampled c.strat k one i mult σ ks pc p1 p2 a).1 ∧
      (vrecActs c one i mult σ ks pc p1 p2 d a eo ex).2.1
        = ex + (pmActs c.ch c.sampled c.strat k one i mult σ ks pc p1 p2 a).2.1 ∧
      (vrecActs c one i mult σ ks pc p1 p2 d a eo ex).2.2.1
        = (pmActs c.ch c.sampled c.strat k one i mult σ ks pc p1 p2 a).2.2 ∧
      ConsK k (vrecActs c one i mult σ ks pc p1 p2 d a eo ex).2.2.2
  | s :: σ, n :: ks, pc, p1, p2, d, a, eo, ex, hd => by
    rw [vrecActs_cons]
    have hr : (if one = true then vrec c n pc (p1 * s) p2 d else vrec c n pc p1 (p2 * s) d).1
          = (if one = true then pm c.ch c.sampled c.strat k n pc (p1 * s) p2
              else pm c.ch c.sampled c.strat k n pc p1 (p2 * s)).1 ∧
        (if one = true then vrec c n pc (p1 * s) p2 d else vrec c n pc p1 (p2 * s) d).2.1
          = (if one = true then pm c.ch c.sampled c.strat k n pc (p1 * s) p2
              else pm c.ch c.sampled c.strat k n pc p1 (p2 * s)).2 ∧
        ConsK k (if one = true then vrec c n pc (p1 * s) p2 d else vrec c n pc p1 (p2 * s) d).2.2 := by
      cases one
      · simpa using vrec_pm c k hc n pc p1 (p2 * s) d hd
      · simpa using vrec_pm c k hc n pc (p1 * s) p2 d hd
    obtain ⟨h1, h2, h3⟩ := hr
    obtain ⟨g1, g2, g3, g4⟩ := vrecActs_pm c k hc one i mult σ ks pc p1 p2 _ (a + 1)
      (eo + s * (if one = true then vrec c n pc (p1 * s) p2 d else vrec c n pc p1 (p2 * s) d).1)
      (ex + (if one = true then vrec c n pc (p1 * s) p2 d else vrec c n pc p1 (p2 * s) d).1 * mult * s)
      h3
    simp only [pmActs]
    refine ⟨?_, ?_, ?_, g4⟩
    · rw [g1, h1]; ring
    · rw [g2, h1]; ring
    · rw [g3, h1, h2]
  | [], _, _, _, _, d, _, eo, ex, hd => by simp [vrecActs, pmActs, hd]
  | _ :: _, [], _, _, _, d, _, eo, ex, hd => by simp [vrecActs, pmActs, hd]
end


theorem expectDraws_zero (ch : List (List α)) (i : Nat) (k : Draws) :
    expectDraws ch i k (fun _ => (0 : α)) = 0 := by
  have := expectDraws_mul_left ch i k 0 (fun _ => (0 : α))
  simpa using this

theorem expectDraws_neg (ch : List (List α)) (i : Nat) (k : Draws) (f : Draws → α) :
    expectDraws ch i k (fun x => - f x) = - expectDraws ch i k f := by
  have := expectDraws_mul_left ch i k (-1) f
  simpa using this

theorem expectDraws_mul_right (ch : List (List α)) (i : Nat) (k : Draws) (c : α) (f : Draws → α) :
    expectDraws ch i k (fun x => f x * c) = expectDraws ch i k f * c := by
  rw [mul_comm, ← expectDraws_mul_left]
  exact expectDraws_congr _ _ _ _ _ (fun _ => mul_comm _ _)

/-- what a list of accumulations adds to the regret cell `(me, I, a)` -/
def rg (me : Bool) (I a : Nat) (es : List (Eff α)) : α := effSum es me I Slot.regret a

@[simp] theorem rg_nil (me : Bool) (I a : Nat) : rg me I a ([] : List (Eff α)) = 0 := by simp [rg]
@[simp] theorem rg_append (me : Bool) (I a : Nat) (es es' : List (Eff α)) :
    rg me I a (es ++ es') = rg me I a es + rg me I a es' := by simp [rg]
theorem rg_cons (me : Bool) (I a : Nat) (one : Bool) (i b : Nat) (δ : α) (es : List (Eff α)) :
    rg me I a (⟨one, i, .regret, b, δ⟩ :: es)
      = (if one = me ∧ i = I ∧ b = a then δ else 0) + rg me I a es := by
  simp [rg, effSum_cons]
@[simp] theorem rg_stratEffs (me : Bool) (I a : Nat) (one : Bool) (i : Nat) (own : α) (σ : List α)
    (b : Nat) : rg me I a (stratEffs one i own σ b) = 0 := effSum_stratEffs_regret one i own me I a σ b
theorem rg_subEffs (me : Bool) (I a : Nat) (one : Bool) (i : Nat) (sub : α) (n : Nat) :
    rg me I a (subEffs one i sub n) = if one = me ∧ i = I ∧ a < n then -sub else 0 :=
  effSum_subEffs_regret one i sub n me I a

section
variable (ch : List (List α)) (smp : Bool) (strat : Bool → Nat → List α) (me : Bool) (I a : Nat)

/-! ## the value ignores the chance reach, the regret deltas are linear in it -/

mutual
theorem pm_scale (k : Draws) (q : α) : ∀ (n : Node α) (pc p1 p2 : α),
    (pm ch smp strat k n (pc * q) p1 p2).1 = (pm ch smp strat k n pc p1 p2).1 ∧
    rg me I a (pm ch smp strat k n (pc * q) p1 p2).2 = q * rg me I a (pm ch smp strat k n pc p1 p2).2
  | .term p, pc, p1, p2 => by simp [pm]
  | .chance i ks, pc, p1, p2 => by
    simp only [pm]
    split_ifs
    · exact pmNth_scale k q ks (k i) pc p1 p2
    · exact pmCh_scale k q _ ks pc p1 p2
  | .player one i ks, pc, p1, p2 => by
    have hm : (if one then pc * q * p2 else -p1 * (pc * q))
        = (if one then pc * p2 else -p1 * pc) * q := by cases one <;> simp <;> ring
    obtain ⟨h1, h2, h3⟩ := pmActs_scale k q one i (if one then pc * p2 else -p1 * pc)
      (strat one i) ks pc p1 p2 0
    simp only [pm, hm, h1, h2, rg_append, h3, rg_stratEffs, rg_subEffs, zero_add, true_and]
    split_ifs <;> ring
theorem pmNth_scale (k : Draws) (q : α) : ∀ (ks : List (Node α)) (j : Nat) (pc p1 p2 : α),
    (pmNth ch smp strat k ks j (pc * q) p1 p2).1 = (pmNth ch smp strat k ks j pc p1 p2).1 ∧
    rg me I a (pmNth ch smp strat k ks j (pc * q) p1 p2).2
      = q * rg me I a (pmNth ch smp strat k ks j pc p1 p2).2
  | [], _, _, _, _ => by simp [pmNth]
  | n :: _, 0, pc, p1, p2 => by simp only [pmNth]; exact pm_scale k q n pc p1 p2
  | _ :: ks, j + 1, pc, p1, p2 => by simp only [pmNth]; exact pmNth_scale k q ks j pc p1 p2
theorem pmCh_scale (k : Draws) (q : α) : ∀ (ps : List α) (ks : List (Node α)) (pc p1 p2 : α),
    (pmCh ch smp strat k ps ks (pc * q) p1 p2).1 = (pmCh ch smp strat k ps ks pc p1 p2).1 ∧
    rg me I a (pmCh ch smp strat k ps ks (pc * q) p1 p2).2
      = q * rg me I a (pmCh ch smp strat k ps ks pc p1 p2).2
  | p :: ps, n :: ks, pc, p1, p2 => by
    obtain ⟨h1, h2⟩ := pm_scale k q n (pc * p) p1 p2
    obtain ⟨g1, g2⟩ := pmCh_scale k q ps ks pc p1 p2
    simp only [pmCh, rg_append, show pc * q * p = pc * p * q by ring, h1, h2, g1, g2, true_and]
    ring
  | [], _, _, _, _ => by simp [pmCh]
  | _ :: _, [], _, _, _ => by simp [pmCh]
theorem pmActs_scale (k : Draws) (q : α) (one : Bool) (i : Nat) (mult : α) :
    ∀ (σ : List α) (ks : List (Node α)) (pc p1 p2 : α) (b : Nat),
    (pmActs ch smp strat k one i (mult * q) σ ks (pc * q) p1 p2 b).1
      = (pmActs ch smp strat k one i mult σ ks pc p1 p2 b).1 ∧
    (pmActs ch smp strat k one i (mult * q) σ ks (pc * q) p1 p2 b).2.1
      = q * (pmActs ch smp strat k one i mult σ ks pc p1 p2 b).2.1 ∧
    rg me I a (pmActs ch smp strat k one i (mult * q) σ ks (pc * q) p1 p2 b).2.2
      = q * rg me I a (pmActs ch smp strat k one i mult σ ks pc p1 p2 b).2.2
  | s :: σ, n :: ks, pc, p1, p2, b => by
    have hr : (if one = true then pm ch smp strat k n (pc * q) (p1 * s) p2
            else pm ch smp strat k n (pc * q) p1 (p2 * s)).1
          = (if one = true then pm ch smp strat k n pc (p1 * s) p2
            else pm ch smp strat k n pc p1 (p2 * s)).1 ∧
        rg me I a (if one = true then pm ch smp strat k n (pc * q) (p1 * s) p2
            else pm ch smp strat k n (pc * q) p1 (p2 * s)).2
          = q * rg me I a (if one = true then pm ch smp strat k n pc (p1 * s) p2
            else pm ch smp strat k n pc p1 (p2 * s)).2 := by
      cases one
      · simpa using pm_scale k q n pc p1 (p2 * s)
      · simpa using pm_scale k q n pc (p1 * s) p2
    obtain ⟨h1, h2⟩ := hr
    obtain ⟨g1, g2, g3⟩ := pmActs_scale k q one i mult σ ks pc p1 p2 (b + 1)
    simp only [pmActs, rg_append, rg_cons, h1, h2, g1, g2, g3, true_and]
    constructor
    · ring
    · split_ifs <;> ring
  | [], _, _, _, _, _ => by simp [pmActs]
  | _ :: _, [], _, _, _, _ => by simp [pmActs]
end

/-! ## a subtree only reads the draws of its own chance infosets -/

mutual
theorem pm_congr (k k' : Draws) : ∀ (n : Node α) (seen : List Nat) (pc p1 p2 : α),
    NoChanceRepeat seen n → (∀ x, x ∉ seen → k x = k' x) →
    pm ch smp strat k n pc p1 p2 = pm ch smp strat k' n pc p1 p2
  | .term p, _, _, _, _, _, _ => by simp only [pm]
  | .chance i ks, seen, pc, p1, p2, h, hk => by
    obtain ⟨hi, hks⟩ := (by simpa [NoChanceRepeat] using h : i ∉ seen ∧ NoChanceRepeatL (i :: seen) ks)
    have hk' : ∀ x, x ∉ i :: seen → k x = k' x := fun x hx => hk x (fun h => hx (List.mem_cons_of_mem _ h))
    simp only [pm]
    rw [hk i hi, pmNth_congr k k' ks (i :: seen) _ pc p1 p2 hks hk',
      pmCh_congr k k' _ ks (i :: seen) pc p1 p2 hks hk']
  | .player one i ks, seen, pc, p1, p2, h, hk => by
    have hks : NoChanceRepeatL seen ks := by simpa [NoChanceRepeat] using h
    simp only [pm]
    rw [pmActs_congr k k' one i _ _ ks seen pc p1 p2 0 hks hk]
theorem pmNth_congr (k k' : Draws) : ∀ (ks : List (Node α)) (seen : List Nat) (j : Nat) (pc p1 p2 : α),
    NoChanceRepeatL seen ks → (∀ x, x ∉ seen → k x = k' x) →
    pmNth ch smp strat k ks j pc p1 p2 = pmNth ch smp strat k' ks j pc p1 p2
  | [], _, _, _, _, _, _, _ => by simp only [pmNth]
  | n :: _, seen, 0, pc, p1, p2, h, hk => by
    obtain ⟨h1, _⟩ := (by simpa [NoChanceRepeatL] using h :
      NoChanceRepeat seen n ∧ NoChanceRepeatL seen _)
    simp only [pmNth]; exact pm_congr k k' n seen pc p1 p2 h1 hk
  | _ :: ks, seen, j + 1, pc, p1, p2, h, hk => by
    obtain ⟨_, h2⟩ := (by simpa [NoChanceRepeatL] using h :
      NoChanceRepeat seen _ ∧ NoChanceRepeatL seen ks)
    simp only [pmNth]; exact pmNth_congr k k' ks seen j pc p1 p2 h2 hk
theorem pmCh_congr (k k' : Draws) : ∀ (ps : List α) (ks : List (Node α)) (seen : List Nat)
    (pc p1 p2 : α), NoChanceRepeatL seen ks → (∀ x, x ∉ seen → k x = k' x) →
    pmCh ch smp strat k ps ks pc p1 p2 = pmCh ch smp strat k' ps ks pc p1 p2
  | p :: ps, n :: ks, seen, pc, p1, p2, h, hk => by
    obtain ⟨h1, h2⟩ := (by simpa [NoChanceRepeatL] using h :
      NoChanceRepeat seen n ∧ NoChanceRepeatL seen ks)
    simp only [pmCh]
    rw [pm_congr k k' n seen _ p1 p2 h1 hk, pmCh_congr k k' ps ks seen pc p1 p2 h2 hk]
  | [], _, _, _, _, _, _, _ => by simp only [pmCh]
  | _ :: _, [], _, _, _, _, _, _ => by simp only [pmCh]
theorem pmActs_congr (k k' : Draws) (one : Bool) (i : Nat) (mult : α) :
    ∀ (σ : List α) (ks : List (Node α)) (seen : List Nat) (pc p1 p2 : α) (b : Nat),
    NoChanceRepeatL seen ks → (∀ x, x ∉ seen → k x = k' x) →
    pmActs ch smp strat k one i mult σ ks pc p1 p2 b = pmActs ch smp strat k' one i mult σ ks pc p1 p2 b
  | s :: σ, n :: ks, seen, pc, p1, p2, b, h, hk => by
    obtain ⟨h1, h2⟩ := (by simpa [NoChanceRepeatL] using h :
      NoChanceRepeat seen n ∧ NoChanceRepeatL seen ks)
    simp only [pmActs]
    rw [pm_congr k k' n seen pc (p1 * s) p2 h1 hk, pm_congr k k' n seen pc p1 (p2 * s) h1 hk,
      pmActs_congr k k' one i mult σ ks seen pc p1 p2 (b + 1) h2 hk]
  | [], _, _, _, _, _, _, _, _ => by simp only [pmActs]
  | _ :: _, [], _, _, _, _, _, _, _ => by simp only [pmActs]
end

/-- averaging the children of a chance node with the outcome probabilities is what the unsampled
traversal does at that node -/
theorem expectOne_pmNth (k : Draws) : ∀ (ps : List α) (ks : List (Node α)) (pc p1 p2 : α),
    expectOne ps (fun j => (pmNth ch smp strat k ks j pc p1 p2).1)
      = (pmCh ch smp strat k ps ks pc p1 p2).1 ∧
    expectOne ps (fun j => rg me I a (pmNth ch smp strat k ks j pc p1 p2).2)
      = rg me I a (pmCh ch smp strat k ps ks pc p1 p2).2
  | [], _, _, _, _ => by simp [expectOne_nil, pmCh]
  | _ :: _, [], _, _, _ => by simp [pmNth, pmCh, expectOne_const]
  | p :: ps, n :: ks, pc, p1, p2 => by
    obtain ⟨h1, h2⟩ := expectOne_pmNth k ps ks pc p1 p2
    obtain ⟨g1, g2⟩ := pm_scale ch smp strat me I a k p n pc p1 p2
    simp only [expectOne_cons, pmNth, pmCh, rg_append, h1, h2, g1, g2, true_and]

end


/-! ## the expectation of the sampled traversal is the unsampled traversal -/

section
variable (g : Game α) (hsum : ∀ ps ∈ g.chance, ps.sum = 1) (strat : Bool → Nat → List α)
  (k0 : Draws) (me : Bool) (I a : Nat)
include hsum

mutual
theorem unb_pm : ∀ (n : Node α) (seen : List Nat) (pc p1 p2 : α),
    NodeOK g n → NoChanceRepeat seen n →
    expectDraws g.chance 0 k0 (fun k => (pm g.chance true strat k n pc p1 p2).1)
      = (pm g.chance false strat k0 n pc p1 p2).1 ∧
    expectDraws g.chance 0 k0 (fun k => rg me I a (pm g.chance true strat k n pc p1 p2).2)
      = rg me I a (pm g.chance false strat k0 n pc p1 p2).2
  | .term p, _, _, _, _, _, _ => by
    simp [pm, expectDraws_const _ hsum]
  | .chance i ks, seen, pc, p1, p2, hok, hnr => by
    obtain ⟨⟨ps, hps, _⟩, _, hoks⟩ := (by simpa [NodeOK] using hok :
      (∃ ps, g.chance[i]? = some ps ∧ ps.length = ks.length) ∧ 2 ≤ ks.length ∧ NodeOKL g ks)
    obtain ⟨hi, hnrs⟩ := (by simpa [NoChanceRepeat] using hnr :
      i ∉ seen ∧ NoChanceRepeatL (i :: seen) ks)
    have hps1 : ps.sum = 1 := hsum ps (List.mem_of_getElem? hps)
    have hgd : g.chance.getD i [] = ps := by simp [List.getD_eq_getElem?_getD, hps]
    obtain ⟨e1, e2⟩ := expectOne_pmNth g.chance false strat me I a k0 ps ks pc p1 p2
    simp only [pm, if_true, Bool.false_eq_true, if_false, hgd]
    rw [← e1, ← e2]
    have hcg : ∀ (k : Draws) (j : Nat), pmNth g.chance true strat (upd k i j) ks j pc p1 p2
        = pmNth g.chance true strat k ks j pc p1 p2 := fun k j =>
      pmNth_congr g.chance true strat (upd k i j) k ks (i :: seen) j pc p1 p2 hnrs (fun x hx => by
        have : x ≠ i := fun h => hx (h ▸ List.mem_cons_self)
        simp [upd, this])
    constructor
    · rw [expectDraws_pull g.chance 0 k0 i ps hps hps1]
      apply expectOne_congr; intro j _
      simp only [Nat.zero_add, upd_same, hcg]
      exact (unb_pmNth ks (i :: seen) j pc p1 p2 hoks hnrs).1
    · rw [expectDraws_pull g.chance 0 k0 i ps hps hps1]
      apply expectOne_congr; intro j _
      simp only [Nat.zero_add, upd_same, hcg]
      exact (unb_pmNth ks (i :: seen) j pc p1 p2 hoks hnrs).2
  | .player one i ks, seen, pc, p1, p2, hok, hnr => by
    obtain ⟨_, _, hoks⟩ := (by simpa [NodeOK] using hok :
      (∃ e, (g.infos one)[i]? = some e ∧ e.actions.length = ks.length) ∧ 2 ≤ ks.length ∧ NodeOKL g ks)
    have hnrs : NoChanceRepeatL seen ks := by simpa [NoChanceRepeat] using hnr
    obtain ⟨h1, h2, h3⟩ := unb_pmActs one i (if one then pc * p2 else -p1 * pc) (strat one i) ks
      seen pc p1 p2 0 hoks hnrs
    simp only [pm, rg_append, rg_stratEffs, rg_subEffs, zero_add]
    refine ⟨h1, ?_⟩
    rw [expectDraws_add, h3]
    congr 1
    by_cases hc : one = me ∧ i = I ∧ a < (strat one i).length
    · simp only [if_pos hc]; rw [expectDraws_neg, h2]
    · simp only [if_neg hc]; exact expectDraws_zero _ _ _
theorem unb_pmNth : ∀ (ks : List (Node α)) (seen : List Nat) (j : Nat) (pc p1 p2 : α),
    NodeOKL g ks → NoChanceRepeatL seen ks →
    expectDraws g.chance 0 k0 (fun k => (pmNth g.chance true strat k ks j pc p1 p2).1)
      = (pmNth g.chance false strat k0 ks j pc p1 p2).1 ∧
    expectDraws g.chance 0 k0 (fun k => rg me I a (pmNth g.chance true strat k ks j pc p1 p2).2)
      = rg me I a (pmNth g.chance false strat k0 ks j pc p1 p2).2
  | [], _, _, _, _, _, _, _ => by simp [pmNth, expectDraws_zero]
  | n :: _, seen, 0, pc, p1, p2, hok, hnr => by
    obtain ⟨h1, _⟩ := (by simpa [NodeOKL] using hok : NodeOK g n ∧ NodeOKL g _)
    obtain ⟨g1, _⟩ := (by simpa [NoChanceRepeatL] using hnr :
      NoChanceRepeat seen n ∧ NoChanceRepeatL seen _)
    simp only [pmNth]; exact unb_pm n seen pc p1 p2 h1 g1
  | _ :: ks, seen, j + 1, pc, p1, p2, hok, hnr => by
    obtain ⟨_, h2⟩ := (by simpa [NodeOKL] using hok : NodeOK g _ ∧ NodeOKL g ks)
    obtain ⟨_, g2⟩ := (by simpa [NoChanceRepeatL] using hnr :
      NoChanceRepeat seen _ ∧ NoChanceRepeatL seen ks)
    simp only [pmNth]; exact unb_pmNth ks seen j pc p1 p2 h2 g2
theorem unb_pmActs (one : Bool) (i : Nat) (mult : α) :
    ∀ (σ : List α) (ks : List (Node α)) (seen : List Nat) (pc p1 p2 : α) (b : Nat),
    NodeOKL g ks → NoChanceRepeatL seen ks →
    expectDraws g.chance 0 k0 (fun k => (pmActs g.chance true strat k one i mult σ ks pc p1 p2 b).1)
      = (pmActs g.chance false strat k0 one i mult σ ks pc p1 p2 b).1 ∧
    expectDraws g.chance 0 k0 (fun k => (pmActs g.chance true strat k one i mult σ ks pc p1 p2 b).2.1)
      = (pmActs g.chance false strat k0 one i mult σ ks pc p1 p2 b).2.1 ∧
    expectDraws g.chance 0 k0
        (fun k => rg me I a (pmActs g.chance true strat k one i mult σ ks pc p1 p2 b).2.2)
      = rg me I a (pmActs g.chance false strat k0 one i mult σ ks pc p1 p2 b).2.2
  | s :: σ, n :: ks, seen, pc, p1, p2, b, hok, hnr => by
    obtain ⟨h1, h2⟩ := (by simpa [NodeOKL] using hok : NodeOK g n ∧ NodeOKL g ks)
    obtain ⟨g1, g2⟩ := (by simpa [NoChanceRepeatL] using hnr :
      NoChanceRepeat seen n ∧ NoChanceRepeatL seen ks)
    have hr : expectDraws g.chance 0 k0 (fun k =>
            (if one = true then pm g.chance true strat k n pc (p1 * s) p2
              else pm g.chance true strat k n pc p1 (p2 * s)).1)
          = (if one = true then pm g.chance false strat k0 n pc (p1 * s) p2
              else pm g.chance false strat k0 n pc p1 (p2 * s)).1 ∧
        expectDraws g.chance 0 k0 (fun k =>
            rg me I a (if one = true then pm g.chance true strat k n pc (p1 * s) p2
              else pm g.chance true strat k n pc p1 (p2 * s)).2)
          = rg me I a (if one = true then pm g.chance false strat k0 n pc (p1 * s) p2
              else pm g.chance false strat k0 n pc p1 (p2 * s)).2 := by
      cases one
      · simpa using unb_pm n seen pc p1 (p2 * s) h1 g1
      · simpa using unb_pm n seen pc (p1 * s) p2 h1 g1
    obtain ⟨r1, r2⟩ := hr
    obtain ⟨a1, a2, a3⟩ := unb_pmActs one i mult σ ks seen pc p1 p2 (b + 1) h2 g2
    simp only [pmActs, rg_append, rg_cons]
    refine ⟨?_, ?_, ?_⟩
    · rw [expectDraws_add, expectDraws_mul_left, r1, a1]
    · rw [expectDraws_add, expectDraws_mul_right, expectDraws_mul_right, r1, a2]
    · rw [expectDraws_add, expectDraws_add, r2, a3]
      congr 2
      by_cases hc : one = me ∧ i = I ∧ b = a
      · simp only [if_pos hc]; rw [expectDraws_mul_right, r1]
      · simp only [if_neg hc]; exact expectDraws_zero _ _ _
  | [], _, _, _, _, _, _, _, _ => by simp [pmActs, expectDraws_zero]
  | _ :: _, [], _, _, _, _, _, _, _ => by simp [pmActs, expectDraws_zero]
end

end

theorem ctxK_sampled (g : Game α) (strat : Bool → Nat → List α) (pass : Nat) (k : Draws) :
    CtxK (sampledCtx g strat pass k) k := fun _ _ _ => rfl
theorem ctxK_full (g : Game α) (strat : Bool → Nat → List α) (pass : Nat) (k : Draws) :
    CtxK (fullCtx g strat pass) k := fun h => by simp [fullCtx] at h


end Unb
open Unb

/-- **chance sampling is unbiased for the regrets**: for every well-formed game without a
repeated chance infoset on a path, every strategy profile the traversal may read, every infoset
and action, the expectation over the draws of one pass of what the sampled traversal adds to the
regret accumulator equals what the unsampled traversal adds -/
theorem sampled_pass_unbiased (g : Game α) (hg : GameWF g) (hnr : NoChanceRepeat [] g.root)
    (strat : Bool → Nat → List α) (pass : Nat) (me : Bool) (I a : Nat) :
    expectDraws g.chance 0 (fun _ => 0)
        (fun k => effSum (vrec (sampledCtx g strat pass k) g.root 1 1 1 {}).2.1 me I Slot.regret a)
      = effSum (vrec (fullCtx g strat pass) g.root 1 1 1 {}).2.1 me I Slot.regret a := by
  have hs : ∀ k, (vrec (sampledCtx g strat pass k) g.root 1 1 1 {}).2.1
      = (pm g.chance true strat k g.root 1 1 1).2 := fun k =>
    (vrec_pm _ k (ctxK_sampled g strat pass k) g.root 1 1 1 {} (ConsK_empty k)).2.1
  have hf : (vrec (fullCtx g strat pass) g.root 1 1 1 {}).2.1
      = (pm g.chance false strat (fun _ => 0) g.root 1 1 1).2 :=
    (vrec_pm _ _ (ctxK_full g strat pass _) g.root 1 1 1 {} (ConsK_empty _)).2.1
  simp only [hs, hf]
  exact (unb_pm g (fun ps h => (hg.chancePos ps h).2) strat (fun _ => 0) me I a g.root [] 1 1 1
    hg.nodes hnr).2

/-- the value returned by the sampled traversal is an unbiased estimate of the game value under
the current strategies -/
theorem sampled_value_unbiased (g : Game α) (hg : GameWF g) (hnr : NoChanceRepeat [] g.root)
    (strat : Bool → Nat → List α) (pass : Nat) :
    expectDraws g.chance 0 (fun _ => 0)
        (fun k => (vrec (sampledCtx g strat pass k) g.root 1 1 1 {}).1)
      = (vrec (fullCtx g strat pass) g.root 1 1 1 {}).1 := by
  have hs : ∀ k, (vrec (sampledCtx g strat pass k) g.root 1 1 1 {}).1
      = (pm g.chance true strat k g.root 1 1 1).1 := fun k =>
    (vrec_pm _ k (ctxK_sampled g strat pass k) g.root 1 1 1 {} (ConsK_empty k)).1
  have hf : (vrec (fullCtx g strat pass) g.root 1 1 1 {}).1
      = (pm g.chance false strat (fun _ => 0) g.root 1 1 1).1 :=
    (vrec_pm _ _ (ctxK_full g strat pass _) g.root 1 1 1 {} (ConsK_empty _)).1
  simp only [hs, hf]
  exact (unb_pm g (fun ps h => (hg.chancePos ps h).2) strat (fun _ => 0) true 0 0 g.root [] 1 1 1
    hg.nodes hnr).1

namespace Unb

/-! ## non-vacuity, and why `NoChanceRepeat` is assumed (closed examples over `ℚ`) -/

section Examples

/-- a chance root (infoset `0`, odds `1/3 : 2/3`) over two subtrees that both contain the second
chance infoset `1` (odds `1/4 : 3/4`) and a decision node of player one's infoset `0` -/
def ubGame : Game ℚ where
  chance := [[1/3, 2/3], [1/4, 3/4]]
  p1 := [⟨0, [0, 1], none⟩]
  p2 := []
  s1 := []
  s2 := []
  root := .chance 0 [
    .player true 0 [.chance 1 [.term 1, .term 3], .term 0],
    .chance 1 [.term 2, .player true 0 [.term 4, .term (-2)]]]

def ubStrat : Bool → Nat → List ℚ := fun _ _ => [2/5, 3/5]

theorem ubGame_wf : GameWF ubGame where
  chancePos := by decide +kernel
  nodes := by simp [NodeOK, NodeOKL, ubGame, Game.infos]
  recall := fun me => ⟨fun _ => [], by cases me <;> simp [PR, PRL, PRD, ubGame], by simp⟩
  tables1 := ⟨by decide, by decide, by decide, by decide⟩
  tables2 := ⟨by decide, by decide, by decide, by decide⟩
  actsTwo := by intro me; cases me <;> decide

theorem ubGame_nr : NoChanceRepeat [] ubGame.root := by
  simp [NoChanceRepeat, NoChanceRepeatL, ubGame]

/-- the theorems apply to this game -/
example (k : Nat) (me : Bool) (I a : Nat) :=
  sampled_pass_unbiased ubGame ubGame_wf ubGame_nr ubStrat k me I a

/-- both sides of `sampled_pass_unbiased` are `1/3·(5/2 - 1) + 2/3·3/4·(4 - 2/5) = 23/10` -/
example :
    expectDraws ubGame.chance 0 (fun _ => 0) (fun k =>
      effSum (vrec (sampledCtx ubGame ubStrat 0 k) ubGame.root 1 1 1 {}).2.1 true 0 Slot.regret 0)
      = 23/10 ∧
    effSum (vrec (fullCtx ubGame ubStrat 0) ubGame.root 1 1 1 {}).2.1 true 0 Slot.regret 0 = 23/10 := by
  decide +kernel

/-- both sides of `sampled_value_unbiased` -/
example :
    expectDraws ubGame.chance 0 (fun _ => 0) (fun k =>
      (vrec (sampledCtx ubGame ubStrat 0 k) ubGame.root 1 1 1 {}).1) = 13/15 ∧
    (vrec (fullCtx ubGame ubStrat 0) ubGame.root 1 1 1 {}).1 = 13/15 := by
  decide +kernel

/-- a single sampled pass is *not* the unsampled one: the statement is about the expectation -/
example : effSum (vrec (sampledCtx ubGame ubStrat 0 (fun _ => 0)) ubGame.root 1 1 1 {}).2.1
    true 0 Slot.regret 0 ≠ 23/10 := by
  decide +kernel

/-- a well-formed game in which the chance infoset `0` (a fair coin) occurs twice on a path
(finding F16): the sampled pass reuses the cached outcome at the second occurrence -/
def ubBad : Game ℚ where
  chance := [[1/2, 1/2]]
  p1 := [⟨0, [0, 1], none⟩]
  p2 := []
  s1 := []
  s2 := []
  root := .chance 0 [.chance 0 [.player true 0 [.term 1, .term 0], .term 0], .term 0]

def ubBadStrat : Bool → Nat → List ℚ := fun _ _ => [1/2, 1/2]

theorem ubBad_wf : GameWF ubBad where
  chancePos := by decide +kernel
  nodes := by simp [NodeOK, NodeOKL, ubBad, Game.infos]
  recall := fun me => ⟨fun _ => [], by cases me <;> simp [PR, PRL, PRD, ubBad], by simp⟩
  tables1 := ⟨by decide, by decide, by decide, by decide⟩
  tables2 := ⟨by decide, by decide, by decide, by decide⟩
  actsTwo := by intro me; cases me <;> decide

example : ¬ NoChanceRepeat [] ubBad.root := by
  simp [NoChanceRepeat, NoChanceRepeatL, ubBad]

/-- without `NoChanceRepeat` the regret estimate is biased: `1/4` expected, `1/8` exact -/
example :
    expectDraws ubBad.chance 0 (fun _ => 0) (fun k =>
      effSum (vrec (sampledCtx ubBad ubBadStrat 0 k) ubBad.root 1 1 1 {}).2.1 true 0 Slot.regret 0)
      = 1/4 ∧
    effSum (vrec (fullCtx ubBad ubBadStrat 0) ubBad.root 1 1 1 {}).2.1 true 0 Slot.regret 0 = 1/8 := by
  decide +kernel

/-- … and so is the value estimate: `1/4` expected, `1/8` exact -/
example :
    expectDraws ubBad.chance 0 (fun _ => 0) (fun k =>
      (vrec (sampledCtx ubBad ubBadStrat 0 k) ubBad.root 1 1 1 {}).1) = 1/4 ∧
    (vrec (fullCtx ubBad ubBadStrat 0) ubBad.root 1 1 1 {}).1 = 1/8 := by
  decide +kernel

end Examples

end Unb

end Cfr
