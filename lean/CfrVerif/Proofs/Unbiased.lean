import CfrVerif.Proofs.Trajectory
import CfrVerif.Proofs.WellFormed
/-!
# The sampled regret increments are unbiased estimators of the counterfactual regrets

One chance-sampled pass draws one outcome per chance infoset (`Draws`), independently, outcome
`j` of infoset `i` with its declared probability.  `expectDraws` is the expectation over that
product distribution, as an explicit finite sum.  Provided no chance infoset occurs twice on a
root-to-leaf path (otherwise the two occurrences are perfectly correlated in the sampled pass but
independent in the game — known finding F16), the expected regret accumulation of the sampled
traversal at every `(infoset, action)` equals the accumulation of the unsampled traversal, i.e.
the exact instantaneous counterfactual regret.
-/
set_option linter.unusedSectionVars false
namespace Cfr
variable {α : Type} [Field α] [LinearOrder α] [IsStrictOrderedRing α]

/-- the draws of one pass: the outcome index of every chance infoset -/
abbrev Draws := Nat → Nat

/-- `Σ_j ps[j] * f j` -/
def expectOne (ps : List α) (f : Nat → α) : α :=
  ((List.range ps.length).map (fun j => ps.getD j 0 * f j)).sum

/-- expectation of `f` over independent draws: infoset `i + t` is drawn from the `t`-th list -/
def expectDraws : List (List α) → Nat → Draws → (Draws → α) → α
  | [], _, k, f => f k
  | ps :: rest, i, k, f =>
    expectOne ps (fun j => expectDraws rest (i + 1) (fun x => if x = i then j else k x) f)

mutual
/-- no chance infoset occurs twice on a root-to-leaf path -/
def NoChanceRepeat : List Nat → Node α → Prop
  | _, .term _ => True
  | seen, .chance i ks => i ∉ seen ∧ NoChanceRepeatL (i :: seen) ks
  | seen, .player _ _ ks => NoChanceRepeatL seen ks
def NoChanceRepeatL : List Nat → List (Node α) → Prop
  | _, [] => True
  | seen, k :: ks => NoChanceRepeat seen k ∧ NoChanceRepeatL seen ks
end

/-- the context of a chance-sampled pass whose draws are `k` -/
def sampledCtx (g : Game α) (strat : Bool → Nat → List α) (pass : Nat) (k : Draws) : VCtx α :=
  ⟨g.chance, true, strat, fun _ i _ _ => k i, pass⟩

/-- the context of the unsampled traversal with the same strategies -/
def fullCtx (g : Game α) (strat : Bool → Nat → List α) (pass : Nat) : VCtx α :=
  ⟨g.chance, false, strat, fun _ _ _ _ => 0, pass⟩

/-- **chance sampling is unbiased for the regrets**: for every well-formed game without a
repeated chance infoset on a path, every strategy profile the traversal may read, every infoset
and action, the expectation over the draws of one pass of what the sampled traversal adds to the
regret accumulator equals what the unsampled traversal adds -/
theorem sampled_pass_unbiased (g : Game α) (hg : GameWF g) (hnr : NoChanceRepeat [] g.root)
    (strat : Bool → Nat → List α) (pass : Nat) (me : Bool) (I a : Nat) :
    expectDraws g.chance 0 (fun _ => 0)
        (fun k => effSum (vrec (sampledCtx g strat pass k) g.root 1 1 1 {}).2.1 me I Slot.regret a)
      = effSum (vrec (fullCtx g strat pass) g.root 1 1 1 {}).2.1 me I Slot.regret a := by
  sorry

/-- the value returned by the sampled traversal is an unbiased estimate of the game value under
the current strategies -/
theorem sampled_value_unbiased (g : Game α) (hg : GameWF g) (hnr : NoChanceRepeat [] g.root)
    (strat : Bool → Nat → List α) (pass : Nat) :
    expectDraws g.chance 0 (fun _ => 0)
        (fun k => (vrec (sampledCtx g strat pass k) g.root 1 1 1 {}).1)
      = (vrec (fullCtx g strat pass) g.root 1 1 1 {}).1 := by
  sorry

end Cfr
