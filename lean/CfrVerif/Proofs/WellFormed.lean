import CfrVerif.Proofs.ParamSemantics
import CfrVerif.Proofs.GameWF
import CfrVerif.Model.Vanilla
import CfrVerif.Model.External
import CfrVerif.Model.Dispatch
/-!
# Helper lemmas for C05 (well-formed results of the single-threaded solvers)

Everything is over `ℝ` (the `Transc ℝ` instance of `Proofs/RealInst.lean`).

* probability-vector facts for `regretMatch`, `avgStrat`, `oneHot`, uniform vectors;
* the state invariant `StOK g s` of a running solve, its preservation by `applyEffs` (for effects
  whose `.strat` deltas are non-negative) and by `advanceAll`;
* the `.strat` deltas of the vanilla and external-sampling traversals are non-negative;
* the loop invariant of `solveLoop`;
* perfect recall in history form excludes a repeated infoset on a path.
-/
set_option linter.unusedSectionVars false
namespace Cfr

/-! ## probability vectors -/

theorem isDist_replicate (n : ℕ) (hn : 1 ≤ n) : IsDist (List.replicate n (1 / (n : ℝ))) := by
  have hpos : (0 : ℝ) < n := by exact_mod_cast hn
  constructor
  · intro p hp
    rw [List.eq_of_mem_replicate hp]
    positivity
  · rw [List.sum_replicate, nsmul_eq_mul]
    field_simp

theorem sum_oneHot (n k : ℕ) :
    ((List.range n).map (fun i => if i == k then (1 : ℝ) else 0)).sum = if k < n then 1 else 0 := by
  induction n with
  | zero => simp
  | succ n ih =>
    rw [List.range_succ, List.map_append, List.sum_append, ih]
    by_cases h1 : k < n
    · have : ¬ n = k := by omega
      simp [h1, this, Nat.lt_succ_of_lt h1]
    · by_cases h2 : n = k
      · subst h2; simp
      · have : ¬ k < n + 1 := by omega
        simp [h1, h2, this]

theorem isDist_oneHot (n k : ℕ) (hk : k < n) : IsDist (oneHot n k : List ℝ) := by
  constructor
  · intro p hp
    simp only [oneHot, List.mem_map] at hp
    obtain ⟨i, _, rfl⟩ := hp
    split_ifs <;> norm_num
  · simp only [oneHot]
    rw [sum_oneHot, if_pos hk]

theorem length_oneHot (n k : ℕ) : (oneHot n k : List ℝ).length = n := by
  simp [oneHot]

theorem sum_map_div_const (v : List ℝ) (f : ℝ → ℝ) (c : ℝ) :
    (v.map (fun r => f r / c)).sum = (v.map f).sum / c := by
  simp only [div_eq_mul_inv]
  exact sum_map_mul_right v f c⁻¹

/-- `regret_match` returns a probability vector of the length of its input, in every branch -/
theorem regretMatch_isDist (np : Ext ℝ) (v : List ℝ) (hv : 1 ≤ v.length) :
    IsDist (regretMatch np v) ∧ (regretMatch np v).length = v.length := by
  have hne : v ≠ [] := by intro h; subst h; simp at hv
  by_cases h : ∃ x ∈ v, 0 < x
  · rw [regretMatch_positive np v h]
    have hS := sum_map_pos_pos v h
    refine ⟨⟨?_, ?_⟩, by simp⟩
    · intro p hp
      obtain ⟨r, _, rfl⟩ := List.mem_map.mp hp
      exact div_nonneg (pos_nonneg r) hS.le
    · rw [sum_map_div_const v pos, div_self hS.ne']
  · have h0 : ∀ x ∈ v, x ≤ 0 := by
      intro x hx
      by_contra hc
      exact h ⟨x, hx, not_le.mp hc⟩
    cases np with
    | posInf =>
      obtain ⟨k, hk, -, he⟩ := regretMatch_best v hne h0
      rw [he]
      exact ⟨isDist_oneHot _ _ hk, length_oneHot _ _⟩
    | negInf =>
      obtain ⟨k, hk, -, he⟩ := regretMatch_worst v hne h0
      rw [he]
      exact ⟨isDist_oneHot _ _ hk, length_oneHot _ _⟩
    | fin w =>
      by_cases hw : w = 0
      · subst hw
        rw [regretMatch_uniform v h0]
        exact ⟨isDist_replicate _ hv, by simp⟩
      · rw [regretMatch_softmax w hw v h0]
        have hS := sum_map_exp_pos v hne (fun s => w * s)
        refine ⟨⟨?_, ?_⟩, by simp⟩
        · intro p hp
          obtain ⟨r, _, rfl⟩ := List.mem_map.mp hp
          exact div_nonneg (Real.exp_pos _).le hS.le
        · rw [sum_map_div_const v (fun r => Real.exp (w * r)), div_self hS.ne']

theorem length_discountCumRegret (p : RegretParams ℝ) (t : ℕ) (v : List ℝ) :
    (discountCumRegret p t v).length = v.length := by
  simp [discountCumRegret]

theorem discountAverageStrat_ok (p : RegretParams ℝ) (hγ : 0 ≤ p.strat) (t : ℕ) (v : List ℝ)
    (hv : ∀ x ∈ v, 0 ≤ x) :
    (discountAverageStrat p t v).length = v.length ∧ ∀ x ∈ discountAverageStrat p t v, 0 ≤ x := by
  rw [discountAverageStrat_entry p hγ t v]
  refine ⟨by simp, ?_⟩
  intro x hx
  obtain ⟨r, hr, rfl⟩ := List.mem_map.mp hx
  exact mul_nonneg (hv r hr) (Real.rpow_nonneg (by positivity) _)

/-- every reported per-infoset bound is non-negative (also for `it = 0`, as `x / 0 = 0`) -/
theorem cumRegretBound_nonneg (it : ℕ) (v : List ℝ) : 0 ≤ cumRegretBound it v := by
  simp only [cumRegretBound, fmax_eq_max, two]
  exact div_nonneg (mul_nonneg (by norm_num) (le_max_right _ _)) (Nat.cast_nonneg _)

/-- `avg_strat` of a non-negative non-empty vector is a probability vector of the same length -/
theorem avgStrat_isDist (cum : List ℝ) (hn : 1 ≤ cum.length) (h0 : ∀ x ∈ cum, 0 ≤ x) :
    IsDist (avgStrat cum) ∧ (avgStrat cum).length = cum.length := by
  simp only [avgStrat, lsum_eq_sum]
  split_ifs with h
  · exact ⟨isDist_replicate _ hn, by simp⟩
  · have hne : cum.sum ≠ 0 := by simpa using h
    have hS : 0 < cum.sum := lt_of_le_of_ne (List.sum_nonneg h0) (Ne.symm hne)
    refine ⟨⟨?_, ?_⟩, by simp⟩
    · intro p hp
      obtain ⟨r, hr, rfl⟩ := List.mem_map.mp hp
      exact div_nonneg (h0 r hr) hS.le
    · have := sum_map_div_const cum id cum.sum
      rw [List.map_id] at this
      simp only [id] at this
      rw [this, div_self hne]

/-! ## the state invariant -/

/-- the invariant of one `RegretInfoset` of an infoset with `n` actions -/
structure InfoOK (n : ℕ) (x : InfoSt ℝ) : Prop where
  pos : 1 ≤ n
  lenR : x.cumRegret.length = n
  lenS : x.cumStrat.length = n
  lenσ : x.strat.length = n
  nonneg : ∀ v ∈ x.cumStrat, 0 ≤ v
  dist : IsDist x.strat

/-- one state entry per infoset, each satisfying `InfoOK` for the infoset's number of actions -/
def TableOK : List PInfo → List (InfoSt ℝ) → Prop
  | [], [] => True
  | e :: es, x :: xs => InfoOK e.actions.length x ∧ TableOK es xs
  | [], _ :: _ => False
  | _ :: _, [] => False

/-- the invariant of a running solve -/
def StOK (g : Game ℝ) (s : SolveSt ℝ) : Prop := ∀ one, TableOK (g.infos one) (s.get one)

theorem infoOK_new (n : ℕ) (hn : 1 ≤ n) : InfoOK n (InfoSt.new n) := by
  refine ⟨hn, by simp [InfoSt.new], by simp [InfoSt.new], by simp [InfoSt.new], ?_, ?_⟩
  · intro v hv
    simp only [InfoSt.new] at hv
    rw [List.eq_of_mem_replicate hv]
  · exact isDist_replicate n hn

theorem tableOK_init : ∀ (es : List PInfo), (∀ e ∈ es, 1 ≤ e.actions.length) →
    TableOK es (es.map (fun i => InfoSt.new i.actions.length))
  | [], _ => by simp [TableOK]
  | e :: es, h => by
    simp only [List.map_cons, TableOK]
    exact ⟨infoOK_new _ (h e List.mem_cons_self),
      tableOK_init es (fun e' he' => h e' (List.mem_cons_of_mem _ he'))⟩

theorem stOK_init (g : Game ℝ) (hg : GameWF g) : StOK g (SolveSt.init g) := by
  intro one
  have h := hg.actsTwo one
  cases one
  · exact tableOK_init g.p2 (fun e he => le_trans (by norm_num) (h e he))
  · exact tableOK_init g.p1 (fun e he => le_trans (by norm_num) (h e he))

theorem tableOK_modify (f : InfoSt ℝ → InfoSt ℝ) (hf : ∀ n x, InfoOK n x → InfoOK n (f x)) :
    ∀ (es : List PInfo) (xs : List (InfoSt ℝ)) (i : ℕ), TableOK es xs → TableOK es (xs.modify i f)
  | [], [], _, h => by simpa using h
  | e :: es, x :: xs, 0, h => by
    simp only [List.modify_zero_cons, TableOK] at h ⊢
    exact ⟨hf _ _ h.1, h.2⟩
  | e :: es, x :: xs, i + 1, h => by
    simp only [List.modify_succ_cons, TableOK] at h ⊢
    exact ⟨h.1, tableOK_modify f hf es xs i h.2⟩
  | [], _ :: _, _, h => by simp [TableOK] at h
  | _ :: _, [], _, h => by simp [TableOK] at h

theorem addAt_nonneg : ∀ (l : List ℝ) (a : ℕ) (d : ℝ), 0 ≤ d → (∀ v ∈ l, 0 ≤ v) →
    ∀ v ∈ addAt l a d, 0 ≤ v
  | [], _, _, _, _ => by simp [addAt]
  | x :: xs, 0, d, hd, hl => by
    intro v hv
    simp only [addAt, List.modify_zero_cons, List.mem_cons] at hv
    rcases hv with rfl | hv
    · exact add_nonneg (hl x List.mem_cons_self) hd
    · exact hl v (List.mem_cons_of_mem _ hv)
  | x :: xs, a + 1, d, hd, hl => by
    intro v hv
    simp only [addAt, List.modify_succ_cons, List.mem_cons] at hv
    rcases hv with rfl | hv
    · exact hl v List.mem_cons_self
    · exact addAt_nonneg xs a d hd (fun w hw => hl w (List.mem_cons_of_mem _ hw)) v hv

theorem length_addAt (l : List ℝ) (a : ℕ) (d : ℝ) : (addAt l a d).length = l.length := by
  simp [addAt]

theorem infoOK_apply (n : ℕ) (x : InfoSt ℝ) (slot : Slot) (a : ℕ) (d : ℝ)
    (hd : slot = .strat → 0 ≤ d) (h : InfoOK n x) : InfoOK n (x.apply slot a d) := by
  cases slot with
  | regret =>
    simp only [InfoSt.apply]
    exact ⟨h.pos, by rw [length_addAt]; exact h.lenR, h.lenS, h.lenσ, h.nonneg, h.dist⟩
  | strat =>
    simp only [InfoSt.apply]
    exact ⟨h.pos, h.lenR, by rw [length_addAt]; exact h.lenS, h.lenσ,
      addAt_nonneg _ _ _ (hd rfl) h.nonneg, h.dist⟩

theorem stOK_applyEff (g : Game ℝ) (s : SolveSt ℝ) (e : Eff ℝ) (he : e.slot = .strat → 0 ≤ e.delta)
    (h : StOK g s) : StOK g (s.applyEff e) := by
  have key := tableOK_modify (fun x => x.apply e.slot e.act e.delta)
    (fun n x hx => infoOK_apply n x _ _ _ he hx) _ _ e.info (h e.one)
  intro one
  have ho := h one
  simp only [SolveSt.applyEff]
  cases hone : e.one <;> cases one <;>
    simp only [hone, SolveSt.set, SolveSt.get, Game.infos, if_true, if_false,
      Bool.false_eq_true] at key ho ⊢ <;> assumption

/-- the effects a traversal may produce: every `cum_strat` increment is non-negative -/
def EffsOK (es : List (Eff ℝ)) : Prop := ∀ e ∈ es, e.slot = .strat → 0 ≤ e.delta

theorem EffsOK.nil : EffsOK [] := fun _ h => absurd h List.not_mem_nil

theorem EffsOK.append {a b : List (Eff ℝ)} (ha : EffsOK a) (hb : EffsOK b) : EffsOK (a ++ b) := by
  intro e he
  rcases List.mem_append.mp he with h | h
  · exact ha e h
  · exact hb e h

theorem EffsOK.cons_regret {b : List (Eff ℝ)} (one : Bool) (i a : ℕ) (d : ℝ) (hb : EffsOK b) :
    EffsOK (⟨one, i, .regret, a, d⟩ :: b) := by
  intro e he
  rcases List.mem_cons.mp he with rfl | h
  · intro hs; cases hs
  · exact hb e h

theorem stOK_applyEffs (g : Game ℝ) : ∀ (es : List (Eff ℝ)) (s : SolveSt ℝ), EffsOK es →
    StOK g s → StOK g (s.applyEffs es)
  | [], s, _, h => by simpa [SolveSt.applyEffs] using h
  | e :: es, s, he, h => by
    simp only [SolveSt.applyEffs, List.foldl_cons]
    exact stOK_applyEffs g es _ (fun e' he' => he e' (List.mem_cons_of_mem _ he'))
      (stOK_applyEff g s e (he e List.mem_cons_self) h)

theorem infoOK_advance (p : RegretParams ℝ) (hγ : 0 ≤ p.strat) (it itAvg n : ℕ) (x : InfoSt ℝ)
    (h : InfoOK n x) :
    InfoOK n (x.advance p it itAvg).1 ∧ 0 ≤ (x.advance p it itAvg).2 := by
  simp only [InfoSt.advance]
  have hv : 1 ≤ x.cumRegret.length := by rw [h.lenR]; exact h.pos
  obtain ⟨hd, hl⟩ := regretMatch_isDist p.noPositive x.cumRegret hv
  obtain ⟨hl2, hn2⟩ := discountAverageStrat_ok p hγ itAvg x.cumStrat h.nonneg
  refine ⟨⟨h.pos, ?_, ?_, ?_, hn2, hd⟩, cumRegretBound_nonneg _ _⟩
  · rw [length_discountCumRegret]; exact h.lenR
  · rw [hl2]; exact h.lenS
  · rw [hl]; exact h.lenR

theorem tableOK_advanceAll (p : RegretParams ℝ) (hγ : 0 ≤ p.strat) (it itAvg : ℕ) :
    ∀ (es : List PInfo) (xs : List (InfoSt ℝ)) (acc : ℝ), TableOK es xs → 0 ≤ acc →
      TableOK es (advanceAll p it itAvg xs acc).1 ∧ 0 ≤ (advanceAll p it itAvg xs acc).2
  | [], [], acc, _, hacc => by simpa [advanceAll, TableOK] using hacc
  | e :: es, x :: xs, acc, h, hacc => by
    simp only [TableOK] at h
    obtain ⟨h1, h2⟩ := infoOK_advance p hγ it itAvg _ x h.1
    obtain ⟨h3, h4⟩ := tableOK_advanceAll p hγ it itAvg es xs (acc + (x.advance p it itAvg).2) h.2
      (add_nonneg hacc h2)
    simp only [advanceAll, TableOK]
    exact ⟨⟨h1, h3⟩, h4⟩
  | [], _ :: _, _, h, _ => by simp [TableOK] at h
  | _ :: _, [], _, h, _ => by simp [TableOK] at h

theorem tableOK_avg : ∀ (es : List PInfo) (xs : List (InfoSt ℝ)), TableOK es xs →
    IsStrat (xs.map (fun x => avgStrat x.cumStrat)) ∧
      (xs.map (fun x => avgStrat x.cumStrat)).map List.length = es.map (fun i => i.actions.length)
  | [], [], _ => by simp [IsStrat]
  | e :: es, x :: xs, h => by
    simp only [TableOK] at h
    obtain ⟨h1, h2⟩ := tableOK_avg es xs h.2
    obtain ⟨h3, h4⟩ := avgStrat_isDist x.cumStrat (by rw [h.1.lenS]; exact h.1.pos) h.1.nonneg
    constructor
    · intro v hv
      rcases List.mem_cons.mp hv with rfl | hv
      · exact h3
      · exact h1 v hv
    · simp only [List.map_cons, h4, h.1.lenS]
      rw [← h2]
  | [], _ :: _, h => by simp [TableOK] at h
  | _ :: _, [], h => by simp [TableOK] at h

theorem stOK_avg (g : Game ℝ) (s : SolveSt ℝ) (h : StOK g s) (one : Bool) :
    IsStrat (s.avg one) ∧ FitsGame g one (s.avg one) :=
  tableOK_avg _ _ (h one)

theorem tableOK_strat_nonneg : ∀ (es : List PInfo) (xs : List (InfoSt ℝ)), TableOK es xs →
    ∀ (i : ℕ) (x : InfoSt ℝ), xs[i]? = some x → ∀ v ∈ x.strat, 0 ≤ v
  | [], [], _, i, x, hx => by simp at hx
  | e :: es, y :: xs, h, 0, x, hx => by
    simp only [TableOK] at h
    simp only [List.getElem?_cons_zero, Option.some.injEq] at hx
    subst hx
    exact h.1.dist.1
  | e :: es, y :: xs, h, i + 1, x, hx => by
    simp only [TableOK] at h
    simp only [List.getElem?_cons_succ] at hx
    exact tableOK_strat_nonneg es xs h.2 i x hx
  | [], _ :: _, h, _, _, _ => by simp [TableOK] at h
  | _ :: _, [], h, _, _, _ => by simp [TableOK] at h

theorem stOK_strat_nonneg (g : Game ℝ) (s : SolveSt ℝ) (h : StOK g s) (one : Bool) (i : ℕ) :
    ∀ v ∈ s.strat one i, 0 ≤ v := by
  simp only [SolveSt.strat]
  cases hx : (s.get one)[i]? with
  | none => simp
  | some x => exact tableOK_strat_nonneg _ _ (h one) i x hx

/-! ## the `cum_strat` increments of the traversals are non-negative -/

theorem stratEffs_ok (one : Bool) (i : ℕ) (own : ℝ) (hown : 0 ≤ own) :
    ∀ (σ : List ℝ) (a : ℕ), (∀ v ∈ σ, 0 ≤ v) → EffsOK (stratEffs one i own σ a)
  | [], _, _ => by simp only [stratEffs]; exact EffsOK.nil
  | s :: σ, a, h => by
    simp only [stratEffs]
    intro e he
    rcases List.mem_cons.mp he with rfl | he
    · intro _; exact mul_nonneg hown (h s List.mem_cons_self)
    · exact stratEffs_ok one i own hown σ (a + 1) (fun v hv => h v (List.mem_cons_of_mem _ hv)) e he

theorem subEffs_ok (one : Bool) (i : ℕ) (sub : ℝ) (n : ℕ) : EffsOK (subEffs one i sub n) := by
  intro e he
  simp only [subEffs, List.mem_map] at he
  obtain ⟨a, _, rfl⟩ := he
  intro hs; cases hs

theorem extStratEffs_ok (one : Bool) (i : ℕ) :
    ∀ (σ : List ℝ) (a : ℕ), (∀ v ∈ σ, 0 ≤ v) → EffsOK (extStratEffs one i σ a)
  | [], _, _ => by simp only [extStratEffs]; exact EffsOK.nil
  | s :: σ, a, h => by
    simp only [extStratEffs]
    intro e he
    rcases List.mem_cons.mp he with rfl | he
    · intro _; exact h s List.mem_cons_self
    · exact extStratEffs_ok one i σ (a + 1) (fun v hv => h v (List.mem_cons_of_mem _ hv)) e he

theorem subEffsE_ok (one : Bool) (i : ℕ) (sub : ℝ) (n : ℕ) : EffsOK (subEffsE one i sub n) := by
  intro e he
  simp only [subEffsE, List.mem_map] at he
  obtain ⟨a, _, rfl⟩ := he
  intro hs; cases hs

mutual
theorem vrec_effsOK (c : VCtx ℝ) (hc : ∀ one i, ∀ v ∈ c.strat one i, 0 ≤ v) :
    ∀ (n : Node ℝ) (pc p1 p2 : ℝ) (d : DrawSt ℝ), 0 ≤ p1 → 0 ≤ p2 →
      EffsOK (vrec c n pc p1 p2 d).2.1
  | .term p, pc, p1, p2, d, _, _ => by simp only [vrec]; exact EffsOK.nil
  | .chance i ks, pc, p1, p2, d, h1, h2 => by
    simp only [vrec]
    split_ifs with h
    · exact vrecNth_effsOK c hc ks _ pc p1 p2 _ h1 h2
    · exact vrecChance_effsOK c hc _ ks pc p1 p2 d 0 h1 h2
  | .player one i ks, pc, p1, p2, d, h1, h2 => by
    simp only [vrec]
    refine EffsOK.append (EffsOK.append (stratEffs_ok one i _ ?_ _ 0 (hc one i)) ?_)
      (subEffs_ok one i _ _)
    · cases one
      · simpa using h2
      · simpa using h1
    · exact vrecActs_effsOK c hc one i _ _ (hc one i) ks pc p1 p2 d 0 0 0 h1 h2
theorem vrecNth_effsOK (c : VCtx ℝ) (hc : ∀ one i, ∀ v ∈ c.strat one i, 0 ≤ v) :
    ∀ (ks : List (Node ℝ)) (k : ℕ) (pc p1 p2 : ℝ) (d : DrawSt ℝ), 0 ≤ p1 → 0 ≤ p2 →
      EffsOK (vrecNth c ks k pc p1 p2 d).2.1
  | [], _, _, _, _, d, _, _ => by simp only [vrecNth]; exact EffsOK.nil
  | k :: _, 0, pc, p1, p2, d, h1, h2 => by
    simp only [vrecNth]; exact vrec_effsOK c hc k pc p1 p2 d h1 h2
  | _ :: ks, n + 1, pc, p1, p2, d, h1, h2 => by
    simp only [vrecNth]; exact vrecNth_effsOK c hc ks n pc p1 p2 d h1 h2
theorem vrecChance_effsOK (c : VCtx ℝ) (hc : ∀ one i, ∀ v ∈ c.strat one i, 0 ≤ v) :
    ∀ (ps : List ℝ) (ks : List (Node ℝ)) (pc p1 p2 : ℝ) (d : DrawSt ℝ) (acc : ℝ), 0 ≤ p1 → 0 ≤ p2 →
      EffsOK (vrecChance c ps ks pc p1 p2 d acc).2.1
  | p :: ps, k :: ks, pc, p1, p2, d, acc, h1, h2 => by
    simp only [vrecChance]
    exact EffsOK.append (vrec_effsOK c hc k (pc * p) p1 p2 d h1 h2)
      (vrecChance_effsOK c hc ps ks pc p1 p2 _ _ h1 h2)
  | [], _, _, _, _, d, _, _, _ => by simp only [vrecChance]; exact EffsOK.nil
  | _ :: _, [], _, _, _, d, _, _, _ => by simp only [vrecChance]; exact EffsOK.nil
theorem vrecActs_effsOK (c : VCtx ℝ) (hc : ∀ one i, ∀ v ∈ c.strat one i, 0 ≤ v)
    (one : Bool) (i : ℕ) (mult : ℝ) :
    ∀ (σ : List ℝ), (∀ v ∈ σ, 0 ≤ v) → ∀ (ks : List (Node ℝ)) (pc p1 p2 : ℝ) (d : DrawSt ℝ)
      (a : ℕ) (eo ex : ℝ), 0 ≤ p1 → 0 ≤ p2 →
      EffsOK (vrecActs c one i mult σ ks pc p1 p2 d a eo ex).2.2.1
  | s :: σ, hσ, k :: ks, pc, p1, p2, d, a, eo, ex, h1, h2 => by
    have hs : 0 ≤ s := hσ s List.mem_cons_self
    have hσ' : ∀ v ∈ σ, 0 ≤ v := fun v hv => hσ v (List.mem_cons_of_mem _ hv)
    simp only [vrecActs]
    cases one with
    | true =>
      exact EffsOK.append (vrec_effsOK c hc k pc (p1 * s) p2 d (mul_nonneg h1 hs) h2)
        (EffsOK.cons_regret _ _ _ _
          (vrecActs_effsOK c hc true i mult σ hσ' ks pc p1 p2 _ _ _ _ h1 h2))
    | false =>
      exact EffsOK.append (vrec_effsOK c hc k pc p1 (p2 * s) d h1 (mul_nonneg h2 hs))
        (EffsOK.cons_regret _ _ _ _
          (vrecActs_effsOK c hc false i mult σ hσ' ks pc p1 p2 _ _ _ _ h1 h2))
  | [], _, _, _, _, _, d, _, _, _, _, _ => by simp only [vrecActs]; exact EffsOK.nil
  | _ :: _, _, [], _, _, _, d, _, _, _, _, _ => by simp only [vrecActs]; exact EffsOK.nil
end

mutual
theorem erec_effsOK (c : ECtx ℝ) (hc : ∀ one i, ∀ v ∈ c.strat one i, 0 ≤ v) :
    ∀ (n : Node ℝ) (d : DrawSt ℝ), EffsOK (erec c n d).2.1
  | .term p, d => by simp only [erec]; exact EffsOK.nil
  | .chance i ks, d => by
    simp only [erec]
    exact erecNth_effsOK c hc ks _ _
  | .player one i ks, d => by
    simp only [erec]
    by_cases h : (one == c.first) = true
    · rw [if_pos h]
      exact EffsOK.append (erecActs_effsOK c hc one i _ ks d 0 0) (subEffsE_ok one i _ _)
    · rw [if_neg h]
      exact EffsOK.append (extStratEffs_ok one i _ 0 (hc one i)) (erecNth_effsOK c hc ks _ _)
theorem erecNth_effsOK (c : ECtx ℝ) (hc : ∀ one i, ∀ v ∈ c.strat one i, 0 ≤ v) :
    ∀ (ks : List (Node ℝ)) (k : ℕ) (d : DrawSt ℝ), EffsOK (erecNth c ks k d).2.1
  | [], _, d => by simp only [erecNth]; exact EffsOK.nil
  | k :: _, 0, d => by simp only [erecNth]; exact erec_effsOK c hc k d
  | _ :: ks, n + 1, d => by simp only [erecNth]; exact erecNth_effsOK c hc ks n d
theorem erecActs_effsOK (c : ECtx ℝ) (hc : ∀ one i, ∀ v ∈ c.strat one i, 0 ≤ v)
    (one : Bool) (i : ℕ) :
    ∀ (σ : List ℝ) (ks : List (Node ℝ)) (d : DrawSt ℝ) (a : ℕ) (ex : ℝ),
      EffsOK (erecActs c one i σ ks d a ex).2.1
  | s :: σ, k :: ks, d, a, ex => by
    simp only [erecActs]
    exact EffsOK.append (erec_effsOK c hc k d)
      (EffsOK.cons_regret _ _ _ _ (erecActs_effsOK c hc one i σ ks _ _ _))
  | [], _, d, _, _ => by simp only [erecActs]; exact EffsOK.nil
  | _ :: _, [], d, _, _ => by simp only [erecActs]; exact EffsOK.nil
end

/-! ## one iteration preserves the invariant -/

theorem vanillaIter_ok (g : Game ℝ) (sampled : Bool) (p : RegretParams ℝ) (hγ : 0 ≤ p.strat)
    (draw : DrawFn ℝ) (it : ℕ) (s : SolveSt ℝ) (log : List (DrawRec ℝ)) (h : StOK g s) :
    StOK g (vanillaIter g sampled p draw it s log).1 ∧
      0 ≤ (vanillaIter g sampled p draw it s log).2.1 ∧
      0 ≤ (vanillaIter g sampled p draw it s log).2.2.1 := by
  simp only [vanillaIter]
  have he := vrec_effsOK ⟨g.chance, sampled, s.strat, draw, it - 1⟩ (stOK_strat_nonneg g s h)
    g.root 1 1 1 { log := log } zero_le_one zero_le_one
  have h' := stOK_applyEffs g _ s he h
  have h1 := tableOK_advanceAll p hγ it it _ _ 0 (h' true) le_rfl
  have h2 := tableOK_advanceAll p hγ it it _ _ 0 (h' false) le_rfl
  refine ⟨?_, h1.2, h2.2⟩
  intro one
  cases one
  · exact h2.1
  · exact h1.1

theorem stOK_set (g : Game ℝ) (s : SolveSt ℝ) (first : Bool) (xs : List (InfoSt ℝ))
    (h : StOK g s) (hx : TableOK (g.infos first) xs) : StOK g (s.set first xs) := by
  intro one
  have ho := h one
  cases first <;> cases one <;>
    simp only [SolveSt.set, SolveSt.get, Game.infos, if_true, if_false, Bool.false_eq_true]
      at hx ho ⊢ <;> assumption

theorem externalPass_ok (g : Game ℝ) (first : Bool) (p : RegretParams ℝ) (hγ : 0 ≤ p.strat)
    (draw : DrawFn ℝ) (it : ℕ) (s : SolveSt ℝ) (log : List (DrawRec ℝ)) (h : StOK g s) :
    StOK g (externalPass g first p draw it s log).1 ∧
      0 ≤ (externalPass g first p draw it s log).2.1 := by
  simp only [externalPass]
  have he := erec_effsOK ⟨g.chance, first, s.strat, draw,
      2 * (it - 1) + (if first then 0 else 1), if first then it - 1 else it⟩
    (stOK_strat_nonneg g s h) g.root { log := log }
  have h' := stOK_applyEffs g _ s he h
  have h1 := tableOK_advanceAll p hγ it (if first then it - 1 else it) _ _ 0 (h' first) le_rfl
  exact ⟨stOK_set g _ first _ h' h1.1, h1.2⟩

theorem externalIter_ok (g : Game ℝ) (p : RegretParams ℝ) (hγ : 0 ≤ p.strat)
    (draw : DrawFn ℝ) (it : ℕ) (s : SolveSt ℝ) (log : List (DrawRec ℝ)) (h : StOK g s) :
    StOK g (externalIter g p draw it s log).1 ∧
      0 ≤ (externalIter g p draw it s log).2.1 ∧
      0 ≤ (externalIter g p draw it s log).2.2.1 := by
  simp only [externalIter]
  obtain ⟨a1, a2⟩ := externalPass_ok g true p hγ draw it s log h
  obtain ⟨b1, b2⟩ := externalPass_ok g false p hγ draw it _
    (externalPass g true p draw it s log).2.2 a1
  exact ⟨b1, a2, b2⟩

/-! ## the loop -/

theorem wf_solveLoop_succ (step : IterFn ℝ) (thr : Option (Ext ℝ)) (n it : ℕ) (s : SolveSt ℝ)
    (r1 r2 : Ext ℝ) (log : List (DrawRec ℝ)) :
    solveLoop step thr (n + 1) it s r1 r2 log =
      if belowThreshold (step it s log).2.1 (step it s log).2.2.1 thr = true then
        ⟨.fin (step it s log).2.1, .fin (step it s log).2.2.1, (step it s log).1.avg true,
          (step it s log).1.avg false, it, (step it s log).2.2.2⟩
      else solveLoop step thr n (it + 1) (step it s log).1 (.fin (step it s log).2.1)
        (.fin (step it s log).2.2.1) (step it s log).2.2.2 := by
  rw [solveLoop]

/-- the invariant of the iteration loop, for any state invariant `P` the step preserves (with
non-negative reported bounds) and any bound predicate `B` that holds of a non-negative finite
bound after at least one iteration -/
theorem solveLoop_inv (step : IterFn ℝ) (thr : Option (Ext ℝ)) (P : SolveSt ℝ → Prop)
    (B : Ext ℝ → ℕ → Prop) (hB : ∀ x k, 0 ≤ x → 0 < k → B (.fin x) k)
    (hstep : ∀ it s log, P s →
      P (step it s log).1 ∧ 0 ≤ (step it s log).2.1 ∧ 0 ≤ (step it s log).2.2.1) :
    ∀ (n it : ℕ) (s : SolveSt ℝ) (r1 r2 : Ext ℝ) (log : List (DrawRec ℝ)), 1 ≤ it → P s →
      B r1 (it - 1) → B r2 (it - 1) →
      (∃ s', P s' ∧ (solveLoop step thr n it s r1 r2 log).stratOne = s'.avg true ∧
        (solveLoop step thr n it s r1 r2 log).stratTwo = s'.avg false) ∧
      B (solveLoop step thr n it s r1 r2 log).regOne (solveLoop step thr n it s r1 r2 log).iters ∧
      B (solveLoop step thr n it s r1 r2 log).regTwo (solveLoop step thr n it s r1 r2 log).iters ∧
      it - 1 ≤ (solveLoop step thr n it s r1 r2 log).iters ∧
      (solveLoop step thr n it s r1 r2 log).iters ≤ it - 1 + n ∧
      ((solveLoop step thr n it s r1 r2 log).iters = it - 1 → n = 0) := by
  intro n
  induction n with
  | zero =>
    intro it s r1 r2 log hit hs hb1 hb2
    simp only [solveLoop]
    exact ⟨⟨s, hs, rfl, rfl⟩, hb1, hb2, le_rfl, le_rfl, fun _ => trivial⟩
  | succ n ih =>
    intro it s r1 r2 log hit hs hb1 hb2
    obtain ⟨hs', hr1, hr2⟩ := hstep it s log hs
    rw [wf_solveLoop_succ]
    split_ifs with hb
    · refine ⟨⟨_, hs', rfl, rfl⟩, hB _ it hr1 (by omega), hB _ it hr2 (by omega), ?_, ?_, ?_⟩
      · show it - 1 ≤ it; omega
      · show it ≤ it - 1 + (n + 1); omega
      · intro hh
        have : it = it - 1 := hh
        omega
    · obtain ⟨e1, e2, e3, e4, e5, -⟩ := ih (it + 1) _ (.fin (step it s log).2.1)
        (.fin (step it s log).2.2.1) (step it s log).2.2.2 (by omega) hs'
        (hB _ _ hr1 (by omega)) (hB _ _ hr2 (by omega))
      refine ⟨e1, e2, e3, by omega, by omega, by omega⟩

/-! ## perfect recall: the bookkeeping behind "no infoset twice on a path" -/

/-- every infoset already seen on the path has a strictly shorter own history than the current
own history of its player (`L1`, `L2` are the lengths of the current own histories) -/
def SeenOK (h1 h2 : ℕ → Hist) (seen : List (Bool × ℕ)) (L1 L2 : ℕ) : Prop :=
  (∀ j, (true, j) ∈ seen → (h1 j).length < L1) ∧ (∀ j, (false, j) ∈ seen → (h2 j).length < L2)

theorem SeenOK.nil (h1 h2 : ℕ → Hist) (L1 L2 : ℕ) : SeenOK h1 h2 [] L1 L2 :=
  ⟨fun _ h => absurd h List.not_mem_nil, fun _ h => absurd h List.not_mem_nil⟩

theorem SeenOK.not_mem_true {h1 h2 : ℕ → Hist} {seen : List (Bool × ℕ)} {L1 L2 : ℕ}
    (h : SeenOK h1 h2 seen L1 L2) (i : ℕ) (hi : (h1 i).length = L1) : (true, i) ∉ seen := by
  intro hm; have := h.1 i hm; omega

theorem SeenOK.not_mem_false {h1 h2 : ℕ → Hist} {seen : List (Bool × ℕ)} {L1 L2 : ℕ}
    (h : SeenOK h1 h2 seen L1 L2) (i : ℕ) (hi : (h2 i).length = L2) : (false, i) ∉ seen := by
  intro hm; have := h.2 i hm; omega

theorem SeenOK.cons_true {h1 h2 : ℕ → Hist} {seen : List (Bool × ℕ)} {L1 L2 : ℕ}
    (h : SeenOK h1 h2 seen L1 L2) (i : ℕ) (hi : (h1 i).length = L1) :
    SeenOK h1 h2 ((true, i) :: seen) (L1 + 1) L2 := by
  constructor
  · intro j hj
    rcases List.mem_cons.mp hj with hj | hj
    · have : j = i := by simpa using hj
      subst this; omega
    · have := h.1 j hj; omega
  · intro j hj
    rcases List.mem_cons.mp hj with hj | hj
    · simp at hj
    · exact h.2 j hj

theorem SeenOK.cons_false {h1 h2 : ℕ → Hist} {seen : List (Bool × ℕ)} {L1 L2 : ℕ}
    (h : SeenOK h1 h2 seen L1 L2) (i : ℕ) (hi : (h2 i).length = L2) :
    SeenOK h1 h2 ((false, i) :: seen) L1 (L2 + 1) := by
  constructor
  · intro j hj
    rcases List.mem_cons.mp hj with hj | hj
    · simp at hj
    · exact h.1 j hj
  · intro j hj
    rcases List.mem_cons.mp hj with hj | hj
    · have : j = i := by simpa using hj
      subst this; omega
    · have := h.2 j hj; omega

end Cfr
