import CfrVerif.Proofs.RegretDecomp
/-!
# Weighted version of `avg_realisation`: a reach-and-weight-weighted average of strategies is
realisation-equivalent to their weighted mixture
-/
set_option linter.unusedSectionVars false
set_option linter.unusedVariables false
namespace Cfr.PG
variable {α : Type} [Field α] [LinearOrder α] [IsStrictOrderedRing α]

/-- `Σ_t w_t · f σ_t` -/
def wts (ws : List (α × Strat α)) (f : Strat α → α) : α := (ws.map (fun p => p.1 * f p.2)).sum

theorem wts_nil (f : Strat α → α) : wts [] f = 0 := by simp [wts]
theorem wts_cons (x : α × Strat α) (l : List (α × Strat α)) (f : Strat α → α) :
    wts (x :: l) f = x.1 * f x.2 + wts l f := by simp [wts]

theorem wts_zero (ws : List (α × Strat α)) : wts ws (fun _ => (0 : α)) = 0 := by
  induction ws with
  | nil => simp [wts_nil]
  | cons x l ih => simp only [wts_cons, ih]; ring

theorem wts_add (ws : List (α × Strat α)) (f g : Strat α → α) :
    wts ws (fun σ => f σ + g σ) = wts ws f + wts ws g := by
  induction ws with
  | nil => simp [wts_nil]
  | cons x l ih => simp only [wts_cons, ih]; ring

theorem wts_mul_right (ws : List (α × Strat α)) (f : Strat α → α) (c : α) :
    wts ws (fun σ => f σ * c) = wts ws f * c := by
  induction ws with
  | nil => simp [wts_nil]
  | cons x l ih => simp only [wts_cons, ih]; ring

/-- `σbar` is the weighted reach-weighted average of `ws` at infoset `I` -/
def WAvgAt (N : Nat) (nActs : Nat → Nat) (hist : Nat → Hist) (ws : List (α × Strat α))
    (σbar : Strat α) (I : Nat) : Prop :=
  (σbar.at I).length = nActs I ∧
  ∀ a, a < nActs I →
    (σbar.at I).getD a 0 * wts ws (fun σ => histW σ (hist I))
      = wts ws (fun σ => histW σ (hist I) * (σ.at I).getD a 0)

mutual
theorem wavgRealV (N : Nat) (nActs : Nat → Nat) (hist : Nat → Hist) (ws : List (α × Strat α))
    (σbar : Strat α) :
    ∀ (t : V α) (H : Hist), VOK N nActs t → PRV hist H t →
      (∀ I, 0 < cntInfo I t → WAvgAt N nActs hist ws σbar I) →
      wts ws (fun σ => histW σ H * evV σ t) = wts ws (fun σ => histW σ H) * evV σbar t
  | .term u, H, _, _, _ => by simp only [evV]; rw [wts_mul_right]
  | .nature qs ks, H, h, hp, hb => by
    obtain ⟨_, _, hk⟩ := (by simpa [VOK] using h :
      qs.length = ks.length ∧ (∀ w ∈ qs, 0 ≤ w) ∧ VOKL N nActs ks)
    have hp' : PRVL hist H ks := by simpa [PRV] using hp
    simp only [evV]
    exact wavgRealN N nActs hist ws σbar qs ks H hk hp' (fun I hI => hb I (by simpa [cntInfo] using hI))
  | .decide i ks, H, h, hp, hb => by
    obtain ⟨hi, hlen, _, hk⟩ := (by simpa [VOK] using h :
      i < N ∧ ks.length = nActs i ∧ 1 ≤ ks.length ∧ VOKL N nActs ks)
    obtain ⟨hH, hd⟩ := (by simpa [PRV] using hp : hist i = H ∧ PRVD hist H i 0 ks)
    have hav : WAvgAt N nActs hist ws σbar i := hb i (by simp [cntInfo])
    have := wavgRealD N nActs hist ws σbar ks H i 0 hk hd hH (by omega) hav
      (fun I hI => hb I (by simp only [cntInfo]; omega))
    simp only [List.drop_zero] at this
    simp only [evV, evVN_eq_dot]
    exact this
theorem wavgRealN (N : Nat) (nActs : Nat → Nat) (hist : Nat → Hist) (ws : List (α × Strat α))
    (σbar : Strat α) :
    ∀ (qs : List α) (ks : List (V α)) (H : Hist), VOKL N nActs ks → PRVL hist H ks →
      (∀ I, 0 < cntInfo.cntInfoL I ks → WAvgAt N nActs hist ws σbar I) →
      wts ws (fun σ => histW σ H * evVN σ qs ks) = wts ws (fun σ => histW σ H) * evVN σbar qs ks
  | [], ks, H, _, _, _ => by simp [evVN, wts_zero]
  | _ :: _, [], H, _, _, _ => by simp [evVN, wts_zero]
  | w :: qs, k :: ks, H, hk, hp, hb => by
    obtain ⟨h1, h2⟩ := (by simpa [VOKL] using hk : VOK N nActs k ∧ VOKL N nActs ks)
    obtain ⟨p1, p2⟩ := (by simpa [PRVL] using hp : PRV hist H k ∧ PRVL hist H ks)
    have a := wavgRealV N nActs hist ws σbar k H h1 p1
      (fun I hI => hb I (by simp only [cntInfo.cntInfoL]; omega))
    have b := wavgRealN N nActs hist ws σbar qs ks H h2 p2
      (fun I hI => hb I (by simp only [cntInfo.cntInfoL]; omega))
    simp only [evVN]
    have e : (fun σ : Strat α => histW σ H * (w * evV σ k + evVN σ qs ks))
        = (fun σ => (histW σ H * evV σ k) * w + histW σ H * evVN σ qs ks) := by
      funext σ; ring
    rw [e, wts_add, wts_mul_right, a, b]; ring
theorem wavgRealD (N : Nat) (nActs : Nat → Nat) (hist : Nat → Hist) (ws : List (α × Strat α))
    (σbar : Strat α) :
    ∀ (ks : List (V α)) (H : Hist) (i a : Nat), VOKL N nActs ks → PRVD hist H i a ks →
      hist i = H → a + ks.length ≤ nActs i → WAvgAt N nActs hist ws σbar i →
      (∀ I, 0 < cntInfo.cntInfoL I ks → WAvgAt N nActs hist ws σbar I) →
      wts ws (fun σ => histW σ H * dot ((σ.at i).drop a) (ks.map (evV σ)))
        = wts ws (fun σ => histW σ H) * dot ((σbar.at i).drop a) (ks.map (evV σbar))
  | [], H, i, a, _, _, _, _, _, _ => by simp [wts_zero]
  | k :: ks, H, i, a, hk, hp, hH, hl, hav, hb => by
    obtain ⟨h1, h2⟩ := (by simpa [VOKL] using hk : VOK N nActs k ∧ VOKL N nActs ks)
    obtain ⟨p1, p2⟩ := (by simpa [PRVD] using hp :
      PRV hist (H ++ [(i, a)]) k ∧ PRVD hist H i (a + 1) ks)
    have hl' : a + 1 + ks.length ≤ nActs i := by simp only [List.length_cons] at hl; omega
    have a' := wavgRealV N nActs hist ws σbar k (H ++ [(i, a)]) h1 p1
      (fun I hI => hb I (by simp only [cntInfo.cntInfoL]; omega))
    have b := wavgRealD N nActs hist ws σbar ks H i (a + 1) h2 p2 hH hl' hav
      (fun I hI => hb I (by simp only [cntInfo.cntInfoL]; omega))
    have hava := hav.2 a (by omega)
    rw [hH] at hava
    simp only [List.map_cons, dot_drop]
    have e : (fun σ : Strat α => histW σ H *
          ((σ.at i).getD a 0 * evV σ k + dot ((σ.at i).drop (a + 1)) (ks.map (evV σ))))
        = (fun σ => histW σ (H ++ [(i, a)]) * evV σ k
            + histW σ H * dot ((σ.at i).drop (a + 1)) (ks.map (evV σ))) := by
      funext σ; rw [histW_snoc]; ring
    have e2 : (fun σ : Strat α => histW σ (H ++ [(i, a)]))
        = (fun σ => histW σ H * (σ.at i).getD a 0) := by
      funext σ; rw [histW_snoc]
    rw [e, wts_add, a', b, e2, ← hava]; ring
end

/-- at the root: the weighted sum of the iterates' values is the total weight times the value of
the weighted average -/
theorem wavg_realisation (N : Nat) (nActs : Nat → Nat) (hist : Nat → Hist)
    (ws : List (α × Strat α)) (σbar : Strat α)
    (v : V α) (hok : VOK N nActs v) (hpr : PRV hist [] v)
    (hbar : ∀ I, 0 < cntInfo I v → WAvgAt N nActs hist ws σbar I) :
    wts ws (fun σ => evV σ v) = wts ws (fun _ => 1) * evV σbar v := by
  have := wavgRealV N nActs hist ws σbar v [] hok hpr hbar
  simp only [histW_nil, one_mul] at this
  exact this

end Cfr.PG
