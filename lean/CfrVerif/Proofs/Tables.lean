import CfrVerif.Proofs.Dist
import CfrVerif.Model.Named
/-!
# Well-formed infoset tables (what `Game::from_root` guarantees about `player_infosets` and
`single_infosets`, as far as the named views and importers rely on it)
-/
set_option linter.unusedSectionVars false
namespace Cfr

/-- labels of multi-action infosets are pairwise distinct, so are the labels of single-action
infosets, no label is in both tables, every multi-action infoset has distinct actions -/
structure TablesWF (infos : List PInfo) (singles : List (Nat × Nat)) : Prop where
  labelsNodup : (infos.map (·.label)).Nodup
  singlesNodup : (singles.map (·.1)).Nodup
  disjoint : ∀ l ∈ infos.map (·.label), l ∉ singles.map (·.1)
  actionsNodup : ∀ i ∈ infos, i.actions.Nodup

variable {α : Type} [Field α] [LinearOrder α] [IsStrictOrderedRing α]

/-- a strategy fits the table: one probability vector per infoset, of the right length -/
def Fits (infos : List PInfo) (σ : Strat α) : Prop :=
  σ.map List.length = infos.map (fun i => i.actions.length)

end Cfr
