import CfrVerif.Proofs.RateSolve
import CfrVerif.Props.C02
import CfrVerif.Props.C06
import CfrVerif.Props.C05
/-!
# C03, first sentence: the CFR rate of the vanilla bounds (re-exported by `Props/C03.lean`)

For every well-formed game with payoffs in `[lo, hi]` (`D = hi − lo`), `n_p` decision infosets of
player `p` and at most `A` actions per infoset, after `T` iterations of the unsampled method with
vanilla parameters each player's returned bound is at most `2·D·n_p·√A/√T ≤ 2·D·N·√A/√T`
(`N = n_one + n_two`) — for every budget and threshold (`T` = the number of iterations actually
run), every task target and fair schedule.  With C02 (the bound dominates the true regret) the
true regret of the returned profile obeys the same rate, hence tends to zero.

The second sentence of the property (the `6·D·N·(√A + 1/√T)/√T` envelope for every preset) is
proved in `Proofs/PresetFinal.lean`; `full_preset_rate_partial` below is its vanilla case.
-/
set_option linter.unusedSectionVars false
namespace Cfr

/-- **the CFR theorem for the returned bounds** (single thread) -/
theorem full_vanilla_rate (g : Game ℝ) (hg : GameWF g) (lo hi : ℝ) (hpay : PayIn lo hi g.root)
    (A : Nat) (hA : ActsLe g A) (draw : DrawFn ℝ) (T : Nat) (thr : Option (Ext ℝ)) :
    RateOK (hi - lo) g.p1.length A (solveVanillaSingle g false RegretParams.vanilla draw T thr).iters
      (solveVanillaSingle g false RegretParams.vanilla draw T thr).regOne ∧
    RateOK (hi - lo) g.p2.length A (solveVanillaSingle g false RegretParams.vanilla draw T thr).iters
      (solveVanillaSingle g false RegretParams.vanilla draw T thr).regTwo :=
  vanilla_rate g hg lo hi hpay A hA false draw (by intro h; cases h) T thr

/-- every thread count -/
theorem full_vanilla_rate_multi (sched : Sched ℝ) (hs : sched.Fair) (g : Game ℝ) (hg : GameWF g)
    (lo hi : ℝ) (hpay : PayIn lo hi g.root) (A : Nat) (hA : ActsLe g A) (draw : DrawFn ℝ) (T : Nat)
    (thr : Option (Ext ℝ)) (target : Nat) :
    RateOK (hi - lo) g.p1.length A
      (solveVanillaMultiS sched g false RegretParams.vanilla draw T thr target).iters
      (solveVanillaMultiS sched g false RegretParams.vanilla draw T thr target).regOne ∧
    RateOK (hi - lo) g.p2.length A
      (solveVanillaMultiS sched g false RegretParams.vanilla draw T thr target).iters
      (solveVanillaMultiS sched g false RegretParams.vanilla draw T thr target).regTwo := by
  rw [full_multi_eq_single sched hs]
  exact full_vanilla_rate g hg lo hi hpay A hA draw T thr

/-- the rate in the property's own constants: `N` = all decision infosets of both players -/
theorem rateOK_total (D : ℝ) (hD : 0 ≤ D) (n N A iters : Nat) (hn : n ≤ N) (b : ℝ)
    (h : RateOK D n A iters (.fin b)) :
    b ≤ 2 * D * N * Real.sqrt A / Real.sqrt iters := by
  simp only [RateOK] at h
  refine le_trans h ?_
  have hnN : (n : ℝ) ≤ N := by exact_mod_cast hn
  apply div_le_div_of_nonneg_right _ (Real.sqrt_nonneg _)
  apply mul_le_mul_of_nonneg_right _ (Real.sqrt_nonneg _)
  exact mul_le_mul_of_nonneg_left hnN (mul_nonneg (by norm_num) hD)

/-! ## the hypotheses are satisfiable (non-vacuity) -/

theorem C05.tinyGame_payIn : PayIn (-1) 1 C05.tinyGame.root := by
  simp only [C05.tinyGame, PayIn, PayInL]
  norm_num

theorem C05.tinyGame_actsLe : ActsLe C05.tinyGame 2 := by
  intro me e he
  cases me <;> simp only [C05.tinyGame, Game.infos, if_true, Bool.false_eq_true, if_false,
    List.mem_singleton] at he <;> subst he <;> simp

/-- the rate theorem applies to a concrete game (one infoset per player, two actions, payoffs in
`[-1, 1]`): for every oracle, budget, threshold, schedule and task target both returned bounds are
at most `2·2·1·√2/√iters` -/
example (sched : Sched ℝ) (hs : sched.Fair) (draw : DrawFn ℝ) (T : ℕ) (thr : Option (Ext ℝ))
    (target : ℕ) :
    RateOK (1 - -1) 1 2
      (solveVanillaMultiS sched C05.tinyGame false RegretParams.vanilla draw T thr target).iters
      (solveVanillaMultiS sched C05.tinyGame false RegretParams.vanilla draw T thr target).regOne ∧
    RateOK (1 - -1) 1 2
      (solveVanillaMultiS sched C05.tinyGame false RegretParams.vanilla draw T thr target).iters
      (solveVanillaMultiS sched C05.tinyGame false RegretParams.vanilla draw T thr target).regTwo :=
  full_vanilla_rate_multi sched hs C05.tinyGame C05.tinyGame_wf (-1) 1 C05.tinyGame_payIn 2
    C05.tinyGame_actsLe draw T thr target

/-- `RateOK` is a real constraint: a finite bound above the rate violates it, and `+∞` is only
allowed when no iteration ran -/
example : ¬ RateOK 2 1 2 4 (.fin 3) ∧ ¬ RateOK 2 1 2 4 .posInf ∧ RateOK 2 1 2 0 .posInf := by
  refine ⟨?_, by simp [RateOK], by simp [RateOK]⟩
  simp only [RateOK, not_le]
  have h4 : Real.sqrt ((4 : ℕ) : ℝ) = 2 := by
    rw [show ((4 : ℕ) : ℝ) = 2 ^ 2 by norm_num, Real.sqrt_sq (by norm_num)]
  have h2 : Real.sqrt ((2 : ℕ) : ℝ) < 3 / 2 := by
    rw [Real.sqrt_lt' (by norm_num)]; norm_num
  rw [h4]
  norm_num
  linarith



/-! ## the true regret -/

theorem vanilla_none_iters (g : Game ℝ) (draw : DrawFn ℝ) (T : Nat) (hT : 0 < T) :
    (solveVanillaSingle g false RegretParams.vanilla draw T none).iters = T := by
  unfold solveVanillaSingle solveWith
  rw [solveLoop_none_iters]
  omega

/-- **the true regret of the returned profile obeys the CFR rate** (the bound dominates it by
C02): after `T` iterations without early termination it is at most `2·D·N·√A/√T`, `N` the number
of decision infosets of both players -/
theorem full_vanilla_regret_rate (g : Game ℝ) (hg : GameWF g) (lo hi : ℝ) (hD : lo ≤ hi)
    (hpay : PayIn lo hi g.root) (A : Nat) (hA : ActsLe g A) (draw : DrawFn ℝ) (T : Nat) (hT : 0 < T) :
    (getInfo g (solveVanillaSingle g false RegretParams.vanilla draw T none).profile).regret
      ≤ 2 * (hi - lo) * ((g.p1.length + g.p2.length : Nat) : ℝ) * Real.sqrt A / Real.sqrt T := by
  obtain ⟨b1, b2, e1, e2, _, _, hle⟩ := full_vanilla_bound_dominates g hg draw T hT none
  obtain ⟨r1, r2⟩ := full_vanilla_rate g hg lo hi hpay A hA draw T none
  rw [vanilla_none_iters g draw T hT] at r1 r2
  rw [e1] at r1
  rw [e2] at r2
  have hD' : 0 ≤ hi - lo := by linarith
  have h1 := rateOK_total (hi - lo) hD' g.p1.length (g.p1.length + g.p2.length) A T
    (by omega) b1 r1
  have h2 := rateOK_total (hi - lo) hD' g.p2.length (g.p1.length + g.p2.length) A T
    (by omega) b2 r2
  exact le_trans hle (max_le h1 h2)

/-- for a non-negative constant `C`, `C/√T` is eventually below every `ε > 0` -/
theorem const_div_sqrt_eventually (C : ℝ) (hC : 0 ≤ C) (ε : ℝ) (hε : 0 < ε) :
    ∃ T0 : Nat, 0 < T0 ∧ ∀ T : Nat, T0 ≤ T → C / Real.sqrt T ≤ ε := by
  refine ⟨⌈(C / ε) ^ 2⌉₊ + 1, by omega, ?_⟩
  intro T hT
  have hTpos : (0 : ℝ) < T := by
    have : 0 < T := by omega
    exact_mod_cast this
  have hs : 0 < Real.sqrt T := Real.sqrt_pos.mpr hTpos
  have hq : 0 ≤ C / ε := div_nonneg hC hε.le
  have h1 : (C / ε) ^ 2 ≤ (T : ℝ) := by
    have h2 : (C / ε) ^ 2 ≤ (⌈(C / ε) ^ 2⌉₊ : ℝ) := Nat.le_ceil _
    have h3 : ((⌈(C / ε) ^ 2⌉₊ + 1 : ℕ) : ℝ) ≤ (T : ℝ) := by exact_mod_cast hT
    push_cast at h3
    linarith
  have h4 : C / ε ≤ Real.sqrt T := by
    have := Real.sqrt_le_sqrt h1
    rwa [Real.sqrt_sq hq] at this
  rw [div_le_iff₀ hs]
  rw [div_le_iff₀ hε] at h4
  linarith

/-- **in particular the regret tends to zero as the budget grows**, on every game -/
theorem full_vanilla_regret_tendsto_zero (g : Game ℝ) (hg : GameWF g) (lo hi : ℝ) (hD : lo ≤ hi)
    (hpay : PayIn lo hi g.root) (A : Nat) (hA : ActsLe g A) (draw : DrawFn ℝ) :
    ∀ ε : ℝ, 0 < ε → ∃ T0 : Nat, ∀ T : Nat, T0 ≤ T →
      (getInfo g (solveVanillaSingle g false RegretParams.vanilla draw T none).profile).regret ≤ ε := by
  intro ε hε
  have hD' : 0 ≤ hi - lo := by linarith
  have hC : 0 ≤ 2 * (hi - lo) * ((g.p1.length + g.p2.length : Nat) : ℝ) * Real.sqrt A := by
    have := Real.sqrt_nonneg (A : ℝ)
    positivity
  obtain ⟨T0, hT0, h⟩ := const_div_sqrt_eventually _ hC ε hε
  refine ⟨T0, fun T hT => ?_⟩
  exact le_trans (full_vanilla_regret_rate g hg lo hi hD hpay A hA draw T (by omega)) (h T hT)

/-- the second sentence of the property for the vanilla preset: the envelope
`6·D·N·(√A + 1/√T)/√T` holds (it is weaker than the rate above); for the discounted presets it is
not proved here -/
theorem full_preset_rate_partial (g : Game ℝ) (hg : GameWF g) (lo hi : ℝ) (hD : lo ≤ hi)
    (hpay : PayIn lo hi g.root) (A : Nat) (hA : ActsLe g A) (draw : DrawFn ℝ) (T : Nat) (hT : 0 < T) :
    (getInfo g (solveVanillaSingle g false RegretParams.vanilla draw T none).profile).regret
      ≤ 6 * (hi - lo) * ((g.p1.length + g.p2.length : Nat) : ℝ)
          * (Real.sqrt A + 1 / Real.sqrt T) / Real.sqrt T := by
  refine le_trans (full_vanilla_regret_rate g hg lo hi hD hpay A hA draw T hT) ?_
  have hD' : 0 ≤ hi - lo := by linarith
  have hN : (0 : ℝ) ≤ ((g.p1.length + g.p2.length : Nat) : ℝ) := Nat.cast_nonneg _
  have hsA := Real.sqrt_nonneg (A : ℝ)
  have hsT := Real.sqrt_nonneg (T : ℝ)
  have hinv : 0 ≤ 1 / Real.sqrt T := by positivity
  apply div_le_div_of_nonneg_right _ hsT
  have hDN : 0 ≤ (hi - lo) * ((g.p1.length + g.p2.length : Nat) : ℝ) := mul_nonneg hD' hN
  nlinarith [mul_nonneg hDN hsA, mul_nonneg hDN hinv]

end Cfr
