import CfrVerif.Model.Scalar
import CfrVerif.Model.Tree
import Mathlib.Algebra.Order.Field.Basic
import Mathlib.Algebra.BigOperators.Group.List.Basic
import Mathlib.Tactic.Ring
import Mathlib.Tactic.Linarith
import Mathlib.Tactic.Positivity
import Mathlib.Tactic.NormNum
import Mathlib.Tactic.FieldSimp
/-!
# Exact scalars

The theorems are about the model instantiated at a linearly ordered field
(`ℚ`, `ℝ`, …): every value is finite, nothing is NaN, `==` is equality.
-/
set_option linter.unusedSectionVars false
namespace Cfr

/-- an ordered field read as "doubles without rounding": finite, never NaN -/
instance (priority := low) exactFloatLike {α : Type} [Field α] [LinearOrder α] : FloatLike α :=
  ⟨fun _ => true, fun _ => false⟩

section
variable {α : Type} [Field α] [LinearOrder α] [IsStrictOrderedRing α]

@[simp] theorem isFinite_exact (x : α) : FloatLike.isFinite x = true := rfl
@[simp] theorem isNaN_exact (x : α) : FloatLike.isNaN x = false := rfl

theorem lsum_eq_sum (l : List α) : lsum l = l.sum := by
  unfold lsum
  rw [List.sum_eq_foldl]

@[simp] theorem lsum_nil : lsum ([] : List α) = 0 := rfl
@[simp] theorem lsum_cons (x : α) (l : List α) : lsum (x :: l) = x + lsum l := by
  simp [lsum_eq_sum]

theorem fmax_eq_max (a b : α) : fmax a b = max a b := by
  unfold fmax
  simp only [isNaN_exact, Bool.false_eq_true, if_false]
  split_ifs with h
  · exact (max_eq_right h.le).symm
  · exact (max_eq_left (not_lt.mp h)).symm

theorem fmin_eq_min (a b : α) : fmin a b = min a b := by
  unfold fmin
  simp only [isNaN_exact, Bool.false_eq_true, if_false]
  split_ifs with h
  · exact (min_eq_right h.le).symm
  · exact (min_eq_left (not_lt.mp h)).symm

end
end Cfr
