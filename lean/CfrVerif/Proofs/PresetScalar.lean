import CfrVerif.Proofs.PresetSpec
/-!
# Scalar part of the discounted-preset analysis: one infoset, one action

For each discounted preset the `t^γ`-weighted regret of every action at an infoset is at most
`T^γ · D · √(n·T)` plus a preset constant times `D` (Abel summation against the stored,
discounted cumulative regrets; the potential argument bounds their positive part).
-/
set_option linter.unusedSectionVars false
namespace Cfr

/-- the extra constant of a preset (multiplies `D`) -/
def presetConst : Nat → ℝ
  | 0 => 0      -- lcfr
  | 1 => 0      -- cfr+
  | 2 => 2      -- dcfr
  | _ => 250    -- dcfr-prune

theorem lcfr_weighted_regret (n : Nat) (hn : 1 ≤ n) (D : ℝ) (hD : 0 ≤ D) (T : Nat)
    (tr : RMTrace RegretParams.lcfr n D T) (a : Nat) (ha : a < n) :
    tr.weightedRegret a ≤ (T : ℝ) ^ (1 : ℝ) * (D * Real.sqrt (n * T)) + presetConst 0 * D := by
  sorry

theorem cfrPlus_weighted_regret (n : Nat) (hn : 1 ≤ n) (D : ℝ) (hD : 0 ≤ D) (T : Nat)
    (tr : RMTrace RegretParams.cfrPlus n D T) (a : Nat) (ha : a < n) :
    tr.weightedRegret a ≤ (T : ℝ) ^ (2 : ℝ) * (D * Real.sqrt (n * T)) + presetConst 1 * D := by
  sorry

theorem dcfr_weighted_regret (n : Nat) (hn : 1 ≤ n) (D : ℝ) (hD : 0 ≤ D) (T : Nat)
    (tr : RMTrace RegretParams.dcfr n D T) (a : Nat) (ha : a < n) :
    tr.weightedRegret a ≤ (T : ℝ) ^ (2 : ℝ) * (D * Real.sqrt (n * T)) + presetConst 2 * D := by
  sorry

theorem dcfrPrune_weighted_regret (n : Nat) (hn : 1 ≤ n) (D : ℝ) (hD : 0 ≤ D) (T : Nat)
    (tr : RMTrace RegretParams.dcfrPrune n D T) (a : Nat) (ha : a < n) :
    tr.weightedRegret a ≤ (T : ℝ) ^ (2 : ℝ) * (D * Real.sqrt (n * T)) + presetConst 3 * D := by
  sorry

/-- the sum of the weights: `Σ_{t ≤ T} t^γ ≥ T^{γ+1}/(γ+1)` -/
theorem weightTotal_ge (γ : ℝ) (hγ : 0 ≤ γ) (T : Nat) :
    (T : ℝ) ^ (γ + 1) / (γ + 1) ≤ weightTotal γ T := by
  sorry

end Cfr
