import CfrVerif.Proofs.PresetSpec
import CfrVerif.Proofs.PresetScalarCore
/-!
# Scalar part of the discounted-preset analysis: one infoset, one action

For each discounted preset the `t^γ`-weighted regret of every action at an infoset is at most
`T^γ · D · √(n·T)` plus a preset constant times `D` (Abel summation against the stored,
discounted cumulative regrets; the potential argument bounds their positive part).
-/
set_option linter.unusedSectionVars false
set_option linter.unusedVariables false
namespace Cfr

/-- the extra constant of a preset (multiplies `D`) -/
def presetConst : Nat → ℝ
  | 0 => 0      -- lcfr
  | 1 => 0      -- cfr+
  | 2 => 2      -- dcfr
  | _ => 250    -- dcfr-prune

namespace PS

theorem two_eq : (two : ℝ) = 2 := by norm_num [two]
theorem half_eq : (half : ℝ) = 1 / 2 := by norm_num [half]

theorem wgt_one (t : ℕ) : wgt 1 t = t := by simp [wgt]
theorem wgt_two (t : ℕ) : wgt two t = (t : ℝ) ^ 2 := by
  rw [wgt, two_eq]; exact Real.rpow_two _

theorem H1_of (t c : ℝ) (ht : 0 ≤ t) (hc : t ≤ c) : t ^ 2 ≤ (t + 1) ^ 2 * (c / (c + 1)) := by
  have hc0 : 0 ≤ c := le_trans ht hc
  have := mul_le_mul_of_nonneg_left hc ht
  rw [← mul_div_assoc, le_div_iff₀ (by linarith)]
  nlinarith

/-- (H1) for the positive exponent `3/2` of DCFR and DCFR-prune -/
theorem H1_dcfr (t : ℕ) (ht : 1 ≤ t) :
    wgt two t ≤ wgt two (t + 1) * genDiscount t (.fin ((1 : ℝ) + half)) := by
  have h1 : (1 : ℝ) ≤ t := by exact_mod_cast ht
  rw [genDiscount_closed_form t ht, wgt_two, wgt_two]
  push_cast
  apply H1_of _ _ (by linarith)
  calc (t : ℝ) = (t : ℝ) ^ (1 : ℝ) := (Real.rpow_one _).symm
    _ ≤ (t : ℝ) ^ ((1 : ℝ) + half) :=
      Real.rpow_le_rpow_of_exponent_le h1 (by rw [half_eq]; norm_num)

theorem kap_dcfr (t : ℕ) :
    kap (wgt two) (fun t => genDiscount t (.fin (0 : ℝ))) t
      = max 0 (((t : ℝ) + 1) ^ 2 * (1 / 2) - (t : ℝ) ^ 2) := by
  simp only [kap, wgt_two, genDiscount_zero]
  push_cast
  rfl

/-- the numeric bounds of the DCFR terms (index shifted by one) -/
noncomputable def cDcfr (t : ℕ) : ℝ := if t = 0 then 1 else if t = 1 then 3 / 4 else 0

theorem prune_ineq (s : ℝ) (hs0 : 0 ≤ s) (hs : 5 ≤ s ^ 2) :
    (s ^ 2 + 1) ^ 2 * (s / (s + 1)) ≤ (s ^ 2) ^ 2 := by
  have h1 : (2.23 : ℝ) ≤ s := by nlinarith
  have h2 : 5 * (2.23 - 2 : ℝ) ≤ s ^ 2 * (s - 2) :=
    mul_le_mul hs (by linarith) (by norm_num) (by positivity)
  have h3 : 2 * s ^ 2 + 1 ≤ s ^ 3 := by nlinarith
  have h4 := mul_le_mul_of_nonneg_left h3 hs0
  rw [← mul_div_assoc, div_le_iff₀ (by linarith)]
  nlinarith

theorem gen_half (t : ℕ) (ht : 1 ≤ t) :
    genDiscount t (.fin (half : ℝ)) = Real.sqrt t / (Real.sqrt t + 1) := by
  rw [genDiscount_closed_form t ht, half_eq, ← Real.sqrt_eq_rpow]

theorem kap_prune_zero (t : ℕ) (ht : 5 ≤ t) :
    kap (wgt two) (fun t => genDiscount t (.fin (half : ℝ))) t = 0 := by
  simp only [kap, wgt_two]
  rw [gen_half t (by omega)]
  apply max_eq_left
  have h5 : (5 : ℝ) ≤ t := by exact_mod_cast ht
  have hsq : Real.sqrt t ^ 2 = t := Real.sq_sqrt (by linarith)
  have := prune_ineq (Real.sqrt t) (Real.sqrt_nonneg _) (by rw [hsq]; exact h5)
  rw [hsq] at this
  push_cast
  linarith

theorem kap_prune_le (t : ℕ) (ht : 1 ≤ t) :
    kap (wgt two) (fun t => genDiscount t (.fin (half : ℝ))) t ≤ 2 * (t : ℝ) + 1 := by
  simp only [kap, wgt_two]
  have hu := (genDiscount_mem_unit t ht (.fin (half : ℝ))).2
  have ht0 : (0 : ℝ) ≤ t := Nat.cast_nonneg t
  apply max_le (by linarith)
  push_cast
  have : ((t : ℝ) + 1) ^ 2 * genDiscount t (.fin (half : ℝ)) ≤ ((t : ℝ) + 1) ^ 2 * 1 :=
    mul_le_mul_of_nonneg_left hu (by positivity)
  nlinarith

/-- the numeric bounds of the DCFR-prune terms (index shifted by one) -/
noncomputable def cPrune (t : ℕ) : ℝ :=
  if t < 4 then (2 * ((t + 1 : ℕ) : ℝ) + 1) * ((t + 1 : ℕ) : ℝ) else 0

/-- `(T+1)^{γ+1} ≤ T^{γ+1} + (γ+1)·(T+1)^γ` (Bernoulli) -/
theorem bernoulli_step (γ : ℝ) (hγ : 0 ≤ γ) (T : ℕ) :
    ((T + 1 : ℕ) : ℝ) ^ (γ + 1) ≤ (T : ℝ) ^ (γ + 1) + ((T + 1 : ℕ) : ℝ) ^ γ * (γ + 1) := by
  push_cast
  have hT : (0 : ℝ) ≤ T := Nat.cast_nonneg T
  have hu : (0 : ℝ) < (T : ℝ) + 1 := by linarith
  have hB := one_add_mul_self_le_rpow_one_add (s := -1 / ((T : ℝ) + 1))
    (by rw [le_div_iff₀ hu]; linarith) (p := γ + 1) (by linarith)
  have e1 : 1 + -1 / ((T : ℝ) + 1) = (T : ℝ) / ((T : ℝ) + 1) := by field_simp; ring
  rw [e1, Real.div_rpow hT hu.le] at hB
  have hup : 0 < ((T : ℝ) + 1) ^ (γ + 1) := Real.rpow_pos_of_pos hu _
  have e2 : ((T : ℝ) + 1) ^ (γ + 1) = ((T : ℝ) + 1) ^ γ * ((T : ℝ) + 1) := Real.rpow_add_one hu.ne' γ
  rw [le_div_iff₀ hup] at hB
  have e3 : (1 + (γ + 1) * (-1 / ((T : ℝ) + 1))) * ((T : ℝ) + 1) ^ (γ + 1)
      = ((T : ℝ) + 1) ^ (γ + 1) - (γ + 1) * ((T : ℝ) + 1) ^ γ := by
    rw [e2]; field_simp; ring
  rw [e3] at hB
  linarith

end PS
open PS

theorem lcfr_weighted_regret (n : Nat) (hn : 1 ≤ n) (D : ℝ) (hD : 0 ≤ D) (T : Nat)
    (tr : RMTrace RegretParams.lcfr n D T) (a : Nat) (ha : a < n) :
    tr.weightedRegret a ≤ (T : ℝ) ^ (1 : ℝ) * (D * Real.sqrt (n * T)) + presetConst 0 * D := by
  have hg : ∀ t : ℕ, 1 ≤ t → genDiscount t (.fin (1 : ℝ)) = (t : ℝ) / ((t : ℝ) + 1) := by
    intro t ht
    rw [genDiscount_closed_form t ht, Real.rpow_one]
  have h := trace_kap_zero hD tr a ha
    (by
      intro t ht _
      have htpos : (0 : ℝ) < t := by exact_mod_cast ht
      show wgt 1 t ≤ wgt 1 (t + 1) * genDiscount t (.fin (1 : ℝ))
      rw [hg t ht, wgt_one, wgt_one]
      push_cast
      rw [mul_div_cancel₀ _ (by positivity)])
    (by
      intro t ht _
      have htpos : (0 : ℝ) < t := by exact_mod_cast ht
      show wgt 1 (t + 1) * genDiscount t (.fin (1 : ℝ)) ≤ wgt 1 t
      rw [hg t ht, wgt_one, wgt_one]
      push_cast
      rw [mul_div_cancel₀ _ (by positivity)])
  have e : (RegretParams.lcfr : RegretParams ℝ).strat = 1 := rfl
  rw [e] at h
  simpa [presetConst] using h

theorem cfrPlus_weighted_regret (n : Nat) (hn : 1 ≤ n) (D : ℝ) (hD : 0 ≤ D) (T : Nat)
    (tr : RMTrace RegretParams.cfrPlus n D T) (a : Nat) (ha : a < n) :
    tr.weightedRegret a ≤ (T : ℝ) ^ (2 : ℝ) * (D * Real.sqrt (n * T)) + presetConst 1 * D := by
  have h := trace_kap_zero hD tr a ha
    (by
      intro t ht _
      show wgt two t ≤ wgt two (t + 1) * genDiscount t (.posInf : Ext ℝ)
      rw [genDiscount_posInf, wgt_two, wgt_two]
      push_cast
      have : (0 : ℝ) ≤ t := Nat.cast_nonneg t
      nlinarith)
    (by
      intro t ht _
      show wgt two (t + 1) * genDiscount t (.negInf : Ext ℝ) ≤ wgt two t
      rw [genDiscount_negInf, mul_zero]
      exact wgt_nonneg _ _)
  have e : (RegretParams.cfrPlus : RegretParams ℝ).strat = 2 := two_eq
  rw [e] at h
  simpa [presetConst] using h

theorem dcfr_weighted_regret (n : Nat) (hn : 1 ≤ n) (D : ℝ) (hD : 0 ≤ D) (T : Nat)
    (tr : RMTrace RegretParams.dcfr n D T) (a : Nat) (ha : a < n) :
    tr.weightedRegret a ≤ (T : ℝ) ^ (2 : ℝ) * (D * Real.sqrt (n * T)) + presetConst 2 * D := by
  have h := trace_abel hD tr a ha (fun t ht _ => H1_dcfr t ht)
  have e : (RegretParams.dcfr : RegretParams ℝ).strat = 2 := two_eq
  obtain ⟨hm1, hms⟩ := trace_neg tr a ha
  have hK : ∑ t ∈ Finset.range (T - 1),
      kap (wgt two) (fun t => genDiscount t (.fin (0 : ℝ))) (t + 1)
        * max (-(ypre tr a (t + 1))) 0 ≤ ∑ t ∈ Finset.range 2, cDcfr t * D := by
    apply sum_le_of_eventually_zero
    · intro t ht
      rw [kap_dcfr]
      rcases Nat.lt_or_ge t 2 with h2 | h2
      · have hm1' := hm1 (by omega)
        have hm0 : 0 ≤ max (-(ypre tr a 1)) 0 := le_max_right _ _
        rcases (by omega : t = 0 ∨ t = 1) with rfl | rfl
        · have : max (0 : ℝ) ((((0 + 1 : ℕ) : ℝ) + 1) ^ 2 * (1 / 2) - ((0 + 1 : ℕ) : ℝ) ^ 2) = 1 := by
            norm_num
          rw [this]
          simpa [cDcfr] using hm1'
        · have : max (0 : ℝ) ((((1 + 1 : ℕ) : ℝ) + 1) ^ 2 * (1 / 2) - ((1 + 1 : ℕ) : ℝ) ^ 2)
              = 1 / 2 := by
            norm_num
          rw [this]
          have h2' := hms 1 (le_refl _) (by omega)
          have : genDiscount 1 (RegretParams.dcfr : RegretParams ℝ).negRegret = 1 / 2 :=
            genDiscount_zero 1
          rw [this] at h2'
          simp only [cDcfr]
          norm_num
          linarith
      · have ht3 : (3 : ℝ) ≤ ((t + 1 : ℕ) : ℝ) := by exact_mod_cast (by omega : 3 ≤ t + 1)
        have : max (0 : ℝ) ((((t + 1 : ℕ) : ℝ) + 1) ^ 2 * (1 / 2) - ((t + 1 : ℕ) : ℝ) ^ 2) = 0 := by
          apply max_eq_left
          nlinarith
        rw [this, zero_mul]
        have : cDcfr t = 0 := by
          unfold cDcfr
          rw [if_neg (by omega), if_neg (by omega)]
        rw [this, zero_mul]
    · intro t
      unfold cDcfr
      split_ifs <;> positivity
    · intro t ht
      unfold cDcfr
      rw [if_neg (by omega), if_neg (by omega), zero_mul]
  have hK2 : ∑ t ∈ Finset.range 2, cDcfr t * D ≤ 2 * D := by
    simp only [Finset.sum_range_succ, Finset.sum_range_zero, cDcfr]
    norm_num
    linarith
  have h' := le_trans h (add_le_add le_rfl (le_trans hK hK2))
  rw [e] at h'
  simpa [presetConst] using h'

theorem dcfrPrune_weighted_regret (n : Nat) (hn : 1 ≤ n) (D : ℝ) (hD : 0 ≤ D) (T : Nat)
    (tr : RMTrace RegretParams.dcfrPrune n D T) (a : Nat) (ha : a < n) :
    tr.weightedRegret a ≤ (T : ℝ) ^ (2 : ℝ) * (D * Real.sqrt (n * T)) + presetConst 3 * D := by
  have h := trace_abel hD tr a ha (fun t ht _ => H1_dcfr t ht)
  have e : (RegretParams.dcfrPrune : RegretParams ℝ).strat = 2 := two_eq
  obtain ⟨hm1, hms⟩ := trace_neg tr a ha
  have hlin := neg_linear T D (fun t => max (-(ypre tr a t)) 0)
    (fun t => genDiscount t (RegretParams.dcfrPrune : RegretParams ℝ).negRegret) hm1 hms
    (fun _ => le_max_right _ _) (fun t h1 _ => (genDiscount_mem_unit t h1 _).2)
  have hK : ∑ t ∈ Finset.range (T - 1),
      kap (wgt two) (fun t => genDiscount t (.fin (half : ℝ))) (t + 1)
        * max (-(ypre tr a (t + 1))) 0 ≤ ∑ t ∈ Finset.range 4, cPrune t * D := by
    apply sum_le_of_eventually_zero
    · intro t ht
      have hm0 : 0 ≤ max (-(ypre tr a (t + 1))) 0 := le_max_right _ _
      rcases Nat.lt_or_ge t 4 with h4 | h4
      · have hk := kap_prune_le (t + 1) (by omega)
        have hk0 : 0 ≤ kap (wgt two) (fun t => genDiscount t (.fin (half : ℝ))) (t + 1) :=
          le_max_left _ _
        have hl : max (-(ypre tr a (t + 1))) 0 ≤ ((t + 1 : ℕ) : ℝ) * D :=
          hlin (t + 1) (by omega) (by omega)
        have : cPrune t = (2 * ((t + 1 : ℕ) : ℝ) + 1) * ((t + 1 : ℕ) : ℝ) := by
          unfold cPrune; rw [if_pos h4]
        rw [this]
        calc _ ≤ (2 * ((t + 1 : ℕ) : ℝ) + 1) * (((t + 1 : ℕ) : ℝ) * D) :=
              mul_le_mul hk hl hm0 (by positivity)
          _ = _ := by ring
      · rw [kap_prune_zero (t + 1) (by omega), zero_mul]
        have : cPrune t = 0 := by
          unfold cPrune; rw [if_neg (by omega)]
        rw [this, zero_mul]
    · intro t
      unfold cPrune
      split_ifs <;> positivity
    · intro t ht
      unfold cPrune
      rw [if_neg (by omega), zero_mul]
  have hK2 : ∑ t ∈ Finset.range 4, cPrune t * D ≤ 250 * D := by
    simp only [Finset.sum_range_succ, Finset.sum_range_zero, cPrune]
    norm_num
    linarith
  have h' := le_trans h (add_le_add le_rfl (le_trans hK hK2))
  rw [e] at h'
  simpa [presetConst] using h'

/-- the sum of the weights: `Σ_{t ≤ T} t^γ ≥ T^{γ+1}/(γ+1)` -/
theorem weightTotal_ge (γ : ℝ) (hγ : 0 ≤ γ) (T : Nat) :
    (T : ℝ) ^ (γ + 1) / (γ + 1) ≤ weightTotal γ T := by
  unfold weightTotal
  rw [list_sum_range_map]
  have hγ1 : 0 < γ + 1 := by linarith
  induction T with
  | zero =>
    simp [Real.zero_rpow hγ1.ne']
  | succ T ih =>
    rw [Finset.sum_range_succ]
    refine le_trans ?_ (add_le_add ih le_rfl)
    rw [div_add' _ _ _ hγ1.ne', div_le_div_iff_of_pos_right hγ1]
    exact PS.bernoulli_step γ hγ T

end Cfr
