import CfrVerif.Proofs.Unbiased
import CfrVerif.Model.External
/-!
# External sampling is unbiased for the updating player's regrets

One external-sampling pass of player `first` draws one outcome per chance infoset (declared
probabilities) and one action per infoset of the other player (that player's current strategy),
all independently.  The expectation over both families of draws of what the pass adds to a regret
accumulator of the updating player equals what the unsampled traversal adds: the exact
instantaneous counterfactual regret.

Proof outline (`Cfr.UnbE`, imitating `Cfr.Unb`): `EE` is the double expectation (chance draws
outside, the other player's draws inside); it is linear and the draw of one chance infoset
(`EE_pullC`) or of one infoset of the other player (`EE_pullP`) can be integrated first.  `em` is a
pure mirror of `erec` (draws as functions, no caches) that `erec` agrees with from any cache
consistent with the draws (`erec_em`).  A subtree only reads the draws of its own chance infosets
and of its own infosets of the other player (`em_congr`); perfect recall of the other player
(`GameWF.recall`) gives that none of that player's infosets occurs twice on a path
(`pr_noRepeat`), so the draw at a node of the other player is independent of everything below it.
The induction `unbE` proves jointly, for every subtree `n` and all reaches `pc p1 p2`,
`E[value_ext n] = ± value_full n` and `E[cell_ext n] * w = cell_full n` where `w` is the
rest-of-the-world reach (`pc * p2` for `first = true`, `p1 * pc` otherwise).
-/
set_option linter.unusedSectionVars false
namespace Cfr
variable {α : Type} [Field α] [LinearOrder α] [IsStrictOrderedRing α]

/-- the context of an external-sampling pass of player `first` whose chance draws are `kc` and
whose draws at the other player's infosets are `kp` -/
def extCtx (g : Game α) (first : Bool) (strat : Bool → Nat → List α) (kc kp : Draws) : ECtx α :=
  ⟨g.chance, first, strat, fun kind i _ _ => if kind = 0 then kc i else kp i, 0, 0⟩

/-- the current strategies of the non-updating player, one distribution per infoset -/
def oppTable (g : Game α) (first : Bool) (strat : Bool → Nat → List α) : List (List α) :=
  (List.range (g.infos (!first)).length).map (fun j => strat (!first) j)

namespace UnbE
open Unb

/-! ## the double expectation -/

/-- expectation over the chance draws (outer) and the other player's draws (inner) -/
def EE (ch opp : List (List α)) (k0 k0' : Draws) (F : Draws → Draws → α) : α :=
  expectDraws ch 0 k0 (fun kc => expectDraws opp 0 k0' (fun kp => F kc kp))

section
variable (ch opp : List (List α)) (k0 k0' : Draws)

theorem EE_add (F G : Draws → Draws → α) :
    EE ch opp k0 k0' (fun kc kp => F kc kp + G kc kp) = EE ch opp k0 k0' F + EE ch opp k0 k0' G := by
  simp only [EE, expectDraws_add]

theorem EE_mul_left (c : α) (F : Draws → Draws → α) :
    EE ch opp k0 k0' (fun kc kp => c * F kc kp) = c * EE ch opp k0 k0' F := by
  simp only [EE, expectDraws_mul_left]

theorem EE_zero : EE ch opp k0 k0' (fun _ _ => (0 : α)) = 0 := by
  simp only [EE, expectDraws_zero]

theorem EE_neg (F : Draws → Draws → α) :
    EE ch opp k0 k0' (fun kc kp => - F kc kp) = - EE ch opp k0 k0' F := by
  simp only [EE, expectDraws_neg]

theorem EE_const (hch : ∀ ps ∈ ch, ps.sum = 1) (hopp : ∀ σ ∈ opp, σ.sum = 1) (c : α) :
    EE ch opp k0 k0' (fun _ _ => c) = c := by
  simp only [EE, expectDraws_const opp hopp, expectDraws_const ch hch]

theorem expectDraws_expectOne (s : Nat) (k : Draws) (σ : List α) (G : Draws → Nat → α) :
    expectDraws ch s k (fun kc => expectOne σ (fun j => G kc j))
      = expectOne σ (fun j => expectDraws ch s k (fun kc => G kc j)) := by
  induction σ generalizing G with
  | nil => simp only [expectOne_nil, expectDraws_zero]
  | cons p σ ih =>
    simp only [expectOne_cons, expectDraws_add, expectDraws_mul_left]
    rw [ih (fun kc j => G kc (j + 1))]

/-- the draw of one chance infoset can be integrated first -/
theorem EE_pullC (i : Nat) (ps : List α) (h : ch[i]? = some ps) (h1 : ps.sum = 1)
    (F : Draws → Draws → α) :
    EE ch opp k0 k0' F
      = expectOne ps (fun j => EE ch opp k0 k0' (fun kc kp => F (upd kc i j) kp)) := by
  unfold EE
  rw [expectDraws_pull ch 0 k0 i ps h h1]
  simp only [Nat.zero_add]

/-- the draw of one infoset of the other player can be integrated first -/
theorem EE_pullP (i : Nat) (σ : List α) (h : opp[i]? = some σ) (h1 : σ.sum = 1)
    (F : Draws → Draws → α) :
    EE ch opp k0 k0' F
      = expectOne σ (fun j => EE ch opp k0 k0' (fun kc kp => F kc (upd kp i j))) := by
  unfold EE
  rw [← expectDraws_expectOne]
  apply expectDraws_congr
  intro kc
  rw [expectDraws_pull opp 0 k0' i σ h h1]
  simp only [Nat.zero_add]

end

/-! ## a pure mirror of the external-sampling traversal -/

mutual
def em (first : Bool) (strat : Bool → Nat → List α) (kc kp : Draws) : Node α → α × List (Eff α)
  | .term p => (if first then p else -p, [])
  | .chance i ks => emNth first strat kc kp ks (kc i)
  | .player one i ks =>
    if one = first then
      let r := emActs first strat kc kp one i (strat one i) ks 0
      (r.1, r.2 ++ subEffsE one i r.1 (strat one i).length)
    else
      let r := emNth first strat kc kp ks (kp i)
      (r.1, extStratEffs one i (strat one i) 0 ++ r.2)
def emNth (first : Bool) (strat : Bool → Nat → List α) (kc kp : Draws) :
    List (Node α) → Nat → α × List (Eff α)
  | [], _ => (0, [])
  | n :: _, 0 => em first strat kc kp n
  | _ :: ks, j + 1 => emNth first strat kc kp ks j
def emActs (first : Bool) (strat : Bool → Nat → List α) (kc kp : Draws) (one : Bool) (i : Nat) :
    List α → List (Node α) → Nat → α × List (Eff α)
  | s :: σ, n :: ks, a =>
    let r := em first strat kc kp n
    let r' := emActs first strat kc kp one i σ ks (a + 1)
    (s * r.1 + r'.1, r.2 ++ ⟨one, i, .regret, a, r.1⟩ :: r'.2)
  | _, _, _ => (0, [])
end

theorem emActs_nil_right (first : Bool) (strat : Bool → Nat → List α) (kc kp : Draws) (one : Bool)
    (i : Nat) (σ : List α) (a : Nat) : emActs first strat kc kp one i σ [] a = (0, []) := by
  cases σ <;> simp [emActs]

/-! ### unfolding equations of the model in projection form -/

theorem erec_chance_eq' (c : ECtx α) (i : Nat) (ks : List (Node α)) (d : DrawSt α) :
    erec c (.chance i ks) d =
      erecNth c ks (sampleChance c.draw c.chancePass (c.ch.getD i []) i d).1
        (sampleChance c.draw c.chancePass (c.ch.getD i []) i d).2 := by
  simp only [erec]

theorem erec_own_eq' (c : ECtx α) (one : Bool) (i : Nat) (ks : List (Node α)) (d : DrawSt α)
    (h : (one == c.first) = true) :
    erec c (.player one i ks) d =
      ((erecActs c one i (c.strat one i) ks d 0 0).1,
       (erecActs c one i (c.strat one i) ks d 0 0).2.1 ++
         subEffsE one i (erecActs c one i (c.strat one i) ks d 0 0).1 (c.strat one i).length,
       (erecActs c one i (c.strat one i) ks d 0 0).2.2) := by
  simp only [erec, if_pos h]

theorem erec_opp_eq' (c : ECtx α) (one : Bool) (i : Nat) (ks : List (Node α)) (d : DrawSt α)
    (h : ¬ (one == c.first) = true) :
    erec c (.player one i ks) d =
      ((erecNth c ks (samplePlayer c.draw (if one then 1 else 2) c.playerPass (c.strat one i) i d).1
          (samplePlayer c.draw (if one then 1 else 2) c.playerPass (c.strat one i) i d).2).1,
       extStratEffs one i (c.strat one i) 0 ++
        (erecNth c ks (samplePlayer c.draw (if one then 1 else 2) c.playerPass (c.strat one i) i d).1
          (samplePlayer c.draw (if one then 1 else 2) c.playerPass (c.strat one i) i d).2).2.1,
       (erecNth c ks (samplePlayer c.draw (if one then 1 else 2) c.playerPass (c.strat one i) i d).1
          (samplePlayer c.draw (if one then 1 else 2) c.playerPass (c.strat one i) i d).2).2.2) := by
  simp only [erec, if_neg h]

theorem erecActs_cons_eq' (c : ECtx α) (one : Bool) (j : Nat) (s : α) (σ : List α) (k : Node α)
    (ks : List (Node α)) (d : DrawSt α) (a : Nat) (ex : α) :
    erecActs c one j (s :: σ) (k :: ks) d a ex =
      ((erecActs c one j σ ks (erec c k d).2.2 (a + 1) (ex + s * (erec c k d).1)).1,
       (erec c k d).2.1 ++ ⟨one, j, .regret, a, (erec c k d).1⟩ ::
         (erecActs c one j σ ks (erec c k d).2.2 (a + 1) (ex + s * (erec c k d).1)).2.1,
       (erecActs c one j σ ks (erec c k d).2.2 (a + 1) (ex + s * (erec c k d).1)).2.2) := by
  simp only [erecActs]

/-! ### the traversal of the model agrees with the mirror from any consistent cache -/

/-- every cached sample is the draw `kc` (chance) resp. `kp` (other player) -/
def ConsE (kc kp : Draws) (d : DrawSt α) : Prop :=
  (∀ i v, assocGet d.chance i = some v → v = kc i) ∧
  (∀ i v, assocGet d.player i = some v → v = kp i)

theorem ConsE_empty (kc kp : Draws) : ConsE kc kp ({} : DrawSt α) :=
  ⟨fun i v h => by simp [assocGet] at h, fun i v h => by simp [assocGet] at h⟩

theorem sampleChance_consE (kc kp : Draws) (draw : DrawFn α) (pass : Nat) (ps : List α) (i : Nat)
    (d : DrawSt α) (hdraw : draw 0 i pass ps = kc i) (hd : ConsE kc kp d) :
    (sampleChance draw pass ps i d).1 = kc i ∧ ConsE kc kp (sampleChance draw pass ps i d).2 := by
  cases hg : assocGet d.chance i with
  | some v => simp only [sampleChance, hg]; exact ⟨hd.1 i v hg, hd⟩
  | none =>
    simp only [sampleChance, hg]
    refine ⟨hdraw, ?_, hd.2⟩
    intro j v hj
    simp only [assocGet, List.find?_cons] at hj
    by_cases hij : i = j
    · subst hij; simp at hj; rw [← hj]; exact hdraw
    · have : (i == j) = false := by simpa using hij
      simp only [this] at hj
      exact hd.1 j v hj

theorem samplePlayer_consE (kc kp : Draws) (draw : DrawFn α) (kind pass : Nat) (σ : List α) (i : Nat)
    (d : DrawSt α) (hdraw : draw kind i pass σ = kp i) (hd : ConsE kc kp d) :
    (samplePlayer draw kind pass σ i d).1 = kp i ∧
      ConsE kc kp (samplePlayer draw kind pass σ i d).2 := by
  cases hg : assocGet d.player i with
  | some v => simp only [samplePlayer, hg]; exact ⟨hd.2 i v hg, hd⟩
  | none =>
    simp only [samplePlayer, hg]
    refine ⟨hdraw, hd.1, ?_⟩
    intro j v hj
    simp only [assocGet, List.find?_cons] at hj
    by_cases hij : i = j
    · subst hij; simp at hj; rw [← hj]; exact hdraw
    · have : (i == j) = false := by simpa using hij
      simp only [this] at hj
      exact hd.2 j v hj

theorem extCtx_draw_chance (g : Game α) (first : Bool) (strat : Bool → Nat → List α) (kc kp : Draws)
    (i p : Nat) (ps : List α) : (extCtx g first strat kc kp).draw 0 i p ps = kc i := by
  simp [extCtx]

theorem extCtx_draw_player (g : Game α) (first : Bool) (strat : Bool → Nat → List α) (kc kp : Draws)
    (one : Bool) (i p : Nat) (ps : List α) :
    (extCtx g first strat kc kp).draw (if one then 1 else 2) i p ps = kp i := by
  cases one <;> simp [extCtx]

mutual
theorem erec_em (g : Game α) (first : Bool) (strat : Bool → Nat → List α) (kc kp : Draws) :
    ∀ (n : Node α) (d : DrawSt α), ConsE kc kp d →
      (erec (extCtx g first strat kc kp) n d).1 = (em first strat kc kp n).1 ∧
      (erec (extCtx g first strat kc kp) n d).2.1 = (em first strat kc kp n).2 ∧
      ConsE kc kp (erec (extCtx g first strat kc kp) n d).2.2
  | .term p, d, hd => by
    refine ⟨?_, ?_, ?_⟩ <;> simp only [erec, em] <;> first | rfl | exact hd
  | .chance i ks, d, hd => by
    obtain ⟨h1, h2⟩ := sampleChance_consE kc kp (extCtx g first strat kc kp).draw
      (extCtx g first strat kc kp).chancePass ((extCtx g first strat kc kp).ch.getD i []) i d
      (extCtx_draw_chance g first strat kc kp i _ _) hd
    rw [erec_chance_eq', h1]
    simp only [em]
    exact erecNth_em g first strat kc kp ks (kc i) _ h2
  | .player one i ks, d, hd => by
    by_cases ho : one = first
    · have ho' : (one == (extCtx g first strat kc kp).first) = true := by simp [extCtx, ho]
      rw [erec_own_eq' _ one i ks d ho']
      obtain ⟨h1, h2, h3⟩ := erecActs_em g first strat kc kp one i (strat one i) ks d 0 0 hd
      have hst : (extCtx g first strat kc kp).strat = strat := rfl
      simp only [em, if_pos ho, hst]
      refine ⟨?_, ?_, h3⟩
      · rw [h1, zero_add]
      · rw [h1, h2, zero_add]
    · have ho' : ¬ (one == (extCtx g first strat kc kp).first) = true := by simp [extCtx, ho]
      rw [erec_opp_eq' _ one i ks d ho']
      have hst : (extCtx g first strat kc kp).strat = strat := rfl
      obtain ⟨h1, h2⟩ := samplePlayer_consE kc kp (extCtx g first strat kc kp).draw
        (if one then 1 else 2) (extCtx g first strat kc kp).playerPass (strat one i) i d
        (extCtx_draw_player g first strat kc kp one i _ _) hd
      simp only [hst, h1, em, if_neg ho]
      obtain ⟨g1, g2, g3⟩ := erecNth_em g first strat kc kp ks (kp i) _ h2
      exact ⟨g1, by rw [g2], g3⟩
theorem erecNth_em (g : Game α) (first : Bool) (strat : Bool → Nat → List α) (kc kp : Draws) :
    ∀ (ks : List (Node α)) (j : Nat) (d : DrawSt α), ConsE kc kp d →
      (erecNth (extCtx g first strat kc kp) ks j d).1 = (emNth first strat kc kp ks j).1 ∧
      (erecNth (extCtx g first strat kc kp) ks j d).2.1 = (emNth first strat kc kp ks j).2 ∧
      ConsE kc kp (erecNth (extCtx g first strat kc kp) ks j d).2.2
  | [], _, d, hd => by simp [erecNth, emNth, hd]
  | n :: _, 0, d, hd => by
    simp only [erecNth, emNth]; exact erec_em g first strat kc kp n d hd
  | _ :: ks, j + 1, d, hd => by
    simp only [erecNth, emNth]; exact erecNth_em g first strat kc kp ks j d hd
theorem erecActs_em (g : Game α) (first : Bool) (strat : Bool → Nat → List α) (kc kp : Draws)
    (one : Bool) (i : Nat) :
    ∀ (σ : List α) (ks : List (Node α)) (d : DrawSt α) (a : Nat) (ex : α), ConsE kc kp d →
      (erecActs (extCtx g first strat kc kp) one i σ ks d a ex).1
        = ex + (emActs first strat kc kp one i σ ks a).1 ∧
      (erecActs (extCtx g first strat kc kp) one i σ ks d a ex).2.1
        = (emActs first strat kc kp one i σ ks a).2 ∧
      ConsE kc kp (erecActs (extCtx g first strat kc kp) one i σ ks d a ex).2.2
  | s :: σ, n :: ks, d, a, ex, hd => by
    rw [erecActs_cons_eq']
    obtain ⟨h1, h2, h3⟩ := erec_em g first strat kc kp n d hd
    obtain ⟨g1, g2, g3⟩ := erecActs_em g first strat kc kp one i σ ks
      (erec (extCtx g first strat kc kp) n d).2.2 (a + 1)
      (ex + s * (erec (extCtx g first strat kc kp) n d).1) h3
    simp only [emActs]
    refine ⟨?_, ?_, g3⟩
    · rw [g1, h1]; ring
    · rw [g2, h1, h2]
  | [], _, d, _, ex, hd => by simp [erecActs, emActs, hd]
  | _ :: _, [], d, _, ex, hd => by simp [erecActs, emActs, hd]
end

/-! ## no infoset of a player with perfect recall occurs twice on a path -/

mutual
/-- no infoset of player `opp` occurs twice on a root-to-leaf path -/
def NoOppRepeat (opp : Bool) : List Nat → Node α → Prop
  | _, .term _ => True
  | seen, .chance _ ks => NoOppRepeatL opp seen ks
  | seen, .player one i ks =>
    if one = opp then i ∉ seen ∧ NoOppRepeatL opp (i :: seen) ks else NoOppRepeatL opp seen ks
def NoOppRepeatL (opp : Bool) : List Nat → List (Node α) → Prop
  | _, [] => True
  | seen, k :: ks => NoOppRepeat opp seen k ∧ NoOppRepeatL opp seen ks
end

mutual
theorem pr_noRepeat (me : Bool) (hist : Nat → Hist) :
    ∀ (n : Node α) (H : Hist) (seen : List Nat), PR me hist H n →
      (∀ x ∈ seen, (hist x).length < H.length) → NoOppRepeat me seen n
  | .term _, _, _, _, _ => by simp [NoOppRepeat]
  | .chance _ ks, H, seen, h, hs => by
    simp only [NoOppRepeat]
    exact prl_noRepeat me hist ks H seen (by simpa [PR] using h) hs
  | .player one i ks, H, seen, h, hs => by
    by_cases ho : one = me
    · obtain ⟨hH, hD⟩ := (by simpa [PR, ho] using h : hist i = H ∧ PRD me hist H i 0 ks)
      simp only [NoOppRepeat, if_pos ho]
      refine ⟨fun hi => ?_, prd_noRepeat me hist ks H i 0 (i :: seen) hD ?_⟩
      · have := hs i hi
        rw [hH] at this
        exact absurd this (lt_irrefl _)
      · intro x hx
        rcases List.mem_cons.mp hx with rfl | hx
        · rw [hH]; exact Nat.lt_succ_self _
        · exact Nat.lt_succ_of_lt (hs x hx)
    · have hL : PRL me hist H ks := by simpa [PR, ho] using h
      simp only [NoOppRepeat, if_neg ho]
      exact prl_noRepeat me hist ks H seen hL hs
theorem prl_noRepeat (me : Bool) (hist : Nat → Hist) :
    ∀ (ks : List (Node α)) (H : Hist) (seen : List Nat), PRL me hist H ks →
      (∀ x ∈ seen, (hist x).length < H.length) → NoOppRepeatL me seen ks
  | [], _, _, _, _ => by simp [NoOppRepeatL]
  | k :: ks, H, seen, h, hs => by
    obtain ⟨h1, h2⟩ := (by simpa [PRL] using h : PR me hist H k ∧ PRL me hist H ks)
    simp only [NoOppRepeatL]
    exact ⟨pr_noRepeat me hist k H seen h1 hs, prl_noRepeat me hist ks H seen h2 hs⟩
theorem prd_noRepeat (me : Bool) (hist : Nat → Hist) :
    ∀ (ks : List (Node α)) (H : Hist) (i a : Nat) (seen : List Nat), PRD me hist H i a ks →
      (∀ x ∈ seen, (hist x).length < H.length + 1) → NoOppRepeatL me seen ks
  | [], _, _, _, _, _, _ => by simp [NoOppRepeatL]
  | k :: ks, H, i, a, seen, h, hs => by
    obtain ⟨h1, h2⟩ := (by simpa [PRD] using h :
      PR me hist (H ++ [(i, a)]) k ∧ PRD me hist H i (a + 1) ks)
    simp only [NoOppRepeatL]
    exact ⟨pr_noRepeat me hist k (H ++ [(i, a)]) seen h1 (fun x hx => by simpa using hs x hx),
      prd_noRepeat me hist ks H i (a + 1) seen h2 hs⟩
end

/-! ## a subtree only reads the draws of its own chance infosets and opponent infosets -/

section
variable (first : Bool) (strat : Bool → Nat → List α)

mutual
theorem em_congr (kc kc' kp kp' : Draws) : ∀ (n : Node α) (sc sp : List Nat),
    NoChanceRepeat sc n → NoOppRepeat (!first) sp n →
    (∀ x, x ∉ sc → kc x = kc' x) → (∀ x, x ∉ sp → kp x = kp' x) →
    em first strat kc kp n = em first strat kc' kp' n
  | .term p, _, _, _, _, _, _ => by simp only [em]
  | .chance i ks, sc, sp, hc, hp, hkc, hkp => by
    obtain ⟨hi, hks⟩ := (by simpa [NoChanceRepeat] using hc : i ∉ sc ∧ NoChanceRepeatL (i :: sc) ks)
    have hps : NoOppRepeatL (!first) sp ks := by simpa [NoOppRepeat] using hp
    have hkc' : ∀ x, x ∉ i :: sc → kc x = kc' x :=
      fun x hx => hkc x (fun h => hx (List.mem_cons_of_mem _ h))
    simp only [em]
    rw [hkc i hi, emNth_congr kc kc' kp kp' ks _ (i :: sc) sp hks hps hkc' hkp]
  | .player one i ks, sc, sp, hc, hp, hkc, hkp => by
    have hks : NoChanceRepeatL sc ks := by simpa [NoChanceRepeat] using hc
    by_cases ho : one = first
    · have hne : ¬ one = !first := by rw [ho]; simp
      have hps : NoOppRepeatL (!first) sp ks := by simpa [NoOppRepeat, hne] using hp
      simp only [em, if_pos ho]
      rw [emActs_congr kc kc' kp kp' one i _ ks 0 sc sp hks hps hkc hkp]
    · have hopp : one = !first := Bool.eq_not_of_ne ho
      obtain ⟨hi, hps⟩ := (by simpa [NoOppRepeat, hopp] using hp :
        i ∉ sp ∧ NoOppRepeatL (!first) (i :: sp) ks)
      have hkp' : ∀ x, x ∉ i :: sp → kp x = kp' x :=
        fun x hx => hkp x (fun h => hx (List.mem_cons_of_mem _ h))
      simp only [em, if_neg ho]
      rw [hkp i hi, emNth_congr kc kc' kp kp' ks _ sc (i :: sp) hks hps hkc hkp']
theorem emNth_congr (kc kc' kp kp' : Draws) : ∀ (ks : List (Node α)) (j : Nat) (sc sp : List Nat),
    NoChanceRepeatL sc ks → NoOppRepeatL (!first) sp ks →
    (∀ x, x ∉ sc → kc x = kc' x) → (∀ x, x ∉ sp → kp x = kp' x) →
    emNth first strat kc kp ks j = emNth first strat kc' kp' ks j
  | [], _, _, _, _, _, _, _ => by simp only [emNth]
  | n :: _, 0, sc, sp, hc, hp, hkc, hkp => by
    obtain ⟨h1, _⟩ := (by simpa [NoChanceRepeatL] using hc :
      NoChanceRepeat sc n ∧ NoChanceRepeatL sc _)
    obtain ⟨g1, _⟩ := (by simpa [NoOppRepeatL] using hp :
      NoOppRepeat (!first) sp n ∧ NoOppRepeatL (!first) sp _)
    simp only [emNth]; exact em_congr kc kc' kp kp' n sc sp h1 g1 hkc hkp
  | _ :: ks, j + 1, sc, sp, hc, hp, hkc, hkp => by
    obtain ⟨_, h2⟩ := (by simpa [NoChanceRepeatL] using hc :
      NoChanceRepeat sc _ ∧ NoChanceRepeatL sc ks)
    obtain ⟨_, g2⟩ := (by simpa [NoOppRepeatL] using hp :
      NoOppRepeat (!first) sp _ ∧ NoOppRepeatL (!first) sp ks)
    simp only [emNth]; exact emNth_congr kc kc' kp kp' ks j sc sp h2 g2 hkc hkp
theorem emActs_congr (kc kc' kp kp' : Draws) (one : Bool) (i : Nat) :
    ∀ (σ : List α) (ks : List (Node α)) (b : Nat) (sc sp : List Nat),
    NoChanceRepeatL sc ks → NoOppRepeatL (!first) sp ks →
    (∀ x, x ∉ sc → kc x = kc' x) → (∀ x, x ∉ sp → kp x = kp' x) →
    emActs first strat kc kp one i σ ks b = emActs first strat kc' kp' one i σ ks b
  | s :: σ, n :: ks, b, sc, sp, hc, hp, hkc, hkp => by
    obtain ⟨h1, h2⟩ := (by simpa [NoChanceRepeatL] using hc :
      NoChanceRepeat sc n ∧ NoChanceRepeatL sc ks)
    obtain ⟨g1, g2⟩ := (by simpa [NoOppRepeatL] using hp :
      NoOppRepeat (!first) sp n ∧ NoOppRepeatL (!first) sp ks)
    simp only [emActs]
    rw [em_congr kc kc' kp kp' n sc sp h1 g1 hkc hkp,
      emActs_congr kc kc' kp kp' one i σ ks (b + 1) sc sp h2 g2 hkc hkp]
  | [], _, _, _, _, _, _, _, _ => by simp only [emActs]
  | _ :: _, [], _, _, _, _, _, _, _ => by simp only [emActs]
end

end

/-! ## signs, reaches, accumulations -/

/-- the value to the updating player is `sgn *` the value to player one -/
def sgn (first : Bool) : α := if first then 1 else -1

/-- the reach of the rest of the world (chance and the other player) -/
def wOf (first : Bool) (pc p1 p2 : α) : α := if first then pc * p2 else p1 * pc

theorem wOf_chance (first : Bool) (pc p p1 p2 : α) :
    wOf first (pc * p) p1 p2 = wOf first pc p1 p2 * p := by
  cases first <;> simp only [wOf, if_true, Bool.false_eq_true, if_false] <;> ring

theorem mult_eq (first : Bool) (pc p1 p2 : α) :
    (if first then pc * p2 else -p1 * pc) = sgn first * wOf first pc p1 p2 := by
  cases first <;> simp [sgn, wOf]

theorem not_self_ne (b : Bool) : ¬ (!b) = b := by cases b <;> simp

/-- the child of a node of the updating player: unchanged rest-of-the-world reach -/
theorem kid_own {β : Type} (first : Bool) (F : α → α → α → β) (P : β → α → Prop) (pc p1 p2 s : α)
    (h : ∀ q1 q2, P (F pc q1 q2) (wOf first pc q1 q2)) :
    P (if first = true then F pc (p1 * s) p2 else F pc p1 (p2 * s)) (wOf first pc p1 p2) := by
  cases first
  · have := h p1 (p2 * s)
    simpa only [wOf, Bool.false_eq_true, if_false] using this
  · have := h (p1 * s) p2
    simpa only [wOf, if_true] using this

/-- the child of a node of the other player: the rest-of-the-world reach is multiplied by the
action probability -/
theorem kid_opp {β : Type} (first : Bool) (F : α → α → α → β) (P : β → α → Prop) (pc p1 p2 s : α)
    (h : ∀ q1 q2, P (F pc q1 q2) (wOf first pc q1 q2)) :
    P (if (!first) = true then F pc (p1 * s) p2 else F pc p1 (p2 * s)) (wOf first pc p1 p2 * s) := by
  cases first
  · have := h (p1 * s) p2
    simp only [wOf, Bool.false_eq_true, if_false] at this
    simp only [wOf, Bool.not_false, if_true, Bool.false_eq_true, if_false]
    rw [show p1 * pc * s = p1 * s * pc by ring]
    exact this
  · have := h p1 (p2 * s)
    simp only [wOf, if_true] at this
    simp only [wOf, Bool.not_true, if_true, Bool.false_eq_true, if_false]
    rw [show pc * p2 * s = pc * (p2 * s) by ring]
    exact this

@[simp] theorem rg_extStratEffs (me : Bool) (I a : Nat) (one : Bool) (i : Nat) :
    ∀ (σ : List α) (b : Nat), rg me I a (extStratEffs one i σ b) = 0
  | [], _ => by simp [extStratEffs]
  | s :: σ, b => by
    have := rg_extStratEffs me I a one i σ (b + 1)
    simp only [rg] at this ⊢
    simp [extStratEffs, effSum_cons, this]

theorem rg_subEffsE (me : Bool) (I a : Nat) (one : Bool) (i : Nat) (sub : α) (n : Nat) :
    rg me I a (subEffsE one i sub n) = if one = me ∧ i = I ∧ a < n then -sub else 0 :=
  rg_subEffs me I a one i sub n

/-! ## the expectation of the external-sampling pass is the unsampled traversal -/

section
variable (g : Game α) (hch : ∀ ps ∈ g.chance, ps.sum = 1) (first : Bool)
  (strat : Bool → Nat → List α) (opp : List (List α)) (hopp : ∀ σ ∈ opp, σ.sum = 1)
  (hoppi : ∀ i e, (g.infos (!first))[i]? = some e → opp[i]? = some (strat (!first) i))
  (k0 k0' : Draws) (I a : Nat)
include hch hopp hoppi

mutual
theorem unbE : ∀ (n : Node α) (sc sp : List Nat) (pc p1 p2 : α),
    NodeOK g n → NoChanceRepeat sc n → NoOppRepeat (!first) sp n →
    EE g.chance opp k0 k0' (fun kc kp => (em first strat kc kp n).1)
      = sgn first * (pm g.chance false strat k0 n pc p1 p2).1 ∧
    EE g.chance opp k0 k0' (fun kc kp => rg first I a (em first strat kc kp n).2)
        * wOf first pc p1 p2
      = rg first I a (pm g.chance false strat k0 n pc p1 p2).2
  | .term p, _, _, pc, p1, p2, _, _, _ => by
    simp only [em, pm, rg_nil, EE_zero, zero_mul, and_true]
    rw [EE_const _ _ _ _ hch hopp]
    by_cases hf : first = true <;> simp [sgn, hf]
  | .chance i ks, sc, sp, pc, p1, p2, hok, hnc, hnp => by
    obtain ⟨⟨ps, hps, _⟩, _, hoks⟩ := (by simpa [NodeOK] using hok :
      (∃ ps, g.chance[i]? = some ps ∧ ps.length = ks.length) ∧ 2 ≤ ks.length ∧ NodeOKL g ks)
    obtain ⟨hi, hncs⟩ := (by simpa [NoChanceRepeat] using hnc :
      i ∉ sc ∧ NoChanceRepeatL (i :: sc) ks)
    have hnps : NoOppRepeatL (!first) sp ks := by simpa [NoOppRepeat] using hnp
    have hps1 : ps.sum = 1 := hch ps (List.mem_of_getElem? hps)
    have hgd : g.chance.getD i [] = ps := by simp [List.getD_eq_getElem?_getD, hps]
    obtain ⟨e1, e2⟩ := unbE_ch ps ks (i :: sc) sp pc p1 p2 hoks hncs hnps
    have hcg : ∀ (kc kp : Draws) (j : Nat), emNth first strat (upd kc i j) kp ks j
        = emNth first strat kc kp ks j := fun kc kp j =>
      emNth_congr first strat (upd kc i j) kc kp kp ks j (i :: sc) sp hncs hnps (fun x hx => by
        have : x ≠ i := fun h => hx (h ▸ List.mem_cons_self)
        simp [upd, this]) (fun _ _ => rfl)
    simp only [em, pm, Bool.false_eq_true, if_false, hgd]
    rw [← e1, ← e2]
    constructor
    · rw [EE_pullC g.chance opp k0 k0' i ps hps hps1]
      simp only [upd_same, hcg]
    · rw [EE_pullC g.chance opp k0 k0' i ps hps hps1]
      simp only [upd_same, hcg]
  | .player one i ks, sc, sp, pc, p1, p2, hok, hnc, hnp => by
    obtain ⟨⟨e, he, _⟩, _, hoks⟩ := (by simpa [NodeOK] using hok :
      (∃ e, (g.infos one)[i]? = some e ∧ e.actions.length = ks.length) ∧ 2 ≤ ks.length ∧ NodeOKL g ks)
    have hncs : NoChanceRepeatL sc ks := by simpa [NoChanceRepeat] using hnc
    by_cases ho : one = first
    · have ho' : first = one := ho.symm
      subst ho'
      have hnps : NoOppRepeatL (!first) sp ks := by simpa [NoOppRepeat] using hnp
      obtain ⟨h1, h2, h3⟩ := unbE_own i (strat first i) ks sc sp pc p1 p2 0 hoks hncs hnps
      simp only [em, if_true, pm, rg_append, rg_stratEffs, rg_subEffs, rg_subEffsE, zero_add,
        mult_eq, true_and]
      refine ⟨h1, ?_⟩
      rw [EE_add, add_mul, h3]
      congr 1
      by_cases hc : i = I ∧ a < (strat first i).length
      · simp only [if_pos hc]; rw [EE_neg, neg_mul, h2]
      · simp only [if_neg hc]; rw [EE_zero, zero_mul]
    · have ho' : (!first) = one := (Bool.eq_not_of_ne ho).symm
      subst ho'
      obtain ⟨hi, hnps⟩ := (by simpa [NoOppRepeat] using hnp :
        i ∉ sp ∧ NoOppRepeatL (!first) (i :: sp) ks)
      have hσ : opp[i]? = some (strat (!first) i) := hoppi i e he
      have hσ1 : (strat (!first) i).sum = 1 := hopp _ (List.mem_of_getElem? hσ)
      obtain ⟨e1, e2⟩ := unbE_opp i (if (!first) = true then pc * p2 else -p1 * pc)
        (strat (!first) i) ks sc (i :: sp) pc p1 p2 0 hoks hncs hnps
      have hcg : ∀ (kc kp : Draws) (j : Nat), emNth first strat kc (upd kp i j) ks j
          = emNth first strat kc kp ks j := fun kc kp j =>
        emNth_congr first strat kc kc (upd kp i j) kp ks j sc (i :: sp) hncs hnps (fun _ _ => rfl)
          (fun x hx => by
            have : x ≠ i := fun h => hx (h ▸ List.mem_cons_self)
            simp [upd, this])
      have hne := not_self_ne first
      simp only [em, pm, rg_append, rg_stratEffs, rg_extStratEffs, rg_subEffs, hne,
        false_and, if_false, zero_add, add_zero]
      rw [← e1, ← e2]
      constructor
      · rw [EE_pullP g.chance opp k0 k0' i _ hσ hσ1]
        simp only [upd_same, hcg]
      · rw [EE_pullP g.chance opp k0 k0' i _ hσ hσ1]
        simp only [upd_same, hcg]
theorem unbE_ch : ∀ (ps : List α) (ks : List (Node α)) (sc sp : List Nat) (pc p1 p2 : α),
    NodeOKL g ks → NoChanceRepeatL sc ks → NoOppRepeatL (!first) sp ks →
    expectOne ps (fun j => EE g.chance opp k0 k0' (fun kc kp => (emNth first strat kc kp ks j).1))
      = sgn first * (pmCh g.chance false strat k0 ps ks pc p1 p2).1 ∧
    expectOne ps (fun j => EE g.chance opp k0 k0'
        (fun kc kp => rg first I a (emNth first strat kc kp ks j).2)) * wOf first pc p1 p2
      = rg first I a (pmCh g.chance false strat k0 ps ks pc p1 p2).2
  | [], _, _, _, _, _, _, _, _, _ => by simp [expectOne_nil, pmCh]
  | _ :: _, [], _, _, _, _, _, _, _, _ => by simp [emNth, pmCh, EE_zero, expectOne_const]
  | p :: ps, n :: ks, sc, sp, pc, p1, p2, hok, hnc, hnp => by
    obtain ⟨o1, o2⟩ := (by simpa [NodeOKL] using hok : NodeOK g n ∧ NodeOKL g ks)
    obtain ⟨c1, c2⟩ := (by simpa [NoChanceRepeatL] using hnc :
      NoChanceRepeat sc n ∧ NoChanceRepeatL sc ks)
    obtain ⟨q1, q2⟩ := (by simpa [NoOppRepeatL] using hnp :
      NoOppRepeat (!first) sp n ∧ NoOppRepeatL (!first) sp ks)
    obtain ⟨h1, h2⟩ := unbE_ch ps ks sc sp pc p1 p2 o2 c2 q2
    obtain ⟨g1, g2⟩ := unbE n sc sp (pc * p) p1 p2 o1 c1 q1
    rw [wOf_chance] at g2
    simp only [expectOne_cons, emNth, pmCh, rg_append]
    constructor
    · rw [h1, g1]; ring
    · rw [← g2, ← h2]; ring
theorem unbE_own (i : Nat) :
    ∀ (σ : List α) (ks : List (Node α)) (sc sp : List Nat) (pc p1 p2 : α) (b : Nat),
    NodeOKL g ks → NoChanceRepeatL sc ks → NoOppRepeatL (!first) sp ks →
    EE g.chance opp k0 k0' (fun kc kp => (emActs first strat kc kp first i σ ks b).1)
      = sgn first * (pmActs g.chance false strat k0 first i (sgn first * wOf first pc p1 p2)
          σ ks pc p1 p2 b).1 ∧
    EE g.chance opp k0 k0' (fun kc kp => (emActs first strat kc kp first i σ ks b).1)
        * wOf first pc p1 p2
      = (pmActs g.chance false strat k0 first i (sgn first * wOf first pc p1 p2)
          σ ks pc p1 p2 b).2.1 ∧
    EE g.chance opp k0 k0' (fun kc kp => rg first I a (emActs first strat kc kp first i σ ks b).2)
        * wOf first pc p1 p2
      = rg first I a (pmActs g.chance false strat k0 first i (sgn first * wOf first pc p1 p2)
          σ ks pc p1 p2 b).2.2
  | s :: σ, n :: ks, sc, sp, pc, p1, p2, b, hok, hnc, hnp => by
    obtain ⟨o1, o2⟩ := (by simpa [NodeOKL] using hok : NodeOK g n ∧ NodeOKL g ks)
    obtain ⟨c1, c2⟩ := (by simpa [NoChanceRepeatL] using hnc :
      NoChanceRepeat sc n ∧ NoChanceRepeatL sc ks)
    obtain ⟨q1, q2⟩ := (by simpa [NoOppRepeatL] using hnp :
      NoOppRepeat (!first) sp n ∧ NoOppRepeatL (!first) sp ks)
    obtain ⟨r1, r2⟩ := kid_own first (pm g.chance false strat k0 n)
      (fun r w => EE g.chance opp k0 k0' (fun kc kp => (em first strat kc kp n).1)
          = sgn first * r.1 ∧
        EE g.chance opp k0 k0' (fun kc kp => rg first I a (em first strat kc kp n).2) * w
          = rg first I a r.2) pc p1 p2 s
      (fun x1 x2 => unbE n sc sp pc x1 x2 o1 c1 q1)
    obtain ⟨a1, a2, a3⟩ := unbE_own i σ ks sc sp pc p1 p2 (b + 1) o2 c2 q2
    simp only [emActs, pmActs, rg_append, rg_cons]
    refine ⟨?_, ?_, ?_⟩
    · rw [EE_add, EE_mul_left, r1, a1]; ring
    · rw [EE_add, EE_mul_left, add_mul, a2, r1]; ring
    · rw [EE_add, EE_add, add_mul, add_mul, r2, a3]
      congr 2
      by_cases hc : True ∧ i = I ∧ b = a
      · simp only [if_pos hc]; rw [r1]; ring
      · simp only [if_neg hc]; rw [EE_zero, zero_mul]
  | [], _, _, _, _, _, _, _, _, _, _ => by simp [emActs, pmActs, EE_zero]
  | _ :: _, [], _, _, _, _, _, _, _, _, _ => by simp [emActs, pmActs, EE_zero]
theorem unbE_opp (i : Nat) (mult : α) :
    ∀ (σ : List α) (ks : List (Node α)) (sc sp : List Nat) (pc p1 p2 : α) (b : Nat),
    NodeOKL g ks → NoChanceRepeatL sc ks → NoOppRepeatL (!first) sp ks →
    expectOne σ (fun j => EE g.chance opp k0 k0' (fun kc kp => (emNth first strat kc kp ks j).1))
      = sgn first * (pmActs g.chance false strat k0 (!first) i mult σ ks pc p1 p2 b).1 ∧
    expectOne σ (fun j => EE g.chance opp k0 k0'
        (fun kc kp => rg first I a (emNth first strat kc kp ks j).2)) * wOf first pc p1 p2
      = rg first I a (pmActs g.chance false strat k0 (!first) i mult σ ks pc p1 p2 b).2.2
  | s :: σ, n :: ks, sc, sp, pc, p1, p2, b, hok, hnc, hnp => by
    obtain ⟨o1, o2⟩ := (by simpa [NodeOKL] using hok : NodeOK g n ∧ NodeOKL g ks)
    obtain ⟨c1, c2⟩ := (by simpa [NoChanceRepeatL] using hnc :
      NoChanceRepeat sc n ∧ NoChanceRepeatL sc ks)
    obtain ⟨q1, q2⟩ := (by simpa [NoOppRepeatL] using hnp :
      NoOppRepeat (!first) sp n ∧ NoOppRepeatL (!first) sp ks)
    obtain ⟨r1, r2⟩ := kid_opp first (pm g.chance false strat k0 n)
      (fun r w => EE g.chance opp k0 k0' (fun kc kp => (em first strat kc kp n).1)
          = sgn first * r.1 ∧
        EE g.chance opp k0 k0' (fun kc kp => rg first I a (em first strat kc kp n).2) * w
          = rg first I a r.2) pc p1 p2 s
      (fun x1 x2 => unbE n sc sp pc x1 x2 o1 c1 q1)
    obtain ⟨a1, a2⟩ := unbE_opp i mult σ ks sc sp pc p1 p2 (b + 1) o2 c2 q2
    have hne := not_self_ne first
    simp only [expectOne_cons, emNth, pmActs, rg_append, rg_cons, hne, false_and, if_false,
      zero_add]
    constructor
    · rw [r1, a1]; ring
    · rw [← r2, ← a2]; ring
  | [], _, _, _, _, _, _, _, _, _, _ => by simp [expectOne_nil, pmActs]
  | _ :: _, [], _, _, _, _, _, _, _, _, _ => by simp [emNth, pmActs, EE_zero, expectOne_const]
end

end

end UnbE
open Unb UnbE

/-- **external sampling is unbiased for the regrets of the updating player** -/
theorem external_pass_unbiased (g : Game α) (hg : GameWF g) (hnr : NoChanceRepeat [] g.root)
    (first : Bool) (strat : Bool → Nat → List α)
    (hs : ∀ j e, (g.infos (!first))[j]? = some e →
      (strat (!first) j).length = e.actions.length ∧ (strat (!first) j).sum = 1)
    (I a : Nat) :
    expectDraws g.chance 0 (fun _ => 0) (fun kc =>
      expectDraws (oppTable g first strat) 0 (fun _ => 0) (fun kp =>
        effSum (erec (extCtx g first strat kc kp) g.root {}).2.1 first I Slot.regret a))
      = effSum (vrec (fullCtx g strat 0) g.root 1 1 1 {}).2.1 first I Slot.regret a := by
  have he : ∀ kc kp, (erec (extCtx g first strat kc kp) g.root {}).2.1
      = (em first strat kc kp g.root).2 := fun kc kp =>
    (erec_em g first strat kc kp g.root {} (ConsE_empty kc kp)).2.1
  have hf : (vrec (fullCtx g strat 0) g.root 1 1 1 {}).2.1
      = (pm g.chance false strat (fun _ => 0) g.root 1 1 1).2 :=
    (vrec_pm _ _ (ctxK_full g strat 0 _) g.root 1 1 1 {} (ConsK_empty _)).2.1
  simp only [he, hf]
  have hopp : ∀ σ ∈ oppTable g first strat, σ.sum = 1 := by
    intro σ hσ
    obtain ⟨j, hj, rfl⟩ := List.mem_map.mp hσ
    have hj' : j < (g.infos (!first)).length := List.mem_range.mp hj
    exact (hs j _ (List.getElem?_eq_getElem hj')).2
  have hoppi : ∀ i e, (g.infos (!first))[i]? = some e →
      (oppTable g first strat)[i]? = some (strat (!first) i) := by
    intro i e hi
    have hi' : i < (g.infos (!first)).length := (List.getElem?_eq_some_iff.mp hi).1
    simp [oppTable, List.getElem?_map, List.getElem?_range hi']
  obtain ⟨hist, hpr, _⟩ := hg.recall (!first)
  have hnp : NoOppRepeat (!first) [] g.root :=
    pr_noRepeat (!first) hist g.root [] [] hpr (fun x hx => by simp at hx)
  have := (unbE g (fun ps h => (hg.chancePos ps h).2) first strat (oppTable g first strat) hopp
    hoppi (fun _ => 0) (fun _ => 0) I a g.root [] [] 1 1 1 hg.nodes hnr hnp).2
  simpa [wOf, EE, rg] using this

namespace UnbE

/-! ## non-vacuity (closed examples over `ℚ`) -/

section Examples

/-- a chance root (odds `1/3 : 2/3`); on the left player two moves before player one, on the right
player one moves before player two -/
def ueGame : Game ℚ where
  chance := [[1/3, 2/3]]
  p1 := [⟨0, [0, 1], none⟩]
  p2 := [⟨0, [0, 1], none⟩]
  s1 := []
  s2 := []
  root := .chance 0 [
    .player false 0 [.player true 0 [.term 1, .term 3], .term 0],
    .player true 0 [.term 4, .player false 0 [.term (-2), .term 2]]]

def ueStrat : Bool → Nat → List ℚ := fun one _ => if one then [2/5, 3/5] else [1/4, 3/4]

theorem ueGame_wf : GameWF ueGame where
  chancePos := by decide +kernel
  nodes := by simp [NodeOK, NodeOKL, ueGame, Game.infos]
  recall := fun me => ⟨fun _ => [], by cases me <;> simp [PR, PRL, PRD, ueGame], by simp⟩
  tables1 := ⟨by decide, by decide, by decide, by decide⟩
  tables2 := ⟨by decide, by decide, by decide, by decide⟩
  actsTwo := by intro me; cases me <;> decide

theorem ueGame_nr : NoChanceRepeat [] ueGame.root := by
  simp [NoChanceRepeat, NoChanceRepeatL, ueGame]

theorem ueStrat_ok (first : Bool) : ∀ j e, (ueGame.infos (!first))[j]? = some e →
    (ueStrat (!first) j).length = e.actions.length ∧ (ueStrat (!first) j).sum = 1 := by
  intro j e h
  cases first <;> cases j <;> simp [ueGame, Game.infos, ueStrat] at h ⊢
  · subst h; norm_num
  · subst h; norm_num

/-- the theorem applies to this game -/
example (first : Bool) (I a : Nat) :=
  external_pass_unbiased ueGame ueGame_wf ueGame_nr first ueStrat (ueStrat_ok first) I a

/-- player one updating: both sides are `1/3·1/4·(1 - 11/5) + 2/3·(4 - 11/5) = 11/10` -/
example :
    expectDraws ueGame.chance 0 (fun _ => 0) (fun kc =>
      expectDraws (oppTable ueGame true ueStrat) 0 (fun _ => 0) (fun kp =>
        effSum (erec (extCtx ueGame true ueStrat kc kp) ueGame.root {}).2.1 true 0 Slot.regret 0))
      = 11/10 ∧
    effSum (vrec (fullCtx ueGame ueStrat 0) ueGame.root 1 1 1 {}).2.1 true 0 Slot.regret 0
      = 11/10 := by
  decide +kernel

/-- player two updating: both sides are `1/3·(-11/5 + 11/20) + 2/3·3/5·(2 + 1) = 13/20` -/
example :
    expectDraws ueGame.chance 0 (fun _ => 0) (fun kc =>
      expectDraws (oppTable ueGame false ueStrat) 0 (fun _ => 0) (fun kp =>
        effSum (erec (extCtx ueGame false ueStrat kc kp) ueGame.root {}).2.1 false 0 Slot.regret 0))
      = 13/20 ∧
    effSum (vrec (fullCtx ueGame ueStrat 0) ueGame.root 1 1 1 {}).2.1 false 0 Slot.regret 0
      = 13/20 := by
  decide +kernel

/-- a single external-sampling pass is *not* the unsampled one -/
example : effSum (erec (extCtx ueGame true ueStrat (fun _ => 0) (fun _ => 0)) ueGame.root {}).2.1
    true 0 Slot.regret 0 ≠ 11/10 := by
  decide +kernel

end Examples

end UnbE

end Cfr
