import CfrVerif.Proofs.Unbiased
import CfrVerif.Model.External
/-!
# External sampling is unbiased for the updating player's regrets

One external-sampling pass of player `first` draws one outcome per chance infoset (declared
probabilities) and one action per infoset of the other player (that player's current strategy),
all independently.  The expectation over both families of draws of what the pass adds to a regret
accumulator of the updating player equals what the unsampled traversal adds: the exact
instantaneous counterfactual regret.
-/
set_option linter.unusedSectionVars false
namespace Cfr
variable {α : Type} [Field α] [LinearOrder α] [IsStrictOrderedRing α]

/-- the context of an external-sampling pass of player `first` whose chance draws are `kc` and
whose draws at the other player's infosets are `kp` -/
def extCtx (g : Game α) (first : Bool) (strat : Bool → Nat → List α) (kc kp : Draws) : ECtx α :=
  ⟨g.chance, first, strat, fun kind i _ _ => if kind = 0 then kc i else kp i, 0, 0⟩

/-- the current strategies of the non-updating player, one distribution per infoset -/
def oppTable (g : Game α) (first : Bool) (strat : Bool → Nat → List α) : List (List α) :=
  (List.range (g.infos (!first)).length).map (fun j => strat (!first) j)

/-- **external sampling is unbiased for the regrets of the updating player** -/
theorem external_pass_unbiased (g : Game α) (hg : GameWF g) (hnr : NoChanceRepeat [] g.root)
    (first : Bool) (strat : Bool → Nat → List α)
    (hs : ∀ j e, (g.infos (!first))[j]? = some e →
      (strat (!first) j).length = e.actions.length ∧ (strat (!first) j).sum = 1)
    (I a : Nat) :
    expectDraws g.chance 0 (fun _ => 0) (fun kc =>
      expectDraws (oppTable g first strat) 0 (fun _ => 0) (fun kp =>
        effSum (erec (extCtx g first strat kc kp) g.root {}).2.1 first I Slot.regret a))
      = effSum (vrec (fullCtx g strat 0) g.root 1 1 1 {}).2.1 first I Slot.regret a := by
  sorry

end Cfr
