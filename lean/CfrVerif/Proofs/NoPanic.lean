import CfrVerif.Model.Checked
import CfrVerif.Proofs.GameWF
import CfrVerif.Proofs.RealInst
import CfrVerif.Proofs.NoRepeat
/-!
# The traversals never panic on an accepted game

`vrecK` / `erecK` (`Model/Checked.lean`) are the traversals with the crate's three state-dependent
panics as values: a chance or player infoset index out of bounds, and a `RefCell::borrow_mut` on an
infoset whose borrow is still held up the recursion.  On every well-formed game (what `from_root`
guarantees: indices in range, perfect recall) they return `some` of exactly what the unchecked
traversals compute — for every strategy table, reach, draw oracle and sample cache.
-/
set_option linter.unusedSectionVars false
namespace Cfr

namespace NP

theorem sizes_chance (g : Game ℝ) : g.sizes.chance = g.chance.length := rfl

theorem sizes_player (g : Game ℝ) (one : Bool) : g.sizes.player one = (g.infos one).length := by
  cases one <;> simp [Game.sizes, Sizes.player, Game.infos]

theorem lt_of_getElem?_some {β : Type} {l : List β} {i : Nat} {x : β} (h : l[i]? = some x) :
    i < l.length := by
  rcases Nat.lt_or_ge i l.length with hlt | hge
  · exact hlt
  · rw [List.getElem?_eq_none hge] at h; cases h

/-! ## vanilla -/

mutual
theorem vrecK_eq (g : Game ℝ) (c : VCtx ℝ) :
    ∀ (n : Node ℝ) (held : List (Bool × Nat)) (pc p1 p2 : ℝ) (d : DrawSt ℝ),
      NodeOK g n → NoRepeat held n →
      vrecK g.sizes c held n pc p1 p2 d = some (vrec c n pc p1 p2 d)
  | .term p, held, pc, p1, p2, d, _, _ => by simp only [vrecK, vrec]
  | .chance i ks, held, pc, p1, p2, d, hn, hr => by
    simp only [NodeOK] at hn
    simp only [NoRepeat] at hr
    obtain ⟨⟨ps, hps, -⟩, -, hks⟩ := hn
    have hi : i < g.sizes.chance := by
      rw [sizes_chance]; exact lt_of_getElem?_some hps
    simp only [vrecK, vrec]
    rw [if_pos hi]
    cases c.sampled
    · simp only [Bool.false_eq_true, if_false]
      exact vrecChanceK_eq g c ks held _ pc p1 p2 d 0 hks hr
    · simp only [if_true]
      generalize sampleChance c.draw c.pass (c.ch.getD i []) i d = x
      obtain ⟨k, d'⟩ := x
      exact vrecNthK_eq g c ks held k pc p1 p2 d' hks hr
  | .player one i ks, held, pc, p1, p2, d, hn, hr => by
    simp only [NodeOK] at hn
    simp only [NoRepeat] at hr
    obtain ⟨⟨e, he, -⟩, -, hks⟩ := hn
    have hi : i < g.sizes.player one := by
      rw [sizes_player]; exact lt_of_getElem?_some he
    simp only [vrecK, vrec]
    rw [if_pos ⟨hi, hr.1⟩]
    rw [vrecActsK_eq g c ks ((one, i) :: held) one i _ _ pc p1 p2 d 0 0 0 hks hr.2]
theorem vrecNthK_eq (g : Game ℝ) (c : VCtx ℝ) :
    ∀ (ks : List (Node ℝ)) (held : List (Bool × Nat)) (k : Nat) (pc p1 p2 : ℝ) (d : DrawSt ℝ),
      NodeOKL g ks → NoRepeatL held ks →
      vrecNthK g.sizes c held ks k pc p1 p2 d = some (vrecNth c ks k pc p1 p2 d)
  | [], held, k, pc, p1, p2, d, _, _ => by simp only [vrecNthK, vrecNth]
  | n :: ks, held, 0, pc, p1, p2, d, hn, hr => by
    simp only [NodeOKL] at hn
    simp only [NoRepeatL] at hr
    simp only [vrecNthK, vrecNth]
    exact vrecK_eq g c n held pc p1 p2 d hn.1 hr.1
  | n :: ks, held, k + 1, pc, p1, p2, d, hn, hr => by
    simp only [NodeOKL] at hn
    simp only [NoRepeatL] at hr
    simp only [vrecNthK, vrecNth]
    exact vrecNthK_eq g c ks held k pc p1 p2 d hn.2 hr.2
theorem vrecChanceK_eq (g : Game ℝ) (c : VCtx ℝ) :
    ∀ (ks : List (Node ℝ)) (held : List (Bool × Nat)) (ps : List ℝ) (pc p1 p2 : ℝ) (d : DrawSt ℝ)
      (acc : ℝ), NodeOKL g ks → NoRepeatL held ks →
      vrecChanceK g.sizes c held ps ks pc p1 p2 d acc = some (vrecChance c ps ks pc p1 p2 d acc)
  | [], held, ps, pc, p1, p2, d, acc, _, _ => by
    cases ps <;> simp only [vrecChanceK, vrecChance]
  | n :: ks, held, [], pc, p1, p2, d, acc, _, _ => by simp only [vrecChanceK, vrecChance]
  | n :: ks, held, p :: ps, pc, p1, p2, d, acc, hn, hr => by
    simp only [NodeOKL] at hn
    simp only [NoRepeatL] at hr
    simp only [vrecChanceK, vrecChance]
    rw [vrecK_eq g c n held (pc * p) p1 p2 d hn.1 hr.1]
    simp only []
    rw [vrecChanceK_eq g c ks held ps pc p1 p2 _ _ hn.2 hr.2]
theorem vrecActsK_eq (g : Game ℝ) (c : VCtx ℝ) :
    ∀ (ks : List (Node ℝ)) (held : List (Bool × Nat)) (one : Bool) (i : Nat) (mult : ℝ)
      (σ : List ℝ) (pc p1 p2 : ℝ) (d : DrawSt ℝ) (a : Nat) (eo ex : ℝ),
      NodeOKL g ks → NoRepeatL held ks →
      vrecActsK g.sizes c held one i mult σ ks pc p1 p2 d a eo ex
        = some (vrecActs c one i mult σ ks pc p1 p2 d a eo ex)
  | [], held, one, i, mult, σ, pc, p1, p2, d, a, eo, ex, _, _ => by
    cases σ <;> simp only [vrecActsK, vrecActs]
  | n :: ks, held, one, i, mult, [], pc, p1, p2, d, a, eo, ex, _, _ => by
    simp only [vrecActsK, vrecActs]
  | n :: ks, held, one, i, mult, s :: σ, pc, p1, p2, d, a, eo, ex, hn, hr => by
    simp only [NodeOKL] at hn
    simp only [NoRepeatL] at hr
    cases one
    · simp only [vrecActsK, vrecActs, Bool.false_eq_true, if_false]
      rw [vrecK_eq g c n held pc p1 (p2 * s) d hn.1 hr.1]
      simp only []
      rw [vrecActsK_eq g c ks held false i mult σ pc p1 p2 _ _ _ _ hn.2 hr.2]
    · simp only [vrecActsK, vrecActs, if_true]
      rw [vrecK_eq g c n held pc (p1 * s) p2 d hn.1 hr.1]
      simp only []
      rw [vrecActsK_eq g c ks held true i mult σ pc p1 p2 _ _ _ _ hn.2 hr.2]
end

/-! ## external sampling: only the updating player's infosets are held -/

mutual
/-- no infoset of player `first` occurs twice on a root-to-leaf path -/
def NoRepeatE (first : Bool) : List Nat → Node ℝ → Prop
  | _, .term _ => True
  | held, .chance _ ks => NoRepeatEL first held ks
  | held, .player one i ks =>
    if one = first then i ∉ held ∧ NoRepeatEL first (i :: held) ks else NoRepeatEL first held ks
def NoRepeatEL (first : Bool) : List Nat → List (Node ℝ) → Prop
  | _, [] => True
  | held, k :: ks => NoRepeatE first held k ∧ NoRepeatEL first held ks
end

mutual
theorem noRepeatE_of_noRepeat (first : Bool) :
    ∀ (n : Node ℝ) (seen : List (Bool × Nat)) (held : List Nat),
      (∀ j ∈ held, (first, j) ∈ seen) → NoRepeat seen n → NoRepeatE first held n
  | .term _, _, _, _, _ => by simp only [NoRepeatE]
  | .chance _ ks, seen, held, hh, hr => by
    simp only [NoRepeat] at hr
    simp only [NoRepeatE]
    exact noRepeatEL_of_noRepeatL first ks seen held hh hr
  | .player one i ks, seen, held, hh, hr => by
    simp only [NoRepeat] at hr
    simp only [NoRepeatE]
    by_cases h : one = first
    · rw [if_pos h]
      subst h
      refine ⟨fun hm => hr.1 (hh i hm), ?_⟩
      refine noRepeatEL_of_noRepeatL one ks ((one, i) :: seen) (i :: held) ?_ hr.2
      intro j hj
      rcases List.mem_cons.mp hj with hj | hj
      · subst hj; exact List.mem_cons_self
      · exact List.mem_cons_of_mem _ (hh j hj)
    · rw [if_neg h]
      refine noRepeatEL_of_noRepeatL first ks ((one, i) :: seen) held ?_ hr.2
      intro j hj
      exact List.mem_cons_of_mem _ (hh j hj)
theorem noRepeatEL_of_noRepeatL (first : Bool) :
    ∀ (ks : List (Node ℝ)) (seen : List (Bool × Nat)) (held : List Nat),
      (∀ j ∈ held, (first, j) ∈ seen) → NoRepeatL seen ks → NoRepeatEL first held ks
  | [], _, _, _, _ => by simp only [NoRepeatEL]
  | k :: ks, seen, held, hh, hr => by
    simp only [NoRepeatL] at hr
    simp only [NoRepeatEL]
    exact ⟨noRepeatE_of_noRepeat first k seen held hh hr.1,
      noRepeatEL_of_noRepeatL first ks seen held hh hr.2⟩
end

mutual
theorem erecK_eq (g : Game ℝ) (c : ECtx ℝ) :
    ∀ (n : Node ℝ) (held : List Nat) (d : DrawSt ℝ),
      NodeOK g n → NoRepeatE c.first held n →
      erecK g.sizes c held n d = some (erec c n d)
  | .term p, held, d, _, _ => by simp only [erecK, erec]
  | .chance i ks, held, d, hn, hr => by
    simp only [NodeOK] at hn
    simp only [NoRepeatE] at hr
    obtain ⟨⟨ps, hps, -⟩, -, hks⟩ := hn
    have hi : i < g.sizes.chance := by
      rw [sizes_chance]; exact lt_of_getElem?_some hps
    simp only [erecK, erec]
    rw [if_pos hi]
    generalize sampleChance c.draw c.chancePass (c.ch.getD i []) i d = x
    obtain ⟨k, d'⟩ := x
    exact erecNthK_eq g c ks held k d' hks hr
  | .player one i ks, held, d, hn, hr => by
    simp only [NodeOK] at hn
    simp only [NoRepeatE] at hr
    obtain ⟨⟨e, he, -⟩, -, hks⟩ := hn
    have hi : i < g.sizes.player one := by
      rw [sizes_player]; exact lt_of_getElem?_some he
    simp only [erecK, erec]
    rw [if_pos hi]
    by_cases h : one = c.first
    · rw [if_pos h] at hr
      have hb : (one == c.first) = true := by simp [h]
      simp only [hb, if_true]
      rw [if_neg hr.1]
      rw [erecActsK_eq g c ks (i :: held) one i _ d 0 0 hks hr.2]
    · rw [if_neg h] at hr
      have hb : (one == c.first) = false := by simp [h]
      simp only [hb, Bool.false_eq_true, if_false]
      generalize samplePlayer c.draw (if one then 1 else 2) c.playerPass (c.strat one i) i d = x
      obtain ⟨k, d'⟩ := x
      simp only []
      rw [erecNthK_eq g c ks held k d' hks hr]
theorem erecNthK_eq (g : Game ℝ) (c : ECtx ℝ) :
    ∀ (ks : List (Node ℝ)) (held : List Nat) (k : Nat) (d : DrawSt ℝ),
      NodeOKL g ks → NoRepeatEL c.first held ks →
      erecNthK g.sizes c held ks k d = some (erecNth c ks k d)
  | [], held, k, d, _, _ => by simp only [erecNthK, erecNth]
  | n :: ks, held, 0, d, hn, hr => by
    simp only [NodeOKL] at hn
    simp only [NoRepeatEL] at hr
    simp only [erecNthK, erecNth]
    exact erecK_eq g c n held d hn.1 hr.1
  | n :: ks, held, k + 1, d, hn, hr => by
    simp only [NodeOKL] at hn
    simp only [NoRepeatEL] at hr
    simp only [erecNthK, erecNth]
    exact erecNthK_eq g c ks held k d hn.2 hr.2
theorem erecActsK_eq (g : Game ℝ) (c : ECtx ℝ) :
    ∀ (ks : List (Node ℝ)) (held : List Nat) (one : Bool) (i : Nat) (σ : List ℝ) (d : DrawSt ℝ)
      (a : Nat) (ex : ℝ), NodeOKL g ks → NoRepeatEL c.first held ks →
      erecActsK g.sizes c held one i σ ks d a ex = some (erecActs c one i σ ks d a ex)
  | [], held, one, i, σ, d, a, ex, _, _ => by
    cases σ <;> simp only [erecActsK, erecActs]
  | n :: ks, held, one, i, [], d, a, ex, _, _ => by simp only [erecActsK, erecActs]
  | n :: ks, held, one, i, s :: σ, d, a, ex, hn, hr => by
    simp only [NodeOKL] at hn
    simp only [NoRepeatEL] at hr
    simp only [erecActsK, erecActs]
    rw [erecK_eq g c n held d hn.1 hr.1]
    simp only []
    rw [erecActsK_eq g c ks held one i σ _ _ _ hn.2 hr.2]
end

end NP

/-- `recurse_single` (full and chance-sampled, one thread) never panics -/
theorem vrec_never_panics (g : Game ℝ) (hg : GameWF g) (c : VCtx ℝ) (pc p1 p2 : ℝ) (d : DrawSt ℝ) :
    vrecK g.sizes c [] g.root pc p1 p2 d = some (vrec c g.root pc p1 p2 d) :=
  NP.vrecK_eq g c g.root [] pc p1 p2 d hg.nodes (wf_no_infoset_twice_on_path g hg)

/-- `recurse_regret` (external sampling, one thread) never panics -/
theorem erec_never_panics (g : Game ℝ) (hg : GameWF g) (c : ECtx ℝ) (d : DrawSt ℝ) :
    erecK g.sizes c [] g.root d = some (erec c g.root d) :=
  NP.erecK_eq g c g.root [] d hg.nodes
    (NP.noRepeatE_of_noRepeat c.first g.root [] [] (fun _ h => absurd h List.not_mem_nil)
      (wf_no_infoset_twice_on_path g hg))

/-- the checks are not vacuous: a tree that repeats an infoset on a path makes the checked
traversal panic ("already borrowed") although the unchecked one computes something -/
theorem vrecK_detects_double_borrow :
    ∃ (c : VCtx ℝ), vrecK ⟨0, 1, 0⟩ c []
      (.player true 0 [.player true 0 [.term 1, .term 0], .term 0]) 1 1 1 {} = none := by
  refine ⟨⟨[], false, fun _ _ => [1 / 2, 1 / 2], fun _ _ _ _ => 0, 0⟩, ?_⟩
  simp [vrecK, vrecActsK, Sizes.player]

end Cfr
