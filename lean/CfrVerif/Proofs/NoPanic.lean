import CfrVerif.Model.Checked
import CfrVerif.Proofs.GameWF
import CfrVerif.Proofs.RealInst
/-!
# The traversals never panic on an accepted game

`vrecK` / `erecK` (`Model/Checked.lean`) are the traversals with the crate's three state-dependent
panics as values: a chance or player infoset index out of bounds, and a `RefCell::borrow_mut` on an
infoset whose borrow is still held up the recursion.  On every well-formed game (what `from_root`
guarantees: indices in range, perfect recall) they return `some` of exactly what the unchecked
traversals compute — for every strategy table, reach, draw oracle and sample cache.
-/
set_option linter.unusedSectionVars false
namespace Cfr

/-- `recurse_single` (full and chance-sampled, one thread) never panics -/
theorem vrec_never_panics (g : Game ℝ) (hg : GameWF g) (c : VCtx ℝ) (pc p1 p2 : ℝ) (d : DrawSt ℝ) :
    vrecK g.sizes c [] g.root pc p1 p2 d = some (vrec c g.root pc p1 p2 d) := by
  sorry

/-- `recurse_regret` (external sampling, one thread) never panics -/
theorem erec_never_panics (g : Game ℝ) (hg : GameWF g) (c : ECtx ℝ) (d : DrawSt ℝ) :
    erecK g.sizes c [] g.root d = some (erec c g.root d) := by
  sorry

/-- the checks are not vacuous: a tree that repeats an infoset on a path makes the checked
traversal panic ("already borrowed") although the unchecked one computes something -/
theorem vrecK_detects_double_borrow :
    ∃ (c : VCtx ℝ), vrecK ⟨0, 1, 0⟩ c []
      (.player true 0 [.player true 0 [.term 1, .term 0], .term 0]) 1 1 1 {} = none := by
  sorry

end Cfr
