import CfrVerif.Proofs.Basic
import CfrVerif.Model.Eval
/-!
# Probability vectors
-/
set_option linter.unusedSectionVars false
namespace Cfr
variable {α : Type} [Field α] [LinearOrder α] [IsStrictOrderedRing α]

/-- a probability vector: non-negative entries summing to one -/
def IsDist (v : List α) : Prop := (∀ p ∈ v, 0 ≤ p) ∧ v.sum = 1

/-- a behavioural strategy: one probability vector per infoset -/
def IsStrat (σ : Strat α) : Prop := ∀ v ∈ σ, IsDist v

end Cfr
