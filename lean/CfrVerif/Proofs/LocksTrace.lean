import CfrVerif.Proofs.LocksGeneric
import CfrVerif.Proofs.GameWF
import CfrVerif.Proofs.FrontierExt
/-!
# The pool's mutexes, specific part: the traces of the external-sampling pass

`TrOK first n t` : what a trace `t` of a traversal of node `n` satisfies (its `try_lock`s are
infosets of the updating player at or below `n`, its blocking locks are other mutexes and are
released at once, everything acquired is released, and under perfect recall no mutex is
`try_lock`ed twice).  Both `etrace` and `etraceC` produce such traces; the frontier of
`eThreshold` consists of nodes no two of which have a common infoset of the updating player below
them.
-/
set_option linter.unusedSectionVars false
namespace Cfr
namespace Lk
variable {α : Type} [Field α] [LinearOrder α] [IsStrictOrderedRing α] [Transc α]

/-- infoset `i` of player `first` occurs at `n` or below it -/
inductive Below (first : Bool) (i : Nat) : Node α → Prop
  | here (ks : List (Node α)) : Below first i (.player first i ks)
  | chance (j : Nat) (ks : List (Node α)) (k : Node α) :
      k ∈ ks → Below first i k → Below first i (.chance j ks)
  | player (one : Bool) (j : Nat) (ks : List (Node α)) (k : Node α) :
      k ∈ ks → Below first i k → Below first i (.player one j ks)

theorem PRL_mem (me : Bool) (hist : Nat → Hist) (H : Hist) :
    ∀ (ks : List (Node α)), PRL me hist H ks → ∀ k ∈ ks, PR me hist H k
  | [], _, k, hk => by simp at hk
  | x :: ks, h, k, hk => by
    obtain ⟨h1, h2⟩ := (by simpa [PRL] using h : PR me hist H x ∧ PRL me hist H ks)
    rcases List.mem_cons.mp hk with rfl | hk
    · exact h1
    · exact PRL_mem me hist H ks h2 k hk

theorem PRD_get (me : Bool) (hist : Nat → Hist) (H : Hist) (j : Nat) :
    ∀ (ks : List (Node α)) (a : Nat), PRD me hist H j a ks → ∀ (m : Nat) (k : Node α),
      ks[m]? = some k → PR me hist (H ++ [(j, a + m)]) k
  | [], _, _, m, k, hk => by simp at hk
  | x :: ks, a, h, 0, k, hk => by
    obtain ⟨h1, _⟩ :=
      (by simpa [PRD] using h : PR me hist (H ++ [(j, a)]) x ∧ PRD me hist H j (a + 1) ks)
    simp only [List.getElem?_cons_zero, Option.some.injEq] at hk
    subst hk
    simpa using h1
  | x :: ks, a, h, m + 1, k, hk => by
    obtain ⟨_, h2⟩ :=
      (by simpa [PRD] using h : PR me hist (H ++ [(j, a)]) x ∧ PRD me hist H j (a + 1) ks)
    simp only [List.getElem?_cons_succ] at hk
    have := PRD_get me hist H j ks (a + 1) h2 m k hk
    rwa [show a + 1 + m = a + (m + 1) by omega] at this

/-- perfect recall: an infoset of the player below a node extends the node's own history -/
theorem below_prefix {first : Bool} {i : Nat} {n : Node α} (hist : Nat → Hist)
    (h : Below first i n) : ∀ H, PR first hist H n → H <+: hist i := by
  induction h with
  | here ks =>
    intro H hp
    have : hist i = H := (by simpa [PR] using hp : hist i = H ∧ _).1
    rw [this]
  | chance j ks k hk _ ih =>
    intro H hp
    exact ih H (PRL_mem first hist H ks (by simpa [PR] using hp) k hk)
  | player one j ks k hk _ ih =>
    intro H hp
    by_cases ho : one = first
    · obtain ⟨_, hD⟩ := (by simpa [PR, ho] using hp : hist j = H ∧ PRD first hist H j 0 ks)
      obtain ⟨m, hm⟩ := List.getElem?_of_mem hk
      exact (List.prefix_append _ _).trans (ih _ (PRD_get first hist H j ks 0 hD m k hm))
    · exact ih H (PRL_mem first hist H ks (by simpa [PR, ho] using hp) k hk)

/-- two different children of an own node have no infoset of the player in common -/
theorem below_children_ne {first : Bool} {i : Nat} (hist : Nat → Hist) {H : Hist} {j a : Nat}
    {ks : List (Node α)} (hD : PRD first hist H j a ks) {m1 m2 : Nat} {k1 k2 : Node α}
    (h1 : ks[m1]? = some k1) (h2 : ks[m2]? = some k2) (b1 : Below first i k1)
    (b2 : Below first i k2) : m1 = m2 := by
  have p1 := below_prefix hist b1 _ (PRD_get first hist H j ks a hD m1 k1 h1)
  have p2 := below_prefix hist b2 _ (PRD_get first hist H j ks a hD m2 k2 h2)
  have := prefix_snoc_inj p1 p2
  simp only [Prod.mk.injEq, true_and] at this
  omega

/-! ## what a trace of a traversal satisfies -/

structure TrOK (first : Bool) (n : Node α) (t : List LEv) : Prop where
  tryB : ∀ l ∈ tryLocks t, ∃ i, l = LockId.player first i ∧ Below first i n
  block : ∀ l ∈ blockLocks t, ∀ i, l ≠ LockId.player first i
  leaf : LeafCS t
  rel : RelOK t
  nodup : ∀ (hist : Nat → Hist) (H : Hist), PR first hist H n → (tryLocks t).Nodup

/-- the trace of the sampled child, if there is one -/
def TrOKL (first : Bool) (ks : List (Node α)) (t : List LEv) : Prop :=
  t = [] ∨ ∃ k ∈ ks, TrOK first k t

/-- the trace of the visited children of an own node -/
structure TrOKA (first : Bool) (ks : List (Node α)) (t : List LEv) : Prop where
  tryB : ∀ l ∈ tryLocks t, ∃ i, l = LockId.player first i ∧ ∃ k ∈ ks, Below first i k
  block : ∀ l ∈ blockLocks t, ∀ i, l ≠ LockId.player first i
  leaf : LeafCS t
  rel : RelOK t
  nodup : ∀ (hist : Nat → Hist) (H : Hist) (j a : Nat), PRD first hist H j a ks →
    (tryLocks t).Nodup

theorem TrOK.nil (first : Bool) (n : Node α) : TrOK first n [] where
  tryB := fun _ h => by simp at h
  block := fun _ h => by simp at h
  leaf := by simp
  rel := by simp [RelOK]
  nodup := fun _ _ _ => by simp

theorem TrOKL.cons {first : Bool} {ks : List (Node α)} {t : List LEv} (x : Node α)
    (h : TrOKL first ks t) : TrOKL first (x :: ks) t := by
  rcases h with h | ⟨k, hk, h⟩
  · exact Or.inl h
  · exact Or.inr ⟨k, List.mem_cons_of_mem _ hk, h⟩

theorem TrOK.chance {first : Bool} {ks : List (Node α)} {t : List LEv} (i : Nat)
    (h : TrOKL first ks t) :
    TrOK first (.chance i ks) (.acq (.chance i) :: .rel (.chance i) :: t) := by
  rcases h with rfl | ⟨k, hk, h⟩
  · exact ⟨fun _ h => by simp at h, fun l h j => by simp at h; simp [h],
      by simp, by simp [RelOK], fun _ _ _ => by simp⟩
  · refine ⟨?_, ?_, by simpa using h.leaf, by simpa [RelOK] using h.rel, ?_⟩
    · intro l hl
      obtain ⟨j, hj, hb⟩ := h.tryB l (by simpa using hl)
      exact ⟨j, hj, Below.chance i ks k hk hb⟩
    · intro l hl j
      simp only [blockLocks_acq, blockLocks_rel, List.mem_cons] at hl
      rcases hl with rfl | hl
      · simp
      · exact h.block l hl j
    · intro hist H hp
      simpa using h.nodup hist H (PRL_mem first hist H ks (by simpa [PR] using hp) k hk)

theorem TrOK.opp {first : Bool} {ks : List (Node α)} {t : List LEv} (one : Bool) (i : Nat)
    (ho : ¬ one = first) (h : TrOKL first ks t) :
    TrOK first (.player one i ks) (.acq (.player one i) :: .rel (.player one i) :: t) := by
  rcases h with rfl | ⟨k, hk, h⟩
  · exact ⟨fun _ h => by simp at h, fun l h j => by simp at h; simp [h, ho],
      by simp, by simp [RelOK], fun _ _ _ => by simp⟩
  · refine ⟨?_, ?_, by simpa using h.leaf, by simpa [RelOK] using h.rel, ?_⟩
    · intro l hl
      obtain ⟨j, hj, hb⟩ := h.tryB l (by simpa using hl)
      exact ⟨j, hj, Below.player one i ks k hk hb⟩
    · intro l hl j
      simp only [blockLocks_acq, blockLocks_rel, List.mem_cons] at hl
      rcases hl with rfl | hl
      · simp [ho]
      · exact h.block l hl j
    · intro hist H hp
      simpa using h.nodup hist H (PRL_mem first hist H ks (by simpa [PR, ho] using hp) k hk)

theorem TrOK.own {first : Bool} {ks : List (Node α)} {t : List LEv} (i : Nat)
    (h : TrOKA first ks t) :
    TrOK first (.player first i ks)
      (.tryAcq (.player first i) :: t ++ [.rel (.player first i)]) := by
  refine ⟨?_, ?_, ?_, ?_, ?_⟩
  · intro l hl
    simp only [List.cons_append, tryLocks_tryAcq, tryLocks_append, tryLocks_rel, tryLocks_nil,
      List.append_nil, List.mem_cons] at hl
    rcases hl with rfl | hl
    · exact ⟨i, rfl, Below.here ks⟩
    · obtain ⟨j, hj, k, hk, hb⟩ := h.tryB l hl
      exact ⟨j, hj, Below.player first i ks k hk hb⟩
  · intro l hl j
    simp only [List.cons_append, blockLocks_tryAcq, blockLocks_append, blockLocks_rel,
      blockLocks_nil, List.append_nil] at hl
    exact h.block l hl j
  · rw [List.cons_append, LeafCS_tryAcq]
    exact LeafCS_append _ _ h.leaf (by simp)
  · simp only [List.cons_append, RelOK]
    exact ⟨by simp, RelOK_append _ _ h.rel (by simp [RelOK])⟩
  · intro hist H hp
    obtain ⟨hH, hD⟩ := (by simpa [PR] using hp : hist i = H ∧ PRD first hist H i 0 ks)
    simp only [List.cons_append, tryLocks_tryAcq, tryLocks_append, tryLocks_rel, tryLocks_nil,
      List.append_nil, List.nodup_cons]
    refine ⟨fun hl => ?_, h.nodup hist H i 0 hD⟩
    obtain ⟨j, hj, k, hk, hb⟩ := h.tryB _ hl
    simp only [LockId.player.injEq, true_and] at hj
    subst hj
    obtain ⟨m, hm⟩ := List.getElem?_of_mem hk
    have := (below_prefix hist hb _ (PRD_get first hist H i ks 0 hD m k hm)).length_le
    rw [hH] at this
    simp at this

theorem TrOKA.nil (first : Bool) (ks : List (Node α)) : TrOKA first ks [] where
  tryB := fun _ h => by simp at h
  block := fun _ h => by simp at h
  leaf := by simp
  rel := by simp [RelOK]
  nodup := fun _ _ _ _ _ => by simp

theorem TrOKA.cons {first : Bool} {k : Node α} {ks : List (Node α)} {t t' : List LEv}
    (hk : TrOK first k t) (h : TrOKA first ks t') : TrOKA first (k :: ks) (t ++ t') := by
  refine ⟨?_, ?_, LeafCS_append _ _ hk.leaf h.leaf, RelOK_append _ _ hk.rel h.rel, ?_⟩
  · intro l hl
    rw [tryLocks_append, List.mem_append] at hl
    rcases hl with hl | hl
    · obtain ⟨j, hj, hb⟩ := hk.tryB l hl
      exact ⟨j, hj, k, List.mem_cons_self, hb⟩
    · obtain ⟨j, hj, k', hk', hb⟩ := h.tryB l hl
      exact ⟨j, hj, k', List.mem_cons_of_mem _ hk', hb⟩
  · intro l hl j
    rw [blockLocks_append, List.mem_append] at hl
    rcases hl with hl | hl
    · exact hk.block l hl j
    · exact h.block l hl j
  · intro hist H j a hD
    obtain ⟨h1, h2⟩ := (by simpa [PRD] using hD :
      PR first hist (H ++ [(j, a)]) k ∧ PRD first hist H j (a + 1) ks)
    rw [tryLocks_append, List.nodup_append]
    refine ⟨hk.nodup hist _ h1, h.nodup hist H j (a + 1) h2, ?_⟩
    intro x hx y hy hxy
    subst hxy
    obtain ⟨i, hi, hb⟩ := hk.tryB x hx
    obtain ⟨i', hi', k', hk', hb'⟩ := h.tryB x hy
    rw [hi] at hi'
    simp only [LockId.player.injEq, true_and] at hi'
    subst hi'
    obtain ⟨m, hm⟩ := List.getElem?_of_mem hk'
    have := below_children_ne hist hD (m1 := 0) (m2 := m + 1) (by simp) (by simpa using hm) hb hb'
    omega

/-! ## the traces of the model -/

mutual
theorem etrace_ok (c : ECtx α) : ∀ (n : Node α) (d : DrawSt α), TrOK c.first n (etrace c n d).1
  | .term _, d => by simp only [etrace]; exact TrOK.nil _ _
  | .chance i ks, d => by
    simp only [etrace]
    exact TrOK.chance i (etraceNth_ok c ks _ _)
  | .player one i ks, d => by
    by_cases ho : (one == c.first) = true
    · have ho' : one = c.first := by simpa using ho
      simp only [etrace, if_pos ho]
      subst ho'
      exact TrOK.own i (etraceActs_ok c _ ks d)
    · have ho' : ¬ one = c.first := by simpa using ho
      simp only [etrace, if_neg ho]
      exact TrOK.opp one i ho' (etraceNth_ok c ks _ _)
theorem etraceNth_ok (c : ECtx α) : ∀ (ks : List (Node α)) (k : Nat) (d : DrawSt α),
    TrOKL c.first ks (etraceNth c ks k d).1
  | [], _, d => by simp only [etraceNth]; exact Or.inl rfl
  | k :: _, 0, d => by
    simp only [etraceNth]
    exact Or.inr ⟨k, List.mem_cons_self, etrace_ok c k d⟩
  | x :: ks, n + 1, d => by
    simp only [etraceNth]
    exact (etraceNth_ok c ks n d).cons x
theorem etraceActs_ok (c : ECtx α) : ∀ (σ : List α) (ks : List (Node α)) (d : DrawSt α),
    TrOKA c.first ks (etraceActs c σ ks d).1
  | _ :: σ, k :: ks, d => by
    simp only [etraceActs]
    exact TrOKA.cons (etrace_ok c k d) (etraceActs_ok c σ ks _)
  | [], _, d => by simp only [etraceActs]; exact TrOKA.nil _ _
  | _ :: _, [], d => by simp only [etraceActs]; exact TrOKA.nil _ _
end

theorem etraceC_hit (c : ECtx α) (cache : List (Path × α)) (n : Node α) (path : Path)
    (d : DrawSt α) (v : α) (h : cacheGet cache path = some v) :
    etraceC c cache n path d = ([], d) := by
  cases n <;> simp only [etraceC, h]

mutual
theorem etraceC_ok (c : ECtx α) (cache : List (Path × α)) :
    ∀ (n : Node α) (path : Path) (d : DrawSt α), TrOK c.first n (etraceC c cache n path d).1
  | .term _, path, d => by
    cases hc : cacheGet cache path with
    | some v => rw [etraceC_hit _ _ _ _ _ v hc]; exact TrOK.nil _ _
    | none => simp only [etraceC, hc]; exact TrOK.nil _ _
  | .chance i ks, path, d => by
    cases hc : cacheGet cache path with
    | some v => rw [etraceC_hit _ _ _ _ _ v hc]; exact TrOK.nil _ _
    | none =>
      simp only [etraceC, hc]
      exact TrOK.chance i (etraceCNth_ok c cache ks _ _ _)
  | .player one i ks, path, d => by
    cases hc : cacheGet cache path with
    | some v => rw [etraceC_hit _ _ _ _ _ v hc]; exact TrOK.nil _ _
    | none =>
      by_cases ho : (one == c.first) = true
      · have ho' : one = c.first := by simpa using ho
        simp only [etraceC, hc, if_pos ho]
        subst ho'
        exact TrOK.own i (etraceCActs_ok c cache _ ks path d 0)
      · have ho' : ¬ one = c.first := by simpa using ho
        simp only [etraceC, hc, if_neg ho]
        exact TrOK.opp one i ho' (etraceCNth_ok c cache ks _ _ _)
theorem etraceCNth_ok (c : ECtx α) (cache : List (Path × α)) :
    ∀ (ks : List (Node α)) (k : Nat) (path : Path) (d : DrawSt α),
      TrOKL c.first ks (etraceCNth c cache ks k path d).1
  | [], _, _, d => by simp only [etraceCNth]; exact Or.inl rfl
  | k :: _, 0, path, d => by
    simp only [etraceCNth]
    exact Or.inr ⟨k, List.mem_cons_self, etraceC_ok c cache k path d⟩
  | x :: ks, n + 1, path, d => by
    simp only [etraceCNth]
    exact (etraceCNth_ok c cache ks n path d).cons x
theorem etraceCActs_ok (c : ECtx α) (cache : List (Path × α)) :
    ∀ (σ : List α) (ks : List (Node α)) (path : Path) (d : DrawSt α) (a : Nat),
      TrOKA c.first ks (etraceCActs c cache σ ks path d a).1
  | _ :: σ, k :: ks, path, d, a => by
    simp only [etraceCActs]
    exact TrOKA.cons (etraceC_ok c cache k _ d) (etraceCActs_ok c cache σ ks path _ (a + 1))
  | [], _, _, d, _ => by simp only [etraceCActs]; exact TrOKA.nil _ _
  | _ :: _, [], _, d, _ => by simp only [etraceCActs]; exact TrOKA.nil _ _
end

/-! ## the frontier -/

/-- no infoset of the player occurs below both nodes -/
def Sep (first : Bool) (a b : EItem α) : Prop :=
  ∀ i, ¬ (Below first i a.node ∧ Below first i b.node)

theorem Sep.symm {first : Bool} {a b : EItem α} (h : Sep first a b) : Sep first b a :=
  fun i hi => h i ⟨hi.2, hi.1⟩

/-- every node of the frontier has an own history, and no two nodes share an infoset of the
player below them -/
def ItemsOK (first : Bool) (hist : Nat → Hist) (l : List (EItem α)) : Prop :=
  (∀ it ∈ l, ∃ H, PR first hist H it.node) ∧ l.Pairwise (Sep first)

theorem ItemsOK.perm {first : Bool} {hist : Nat → Hist} {l l' : List (EItem α)}
    (h : ItemsOK first hist l) (hp : l.Perm l') : ItemsOK first hist l' :=
  ⟨fun it hit => h.1 it (hp.symm.subset hit), h.2.perm hp (fun h => h.symm)⟩

theorem ItemsOK.tail {first : Bool} {hist : Nat → Hist} {it : EItem α} {l : List (EItem α)}
    (h : ItemsOK first hist (it :: l)) : ItemsOK first hist l :=
  ⟨fun x hx => h.1 x (List.mem_cons_of_mem _ hx), (List.pairwise_cons.mp h.2).2⟩

theorem ItemsOK.left {first : Bool} {hist : Nat → Hist} {a b : List (EItem α)}
    (h : ItemsOK first hist (a ++ b)) : ItemsOK first hist a :=
  ⟨fun it hit => h.1 it (List.mem_append_left _ hit), (List.pairwise_append.mp h.2).1⟩

theorem eChildren_sep (first : Bool) (hist : Nat → Hist) (H : Hist) (j : Nat) (P : Path) :
    ∀ (ks : List (Node α)) (a0 : Nat), PRD first hist H j a0 ks →
      (eChildren P ks a0).Pairwise (Sep first)
  | [], _, _ => by simp [eChildren]
  | k :: ks, a0, hD => by
    obtain ⟨_, h2⟩ := (by simpa [PRD] using hD :
      PR first hist (H ++ [(j, a0)]) k ∧ PRD first hist H j (a0 + 1) ks)
    simp only [eChildren, List.pairwise_cons]
    refine ⟨fun y hy i hi => ?_, eChildren_sep first hist H j P ks (a0 + 1) h2⟩
    obtain ⟨m, hm, _⟩ := mem_eChildren P ks (a0 + 1) y hy
    have := below_children_ne hist hD (m1 := 0) (m2 := m + 1) (by simp) (by simpa using hm)
      hi.1 hi.2
    omega

theorem ItemsOK.expand {first : Bool} {hist : Nat → Hist} {it : EItem α} {l : List (EItem α)}
    (h : ItemsOK first hist (it :: l)) {P : Path} {j : Nat} {ks : List (Node α)} {H : Hist}
    (hp : PR first hist H (.player first j ks))
    (hb : ∀ i, Below first i (.player first j ks) → Below first i it.node) :
    ItemsOK first hist (eChildren P ks 0 ++ l) := by
  obtain ⟨_, hD⟩ := (by simpa [PR] using hp : hist j = H ∧ PRD first hist H j 0 ks)
  obtain ⟨hit, hl⟩ := List.pairwise_cons.mp h.2
  constructor
  · intro x hx
    rcases List.mem_append.mp hx with hx | hx
    · obtain ⟨m, hm, _⟩ := mem_eChildren P ks 0 x hx
      exact ⟨_, PRD_get first hist H j ks 0 hD m x.node hm⟩
    · exact h.1 x (List.mem_cons_of_mem _ hx)
  · rw [List.pairwise_append]
    refine ⟨eChildren_sep first hist H j P ks 0 hD, hl, fun x hx y hy i hi => ?_⟩
    obtain ⟨m, hm, _⟩ := mem_eChildren P ks 0 x hx
    exact hit y hy i ⟨hb i (Below.player first j ks x.node (List.mem_of_getElem? hm) hi.1), hi.2⟩

/-- `next_nodes` returns the children of a node of the updating player at or below its argument -/
theorem eNextNodes_below (c : ECtx α) (hist : Nat → Hist) :
    ∀ (fuel : Nat) (n : Node α) (path : Path) (d : DrawSt α) (H : Hist), PR c.first hist H n →
      ∀ items, (eNextNodes c fuel n path d).1 = some items →
        ∃ P j ks H', items = eChildren P ks 0 ∧ PR c.first hist H' (.player c.first j ks) ∧
          ∀ i, Below c.first i (.player c.first j ks) → Below c.first i n
  | 0, n, path, d, H, _, items, h => by rw [eNextNodes_zero] at h; simp at h
  | fuel + 1, .term p, path, d, H, _, items, h => by rw [eNextNodes_term] at h; simp at h
  | fuel + 1, .chance i ks, path, d, H, hp, items, h => by
    rw [eNextNodes_chance] at h
    split at h
    · rename_i n' hk
      obtain ⟨P, j, ks', H', h1, h2, h3⟩ := eNextNodes_below c hist fuel n' _ _ H
        (PRL_mem c.first hist H ks (by simpa [PR] using hp) n' (List.mem_of_getElem? hk)) items h
      exact ⟨P, j, ks', H', h1, h2,
        fun i' hi => Below.chance i ks n' (List.mem_of_getElem? hk) (h3 i' hi)⟩
    · simp at h
  | fuel + 1, .player one i ks, path, d, H, hp, items, h => by
    by_cases ho : (one == c.first) = true
    · have ho' : one = c.first := by simpa using ho
      rw [eNextNodes_own _ _ _ _ _ _ _ ho] at h
      simp only [Option.some.injEq] at h
      subst ho'
      exact ⟨path, i, ks, H, h.symm, hp, fun _ hi => hi⟩
    · have ho' : ¬ one = c.first := by simpa using ho
      rw [eNextNodes_opp _ _ _ _ _ _ _ ho] at h
      split at h
      · rename_i n' hk
        obtain ⟨P, j, ks', H', h1, h2, h3⟩ := eNextNodes_below c hist fuel n' _ _ H
          (PRL_mem c.first hist H ks (by simpa [PR, ho'] using hp) n' (List.mem_of_getElem? hk))
          items h
        exact ⟨P, j, ks', H', h1, h2,
          fun i' hi => Below.player one i ks n' (List.mem_of_getElem? hk) (h3 i' hi)⟩
      · simp at h

theorem eThreshold_itemsOK (c : ECtx α) (hist : Nat → Hist) (target depth : Nat) :
    ∀ (fuel : Nat) (queue work : List (EItem α)) (d : DrawSt α),
      ItemsOK c.first hist (queue ++ work) →
      ItemsOK c.first hist ((eThreshold c target depth fuel queue work d).1 ++
        (eThreshold c target depth fuel queue work d).2.1)
  | 0, queue, work, d, h => by
    simp only [eThreshold]
    exact h
  | fuel + 1, queue, work, d, h => by
    rw [eThreshold_succ]
    split_ifs with hcond
    · cases hq : queue.getLast? with
      | none =>
        simp only
        exact eThreshold_itemsOK c hist target depth fuel work queue d
          (h.perm List.perm_append_comm)
      | some it =>
        simp only
        have hqe := EdropLast_append_getLast? queue it hq
        have h' : ItemsOK c.first hist (it :: (queue.dropLast ++ work)) := by
          refine h.perm ?_
          rw [← hqe, List.append_assoc, List.dropLast_concat]
          exact List.perm_middle
        cases hN : (eNextNodes c depth it.node it.path d).1 with
        | none =>
          simp only
          exact eThreshold_itemsOK c hist target depth fuel queue.dropLast work _ h'.tail
        | some nexts =>
          simp only
          obtain ⟨H, hH⟩ := h'.1 it List.mem_cons_self
          obtain ⟨P, j, ks, H', h1, h2, h3⟩ :=
            eNextNodes_below c hist depth it.node it.path d H hH nexts hN
          have h'' : ItemsOK c.first hist (queue.dropLast ++ (work ++ nexts)) := by
            have := h'.expand (P := P) h2 h3
            rw [← h1] at this
            refine this.perm ?_
            rw [← List.append_assoc queue.dropLast work nexts]
            exact List.perm_append_comm
          exact eThreshold_itemsOK c hist target depth fuel queue.dropLast (work ++ nexts) _ h''
    · exact h

theorem ItemsOK.root (first : Bool) (hist : Nat → Hist) (root : Node α)
    (h : PR first hist [] root) : ItemsOK first hist ([⟨[], root⟩] ++ []) := by
  refine ⟨fun it hit => ?_, by simp⟩
  simp only [List.append_nil, List.mem_singleton] at hit
  subst hit
  exact ⟨[], h⟩

/-! ## the tasks -/

theorem eTaskTraces_cons (c : ECtx α) (it : EItem α) (rest : List (EItem α)) (d : DrawSt α) :
    (eTaskTraces c (it :: rest) d).1 =
      (etrace c it.node d).1 :: (eTaskTraces c rest (etrace c it.node d).2).1 := by
  simp only [eTaskTraces]

theorem eTaskTraces_mem (c : ECtx α) : ∀ (items : List (EItem α)) (d : DrawSt α) (t : List LEv),
    t ∈ (eTaskTraces c items d).1 → ∃ it ∈ items, TrOK c.first it.node t
  | [], d, t, h => by simp [eTaskTraces] at h
  | it :: rest, d, t, h => by
    rw [eTaskTraces_cons, List.mem_cons] at h
    rcases h with rfl | h
    · exact ⟨it, List.mem_cons_self, etrace_ok c it.node d⟩
    · obtain ⟨it', hit', ht⟩ := eTaskTraces_mem c rest _ t h
      exact ⟨it', List.mem_cons_of_mem _ hit', ht⟩

theorem eTaskTraces_nodup (c : ECtx α) (hist : Nat → Hist) :
    ∀ (items : List (EItem α)) (d : DrawSt α), ItemsOK c.first hist items →
      ((eTaskTraces c items d).1.flatMap tryLocks).Nodup
  | [], d, _ => by simp [eTaskTraces]
  | it :: rest, d, h => by
    rw [eTaskTraces_cons, List.flatMap_cons, List.nodup_append]
    obtain ⟨H, hH⟩ := h.1 it List.mem_cons_self
    refine ⟨(etrace_ok c it.node d).nodup hist H hH, eTaskTraces_nodup c hist rest _ h.tail, ?_⟩
    intro x hx y hy hxy
    subst hxy
    obtain ⟨i, hi, hb⟩ := (etrace_ok c it.node d).tryB x hx
    obtain ⟨t, ht, hxt⟩ := List.mem_flatMap.mp hy
    obtain ⟨it', hit', hok⟩ := eTaskTraces_mem c rest _ t ht
    obtain ⟨i', hi', hb'⟩ := hok.tryB x hxt
    rw [hi] at hi'
    simp only [LockId.player.injEq, true_and] at hi'
    subst hi'
    exact (List.pairwise_cons.mp h.2).1 it' hit' i ⟨hb, hb'⟩

/-- a pool of traces of traversals, no mutex `try_lock`ed twice, satisfies the hypotheses -/
theorem poolOK_of_trOK {first : Bool} {ts : List (List LEv)}
    (hn : (ts.flatMap tryLocks).Nodup) (h : ∀ t ∈ ts, ∃ n : Node α, TrOK first n t) :
    PoolOK ts where
  tryNodup := hn
  leaf := fun t ht => by obtain ⟨n, hok⟩ := h t ht; exact hok.leaf
  disjoint := fun l hl hb => by
    obtain ⟨t, ht, hlt⟩ := List.mem_flatMap.mp hl
    obtain ⟨t', ht', hlt'⟩ := List.mem_flatMap.mp hb
    obtain ⟨n, hok⟩ := h t ht
    obtain ⟨n', hok'⟩ := h t' ht'
    obtain ⟨i, hi, _⟩ := hok.tryB l hlt
    exact hok'.block l hlt' i hi
  released := fun t ht => by
    obtain ⟨n, hok⟩ := h t ht
    exact (RelOK_iff t).mp hok.rel

end Lk
end Cfr
