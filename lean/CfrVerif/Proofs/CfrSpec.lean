import CfrVerif.Proofs.ViewBridge
import CfrVerif.Proofs.Effects
import CfrVerif.Model.Vanilla
/-!
# Textbook quantities of counterfactual regret minimisation, on the player view

`regAdd σ I a v c` is the *instantaneous counterfactual regret* of action `a` at infoset `I`
when the player follows `σ` on the view `v` whose root is reached by the rest of the world with
probability `c`:  `Σ_{h ∈ I} π_{-i}(h) · (v^σ(h·a) − v^σ(h))`.

`stratAdd σ I a v q` is the reach-weighted strategy mass the traversal adds to the average-strategy
accumulator: `Σ_{h ∈ I} π_i^σ(h) · σ(I, a)`, where `q` is the own reach of the root of `v`.

`effSum` reads a list of atomic accumulations as the total added to one accumulator cell.
-/
set_option linter.unusedSectionVars false
namespace Cfr
variable {α : Type} [Field α] [LinearOrder α] [IsStrictOrderedRing α]

mutual
/-- instantaneous counterfactual regret of `(I, a)` collected below a view -/
def regAdd (σ : Strat α) (I a : Nat) : V α → α → α
  | .term _, _ => 0
  | .nature ws ks, c => regAddN σ I a ws ks c
  | .decide i ks, c =>
    (if i = I then c * ((ks.map (evV σ)).getD a 0 - evVN σ (σ.at i) ks) else 0) + regAddD σ I a ks c
def regAddN (σ : Strat α) (I a : Nat) : List α → List (V α) → α → α
  | w :: ws, k :: ks, c => regAdd σ I a k (c * w) + regAddN σ I a ws ks c
  | _, _, _ => 0
def regAddD (σ : Strat α) (I a : Nat) : List (V α) → α → α
  | [], _ => 0
  | k :: ks, c => regAdd σ I a k c + regAddD σ I a ks c
end

mutual
/-- reach-weighted strategy mass of `(I, a)` collected below a view; `q` = own reach -/
def stratAdd (σ : Strat α) (I a : Nat) : V α → α → α
  | .term _, _ => 0
  | .nature _ ks, q => stratAddN σ I a ks q
  | .decide i ks, q =>
    (if i = I then q * (σ.at i).getD a 0 else 0) + stratAddD σ I a (σ.at i) ks q
def stratAddN (σ : Strat α) (I a : Nat) : List (V α) → α → α
  | [], _ => 0
  | k :: ks, q => stratAdd σ I a k q + stratAddN σ I a ks q
def stratAddD (σ : Strat α) (I a : Nat) : List α → List (V α) → α → α
  | s :: ss, k :: ks, q => stratAdd σ I a k (q * s) + stratAddD σ I a ss ks q
  | _, _, _ => 0
end

/-- the total a list of atomic accumulations adds to one accumulator cell -/
def effSum (es : List (Eff α)) (one : Bool) (I : Nat) (slot : Slot) (a : Nat) : α :=
  ((es.filter (fun e => e.one == one && e.info == I && e.slot == slot && e.act == a)).map
    (fun e => e.delta)).sum

/-- number of own decision nodes of infoset `I` in a view -/
def cntInfo (I : Nat) : V α → Nat
  | .term _ => 0
  | .nature _ ks => cntInfoL I ks
  | .decide i ks => (if i = I then 1 else 0) + cntInfoL I ks
where cntInfoL (I : Nat) : List (V α) → Nat
  | [] => 0
  | k :: ks => cntInfo I k + cntInfoL I ks

end Cfr
