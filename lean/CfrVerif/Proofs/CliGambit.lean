import CfrVerif.Proofs.CliLemmas
/-!
# The meaning of a Gambit file survives the conversion (`gambit_file_semantics`, C15)

`Efg.toRaw` sorts the children, looks payoffs and names up in the tables of `get_global_info`,
carries the interior payoffs down and subtracts the constant-sum offset at the terminals.  Under a
behavioural profile of the converted tree the expected payoff is the file's expected cumulative
payoff of player one minus the offset; for an exactly constant-sum file the offset is `K / 2`
and player two's expected cumulative payoff is `K` minus player one's.
-/
set_option linter.unusedSectionVars false
namespace Cfr
namespace CliP
variable {α : Type} [Field α] [LinearOrder α] [IsStrictOrderedRing α]

/-! ## a behavioural profile on the file's own tree -/

mutual
/-- the file's tree is shaped, validated (`Efg.FileOK`) and `ρ` plays a distribution over the
listed actions at every decision node -/
def EfgValid (names : Bool → List (Nat × Nat)) (ρ : LProfile α) : Efg α → Prop
  | .term oc _ => oc ≠ 0
  | .chance _ nm probs kids _ _ =>
    nm.length = kids.length ∧ probs.length = kids.length ∧ probs.sum ≠ 0 ∧ EfgValidL names ρ kids
  | .player num info _ acts kids _ _ =>
    acts.length = kids.length ∧
      (acts.map (ρ (num == 1) ((assocFind (names (num == 1)) info).getD 0))).sum = 1 ∧
      EfgValidL names ρ kids
def EfgValidL (names : Bool → List (Nat × Nat)) (ρ : LProfile α) : List (Efg α) → Prop
  | [] => True
  | k :: ks => EfgValid names ρ k ∧ EfgValidL names ρ ks
end

theorem toRawL_length (gi : GlobalInfo α) : ∀ (ks : List (Efg α)) (cum : α) (rs : List (Raw α)),
    Efg.toRawL gi ks cum = .ok rs → rs.length = ks.length
  | [], cum, rs, h => by
    simp only [Efg.toRawL] at h
    cases h
    rfl
  | k :: ks, cum, rs, h => by
    simp only [Efg.toRawL] at h
    split at h
    · cases h
    · split at h
      · cases h
      · rename_i rs0 hrs0
        cases h
        simp [toRawL_length gi ks cum rs0 hrs0]

section valid
variable (gi : GlobalInfo α) (names : Bool → List (Nat × Nat)) (ρ : LProfile α)
  (hn1 : gi.namesOne = names true) (hn2 : gi.namesTwo = names false)
include hn1 hn2

mutual
theorem valid_of_toRaw : ∀ (n : Efg α) (cum : α) (r : Raw α), Efg.toRaw gi n cum = .ok r →
    n.ShapeOK → n.FileOK → LValidOn ρ r → EfgValid names ρ n
  | .term oc pays, cum, r, h, _, hf, _ => by
    simpa only [EfgValid, Efg.FileOK] using hf
  | .chance info nm probs kids oc pays, cum, r, h, hs, hf, hv => by
    simp only [Efg.toRaw] at h
    simp only [Efg.ShapeOK] at hs
    simp only [Efg.FileOK] at hf
    split at h
    · cases h
    · split at h
      · cases h
      · rename_i np _ rs hrs
        cases h
        have hl := toRawL_length gi kids _ rs hrs
        simp only [LValidOn] at hv
        rw [lvalidL_iff] at hv
        simp only [EfgValid]
        refine ⟨hs.1, hs.2.1, hf.1, validL_of_toRawL kids _ rs hrs hs.2.2 hf.2 ?_⟩
        intro r hr
        apply hv
        have hr' : r ∈ (zip3 nm probs rs).map (·.2.2) := by
          rw [zip3_map_kids _ _ _ (by omega) (by omega)]; exact hr
        obtain ⟨e, he, rfl⟩ := List.mem_map.mp hr'
        exact List.mem_map.mpr ⟨e, (mem_sortBy _ _ _).mpr he, rfl⟩
  | .player num info name acts kids oc pays, cum, r, h, hs, hf, hv => by
    simp only [Efg.toRaw] at h
    simp only [Efg.ShapeOK] at hs
    simp only [Efg.FileOK] at hf
    split at h
    · cases h
    · rename_i hnum
      split at h
      · cases h
      · split at h
        · cases h
        · rename_i label hlab
          split at h
          · cases h
          · rename_i rs hrs
            cases h
            have hl := toRawL_length gi kids _ rs hrs
            simp only [LValidOn] at hv
            obtain ⟨_, hsum, hk⟩ := hv
            rw [lvalidL_iff] at hk
            have hperm := sortBy_perm (actionLt (β := Raw α)) (acts.zip rs)
            have hlab' : (assocFind (names (num == 1)) info).getD 0 = label := by
              by_cases h1 : num = 1
              · subst h1
                simp only [if_true] at hlab
                simp [← hn1, hlab]
              · rw [if_neg h1] at hlab
                have : (num == 1) = false := by simpa using h1
                simp [this, ← hn2, hlab]
            simp only [EfgValid]
            refine ⟨hs.1, ?_, validL_of_toRawL kids _ rs hrs hs.2 hf ?_⟩
            · rw [hlab', ← hsum]
              have := (hperm.map (·.1)).map (ρ (num == 1) label)
              rw [List.map_fst_zip (by omega)] at this
              exact this.sum_eq.symm
            · intro r hr
              apply hk
              have hr' : r ∈ (acts.zip rs).map (·.2) := by
                rw [List.map_snd_zip (by omega)]; exact hr
              obtain ⟨e, he, rfl⟩ := List.mem_map.mp hr'
              exact List.mem_map.mpr ⟨e, (mem_sortBy _ _ _).mpr he, rfl⟩
theorem validL_of_toRawL : ∀ (ks : List (Efg α)) (cum : α) (rs : List (Raw α)),
    Efg.toRawL gi ks cum = .ok rs → Efg.ShapeOKL ks → Efg.FileOKL ks →
    (∀ r ∈ rs, LValidOn ρ r) → EfgValidL names ρ ks
  | [], cum, rs, h, _, _, _ => by simp [EfgValidL]
  | k :: ks, cum, rs, h, hs, hf, hv => by
    simp only [Efg.toRawL] at h
    simp only [Efg.ShapeOKL] at hs
    simp only [Efg.FileOKL] at hf
    split at h
    · cases h
    · rename_i r0 hr0
      split at h
      · cases h
      · rename_i rs0 hrs0
        cases h
        simp only [EfgValidL]
        exact ⟨valid_of_toRaw k cum r0 hr0 hs.1 hf.1 (hv r0 (by simp)),
          validL_of_toRawL ks cum rs0 hrs0 hs.2 hf.2 (fun r hr => hv r (by simp [hr]))⟩
end

end valid

/-! ## sums over paired lists -/

theorem rawEVP_map (ρ : LProfile α) (o : Bool) (l : Nat) (es : List (Nat × Raw α)) :
    rawEVP ρ o l (es.map (·.1)) (es.map (·.2)) = (es.map (fun e => ρ o l e.1 * rawEV ρ e.2)).sum := by
  induction es with
  | nil => simp [rawEVP]
  | cons e es ih => simp [rawEVP, ih]

theorem rawEVC_map {β : Type} (ρ : LProfile α) (total : α) (es : List (β × α × Raw α)) :
    rawEVC ρ total (es.map (·.2.1)) (es.map (·.2.2))
      = (es.map (fun e => e.2.1 / total * rawEV ρ e.2.2)).sum := by
  induction es with
  | nil => simp [rawEVC]
  | cons e es ih => simp [rawEVC, ih]

theorem sum_map_div (l : List α) (t : α) : (l.map (· / t)).sum = l.sum / t := by
  induction l with
  | nil => simp
  | cons x xs ih => simp [ih, add_div]

section ev
variable (tbl : List (Nat × (α × α))) (names : Bool → List (Nat × Nat)) (ρ : LProfile α) (S : α)

theorem evP_sum (who o : Bool) (l : Nat) (cum : α) (ks : List (Efg α)) (rs : List (Raw α))
    (h : List.Forall₂ (fun k r => rawEV ρ r = efgEV tbl names ρ who k cum - S) ks rs) :
    ∀ acts : List Nat, acts.length = ks.length →
      ((acts.zip rs).map (fun e => ρ o l e.1 * rawEV ρ e.2)).sum
        = efgEVP tbl names ρ who o l acts ks cum - S * (acts.map (ρ o l)).sum := by
  induction h with
  | nil =>
    intro acts hl
    have : acts = [] := List.eq_nil_of_length_eq_zero (by simpa using hl)
    subst this
    simp [efgEVP]
  | cons hkr _ ih =>
    intro acts hl
    cases acts with
    | nil => simp at hl
    | cons a as =>
      have ih' := ih as (by simpa using hl)
      simp only [List.zip_cons_cons, List.map_cons, List.sum_cons, efgEVP, ih', hkr]
      ring

theorem evC_sum (who : Bool) (total cum : α) (ks : List (Efg α)) (rs : List (Raw α))
    (h : List.Forall₂ (fun k r => rawEV ρ r = efgEV tbl names ρ who k cum - S) ks rs) :
    ∀ probs : List α, probs.length = ks.length →
      ((probs.zip rs).map (fun e => e.1 / total * rawEV ρ e.2)).sum
        = efgEVC tbl names ρ who total probs ks cum - S * (probs.map (· / total)).sum := by
  induction h with
  | nil =>
    intro probs hl
    have : probs = [] := List.eq_nil_of_length_eq_zero (by simpa using hl)
    subst this
    simp [efgEVC]
  | cons hkr _ ih =>
    intro probs hl
    cases probs with
    | nil => simp at hl
    | cons p ps =>
      have ih' := ih ps (by simpa using hl)
      simp only [List.zip_cons_cons, List.map_cons, List.sum_cons, efgEVC, ih', hkr]
      ring

theorem evP_pair (o : Bool) (l : Nat) (c1 c2 K : α) : ∀ (ks : List (Efg α)) (acts : List Nat),
    (∀ k ∈ ks, efgEV tbl names ρ true k c1 + efgEV tbl names ρ false k c2 = K) →
    acts.length = ks.length →
    efgEVP tbl names ρ true o l acts ks c1 + efgEVP tbl names ρ false o l acts ks c2
      = K * (acts.map (ρ o l)).sum
  | [], acts, _, hl => by
    have : acts = [] := List.eq_nil_of_length_eq_zero (by simpa using hl)
    subst this
    simp [efgEVP]
  | k :: ks, [], _, hl => by simp at hl
  | k :: ks, a :: as, hk, hl => by
    have ih := evP_pair o l c1 c2 K ks as (fun k' hk' => hk k' (by simp [hk'])) (by simpa using hl)
    have h0 := hk k (by simp)
    simp only [efgEVP, List.map_cons, List.sum_cons]
    linear_combination ih + ρ o l a * h0

theorem evC_pair (total c1 c2 K : α) : ∀ (ks : List (Efg α)) (probs : List α),
    (∀ k ∈ ks, efgEV tbl names ρ true k c1 + efgEV tbl names ρ false k c2 = K) →
    probs.length = ks.length →
    efgEVC tbl names ρ true total probs ks c1 + efgEVC tbl names ρ false total probs ks c2
      = K * (probs.map (· / total)).sum
  | [], probs, _, hl => by
    have : probs = [] := List.eq_nil_of_length_eq_zero (by simpa using hl)
    subst this
    simp [efgEVC]
  | k :: ks, [], _, hl => by simp at hl
  | k :: ks, p :: ps, hk, hl => by
    have ih := evC_pair total c1 c2 K ks ps (fun k' hk' => hk k' (by simp [hk'])) (by simpa using hl)
    have h0 := hk k (by simp)
    simp only [efgEVC, List.map_cons, List.sum_cons]
    linear_combination ih + p / total * h0

end ev

/-! ## look-ups in the projected outcome table -/

theorem assocFind_map_fst (tbl : List (Nat × (α × α))) (oc : Nat) :
    assocFind (tbl.map (fun e => (e.1, e.2.1))) oc = (assocFind tbl oc).map (·.1) := by
  induction tbl with
  | nil => simp [assocFind]
  | cons e es ih =>
    unfold assocFind at ih ⊢
    simp only [List.map_cons, List.find?_cons]
    split <;> simp_all

/-! ## expected payoff of the converted tree -/

section conv
variable (gi : GlobalInfo α) (tbl : List (Nat × (α × α))) (names : Bool → List (Nat × Nat))
  (ρ : LProfile α)
  (hout : gi.outcomes = tbl.map (fun e => (e.1, e.2.1)))
  (hn1 : gi.namesOne = names true) (hn2 : gi.namesTwo = names false)
include hout hn1 hn2

theorem nodePayoff_eq {oc : Nat} {np : α} (h : nodePayoff gi oc = .ok np) :
    np = (outcomePair tbl oc).1 := by
  unfold nodePayoff at h
  unfold outcomePair
  split_ifs at h ⊢ with h0
  · cases h; rfl
  · rw [hout, assocFind_map_fst] at h
    cases hf : assocFind tbl oc with
    | none => simp [hf] at h
    | some q =>
      simp only [hf, Option.map_some] at h
      cases h
      rfl

mutual
theorem ev_of_toRaw : ∀ (n : Efg α) (cum : α) (r : Raw α), Efg.toRaw gi n cum = .ok r →
    EfgValid names ρ n → rawEV ρ r = efgEV tbl names ρ true n cum - gi.sum
  | .term oc pays, cum, r, h, hv => by
    simp only [Efg.toRaw] at h
    simp only [EfgValid] at hv
    rw [hout, assocFind_map_fst] at h
    cases hf : assocFind tbl oc with
    | none => simp [hf] at h
    | some q =>
      simp only [hf, Option.map_some] at h
      cases h
      simp [rawEV, efgEV, outcomePair, hv, hf]
  | .chance info nm probs kids oc pays, cum, r, h, hv => by
    simp only [Efg.toRaw] at h
    simp only [EfgValid] at hv
    obtain ⟨hl1, hl2, htot, hvk⟩ := hv
    split at h
    · cases h
    · rename_i np hnp
      split at h
      · cases h
      · rename_i rs hrs
        cases h
        have hl := toRawL_length gi kids _ rs hrs
        have hnp' := nodePayoff_eq gi tbl names hout hn1 hn2 hnp
        have ih := evL_of_toRawL kids _ rs hrs hvk
        have hperm := sortBy_perm (outcomeLt (α := α) (β := Raw α)) (zip3 nm probs rs)
        have hws : ((sortBy outcomeLt (zip3 nm probs rs)).map (·.2.1)).sum = probs.sum := by
          rw [(hperm.map (·.2.1)).sum_eq, zip3_map_probs _ _ _ (by omega) (by omega)]
        simp only [rawEV, efgEV, if_true]
        rw [rawEVC_map, hws,
          (hperm.map (fun e => e.2.1 / probs.sum * rawEV ρ e.2.2)).sum_eq]
        have e : (fun e : Nat × α × Raw α => e.2.1 / probs.sum * rawEV ρ e.2.2)
            = (fun e : α × Raw α => e.1 / probs.sum * rawEV ρ e.2) ∘ (·.2) := rfl
        rw [e, ← List.map_map, zip3_map_pair _ _ _ (by omega) (by omega),
          evC_sum tbl names ρ gi.sum true probs.sum _ kids rs ih probs hl2, sum_map_div,
          div_self htot, mul_one, hnp']
  | .player num info name acts kids oc pays, cum, r, h, hv => by
    simp only [Efg.toRaw] at h
    simp only [EfgValid] at hv
    obtain ⟨hl1, hsum, hvk⟩ := hv
    split at h
    · cases h
    · rename_i hnum
      split at h
      · cases h
      · rename_i np hnp
        split at h
        · cases h
        · rename_i label hlab
          split at h
          · cases h
          · rename_i rs hrs
            cases h
            have hl := toRawL_length gi kids _ rs hrs
            have hnp' := nodePayoff_eq gi tbl names hout hn1 hn2 hnp
            have ih := evL_of_toRawL kids _ rs hrs hvk
            have hperm := sortBy_perm (actionLt (β := Raw α)) (acts.zip rs)
            have hlab' : (assocFind (names (num == 1)) info).getD 0 = label := by
              by_cases h1 : num = 1
              · subst h1
                simp only [if_true] at hlab
                simp [← hn1, hlab]
              · rw [if_neg h1] at hlab
                have : (num == 1) = false := by simpa using h1
                simp [this, ← hn2, hlab]
            simp only [rawEV, efgEV, if_true]
            rw [rawEVP_map, (hperm.map (fun e => ρ (num == 1) label e.1 * rawEV ρ e.2)).sum_eq,
              hlab', evP_sum tbl names ρ gi.sum true (num == 1) label _ kids rs ih acts hl1,
              ← hlab', hsum, mul_one, hnp']
theorem evL_of_toRawL : ∀ (ks : List (Efg α)) (cum : α) (rs : List (Raw α)),
    Efg.toRawL gi ks cum = .ok rs → EfgValidL names ρ ks →
    List.Forall₂ (fun k r => rawEV ρ r = efgEV tbl names ρ true k cum - gi.sum) ks rs
  | [], cum, rs, h, _ => by
    simp only [Efg.toRawL] at h
    cases h
    exact List.Forall₂.nil
  | k :: ks, cum, rs, h, hv => by
    simp only [Efg.toRawL] at h
    simp only [EfgValidL] at hv
    split at h
    · cases h
    · rename_i r0 hr0
      split at h
      · cases h
      · rename_i rs0 hrs0
        cases h
        exact List.Forall₂.cons (ev_of_toRaw k cum r0 hr0 hv.1) (evL_of_toRawL ks cum rs0 hrs0 hv.2)
end

end conv

/-! ## the terminals' cumulative pairs -/

theorem stepCum_eq {tbl : List (Nat × (α × α))} {oc : Nat} {c c' : α × α}
    (h : stepCum tbl oc c = .ok c') :
    c' = (c.1 + (outcomePair tbl oc).1, c.2 + (outcomePair tbl oc).2) := by
  unfold stepCum at h
  unfold outcomePair
  split_ifs at h ⊢ with h0
  · cases h; simp
  · cases hf : assocFind tbl oc with
    | none => simp [hf] at h
    | some q =>
      simp only [hf] at h
      cases h
      rfl

section leaves
variable (tbl : List (Nat × (α × α))) (names : Bool → List (Nat × Nat)) (ρ : LProfile α)

mutual
theorem leaves_ne : ∀ (n : Efg α) (c : α × α) (ls : List (α × α)), Efg.leaves tbl n c = .ok ls →
    EfgValid names ρ n → ls ≠ []
  | .term oc pays, c, ls, h, _ => by
    simp only [Efg.leaves] at h
    split at h
    · cases h
    · simp only [isFinite_exact, if_true] at h
      cases h
      simp
  | .chance info nm probs kids oc pays, c, ls, h, hv => by
    simp only [Efg.leaves] at h
    simp only [EfgValid] at hv
    split at h
    · cases h
    · refine leavesL_ne kids _ ls h hv.2.2.2 ?_
      rintro rfl
      have : probs = [] := List.eq_nil_of_length_eq_zero (by simpa using hv.2.1)
      subst this
      exact hv.2.2.1 rfl
  | .player num info name acts kids oc pays, c, ls, h, hv => by
    simp only [Efg.leaves] at h
    simp only [EfgValid] at hv
    split at h
    · cases h
    · refine leavesL_ne kids _ ls h hv.2.2 ?_
      rintro rfl
      have : acts = [] := List.eq_nil_of_length_eq_zero (by simpa using hv.1)
      subst this
      simp at hv
theorem leavesL_ne : ∀ (ks : List (Efg α)) (c : α × α) (ls : List (α × α)),
    Efg.leavesL tbl ks c = .ok ls → EfgValidL names ρ ks → ks ≠ [] → ls ≠ []
  | [], c, ls, _, _, hne => absurd rfl hne
  | k :: ks, c, ls, h, hv, _ => by
    simp only [Efg.leavesL] at h
    simp only [EfgValidL] at hv
    split at h
    · cases h
    · split at h
      · cases h
      · rename_i b hb
        cases h
        have := leaves_ne k c b hb hv.1
        simp [this]
end

mutual
theorem pair_of_leaves (K : α) : ∀ (n : Efg α) (c : α × α) (ls : List (α × α)),
    Efg.leaves tbl n c = .ok ls → (∀ x ∈ ls, x.1 + x.2 = K) → EfgValid names ρ n →
    efgEV tbl names ρ true n c.1 + efgEV tbl names ρ false n c.2 = K
  | .term oc pays, c, ls, h, hK, hv => by
    simp only [Efg.leaves] at h
    simp only [EfgValid] at hv
    cases hf : assocFind tbl oc with
    | none => simp [hf] at h
    | some q =>
      simp only [hf, isFinite_exact, if_true] at h
      cases h
      have := hK _ (List.mem_singleton_self _)
      simp only [addPays] at this
      simp only [efgEV, outcomePair, hv, hf, if_true, if_false, Option.getD_some,
        Bool.false_eq_true]
      linarith
  | .chance info nm probs kids oc pays, c, ls, h, hK, hv => by
    simp only [Efg.leaves] at h
    simp only [EfgValid] at hv
    obtain ⟨_, hl2, htot, hvk⟩ := hv
    split at h
    · cases h
    · rename_i c' hc'
      have hc := stepCum_eq hc'
      subst hc
      have ih := pairL_of_leavesL K kids _ ls h hK hvk
      simp only [efgEV, if_true, Bool.false_eq_true, if_false]
      rw [evC_pair tbl names ρ probs.sum _ _ K kids probs ih hl2, sum_map_div, div_self htot,
        mul_one]
  | .player num info name acts kids oc pays, c, ls, h, hK, hv => by
    simp only [Efg.leaves] at h
    simp only [EfgValid] at hv
    obtain ⟨hl1, hsum, hvk⟩ := hv
    split at h
    · cases h
    · rename_i c' hc'
      have hc := stepCum_eq hc'
      subst hc
      have ih := pairL_of_leavesL K kids _ ls h hK hvk
      simp only [efgEV, if_true, Bool.false_eq_true, if_false]
      rw [evP_pair tbl names ρ _ _ _ _ K kids acts ih hl1, hsum, mul_one]
theorem pairL_of_leavesL (K : α) : ∀ (ks : List (Efg α)) (c : α × α) (ls : List (α × α)),
    Efg.leavesL tbl ks c = .ok ls → (∀ x ∈ ls, x.1 + x.2 = K) → EfgValidL names ρ ks →
    ∀ k ∈ ks, efgEV tbl names ρ true k c.1 + efgEV tbl names ρ false k c.2 = K
  | [], c, ls, _, _, _, k, hk => by simp at hk
  | k0 :: ks, c, ls, h, hK, hv, k, hk => by
    simp only [Efg.leavesL] at h
    simp only [EfgValidL] at hv
    split at h
    · cases h
    · rename_i a ha
      split at h
      · cases h
      · rename_i b hb
        cases h
        simp only [List.mem_cons] at hk
        rcases hk with rfl | hk
        · exact pair_of_leaves K k c b hb (fun x hx => hK x (by simp [hx])) hv.1
        · exact pairL_of_leavesL K ks c a ha (fun x hx => hK x (by simp [hx])) hv.2 k hk
end

end leaves

/-! ## the offset of an exactly constant-sum file -/

theorem foldl_fmin_const (a : α) (xs : List α) (h : ∀ x ∈ xs, x = a) : xs.foldl fmin a = a := by
  induction xs with
  | nil => rfl
  | cons x xs ih =>
    have hx : x = a := h x (by simp)
    subst hx
    simp only [List.foldl_cons, fmin_eq_min, min_self]
    exact ih (fun y hy => h y (by simp [hy]))

theorem foldl_fmax_const (a : α) (xs : List α) (h : ∀ x ∈ xs, x = a) : xs.foldl fmax a = a := by
  induction xs with
  | nil => rfl
  | cons x xs ih =>
    have hx : x = a := h x (by simp)
    subst hx
    simp only [List.foldl_cons, fmax_eq_max, max_self]
    exact ih (fun y hy => h y (by simp [hy]))

theorem constantSum_exact (ls : List (α × α)) (K : α) (hne : ls ≠ [])
    (hK : ∀ c ∈ ls, c.1 + c.2 = K) : constantSum ls = K / 2 := by
  have hall : ∀ x ∈ ls.map pairSum, x = K / 2 := by
    intro x hx
    obtain ⟨c, hc, rfl⟩ := List.mem_map.mp hx
    have := hK c hc
    unfold pairSum
    rw [one_add_one_eq_two]
    linarith
  unfold constantSum
  simp only
  cases hs : ls.map pairSum with
  | nil => simp at hs; exact absurd hs hne
  | cons s ss =>
    rw [hs] at hall
    have h0 : s = K / 2 := hall s (by simp)
    subst h0
    have hmin : minOf (K / 2 :: ss) = K / 2 :=
      foldl_fmin_const _ ss (fun x hx => hall x (by simp [hx]))
    have hmax : maxOf (K / 2 :: ss) = K / 2 :=
      foldl_fmax_const _ ss (fun x hx => hall x (by simp [hx]))
    rw [hmin, hmax]
    simp

/-! ## `get_global_info` and `from_str` unfolded -/

theorem getGlobalInfo_ok {numName : Nat → Nat} {root : Efg α} {t : Tables α}
    {n1 n2 : List (Nat × Nat)} {gi : GlobalInfo α}
    (ht : Tables.run ({} : Tables α) root.visits = .ok t)
    (h1 : t.one.resolve numName = .ok n1) (h2 : t.two.resolve numName = .ok n2)
    (h : getGlobalInfo numName root = .ok gi) :
    ∃ ls, Efg.leaves t.outcomes root (0, 0) = .ok ls ∧
      gi = ⟨n1, n2, t.outcomes.map (fun e => (e.1, e.2.1)), constantSum ls⟩ := by
  unfold getGlobalInfo at h
  rw [ht] at h
  simp only [h1, h2] at h
  split at h
  · cases h
  · rename_i ls hls
    split_ifs at h
    cases h
    exact ⟨ls, hls, rfl⟩

theorem gambitRaw_ok {numName : Nat → Nat} {f : EfgFile α} {raw : Raw α} {sum : α}
    (h : gambitRaw numName f = .ok (raw, sum)) :
    ∃ gi, getGlobalInfo numName f.root = .ok gi ∧ Efg.toRaw gi f.root 0 = .ok raw ∧
      sum = gi.sum := by
  unfold gambitRaw at h
  split_ifs at h
  split at h
  · cases h
  · rename_i gi hgi
    split at h
    · cases h
    · rename_i raw' hr
      cases h
      exact ⟨gi, hgi, hr, rfl⟩

/-- `gambit_file_semantics` at every ordered field -/
theorem gambit_semantics (numName : Nat → Nat) (f : EfgFile α) (hshape : f.root.ShapeOK)
    (hfile : f.root.FileOK)
    (t : Tables α) (n1 n2 : List (Nat × Nat)) (raw : Raw α) (sum K : α)
    (ht : Tables.run ({} : Tables α) f.root.visits = .ok t)
    (h1 : t.one.resolve numName = .ok n1) (h2 : t.two.resolve numName = .ok n2)
    (hraw : gambitRaw numName f = .ok (raw, sum))
    (hK : ExactConstantSum t.outcomes f.root K)
    (ρ : LProfile α) (hρ : LValidOn ρ raw) :
    sum = K / 2 ∧
    rawEV ρ raw = efgEV t.outcomes (fun o => if o then n1 else n2) ρ true f.root 0 - K / 2 ∧
    efgEV t.outcomes (fun o => if o then n1 else n2) ρ false f.root 0
      = K - efgEV t.outcomes (fun o => if o then n1 else n2) ρ true f.root 0 := by
  obtain ⟨gi, hgi, hr, rfl⟩ := gambitRaw_ok hraw
  obtain ⟨ls, hls, rfl⟩ := getGlobalInfo_ok ht h1 h2 hgi
  have hv := valid_of_toRaw _ (fun o => if o then n1 else n2) ρ rfl rfl f.root 0 raw hr hshape
    hfile hρ
  have hne := leaves_ne t.outcomes _ ρ f.root (0, 0) ls hls hv
  have hsum : constantSum ls = K / 2 := constantSum_exact ls K hne (hK ls hls)
  have hev := ev_of_toRaw _ t.outcomes (fun o => if o then n1 else n2) ρ rfl rfl rfl f.root 0 raw
    hr hv
  have hpair := pair_of_leaves t.outcomes _ ρ K f.root (0, 0) ls hls (hK ls hls) hv
  simp only at hev hpair hsum ⊢
  refine ⟨hsum, ?_, ?_⟩
  · rw [hev, hsum]
  · linarith

end CliP
end Cfr
