import CfrVerif.Proofs.CliLemmas
/-!
# Helper lemmas for C17: the trees the two readers hand to `from_root` have `Raw.Shape`
-/
set_option linter.unusedSectionVars false
set_option linter.unusedVariables false
namespace Cfr.Rej

/-! ## `sortBy`, `zip3` -/

theorem length_insertBy {β : Type} (lt : β → β → Bool) (x : β) (l : List β) :
    (insertBy lt x l).length = l.length + 1 := by
  induction l with
  | nil => simp [insertBy]
  | cons y ys ih =>
    simp only [insertBy]
    split <;> simp [ih]

theorem length_sortBy {β : Type} (lt : β → β → Bool) (l : List β) :
    (sortBy lt l).length = l.length := by
  induction l with
  | nil => simp [sortBy]
  | cons y ys ih =>
    have : sortBy lt (y :: ys) = insertBy lt y (sortBy lt ys) := by simp [sortBy]
    rw [this, length_insertBy, ih]; simp

theorem mem_insertBy {β : Type} (lt : β → β → Bool) (x y : β) (l : List β) :
    y ∈ insertBy lt x l → y = x ∨ y ∈ l := by
  induction l with
  | nil => simp [insertBy]
  | cons z zs ih =>
    simp only [insertBy]
    split
    · intro h
      rcases List.mem_cons.1 h with h | h
      · exact Or.inr (h ▸ List.mem_cons_self)
      · rcases ih h with h | h
        · exact Or.inl h
        · exact Or.inr (List.mem_cons_of_mem _ h)
    · intro h
      rcases List.mem_cons.1 h with h | h
      · exact Or.inl h
      · exact Or.inr h

theorem mem_sortBy {β : Type} (lt : β → β → Bool) (y : β) (l : List β) :
    y ∈ sortBy lt l → y ∈ l := by
  induction l with
  | nil => simp [sortBy]
  | cons z zs ih =>
    have : sortBy lt (z :: zs) = insertBy lt z (sortBy lt zs) := by simp [sortBy]
    rw [this]
    intro h
    rcases mem_insertBy lt z y _ h with h | h
    · exact h ▸ List.mem_cons_self
    · exact List.mem_cons_of_mem _ (ih h)

theorem length_zip3 {β γ δ : Type} (n : Nat) :
    ∀ (a : List β) (b : List γ) (c : List δ), a.length = n → b.length = n → c.length = n →
      (zip3 a b c).length = n := by
  induction n with
  | zero =>
    intro a b c ha hb hc
    cases a with
    | nil => simp [zip3]
    | cons _ _ => simp at ha
  | succ n ih =>
    intro a b c ha hb hc
    cases a with
    | nil => simp at ha
    | cons x xs =>
      cases b with
      | nil => simp at hb
      | cons y ys =>
        cases c with
        | nil => simp at hc
        | cons z zs =>
          simp only [zip3, List.length_cons] at *
          rw [ih xs ys zs (by omega) (by omega) (by omega)]

theorem mem_zip3 {β γ δ : Type} (e : β × γ × δ) :
    ∀ (a : List β) (b : List γ) (c : List δ), e ∈ zip3 a b c → e.2.2 ∈ c := by
  intro a
  induction a with
  | nil => intro b c h; simp [zip3] at h
  | cons x xs ih =>
    intro b c h
    cases b with
    | nil => simp [zip3] at h
    | cons y ys =>
      cases c with
      | nil => simp [zip3] at h
      | cons z zs =>
        simp only [zip3] at h
        rcases List.mem_cons.1 h with h | h
        · subst h; exact List.mem_cons_self
        · exact List.mem_cons_of_mem _ (ih ys zs h)

/-! ## `Raw.ShapeL` by membership -/

theorem shapeL_iff {α : Type} (l : List (Raw α)) : Raw.ShapeL l ↔ ∀ r ∈ l, Raw.Shape r := by
  induction l with
  | nil => simp [Raw.ShapeL]
  | cons k ks ih => simp [Raw.ShapeL, ih]

/-- the chance node built from sorted triples -/
theorem shape_chance {α : Type} (lt : (Nat × α × Raw α) → (Nat × α × Raw α) → Bool)
    (info : Option Nat) (names : List Nat) (probs : List α) (rs : List (Raw α))
    (h1 : names.length = rs.length) (h2 : probs.length = rs.length) (hs : Raw.ShapeL rs) :
    Raw.Shape (.chance info ((sortBy lt (zip3 names probs rs)).map (·.2.1))
      ((sortBy lt (zip3 names probs rs)).map (·.2.2))) := by
  simp only [Raw.Shape, List.length_map, true_and]
  rw [shapeL_iff]
  intro r hr
  obtain ⟨e, he, rfl⟩ := List.mem_map.1 hr
  exact (shapeL_iff rs).1 hs _ (mem_zip3 e _ _ _ (mem_sortBy lt e _ he))

/-- the player node built from sorted pairs -/
theorem shape_player {α : Type} (lt : (Nat × Raw α) → (Nat × Raw α) → Bool)
    (one : Bool) (info : Nat) (acts : List Nat) (rs : List (Raw α))
    (hs : Raw.ShapeL rs) :
    Raw.Shape (.player one info ((sortBy lt (acts.zip rs)).map (·.1))
      ((sortBy lt (acts.zip rs)).map (·.2))) := by
  simp only [Raw.Shape, List.length_map, true_and]
  rw [shapeL_iff]
  intro r hr
  obtain ⟨e, he, rfl⟩ := List.mem_map.1 hr
  have := mem_sortBy lt e _ he
  exact (shapeL_iff rs).1 hs _ (List.of_mem_zip (a := e.1) (b := e.2) this).2

section conversion
variable {α : Type} [Zero α] [One α] [Add α] [Sub α] [Mul α] [Div α]
  [LT α] [DecidableLT α] [BEq α] [NatCast α] [FloatLike α]

/-! ## the JSON reader -/

mutual
theorem jshape : (s : JState α) → s.ShapeOK → Raw.Shape s.toRaw
  | .terminal p, _ => by simp [JState.toRaw, Raw.Shape]
  | .chance info names probs kids, h => by
    obtain ⟨h1, h2, h3⟩ := (by simpa [JState.ShapeOK] using h :
      names.length = kids.length ∧ probs.length = kids.length ∧ JState.ShapeOKL kids)
    obtain ⟨hs, hl⟩ := jshapeL kids h3
    simp only [JState.toRaw]
    exact shape_chance _ _ _ _ _ (by omega) (by omega) hs
  | .player one info acts kids, h => by
    obtain ⟨h1, h3⟩ := (by simpa [JState.ShapeOK] using h :
      acts.length = kids.length ∧ JState.ShapeOKL kids)
    obtain ⟨hs, hl⟩ := jshapeL kids h3
    simp only [JState.toRaw]
    exact shape_player _ _ _ _ _ hs
theorem jshapeL : (l : List (JState α)) → JState.ShapeOKL l →
    Raw.ShapeL (JState.toRawL l) ∧ (JState.toRawL l).length = l.length
  | [], _ => by simp [JState.toRawL, Raw.ShapeL]
  | k :: ks, h => by
    obtain ⟨h1, h2⟩ := (by simpa [JState.ShapeOKL] using h : k.ShapeOK ∧ JState.ShapeOKL ks)
    obtain ⟨hs, hl⟩ := jshapeL ks h2
    simp only [JState.toRawL, Raw.ShapeL, List.length_cons]
    exact ⟨⟨jshape k h1, hs⟩, by omega⟩
end

/-! ## the Gambit reader -/

mutual
theorem eshape (gi : GlobalInfo α) : (n : Efg α) → n.ShapeOK → ∀ cum r,
    Efg.toRaw gi n cum = .ok r → Raw.Shape r
  | .term oc pays, _, cum, r, hr => by
    simp only [Efg.toRaw] at hr
    split at hr
    · cases hr
    · cases hr; simp [Raw.Shape]
  | .chance info names probs kids oc pays, h, cum, r, hr => by
    obtain ⟨h1, h2, h3⟩ := (by simpa [Efg.ShapeOK] using h :
      names.length = kids.length ∧ probs.length = kids.length ∧ Efg.ShapeOKL kids)
    simp only [Efg.toRaw] at hr
    split at hr
    · cases hr
    · split at hr
      · cases hr
      · rename_i rs hrs
        obtain ⟨hs, hl⟩ := eshapeL gi kids h3 _ _ hrs
        cases hr
        exact shape_chance _ _ _ _ _ (by omega) (by omega) hs
  | .player num info name acts kids oc pays, h, cum, r, hr => by
    obtain ⟨h1, h3⟩ := (by simpa [Efg.ShapeOK] using h :
      acts.length = kids.length ∧ Efg.ShapeOKL kids)
    simp only [Efg.toRaw] at hr
    split at hr
    · cases hr
    · split at hr
      · cases hr
      · split at hr
        · cases hr
        · split at hr
          · cases hr
          · rename_i rs hrs
            obtain ⟨hs, hl⟩ := eshapeL gi kids h3 _ _ hrs
            cases hr
            exact shape_player _ _ _ _ _ hs
theorem eshapeL (gi : GlobalInfo α) : (l : List (Efg α)) → Efg.ShapeOKL l → ∀ cum rs,
    Efg.toRawL gi l cum = .ok rs → Raw.ShapeL rs ∧ rs.length = l.length
  | [], _, cum, rs, hr => by
    simp only [Efg.toRawL] at hr
    cases hr; simp [Raw.ShapeL]
  | k :: ks, h, cum, rs, hr => by
    obtain ⟨h1, h2⟩ := (by simpa [Efg.ShapeOKL] using h : k.ShapeOK ∧ Efg.ShapeOKL ks)
    simp only [Efg.toRawL] at hr
    split at hr
    · cases hr
    · rename_i r hk
      split at hr
      · cases hr
      · rename_i rs' hks
        obtain ⟨hs, hl⟩ := eshapeL gi ks h2 _ _ hks
        cases hr
        simp only [Raw.ShapeL, List.length_cons]
        exact ⟨⟨eshape gi k h1 _ _ hk, hs⟩, by omega⟩
end

/-- what `gambitRaw` returns has the shape `from_root` iterates over -/
theorem gambitRaw_shape (numName : Nat → Nat) (f : EfgFile α) (hf : f.root.ShapeOK)
    (raw : Raw α) (sum : α) (h : gambitRaw numName f = .ok (raw, sum)) : Raw.Shape raw := by
  unfold gambitRaw at h
  split at h
  · cases h
  · split at h
    · cases h
    · rename_i gi _
      split at h
      · cases h
      · rename_i r hr
        cases h
        exact eshape gi f.root hf _ _ hr

end conversion
end Cfr.Rej

namespace Cfr.Rej
section conversion
variable {α : Type} [Zero α] [One α] [Add α] [Sub α] [Mul α] [Div α]
  [LT α] [DecidableLT α] [BEq α] [NatCast α] [FloatLike α]

/-! ## the checks of `get_global_info` in the order the code makes them -/

/-- `gambitRaw` on a two-player file whose tables were built: the four later stages -/
theorem gambitRaw_eq (numName : Nat → Nat) (f : EfgFile α) (hp : f.players = 2)
    (t : Tables α) (ht : Tables.run ({} : Tables α) f.root.visits = .ok t) :
    gambitRaw numName f =
      match t.one.resolve numName with
      | .error e => .error e
      | .ok n1 =>
        match t.two.resolve numName with
        | .error e => .error e
        | .ok n2 =>
          match Efg.leaves t.outcomes f.root (0, 0) with
          | .error e => .error e
          | .ok ls =>
            if notConstantSum ls then .error .notConstantSum else
            match Efg.toRaw ⟨n1, n2, t.outcomes.map (fun e => (e.1, e.2.1)), constantSum ls⟩
                f.root 0 with
            | .error e => .error e
            | .ok raw => .ok (raw, constantSum ls) := by
  unfold gambitRaw getGlobalInfo
  simp only [hp, ht, ne_eq, not_true_eq_false, if_false]
  rcases h1 : t.one.resolve numName with e | n1
  · simp
  · rcases h2 : t.two.resolve numName with e | n2
    · simp
    · rcases h3 : Efg.leaves t.outcomes f.root (0, 0) with e | ls
      · simp
      · by_cases h4 : notConstantSum ls = true
        · simp [h4]
        · simp only [h4]
          rcases h5 : Efg.toRaw ⟨n1, n2, t.outcomes.map (fun e => (e.1, e.2.1)), constantSum ls⟩
              f.root 0 with e | raw
          · simp [h5]
          · simp [h5]

theorem resolve_dup (numName : Nat → Nat) (p : PNames) (h : hasDupName p.given = true) :
    p.resolve numName = .error .duplicateInfosetName := by
  simp [PNames.resolve, h]

theorem resolve_error (numName : Nat → Nat) (p : PNames) (e : CliError)
    (h : p.resolve numName = .error e) : e = .duplicateInfosetName ∨ e = .numberNameClash := by
  unfold PNames.resolve at h
  split at h
  · cases h; exact Or.inl rfl
  · simp only at h
    split at h
    · cases h; exact Or.inr rfl
    · cases h

end conversion
end Cfr.Rej
