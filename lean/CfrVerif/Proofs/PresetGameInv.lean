import CfrVerif.Proofs.PresetSpec
import CfrVerif.Props.C02
/-!
# The run of the unsampled solver with general (discounting) parameters, cell by cell

`run g p draw t` is the state (and draw log) after `t` iterations.  `cell_step` describes one
accumulator cell through one iteration: add the instantaneous counterfactual regrets / the
reach-weighted strategy masses of the profile the iteration read, then discount; the next strategy
is matched on the pre-discount regrets.  `trace` packs the regret side of one infoset as an
`RMTrace`; `cumStrat_closed` is the average-strategy accumulator in closed form.
-/
set_option linter.unusedSectionVars false
set_option linter.unusedVariables false
namespace Cfr.PG
noncomputable section

/-! ## lists -/

theorem getD_range_map (n : ℕ) (f : ℕ → ℝ) (a : ℕ) (ha : a < n) :
    ((List.range n).map f).getD a 0 = f a := by
  simp [List.getD_eq_getElem?_getD, List.getElem?_map, List.getElem?_range ha]

theorem vadd_length (x y : List ℝ) : (vadd x y).length = min x.length y.length := by
  simp [vadd]

theorem vadd_getD (x y : List ℝ) (a : ℕ) (hx : a < x.length) (hy : a < y.length) :
    (vadd x y).getD a 0 = x.getD a 0 + y.getD a 0 := by
  simp [vadd, List.getD_eq_getElem?_getD, List.getElem?_zipWith, List.getElem?_eq_getElem hx,
    List.getElem?_eq_getElem hy]

/-- a vector that is entrywise `x + f` is `vadd x (tabulated f)` -/
theorem eq_vadd (n : ℕ) (x x' : List ℝ) (f : ℕ → ℝ) (hx : x.length = n) (hx' : x'.length = n)
    (h : ∀ a, a < n → x'.getD a 0 = x.getD a 0 + f a) :
    x' = vadd x ((List.range n).map f) := by
  apply list_ext_getD_r
  · rw [vadd_length, hx, hx']; simp
  · intro a ha
    rw [vadd_length, hx] at ha
    simp only [List.length_map, List.length_range, min_self] at ha
    rw [h a ha, vadd_getD _ _ _ (by rw [hx]; exact ha) (by simpa using ha), getD_range_map n f a ha]

theorem sum_list_range (n : ℕ) (f : ℕ → ℝ) :
    ((List.range n).map f).sum = ∑ i ∈ Finset.range n, f i := by
  induction n with
  | zero => simp
  | succ n ih =>
    rw [List.range_succ, List.map_append, List.sum_append, ih, Finset.sum_range_succ]
    simp

/-! ## the run -/

/-- state and draw log after `t` iterations of the unsampled solver -/
def run (g : Game ℝ) (p : RegretParams ℝ) (draw : DrawFn ℝ) : ℕ → SolveSt ℝ × List (DrawRec ℝ)
  | 0 => (SolveSt.init g, [])
  | t + 1 =>
    ((vanillaIter g false p draw (t + 1) (run g p draw t).1 (run g p draw t).2).1,
     (vanillaIter g false p draw (t + 1) (run g p draw t).1 (run g p draw t).2).2.2.2)

theorem run_zero (g : Game ℝ) (p : RegretParams ℝ) (draw : DrawFn ℝ) :
    run g p draw 0 = (SolveSt.init g, []) := rfl

theorem run_succ (g : Game ℝ) (p : RegretParams ℝ) (draw : DrawFn ℝ) (t : ℕ) :
    run g p draw (t + 1) =
      ((vanillaIter g false p draw (t + 1) (run g p draw t).1 (run g p draw t).2).1,
       (vanillaIter g false p draw (t + 1) (run g p draw t).1 (run g p draw t).2).2.2.2) := rfl

/-- without a threshold the loop performs all its iterations -/
theorem solveLoop_none_run (g : Game ℝ) (p : RegretParams ℝ) (draw : DrawFn ℝ) :
    ∀ (n t : ℕ) (r1 r2 : Ext ℝ),
      (solveLoop (vanillaIter g false p draw) none n (t + 1) (run g p draw t).1 r1 r2
          (run g p draw t).2).stratOne = (run g p draw (t + n)).1.avg true ∧
      (solveLoop (vanillaIter g false p draw) none n (t + 1) (run g p draw t).1 r1 r2
          (run g p draw t).2).stratTwo = (run g p draw (t + n)).1.avg false := by
  intro n
  induction n with
  | zero => intro t r1 r2; simp [solveLoop]
  | succ n ih =>
    intro t r1 r2
    rw [wf_solveLoop_succ]
    have hb : ∀ a b : ℝ, belowThreshold a b none = false := fun _ _ => rfl
    rw [hb]
    simp only [Bool.false_eq_true, if_false]
    have := ih (t + 1) (.fin (vanillaIter g false p draw (t + 1) (run g p draw t).1
      (run g p draw t).2).2.1) (.fin (vanillaIter g false p draw (t + 1) (run g p draw t).1
      (run g p draw t).2).2.2.1)
    rw [run_succ] at this
    rw [show t + (n + 1) = t + 1 + n by omega]
    exact this

theorem solve_profile (g : Game ℝ) (p : RegretParams ℝ) (draw : DrawFn ℝ) (T : ℕ) :
    (solveVanillaSingle g false p draw T none).profile = (run g p draw T).1.avg := by
  have := solveLoop_none_run g p draw T 0 .posInf .posInf
  simp only [zero_add, run_zero] at this
  funext one
  unfold solveVanillaSingle solveWith
  cases one
  · simp only [SolveOut.profile, Bool.false_eq_true, if_false]; exact this.2
  · simp only [SolveOut.profile, if_true]; exact this.1

theorem run_ok (g : Game ℝ) (hg : GameWF g) (p : RegretParams ℝ) (hp : 0 ≤ p.strat)
    (draw : DrawFn ℝ) : ∀ t, StOK g (run g p draw t).1
  | 0 => stOK_init g hg
  | t + 1 => (vanillaIter_ok g false p hp draw (t + 1) _ _ (run_ok g hg p hp draw t)).1

/-! ## one iteration, one cell -/

/-- instantaneous counterfactual regrets of infoset `I` under the profile `σ` -/
def rvec (g : Game ℝ) (σ : Profile ℝ) (me : Bool) (I : ℕ) : List ℝ :=
  (List.range (nActsOf g me I)).map (fun a => regAdd (σ me) I a (viewOf g σ me) 1)

/-- reach-weighted strategy masses of infoset `I` under the profile `σ` -/
def svec (g : Game ℝ) (σ : Profile ℝ) (me : Bool) (I : ℕ) : List ℝ :=
  (List.range (nActsOf g me I)).map (fun a => stratAdd (σ me) I a (viewOf g σ me) 1)

theorem vanillaIter_get (g : Game ℝ) (p : RegretParams ℝ) (draw : DrawFn ℝ) (it : ℕ)
    (s : SolveSt ℝ) (log : List (DrawRec ℝ)) (me : Bool) :
    (vanillaIter g false p draw it s log).1.get me
      = ((s.applyEffs (vrec ⟨g.chance, false, s.strat, draw, it - 1⟩ g.root 1 1 1
          { log := log }).2.1).get me).map (fun x => (x.advance p it it).1) := by
  simp only [vanillaIter]
  cases me
  · exact (advanceAll_spec p it it _ 0).1
  · exact (advanceAll_spec p it it _ 0).1

/-- what the traversal adds to the regret cells is the instantaneous counterfactual regret -/
theorem effSum_regret_eq (g : Game ℝ) (hg : GameWF g) (draw : DrawFn ℝ) (pass : ℕ) (s : SolveSt ℝ)
    (log : List (DrawRec ℝ)) (hs : StOK g s) (me : Bool) (I : ℕ) (x : InfoSt ℝ)
    (hx : (s.get me)[I]? = some x) (a : ℕ) (ha : a < nActsOf g me I) :
    effSum (vrec ⟨g.chance, false, s.strat, draw, pass⟩ g.root 1 1 1 { log := log }).2.1
        me I Slot.regret a
      = regAdd (s.profile me) I a (viewOf g s.profile me) 1 := by
  have hσ : ProfileOK g s.profile := stOK_profile g s hs
  have hctx := ctxOf_profile g s false draw pass
  obtain ⟨hI, hinfo⟩ := stOK_get g s hs me I x hx
  have hat := profile_at s me I x hx
  have hreg := vrec_full_regret ⟨g.chance, false, s.strat, draw, pass⟩ rfl s.profile hctx me g.root
    1 1 1 { log := log } I a (by rw [hat, hinfo.lenσ]; exact ha)
    (VOK.ownFits _ _ _ (profile_stratOK g _ hσ me).2.1 _ (viewOf_ok g hg _ hσ me))
  rw [hreg]
  have e1 : (1 : ℝ) * (if me = true then 1 else 1) = 1 := by simp
  rw [e1]

theorem effSum_strat_eq (g : Game ℝ) (hg : GameWF g) (draw : DrawFn ℝ) (pass : ℕ) (s : SolveSt ℝ)
    (log : List (DrawRec ℝ)) (hs : StOK g s) (me : Bool) (I : ℕ) (a : ℕ) :
    effSum (vrec ⟨g.chance, false, s.strat, draw, pass⟩ g.root 1 1 1 { log := log }).2.1
        me I Slot.strat a
      = stratAdd (s.profile me) I a (viewOf g s.profile me) 1 := by
  have hσ : ProfileOK g s.profile := stOK_profile g s hs
  have hctx := ctxOf_profile g s false draw pass
  have hstr := vrec_full_strat ⟨g.chance, false, s.strat, draw, pass⟩ rfl s.profile hctx me g.root
    1 1 1 { log := log } I a (VOK.natFits _ _ _ (viewOf_ok g hg _ hσ me))
  rw [hstr]
  have e1 : (if me = true then (1 : ℝ) else 1) = 1 := by simp
  rw [e1]

/-- **one cell through one iteration** -/
theorem cell_step (g : Game ℝ) (hg : GameWF g) (p : RegretParams ℝ) (draw : DrawFn ℝ) (it : ℕ)
    (s : SolveSt ℝ) (log : List (DrawRec ℝ)) (hs : StOK g s) (me : Bool) (I : ℕ) (x : InfoSt ℝ)
    (hx : (s.get me)[I]? = some x) :
    ∃ x'', ((vanillaIter g false p draw it s log).1.get me)[I]? = some x'' ∧
      x''.cumRegret = discountCumRegret p it (vadd x.cumRegret (rvec g s.profile me I)) ∧
      x''.cumStrat = discountAverageStrat p it (vadd x.cumStrat (svec g s.profile me I)) ∧
      x''.strat = regretMatch p.noPositive (vadd x.cumRegret (rvec g s.profile me I)) := by
  obtain ⟨hI, hinfo⟩ := stOK_get g s hs me I x hx
  obtain ⟨hl, hc⟩ := applyEffs_cell s (vrec ⟨g.chance, false, s.strat, draw, it - 1⟩ g.root 1 1 1
    { log := log }).2.1 me
  obtain ⟨x', g1, _, r2, t2, cr2, cs2⟩ := hc I x hx
  have eR : x'.cumRegret = vadd x.cumRegret (rvec g s.profile me I) := by
    apply eq_vadd (nActsOf g me I) _ _ _ hinfo.lenR (by rw [r2, hinfo.lenR])
    intro a ha
    rw [cr2 a (by rw [hinfo.lenR]; exact ha),
      effSum_regret_eq g hg draw (it - 1) s log hs me I x hx a ha]
  have eS : x'.cumStrat = vadd x.cumStrat (svec g s.profile me I) := by
    apply eq_vadd (nActsOf g me I) _ _ _ hinfo.lenS (by rw [t2, hinfo.lenS])
    intro a ha
    rw [cs2 a (by rw [hinfo.lenS]; exact ha), effSum_strat_eq g hg draw (it - 1) s log hs me I a]
  refine ⟨(x'.advance p it it).1, ?_, ?_, ?_, ?_⟩
  · rw [vanillaIter_get, List.getElem?_map, g1]; rfl
  · simp only [InfoSt.advance, eR]
  · simp only [InfoSt.advance, eS]
  · simp only [InfoSt.advance, eR]

/-! ## orthogonality of the new regrets to the positive part of the stored regrets -/

theorem discount_pos_part (p : RegretParams ℝ) (it : ℕ) (hit : 1 ≤ it) (Q : List ℝ) :
    (discountCumRegret p it Q).map (fun v => max v 0)
      = Q.map (fun r => max r 0 * genDiscount it p.posRegret) := by
  obtain ⟨f0, _⟩ := genDiscount_mem_unit it hit p.posRegret
  obtain ⟨g0, _⟩ := genDiscount_mem_unit it hit p.negRegret
  simp only [discountCumRegret, List.map_map]
  apply List.map_congr_left
  intro r _
  simp only [Function.comp]
  split_ifs with h1 h2
  · rw [max_eq_left h1.le, max_eq_left (mul_nonneg h1.le f0)]
  · have : r * genDiscount it p.negRegret ≤ 0 := by nlinarith
    rw [max_eq_right h2.le, max_eq_right this, zero_mul]
  · have : r = 0 := le_antisymm (not_lt.mp h1) (not_lt.mp h2)
    subst this; simp

theorem dot_map_mul (h : ℝ → ℝ) (c : ℝ) : ∀ (Q δ : List ℝ),
    dot (Q.map (fun r => h r * c)) δ = dot (Q.map h) δ * c
  | [], δ => by simp
  | q :: Q, [] => by simp
  | q :: Q, d :: δ => by
    simp only [List.map_cons, dot_cons_cons, dot_map_mul h c Q δ]; ring

theorem dot_map_zero (h : ℝ → ℝ) : ∀ (Q δ : List ℝ), (∀ x ∈ Q, h x = 0) → dot (Q.map h) δ = 0
  | [], δ, _ => by simp
  | q :: Q, [], _ => by simp
  | q :: Q, d :: δ, hq => by
    simp only [List.map_cons, dot_cons_cons, hq q (by simp),
      dot_map_zero h Q δ (fun x hx => hq x (by simp [hx]))]
    ring

/-- if `δ` is orthogonal to the strategy matched on `Q`, it is orthogonal to the positive part of
the discounted `Q` -/
theorem orth_advance (p : RegretParams ℝ) (it : ℕ) (hit : 1 ≤ it) (Q δ : List ℝ)
    (h : dot (regretMatch p.noPositive Q) δ = 0) :
    dot ((discountCumRegret p it Q).map (fun v => max v 0)) δ = 0 := by
  rw [discount_pos_part p it hit, dot_map_mul (fun r => max r 0)]
  by_cases hpos : ∃ x ∈ Q, 0 < x
  · rw [regretMatch_positive _ Q hpos] at h
    have hS := sum_map_pos_pos Q hpos
    have e : (fun r => pos r / (Q.map pos).sum) = (fun r => pos r * ((Q.map pos).sum)⁻¹) := by
      funext r; rw [div_eq_mul_inv]
    rw [e, dot_map_mul pos] at h
    have h' : dot (Q.map pos) δ = 0 := by
      rcases mul_eq_zero.mp h with h | h
      · exact h
      · exact absurd (inv_eq_zero.mp h) hS.ne'
    rw [show (fun r : ℝ => max r 0) = pos from rfl, h', zero_mul]
  · have h0 : ∀ x ∈ Q, max x 0 = 0 := by
      intro x hx
      apply max_eq_right
      by_contra hc
      exact hpos ⟨x, hx, not_le.mp hc⟩
    rw [dot_map_zero _ Q δ h0, zero_mul]

/-- the invariant of one cell that yields `RMTrace.horth` -/
def OrthOK (x : InfoSt ℝ) : Prop :=
  ∀ δ, dot x.strat δ = 0 → dot (x.cumRegret.map (fun v => max v 0)) δ = 0

theorem nActsOf_ge (g : Game ℝ) (me : Bool) (I : ℕ) (h : (g.infos me).length ≤ I) :
    nActsOf g me I = 0 := by
  simp [nActsOf, List.getD_eq_getElem?_getD, h]
  rfl

theorem run_length (g : Game ℝ) (hg : GameWF g) (p : RegretParams ℝ) (hp : 0 ≤ p.strat)
    (draw : DrawFn ℝ) (t : ℕ) (me : Bool) :
    ((run g p draw t).1.get me).length = (g.infos me).length :=
  stOK_length g _ (run_ok g hg p hp draw t) me

theorem init_cell (g : Game ℝ) (me : Bool) (I : ℕ) (x : InfoSt ℝ)
    (hx : ((SolveSt.init g).get me)[I]? = some x) : ∃ n, x = InfoSt.new n := by
  cases me <;>
    simp only [SolveSt.init, SolveSt.get, if_true, Bool.false_eq_true, if_false,
      List.getElem?_map] at hx <;>
    (obtain ⟨e, _, rfl⟩ := Option.map_eq_some_iff.mp hx
     exact ⟨_, rfl⟩)

/-- one cell from iteration `t` to iteration `t + 1` of the run -/
theorem run_cell_step (g : Game ℝ) (hg : GameWF g) (p : RegretParams ℝ) (hp : 0 ≤ p.strat)
    (draw : DrawFn ℝ) (t : ℕ) (me : Bool) (I : ℕ) (x x'' : InfoSt ℝ)
    (hx : ((run g p draw t).1.get me)[I]? = some x)
    (hx'' : ((run g p draw (t + 1)).1.get me)[I]? = some x'') :
    x''.cumRegret = discountCumRegret p (t + 1)
        (vadd x.cumRegret (rvec g (run g p draw t).1.profile me I)) ∧
    x''.cumStrat = discountAverageStrat p (t + 1)
        (vadd x.cumStrat (svec g (run g p draw t).1.profile me I)) ∧
    x''.strat = regretMatch p.noPositive
        (vadd x.cumRegret (rvec g (run g p draw t).1.profile me I)) := by
  obtain ⟨y, hy, e1, e2, e3⟩ := cell_step g hg p draw (t + 1) (run g p draw t).1 (run g p draw t).2
    (run_ok g hg p hp draw t) me I x hx
  rw [run_succ] at hx''
  rw [hy] at hx''
  obtain rfl : y = x'' := by simpa using hx''
  exact ⟨e1, e2, e3⟩

theorem run_orth (g : Game ℝ) (hg : GameWF g) (p : RegretParams ℝ) (hp : 0 ≤ p.strat)
    (draw : DrawFn ℝ) : ∀ (t : ℕ) (me : Bool) (I : ℕ) (x : InfoSt ℝ),
      ((run g p draw t).1.get me)[I]? = some x → OrthOK x
  | 0, me, I, x, hx => by
    obtain ⟨n, rfl⟩ := init_cell g me I x hx
    intro δ _
    apply dot_map_zero
    intro v hv
    simp only [InfoSt.new] at hv
    rw [List.eq_of_mem_replicate hv]; simp
  | t + 1, me, I, x'', hx'' => by
    have hI : I < ((run g p draw t).1.get me).length := by
      rw [run_length g hg p hp draw t me, ← run_length g hg p hp draw (t + 1) me]
      exact (List.getElem?_eq_some_iff.mp hx'').1
    obtain ⟨e1, _, e3⟩ := run_cell_step g hg p hp draw t me I _ x'' (List.getElem?_eq_getElem hI) hx''
    intro δ hδ
    rw [e1]
    rw [e3] at hδ
    exact orth_advance p (t + 1) (by omega) _ δ hδ

/-! ## the regret trace of one infoset -/

/-- stored cumulative regrets of infoset `I` after `t` iterations -/
def Qof (g : Game ℝ) (p : RegretParams ℝ) (draw : DrawFn ℝ) (me : Bool) (I t : ℕ) : List ℝ :=
  crOf ((run g p draw t).1.get me) I

/-- instantaneous regrets of infoset `I` in iteration `t ≥ 1` -/
def rof (g : Game ℝ) (p : RegretParams ℝ) (draw : DrawFn ℝ) (me : Bool) (I t : ℕ) : List ℝ :=
  rvec g (run g p draw (t - 1)).1.profile me I

theorem rof_length (g : Game ℝ) (p : RegretParams ℝ) (draw : DrawFn ℝ) (me : Bool) (I t : ℕ) :
    (rof g p draw me I t).length = nActsOf g me I := by
  simp [rof, rvec]

theorem crOf_ge (xs : List (InfoSt ℝ)) (I : ℕ) (h : xs.length ≤ I) : crOf xs I = [] := by
  simp [crOf, List.getD_eq_getElem?_getD, h]

theorem Qof_length (g : Game ℝ) (hg : GameWF g) (p : RegretParams ℝ) (hp : 0 ≤ p.strat)
    (draw : DrawFn ℝ) (me : Bool) (I t : ℕ) :
    (Qof g p draw me I t).length = nActsOf g me I := by
  unfold Qof
  by_cases hI : I < (g.infos me).length
  · have hI' : I < ((run g p draw t).1.get me).length := by rw [run_length g hg p hp]; exact hI
    have hx := List.getElem?_eq_getElem hI'
    rw [crOf_get _ _ _ hx]
    exact (stOK_get g _ (run_ok g hg p hp draw t) me I _ hx).2.lenR
  · have hge : (g.infos me).length ≤ I := not_lt.mp hI
    rw [crOf_ge _ _ (by rw [run_length g hg p hp]; exact hge), nActsOf_ge g me I hge]
    rfl

theorem Qof_zero (g : Game ℝ) (hg : GameWF g) (p : RegretParams ℝ) (hp : 0 ≤ p.strat)
    (draw : DrawFn ℝ) (me : Bool) (I : ℕ) :
    Qof g p draw me I 0 = List.replicate (nActsOf g me I) 0 := by
  have hl := Qof_length g hg p hp draw me I 0
  unfold Qof at hl ⊢
  by_cases hI : I < (g.infos me).length
  · have hI' : I < ((run g p draw 0).1.get me).length := by rw [run_length g hg p hp]; exact hI
    have hx := List.getElem?_eq_getElem hI'
    rw [crOf_get _ _ _ hx] at hl ⊢
    obtain ⟨n, hn⟩ := init_cell g me I _ hx
    rw [hn] at hl ⊢
    simp only [InfoSt.new, List.length_replicate] at hl ⊢
    rw [hl]
  · have hge : (g.infos me).length ≤ I := not_lt.mp hI
    rw [crOf_ge _ _ (by rw [run_length g hg p hp]; exact hge), nActsOf_ge g me I hge]
    rfl

theorem Qof_step (g : Game ℝ) (hg : GameWF g) (p : RegretParams ℝ) (hp : 0 ≤ p.strat)
    (draw : DrawFn ℝ) (me : Bool) (I t : ℕ) (ht : 1 ≤ t) :
    Qof g p draw me I t
      = discountCumRegret p t (vadd (Qof g p draw me I (t - 1)) (rof g p draw me I t)) := by
  obtain ⟨k, rfl⟩ : ∃ k, t = k + 1 := ⟨t - 1, by omega⟩
  simp only [Nat.add_sub_cancel]
  unfold Qof rof
  simp only [Nat.add_sub_cancel]
  by_cases hI : I < (g.infos me).length
  · have h1 : I < ((run g p draw k).1.get me).length := by rw [run_length g hg p hp]; exact hI
    have h2 : I < ((run g p draw (k + 1)).1.get me).length := by
      rw [run_length g hg p hp]; exact hI
    have hx := List.getElem?_eq_getElem h1
    have hx'' := List.getElem?_eq_getElem h2
    rw [crOf_get _ _ _ hx, crOf_get _ _ _ hx'']
    exact (run_cell_step g hg p hp draw k me I _ _ hx hx'').1
  · have hge : (g.infos me).length ≤ I := not_lt.mp hI
    rw [crOf_ge _ _ (by rw [run_length g hg p hp]; exact hge),
      crOf_ge _ _ (by rw [run_length g hg p hp]; exact hge)]
    simp [vadd, discountCumRegret]

theorem rof_bnd (g : Game ℝ) (hg : GameWF g) (p : RegretParams ℝ) (hp : 0 ≤ p.strat)
    (lo hi : ℝ) (hpay : PayIn lo hi g.root)
    (draw : DrawFn ℝ) (me : Bool) (I t : ℕ) : ∀ x ∈ rof g p draw me I t, |x| ≤ hi - lo := by
  intro v hv
  simp only [rof, rvec, List.mem_map, List.mem_range] at hv
  obtain ⟨a, ha, rfl⟩ := hv
  have hI : I < (g.infos me).length := by
    by_contra hc
    rw [nActsOf_ge g me I (not_lt.mp hc)] at ha
    exact absurd ha (Nat.not_lt_zero a)
  have h1 : I < ((run g p draw (t - 1)).1.get me).length := by
    rw [run_length g hg p hp]; exact hI
  have hx := List.getElem?_eq_getElem h1
  have hs := run_ok g hg p hp draw (t - 1)
  have := (vanilla_traversal g hg lo hi hpay false draw (by intro h; cases h) 0
    (run g p draw (t - 1)).1 hs [] me I _ hx).2 a
  rw [effSum_regret_eq g hg draw 0 _ [] hs me I _ hx a ha] at this
  exact this

theorem rof_orth (g : Game ℝ) (hg : GameWF g) (p : RegretParams ℝ) (hp : 0 ≤ p.strat)
    (lo hi : ℝ) (hpay : PayIn lo hi g.root)
    (draw : DrawFn ℝ) (me : Bool) (I t : ℕ) :
    dot ((Qof g p draw me I (t - 1)).map (fun x => max x 0)) (rof g p draw me I t) = 0 := by
  unfold Qof
  by_cases hI : I < (g.infos me).length
  · have h1 : I < ((run g p draw (t - 1)).1.get me).length := by
      rw [run_length g hg p hp]; exact hI
    have hx := List.getElem?_eq_getElem h1
    have hs := run_ok g hg p hp draw (t - 1)
    obtain ⟨_, hinfo⟩ := stOK_get g _ hs me I _ hx
    rw [crOf_get _ _ _ hx]
    apply run_orth g hg p hp draw (t - 1) me I _ hx
    have h0 := (vanilla_traversal g hg lo hi hpay false draw (by intro h; cases h) 0
      (run g p draw (t - 1)).1 hs [] me I _ hx).1
    have hl : (((run g p draw (t - 1)).1.get me)[I]).strat.length
        = (rof g p draw me I t).length := by rw [rof_length, hinfo.lenσ]
    rw [← sum_range_dot _ _ hl, ← hl]
    refine Eq.trans ?_ h0
    apply Finset.sum_congr rfl
    intro a ha
    have ha' : a < nActsOf g me I := by
      rw [← hinfo.lenσ]; exact Finset.mem_range.mp ha
    rw [effSum_regret_eq g hg draw 0 _ [] hs me I _ hx a ha']
    simp only [rof, rvec]
    rw [getD_range_map _ _ a ha']
  · have hge : (g.infos me).length ≤ I := not_lt.mp hI
    rw [crOf_ge _ _ (by rw [run_length g hg p hp]; exact hge)]
    simp

/-- **the regret-matching trace of infoset `I` of player `me`** -/
def trace (g : Game ℝ) (hg : GameWF g) (p : RegretParams ℝ) (hp : 0 ≤ p.strat)
    (lo hi : ℝ) (hpay : PayIn lo hi g.root) (draw : DrawFn ℝ) (T : ℕ) (me : Bool) (I : ℕ) :
    RMTrace p (nActsOf g me I) (hi - lo) T where
  r := rof g p draw me I
  Q := Qof g p draw me I
  hr := rof_length g p draw me I
  hQ := Qof_length g hg p hp draw me I
  hQ0 := Qof_zero g hg p hp draw me I
  hstep := fun t ht _ => Qof_step g hg p hp draw me I t ht
  hbnd := fun t _ _ => rof_bnd g hg p hp lo hi hpay draw me I t
  horth := fun t _ _ => rof_orth g hg p hp lo hi hpay draw me I t

/-! ## the average-strategy accumulator in closed form -/

/-- the weight `(k+1)^γ` with which iteration `k + 1` enters the average -/
def wgt (p : RegretParams ℝ) (k : ℕ) : ℝ := ((k + 1 : ℕ) : ℝ) ^ p.strat

theorem wgt_pos (p : RegretParams ℝ) (k : ℕ) : 0 < wgt p k :=
  Real.rpow_pos_of_pos (by positivity) _

theorem ratio_wgt (p : RegretParams ℝ) (t : ℕ) :
    (((t + 1 : ℕ) : ℝ) / (((t + 1 : ℕ) : ℝ) + 1)) ^ p.strat * wgt p (t + 1) = wgt p t := by
  have h1 : (0 : ℝ) ≤ ((t + 1 : ℕ) : ℝ) := by positivity
  have h2 : (0 : ℝ) ≤ ((t + 1 : ℕ) : ℝ) + 1 := by positivity
  have e : (((t + 1 + 1 : ℕ) : ℝ)) = ((t + 1 : ℕ) : ℝ) + 1 := by push_cast; ring
  unfold wgt
  rw [Real.div_rpow h1 h2, e]
  have h3 : (((t + 1 : ℕ) : ℝ) + 1) ^ p.strat ≠ 0 :=
    (Real.rpow_pos_of_pos (by positivity) _).ne'
  field_simp

/-- `cumStrat_t[a] · (t+1)^γ = Σ_{k<t} (k+1)^γ · stratAdd_k[a]` -/
theorem cumStrat_closed (g : Game ℝ) (hg : GameWF g) (p : RegretParams ℝ) (hp : 0 ≤ p.strat)
    (draw : DrawFn ℝ) : ∀ (t : ℕ) (me : Bool) (I : ℕ) (x : InfoSt ℝ),
      ((run g p draw t).1.get me)[I]? = some x → ∀ a, a < nActsOf g me I →
      x.cumStrat.getD a 0 * wgt p t
        = ((List.range t).map (fun k => wgt p k *
            stratAdd ((run g p draw k).1.profile me) I a
              (viewOf g (run g p draw k).1.profile me) 1)).sum
  | 0, me, I, x, hx, a, ha => by
    obtain ⟨n, rfl⟩ := init_cell g me I x hx
    simp only [InfoSt.new, List.getD_eq_getElem?_getD, List.getElem?_replicate, List.range_zero,
      List.map_nil, List.sum_nil]
    split_ifs <;> simp
  | t + 1, me, I, x'', hx'', a, ha => by
    have hI : I < ((run g p draw t).1.get me).length := by
      rw [run_length g hg p hp draw t me, ← run_length g hg p hp draw (t + 1) me]
      exact (List.getElem?_eq_some_iff.mp hx'').1
    have hx := List.getElem?_eq_getElem hI
    obtain ⟨_, e2, _⟩ := run_cell_step g hg p hp draw t me I _ x'' hx hx''
    obtain ⟨_, hinfo⟩ := stOK_get g _ (run_ok g hg p hp draw t) me I _ hx
    have ih := cumStrat_closed g hg p hp draw t me I _ hx a ha
    generalize ((run g p draw t).1.get me)[I] = x at hx e2 hinfo ih
    have hsl : (svec g (run g p draw t).1.profile me I).length = nActsOf g me I := by
      simp [svec]
    have hvl : a < (vadd x.cumStrat (svec g (run g p draw t).1.profile me I)).length := by
      rw [vadd_length, hsl, hinfo.lenS]; simpa using ha
    rw [e2, discountAverageStrat_entry p hp, getD_map_lt _ _ a hvl,
      vadd_getD _ _ a (by rw [hinfo.lenS]; exact ha) (by rw [hsl]; exact ha)]
    simp only [svec]
    rw [getD_range_map _ _ a ha, List.range_succ, List.map_append, List.sum_append, ← ih,
      mul_assoc, ratio_wgt]
    simp only [List.map_cons, List.map_nil, List.sum_cons, List.sum_nil]
    ring

end
end Cfr.PG
