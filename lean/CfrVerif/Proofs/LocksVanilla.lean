import CfrVerif.Model.LocksVanilla
import CfrVerif.Proofs.LocksCheck
/-!
# The mutexes of the multi-threaded full / chance-sampled solver (`src/solve/vanilla.rs`)

`Model/LocksVanilla.lean` has what a traversal does to the mutexes (`vtrace`).  Here:

* `vtrace_pairs`        : every trace is a sequence of `lock(); unlock()` pairs on one mutex each
                          (no `try_lock`, nothing held across another operation);
* `vanilla_tasks_poolOK`: hence the traces of *any* set of tasks (any split of the tree into
                          subtrees, any draw states) pass the checker `poolOKb`, i.e. lie inside the
                          hypotheses `Lk.PoolOK` of the interleaving theorems;
* `vanilla_pool_never_deadlocks` : under every thread schedule no reachable configuration is a
                          deadlock or a panic, every schedule ends, all mutexes are free at the end;
* `vtrace_draws_eq_vrec`: the trace is that of the traversal the effect theorems are about: it
                          makes the same draws as `vrec`;
* `vtrace_acqCount`     : the mutex of a player infoset is taken exactly once per visited node of
                          that infoset (this is what the harness compares with the crate's log).
-/
set_option linter.unusedSectionVars false
namespace Cfr

/-- a sequence of leaf critical sections: `lock(l); unlock(l)` pairs -/
inductive LockPairs : List LEv → Prop where
  | nil : LockPairs []
  | cons (l : LockId) {t : List LEv} (h : LockPairs t) : LockPairs (.acq l :: .rel l :: t)

section
variable {α : Type} [Zero α] [One α] [Add α] [Sub α] [Mul α] [Div α] [Neg α]
  [LT α] [DecidableLT α] [BEq α] [NatCast α] [FloatLike α] [Transc α]

theorem LockPairs.append {s t : List LEv} (hs : LockPairs s) (ht : LockPairs t) : LockPairs (s ++ t) := by
  induction hs with
  | nil => simpa using ht
  | cons l _ ih => exact LockPairs.cons l ih

theorem LockPairs.leafCSb {t : List LEv} (h : LockPairs t) : leafCSb t = true := by
  induction h with
  | nil => rfl
  | cons l _ ih => simp [Cfr.leafCSb, ih]

theorem LockPairs.relOKb {t : List LEv} (h : LockPairs t) : relOKb t = true := by
  induction h with
  | nil => rfl
  | cons l _ ih => simp [Cfr.relOKb, ih]

theorem LockPairs.tryLocksOf {t : List LEv} (h : LockPairs t) : tryLocksOf t = [] := by
  induction h with
  | nil => rfl
  | cons l _ ih => simp [Cfr.tryLocksOf, ih]

mutual
theorem vtrace_pairs' (c : VCtx α) : ∀ (n : Node α) (d : DrawSt α), LockPairs (vtrace c n d).1
  | .term _, d => by simp only [vtrace]; exact LockPairs.nil
  | .chance i ks, d => by
    by_cases hs : c.sampled = true
    · simp only [vtrace, if_pos hs]
      exact LockPairs.cons _ (vtraceNth_pairs c ks _ _)
    · simp only [vtrace, if_neg hs]
      exact vtraceChance_pairs c _ ks d
  | .player one i ks, d => by
    simp only [vtrace]
    exact LockPairs.cons _ (vtraceActs_pairs c _ ks d)
theorem vtraceNth_pairs (c : VCtx α) : ∀ (ks : List (Node α)) (k : Nat) (d : DrawSt α),
    LockPairs (vtraceNth c ks k d).1
  | [], _, d => by simp only [vtraceNth]; exact LockPairs.nil
  | k :: _, 0, d => by simp only [vtraceNth]; exact vtrace_pairs' c k d
  | _ :: ks, n + 1, d => by simp only [vtraceNth]; exact vtraceNth_pairs c ks n d
theorem vtraceChance_pairs (c : VCtx α) : ∀ (ps : List α) (ks : List (Node α)) (d : DrawSt α),
    LockPairs (vtraceChance c ps ks d).1
  | _ :: ps, k :: ks, d => by
    simp only [vtraceChance]
    exact (vtrace_pairs' c k d).append (vtraceChance_pairs c ps ks _)
  | [], _, d => by simp only [vtraceChance]; exact LockPairs.nil
  | _ :: _, [], d => by simp only [vtraceChance]; exact LockPairs.nil
theorem vtraceActs_pairs (c : VCtx α) : ∀ (σ : List α) (ks : List (Node α)) (d : DrawSt α),
    LockPairs (vtraceActs c σ ks d).1
  | _ :: σ, k :: ks, d => by
    simp only [vtraceActs]
    exact (vtrace_pairs' c k d).append (vtraceActs_pairs c σ ks _)
  | [], _, d => by simp only [vtraceActs]; exact LockPairs.nil
  | _ :: _, [], d => by simp only [vtraceActs]; exact LockPairs.nil
end

/-- every trace of the traversal is a sequence of leaf critical sections -/
theorem vtrace_pairs (c : VCtx α) (n : Node α) (d : DrawSt α) : LockPairs (vtrace c n d).1 :=
  vtrace_pairs' c n d

/-- the traces of any set of tasks pass the checker of the interleaving theorems -/
theorem vanilla_tasks_poolOK (c : VCtx α) (tasks : List (Node α × DrawSt α)) :
    poolOKb (vTaskTraces c tasks) = true := by
  have h1 : (vTaskTraces c tasks).flatMap tryLocksOf = [] := by
    simp only [vTaskTraces, List.flatMap_eq_nil_iff, List.mem_map]
    rintro _ ⟨t, _, rfl⟩
    exact (vtrace_pairs c t.1 t.2).tryLocksOf
  have h2 : (vTaskTraces c tasks).all leafCSb = true := by
    simp only [vTaskTraces, List.all_eq_true, List.mem_map]
    rintro _ ⟨t, _, rfl⟩
    exact (vtrace_pairs c t.1 t.2).leafCSb
  have h3 : (vTaskTraces c tasks).all relOKb = true := by
    simp only [vTaskTraces, List.all_eq_true, List.mem_map]
    rintro _ ⟨t, _, rfl⟩
    exact (vtrace_pairs c t.1 t.2).relOKb
  simp only [poolOKb, h1, h2, h3, nodupb, List.all_nil, Bool.and_self]

/-- **the multi-threaded full / chance-sampled solver can neither panic on a mutex nor deadlock**:
for every split of the work into tasks and every thread schedule, no reachable configuration
panics, a configuration that is not finished can move, the number of steps is bounded by the
number of events, and at the end every mutex is free -/
theorem vanilla_pool_never_deadlocks (c : VCtx α) (tasks : List (Node α × DrawSt α)) {n : Nat} {cfg : LCfg}
    (hr : LReach (LCfg.init (vTaskTraces c tasks)) n cfg) :
    (∀ j, lstep cfg j ≠ LOut.panic) ∧
    (cfg.finished = true ∨ ∃ j cfg', lstep cfg j = LOut.ok cfg') ∧
    n + cfg.remaining = (LCfg.init (vTaskTraces c tasks)).remaining ∧
    (cfg.finished = true → cfg.held = []) :=
  checked_traces_safe _ (vanilla_tasks_poolOK c tasks) hr

mutual
theorem vtrace_draws' (c : VCtx α) : ∀ (n : Node α) (pc p1 p2 : α) (d : DrawSt α),
    (vtrace c n d).2 = (vrec c n pc p1 p2 d).2.2
  | .term _, pc, p1, p2, d => by simp only [vtrace, vrec]
  | .chance i ks, pc, p1, p2, d => by
    by_cases hs : c.sampled = true
    · simp only [vtrace, vrec, if_pos hs]
      exact vtraceNth_draws c ks _ pc p1 p2 _
    · simp only [vtrace, vrec, if_neg hs]
      exact vtraceChance_draws c _ ks pc p1 p2 d 0
  | .player one i ks, pc, p1, p2, d => by
    simp only [vtrace, vrec]
    exact vtraceActs_draws c one i _ _ ks pc p1 p2 d 0 0 0
theorem vtraceNth_draws (c : VCtx α) : ∀ (ks : List (Node α)) (k : Nat) (pc p1 p2 : α) (d : DrawSt α),
    (vtraceNth c ks k d).2 = (vrecNth c ks k pc p1 p2 d).2.2
  | [], _, pc, p1, p2, d => by simp only [vtraceNth, vrecNth]
  | k :: _, 0, pc, p1, p2, d => by simp only [vtraceNth, vrecNth]; exact vtrace_draws' c k pc p1 p2 d
  | _ :: ks, n + 1, pc, p1, p2, d => by
    simp only [vtraceNth, vrecNth]; exact vtraceNth_draws c ks n pc p1 p2 d
theorem vtraceChance_draws (c : VCtx α) : ∀ (ps : List α) (ks : List (Node α)) (pc p1 p2 : α)
    (d : DrawSt α) (acc : α),
    (vtraceChance c ps ks d).2 = (vrecChance c ps ks pc p1 p2 d acc).2.2
  | p :: ps, k :: ks, pc, p1, p2, d, acc => by
    simp only [vtraceChance, vrecChance]
    rw [vtrace_draws' c k (pc * p) p1 p2 d]
    exact vtraceChance_draws c ps ks pc p1 p2 _ _
  | [], _, pc, p1, p2, d, acc => by simp only [vtraceChance, vrecChance]
  | _ :: _, [], pc, p1, p2, d, acc => by simp only [vtraceChance, vrecChance]
theorem vtraceActs_draws (c : VCtx α) (one : Bool) (i : Nat) (mult : α) : ∀ (σ : List α)
    (ks : List (Node α)) (pc p1 p2 : α) (d : DrawSt α) (a : Nat) (eo ex : α),
    (vtraceActs c σ ks d).2 = (vrecActs c one i mult σ ks pc p1 p2 d a eo ex).2.2.2
  | s :: σ, k :: ks, pc, p1, p2, d, a, eo, ex => by
    cases one with
    | true =>
      simp only [vtraceActs, vrecActs, if_true]
      rw [vtrace_draws' c k pc (p1 * s) p2 d]
      exact vtraceActs_draws c true i mult σ ks pc p1 p2 _ _ _ _
    | false =>
      simp only [vtraceActs, vrecActs, Bool.false_eq_true, if_false]
      rw [vtrace_draws' c k pc p1 (p2 * s) d]
      exact vtraceActs_draws c false i mult σ ks pc p1 p2 _ _ _ _
  | [], _, pc, p1, p2, d, a, eo, ex => by simp only [vtraceActs, vrecActs]
  | _ :: _, [], pc, p1, p2, d, a, eo, ex => by simp only [vtraceActs, vrecActs]
end

/-- the trace belongs to the traversal of `Model/Vanilla.lean`: same draws, same draw state -/
theorem vtrace_draws_eq_vrec (c : VCtx α) (n : Node α) (pc p1 p2 : α) (d : DrawSt α) :
    (vtrace c n d).2 = (vrec c n pc p1 p2 d).2.2 :=
  vtrace_draws' c n pc p1 p2 d

theorem acqCount_append (l : LockId) : ∀ (s t : List LEv),
    acqCount l (s ++ t) = acqCount l s + acqCount l t
  | [], t => by simp [acqCount]
  | .acq l' :: s, t => by simp only [List.cons_append, acqCount, acqCount_append l s t]; omega
  | .tryAcq l' :: s, t => by simp only [List.cons_append, acqCount, acqCount_append l s t]; omega
  | .rel _ :: s, t => by simp only [List.cons_append, acqCount, acqCount_append l s t]

mutual
theorem vtrace_acq' (c : VCtx α) (one : Bool) (i : Nat) : ∀ (n : Node α) (d : DrawSt α),
    acqCount (.player one i) (vtrace c n d).1 = (vvisits c one i n d).1 ∧
    (vtrace c n d).2 = (vvisits c one i n d).2
  | .term _, d => by simp only [vtrace, vvisits, acqCount, and_self]
  | .chance j ks, d => by
    by_cases hs : c.sampled = true
    · simp only [vtrace, vvisits, if_pos hs, acqCount, reduceCtorEq, if_false, Nat.zero_add]
      exact vtraceNth_acq c one i ks _ _
    · simp only [vtrace, vvisits, if_neg hs]
      exact vtraceChance_acq c one i _ ks d
  | .player o j ks, d => by
    obtain ⟨h1, h2⟩ := vtraceActs_acq c one i (c.strat o j) ks d
    simp only [vtrace, vvisits, acqCount, LockId.player.injEq, h1, h2, and_true]
    by_cases h : o = one ∧ j = i
    · rw [if_pos h, if_pos ⟨h.1.symm, h.2.symm⟩]
    · rw [if_neg h, if_neg (fun h' => h ⟨h'.1.symm, h'.2.symm⟩)]
theorem vtraceNth_acq (c : VCtx α) (one : Bool) (i : Nat) : ∀ (ks : List (Node α)) (k : Nat) (d : DrawSt α),
    acqCount (.player one i) (vtraceNth c ks k d).1 = (vvisitsNth c one i ks k d).1 ∧
    (vtraceNth c ks k d).2 = (vvisitsNth c one i ks k d).2
  | [], _, d => by simp only [vtraceNth, vvisitsNth, acqCount, and_self]
  | k :: _, 0, d => by simp only [vtraceNth, vvisitsNth]; exact vtrace_acq' c one i k d
  | _ :: ks, n + 1, d => by simp only [vtraceNth, vvisitsNth]; exact vtraceNth_acq c one i ks n d
theorem vtraceChance_acq (c : VCtx α) (one : Bool) (i : Nat) : ∀ (ps : List α) (ks : List (Node α))
    (d : DrawSt α),
    acqCount (.player one i) (vtraceChance c ps ks d).1 = (vvisitsChance c one i ps ks d).1 ∧
    (vtraceChance c ps ks d).2 = (vvisitsChance c one i ps ks d).2
  | _ :: ps, k :: ks, d => by
    obtain ⟨h1, h2⟩ := vtrace_acq' c one i k d
    obtain ⟨h3, h4⟩ := vtraceChance_acq c one i ps ks (vtrace c k d).2
    simp only [vtraceChance, vvisitsChance, acqCount_append, h1, h3, h4, ← h2, and_self]
  | [], _, d => by simp only [vtraceChance, vvisitsChance, acqCount, and_self]
  | _ :: _, [], d => by simp only [vtraceChance, vvisitsChance, acqCount, and_self]
theorem vtraceActs_acq (c : VCtx α) (one : Bool) (i : Nat) : ∀ (σ : List α) (ks : List (Node α))
    (d : DrawSt α),
    acqCount (.player one i) (vtraceActs c σ ks d).1 = (vvisitsActs c one i σ ks d).1 ∧
    (vtraceActs c σ ks d).2 = (vvisitsActs c one i σ ks d).2
  | _ :: σ, k :: ks, d => by
    obtain ⟨h1, h2⟩ := vtrace_acq' c one i k d
    obtain ⟨h3, h4⟩ := vtraceActs_acq c one i σ ks (vtrace c k d).2
    simp only [vtraceActs, vvisitsActs, acqCount_append, h1, h3, h4, ← h2, and_self]
  | [], _, d => by simp only [vtraceActs, vvisitsActs, acqCount, and_self]
  | _ :: _, [], d => by simp only [vtraceActs, vvisitsActs, acqCount, and_self]
end

/-- a player infoset's mutex is taken exactly once per visited node of the infoset -/
theorem vtrace_acqCount (c : VCtx α) (one : Bool) (i : Nat) (n : Node α) (d : DrawSt α) :
    acqCount (.player one i) (vtrace c n d).1 = (vvisits c one i n d).1 :=
  (vtrace_acq' c one i n d).1

end

/-! non-vacuity: a two-level tree, two tasks -/
example : vTaskTraces (α := Int) ⟨[], false, fun _ _ => [1, 1], fun _ _ _ _ => 0, 0⟩
    [(.player true 0 [.term 1, .player false 0 [.term 0, .term 2]], {}), (.player false 0 [.term 0, .term 2], {})]
    = [[.acq (.player true 0), .rel (.player true 0), .acq (.player false 0), .rel (.player false 0)],
       [.acq (.player false 0), .rel (.player false 0)]] := by
  decide

end Cfr
