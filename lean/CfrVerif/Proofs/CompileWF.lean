import CfrVerif.Proofs.GameWF
import CfrVerif.Proofs.CompileLemmas
/-!
# Whatever `fromRoot` accepts is well formed
-/
set_option linter.unusedSectionVars false
namespace Cfr
variable {α : Type}

mutual
/-- the two component lists of every node have equal lengths (the crate iterates pairs) -/
def Raw.Shape : Raw α → Prop
  | .term _ => True
  | .chance _ ws kids => ws.length = kids.length ∧ Raw.ShapeL kids
  | .player _ _ acts kids => acts.length = kids.length ∧ Raw.ShapeL kids
def Raw.ShapeL : List (Raw α) → Prop
  | [] => True
  | k :: ks => Raw.Shape k ∧ Raw.ShapeL ks
end

variable [Field α] [LinearOrder α] [IsStrictOrderedRing α]

/-- the state read as a game with a dummy root -/
abbrev G (s : BState α) : Game α := s.game (.term 0)

mutual
theorem compile_inv : ∀ (r : Raw α) (prev : Prev) (s s' : BState α) (n : Node α),
    Raw.Shape r → BInv s → PrevOK prev s → compile r prev s = .ok (n, s') →
    BInv s' ∧ Grows s s' ∧ NodeOK (G s') n ∧
      ∀ me, PR me (histOf (s'.infos me)) (histP (s.infos me) (prev.get me)) n
  | .term pay, prev, s, s', n, _, hb, hp, h => by
    simp only [compile] at h
    split_ifs at h
    cases h
    exact ⟨hb, Grows.refl _, by simp [NodeOK], fun me => by simp [PR]⟩
  | .chance info ws kids, prev, s, s', n, hs, hb, hp, h => by
    simp only [compile] at h
    split at h
    · cases h
    · rename_i probs nodes s1 hco
      simp only [Raw.Shape] at hs
      obtain ⟨hb1, hg1, hl, hpos, hn1, hpr1⟩ :=
        compileOutcomes_inv ws kids prev s s1 probs nodes hs.2 hb hp hco
      obtain ⟨hb2, hg2, hn2, hpr2⟩ := registerChance_inv h hb1 hl hpos hn1
      refine ⟨hb2, hg1.trans hg2, hn2, fun me => hpr2 me _ _ ?_⟩
      exact PRL_lift (G s1) me _ _
        (fun i hi => histOf_prefix (hg2.infos me) i (by simpa using hi)) nodes _ hn1 (hpr1 me)
  | .player one info [] kids, prev, s, s', n, hs, hb, hp, h => by
    simp [compile] at h
  | .player one info (a :: as) [], prev, s, s', n, hs, hb, hp, h => by
    simp [compile] at h
  | .player one info [a] (k :: ks), prev, s, s', n, hs, hb, hp, h => by
    simp only [compile] at h
    split at h
    · cases h
    · rename_i s1 hr
      simp only [Raw.Shape, Raw.ShapeL] at hs
      obtain ⟨hb1, hg1, hi1⟩ := registerSingle_inv hr hb
      obtain ⟨hb2, hg2, hn2, hpr2⟩ := compile_inv k prev s1 s' n hs.2.1 hb1 (hp.mono hg1) h
      refine ⟨hb2, hg1.trans hg2, hn2, fun me => ?_⟩
      have := hpr2 me
      rw [hi1 me] at this
      exact this
  | .player one info (a :: b :: as) (k :: ks), prev, s, s', n, hs, hb, hp, h => by
    simp only [compile] at h
    split at h
    · cases h
    · rename_i i s1 hr
      split at h
      · cases h
      · rename_i nodes s2 hco
        simp only [Except.ok.injEq, Prod.mk.injEq] at h
        obtain ⟨rfl, rfl⟩ := h
        simp only [Raw.Shape] at hs
        obtain ⟨hb1, hg1, e, he, hea, hep⟩ := registerPlayer_inv hr (by simp) hb hp
        obtain ⟨hb2, hg2, hn2, hl2, hpr2⟩ := compileActions_inv (k :: ks) one i 0 prev s1 s2 nodes
          hs.2 hb1 (hp.mono hg1) ⟨e, he, hep⟩ hco
        have hlen : e.actions.length = nodes.length := by rw [hea, hl2]; exact hs.1
        refine ⟨hb2, hg1.trans hg2, ?_, fun me => ?_⟩
        · simp only [NodeOK]
          refine ⟨⟨e, ?_, hlen⟩, ?_, hn2⟩
          · simpa using prefix_getElem? (hg2.infos one) he
          · rw [← hlen, hea]; simp
        · have hrest := hpr2 me
          rw [histP_prefix (hg1.infos me) _ (hp me)] at hrest
          simp only [PR]
          by_cases hm : one = me
          · subst hm
            simp only [if_true] at hrest ⊢
            refine ⟨?_, hrest⟩
            rw [histOf_prefix (hg2.infos one) i (lt_of_getElem?_some he),
              histOf_eq_histP he (hb1.prevLt one i e he), hep,
              histP_prefix (hg1.infos one) _ (hp one)]
          · simp only [hm, if_false] at hrest ⊢
            exact hrest
theorem compileOutcomes_inv : ∀ (ws : List α) (ks : List (Raw α)) (prev : Prev)
    (s s' : BState α) (ps : List α) (ns : List (Node α)),
    Raw.ShapeL ks → BInv s → PrevOK prev s → compileOutcomes ws ks prev s = .ok (ps, ns, s') →
    BInv s' ∧ Grows s s' ∧ ps.length = ns.length ∧ (∀ p ∈ ps, 0 < p) ∧ NodeOKL (G s') ns ∧
      ∀ me, PRL me (histOf (s'.infos me)) (histP (s.infos me) (prev.get me)) ns
  | [], ks, prev, s, s', ps, ns, _, hb, hp, h => by
    simp only [compileOutcomes] at h
    cases h
    exact ⟨hb, Grows.refl _, rfl, by simp, by simp [NodeOKL], fun me => by simp [PRL]⟩
  | _ :: _, [], prev, s, s', ps, ns, _, hb, hp, h => by
    simp only [compileOutcomes] at h
    cases h
    exact ⟨hb, Grows.refl _, rfl, by simp, by simp [NodeOKL], fun me => by simp [PRL]⟩
  | w :: ws, k :: ks, prev, s, s', ps, ns, hs, hb, hp, h => by
    simp only [compileOutcomes] at h
    split_ifs at h with hw
    split at h
    · cases h
    · rename_i n s1 hc1
      split at h
      · cases h
      · rename_i ps' ns' s2 hc2
        simp only [Except.ok.injEq, Prod.mk.injEq] at h
        obtain ⟨rfl, rfl, rfl⟩ := h
        simp only [Raw.ShapeL] at hs
        obtain ⟨hb1, hg1, hn1, hpr1⟩ := compile_inv k prev s s1 n hs.1 hb hp hc1
        obtain ⟨hb2, hg2, hl2, hpos2, hn2, hpr2⟩ :=
          compileOutcomes_inv ws ks prev s1 s2 ps' ns' hs.2 hb1 (hp.mono hg1) hc2
        have hw0 : 0 < w := by simpa using hw
        refine ⟨hb2, hg1.trans hg2, by simp [hl2], ?_, ?_, fun me => ?_⟩
        · intro p hp'
          rcases List.mem_cons.mp hp' with rfl | hp'
          · exact hw0
          · exact hpos2 p hp'
        · simp only [NodeOKL]
          exact ⟨hg2.nodeOK hn1, hn2⟩
        · simp only [PRL]
          have hrest := hpr2 me
          rw [histP_prefix (hg1.infos me) _ (hp me)] at hrest
          exact ⟨PR_lift (G s1) me _ _
            (fun j hj => histOf_prefix (hg2.infos me) j (by simpa using hj)) n _ hn1 (hpr1 me),
            hrest⟩
theorem compileActions_inv : ∀ (ks : List (Raw α)) (one : Bool) (i a : Nat) (prev : Prev)
    (s s' : BState α) (ns : List (Node α)),
    Raw.ShapeL ks → BInv s → PrevOK prev s →
    (∃ e, (s.infos one)[i]? = some e ∧ e.prev = prev.get one) →
    compileActions ks one i a prev s = .ok (ns, s') →
    BInv s' ∧ Grows s s' ∧ NodeOKL (G s') ns ∧ ns.length = ks.length ∧
      ∀ me, if one = me
        then PRD me (histOf (s'.infos me)) (histP (s.infos me) (prev.get me)) i a ns
        else PRL me (histOf (s'.infos me)) (histP (s.infos me) (prev.get me)) ns
  | [], one, i, a, prev, s, s', ns, _, hb, hp, hi, h => by
    simp only [compileActions] at h
    cases h
    refine ⟨hb, Grows.refl _, by simp [NodeOKL], rfl, fun me => ?_⟩
    split_ifs <;> simp [PRD, PRL]
  | k :: ks, one, i, a, prev, s, s', ns, hs, hb, hp, hi, h => by
    simp only [compileActions] at h
    split at h
    · cases h
    · rename_i n s1 hc1
      split at h
      · cases h
      · rename_i ns' s2 hc2
        simp only [Except.ok.injEq, Prod.mk.injEq] at h
        obtain ⟨rfl, rfl⟩ := h
        simp only [Raw.ShapeL] at hs
        obtain ⟨e, he, hep⟩ := hi
        have hp' : PrevOK (prev.set one (some (i, a))) s := by
          intro me j b hj
          simp only [Prev.get_set] at hj
          by_cases hm : one = me
          · subst hm
            simp only [if_true, Option.some.injEq, Prod.mk.injEq] at hj
            obtain ⟨rfl, rfl⟩ := hj
            exact lt_of_getElem?_some he
          · simp only [hm, if_false] at hj
            exact hp me j b hj
        obtain ⟨hb1, hg1, hn1, hpr1⟩ := compile_inv k _ s s1 n hs.1 hb hp' hc1
        obtain ⟨hb2, hg2, hn2, hl2, hpr2⟩ := compileActions_inv ks one i (a + 1) prev s1 s2 ns'
          hs.2 hb1 (hp.mono hg1) ⟨e, prefix_getElem? (hg1.infos one) he, hep⟩ hc2
        refine ⟨hb2, hg1.trans hg2, ?_, by simp [hl2], fun me => ?_⟩
        · simp only [NodeOKL]
          exact ⟨hg2.nodeOK hn1, hn2⟩
        · have hk : PR me (histOf (s2.infos me))
              (histP (s.infos me) ((prev.set one (some (i, a))).get me)) n :=
            PR_lift (G s1) me _ _
              (fun j hj => histOf_prefix (hg2.infos me) j (by simpa using hj)) n _ hn1 (hpr1 me)
          have hrest := hpr2 me
          rw [histP_prefix (hg1.infos me) _ (hp me)] at hrest
          by_cases hm : one = me
          · subst hm
            simp only [if_true, PRD] at hrest ⊢
            refine ⟨?_, hrest⟩
            simp only [Prev.get_set, if_true, histP] at hk
            rw [histOf_eq_histP he (hb.prevLt one i e he), hep] at hk
            exact hk
          · simp only [hm, if_false, PRL] at hrest ⊢
            simp only [Prev.get_set, hm, if_false] at hk
            exact ⟨hk, hrest⟩
end

/-- **everything that is accepted is well formed**: indices in range, arities as declared,
chance probabilities positive and summing to one, perfect recall in history form for both
players (with earlier infosets at smaller indices), well-formed label tables -/
theorem compile_ok_wf (r : Raw α) (hs : Raw.Shape r) (g : Game α) (h : fromRoot r = .ok g) :
    GameWF g := by
  unfold fromRoot at h
  split at h
  · cases h
  · rename_i root s hc
    simp only [Except.ok.injEq] at h
    subst h
    have hi0 : ∀ one, ({} : BState α).infos one = [] := fun one => by cases one <;> rfl
    have hs0 : ∀ one, ({} : BState α).singles one = [] := fun one => by cases one <;> rfl
    have hp0 : ∀ one, ({} : Prev).get one = none := fun one => by cases one <;> rfl
    have hb0 : BInv ({} : BState α) := by
      refine ⟨?_, ?_, ?_, ?_⟩
      · intro one; rw [hi0, hs0]; exact ⟨by simp, by simp, by simp, by simp⟩
      · intro one e he; rw [hi0] at he; simp at he
      · intro one i e he; rw [hi0] at he; simp at he
      · intro e he; exact absurd he (by simp)
    have hpo : PrevOK ({} : Prev) ({} : BState α) := by
      intro one j a hj; rw [hp0] at hj; cases hj
    obtain ⟨hb, _, hn, hpr⟩ := compile_inv r {} {} s root hs hb0 hpo hc
    refine ⟨?_, ?_, ?_, ?_, ?_, ?_⟩
    · intro ps hps
      obtain ⟨e, he, rfl⟩ := List.mem_map.mp hps
      exact hb.chance e he
    · exact (Grows.refl s).nodeOK hn
    · intro me
      refine ⟨histOf (s.infos me), ?_, histOf_lt _⟩
      have := hpr me
      rw [hp0] at this
      exact this
    · exact hb.tables true
    · exact hb.tables false
    · intro me e he
      exact hb.acts me e (by cases me <;> exact he)

end Cfr
