import CfrVerif.Proofs.GameWF
/-!
# Whatever `fromRoot` accepts is well formed
-/
set_option linter.unusedSectionVars false
namespace Cfr
variable {α : Type}

mutual
/-- the two component lists of every node have equal lengths (the crate iterates pairs) -/
def Raw.Shape : Raw α → Prop
  | .term _ => True
  | .chance _ ws kids => ws.length = kids.length ∧ Raw.ShapeL kids
  | .player _ _ acts kids => acts.length = kids.length ∧ Raw.ShapeL kids
def Raw.ShapeL : List (Raw α) → Prop
  | [] => True
  | k :: ks => Raw.Shape k ∧ Raw.ShapeL ks
end

variable [Field α] [LinearOrder α] [IsStrictOrderedRing α]

/-- **everything that is accepted is well formed**: indices in range, arities as declared,
chance probabilities positive and summing to one, perfect recall in history form for both
players (with earlier infosets at smaller indices), well-formed label tables -/
theorem compile_ok_wf (r : Raw α) (hs : Raw.Shape r) (g : Game α) (h : fromRoot r = .ok g) :
    GameWF g := by
  sorry

end Cfr
