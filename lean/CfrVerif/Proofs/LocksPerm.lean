import CfrVerif.Proofs.LocksCheck
/-!
# The pool's tasks and the closing recursion together do what one plain traversal does

The harness compares the mutex operations observed in the crate during one pass (all worker
threads together) with the events of the model's *plain* traversal `etrace c g.root`, as a
multiset.  This file shows that the comparison target is the right one: for every accepted game,
pass context, task target and draw oracle, the events of the tasks handed to the pool
(`externalPoolTraces`, the object of `external_workers_never_meet`) together with those of the
closing recursion (`externalClosingTrace`) are a permutation of the events of `etrace c g.root`
— however the frontier splits the sampled tree.

The proof replays the frontier decomposition of the effects (`Proofs/FrontierExt.lean`, Part A)
with `List LEv` in place of `List (EEv α)`: `ptrC` is the mutex trace with the oracle's answers
substituted (no draw state), `etraceC_pure` says that under a consistent draw state the model's
`etraceC` produces exactly `ptrC`, `ptrC_add_item(s)` is the cut lemma, and the frontier is a cut
by `eThreshold_spec`.

**Arity hypothesis.**  `eNextNodes` hands *all* children of a node of the updating player to the
frontier whereas the traversal visits the children zipped with the strategy vector.  For a pass
context `c` whose strategy vector at such a node is shorter than the node's child list the
statement is false (see the counterexample at the end of the file); the hypothesis `hA` is the
one of `externalMultiEffects_spec`, and holds for the contexts the solver builds
(`external_pool_closing_perm_etrace_pass`).
-/
set_option linter.unusedSectionVars false
namespace Cfr
variable {α : Type} [Field α] [LinearOrder α] [IsStrictOrderedRing α] [Transc α]

namespace LkP

/-! ## the pure trace -/

mutual
/-- the mutex events of the cached traversal with the oracle's answers substituted -/
def ptrC (c : ECtx α) (cache : List (Path × α)) : Node α → Path → List LEv
  | n, path =>
    match cacheGet cache path with
    | some _ => []
    | none =>
      match n with
      | .term _ => []
      | .chance i ks =>
        .acq (.chance i) :: .rel (.chance i) :: ptrCNth c cache ks (c.oc i) (path ++ [c.oc i])
      | .player one i ks =>
        if one == c.first then
          .tryAcq (.player one i) ::
            (ptrCActs c cache (c.strat one i) ks path 0 ++ [.rel (.player one i)])
        else
          .acq (.player one i) :: .rel (.player one i) ::
            ptrCNth c cache ks (c.op i) (path ++ [c.op i])
def ptrCNth (c : ECtx α) (cache : List (Path × α)) : List (Node α) → Nat → Path → List LEv
  | [], _, _ => []
  | k :: _, 0, path => ptrC c cache k path
  | _ :: ks, n + 1, path => ptrCNth c cache ks n path
def ptrCActs (c : ECtx α) (cache : List (Path × α)) :
    List α → List (Node α) → Path → Nat → List LEv
  | _ :: σ, k :: ks, path, a => ptrC c cache k (path ++ [a]) ++ ptrCActs c cache σ ks path (a + 1)
  | _, _, _, _ => []
end

theorem ptrC_hit (c : ECtx α) (cache : List (Path × α)) (n : Node α) (path : Path) (v : α)
    (h : cacheGet cache path = some v) : ptrC c cache n path = [] := by
  cases n <;> simp only [ptrC, h]

theorem ptrC_term (c : ECtx α) (cache : List (Path × α)) (p : α) (path : Path) :
    ptrC c cache (.term p) path = [] := by
  cases h : cacheGet cache path <;> simp only [ptrC, h]

theorem ptrC_chance (c : ECtx α) (cache : List (Path × α)) (i : Nat) (ks : List (Node α))
    (path : Path) (h : cacheGet cache path = none) :
    ptrC c cache (.chance i ks) path =
      .acq (.chance i) :: .rel (.chance i) :: ptrCNth c cache ks (c.oc i) (path ++ [c.oc i]) := by
  simp only [ptrC, h]

theorem ptrC_own (c : ECtx α) (cache : List (Path × α)) (one : Bool) (i : Nat)
    (ks : List (Node α)) (path : Path) (h : cacheGet cache path = none)
    (ho : (one == c.first) = true) :
    ptrC c cache (.player one i ks) path =
      .tryAcq (.player one i) ::
        (ptrCActs c cache (c.strat one i) ks path 0 ++ [.rel (.player one i)]) := by
  simp only [ptrC, h, if_pos ho]

theorem ptrC_opp (c : ECtx α) (cache : List (Path × α)) (one : Bool) (i : Nat)
    (ks : List (Node α)) (path : Path) (h : cacheGet cache path = none)
    (ho : ¬ (one == c.first) = true) :
    ptrC c cache (.player one i ks) path =
      .acq (.player one i) :: .rel (.player one i) ::
        ptrCNth c cache ks (c.op i) (path ++ [c.op i]) := by
  simp only [ptrC, h, if_neg ho]

theorem ptrCActs_cons (c : ECtx α) (cache : List (Path × α)) (s : α) (σ : List α) (k : Node α)
    (ks : List (Node α)) (path : Path) (a : Nat) :
    ptrCActs c cache (s :: σ) (k :: ks) path a =
      ptrC c cache k (path ++ [a]) ++ ptrCActs c cache σ ks path (a + 1) := by
  simp only [ptrCActs]

/-! ## the model's cached trace, unfolded -/

theorem etraceC_term (c : ECtx α) (cache : List (Path × α)) (p : α) (path : Path) (d : DrawSt α) :
    etraceC c cache (.term p) path d = ([], d) := by
  cases h : cacheGet cache path <;> simp only [etraceC, h]

theorem etraceC_chance (c : ECtx α) (cache : List (Path × α)) (i : Nat) (ks : List (Node α))
    (path : Path) (d : DrawSt α) (h : cacheGet cache path = none) :
    etraceC c cache (.chance i ks) path d =
      (.acq (.chance i) :: .rel (.chance i) ::
        (etraceCNth c cache ks (sampleChance c.draw c.chancePass (c.ch.getD i []) i d).1
          (path ++ [(sampleChance c.draw c.chancePass (c.ch.getD i []) i d).1])
          (sampleChance c.draw c.chancePass (c.ch.getD i []) i d).2).1,
       (etraceCNth c cache ks (sampleChance c.draw c.chancePass (c.ch.getD i []) i d).1
          (path ++ [(sampleChance c.draw c.chancePass (c.ch.getD i []) i d).1])
          (sampleChance c.draw c.chancePass (c.ch.getD i []) i d).2).2) := by
  simp only [etraceC, h]

theorem etraceC_own (c : ECtx α) (cache : List (Path × α)) (one : Bool) (i : Nat)
    (ks : List (Node α)) (path : Path) (d : DrawSt α) (h : cacheGet cache path = none)
    (ho : (one == c.first) = true) :
    etraceC c cache (.player one i ks) path d =
      (.tryAcq (.player one i) ::
        ((etraceCActs c cache (c.strat one i) ks path d 0).1 ++ [.rel (.player one i)]),
       (etraceCActs c cache (c.strat one i) ks path d 0).2) := by
  simp only [etraceC, h, if_pos ho]
  rfl

theorem etraceC_opp (c : ECtx α) (cache : List (Path × α)) (one : Bool) (i : Nat)
    (ks : List (Node α)) (path : Path) (d : DrawSt α) (h : cacheGet cache path = none)
    (ho : ¬ (one == c.first) = true) :
    etraceC c cache (.player one i ks) path d =
      (.acq (.player one i) :: .rel (.player one i) ::
        (etraceCNth c cache ks
          (samplePlayer c.draw (if one then 1 else 2) c.playerPass (c.strat one i) i d).1
          (path ++ [(samplePlayer c.draw (if one then 1 else 2) c.playerPass (c.strat one i) i d).1])
          (samplePlayer c.draw (if one then 1 else 2) c.playerPass (c.strat one i) i d).2).1,
       (etraceCNth c cache ks
          (samplePlayer c.draw (if one then 1 else 2) c.playerPass (c.strat one i) i d).1
          (path ++ [(samplePlayer c.draw (if one then 1 else 2) c.playerPass (c.strat one i) i d).1])
          (samplePlayer c.draw (if one then 1 else 2) c.playerPass (c.strat one i) i d).2).2) := by
  simp only [etraceC, h, if_neg ho]

theorem etraceCActs_cons (c : ECtx α) (cache : List (Path × α)) (s : α) (σ : List α)
    (k : Node α) (ks : List (Node α)) (path : Path) (d : DrawSt α) (a : Nat) :
    etraceCActs c cache (s :: σ) (k :: ks) path d a =
      ((etraceC c cache k (path ++ [a]) d).1 ++
        (etraceCActs c cache σ ks path (etraceC c cache k (path ++ [a]) d).2 (a + 1)).1,
       (etraceCActs c cache σ ks path (etraceC c cache k (path ++ [a]) d).2 (a + 1)).2) := by
  simp only [etraceCActs]

/-! ## under a consistent draw state the model's trace is the pure one -/

mutual
theorem etraceC_pure (c : ECtx α) (cache : List (Path × α)) :
    ∀ (n : Node α) (path : Path) (d : DrawSt α), ECons c d →
      (etraceC c cache n path d).1 = ptrC c cache n path ∧ ECons c (etraceC c cache n path d).2
  | n, path, d, hd => by
    cases hc : cacheGet cache path with
    | some v => rw [Lk.etraceC_hit _ _ _ _ _ v hc, ptrC_hit _ _ _ _ v hc]; exact ⟨rfl, hd⟩
    | none =>
      match n with
      | .term p => rw [etraceC_term, ptrC_term]; exact ⟨rfl, hd⟩
      | .chance i ks =>
        rw [etraceC_chance _ _ _ _ _ _ hc, ptrC_chance _ _ _ _ _ hc, hd.sampleChance_fst i,
          DrawSt.req_ch]
        obtain ⟨h1, h2⟩ := etraceCNth_pure c cache ks (c.oc i) (path ++ [c.oc i]) _
          (hd.req (.ch i))
        exact ⟨by simp only [h1], h2⟩
      | .player one i ks =>
        by_cases ho : (one == c.first) = true
        · rw [etraceC_own _ _ _ _ _ _ _ hc ho, ptrC_own _ _ _ _ _ _ hc ho]
          obtain ⟨h1, h2⟩ := etraceCActs_pure c cache (c.strat one i) ks path d 0 hd
          exact ⟨by simp only [h1], h2⟩
        · rw [etraceC_opp _ _ _ _ _ _ _ hc ho, ptrC_opp _ _ _ _ _ _ hc ho]
          have hone := opp_eq_not_first ho
          subst hone
          rw [hd.samplePlayer_fst i, DrawSt.req_pl]
          obtain ⟨h1, h2⟩ := etraceCNth_pure c cache ks (c.op i) (path ++ [c.op i]) _
            (hd.req (.pl i))
          exact ⟨by simp only [h1], h2⟩
theorem etraceCNth_pure (c : ECtx α) (cache : List (Path × α)) :
    ∀ (ks : List (Node α)) (j : Nat) (path : Path) (d : DrawSt α), ECons c d →
      (etraceCNth c cache ks j path d).1 = ptrCNth c cache ks j path ∧
        ECons c (etraceCNth c cache ks j path d).2
  | [], _, _, d, hd => by simp only [etraceCNth, ptrCNth]; exact ⟨trivial, hd⟩
  | k :: _, 0, path, d, hd => by
    simp only [etraceCNth, ptrCNth]; exact etraceC_pure c cache k path d hd
  | _ :: ks, j + 1, path, d, hd => by
    simp only [etraceCNth, ptrCNth]; exact etraceCNth_pure c cache ks j path d hd
theorem etraceCActs_pure (c : ECtx α) (cache : List (Path × α)) :
    ∀ (σ : List α) (ks : List (Node α)) (path : Path) (d : DrawSt α) (a : Nat), ECons c d →
      (etraceCActs c cache σ ks path d a).1 = ptrCActs c cache σ ks path a ∧
        ECons c (etraceCActs c cache σ ks path d a).2
  | s :: σ, k :: ks, path, d, a, hd => by
    rw [etraceCActs_cons, ptrCActs_cons]
    obtain ⟨h1, h2⟩ := etraceC_pure c cache k (path ++ [a]) d hd
    obtain ⟨g1, g2⟩ := etraceCActs_pure c cache σ ks path _ (a + 1) h2
    exact ⟨by simp only [h1, g1], g2⟩
  | [], _, _, d, _, hd => by simp only [etraceCActs, ptrCActs]; exact ⟨trivial, hd⟩
  | _ :: _, [], _, d, _, hd => by simp only [etraceCActs, ptrCActs]; exact ⟨trivial, hd⟩
end

/-! ## without a cache the cached trace is the plain one -/

mutual
theorem etrace_eq_etraceC (c : ECtx α) :
    ∀ (n : Node α) (path : Path) (d : DrawSt α), etraceC c [] n path d = etrace c n d
  | .term p, path, d => by rw [etraceC_term]; simp only [etrace]
  | .chance i ks, path, d => by
    rw [etraceC_chance _ _ _ _ _ _ (cacheGet_nil _), etraceNth_eq_etraceCNth c ks _ _ _]
    simp only [etrace]
  | .player one i ks, path, d => by
    by_cases ho : (one == c.first) = true
    · rw [etraceC_own _ _ _ _ _ _ _ (cacheGet_nil _) ho,
        etraceActs_eq_etraceCActs c _ ks path d 0]
      simp only [etrace, if_pos ho]
      rfl
    · rw [etraceC_opp _ _ _ _ _ _ _ (cacheGet_nil _) ho, etraceNth_eq_etraceCNth c ks _ _ _]
      simp only [etrace, if_neg ho]
theorem etraceNth_eq_etraceCNth (c : ECtx α) :
    ∀ (ks : List (Node α)) (j : Nat) (path : Path) (d : DrawSt α),
      etraceCNth c [] ks j path d = etraceNth c ks j d
  | [], _, _, d => by simp only [etraceCNth, etraceNth]
  | k :: _, 0, path, d => by simp only [etraceCNth, etraceNth]; exact etrace_eq_etraceC c k path d
  | _ :: ks, j + 1, path, d => by
    simp only [etraceCNth, etraceNth]; exact etraceNth_eq_etraceCNth c ks j path d
theorem etraceActs_eq_etraceCActs (c : ECtx α) :
    ∀ (σ : List α) (ks : List (Node α)) (path : Path) (d : DrawSt α) (a : Nat),
      etraceCActs c [] σ ks path d a = etraceActs c σ ks d
  | s :: σ, k :: ks, path, d, a => by
    rw [etraceCActs_cons, etrace_eq_etraceC c k (path ++ [a]) d,
      etraceActs_eq_etraceCActs c σ ks path _ (a + 1)]
    simp only [etraceActs]
  | [], _, _, d, _ => by simp only [etraceCActs, etraceActs]
  | _ :: _, [], _, d, _ => by simp only [etraceCActs, etraceActs]
end

/-- the plain trace in terms of the pure one -/
theorem etrace_pure (c : ECtx α) (n : Node α) (path : Path) (d : DrawSt α) (hd : ECons c d) :
    (etrace c n d).1 = ptrC c [] n path ∧ ECons c (etrace c n d).2 := by
  rw [← etrace_eq_etraceC c n path d]
  exact etraceC_pure c [] n path d hd

/-! ## the cached trace of a subtree only looks at cached paths below the subtree's path -/

mutual
theorem ptrC_congr (c : ECtx α) (c1 c2 : List (Path × α)) :
    ∀ (n : Node α) (path : Path),
      (∀ q, path <+: q → (cacheGet c1 q = none ↔ cacheGet c2 q = none)) →
      ptrC c c1 n path = ptrC c c2 n path
  | n, path, h => by
    have hp := h path (List.prefix_refl _)
    cases hc : cacheGet c2 path with
    | some v =>
      cases hc1 : cacheGet c1 path with
      | some v1 => rw [ptrC_hit _ _ _ _ v hc, ptrC_hit _ _ _ _ v1 hc1]
      | none => rw [hp.1 hc1] at hc; cases hc
    | none =>
      have hc1 := hp.2 hc
      match n with
      | .term p => rw [ptrC_term, ptrC_term]
      | .chance i ks =>
        rw [ptrC_chance _ _ _ _ _ hc, ptrC_chance _ _ _ _ _ hc1,
          ptrCNth_congr c c1 c2 ks (c.oc i) (path ++ [c.oc i])
            (fun q hq => h q ((List.prefix_append _ _).trans hq))]
      | .player one i ks =>
        by_cases ho : (one == c.first) = true
        · rw [ptrC_own _ _ _ _ _ _ hc ho, ptrC_own _ _ _ _ _ _ hc1 ho,
            ptrCActs_congr c c1 c2 (c.strat one i) ks path 0 h]
        · rw [ptrC_opp _ _ _ _ _ _ hc ho, ptrC_opp _ _ _ _ _ _ hc1 ho,
            ptrCNth_congr c c1 c2 ks (c.op i) (path ++ [c.op i])
              (fun q hq => h q ((List.prefix_append _ _).trans hq))]
theorem ptrCNth_congr (c : ECtx α) (c1 c2 : List (Path × α)) :
    ∀ (ks : List (Node α)) (j : Nat) (path : Path),
      (∀ q, path <+: q → (cacheGet c1 q = none ↔ cacheGet c2 q = none)) →
      ptrCNth c c1 ks j path = ptrCNth c c2 ks j path
  | [], _, _, _ => by simp only [ptrCNth]
  | k :: _, 0, path, h => by simp only [ptrCNth]; exact ptrC_congr c c1 c2 k path h
  | _ :: ks, j + 1, path, h => by simp only [ptrCNth]; exact ptrCNth_congr c c1 c2 ks j path h
theorem ptrCActs_congr (c : ECtx α) (c1 c2 : List (Path × α)) :
    ∀ (σ : List α) (ks : List (Node α)) (path : Path) (a : Nat),
      (∀ q, path <+: q → (cacheGet c1 q = none ↔ cacheGet c2 q = none)) →
      ptrCActs c c1 σ ks path a = ptrCActs c c2 σ ks path a
  | s :: σ, k :: ks, path, a, h => by
    rw [ptrCActs_cons, ptrCActs_cons,
      ptrC_congr c c1 c2 k (path ++ [a]) (fun q hq => h q ((List.prefix_append _ _).trans hq)),
      ptrCActs_congr c c1 c2 σ ks path (a + 1) h]
  | [], _, _, _, _ => by simp only [ptrCActs]
  | _ :: _, [], _, _, _ => by simp only [ptrCActs]
end

theorem ptrCNth_get (c : ECtx α) (cache : List (Path × α)) :
    ∀ (ks : List (Node α)) (j : Nat) (k : Node α) (q : Path), ks[j]? = some k →
      ptrCNth c cache ks j q = ptrC c cache k q
  | [], _, _, _, h => by simp at h
  | k0 :: _, 0, k, q, h => by
    simp only [List.getElem?_cons_zero, Option.some.injEq] at h
    subst h; simp only [ptrCNth]
  | _ :: ks, j + 1, k, q, h => by
    simp only [List.getElem?_cons_succ] at h
    simp only [ptrCNth]; exact ptrCNth_get c cache ks j k q h

/-! ## adding one cut node to the cache -/

theorem ptrCActs_rest_eq (c : ECtx α) (c1 c2 : List (Path × α)) (path : Path) :
    ∀ (σ : List α) (ks : List (Node α)) (a0 : Nat),
      (∀ a', a0 ≤ a' → ∀ k', ptrC c c1 k' (path ++ [a']) = ptrC c c2 k' (path ++ [a'])) →
      ptrCActs c c1 σ ks path a0 = ptrCActs c c2 σ ks path a0
  | s :: σ, k :: ks, a0, h => by
    rw [ptrCActs_cons, ptrCActs_cons, h a0 (le_refl _) k,
      ptrCActs_rest_eq c c1 c2 path σ ks (a0 + 1) (fun a' ha' => h a' (by omega))]
  | [], _, _, _ => by simp only [ptrCActs]
  | _ :: _, [], _, _ => by simp only [ptrCActs]

theorem ptrCActs_add_item (c : ECtx α) (c1 c2 : List (Path × α)) (path : Path) (X : List LEv)
    (a : Nat) (k : Node α)
    (hk2 : (ptrC c c1 k (path ++ [a]) ++ X).Perm (ptrC c c2 k (path ++ [a])))
    (hother : ∀ a', a' ≠ a → ∀ k', ptrC c c1 k' (path ++ [a']) = ptrC c c2 k' (path ++ [a'])) :
    ∀ (σ : List α) (ks : List (Node α)) (a0 : Nat), a0 ≤ a → ks[a - a0]? = some k →
      a - a0 < σ.length →
      (ptrCActs c c1 σ ks path a0 ++ X).Perm (ptrCActs c c2 σ ks path a0)
  | [], _, a0, _, _, hl => absurd hl (by simp)
  | _ :: _, [], a0, _, hk, _ => by simp at hk
  | s :: σ, k0 :: ks, a0, hle, hk, hl => by
    rw [ptrCActs_cons, ptrCActs_cons]
    by_cases ha : a0 = a
    · subst ha
      simp only [Nat.sub_self, List.getElem?_cons_zero, Option.some.injEq] at hk
      subst hk
      rw [ptrCActs_rest_eq c c1 c2 path σ ks (a0 + 1) (fun a' ha' k' => hother a' (by omega) k')]
      exact perm_mid _ hk2
    · have hlt : a0 < a := by omega
      rw [hother a0 ha k0]
      have hidx : a - a0 = (a - (a0 + 1)) + 1 := by omega
      rw [hidx, List.getElem?_cons_succ] at hk
      have hl' : a - (a0 + 1) < σ.length := by
        simp only [List.length_cons] at hl; omega
      have ih := ptrCActs_add_item c c1 c2 path X a k hk2 hother σ ks (a0 + 1) (by omega) hk hl'
      rw [List.append_assoc]
      exact List.Perm.append_left _ ih

/-- **one cut node**: caching the node `m` reached on the sampled tree at path `P` removes
exactly the mutex events of `m`'s traversal — provided no cached path is a prefix or an extension
of `P` -/
theorem ptrC_add_item (c : ECtx α) (cache : List (Path × α)) (P : Path) (v : α) {n : Node α}
    {rel : Path} {m : Node α} (h : OnT c n rel m) :
    ∀ p, P = p ++ rel → (∀ q, q <+: P → cacheGet cache q = none) →
      (∀ q, P <+: q → cacheGet cache q = none) →
      (ptrC c (cache ++ [(P, v)]) n p ++ ptrC c [] m P).Perm (ptrC c cache n p) := by
  induction h with
  | here n =>
    intro p hP h1 h2
    simp only [List.append_nil] at hP
    subst hP
    rw [ptrC_hit _ _ _ _ v (cacheGet_snoc_self _ _ _ (h1 P (List.prefix_refl _))),
      ptrC_congr c cache [] n P (fun q hq => ⟨fun _ => cacheGet_nil q, fun _ => h2 q hq⟩)]
    simp
  | chance i ks k rel m hk hsub ih =>
    intro p hP h1 h2
    have hne : p ≠ P := by
      rw [hP]; intro h; have := congrArg List.length h; simp at this
    have hnone : cacheGet cache p = none := h1 p (by rw [hP]; exact List.prefix_append _ _)
    have hnone' : cacheGet (cache ++ [(P, v)]) p = none := by
      rw [cacheGet_snoc_ne _ _ _ _ hne]; exact hnone
    rw [ptrC_chance _ _ _ _ _ hnone, ptrC_chance _ _ _ _ _ hnone',
      ptrCNth_get _ _ _ _ _ _ hk, ptrCNth_get _ _ _ _ _ _ hk]
    have i2 := ih (p ++ [c.oc i]) (by rw [hP]; simp) h1 h2
    rw [List.cons_append, List.cons_append]
    exact (i2.cons _).cons _
  | own one i ks a k rel m ho ha hk hsub ih =>
    intro p hP h1 h2
    have hne : p ≠ P := by
      rw [hP]; intro h; have := congrArg List.length h; simp at this
    have hnone : cacheGet cache p = none := h1 p (by rw [hP]; exact List.prefix_append _ _)
    have hnone' : cacheGet (cache ++ [(P, v)]) p = none := by
      rw [cacheGet_snoc_ne _ _ _ _ hne]; exact hnone
    rw [ptrC_own _ _ _ _ _ _ hnone ho, ptrC_own _ _ _ _ _ _ hnone' ho]
    have i2 := ih (p ++ [a]) (by rw [hP]; simp) h1 h2
    have hother : ∀ a', a' ≠ a → ∀ k', ptrC c (cache ++ [(P, v)]) k' (p ++ [a'])
        = ptrC c cache k' (p ++ [a']) := by
      intro a' ha' k'
      refine ptrC_congr _ _ _ k' _ (fun q hq => ?_)
      rw [cacheGet_snoc_ne _ _ _ _ ?_]
      intro hqP
      subst hqP
      rw [hP, List.prefix_append_right_inj, List.cons_prefix_cons] at hq
      exact ha' hq.1
    have j2 := ptrCActs_add_item c _ _ p _ a k i2 hother (c.strat one i) ks 0
      (Nat.zero_le _) (by simpa using hk) (by simpa using ha)
    rw [List.cons_append]
    exact (perm_mid _ j2).cons _
  | opp one i ks k rel m ho hk hsub ih =>
    intro p hP h1 h2
    have hne : p ≠ P := by
      rw [hP]; intro h; have := congrArg List.length h; simp at this
    have hnone : cacheGet cache p = none := h1 p (by rw [hP]; exact List.prefix_append _ _)
    have hnone' : cacheGet (cache ++ [(P, v)]) p = none := by
      rw [cacheGet_snoc_ne _ _ _ _ hne]; exact hnone
    rw [ptrC_opp _ _ _ _ _ _ hnone ho, ptrC_opp _ _ _ _ _ _ hnone' ho,
      ptrCNth_get _ _ _ _ _ _ hk, ptrCNth_get _ _ _ _ _ _ hk]
    have i2 := ih (p ++ [c.op i]) (by rw [hP]; simp) h1 h2
    rw [List.cons_append, List.cons_append]
    exact (i2.cons _).cons _

/-! ## a whole cut -/

/-- the mutex events of a task -/
abbrev tr (c : ECtx α) (it : EItem α) : List LEv := ptrC c [] it.node it.path

/-- **decomposition along a cut**: caching all nodes of a set of pairwise unrelated nodes of the
sampled tree removes exactly the mutex events of the traversals of these nodes -/
theorem ptrC_add_items (c : ECtx α) (root : Node α) :
    ∀ (items : List (EItem α)) (cache0 : List (Path × α)),
      (∀ it ∈ items, OnT c root it.path it.node) →
      items.Pairwise (fun x y => ApartP x.path y.path) →
      (∀ it ∈ items, ∀ e ∈ cache0, ApartP e.1 it.path) →
      (ptrC c (cache0 ++ items.map (EItem.val c)) root [] ++ items.flatMap (tr c)).Perm
        (ptrC c cache0 root [])
  | [], cache0, _, _, _ => by simp
  | x :: rest, cache0, hon, hpw, hc => by
    rw [List.map_cons, List.flatMap_cons]
    have hcache : cache0 ++ EItem.val c x :: rest.map (EItem.val c)
        = (cache0 ++ [EItem.val c x]) ++ rest.map (EItem.val c) := by simp
    rw [hcache]
    obtain ⟨hx, hrest⟩ := List.pairwise_cons.mp hpw
    have i2 := ptrC_add_items c root rest (cache0 ++ [EItem.val c x])
      (fun it h => hon it (List.mem_cons_of_mem _ h)) hrest (by
        intro it hit e he
        rcases List.mem_append.mp he with he | he
        · exact hc it (List.mem_cons_of_mem _ hit) e he
        · rw [List.mem_singleton] at he; subst he; exact hx it hit)
    have hxm : x ∈ x :: rest := List.mem_cons_self
    have a2 := ptrC_add_item c cache0 x.path (precC c [] x.node x.path).1 (hon x hxm) []
      (by simp)
      (fun q hq => (cacheGet_eq_none_iff _ _).2 fun e he heq => (hc x hxm e he).1 (heq ▸ hq))
      (fun q hq => (cacheGet_eq_none_iff _ _).2 fun e he heq => (hc x hxm e he).2 (heq ▸ hq))
    have h3 : (ptrC c (cache0 ++ [EItem.val c x] ++ rest.map (EItem.val c)) root [] ++
        (tr c x ++ rest.flatMap (tr c))).Perm
        ((ptrC c (cache0 ++ [EItem.val c x] ++ rest.map (EItem.val c)) root [] ++
          rest.flatMap (tr c)) ++ tr c x) := perm_rot _ _ _
    exact h3.trans ((i2.append_right _).trans a2)

/-- the tasks: each runs the plain traversal of its node -/
theorem eTaskTraces_pure (c : ECtx α) :
    ∀ (items : List (EItem α)) (d : DrawSt α), ECons c d →
      (eTaskTraces c items d).1 = items.map (tr c)
  | [], d, _ => by simp [eTaskTraces]
  | it :: rest, d, hd => by
    obtain ⟨h1, h2⟩ := etrace_pure c it.node it.path d hd
    rw [Lk.eTaskTraces_cons, h1, eTaskTraces_pure c rest _ h2, List.map_cons]

end LkP

/-- **frontier split invariance of the mutex events**.

`hA` (added; the statement is false without it, see below): a node of the updating player on the
sampled tree has at most as many children as the pass context's strategy vector has entries — the
hypothesis of `externalMultiEffects_spec`, discharged for the solver's contexts in
`external_pool_closing_perm_etrace_pass`.  (`hg` is not needed under `hA`.) -/
theorem external_pool_closing_perm_etrace (g : Game α) (hg : GameWF g) (c : ECtx α) (target : Nat)
    (log : List (DrawRec α))
    (hA : ∀ P one i ks, OnT c g.root P (.player one i ks) → (one == c.first) = true →
      ks.length ≤ (c.strat one i).length) :
    ((externalPoolTraces g c target log).flatten ++ externalClosingTrace g c target log).Perm
      (etrace c g.root { log := log }).1 := by
  have _ := hg
  have e1 : externalPoolTraces g c target log =
      (eTaskTraces c
        (eThreshold c target g.root.size (2 * g.root.size + 2) [⟨[], g.root⟩] [] { log := log }).1
        (eThreshold c target g.root.size (2 * g.root.size + 2) [⟨[], g.root⟩] []
          { log := log }).2.2).1 := rfl
  have e2 : externalClosingTrace g c target log =
      (etraceC c
        (eRunTasks c
          (eThreshold c target g.root.size (2 * g.root.size + 2) [⟨[], g.root⟩] []
            { log := log }).1
          (eThreshold c target g.root.size (2 * g.root.size + 2) [⟨[], g.root⟩] []
            { log := log }).2.2).1 g.root []
        (eRunTasks c
          (eThreshold c target g.root.size (2 * g.root.size + 2) [⟨[], g.root⟩] []
            { log := log }).1
          (eThreshold c target g.root.size (2 * g.root.size + 2) [⟨[], g.root⟩] []
            { log := log }).2.2).2.2).1 := rfl
  rw [e1, e2]
  obtain ⟨rsT, t1, -, t3⟩ := eThreshold_spec c g.root target g.root.size hA
    (2 * g.root.size + 2) [⟨[], g.root⟩] [] { log := log } (ECons.init c log) (ECut.root c g.root)
  have hcut := t3.left
  have hd1 : ECons c (({ log := log } : DrawSt α).run c rsT) := (ECons.init c log).run rsT
  rw [t1]
  generalize (eThreshold c target g.root.size (2 * g.root.size + 2) [⟨[], g.root⟩] []
    { log := log }).1 = queue at hcut ⊢
  rw [LkP.eTaskTraces_pure c queue _ hd1, eRunTasks_pure c queue _ hd1]
  simp only
  rw [(LkP.etraceC_pure c _ g.root [] _ (hd1.run _)).1,
    (LkP.etrace_pure c g.root [] _ (ECons.init c log)).1, ← List.flatMap_def]
  have i2 := LkP.ptrC_add_items c g.root queue [] hcut.1 hcut.2 (by simp)
  rw [List.nil_append] at i2
  exact List.perm_append_comm.trans i2

/-- the same for the pass contexts the solver builds: on an accepted game with a well-shaped
solver state the arity hypothesis holds -/
theorem external_pool_closing_perm_etrace_pass (g : Game α) (hg : GameWF g) (first : Bool)
    (draw : DrawFn α) (it : Nat) (s : SolveSt α) (hs : EShape g s) (target : Nat)
    (log : List (DrawRec α)) :
    ((externalPoolTraces g (externalCtx g first draw it s) target log).flatten ++
        externalClosingTrace g (externalCtx g first draw it s) target log).Perm
      (etrace (externalCtx g first draw it s) g.root { log := log }).1 :=
  external_pool_closing_perm_etrace g hg (externalCtx g first draw it s) target log
    (arity_of_shape hg.nodes hs first draw it)

section Counterexample
/-! Why `hA` is needed in `external_pool_closing_perm_etrace` although the game is accepted: the
pass context is arbitrary there.  The root (infoset `0` of player one, two children) is visited
with an *empty* strategy vector, so the plain traversal locks and releases the root's infoset and
visits no child (2 events); with task target `3` the frontier construction hands the first child
(a chance node) to the pool, whose task locks and releases the chance infoset (2 more events). -/

local instance instTranscRatLkP : Transc ℚ := ⟨id, id, id, fun x _ => x, 0⟩

private def cexGame : Game ℚ where
  chance := [[1/2, 1/2]]
  p1 := [⟨0, [0, 1], none⟩, ⟨1, [0, 1], some (0, 1)⟩]
  p2 := []
  s1 := []
  s2 := []
  root := .player true 0 [.chance 0 [.term 1, .term 2], .player true 1 [.term 3, .term 4]]

private def cexCtx : ECtx ℚ := ⟨[[1/2, 1/2]], true, fun _ _ => [], fun _ _ _ _ => 0, 0, 0⟩

private theorem cexGame_wf : GameWF cexGame where
  chancePos := by decide +kernel
  nodes := by simp [NodeOK, NodeOKL, cexGame, Game.infos]
  recall := fun me => ⟨fun i => if i = 1 then [(0, 1)] else [], by
    cases me <;> simp [PR, PRL, PRD, cexGame], by
    intro i e he
    simp only at he
    split_ifs at he with h
    · simp only [List.mem_singleton] at he; subst he; subst h; decide
    · simp at he⟩
  tables1 := ⟨by decide, by decide, by decide, by decide⟩
  tables2 := ⟨by decide, by decide, by decide, by decide⟩
  actsTwo := by intro me; cases me <;> decide

example :
    (externalPoolTraces cexGame cexCtx 3 []).flatten ++ externalClosingTrace cexGame cexCtx 3 []
      = [.acq (.chance 0), .rel (.chance 0), .tryAcq (.player true 0), .rel (.player true 0)] ∧
    (etrace cexCtx cexGame.root { log := [] }).1
      = [.tryAcq (.player true 0), .rel (.player true 0)] := by
  decide +kernel

/-- the statement without the arity hypothesis is false -/
theorem external_pool_closing_perm_etrace_needs_arity :
    ¬ ∀ (g : Game ℚ), GameWF g → ∀ (c : ECtx ℚ) (target : Nat) (log : List (DrawRec ℚ)),
      ((externalPoolTraces g c target log).flatten ++ externalClosingTrace g c target log).Perm
        (etrace c g.root { log := log }).1 := by
  intro h
  have hl := (h cexGame cexGame_wf cexCtx 3 []).length_eq
  revert hl
  decide +kernel

end Counterexample

end Cfr
