import CfrVerif.Proofs.RateTree
/-!
# What one `vrec` traversal (either mode) adds to the regrets of one infoset

For every infoset `I` of player `me`, with `δ a := effSum es me I .regret a` the total the
traversal adds to `cum_regret[a]`:

* `vrec_orth` : `Σ_a σ(I,a)·δ a = 0` (`σ(I,·)` the current strategy, summing to one);
* `vrec_bnd`  : `|δ a| ≤ (hi − lo)·pc·p_opp` under perfect recall (`GoodR me I`), for payoffs in
  `[lo, hi]` — in sampled mode provided the draws are in range (`DrawLt`).
-/
set_option linter.unusedSectionVars false
namespace Cfr
open Finset

/-! ## bookkeeping -/

/-- every cached chance sample is an index into its probability table -/
def DOK (ch : List (List ℝ)) (d : DrawSt ℝ) : Prop :=
  ∀ i k, assocGet d.chance i = some k → k < (ch.getD i []).length

theorem DOK.init (ch : List (List ℝ)) (log : List (DrawRec ℝ)) : DOK ch { log := log } := by
  intro i k h
  simp [assocGet] at h

theorem sampleChance_ok (draw : DrawFn ℝ) (hd : DrawLt draw) (ch : List (List ℝ)) (pass i : ℕ)
    (d : DrawSt ℝ) (hne : ch.getD i [] ≠ []) (h : DOK ch d) :
    (sampleChance draw pass (ch.getD i []) i d).1 < (ch.getD i []).length ∧
      DOK ch (sampleChance draw pass (ch.getD i []) i d).2 ∧
      (sampleChance draw pass (ch.getD i []) i d).2.player = d.player := by
  cases hc : assocGet d.chance i with
  | some k =>
    simp only [sampleChance, hc]
    exact ⟨h i k hc, h, trivial⟩
  | none =>
    simp only [sampleChance, hc]
    refine ⟨hd _ _ _ _ hne, ?_, trivial⟩
    intro j k hj
    simp only [assocGet_cons_r] at hj
    split_ifs at hj with hij
    · subst hij
      simp only [Option.some.injEq] at hj
      subst hj
      exact hd _ _ _ _ hne
    · exact h j k hj

theorem effSum_cons_regret (one : Bool) (i k : ℕ) (δ : ℝ) (es : List (Eff ℝ)) (me : Bool)
    (I a : ℕ) :
    effSum (⟨one, i, .regret, k, δ⟩ :: es) me I Slot.regret a
      = (if one = me ∧ i = I ∧ k = a then δ else 0) + effSum es me I Slot.regret a := by
  rw [effSum_cons]
  simp

theorem effSum_cons_regret_self (me : Bool) (I k : ℕ) (δ : ℝ) (es : List (Eff ℝ)) (a : ℕ) :
    effSum (⟨me, I, .regret, k, δ⟩ :: es) me I Slot.regret a
      = (if k = a then δ else 0) + effSum es me I Slot.regret a := by
  rw [effSum_cons]
  simp

theorem effSum_cons_regret_ne (one : Bool) (i k : ℕ) (δ : ℝ) (es : List (Eff ℝ)) (me : Bool)
    (I a : ℕ) (h : ¬ (one = me ∧ i = I)) :
    effSum (⟨one, i, .regret, k, δ⟩ :: es) me I Slot.regret a = effSum es me I Slot.regret a := by
  rw [effSum_cons_regret, if_neg (fun h' => h ⟨h'.1, h'.2.1⟩), zero_add]

theorem vrec_chance_s (c : VCtx ℝ) (hs : c.sampled = true) (i : ℕ) (ks : List (Node ℝ))
    (pc p1 p2 : ℝ) (d : DrawSt ℝ) :
    vrec c (.chance i ks) pc p1 p2 d =
      vrecNth c ks (sampleChance c.draw c.pass (c.ch.getD i []) i d).1 pc p1 p2
        (sampleChance c.draw c.pass (c.ch.getD i []) i d).2 := by
  simp only [vrec, hs, if_true]

theorem vrecActs_cons' (c : VCtx ℝ) (one : Bool) (i : ℕ) (mult s : ℝ) (σ : List ℝ) (k : Node ℝ)
    (ks : List (Node ℝ)) (pc p1 p2 : ℝ) (d : DrawSt ℝ) (a : ℕ) (eo ex : ℝ) :
    vrecActs c one i mult (s :: σ) (k :: ks) pc p1 p2 d a eo ex =
      (let r := vrec c k pc (if one then p1 * s else p1) (if one then p2 else p2 * s) d
       let r' := vrecActs c one i mult σ ks pc p1 p2 r.2.2 (a + 1) (eo + s * r.1)
          (ex + r.1 * mult * s)
       (r'.1, r'.2.1, r.2.1 ++ ⟨one, i, .regret, a, r.1 * mult⟩ :: r'.2.2.1, r'.2.2.2)) := by
  rw [vrecActs_cons]
  cases one <;> simp

theorem vrecActs_nil_left (c : VCtx ℝ) (one : Bool) (i : ℕ) (mult : ℝ) (ks : List (Node ℝ))
    (pc p1 p2 : ℝ) (d : DrawSt ℝ) (a : ℕ) (eo ex : ℝ) :
    vrecActs c one i mult [] ks pc p1 p2 d a eo ex = (eo, ex, [], d) := by
  simp [vrecActs]

theorem vrecChance_nil_left (c : VCtx ℝ) (ks : List (Node ℝ)) (pc p1 p2 : ℝ) (d : DrawSt ℝ)
    (acc : ℝ) : vrecChance c [] ks pc p1 p2 d acc = (acc, [], d) := by
  simp [vrecChance]

/-! ## nothing is added to an infoset the subtree does not contain -/

mutual
theorem vrec_zero (c : VCtx ℝ) (me : Bool) (I a : ℕ) :
    ∀ (n : Node ℝ) (pc p1 p2 : ℝ) (d : DrawSt ℝ), ¬ Has me I n →
      effSum (vrec c n pc p1 p2 d).2.1 me I Slot.regret a = 0
  | .term p, pc, p1, p2, d, _ => by simp [vrec_term]
  | .chance i ks, pc, p1, p2, d, h => by
    have hk : ¬ HasL me I ks := by simpa [Has] using h
    by_cases hs : c.sampled = true
    · rw [vrec_chance_s c hs]
      exact vrecNth_zero c me I a ks _ pc p1 p2 _ hk
    · rw [vrec_chance c (by simpa using hs)]
      exact vrecChance_zero c me I a _ ks pc p1 p2 d 0 hk
  | .player one i ks, pc, p1, p2, d, h => by
    obtain ⟨h1, hk⟩ := (by simpa [Has, not_or] using h : ¬ (one = me ∧ i = I) ∧ ¬ HasL me I ks)
    rw [vrec_player]
    simp only [effSum_append, effSum_stratEffs_regret, zero_add, effSum_subEffs_regret]
    rw [vrecActs_zero c me I a one i _ _ ks pc p1 p2 d 0 0 0 h1 hk, if_neg (by tauto)]
    simp
theorem vrecNth_zero (c : VCtx ℝ) (me : Bool) (I a : ℕ) :
    ∀ (ks : List (Node ℝ)) (k : ℕ) (pc p1 p2 : ℝ) (d : DrawSt ℝ), ¬ HasL me I ks →
      effSum (vrecNth c ks k pc p1 p2 d).2.1 me I Slot.regret a = 0
  | [], _, _, _, _, d, _ => by simp [vrecNth]
  | k :: _, 0, pc, p1, p2, d, h => by
    simp only [vrecNth]
    exact vrec_zero c me I a k pc p1 p2 d (fun hk => h (by simp [HasL, hk]))
  | _ :: ks, n + 1, pc, p1, p2, d, h => by
    simp only [vrecNth]
    exact vrecNth_zero c me I a ks n pc p1 p2 d (fun hk => h (by simp [HasL, hk]))
theorem vrecChance_zero (c : VCtx ℝ) (me : Bool) (I a : ℕ) :
    ∀ (ps : List ℝ) (ks : List (Node ℝ)) (pc p1 p2 : ℝ) (d : DrawSt ℝ) (acc : ℝ),
      ¬ HasL me I ks → effSum (vrecChance c ps ks pc p1 p2 d acc).2.1 me I Slot.regret a = 0
  | p :: ps, k :: ks, pc, p1, p2, d, acc, h => by
    rw [vrecChance_cons]
    simp only [effSum_append]
    rw [vrec_zero c me I a k _ _ _ _ (fun hk => h (by simp [HasL, hk])),
      vrecChance_zero c me I a ps ks _ _ _ _ _ (fun hk => h (by simp [HasL, hk]))]
    simp
  | [], _, _, _, _, d, _, _ => by simp [vrecChance]
  | _ :: _, [], _, _, _, d, _, _ => by simp [vrecChance]
theorem vrecActs_zero (c : VCtx ℝ) (me : Bool) (I a : ℕ) (one : Bool) (i : ℕ) (mult : ℝ) :
    ∀ (ss : List ℝ) (ks : List (Node ℝ)) (pc p1 p2 : ℝ) (d : DrawSt ℝ) (k : ℕ) (eo ex : ℝ),
      ¬ (one = me ∧ i = I) → ¬ HasL me I ks →
      effSum (vrecActs c one i mult ss ks pc p1 p2 d k eo ex).2.2.1 me I Slot.regret a = 0
  | s :: ss, n :: ks, pc, p1, p2, d, k, eo, ex, h1, h => by
    rw [vrecActs_cons']
    simp only [effSum_append, effSum_cons_regret]
    rw [vrec_zero c me I a n _ _ _ _ (fun hk => h (by simp [HasL, hk])),
      vrecActs_zero c me I a one i mult ss ks _ _ _ _ _ _ _ h1 (fun hk => h (by simp [HasL, hk])),
      if_neg (by tauto)]
    simp
  | [], _, _, _, _, d, _, _, _, _, _ => by simp [vrecActs]
  | _ :: _, [], _, _, _, d, _, _, _, _, _ => by simp [vrecActs]
end

/-! ## values stay in the payoff range -/

mutual
theorem vrec_rng (c : VCtx ℝ) (hdr : c.sampled = true → DrawLt c.draw) (lo hi : ℝ) :
    ∀ (n : Node ℝ) (pc p1 p2 : ℝ) (d : DrawSt ℝ), TFit c.ch c.strat n → PayIn lo hi n →
      DOK c.ch d →
      lo ≤ (vrec c n pc p1 p2 d).1 ∧ (vrec c n pc p1 p2 d).1 ≤ hi ∧
        DOK c.ch (vrec c n pc p1 p2 d).2.2
  | .term p, pc, p1, p2, d, _, hp, hd => by
    rw [vrec_term]
    simp only [PayIn] at hp
    exact ⟨hp.1, hp.2, hd⟩
  | .chance i ks, pc, p1, p2, d, hf, hp, hd => by
    obtain ⟨hl, hne, hdist, hk⟩ := (by simpa [TFit] using hf :
      (c.ch.getD i []).length = ks.length ∧ ks ≠ [] ∧ IsDist (c.ch.getD i []) ∧
        TFitL c.ch c.strat ks)
    have hpk : PayInL lo hi ks := by simpa [PayIn] using hp
    by_cases hs : c.sampled = true
    · rw [vrec_chance_s c hs]
      have hne' : c.ch.getD i [] ≠ [] := by
        intro h0; rw [h0] at hl; exact hne (List.eq_nil_of_length_eq_zero hl.symm)
      obtain ⟨s1, s2, -⟩ := sampleChance_ok c.draw (hdr hs) c.ch c.pass i d hne' hd
      exact vrecNth_rng c hdr lo hi ks _ pc p1 p2 _ hk hpk s2 (hl ▸ s1)
    · rw [vrec_chance c (by simpa using hs)]
      obtain ⟨r1, r2, r3⟩ := vrecChance_rng c hdr lo hi _ ks pc p1 p2 d 0 hdist.1 hl hk hpk hd
      rw [hdist.2] at r1 r2
      exact ⟨by linarith, by linarith, r3⟩
  | .player one i ks, pc, p1, p2, d, hf, hp, hd => by
    obtain ⟨hl, hne, hdist, hk⟩ := (by simpa [TFit] using hf :
      (c.strat one i).length = ks.length ∧ ks ≠ [] ∧ IsDist (c.strat one i) ∧
        TFitL c.ch c.strat ks)
    have hpk : PayInL lo hi ks := by simpa [PayIn] using hp
    rw [vrec_player]
    obtain ⟨r1, r2, -, r4⟩ := vrecActs_rng c hdr lo hi one i
      (if one then pc * p2 else -p1 * pc) _ ks pc p1 p2 d 0 0 0 hdist.1 hl hk hpk hd
    rw [hdist.2] at r1 r2
    exact ⟨by simpa using r1, by simpa using r2, r4⟩
theorem vrecNth_rng (c : VCtx ℝ) (hdr : c.sampled = true → DrawLt c.draw) (lo hi : ℝ) :
    ∀ (ks : List (Node ℝ)) (k : ℕ) (pc p1 p2 : ℝ) (d : DrawSt ℝ), TFitL c.ch c.strat ks →
      PayInL lo hi ks → DOK c.ch d → k < ks.length →
      lo ≤ (vrecNth c ks k pc p1 p2 d).1 ∧ (vrecNth c ks k pc p1 p2 d).1 ≤ hi ∧
        DOK c.ch (vrecNth c ks k pc p1 p2 d).2.2
  | [], _, _, _, _, d, _, _, _, hlt => by simp at hlt
  | k :: _, 0, pc, p1, p2, d, hf, hp, hd, _ => by
    simp only [vrecNth]
    simp only [TFitL] at hf
    simp only [PayInL] at hp
    exact vrec_rng c hdr lo hi k pc p1 p2 d hf.1 hp.1 hd
  | _ :: ks, n + 1, pc, p1, p2, d, hf, hp, hd, hlt => by
    simp only [vrecNth]
    simp only [TFitL] at hf
    simp only [PayInL] at hp
    exact vrecNth_rng c hdr lo hi ks n pc p1 p2 d hf.2 hp.2 hd (by simpa using hlt)
theorem vrecChance_rng (c : VCtx ℝ) (hdr : c.sampled = true → DrawLt c.draw) (lo hi : ℝ) :
    ∀ (ps : List ℝ) (ks : List (Node ℝ)) (pc p1 p2 : ℝ) (d : DrawSt ℝ) (acc : ℝ),
      (∀ p ∈ ps, 0 ≤ p) → ps.length = ks.length → TFitL c.ch c.strat ks → PayInL lo hi ks →
      DOK c.ch d →
      acc + lo * ps.sum ≤ (vrecChance c ps ks pc p1 p2 d acc).1 ∧
        (vrecChance c ps ks pc p1 p2 d acc).1 ≤ acc + hi * ps.sum ∧
        DOK c.ch (vrecChance c ps ks pc p1 p2 d acc).2.2
  | p :: ps, k :: ks, pc, p1, p2, d, acc, hnn, hl, hf, hp, hd => by
    simp only [TFitL] at hf
    simp only [PayInL] at hp
    have hp0 : 0 ≤ p := hnn p List.mem_cons_self
    rw [vrecChance_cons]
    obtain ⟨a1, a2, a3⟩ := vrec_rng c hdr lo hi k (pc * p) p1 p2 d hf.1 hp.1 hd
    obtain ⟨b1, b2, b3⟩ := vrecChance_rng c hdr lo hi ps ks pc p1 p2
      (vrec c k (pc * p) p1 p2 d).2.2 (acc + p * (vrec c k (pc * p) p1 p2 d).1)
      (fun q hq => hnn q (List.mem_cons_of_mem _ hq)) (by simpa using hl) hf.2 hp.2 a3
    simp only [List.sum_cons]
    refine ⟨?_, ?_, b3⟩
    · nlinarith [mul_le_mul_of_nonneg_left a1 hp0]
    · nlinarith [mul_le_mul_of_nonneg_left a2 hp0]
  | [], [], _, _, _, d, acc, _, _, _, _, hd => by
    simp only [vrecChance, List.sum_nil, mul_zero, add_zero]
    exact ⟨le_rfl, le_rfl, hd⟩
  | [], _ :: _, _, _, _, _, _, _, hl, _, _, _ => by simp at hl
  | _ :: _, [], _, _, _, _, _, _, hl, _, _, _ => by simp at hl
theorem vrecActs_rng (c : VCtx ℝ) (hdr : c.sampled = true → DrawLt c.draw) (lo hi : ℝ)
    (one : Bool) (i : ℕ) (mult : ℝ) :
    ∀ (ss : List ℝ) (ks : List (Node ℝ)) (pc p1 p2 : ℝ) (d : DrawSt ℝ) (k : ℕ) (eo ex : ℝ),
      (∀ s ∈ ss, 0 ≤ s) → ss.length = ks.length → TFitL c.ch c.strat ks → PayInL lo hi ks →
      DOK c.ch d →
      eo + lo * ss.sum ≤ (vrecActs c one i mult ss ks pc p1 p2 d k eo ex).1 ∧
        (vrecActs c one i mult ss ks pc p1 p2 d k eo ex).1 ≤ eo + hi * ss.sum ∧
        (vrecActs c one i mult ss ks pc p1 p2 d k eo ex).2.1
          = ex + mult * ((vrecActs c one i mult ss ks pc p1 p2 d k eo ex).1 - eo) ∧
        DOK c.ch (vrecActs c one i mult ss ks pc p1 p2 d k eo ex).2.2.2
  | s :: ss, n :: ks, pc, p1, p2, d, k, eo, ex, hnn, hl, hf, hp, hd => by
    simp only [TFitL] at hf
    simp only [PayInL] at hp
    have hs0 : 0 ≤ s := hnn s List.mem_cons_self
    rw [vrecActs_cons']
    obtain ⟨a1, a2, a3⟩ := vrec_rng c hdr lo hi n pc (if one then p1 * s else p1)
      (if one then p2 else p2 * s) d hf.1 hp.1 hd
    obtain ⟨b1, b2, b3, b4⟩ := vrecActs_rng c hdr lo hi one i mult ss ks pc p1 p2
      (vrec c n pc (if one then p1 * s else p1) (if one then p2 else p2 * s) d).2.2 (k + 1)
      (eo + s * (vrec c n pc (if one then p1 * s else p1) (if one then p2 else p2 * s) d).1)
      (ex + (vrec c n pc (if one then p1 * s else p1) (if one then p2 else p2 * s) d).1 * mult * s)
      (fun q hq => hnn q (List.mem_cons_of_mem _ hq)) (by simpa using hl) hf.2 hp.2 a3
    simp only [List.sum_cons]
    refine ⟨?_, ?_, ?_, b4⟩
    · nlinarith [mul_le_mul_of_nonneg_left a1 hs0]
    · nlinarith [mul_le_mul_of_nonneg_left a2 hs0]
    · rw [b3]; ring
  | [], [], _, _, _, d, _, eo, ex, _, _, _, _, hd => by
    simp only [vrecActs, List.sum_nil, mul_zero, add_zero, sub_self]
    exact ⟨le_rfl, le_rfl, trivial, hd⟩
  | [], _ :: _, _, _, _, _, _, _, _, _, hl, _, _, _ => by simp at hl
  | _ :: _, [], _, _, _, _, _, _, _, _, hl, _, _, _ => by simp at hl
end

/-! ## orthogonality to the current strategy -/

/-- `Σ_{a < |σ|} σ_a · f a` -/
noncomputable def dotE (σ : List ℝ) (f : ℕ → ℝ) : ℝ := ∑ a ∈ range σ.length, σ.getD a 0 * f a

theorem dotE_add (σ : List ℝ) (f g : ℕ → ℝ) :
    dotE σ (fun a => f a + g a) = dotE σ f + dotE σ g := by
  unfold dotE
  rw [← Finset.sum_add_distrib]
  apply Finset.sum_congr rfl
  intro a _
  ring

theorem dotE_zero (σ : List ℝ) : dotE σ (fun _ => 0) = 0 := by
  simp [dotE]

theorem dotE_single (σ : List ℝ) (k : ℕ) (u : ℝ) (hk : k < σ.length) :
    dotE σ (fun a => if k = a then u else 0) = σ.getD k 0 * u := by
  unfold dotE
  simp only [mul_ite, mul_zero]
  rw [Finset.sum_ite_eq, if_pos (Finset.mem_range.mpr hk)]

theorem dotE_const_lt (σ : List ℝ) (u : ℝ) :
    dotE σ (fun a => if a < σ.length then u else 0) = σ.sum * u := by
  unfold dotE
  rw [← sum_range_getD_r σ, Finset.sum_mul]
  apply Finset.sum_congr rfl
  intro a ha
  simp only [if_pos (Finset.mem_range.mp ha)]

theorem drop_eq_cons {σ : List ℝ} {k : ℕ} {s : ℝ} {ss : List ℝ} (h : s :: ss = σ.drop k) :
    k < σ.length ∧ s = σ.getD k 0 ∧ ss = σ.drop (k + 1) := by
  have hk : k < σ.length := by
    by_contra hc
    rw [List.drop_eq_nil_of_le (not_lt.mp hc)] at h
    exact List.cons_ne_nil _ _ h
  rw [List.drop_eq_getElem_cons hk] at h
  obtain ⟨h1, h2⟩ := List.cons.inj h
  refine ⟨hk, ?_, h2⟩
  rw [h1, List.getD_eq_getElem?_getD]
  simp [hk]

mutual
theorem vrec_orth (c : VCtx ℝ) (me : Bool) (I : ℕ) (hsum : (c.strat me I).sum = 1) :
    ∀ (n : Node ℝ) (pc p1 p2 : ℝ) (d : DrawSt ℝ),
      dotE (c.strat me I) (fun a => effSum (vrec c n pc p1 p2 d).2.1 me I Slot.regret a) = 0
  | .term p, pc, p1, p2, d => by simp [vrec_term, dotE]
  | .chance i ks, pc, p1, p2, d => by
    by_cases hs : c.sampled = true
    · rw [vrec_chance_s c hs]
      exact vrecNth_orth c me I hsum ks _ pc p1 p2 _
    · rw [vrec_chance c (by simpa using hs)]
      exact vrecChance_orth c me I hsum _ ks pc p1 p2 d 0
  | .player one i ks, pc, p1, p2, d => by
    rw [vrec_player]
    simp only [effSum_append, effSum_stratEffs_regret, zero_add, effSum_subEffs_regret]
    rw [dotE_add, vrecActs_orth c me I hsum one i _ _ ks pc p1 p2 d 0 0 0
      (fun h => by rw [h.1, h.2]; simp)]
    by_cases h : one = me ∧ i = I
    · obtain ⟨rfl, rfl⟩ := h
      simp only [and_self, if_true, true_and, sub_zero]
      rw [dotE_const_lt, hsum]
      ring
    · have e : ∀ a, (one = me ∧ i = I ∧ a < (c.strat one i).length) ↔ False := by
        intro a; constructor
        · rintro ⟨h1, h2, _⟩; exact h ⟨h1, h2⟩
        · exact False.elim
      simp only [if_neg h, e, if_false, dotE_zero, add_zero]
theorem vrecNth_orth (c : VCtx ℝ) (me : Bool) (I : ℕ) (hsum : (c.strat me I).sum = 1) :
    ∀ (ks : List (Node ℝ)) (k : ℕ) (pc p1 p2 : ℝ) (d : DrawSt ℝ),
      dotE (c.strat me I) (fun a => effSum (vrecNth c ks k pc p1 p2 d).2.1 me I Slot.regret a) = 0
  | [], _, _, _, _, d => by simp [vrecNth, dotE]
  | k :: _, 0, pc, p1, p2, d => by
    simp only [vrecNth]
    exact vrec_orth c me I hsum k pc p1 p2 d
  | _ :: ks, n + 1, pc, p1, p2, d => by
    simp only [vrecNth]
    exact vrecNth_orth c me I hsum ks n pc p1 p2 d
theorem vrecChance_orth (c : VCtx ℝ) (me : Bool) (I : ℕ) (hsum : (c.strat me I).sum = 1) :
    ∀ (ps : List ℝ) (ks : List (Node ℝ)) (pc p1 p2 : ℝ) (d : DrawSt ℝ) (acc : ℝ),
      dotE (c.strat me I)
        (fun a => effSum (vrecChance c ps ks pc p1 p2 d acc).2.1 me I Slot.regret a) = 0
  | p :: ps, k :: ks, pc, p1, p2, d, acc => by
    rw [vrecChance_cons]
    simp only [effSum_append]
    rw [dotE_add, vrec_orth c me I hsum k, vrecChance_orth c me I hsum ps ks]
    simp
  | [], _, _, _, _, d, _ => by simp [vrecChance, dotE]
  | _ :: _, [], _, _, _, d, _ => by simp [vrecChance, dotE]
theorem vrecActs_orth (c : VCtx ℝ) (me : Bool) (I : ℕ) (hsum : (c.strat me I).sum = 1)
    (one : Bool) (i : ℕ) (mult : ℝ) :
    ∀ (ss : List ℝ) (ks : List (Node ℝ)) (pc p1 p2 : ℝ) (d : DrawSt ℝ) (k : ℕ) (eo ex : ℝ),
      (one = me ∧ i = I → ss = (c.strat me I).drop k) →
      dotE (c.strat me I)
        (fun a => effSum (vrecActs c one i mult ss ks pc p1 p2 d k eo ex).2.2.1 me I Slot.regret a)
        = if one = me ∧ i = I then (vrecActs c one i mult ss ks pc p1 p2 d k eo ex).2.1 - ex else 0
  | s :: ss, n :: ks, pc, p1, p2, d, k, eo, ex, hss => by
    rw [vrecActs_cons']
    simp only [effSum_append, effSum_cons_regret]
    rw [dotE_add, dotE_add, vrec_orth c me I hsum n]
    by_cases h : one = me ∧ i = I
    · obtain ⟨hk, hs, hss'⟩ := drop_eq_cons (hss h)
      rw [vrecActs_orth c me I hsum one i mult ss ks _ _ _ _ _ _ _ (fun _ => hss')]
      simp only [h, and_self, if_true, true_and]
      rw [dotE_single _ _ _ hk, ← hs]
      ring
    · rw [vrecActs_orth c me I hsum one i mult ss ks _ _ _ _ _ _ _ (fun h' => absurd h' h)]
      have e : ∀ a, (one = me ∧ i = I ∧ k = a) ↔ False := by
        intro a; constructor
        · rintro ⟨h1, h2, _⟩; exact h ⟨h1, h2⟩
        · exact False.elim
      simp only [if_neg h, e, if_false, dotE_zero, add_zero]
  | [], _, _, _, _, d, _, _, ex, _ => by
    rw [vrecActs_nil_left]
    simp [dotE]
  | _ :: _, [], _, _, _, d, _, _, ex, _ => by
    rw [vrecActs_nil_right]
    simp [dotE]
end

/-! ## boundedness -/

/-- below an own node of `I` whose children contain no further node of `I`, the action loop adds
the (scaled) value of child `a` to cell `a` -/
theorem vrecActs_self (c : VCtx ℝ) (hdr : c.sampled = true → DrawLt c.draw) (me : Bool) (I : ℕ)
    (lo hi : ℝ) (hD : lo ≤ hi) (mult : ℝ) :
    ∀ (ss : List ℝ) (ks : List (Node ℝ)) (pc p1 p2 : ℝ) (d : DrawSt ℝ) (k : ℕ) (eo ex : ℝ),
      ss.length = ks.length → ¬ HasL me I ks → TFitL c.ch c.strat ks → PayInL lo hi ks →
      DOK c.ch d →
      ∀ a, ∃ u, lo ≤ u ∧ u ≤ hi ∧
        effSum (vrecActs c me I mult ss ks pc p1 p2 d k eo ex).2.2.1 me I Slot.regret a
          = if k ≤ a ∧ a < k + ks.length then u * mult else 0
  | s :: ss, n :: ks, pc, p1, p2, d, k, eo, ex, hl, hh, hf, hp, hd, a => by
    simp only [TFitL] at hf
    simp only [PayInL] at hp
    rw [vrecActs_cons']
    simp only [effSum_append, effSum_cons_regret_self]
    obtain ⟨a1, a2, a3⟩ := vrec_rng c hdr lo hi n pc (if me then p1 * s else p1)
      (if me then p2 else p2 * s) d hf.1 hp.1 hd
    rw [vrec_zero c me I a n _ _ _ _ (fun hk => hh (by simp [HasL, hk]))]
    obtain ⟨u, u1, u2, hu⟩ := vrecActs_self c hdr me I lo hi hD mult ss ks pc p1 p2
      (vrec c n pc (if me then p1 * s else p1) (if me then p2 else p2 * s) d).2.2 (k + 1)
      (eo + s * (vrec c n pc (if me then p1 * s else p1) (if me then p2 else p2 * s) d).1)
      (ex + (vrec c n pc (if me then p1 * s else p1) (if me then p2 else p2 * s) d).1 * mult * s)
      (by simpa using hl) (fun hk => hh (by simp [HasL, hk])) hf.2 hp.2 a3 a
    rw [hu]
    by_cases hka : k = a
    · refine ⟨_, a1, a2, ?_⟩
      have c2 : ¬ (k + 1 ≤ a ∧ a < k + 1 + ks.length) := by omega
      have c3 : k ≤ a ∧ a < k + (n :: ks).length := by
        simp only [List.length_cons]; omega
      rw [if_pos hka, if_neg c2, if_pos c3]
      ring
    · refine ⟨u, u1, u2, ?_⟩
      rw [if_neg hka]
      by_cases c2 : k + 1 ≤ a ∧ a < k + 1 + ks.length
      · have c3 : k ≤ a ∧ a < k + (n :: ks).length := by
          simp only [List.length_cons]; omega
        rw [if_pos c2, if_pos c3]
        ring
      · have c3 : ¬ (k ≤ a ∧ a < k + (n :: ks).length) := by
          simp only [List.length_cons]; omega
        rw [if_neg c2, if_neg c3]
        ring
  | [], [], _, _, _, d, k, _, _, _, _, _, _, _, a => by
    refine ⟨lo, le_rfl, hD, ?_⟩
    rw [vrecActs_nil_left]
    simp
  | [], _ :: _, _, _, _, _, _, _, _, hl, _, _, _, _, _ => by simp at hl
  | _ :: _, [], _, _, _, _, _, _, _, hl, _, _, _, _, _ => by simp at hl

mutual
theorem vrec_bnd (c : VCtx ℝ) (hdr : c.sampled = true → DrawLt c.draw) (me : Bool) (I : ℕ)
    (lo hi : ℝ) (hD : lo ≤ hi) :
    ∀ (n : Node ℝ) (pc p1 p2 : ℝ) (d : DrawSt ℝ), 0 ≤ pc → 0 ≤ p1 → 0 ≤ p2 → GoodR me I n →
      TFit c.ch c.strat n → PayIn lo hi n → DOK c.ch d →
      ∀ a, |effSum (vrec c n pc p1 p2 d).2.1 me I Slot.regret a|
        ≤ (hi - lo) * (pc * (if me then p2 else p1))
  | .term p, pc, p1, p2, d, h0, h1, h2, _, _, _, _, a => by
    rw [vrec_term]
    simp only [effSum_nil, abs_zero]
    exact mul_nonneg (sub_nonneg.mpr hD) (mul_nonneg h0 (by split_ifs <;> assumption))
  | .chance i ks, pc, p1, p2, d, h0, h1, h2, hg, hf, hp, hd, a => by
    obtain ⟨hl, hne, hdist, hk⟩ := (by simpa [TFit] using hf :
      (c.ch.getD i []).length = ks.length ∧ ks ≠ [] ∧ IsDist (c.ch.getD i []) ∧
        TFitL c.ch c.strat ks)
    have hpk : PayInL lo hi ks := by simpa [PayIn] using hp
    have hgk : GoodL me I ks := by simpa [GoodR] using hg
    by_cases hs : c.sampled = true
    · rw [vrec_chance_s c hs]
      have hne' : c.ch.getD i [] ≠ [] := by
        intro h0'; rw [h0'] at hl; exact hne (List.eq_nil_of_length_eq_zero hl.symm)
      obtain ⟨-, s2, -⟩ := sampleChance_ok c.draw (hdr hs) c.ch c.pass i d hne' hd
      exact vrecNth_bnd c hdr me I lo hi hD ks _ pc p1 p2 _ h0 h1 h2 hgk hk hpk s2 a
    · rw [vrec_chance c (by simpa using hs)]
      have := vrecChance_bnd c hdr me I lo hi hD _ ks pc p1 p2 d 0 h0 h1 h2 hdist.1 hl hgk hk hpk
        hd a
      rw [hdist.2, mul_one] at this
      exact this
  | .player one i ks, pc, p1, p2, d, h0, h1, h2, hg, hf, hp, hd, a => by
    obtain ⟨hl, hne, hdist, hk⟩ := (by simpa [TFit] using hf :
      (c.strat one i).length = ks.length ∧ ks ≠ [] ∧ IsDist (c.strat one i) ∧
        TFitL c.ch c.strat ks)
    have hpk : PayInL lo hi ks := by simpa [PayIn] using hp
    obtain ⟨hgk, hown⟩ := (by simpa [GoodR] using hg : GoodL me I ks ∧
      (one = me → (i = I → ¬ HasL me I ks) ∧ (i ≠ I → Uniq me I ks)))
    have hw : 0 ≤ (hi - lo) * (pc * (if me then p2 else p1)) :=
      mul_nonneg (sub_nonneg.mpr hD) (mul_nonneg h0 (by split_ifs <;> assumption))
    rw [vrec_player]
    simp only [effSum_append, effSum_stratEffs_regret, zero_add, effSum_subEffs_regret]
    by_cases ho : one = me
    · have ho' : me = one := ho.symm
      subst ho'
      by_cases hi' : i = I
      · have hi'' : I = i := hi'.symm
        subst hi''
        have hno := (hown rfl).1 rfl
        obtain ⟨u, u1, u2, hu⟩ := vrecActs_self c hdr me I lo hi hD
          (if me then pc * p2 else -p1 * pc) (c.strat me I) ks pc p1 p2 d 0 0 0 hl hno hk hpk hd a
        obtain ⟨r1, r2, r3, -⟩ := vrecActs_rng c hdr lo hi me I
          (if me then pc * p2 else -p1 * pc) (c.strat me I) ks pc p1 p2 d 0 0 0 hdist.1 hl hk hpk hd
        rw [hdist.2] at r1 r2
        rw [hu, r3]
        by_cases ha : a < ks.length
        · have c1 : 0 ≤ a ∧ a < 0 + ks.length := ⟨Nat.zero_le _, by omega⟩
          have c2 : me = me ∧ I = I ∧ a < (c.strat me I).length := ⟨rfl, rfl, by rw [hl]; exact ha⟩
          rw [if_pos c1, if_pos c2]
          have hm : |(if me then pc * p2 else -p1 * pc)| = pc * (if me then p2 else p1) := by
            cases me
            · simp only [Bool.false_eq_true, if_false]
              rw [neg_mul, abs_neg, abs_of_nonneg (mul_nonneg h1 h0), mul_comm]
            · simp only [if_true]
              rw [abs_of_nonneg (mul_nonneg h0 h2)]
          have e : u * (if me then pc * p2 else -p1 * pc)
              + -(0 + (if me then pc * p2 else -p1 * pc)
                * ((vrecActs c me I (if me then pc * p2 else -p1 * pc) (c.strat me I) ks pc p1 p2
                    d 0 0 0).1 - 0))
              = (if me then pc * p2 else -p1 * pc)
                * (u - (vrecActs c me I (if me then pc * p2 else -p1 * pc) (c.strat me I) ks pc p1
                    p2 d 0 0 0).1) := by ring
          rw [e, abs_mul, hm, mul_comm]
          apply mul_le_mul_of_nonneg_right _ (mul_nonneg h0 (by split_ifs <;> assumption))
          rw [abs_le]
          constructor <;> linarith
        · have c1 : ¬ (0 ≤ a ∧ a < 0 + ks.length) := by omega
          have c2 : ¬ (me = me ∧ I = I ∧ a < (c.strat me I).length) := by
            rw [hl]; exact fun h => ha h.2.2
          rw [if_neg c1, if_neg c2]
          simpa using hw
      · have hu := (hown rfl).2 hi'
        have B := vrecActs_bnd_own c hdr me I lo hi hD i hi' (if me then pc * p2 else -p1 * pc)
          (c.strat me i) ks pc p1 p2 d 0 0 0 h0 h1 h2 hdist.1 hl hu hgk hk hpk hd a
        have c1 : ¬ (me = me ∧ i = I ∧ a < (c.strat me i).length) := fun h => hi' h.2.1
        rw [if_neg c1, add_zero]
        exact B
    · have B := vrecActs_bnd_opp c hdr me I lo hi hD one ho i (if one then pc * p2 else -p1 * pc)
        (c.strat one i) ks pc p1 p2 d 0 0 0 h0 h1 h2 hdist.1 hl hgk hk hpk hd a
      rw [hdist.2, mul_one] at B
      have c1 : ¬ (one = me ∧ i = I ∧ a < (c.strat one i).length) := fun h => ho h.1
      rw [if_neg c1, add_zero]
      exact B
theorem vrecNth_bnd (c : VCtx ℝ) (hdr : c.sampled = true → DrawLt c.draw) (me : Bool) (I : ℕ)
    (lo hi : ℝ) (hD : lo ≤ hi) :
    ∀ (ks : List (Node ℝ)) (k : ℕ) (pc p1 p2 : ℝ) (d : DrawSt ℝ), 0 ≤ pc → 0 ≤ p1 → 0 ≤ p2 →
      GoodL me I ks → TFitL c.ch c.strat ks → PayInL lo hi ks → DOK c.ch d →
      ∀ a, |effSum (vrecNth c ks k pc p1 p2 d).2.1 me I Slot.regret a|
        ≤ (hi - lo) * (pc * (if me then p2 else p1))
  | [], _, pc, p1, p2, d, h0, h1, h2, _, _, _, _, a => by
    simp only [vrecNth, effSum_nil, abs_zero]
    exact mul_nonneg (sub_nonneg.mpr hD) (mul_nonneg h0 (by split_ifs <;> assumption))
  | k :: _, 0, pc, p1, p2, d, h0, h1, h2, hg, hf, hp, hd, a => by
    simp only [vrecNth]
    simp only [GoodL] at hg
    simp only [TFitL] at hf
    simp only [PayInL] at hp
    exact vrec_bnd c hdr me I lo hi hD k pc p1 p2 d h0 h1 h2 hg.1 hf.1 hp.1 hd a
  | _ :: ks, n + 1, pc, p1, p2, d, h0, h1, h2, hg, hf, hp, hd, a => by
    simp only [vrecNth]
    simp only [GoodL] at hg
    simp only [TFitL] at hf
    simp only [PayInL] at hp
    exact vrecNth_bnd c hdr me I lo hi hD ks n pc p1 p2 d h0 h1 h2 hg.2 hf.2 hp.2 hd a
theorem vrecChance_bnd (c : VCtx ℝ) (hdr : c.sampled = true → DrawLt c.draw) (me : Bool) (I : ℕ)
    (lo hi : ℝ) (hD : lo ≤ hi) :
    ∀ (ps : List ℝ) (ks : List (Node ℝ)) (pc p1 p2 : ℝ) (d : DrawSt ℝ) (acc : ℝ),
      0 ≤ pc → 0 ≤ p1 → 0 ≤ p2 → (∀ p ∈ ps, 0 ≤ p) → ps.length = ks.length →
      GoodL me I ks → TFitL c.ch c.strat ks → PayInL lo hi ks → DOK c.ch d →
      ∀ a, |effSum (vrecChance c ps ks pc p1 p2 d acc).2.1 me I Slot.regret a|
        ≤ (hi - lo) * (pc * (if me then p2 else p1)) * ps.sum
  | p :: ps, k :: ks, pc, p1, p2, d, acc, h0, h1, h2, hnn, hl, hg, hf, hp, hd, a => by
    simp only [GoodL] at hg
    simp only [TFitL] at hf
    simp only [PayInL] at hp
    have hp0 : 0 ≤ p := hnn p List.mem_cons_self
    rw [vrecChance_cons]
    simp only [effSum_append, List.sum_cons]
    have A := vrec_bnd c hdr me I lo hi hD k (pc * p) p1 p2 d (mul_nonneg h0 hp0) h1 h2 hg.1 hf.1
      hp.1 hd a
    obtain ⟨-, -, a3⟩ := vrec_rng c hdr lo hi k (pc * p) p1 p2 d hf.1 hp.1 hd
    have B := vrecChance_bnd c hdr me I lo hi hD ps ks pc p1 p2 (vrec c k (pc * p) p1 p2 d).2.2
      (acc + p * (vrec c k (pc * p) p1 p2 d).1) h0 h1 h2
      (fun q hq => hnn q (List.mem_cons_of_mem _ hq)) (by simpa using hl) hg.2 hf.2 hp.2 a3 a
    rw [abs_le] at A B ⊢
    constructor <;> nlinarith [A.1, A.2, B.1, B.2]
  | [], [], pc, p1, p2, d, _, h0, h1, h2, _, _, _, _, _, _, a => by
    simp [vrecChance]
  | [], _ :: _, _, _, _, _, _, _, _, _, _, hl, _, _, _, _, _ => by simp at hl
  | _ :: _, [], _, _, _, _, _, _, _, _, _, hl, _, _, _, _, _ => by simp at hl
theorem vrecActs_bnd_opp (c : VCtx ℝ) (hdr : c.sampled = true → DrawLt c.draw) (me : Bool) (I : ℕ)
    (lo hi : ℝ) (hD : lo ≤ hi) (one : Bool) (hne : ¬ one = me) (i : ℕ) (mult : ℝ) :
    ∀ (ss : List ℝ) (ks : List (Node ℝ)) (pc p1 p2 : ℝ) (d : DrawSt ℝ) (k : ℕ) (eo ex : ℝ),
      0 ≤ pc → 0 ≤ p1 → 0 ≤ p2 → (∀ s ∈ ss, 0 ≤ s) → ss.length = ks.length →
      GoodL me I ks → TFitL c.ch c.strat ks → PayInL lo hi ks → DOK c.ch d →
      ∀ a, |effSum (vrecActs c one i mult ss ks pc p1 p2 d k eo ex).2.2.1 me I Slot.regret a|
        ≤ (hi - lo) * (pc * (if me then p2 else p1)) * ss.sum
  | s :: ss, n :: ks, pc, p1, p2, d, k, eo, ex, h0, h1, h2, hnn, hl, hg, hf, hp, hd, a => by
    simp only [GoodL] at hg
    simp only [TFitL] at hf
    simp only [PayInL] at hp
    have hs0 : 0 ≤ s := hnn s List.mem_cons_self
    rw [vrecActs_cons']
    simp only [effSum_append, List.sum_cons]
    rw [effSum_cons_regret_ne _ _ _ _ _ _ _ _ (fun h => hne h.1)]
    have h1' : 0 ≤ (if one then p1 * s else p1) := by
      split_ifs
      · exact mul_nonneg h1 hs0
      · exact h1
    have h2' : 0 ≤ (if one then p2 else p2 * s) := by
      split_ifs
      · exact h2
      · exact mul_nonneg h2 hs0
    have A := vrec_bnd c hdr me I lo hi hD n pc (if one then p1 * s else p1)
      (if one then p2 else p2 * s) d h0 h1' h2' hg.1 hf.1 hp.1 hd a
    have e : pc * (if me then (if one then p2 else p2 * s) else (if one then p1 * s else p1))
        = pc * (if me then p2 else p1) * s := by
      cases me <;> cases one <;> simp at hne ⊢ <;> ring
    rw [e] at A
    obtain ⟨-, -, a3⟩ := vrec_rng c hdr lo hi n pc (if one then p1 * s else p1)
      (if one then p2 else p2 * s) d hf.1 hp.1 hd
    have B := vrecActs_bnd_opp c hdr me I lo hi hD one hne i mult ss ks pc p1 p2
      (vrec c n pc (if one then p1 * s else p1) (if one then p2 else p2 * s) d).2.2 (k + 1)
      (eo + s * (vrec c n pc (if one then p1 * s else p1) (if one then p2 else p2 * s) d).1)
      (ex + (vrec c n pc (if one then p1 * s else p1) (if one then p2 else p2 * s) d).1 * mult * s)
      h0 h1 h2 (fun q hq => hnn q (List.mem_cons_of_mem _ hq)) (by simpa using hl) hg.2 hf.2 hp.2
      a3 a
    rw [abs_le] at A B ⊢
    constructor <;> nlinarith [A.1, A.2, B.1, B.2]
  | [], [], pc, p1, p2, d, _, _, _, h0, h1, h2, _, _, _, _, _, _, a => by
    simp [vrecActs]
  | [], _ :: _, _, _, _, _, _, _, _, _, _, _, _, hl, _, _, _, _, _ => by simp at hl
  | _ :: _, [], _, _, _, _, _, _, _, _, _, _, _, hl, _, _, _, _, _ => by simp at hl
theorem vrecActs_bnd_own (c : VCtx ℝ) (hdr : c.sampled = true → DrawLt c.draw) (me : Bool) (I : ℕ)
    (lo hi : ℝ) (hD : lo ≤ hi) (i : ℕ) (hi' : ¬ i = I) (mult : ℝ) :
    ∀ (ss : List ℝ) (ks : List (Node ℝ)) (pc p1 p2 : ℝ) (d : DrawSt ℝ) (k : ℕ) (eo ex : ℝ),
      0 ≤ pc → 0 ≤ p1 → 0 ≤ p2 → (∀ s ∈ ss, 0 ≤ s) → ss.length = ks.length →
      Uniq me I ks → GoodL me I ks → TFitL c.ch c.strat ks → PayInL lo hi ks → DOK c.ch d →
      ∀ a, |effSum (vrecActs c me i mult ss ks pc p1 p2 d k eo ex).2.2.1 me I Slot.regret a|
        ≤ (hi - lo) * (pc * (if me then p2 else p1))
  | s :: ss, n :: ks, pc, p1, p2, d, k, eo, ex, h0, h1, h2, hnn, hl, hu, hg, hf, hp, hd, a => by
    simp only [GoodL] at hg
    simp only [TFitL] at hf
    simp only [PayInL] at hp
    simp only [Uniq] at hu
    have hs0 : 0 ≤ s := hnn s List.mem_cons_self
    rw [vrecActs_cons']
    simp only [effSum_append]
    rw [effSum_cons_regret_ne _ _ _ _ _ _ _ _ (fun h => hi' h.2)]
    have h1' : 0 ≤ (if me then p1 * s else p1) := by
      split_ifs
      · exact mul_nonneg h1 hs0
      · exact h1
    have h2' : 0 ≤ (if me then p2 else p2 * s) := by
      split_ifs
      · exact h2
      · exact mul_nonneg h2 hs0
    by_cases hn : Has me I n
    · rw [vrecActs_zero c me I a me i mult ss ks _ _ _ _ _ _ _ (fun h => hi' h.2) (hu.1 hn)]
      have A := vrec_bnd c hdr me I lo hi hD n pc (if me then p1 * s else p1)
        (if me then p2 else p2 * s) d h0 h1' h2' hg.1 hf.1 hp.1 hd a
      have e : pc * (if me then (if me then p2 else p2 * s) else (if me then p1 * s else p1))
          = pc * (if me then p2 else p1) := by
        cases me <;> simp
      rw [e] at A
      simpa using A
    · rw [vrec_zero c me I a n _ _ _ _ hn]
      obtain ⟨-, -, a3⟩ := vrec_rng c hdr lo hi n pc (if me then p1 * s else p1)
        (if me then p2 else p2 * s) d hf.1 hp.1 hd
      have B := vrecActs_bnd_own c hdr me I lo hi hD i hi' mult ss ks pc p1 p2
        (vrec c n pc (if me then p1 * s else p1) (if me then p2 else p2 * s) d).2.2 (k + 1)
        (eo + s * (vrec c n pc (if me then p1 * s else p1) (if me then p2 else p2 * s) d).1)
        (ex + (vrec c n pc (if me then p1 * s else p1) (if me then p2 else p2 * s) d).1 * mult * s)
        h0 h1 h2 (fun q hq => hnn q (List.mem_cons_of_mem _ hq)) (by simpa using hl) hu.2 hg.2 hf.2
        hp.2 a3 a
      simpa using B
  | [], [], pc, p1, p2, d, _, _, _, h0, h1, h2, _, _, _, _, _, _, _, a => by
    simp only [vrecActs, effSum_nil, abs_zero]
    exact mul_nonneg (sub_nonneg.mpr hD) (mul_nonneg h0 (by split_ifs <;> assumption))
  | [], _ :: _, _, _, _, _, _, _, _, _, _, _, _, hl, _, _, _, _, _, _ => by simp at hl
  | _ :: _, [], _, _, _, _, _, _, _, _, _, _, _, hl, _, _, _, _, _, _ => by simp at hl
end

end Cfr
