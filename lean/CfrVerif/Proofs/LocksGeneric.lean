import CfrVerif.Model.Locks
/-!
# The pool's mutexes, generic part: definitions and the invariant of reachable configurations

Definitions `tryLocks`, `blockLocks`, `LeafCS`, `PoolOK` (quoted by `Proofs/Locks.lean`) and the
invariant `Inv` of the configurations reachable from `LCfg.init ts` under `PoolOK ts`.
-/
namespace Cfr
namespace Lk

/-- mutexes a trace `try_lock`s -/
def tryLocks : List LEv → List LockId
  | [] => []
  | .tryAcq l :: t => l :: tryLocks t
  | _ :: t => tryLocks t

/-- mutexes a trace `lock()`s -/
def blockLocks : List LEv → List LockId
  | [] => []
  | .acq l :: t => l :: blockLocks t
  | _ :: t => blockLocks t

/-- every `lock()` is released by the next event of the trace -/
def LeafCS : List LEv → Prop
  | [] => True
  | .acq l :: .rel l' :: t => l = l' ∧ LeafCS t
  | .acq _ :: _ => False
  | _ :: t => LeafCS t

/-- hypotheses on the traces handed to the pool -/
structure PoolOK (ts : List (List LEv)) : Prop where
  tryNodup : (ts.flatMap tryLocks).Nodup
  leaf : ∀ t ∈ ts, LeafCS t
  /-- a mutex that some task `try_lock`s is never `lock()`ed by any task -/
  disjoint : ∀ l ∈ ts.flatMap tryLocks, l ∉ ts.flatMap blockLocks
  /-- every acquisition is released later in the same trace -/
  released : ∀ t ∈ ts, ∀ pre post l,
    (t = pre ++ LEv.tryAcq l :: post ∨ t = pre ++ LEv.acq l :: post) → LEv.rel l ∈ post

/-! ## small facts about traces -/

@[simp] theorem tryLocks_nil : tryLocks [] = [] := rfl
@[simp] theorem tryLocks_tryAcq (l : LockId) (t : List LEv) :
    tryLocks (.tryAcq l :: t) = l :: tryLocks t := rfl
@[simp] theorem tryLocks_acq (l : LockId) (t : List LEv) : tryLocks (.acq l :: t) = tryLocks t := rfl
@[simp] theorem tryLocks_rel (l : LockId) (t : List LEv) : tryLocks (.rel l :: t) = tryLocks t := rfl
@[simp] theorem blockLocks_nil : blockLocks [] = [] := rfl
@[simp] theorem blockLocks_tryAcq (l : LockId) (t : List LEv) :
    blockLocks (.tryAcq l :: t) = blockLocks t := rfl
@[simp] theorem blockLocks_acq (l : LockId) (t : List LEv) :
    blockLocks (.acq l :: t) = l :: blockLocks t := rfl
@[simp] theorem blockLocks_rel (l : LockId) (t : List LEv) :
    blockLocks (.rel l :: t) = blockLocks t := rfl

@[simp] theorem tryLocks_append (a b : List LEv) : tryLocks (a ++ b) = tryLocks a ++ tryLocks b := by
  induction a with
  | nil => rfl
  | cons e a ih => cases e <;> simp [ih]

@[simp] theorem blockLocks_append (a b : List LEv) :
    blockLocks (a ++ b) = blockLocks a ++ blockLocks b := by
  induction a with
  | nil => rfl
  | cons e a ih => cases e <;> simp [ih]

theorem tryLocks_tail_sublist (e : LEv) (t : List LEv) : (tryLocks t).Sublist (tryLocks (e :: t)) := by
  cases e <;> simp

theorem blockLocks_tail_sublist (e : LEv) (t : List LEv) :
    (blockLocks t).Sublist (blockLocks (e :: t)) := by
  cases e <;> simp

@[simp] theorem LeafCS_nil : LeafCS [] = True := by simp [LeafCS]
@[simp] theorem LeafCS_tryAcq (l : LockId) (t : List LEv) : LeafCS (.tryAcq l :: t) = LeafCS t := by
  simp [LeafCS]
@[simp] theorem LeafCS_rel (l : LockId) (t : List LEv) : LeafCS (.rel l :: t) = LeafCS t := by
  simp [LeafCS]
@[simp] theorem LeafCS_acq_rel (l l' : LockId) (t : List LEv) :
    LeafCS (.acq l :: .rel l' :: t) = (l = l' ∧ LeafCS t) := by
  simp [LeafCS]

theorem LeafCS_acq {l : LockId} {rest : List LEv} (h : LeafCS (.acq l :: rest)) :
    ∃ t, rest = .rel l :: t ∧ LeafCS t := by
  cases rest with
  | nil => simp [LeafCS] at h
  | cons e t =>
    cases e with
    | tryAcq l' => simp [LeafCS] at h
    | acq l' => simp [LeafCS] at h
    | rel l' =>
      rw [LeafCS_acq_rel] at h
      exact ⟨t, by rw [h.1], h.2⟩

theorem LeafCS_tail {e : LEv} {t : List LEv} (h : LeafCS (e :: t)) : LeafCS t := by
  cases e with
  | tryAcq l => simpa using h
  | rel l => simpa using h
  | acq l =>
    obtain ⟨t', rfl, h'⟩ := LeafCS_acq h
    simpa using h'

theorem LeafCS_append : ∀ (a b : List LEv), LeafCS a → LeafCS b → LeafCS (a ++ b)
  | [], b, _, hb => hb
  | .tryAcq l :: a, b, ha, hb => by
    rw [List.cons_append, LeafCS_tryAcq]
    exact LeafCS_append a b (by simpa using ha) hb
  | .rel l :: a, b, ha, hb => by
    rw [List.cons_append, LeafCS_rel]
    exact LeafCS_append a b (by simpa using ha) hb
  | .acq l :: a, b, ha, hb => by
    obtain ⟨t, rfl, ht⟩ := LeafCS_acq ha
    rw [List.cons_append, List.cons_append, LeafCS_acq_rel]
    exact ⟨rfl, LeafCS_append t b ht hb⟩

/-- every acquisition is released later in the trace (recursive form of `PoolOK.released`) -/
def RelOK : List LEv → Prop
  | [] => True
  | .tryAcq l :: t => LEv.rel l ∈ t ∧ RelOK t
  | .acq l :: t => LEv.rel l ∈ t ∧ RelOK t
  | .rel _ :: t => RelOK t

theorem RelOK_tail {e : LEv} {t : List LEv} (h : RelOK (e :: t)) : RelOK t := by
  cases e with
  | tryAcq l => exact (by simpa [RelOK] using h : _ ∧ RelOK t).2
  | acq l => exact (by simpa [RelOK] using h : _ ∧ RelOK t).2
  | rel l => simpa [RelOK] using h

theorem RelOK_append : ∀ (a b : List LEv), RelOK a → RelOK b → RelOK (a ++ b)
  | [], b, _, hb => hb
  | .tryAcq l :: a, b, ha, hb => by
    obtain ⟨h1, h2⟩ := (by simpa [RelOK] using ha : LEv.rel l ∈ a ∧ RelOK a)
    simp only [List.cons_append, RelOK]
    exact ⟨List.mem_append_left _ h1, RelOK_append a b h2 hb⟩
  | .acq l :: a, b, ha, hb => by
    obtain ⟨h1, h2⟩ := (by simpa [RelOK] using ha : LEv.rel l ∈ a ∧ RelOK a)
    simp only [List.cons_append, RelOK]
    exact ⟨List.mem_append_left _ h1, RelOK_append a b h2 hb⟩
  | .rel l :: a, b, ha, hb => by
    simp only [List.cons_append, RelOK]
    exact RelOK_append a b (by simpa [RelOK] using ha) hb

/-- the two forms of "released" are the same -/
theorem RelOK_iff (t : List LEv) : RelOK t ↔ ∀ pre post l,
    (t = pre ++ LEv.tryAcq l :: post ∨ t = pre ++ LEv.acq l :: post) → LEv.rel l ∈ post := by
  induction t with
  | nil =>
    simp [RelOK]
  | cons e t ih =>
    constructor
    · intro h pre post l hl
      cases pre with
      | nil =>
        rcases hl with hl | hl
        · simp only [List.nil_append, List.cons.injEq] at hl
          obtain ⟨rfl, rfl⟩ := hl
          exact (by simpa [RelOK] using h : _ ∧ RelOK t).1
        · simp only [List.nil_append, List.cons.injEq] at hl
          obtain ⟨rfl, rfl⟩ := hl
          exact (by simpa [RelOK] using h : _ ∧ RelOK t).1
      | cons x pre =>
        refine (ih.mp (RelOK_tail h)) pre post l ?_
        rcases hl with hl | hl
        · simp only [List.cons_append, List.cons.injEq] at hl
          exact Or.inl hl.2
        · simp only [List.cons_append, List.cons.injEq] at hl
          exact Or.inr hl.2
    · intro h
      have ht : RelOK t := ih.mpr (fun pre post l hl => h (e :: pre) post l (by
        rcases hl with hl | hl
        · exact Or.inl (by rw [hl]; rfl)
        · exact Or.inr (by rw [hl]; rfl)))
      cases e with
      | tryAcq l => exact ⟨h [] t l (Or.inl rfl), ht⟩
      | acq l => exact ⟨h [] t l (Or.inr rfl), ht⟩
      | rel l => exact ht

/-! ## lists: replacing one entry -/

theorem flatMap_set {β γ : Type} (f : β → List γ) : ∀ (l : List β) (j : Nat) (x y : β),
    l[j]? = some x →
    ∃ X Y, l.flatMap f = X ++ (f x ++ Y) ∧ (l.set j y).flatMap f = X ++ (f y ++ Y)
  | [], j, x, y, h => by simp at h
  | a :: l, 0, x, y, h => by
    simp only [List.getElem?_cons_zero, Option.some.injEq] at h
    subst h
    exact ⟨[], l.flatMap f, by simp, by simp⟩
  | a :: l, j + 1, x, y, h => by
    simp only [List.getElem?_cons_succ] at h
    obtain ⟨X, Y, h1, h2⟩ := flatMap_set f l j x y h
    exact ⟨f a ++ X, Y, by simp [h1], by simp [h2]⟩

theorem flatMap_set_sublist {β γ : Type} (f : β → List γ) (l : List β) (j : Nat) (x y : β)
    (h : l[j]? = some x) (hs : (f y).Sublist (f x)) :
    ((l.set j y).flatMap f).Sublist (l.flatMap f) := by
  obtain ⟨X, Y, h1, h2⟩ := flatMap_set f l j x y h
  rw [h1, h2]
  exact (List.Sublist.refl X).append (hs.append (List.Sublist.refl Y))

/-! ## the steps -/

theorem isHeld_eq_false_iff (cfg : LCfg) (l : LockId) :
    cfg.isHeld l = false ↔ ∀ k, (l, k) ∉ cfg.held := by
  unfold LCfg.isHeld
  rw [List.any_eq_false]
  constructor
  · intro h k hk
    exact h (l, k) hk (by simp)
  · intro h x hx hxl
    have : x.1 = l := by simpa using hxl
    exact h x.2 (by rw [← this]; exact hx)

theorem isHeld_eq_true_iff (cfg : LCfg) (l : LockId) :
    cfg.isHeld l = true ↔ ∃ k, (l, k) ∈ cfg.held := by
  unfold LCfg.isHeld
  rw [List.any_eq_true]
  constructor
  · rintro ⟨x, hx, hxl⟩
    have : x.1 = l := by simpa using hxl
    exact ⟨x.2, by rw [← this]; exact hx⟩
  · rintro ⟨k, hk⟩
    exact ⟨(l, k), hk, by simp⟩

/-- the three kinds of successful steps -/
theorem lstep_ok {cfg cfg' : LCfg} {j : Nat} (h : lstep cfg j = .ok cfg') :
    ∃ e rest, cfg.tasks[j]? = some (e :: rest) ∧ cfg'.tasks = cfg.tasks.set j rest ∧
      ((∃ l, e = .tryAcq l ∧ cfg.isHeld l = false ∧ cfg'.held = (l, j) :: cfg.held) ∨
       (∃ l, e = .acq l ∧ cfg.isHeld l = false ∧ cfg'.held = (l, j) :: cfg.held) ∨
       (∃ l, e = .rel l ∧ cfg'.held = cfg.held.filter (fun h => !(h.1 == l && h.2 == j)))) := by
  unfold lstep at h
  split at h
  · cases h
  · cases h
  · rename_i e rest hj
    refine ⟨e, rest, hj, ?_⟩
    cases e with
    | tryAcq l =>
      simp only at h
      split at h
      · cases h
      · rename_i hh
        cases h
        exact ⟨rfl, Or.inl ⟨l, rfl, by simpa using hh, rfl⟩⟩
    | acq l =>
      simp only at h
      split at h
      · cases h
      · rename_i hh
        cases h
        exact ⟨rfl, Or.inr (Or.inl ⟨l, rfl, by simpa using hh, rfl⟩)⟩
    | rel l =>
      simp only at h
      cases h
      exact ⟨rfl, Or.inr (Or.inr ⟨l, rfl, rfl⟩)⟩

theorem lstep_tryAcq {cfg : LCfg} {j : Nat} {l : LockId} {rest : List LEv}
    (h : cfg.tasks[j]? = some (.tryAcq l :: rest)) :
    lstep cfg j = if cfg.isHeld l then .panic else .ok ⟨cfg.tasks.set j rest, (l, j) :: cfg.held⟩ := by
  unfold lstep; rw [h]

theorem lstep_acq {cfg : LCfg} {j : Nat} {l : LockId} {rest : List LEv}
    (h : cfg.tasks[j]? = some (.acq l :: rest)) :
    lstep cfg j = if cfg.isHeld l then .blocked else .ok ⟨cfg.tasks.set j rest, (l, j) :: cfg.held⟩ := by
  unfold lstep; rw [h]

theorem lstep_rel {cfg : LCfg} {j : Nat} {l : LockId} {rest : List LEv}
    (h : cfg.tasks[j]? = some (.rel l :: rest)) :
    lstep cfg j = .ok ⟨cfg.tasks.set j rest,
      cfg.held.filter (fun h => !(h.1 == l && h.2 == j))⟩ := by
  unfold lstep; rw [h]

/-! ## the invariant -/

/-- what holds in every configuration reachable from `LCfg.init ts` when `PoolOK ts` -/
structure Inv (cfg : LCfg) : Prop where
  /-- no mutex is still to be `try_lock`ed twice -/
  nodup : (cfg.tasks.flatMap tryLocks).Nodup
  /-- a mutex still to be `try_lock`ed is free -/
  free : ∀ l ∈ cfg.tasks.flatMap tryLocks, ∀ k, (l, k) ∉ cfg.held
  disj : ∀ l ∈ cfg.tasks.flatMap tryLocks, l ∉ cfg.tasks.flatMap blockLocks
  /-- the holder of a mutex somebody may wait for releases it with its next step -/
  next : ∀ l k, (l, k) ∈ cfg.held → l ∈ cfg.tasks.flatMap blockLocks →
    ∃ rest, cfg.tasks[k]? = some (.rel l :: rest)
  leaf : ∀ t ∈ cfg.tasks, LeafCS t
  /-- a held mutex will be released by its holder -/
  willRel : ∀ l k, (l, k) ∈ cfg.held → ∃ t, cfg.tasks[k]? = some t ∧ LEv.rel l ∈ t
  relOK : ∀ t ∈ cfg.tasks, RelOK t

theorem Inv.init {ts : List (List LEv)} (h : PoolOK ts) : Inv (LCfg.init ts) where
  nodup := h.tryNodup
  free := fun _ _ _ hk => by simp [LCfg.init] at hk
  disj := h.disjoint
  next := fun _ _ hk => by simp [LCfg.init] at hk
  leaf := h.leaf
  willRel := fun _ _ hk => by simp [LCfg.init] at hk
  relOK := fun t ht => (RelOK_iff t).mpr (h.released t ht)

theorem mem_set_tail {tasks : List (List LEv)} {j : Nat} {e : LEv} {rest t : List LEv}
    (_hj : tasks[j]? = some (e :: rest)) (ht : t ∈ tasks.set j rest) : t ∈ tasks ∨ t = rest :=
  List.mem_or_eq_of_mem_set ht

theorem Inv.step {cfg cfg' : LCfg} {j : Nat} (hI : Inv cfg) (h : lstep cfg j = .ok cfg') :
    Inv cfg' := by
  obtain ⟨e, rest, hj, htasks, hcase⟩ := lstep_ok h
  have hmem : (e :: rest) ∈ cfg.tasks := List.mem_of_getElem? hj
  have hjlt : j < cfg.tasks.length := (List.getElem?_eq_some_iff.mp hj).1
  have subT : (cfg'.tasks.flatMap tryLocks).Sublist (cfg.tasks.flatMap tryLocks) := by
    rw [htasks]
    exact flatMap_set_sublist tryLocks _ j _ rest hj (tryLocks_tail_sublist e rest)
  have subB : (cfg'.tasks.flatMap blockLocks).Sublist (cfg.tasks.flatMap blockLocks) := by
    rw [htasks]
    exact flatMap_set_sublist blockLocks _ j _ rest hj (blockLocks_tail_sublist e rest)
  have hmem' : ∀ t ∈ cfg'.tasks, t ∈ cfg.tasks ∨ t = rest := by
    intro t ht
    rw [htasks] at ht
    exact List.mem_or_eq_of_mem_set ht
  have hget : ∀ k, cfg'.tasks[k]? = if j = k then some rest else cfg.tasks[k]? := by
    intro k
    rw [htasks, List.getElem?_set]
    by_cases hk : j = k
    · subst hk; simp [hjlt]
    · simp [hk]
  have hleaf : ∀ t ∈ cfg'.tasks, LeafCS t := by
    intro t ht
    rcases hmem' t ht with ht | rfl
    · exact hI.leaf t ht
    · exact LeafCS_tail (hI.leaf _ hmem)
  have hrelOK : ∀ t ∈ cfg'.tasks, RelOK t := by
    intro t ht
    rcases hmem' t ht with ht | rfl
    · exact hI.relOK t ht
    · exact RelOK_tail (hI.relOK _ hmem)
  have hdisj : ∀ l ∈ cfg'.tasks.flatMap tryLocks, l ∉ cfg'.tasks.flatMap blockLocks :=
    fun l hl hb => hI.disj l (subT.subset hl) (subB.subset hb)
  have hnodup := hI.nodup.sublist subT
  rcases hcase with ⟨l, rfl, hfree, hheld⟩ | ⟨l, rfl, hfree, hheld⟩ | ⟨l, rfl, hheld⟩
  · -- try_lock
    obtain ⟨X, Y, hX, hX'⟩ := flatMap_set tryLocks cfg.tasks j _ rest hj
    rw [← htasks] at hX'
    have hlT : l ∈ cfg.tasks.flatMap tryLocks := by rw [hX]; simp
    have hlnot : l ∉ cfg'.tasks.flatMap tryLocks := by
      have hn := hI.nodup
      rw [hX, tryLocks_tryAcq] at hn
      rw [hX']
      have hn' := List.nodup_append.mp hn
      have hn2 := List.nodup_append.mp hn'.2.1
      intro hl
      rcases List.mem_append.mp hl with hl | hl
      · exact hn'.2.2 l hl l (by simp) rfl
      · have hc := List.nodup_cons.mp hn'.2.1
        exact hc.1 hl
    refine ⟨hnodup, ?_, hdisj, ?_, hleaf, ?_, hrelOK⟩
    · intro l' hl' k hk
      rw [hheld] at hk
      rcases List.mem_cons.mp hk with hk | hk
      · simp only [Prod.mk.injEq] at hk
        exact hlnot (hk.1 ▸ hl')
      · exact hI.free l' (subT.subset hl') k hk
    · intro l' k hk hb
      rw [hheld] at hk
      rcases List.mem_cons.mp hk with hk | hk
      · simp only [Prod.mk.injEq] at hk
        exact absurd (subB.subset hb) (hk.1 ▸ hI.disj l hlT)
      · obtain ⟨r, hr⟩ := hI.next l' k hk (subB.subset hb)
        refine ⟨r, ?_⟩
        rw [hget]
        by_cases hjk : j = k
        · subst hjk; rw [hj] at hr; simp at hr
        · rw [if_neg hjk]; exact hr
    · intro l' k hk
      rw [hheld] at hk
      rcases List.mem_cons.mp hk with hk | hk
      · simp only [Prod.mk.injEq] at hk
        obtain ⟨rfl, rfl⟩ := hk
        refine ⟨rest, by rw [hget]; simp, ?_⟩
        exact (by simpa [RelOK] using hI.relOK _ hmem : LEv.rel l' ∈ rest ∧ _).1
      · obtain ⟨t, ht, hr⟩ := hI.willRel l' k hk
        rw [hget]
        by_cases hjk : j = k
        · subst hjk
          rw [hj] at ht
          simp only [Option.some.injEq] at ht
          subst ht
          refine ⟨rest, by simp, ?_⟩
          simpa using hr
        · exact ⟨t, by rw [if_neg hjk]; exact ht, hr⟩
  · -- lock
    obtain ⟨t', rfl, ht'⟩ := LeafCS_acq (hI.leaf _ hmem)
    have hlB : l ∈ cfg.tasks.flatMap blockLocks :=
      List.mem_flatMap.mpr ⟨_, hmem, by simp⟩
    refine ⟨hnodup, ?_, hdisj, ?_, hleaf, ?_, hrelOK⟩
    · intro l' hl' k hk
      rw [hheld] at hk
      rcases List.mem_cons.mp hk with hk | hk
      · simp only [Prod.mk.injEq] at hk
        exact hI.disj l' (subT.subset hl') (hk.1 ▸ hlB)
      · exact hI.free l' (subT.subset hl') k hk
    · intro l' k hk hb
      rw [hheld] at hk
      rcases List.mem_cons.mp hk with hk | hk
      · simp only [Prod.mk.injEq] at hk
        obtain ⟨rfl, rfl⟩ := hk
        exact ⟨t', by rw [hget]; simp⟩
      · obtain ⟨r, hr⟩ := hI.next l' k hk (subB.subset hb)
        refine ⟨r, ?_⟩
        rw [hget]
        by_cases hjk : j = k
        · subst hjk; rw [hj] at hr; simp at hr
        · rw [if_neg hjk]; exact hr
    · intro l' k hk
      rw [hheld] at hk
      rcases List.mem_cons.mp hk with hk | hk
      · simp only [Prod.mk.injEq] at hk
        obtain ⟨rfl, rfl⟩ := hk
        exact ⟨_, by rw [hget, if_pos rfl], by simp⟩
      · obtain ⟨t, ht, hr⟩ := hI.willRel l' k hk
        rw [hget]
        by_cases hjk : j = k
        · subst hjk
          rw [hj] at ht
          simp only [Option.some.injEq] at ht
          subst ht
          refine ⟨_, by rw [if_pos rfl], ?_⟩
          simpa using hr
        · exact ⟨t, by rw [if_neg hjk]; exact ht, hr⟩
  · -- the guard is dropped
    have hsub : ∀ x, x ∈ cfg'.held → x ∈ cfg.held ∧ ¬ (x.1 = l ∧ x.2 = j) := by
      intro x hx
      rw [hheld, List.mem_filter] at hx
      refine ⟨hx.1, fun ⟨h1, h2⟩ => ?_⟩
      have := hx.2
      simp [h1, h2] at this
    refine ⟨hnodup, ?_, hdisj, ?_, hleaf, ?_, hrelOK⟩
    · intro l' hl' k hk
      exact hI.free l' (subT.subset hl') k (hsub _ hk).1
    · intro l' k hk hb
      obtain ⟨hk1, hk2⟩ := hsub _ hk
      obtain ⟨r, hr⟩ := hI.next l' k hk1 (subB.subset hb)
      refine ⟨r, ?_⟩
      rw [hget]
      by_cases hjk : j = k
      · subst hjk
        rw [hj] at hr
        simp only [Option.some.injEq, List.cons.injEq, LEv.rel.injEq] at hr
        exact absurd ⟨hr.1.symm, rfl⟩ hk2
      · rw [if_neg hjk]; exact hr
    · intro l' k hk
      obtain ⟨hk1, hk2⟩ := hsub _ hk
      obtain ⟨t, ht, hr⟩ := hI.willRel l' k hk1
      rw [hget]
      by_cases hjk : j = k
      · subst hjk
        rw [hj] at ht
        simp only [Option.some.injEq] at ht
        subst ht
        refine ⟨rest, by simp, ?_⟩
        rcases List.mem_cons.mp hr with hr | hr
        · simp only [LEv.rel.injEq] at hr
          exact absurd ⟨hr, rfl⟩ hk2
        · exact hr
      · exact ⟨t, by rw [if_neg hjk]; exact ht, hr⟩

theorem Inv.reach {a cfg : LCfg} {n : Nat} (ha : Inv a) (hr : LReach a n cfg) : Inv cfg := by
  induction hr with
  | refl => exact ha
  | step j _ hs ih => exact ih.step hs

/-! ## consequences -/

theorem Inv.no_panic {cfg : LCfg} (hI : Inv cfg) (j : Nat) : lstep cfg j ≠ LOut.panic := by
  intro hp
  unfold lstep at hp
  split at hp
  · cases hp
  · cases hp
  · rename_i e rest hj
    cases e with
    | tryAcq l =>
      simp only at hp
      split at hp
      · rename_i hh
        obtain ⟨k, hk⟩ := (isHeld_eq_true_iff cfg l).mp hh
        refine hI.free l ?_ k hk
        exact List.mem_flatMap.mpr ⟨_, List.mem_of_getElem? hj, by simp⟩
      · cases hp
    | acq l =>
      simp only at hp
      split at hp <;> cases hp
    | rel l => simp only at hp; cases hp

theorem Inv.no_deadlock {cfg : LCfg} (hI : Inv cfg) :
    cfg.finished = true ∨ ∃ j cfg', lstep cfg j = LOut.ok cfg' := by
  by_cases hf : cfg.finished = true
  · exact Or.inl hf
  · right
    unfold LCfg.finished at hf
    rw [List.all_eq_true] at hf
    have : ∃ t ∈ cfg.tasks, t.isEmpty = false := by
      apply Classical.byContradiction
      intro hne
      apply hf
      intro t ht
      cases hte : t.isEmpty with
      | true => rfl
      | false => exact absurd ⟨t, ht, hte⟩ hne
    obtain ⟨t, ht, hte⟩ := this
    obtain ⟨j, hjlt, hj⟩ := List.getElem_of_mem ht
    have hj' : cfg.tasks[j]? = some t := by rw [List.getElem?_eq_getElem hjlt, hj]
    cases t with
    | nil => simp at hte
    | cons e rest =>
      cases e with
      | rel l => exact ⟨j, _, lstep_rel hj'⟩
      | tryAcq l =>
        have hnp := hI.no_panic j
        by_cases hh : cfg.isHeld l = true
        · rw [lstep_tryAcq hj', if_pos hh] at hnp; exact absurd rfl hnp
        · exact ⟨j, _, by rw [lstep_tryAcq hj', if_neg hh]⟩
      | acq l =>
        by_cases hh : cfg.isHeld l = true
        · obtain ⟨k, hk⟩ := (isHeld_eq_true_iff cfg l).mp hh
          have hlB : l ∈ cfg.tasks.flatMap blockLocks :=
            List.mem_flatMap.mpr ⟨_, ht, by simp⟩
          obtain ⟨r, hr⟩ := hI.next l k hk hlB
          exact ⟨k, _, lstep_rel hr⟩
        · exact ⟨j, _, by rw [lstep_acq hj', if_neg hh]⟩

theorem Inv.finished_all_free {cfg : LCfg} (hI : Inv cfg) (hf : cfg.finished = true) :
    cfg.held = [] := by
  unfold LCfg.finished at hf
  rw [List.all_eq_true] at hf
  cases hh : cfg.held with
  | nil => rfl
  | cons x xs =>
    obtain ⟨t, ht, hr⟩ := hI.willRel x.1 x.2 (by rw [hh]; exact List.mem_cons_self)
    have := hf t (List.mem_of_getElem? ht)
    cases t with
    | nil => simp at hr
    | cons _ _ => simp at this

theorem sum_map_length_set : ∀ (tasks : List (List LEv)) (j : Nat) (e : LEv) (rest : List LEv),
    tasks[j]? = some (e :: rest) →
    ((tasks.set j rest).map List.length).sum + 1 = (tasks.map List.length).sum
  | [], _, _, _, h => by simp at h
  | t :: tasks, 0, e, rest, h => by
    simp only [List.getElem?_cons_zero, Option.some.injEq] at h
    subst h
    simp only [List.set_cons_zero, List.map_cons, List.sum_cons, List.length_cons]
    omega
  | t :: tasks, j + 1, e, rest, h => by
    simp only [List.getElem?_cons_succ] at h
    have := sum_map_length_set tasks j e rest h
    simp only [List.set_cons_succ, List.map_cons, List.sum_cons]
    omega

theorem step_remaining {cfg cfg' : LCfg} {j : Nat} (h : lstep cfg j = .ok cfg') :
    cfg'.remaining + 1 = cfg.remaining := by
  obtain ⟨e, rest, hj, htasks, _⟩ := lstep_ok h
  unfold LCfg.remaining
  rw [htasks]
  exact sum_map_length_set _ j e rest hj

theorem reach_remaining {a cfg : LCfg} {n : Nat} (hr : LReach a n cfg) :
    n + cfg.remaining = a.remaining := by
  induction hr with
  | refl => simp
  | step j _ hs ih =>
    have := step_remaining hs
    omega

theorem Inv.lrun_isSome : ∀ (sch : List Nat) {cfg : LCfg}, Inv cfg → (lrun cfg sch).isSome = true
  | [], cfg, _ => by simp [lrun]
  | j :: js, cfg, hI => by
    unfold lrun
    split
    · rename_i cfg' hs
      exact Inv.lrun_isSome js (hI.step hs)
    · rename_i hs
      exact absurd hs (hI.no_panic j)
    · exact Inv.lrun_isSome js hI
    · exact Inv.lrun_isSome js hI

end Lk
end Cfr
