import CfrVerif.Proofs.CliSem
import CfrVerif.Props.C05
import CfrVerif.Props.C13
import CfrVerif.Props.C18
import CfrVerif.Props.C11
import CfrVerif.Props.C01
/-!
# Helper lemmas about the command-line model
-/
set_option linter.unusedSectionVars false
namespace Cfr

mutual
/-- the component lists of every node of a Gambit AST have equal lengths (they are the
components of one `actions()` slice) -/
def Efg.ShapeOK {α : Type} : Efg α → Prop
  | .term _ _ => True
  | .chance _ names probs kids _ _ =>
    names.length = kids.length ∧ probs.length = kids.length ∧ Efg.ShapeOKL kids
  | .player _ _ _ acts kids _ _ => acts.length = kids.length ∧ Efg.ShapeOKL kids
def Efg.ShapeOKL {α : Type} : List (Efg α) → Prop
  | [] => True
  | k :: ks => Efg.ShapeOK k ∧ Efg.ShapeOKL ks
end

mutual
/-- the same for the JSON AST (entries of one `BTreeMap`) -/
def JState.ShapeOK {α : Type} : JState α → Prop
  | .terminal _ => True
  | .chance _ names probs kids =>
    names.length = kids.length ∧ probs.length = kids.length ∧ JState.ShapeOKL kids
  | .player _ _ acts kids => acts.length = kids.length ∧ JState.ShapeOKL kids
def JState.ShapeOKL {α : Type} : List (JState α) → Prop
  | [] => True
  | k :: ks => JState.ShapeOK k ∧ JState.ShapeOKL ks
end

/-- what the two parsers returned is shaped like an AST -/
def Parsed.ShapeOK {α : Type} (p : Parsed α) : Prop :=
  (∀ s, p.json = some s → s.ShapeOK) ∧ (∀ f, p.gambit = some f → f.root.ShapeOK)

mutual
/-- two facts `gambit_parser`'s `validate` guarantees about an accepted file and that the meaning
of the file depends on: no terminal carries the null outcome `0` (`NullOutcomePayoffs`: a terminal
always has payoffs), and the probabilities of every chance node do not add up to zero
(`ChanceNotDistribution`: they add up to one) -/
def Efg.FileOK {α : Type} [Zero α] [Add α] : Efg α → Prop
  | .term oc _ => oc ≠ 0
  | .chance _ _ probs kids _ _ => probs.sum ≠ 0 ∧ Efg.FileOKL kids
  | .player _ _ _ _ kids _ _ => Efg.FileOKL kids
def Efg.FileOKL {α : Type} [Zero α] [Add α] : List (Efg α) → Prop
  | [] => True
  | k :: ks => Efg.FileOK k ∧ Efg.FileOKL ks
end

namespace CliP
variable {α : Type} [Field α] [LinearOrder α] [IsStrictOrderedRing α]

/-! ## sorting and zipping -/

theorem insertBy_perm {β : Type} (lt : β → β → Bool) (x : β) (l : List β) :
    (insertBy lt x l).Perm (x :: l) := by
  induction l with
  | nil => exact List.Perm.refl _
  | cons y ys ih =>
    simp only [insertBy]
    split_ifs
    · exact (List.Perm.cons y ih).trans (List.Perm.swap x y ys)
    · exact List.Perm.refl _

theorem sortBy_perm {β : Type} (lt : β → β → Bool) (l : List β) : (sortBy lt l).Perm l := by
  induction l with
  | nil => exact List.Perm.refl _
  | cons x xs ih =>
    have : sortBy lt (x :: xs) = insertBy lt x (sortBy lt xs) := rfl
    rw [this]
    exact (insertBy_perm lt x _).trans (List.Perm.cons x ih)

theorem mem_sortBy {β : Type} (lt : β → β → Bool) (l : List β) (x : β) :
    x ∈ sortBy lt l ↔ x ∈ l := (sortBy_perm lt l).mem_iff

theorem zip3_eq_zip {β γ δ : Type} (a : List β) (b : List γ) (c : List δ) :
    zip3 a b c = a.zip (b.zip c) := by
  induction a generalizing b c with
  | nil => cases b <;> cases c <;> simp [zip3]
  | cons x xs ih =>
    cases b with
    | nil => simp [zip3]
    | cons y ys =>
      cases c with
      | nil => simp [zip3]
      | cons z zs => simp [zip3, ih]

theorem mem_zip3 {β γ δ : Type} {a : List β} {b : List γ} {c : List δ} {e : β × γ × δ}
    (h : e ∈ zip3 a b c) : e.1 ∈ a ∧ e.2.1 ∈ b ∧ e.2.2 ∈ c := by
  obtain ⟨x, y, z⟩ := e
  rw [zip3_eq_zip] at h
  have h1 := List.of_mem_zip h
  have h2 := List.of_mem_zip h1.2
  exact ⟨h1.1, h2.1, h2.2⟩

theorem zip3_map_probs {β γ δ : Type} (a : List β) (b : List γ) (c : List δ)
    (h1 : a.length = c.length) (h2 : b.length = c.length) :
    (zip3 a b c).map (·.2.1) = b := by
  rw [zip3_eq_zip]
  have e : (fun e : β × γ × δ => e.2.1) = Prod.fst ∘ Prod.snd := rfl
  rw [e, ← List.map_map, List.map_snd_zip (by rw [List.length_zip]; omega),
    List.map_fst_zip (by omega)]

theorem zip3_map_kids {β γ δ : Type} (a : List β) (b : List γ) (c : List δ)
    (h1 : a.length = c.length) (h2 : b.length = c.length) :
    (zip3 a b c).map (·.2.2) = c := by
  rw [zip3_eq_zip]
  have e : (fun e : β × γ × δ => e.2.2) = Prod.snd ∘ Prod.snd := rfl
  rw [e, ← List.map_map, List.map_snd_zip (by rw [List.length_zip]; omega),
    List.map_snd_zip (by omega)]

theorem zip3_map_pair {β γ δ : Type} (a : List β) (b : List γ) (c : List δ)
    (h1 : a.length = c.length) (h2 : b.length = c.length) :
    (zip3 a b c).map (·.2) = b.zip c := by
  rw [zip3_eq_zip]
  exact List.map_snd_zip (by rw [List.length_zip]; omega)

theorem shapeL_iff (l : List (Raw α)) : Raw.ShapeL l ↔ ∀ r ∈ l, Raw.Shape r := by
  induction l with
  | nil => simp [Raw.ShapeL]
  | cons k ks ih => simp [Raw.ShapeL, ih]

theorem lvalidL_iff (ρ : LProfile α) (l : List (Raw α)) :
    LValidOnL ρ l ↔ ∀ r ∈ l, LValidOn ρ r := by
  induction l with
  | nil => simp [LValidOnL]
  | cons k ks ih => simp [LValidOnL, ih]

/-! ## the trees handed to `from_root` are shaped -/

mutual
theorem jstate_shape : ∀ s : JState α, Raw.Shape s.toRaw
  | .terminal p => by simp [JState.toRaw, Raw.Shape]
  | .chance info names probs kids => by
    simp only [JState.toRaw, Raw.Shape, List.length_map, true_and]
    rw [shapeL_iff]
    intro r hr
    obtain ⟨e, he, rfl⟩ := List.mem_map.mp hr
    rw [mem_sortBy] at he
    exact jstateL_shape kids _ (mem_zip3 he).2.2
  | .player one info acts kids => by
    simp only [JState.toRaw, Raw.Shape, List.length_map, true_and]
    rw [shapeL_iff]
    intro r hr
    obtain ⟨e, he, rfl⟩ := List.mem_map.mp hr
    rw [mem_sortBy] at he
    exact jstateL_shape kids _ (List.of_mem_zip he).2
theorem jstateL_shape : ∀ ks : List (JState α), ∀ r ∈ JState.toRawL ks, Raw.Shape r
  | [], r, h => by simp [JState.toRawL] at h
  | k :: ks, r, h => by
    simp only [JState.toRawL, List.mem_cons] at h
    rcases h with rfl | h
    · exact jstate_shape k
    · exact jstateL_shape ks r h
end

mutual
theorem efg_shape (gi : GlobalInfo α) : ∀ (n : Efg α) (cum : α) (r : Raw α),
    Efg.toRaw gi n cum = .ok r → Raw.Shape r
  | .term oc pays, cum, r, h => by
    simp only [Efg.toRaw] at h
    split at h
    · cases h
    · cases h; simp [Raw.Shape]
  | .chance info names probs kids oc pays, cum, r, h => by
    simp only [Efg.toRaw] at h
    split at h
    · cases h
    · split at h
      · cases h
      · rename_i np _ rs hrs
        cases h
        simp only [Raw.Shape, List.length_map, true_and]
        rw [shapeL_iff]
        intro r hr
        obtain ⟨e, he, rfl⟩ := List.mem_map.mp hr
        rw [mem_sortBy] at he
        exact efgL_shape gi kids _ rs hrs _ (mem_zip3 he).2.2
  | .player num info name acts kids oc pays, cum, r, h => by
    simp only [Efg.toRaw] at h
    split at h
    · cases h
    · split at h
      · cases h
      · split at h
        · cases h
        · split at h
          · cases h
          · rename_i rs hrs
            cases h
            simp only [Raw.Shape, List.length_map, true_and]
            rw [shapeL_iff]
            intro r hr
            obtain ⟨e, he, rfl⟩ := List.mem_map.mp hr
            rw [mem_sortBy] at he
            exact efgL_shape gi kids _ rs hrs _ (List.of_mem_zip he).2
theorem efgL_shape (gi : GlobalInfo α) : ∀ (ks : List (Efg α)) (cum : α) (rs : List (Raw α)),
    Efg.toRawL gi ks cum = .ok rs → ∀ r ∈ rs, Raw.Shape r
  | [], cum, rs, h, r, hr => by
    simp only [Efg.toRawL] at h
    cases h
    simp at hr
  | k :: ks, cum, rs, h, r, hr => by
    simp only [Efg.toRawL] at h
    split at h
    · cases h
    · rename_i r0 hr0
      split at h
      · cases h
      · rename_i rs0 hrs0
        cases h
        simp only [List.mem_cons] at hr
        rcases hr with rfl | hr
        · exact efg_shape gi k cum _ hr0
        · exact efgL_shape gi ks cum rs0 hrs0 r hr
end

/-! ## every loaded game is well formed -/

theorem fromRootCli_wf {raw : Raw α} {sum : α} {g : Game α} {s : α} (hs : Raw.Shape raw)
    (h : fromRootCli raw sum = .ok (g, s)) : GameWF g ∧ s = sum := by
  unfold fromRootCli at h
  split at h
  · cases h
  · rename_i g' hg
    cases h
    exact ⟨compile_ok_wf raw hs _ hg, rfl⟩

theorem jsonFromState_wf {s : JState α} {g : Game α} {sum : α}
    (h : jsonFromState s = .ok (g, sum)) : GameWF g :=
  (fromRootCli_wf (jstate_shape s) h).1

theorem gambitFromAst_wf {numName : Nat → Nat} {f : EfgFile α} {g : Game α} {sum : α}
    (h : gambitFromAst numName f = .ok (g, sum)) : GameWF g := by
  unfold gambitFromAst at h
  split at h
  · cases h
  · rename_i raw sum' hraw
    unfold gambitRaw at hraw
    split_ifs at hraw
    split at hraw
    · cases hraw
    · split at hraw
      · cases hraw
      · rename_i gi _ _ raw' hr
        cases hraw
        exact (fromRootCli_wf (efg_shape gi f.root 0 _ hr) h).1

theorem loadGame_cases (numName : Nat → Nat) (fmt : InputFormat) (kind : InputKind) (p : Parsed α) :
    loadGame numName fmt kind p = jsonFromReader p ∨
    loadGame numName fmt kind p = gambitFromReader numName p ∨
    loadGame numName fmt kind p = autoFromReader numName p := by
  cases fmt <;> cases kind <;> simp [loadGame]

/-- every game the program loads is well formed (the shape of the AST is not even needed: the
conversions pair the components up before `from_root` sees them) -/
theorem loadGame_wf {numName : Nat → Nat} {fmt : InputFormat} {kind : InputKind} {p : Parsed α}
    {g : Game α} {sum : α} (h : loadGame numName fmt kind p = .ok (g, sum)) : GameWF g := by
  rcases loadGame_cases numName fmt kind p with e | e | e <;> rw [e] at h
  · unfold jsonFromReader at h
    split at h
    · cases h
    · exact jsonFromState_wf h
  · unfold gambitFromReader at h
    split at h
    · cases h
    · exact gambitFromAst_wf h
  · unfold autoFromReader at h
    split at h
    · exact jsonFromState_wf h
    · split at h
      · exact gambitFromAst_wf h
      · cases h

/-! ## the output record -/

theorem hasDupNat_eq_false (l : List Nat) : hasDupNat l = false ↔ l.Nodup := by
  induction l with
  | nil => simp [hasDupNat]
  | cons x xs ih => simp [hasDupNat, ih]

/-- the conversion to the printed `Strategy` drops nothing from a named view: `as_named` lists only
positive probabilities already -/
theorem strategyOfNamed_asNamed (infos : List PInfo) (singles : List (Nat × Nat)) (σ : Strat α)
    (hn : ((asNamed infos singles σ).map (·.1)).Nodup) :
    strategyOfNamed (asNamed infos singles σ) = some (asNamed infos singles σ) := by
  unfold strategyOfNamed
  rw [if_neg (by rw [(hasDupNat_eq_false _).mpr hn]; simp)]
  congr 1
  unfold asNamed
  rw [List.map_append, List.map_map, List.map_map]
  congr 1
  · apply List.map_congr_left
    rintro ⟨i, v⟩ _
    simp only [Function.comp, ActIter.toList, List.filter_filter, Bool.and_self]
  · apply List.map_congr_left
    rintro ⟨l, a⟩ _
    simp [Function.comp]

/-- the named view of a valid strategy that fits well-formed tables is a valid printed strategy
(the three clauses of `PrintedValid`, `Props/C15.lean`) -/
theorem asNamed_valid (infos : List PInfo) (singles : List (Nat × Nat)) (σ : Strat α)
    (hw : TablesWF infos singles) (hf : Fits infos σ) (hσ : IsStrat σ) :
    (asNamed infos singles σ).map (·.1) = infos.map (·.label) ++ singles.map (·.1) ∧
    ((asNamed infos singles σ).map (·.1)).Nodup ∧
    ∀ e ∈ asNamed infos singles σ, (∀ a ∈ e.2, 0 < a.2) ∧ (e.2.map (·.2)).sum = 1 ∧
      (∀ a ∈ e.2, (∃ i ∈ infos, i.label = e.1 ∧ a.1 ∈ i.actions) ∨ (e.1, a.1) ∈ singles) := by
  refine ⟨asNamed_keys infos singles σ hf, asNamed_keys_nodup infos singles σ hw hf, ?_⟩
  intro e he
  unfold asNamed at he
  rcases List.mem_append.mp he with he | he
  · obtain ⟨⟨i, v⟩, hiv, rfl⟩ := List.mem_map.mp he
    obtain ⟨k, hk⟩ := List.mem_iff_getElem?.mp hiv
    obtain ⟨hi, hv⟩ := List.getElem?_zip_eq_some.mp hk
    refine ⟨?_, (asNamed_multi infos singles σ hf hσ k i v hi hv).2, ?_⟩
    · intro a ha
      simp only [ActIter.toList, List.mem_filter, decide_eq_true_eq] at ha
      exact ha.2
    · intro a ha
      simp only [ActIter.toList, List.mem_filter] at ha
      obtain ⟨a1, a2⟩ := a
      exact Or.inl ⟨i, (List.of_mem_zip hiv).1, rfl, (List.of_mem_zip ha.1).1⟩
  · obtain ⟨⟨l, a⟩, hla, rfl⟩ := List.mem_map.mp he
    refine ⟨?_, by simp, ?_⟩
    · intro b hb
      simp only [List.mem_singleton] at hb
      subst hb
      exact zero_lt_one
    · intro b hb
      simp only [List.mem_singleton] at hb
      subst hb
      exact Or.inr hla

theorem assemble_ok {g : Game α} {sum : α} {info : StrategiesInfo α} {one two : Strat α}
    {out : CliOut α} (h : assemble g sum info one two = .ok out) :
    ∃ s1 s2, strategyOfNamed (asNamed g.p1 g.s1 one) = some s1 ∧
      strategyOfNamed (asNamed g.p2 g.s2 two) = some s2 ∧
      out = ⟨info.regret, info.playerUtility true + sum, info.playerUtility false + sum,
        info.playerRegret true, info.playerRegret false, s1, s2⟩ := by
  unfold assemble at h
  split at h
  · rename_i s1 s2 h1 h2
    cases h
    exact ⟨s1, s2, h1, h2, rfl⟩
  · cases h

/-- the clip step prints one of two profiles -/
theorem report_cases {g : Game α} {sum clip : α} {one two : Strat α} {out : CliOut α}
    (h : report g sum clip one two = .ok out) :
    ∃ one' two', ((one' = one ∧ two' = two) ∨
        (one' = truncate clip one ∧ two' = truncate clip two)) ∧
      assemble g sum (getInfo g (fun p => if p then one' else two')) one' two' = .ok out := by
  unfold report at h
  simp only at h
  split_ifs at h
  · exact ⟨_, _, Or.inr ⟨rfl, rfl⟩, h⟩
  · exact ⟨_, _, Or.inl ⟨rfl, rfl⟩, h⟩

theorem truncate_fits {infos : List PInfo} {σ : Strat α} (clip : α)
    (h : IsStrat σ ∧ Fits infos σ) : IsStrat (truncate clip σ) ∧ Fits infos (truncate clip σ) := by
  refine ⟨truncate_valid _ _ h.1, ?_⟩
  unfold Fits
  rw [truncate_shape]
  exact h.2

theorem cliMain_ok {env : Env} {sched : Sched ℝ} {draw : DrawFn ℝ} {numName : Nat → Nat}
    {o : CliOpts ℝ} {fmt : InputFormat} {kind : InputKind} {p : Parsed ℝ} {out : CliOut ℝ}
    (h : cliMain env sched draw numName o fmt kind p = .ok out) :
    ∃ g sum sol, loadGame numName fmt kind p = .ok (g, sum) ∧
      gameSolve env sched g o.method o.iters o.maxRegret o.parallel
        (some o.discount.intoParams) draw = .ok sol ∧
      report g sum o.clipThreshold sol.stratOne sol.stratTwo = .ok out := by
  unfold cliMain at h
  split at h
  · cases h
  · rename_i g sum hl
    unfold runGame at h
    split at h
    · cases h
    · rename_i sol hsol
      exact ⟨g, sum, sol, hl, hsol, h⟩

theorem intoParams_ok (d : Discount) : (d.intoParams : RegretParams ℝ).OK := by
  cases d
  · exact presets_ok.1
  · exact presets_ok.2.1
  · exact presets_ok.2.2.1
  · exact presets_ok.2.2.2.1
  · exact presets_ok.2.2.2.2.1

/-- what a successful run prints: a valid profile of the (well-formed) game that was read,
assembled with its own evaluation -/
theorem cliMain_printed {env : Env} {sched : Sched ℝ} (hs : sched.Fair) {draw : DrawFn ℝ}
    {numName : Nat → Nat} {o : CliOpts ℝ} {fmt : InputFormat} {kind : InputKind} {p : Parsed ℝ}
    {out : CliOut ℝ} (h : cliMain env sched draw numName o fmt kind p = .ok out) :
    ∃ g sum one two, loadGame numName fmt kind p = .ok (g, sum) ∧ GameWF g ∧
      (IsStrat one ∧ Fits g.p1 one) ∧ (IsStrat two ∧ Fits g.p2 two) ∧
      assemble g sum (getInfo g (fun p => if p then one else two)) one two = .ok out := by
  obtain ⟨g, sum, sol, hl, hsol, hr⟩ := cliMain_ok h
  have hg : GameWF g := loadGame_wf hl
  have hw := solve_wellformed env sched hs g hg o.method o.iters o.maxRegret o.parallel
    (some o.discount.intoParams) (fun q hq => by cases hq; exact intoParams_ok _) draw sol hsol
  obtain ⟨one', two', hc, ha⟩ := report_cases hr
  have h1 : IsStrat sol.stratOne ∧ Fits g.p1 sol.stratOne := hw.stratOne
  have h2 : IsStrat sol.stratTwo ∧ Fits g.p2 sol.stratTwo := hw.stratTwo
  refine ⟨g, sum, one', two', hl, hg, ?_, ?_, ha⟩
  · rcases hc with ⟨rfl, rfl⟩ | ⟨rfl, rfl⟩
    · exact h1
    · exact truncate_fits _ h1
  · rcases hc with ⟨rfl, rfl⟩ | ⟨rfl, rfl⟩
    · exact h2
    · exact truncate_fits _ h2

/-- the assertion "internal error: found duplicate infosets" never fires on a valid profile of a
well-formed game -/
theorem assemble_succeeds {g : Game α} (hg : GameWF g) (sum : α) (info : StrategiesInfo α)
    {one two : Strat α} (h1 : IsStrat one ∧ Fits g.p1 one) (h2 : IsStrat two ∧ Fits g.p2 two) :
    ∃ out, assemble g sum info one two = .ok out := by
  unfold assemble
  rw [strategyOfNamed_asNamed _ _ _ (asNamed_keys_nodup g.p1 g.s1 one hg.tables1 h1.2),
    strategyOfNamed_asNamed _ _ _ (asNamed_keys_nodup g.p2 g.s2 two hg.tables2 h2.2)]
  exact ⟨_, rfl⟩

/-- once the game is loaded and the solve returns, the program prints a result -/
theorem cliMain_succeeds {env : Env} {sched : Sched ℝ} (hs : sched.Fair) {draw : DrawFn ℝ}
    {numName : Nat → Nat} {o : CliOpts ℝ} {fmt : InputFormat} {kind : InputKind} {p : Parsed ℝ}
    {g : Game ℝ} {sum : ℝ} {sol : SolveOut ℝ} (hl : loadGame numName fmt kind p = .ok (g, sum))
    (hsol : gameSolve env sched g o.method o.iters o.maxRegret o.parallel
      (some o.discount.intoParams) draw = .ok sol) :
    ∃ out, cliMain env sched draw numName o fmt kind p = .ok out := by
  have hg : GameWF g := loadGame_wf hl
  have hw := solve_wellformed env sched hs g hg o.method o.iters o.maxRegret o.parallel
    (some o.discount.intoParams) (fun q hq => by cases hq; exact intoParams_ok _) draw sol hsol
  have h1 : IsStrat sol.stratOne ∧ Fits g.p1 sol.stratOne := hw.stratOne
  have h2 : IsStrat sol.stratTwo ∧ Fits g.p2 sol.stratTwo := hw.stratTwo
  unfold cliMain
  rw [hl]
  simp only
  unfold runGame
  rw [hsol]
  simp only
  unfold report
  simp only
  split_ifs
  · exact assemble_succeeds hg _ _ (truncate_fits _ h1) (truncate_fits _ h2)
  · exact assemble_succeeds hg _ _ h1 h2

end CliP
end Cfr
