import CfrVerif.Proofs.CliSem
import CfrVerif.Props.C05
import CfrVerif.Props.C13
import CfrVerif.Props.C18
import CfrVerif.Props.C11
import CfrVerif.Props.C01
/-!
# Helper lemmas about the command-line model
-/
set_option linter.unusedSectionVars false
namespace Cfr

mutual
/-- the component lists of every node of a Gambit AST have equal lengths (they are the
components of one `actions()` slice) -/
def Efg.ShapeOK {α : Type} : Efg α → Prop
  | .term _ _ => True
  | .chance _ names probs kids _ _ =>
    names.length = kids.length ∧ probs.length = kids.length ∧ Efg.ShapeOKL kids
  | .player _ _ _ acts kids _ _ => acts.length = kids.length ∧ Efg.ShapeOKL kids
def Efg.ShapeOKL {α : Type} : List (Efg α) → Prop
  | [] => True
  | k :: ks => Efg.ShapeOK k ∧ Efg.ShapeOKL ks
end

mutual
/-- the same for the JSON AST (entries of one `BTreeMap`) -/
def JState.ShapeOK {α : Type} : JState α → Prop
  | .terminal _ => True
  | .chance _ names probs kids =>
    names.length = kids.length ∧ probs.length = kids.length ∧ JState.ShapeOKL kids
  | .player _ _ acts kids => acts.length = kids.length ∧ JState.ShapeOKL kids
def JState.ShapeOKL {α : Type} : List (JState α) → Prop
  | [] => True
  | k :: ks => JState.ShapeOK k ∧ JState.ShapeOKL ks
end

/-- what the two parsers returned is shaped like an AST -/
def Parsed.ShapeOK {α : Type} (p : Parsed α) : Prop :=
  (∀ s, p.json = some s → s.ShapeOK) ∧ (∀ f, p.gambit = some f → f.root.ShapeOK)

end Cfr
